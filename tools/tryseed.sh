#!/bin/bash
# usage: tryseed.sh <tag> <ID> [race]  -- confirm + try one seeded change from /tmp/seedout-<tag>
tag="$1"; id="$2"; race="${3:-}"
echo "### $tag"
/verif/tools/confirmseed.sh /tmp/seedout-$tag $race 2>&1 | tail -3 | tr '\n' ';'; echo
/verif/tools/trymutant.sh /tmp/seedout-$tag/patch.diff $id 2>&1 | tail -4 | cut -c1-150
