#!/usr/bin/env python3
"""kf.py add <replay.json> <status> <what> [commit]  -- append a known-finding entry taken from a replay file."""
import json, sys
path = "/verif/known_findings.json"
def main():
    if sys.argv[1] == "add":
        rep = json.load(open(sys.argv[2]))
        status, what = sys.argv[3], sys.argv[4]
        kf = json.load(open(path))
        for f in kf["findings"]:
            if f["property"] == rep["property"] and f["signature"] == rep["signature"]:
                print("already listed:", rep["signature"]); return
        e = {"property": rep["property"], "signature": rep["signature"], "status": status, "what": what, "witness": rep["cases"][0]}
        if len(sys.argv) > 5: e["commit"] = sys.argv[5]
        kf["findings"].append(e)
        json.dump(kf, open(path, "w"), indent=1, ensure_ascii=False)
        pass
main()
