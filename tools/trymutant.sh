#!/bin/bash
# usage: trymutant.sh <patch.diff> [--suite] <ID>...   -- applies a candidate change to a scratch worktree of /repo HEAD,
# optionally runs the pinned suite there, runs the quick checks of the given properties against it, removes the worktree.
. /verif/env.sh
PATCH="$(realpath "$1")"; shift
SUITE=0; if [ "$1" = "--suite" ]; then SUITE=1; shift; fi
WT=$(mktemp -d /tmp/mut-XXXXXX); rmdir "$WT"
git -C /repo worktree add -q --detach "$WT" HEAD || exit 2
trap 'git -C /repo worktree remove --force "$WT" >/dev/null 2>&1; rm -rf "$WT"; rm -f /verif/.build/*alt-$(basename "$WT")*' EXIT
if ! git -C "$WT" apply "$PATCH"; then echo "PATCH DOES NOT APPLY"; exit 2; fi
( cd "$WT" && go build ./... ) || { echo "MUTANT DOES NOT BUILD"; exit 2; }
if [ "$SUITE" = 1 ]; then
  ( cd "$WT" && go test -vet=off -count=1 ./... 2>&1 | grep -v "^ok\|no test files\|TestAllLessFilesRender\|lessfiles_test\|Error Trace\|Error:\|Test:\|Messages\|permission denied\|Received unexpected\|Tests working dir\|^FAIL$\|^FAIL\s.*tests\s" | head -20 )
fi
for id in "$@"; do
  out=$(VERIF_REPO="$WT" /verif/check "$id" quick 2>&1); rc=$?
  echo "== $id exit=$rc $(echo "$out" | grep -c '^VIOLATION') violation signature(s)"
  echo "$out" | grep "signature:" | head -5 | cut -c1-160
done
