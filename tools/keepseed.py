#!/usr/bin/env python3
"""keepseed.py <tag> <property> <caught_by|MISSED> <needs...>  -- stores /tmp/seedout-<tag> as /verif/seeded/<tag>/"""
import sys, os, shutil, json
tag, prop, caught = sys.argv[1], sys.argv[2], sys.argv[3]
needs = " ".join(sys.argv[4:])
src = "/tmp/seedout-" + tag
dst = "/verif/seeded/" + tag
os.makedirs(dst, exist_ok=True)
shutil.copy(src + "/patch.diff", dst + "/patch.diff")
if os.path.isdir(dst + "/demo"): shutil.rmtree(dst + "/demo")
shutil.copytree(src + "/demo", dst + "/demo")
if os.path.exists(src + "/notes.md"): shutil.copy(src + "/notes.md", dst + "/notes.md")
meta = {"id": tag, "breaks_property": prop, "needs_to_manifest": needs,
        "origin": "independent sub-agent given only the property text and a scratch worktree",
        "confirmed": "tools/confirmseed.sh: demo passes without the change, the pinned suite passes with it, demo fails with it",
        "detected_by": caught}
json.dump(meta, open(dst + "/meta.json", "w"), indent=1)
print("kept", dst)
