#!/bin/bash
# usage: portseed.sh start <id> | finish <id>
#  start : scratch worktree /tmp/port-<id> of /repo HEAD with the kept patch applied by 3-way merge, conflicts left in place
#  finish: (after the conflicts were resolved by hand) builds, regenerates the patch against HEAD, confirms it with the
#          seed's demo (tools/confirmseed.sh) and runs the quick check of its property; stores the patch when caught
. /verif/env.sh
cmd="$1"; id="$2"; d=/verif/seeded/$id; WT=/tmp/port-$id
prop=$(python3 -c "import json;print(json.load(open('$d/meta.json'))['breaks_property'])")
case "$cmd" in
start)
  git -C /repo worktree add -q --detach "$WT" HEAD || exit 2
  git -C "$WT" apply --3way "$d/patch.diff" >/dev/null 2>&1
  for f in $(git -C "$WT" diff --name-only --diff-filter=U | sort -u); do echo "== $f"; awk '/^<<<<<<< /{p=1} p{print NR": "$0} /^>>>>>>> /{p=0}' "$WT/$f"; done ;;
finish)
  if grep -rl '^<<<<<<< \|^>>>>>>> ' "$WT" --include=*.go >/dev/null; then echo "conflict markers left"; exit 2; fi
  (cd "$WT" && gofmt -l . | grep -v "^markdown/" ; go build ./...) || { echo BUILD FAILED; exit 2; }
  git -C "$WT" add -A >/dev/null 2>&1; git -C "$WT" diff --cached HEAD > /tmp/port-$id.patch
  mkdir -p /tmp/seedout-port-$id; cp /tmp/port-$id.patch /tmp/seedout-port-$id/patch.diff; rm -rf /tmp/seedout-port-$id/demo; cp -r "$d/demo" /tmp/seedout-port-$id/demo
  git -C /repo worktree remove --force "$WT" >/dev/null 2>&1; rm -rf "$WT"
  /verif/tools/confirmseed.sh /tmp/seedout-port-$id 2>&1 | tail -3 | tr '\n' ';'; echo
  out=$(/verif/tools/trymutant.sh /tmp/port-$id.patch $prop 2>&1); echo "$out" | tail -3 | cut -c1-160
  if echo "$out" | grep -q "exit=1"; then
    [ -f "$d/patch.original.diff" ] || cp "$d/patch.diff" "$d/patch.original.diff"
    cp /tmp/port-$id.patch "$d/patch.diff"; echo "STORED $d/patch.diff"
  fi
  rm -rf /tmp/seedout-port-$id ;;
esac
