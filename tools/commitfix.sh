#!/bin/bash
# usage: commitfix.sh <message-file>  -- builds /repo (tag off and on), runs the pinned suite with the tag off, commits
. /verif/env.sh
cd /repo || exit 2
go build ./... && go build -tags verif ./... || { echo BUILD FAILED; exit 1; }
/verif/baseline.sh || { echo BASELINE FAILED; exit 1; }
git add -A && git commit -q -F "$1" && git log --oneline | head -1
