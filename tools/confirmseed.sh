#!/bin/bash
# usage: confirmseed.sh <seedout-dir> [race]  -- confirms a seeded change independently:
# suite passes with it, demo fails with it and passes without it. Uses a scratch worktree of /repo HEAD.
. /verif/env.sh
SO="$1"; RACE="${2:-}"
WT=$(mktemp -d /tmp/cs-XXXXXX); rmdir "$WT"
git -C /repo worktree add -q --detach "$WT" HEAD || exit 2
D=$(mktemp -d /tmp/csdemo-XXXXXX)
trap 'git -C /repo worktree remove --force "$WT" >/dev/null 2>&1; rm -rf "$WT" "$D"' EXIT
cp -r "$SO/demo/." "$D/"
if [ -f "$D/go.mod" ]; then sed -i "s#=> /tmp/seed-[A-Za-z0-9-]*#=> $WT#" "$D/go.mod"; cp "$WT/go.sum" "$D/go.sum"; fi
FLAGS="-vet=off -count=1"; [ -n "$RACE" ] && FLAGS="$FLAGS -race"
rundemo() { if [ -f "$D/go.mod" ]; then (cd "$D" && go test $FLAGS ./... >/dev/null 2>&1); else cp "$D"/*_test.go "$WT"/ 2>/dev/null; (cd "$WT" && go test $FLAGS -run 'Seed|Demo' . >/dev/null 2>&1); r=$?; (cd "$WT" && git clean -fdq); return $r; fi; }
rundemo; echo "demo without change: exit $? (want 0)"
git -C "$WT" apply "$SO/patch.diff" || { echo "patch does not apply to HEAD"; exit 2; }
(cd "$WT" && go build ./... ) || { echo "does not build"; exit 2; }
fails=$(cd "$WT" && go test -vet=off -count=1 ./... 2>&1 | grep -c "^--- FAIL" )
echo "suite with change: $fails failing test(s) (want 1 = TestAllLessFilesRender only)"
rundemo; echo "demo with change: exit $? (want non-zero)"
