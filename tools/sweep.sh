#!/bin/bash
# usage: sweep.sh <tier> <seed>... -- runs every property's check for each seed, prints one line per run
TIER="$1"; shift
for seed in "$@"; do
  for i in $(seq -w 1 20); do
    out=$(VERIF_SEED=$seed "$(dirname "$0")/../check" C$i $TIER 2>&1); rc=$?
    echo "seed=$seed C$i exit=$rc $(echo "$out" | tail -1 | cut -c1-160)"
    if [ $rc -ne 0 ]; then echo "$out" | grep "signature:\|INCONCLUSIVE" | head -8 | cut -c1-200; fi
  done
done
