#!/usr/bin/env python3
"""seedprompts.py <round>  -- writes one prompt per property to /tmp/prompts<round>/<ID>.md, creates the scratch worktrees
/tmp/seed-<ID>-<round> (of /repo HEAD) and the delivery directories /tmp/seedout-<ID>-<round>. A prompt holds the property's
text, the toolchain set-up, the task (baseline observations first, then one plausible breaking change that passes the suite,
plus a demo) and, so that rounds do not repeat each other, what the kept changes of earlier rounds need in order to manifest.
Nothing from /verif's checks goes into a prompt."""
import json, glob, os, subprocess, sys
rnd = sys.argv[1]
props = {}
for l in open('/verif/properties.jsonl'):
    d = json.loads(l); props[d['id']] = d
seeds = {}
for f in sorted(glob.glob('/verif/seeded/*/meta.json')):
    m = json.load(open(f)); seeds.setdefault(m['breaks_property'], []).append(m)
hints = json.load(open('/verif/tools/seedhints.json'))
os.makedirs('/tmp/prompts' + rnd, exist_ok=True)
body = open('/verif/tools/seedprompt.body.md').read()
for pid, d in props.items():
    tag = pid + '-' + rnd
    earlier = "\n".join("  - " + m['needs_to_manifest'] for m in seeds.get(pid, []))
    # the functions earlier changes were made in (from the hunk headers of their patches)
    import re
    funcs = {}
    for m in seeds.get(pid, []):
        try:
            txt = open('/verif/seeded/%s/patch.diff' % m['id']).read()
        except OSError:
            continue
        cur = None
        for line in txt.splitlines():
            if line.startswith('+++ b/'):
                cur = line[6:]
            mm = re.match(r'^@@ .* @@ func (?:\([^)]*\) )?(\w+)', line)
            if mm and cur:
                funcs.setdefault(cur, set()).add(mm.group(1))
    if funcs:
        earlier += "\n  Functions those changes were made in (choose others where you can): " + "; ".join(
            "%s: %s" % (f, ", ".join(sorted(v))) for f, v in sorted(funcs.items()))
    p = (body.replace('__TAG__', tag).replace('__TITLE__', d['title']).replace('__STATEMENT__', d['statement'])
             .replace('__QUANT__', d['quantifier']['text']).replace('__HINT__', hints[pid]).replace('__EARLIER__', earlier))
    open('/tmp/prompts%s/%s.md' % (rnd, pid), 'w').write(p)
    subprocess.run(['git', '-C', '/repo', 'worktree', 'add', '-q', '--detach', '/tmp/seed-' + tag, 'HEAD'])
    os.makedirs('/tmp/seedout-%s/demo' % tag, exist_ok=True)
print(len(props), 'prompts')
