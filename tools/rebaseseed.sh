#!/bin/bash
# usage: rebaseseed.sh <seed-id>...  -- tries to carry a kept seeded change whose patch no longer applies over to /repo HEAD
# with a 3-way merge (the patch records the blob ids it was made against); on success the patch is regenerated against HEAD
# (the original kept as patch.original.diff) and the quick check of its property is run against it.
. /verif/env.sh
for id in "$@"; do
  d=/verif/seeded/$id; prop=$(python3 -c "import json;print(json.load(open('$d/meta.json'))['breaks_property'])")
  WT=$(mktemp -d /tmp/rb-XXXXXX); rmdir "$WT"
  git -C /repo worktree add -q --detach "$WT" HEAD || continue
  if git -C "$WT" apply --3way "$d/patch.diff" >/dev/null 2>&1 && ! git -C "$WT" diff --name-only --diff-filter=U | grep -q .; then
    if (cd "$WT" && go build ./... 2>/dev/null); then
      git -C "$WT" diff HEAD > /tmp/rb.patch
      out=$(VERIF_REPO="$WT" /verif/check "$prop" quick 2>&1); rc=$?
      if [ $rc -eq 1 ]; then
        [ -f "$d/patch.original.diff" ] || cp "$d/patch.diff" "$d/patch.original.diff"
        cp /tmp/rb.patch "$d/patch.diff"
        echo "$id $prop REBASED and CAUGHT ($(echo "$out" | grep 'signature:' | head -1 | sed 's/ *signature: //' | cut -c1-80))"
      else echo "$id $prop REBASED but not caught (exit $rc) - patch left as it was"; cp /tmp/rb.patch /tmp/rb-$id.patch; fi
    else echo "$id $prop 3-way merge builds no more"; fi
  else echo "$id $prop 3-way merge has conflicts"; fi
  git -C /repo worktree remove --force "$WT" >/dev/null 2>&1; rm -rf "$WT"
done
