#!/usr/bin/env python3
"""fixedfrom.py <old-commit> <ID> <fix-commit> <sig-substring> <what>
Runs the quick check of <ID> against a scratch worktree of /repo at <old-commit> (the tree before the fix) and records,
as 'fixed' entries with their witnesses, the violation signatures containing <sig-substring> that are not yet listed."""
import sys, subprocess, json, glob, os, tempfile, shutil
old, pid, fix, sub, what = sys.argv[1:6]
wt = tempfile.mkdtemp(prefix="ff-", dir="/tmp"); os.rmdir(wt)
subprocess.check_call(["git", "-C", "/repo", "worktree", "add", "-q", "--detach", wt, old])
try:
    env = dict(os.environ, VERIF_REPO=wt)
    subprocess.run(["/verif/check", pid, "quick"], env=env, stdout=subprocess.DEVNULL, stderr=subprocess.DEVNULL, timeout=1800)
    kfp = "/verif/known_findings.json"
    kf = json.load(open(kfp))
    have = {(f["property"], f["signature"]) for f in kf["findings"]}
    n = 0
    for f in sorted(glob.glob("/verif/replays/%s-quick-*.json" % pid)):
        r = json.load(open(f))
        if sub in r["signature"] and (pid, r["signature"]) not in have:
            kf["findings"].append({"property": pid, "signature": r["signature"], "status": "fixed", "commit": fix,
                                   "what": "fixed: property=%s %s %s" % (pid, fix, what), "witness": r["cases"][0]})
            n += 1
            print("  +", r["signature"])
    json.dump(kf, open(kfp, "w"), indent=1, ensure_ascii=False)
    print("added", n)
finally:
    subprocess.call(["git", "-C", "/repo", "worktree", "remove", "--force", wt])
