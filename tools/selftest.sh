#!/bin/bash
# Re-applies every kept seeded change to a scratch worktree of /repo HEAD and runs the quick check of the property it
# breaks; expects exit 1 (violation reported). Prints one line per change. Changes whose patch no longer applies to
# HEAD are reported as STALE (the code they touched has changed since).
. /verif/env.sh
for d in /verif/seeded/*/; do
  id=$(basename "$d"); [ -f "$d/meta.json" ] || continue
  prop=$(python3 -c "import json;m=json.load(open('$d/meta.json'));print(m.get('check',m['breaks_property']))")
  status=$(python3 -c "import json;print(json.load(open('$d/meta.json')).get('status',''))")
  case "$status" in neutralised*) echo "$id $prop NEUTRALISED ($status)"; continue;; esac
  WT=$(mktemp -d /tmp/st-XXXXXX); rmdir "$WT"
  git -C /repo worktree add -q --detach "$WT" HEAD || continue
  if ! git -C "$WT" apply "$d/patch.diff" 2>/dev/null; then echo "$id $prop STALE (patch does not apply to HEAD)"; git -C /repo worktree remove --force "$WT"; continue; fi
  if ! (cd "$WT" && go build ./... 2>/dev/null); then echo "$id $prop STALE (does not build on HEAD)"; git -C /repo worktree remove --force "$WT"; continue; fi
  out=$(VERIF_REPO="$WT" /verif/check "$prop" quick 2>&1); rc=$?
  n=$(echo "$out" | grep -c '^VIOLATION')
  if [ $rc -eq 1 ]; then echo "$id $prop CAUGHT ($n signature(s): $(echo "$out" | grep 'signature:' | head -1 | sed 's/ *signature: //' | cut -c1-80))"; else echo "$id $prop MISSED (exit $rc)"; fi
  git -C /repo worktree remove --force "$WT" >/dev/null 2>&1; rm -rf "$WT"
done
