#!/usr/bin/env python3
"""Regenerates /verif/seeded/README.md from the meta.json files."""
import json, glob, os
rows = []
for d in sorted(glob.glob('/verif/seeded/*/meta.json')):
    m = json.load(open(d))
    rows.append(m)
out = ["# Seeded changes\n",
       "Each directory holds a change to titpetric/vuego produced by an independent sub-agent that was given only the text of one property and a scratch worktree: `patch.diff` (applies to /repo HEAD at the time it was made), `demo/` (fails with the change, passes without), `notes.md`, `meta.json`. Every change compiles and passes the pinned suite; each was confirmed with `tools/confirmseed.sh` and run against the checks with `tools/trymutant.sh <patch> <id>` (scratch worktree, removed afterwards).\n",
       "| id | property | needs to manifest | detected by |", "|---|---|---|---|"]
for m in rows:
    det = m['detected_by']
    if os.path.exists('/verif/seeded/%s/patch.original.diff' % m['id']):
        det += " [patch.diff carried over to the current tree by hand after later fixes touched the same code; the agent's own patch is patch.original.diff]"
    if m.get('status'):
        det += " [" + m['status'] + "]"
    out.append("| %s | %s | %s | %s |" % (m['id'], m['breaks_property'], m['needs_to_manifest'].replace('|', '/'), det.replace('|', '/')))
missed = [m for m in rows if m['detected_by'].startswith('MISSED')]
out.append("\n%d changes kept; %d of them were missed by the check as it was when the change arrived and led to a strengthened check (noted in the 'detected by' column)." % (len(rows), len(missed)))
out.append("\n`tools/selftest.sh` re-applies every kept change to a scratch worktree of /repo HEAD and expects the quick check named in its meta.json (`check`, default the property it breaks) to report a violation; changes marked neutralised are listed, not run.")
open('/verif/seeded/README.md', 'w').write("\n".join(out) + "\n")
print(len(rows), "seeded changes,", len(missed), "initially missed")
