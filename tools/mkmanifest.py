#!/usr/bin/env python3
"""Regenerates /verif/MANIFEST.json from the table below (one row per claimed property)."""
import json, os, subprocess
ROOT = os.path.dirname(os.path.dirname(os.path.abspath(__file__)))
ALL = ["C%02d" % i for i in range(1, 21)]
# id -> (level category, level text, level note, technique, design ref)
CLAIMED = {
 "C01": ("exploration",
         "Differential re-parse under hostile values: every template of the grid (10 escaped sinks x 16 enclosing constructs x 4 static neighbourhoods) is rendered by the real engine with a harmless word and with each hostile value; an HTML5 parser must find the same elements and attribute names, every non-sink text run/attribute must be unchanged, the sink must hold the value literally, and a canary variable / registered function must never show up. All strings up to length 3 (quick) / 4 (thorough) over a 14-symbol hostile alphabet are enumerated on the base grid, a 150-token dictionary on the full grid, random concatenations beyond. Held means: on the executions listed in the evidence.",
         "golang.org/x/net/html is the trusted observer; values with CR/NUL not generated; a defect present for every value incl. the harmless word is C02's; longer strings are sampled, not enumerated.",
         "runtime differential monitor (harmless vs hostile render, HTML5 re-parse, canary) over enumerated + seeded inputs", "4/C01"),
 "C02": ("exploration",
         "The real engine renders generated parser-stable fragments and full documents (and every directive-free file of the repository) through all seven render entry points; the parse of the bytes is compared node by node with the parse of the source (elements, attribute names and values, text, doctype). Typed values are interpolated and the parsed sink compared with neighbours + fmt.Sprint(value); v-html values must appear verbatim in the bytes.",
         "x/net/html trusted on both sides with the engine's own document/fragment rule; generator keeps only parser-stable sources; full documents judged through file entry points only; whitespace normalised per text node.",
         "runtime round-trip monitor (HTML5 re-parse of output vs source) over seeded generated documents", "4/C02"),
 "C03": ("exploration",
         "Every chain shape v-if + k x v-else-if (k<=2 quick, <=3 thorough) +/- v-else x every truth assignment x 9 placements x bare/negated conditions is rendered by the real engine with values rotating through every Go value kind; the markers found among the parent's children must be exactly those a 20-line reference predicts. Every value of the kind catalogue is read in v-if, v-else-if, v-show, :attr and :class object (and negated) and must agree with the stated truthiness table. Exhaustive inside the stated bounds.",
         "x/net/html re-parse trusted; typed nil pointers/slices/maps reported but not judged; orphan v-else and non-whitespace text between members are outside the statement.",
         "reference-model monitor over an exhaustively enumerated bounded program space (marker oracle on re-parsed output)", "4/C03"),
 "C09": ("exploration",
         "The real engine, built with the Go race detector, serves short runs of 2-16 goroutines released by a barrier onto one shared Vue or base Template (cold and warm caches, private and shared read-only data, all catalogue features, previously unseen expressions/paths) while failpoints at the engine's hook points inject seeded yields, sleeps and rendezvous so that two goroutines sit in the same cache window together. Three monitors decide: race-detector reports collected per worker, each call's bytes+error vs the same call alone on a fresh engine, and porcupine linearizability of recorded edit/render histories (files rewritten underneath) against a register-per-file model. Evidence lists hook hits, rendezvous met per window, histories and operations checked.",
         "happens-before analysis only covers executed access pairs; schedules are perturbed, not enumerated; the linearizable in-memory FS, porcupine v1.3.0 and the race runtime are trusted; callers use the API as docs/concurrency.md prescribes.",
         "Go race detector + solo-reference differential + porcupine linearizability check over failpoint-perturbed stress runs", "4/C09"),
 "C10": ("exploration",
         "A catalogue of 42 template programs (every directive, includes, slots, layouts, filters, failing templates) lives in one filesystem; all ordered pairs, 20-fold repetitions and seeded sequences are rendered on one long-lived engine through four entry points and every step's bytes and error are compared with the same program on a fresh engine; caller data is deep-compared before/after; every program prints the inner-scope variable names of all programs (leak probes); hooks assert that pooled scope maps and builders are handed out empty. Thorough tier repeats under -race.",
         "reference = fresh-engine render (its hash recorded per worker process and compared between the 16 processes, whose render histories differ); catalogue coverage, not all templates; error text compared literally.",
         "history monitor: byte-equality against a fresh-engine reference + invariant hooks on pooled state + offline check that all worker processes recorded the same reference bytes", "4/C10"),
 "C11": ("exploration",
         "Isolated worker processes (ulimit, watchdog, begin/end marker per case) feed the real engine random bytes, token soup and mutated corpus files as templates and front-matter, every typed value of a 45-value catalogue in every directive position (exhaustive), every include graph over 3 files x 4 include forms (exhaustive) and layout cycles/chains. A recovered panic, a process-fatal error attributed by the marker, or a logical bound exceeded at the engine's hooks (include chain, evaluate depth/steps, serialiser steps, layout iterations) is a violation; a watchdog firing alone is inconclusive.",
         "harness functions are total; self-referential maps not generated; bounded progress is decided on logical counters, not wall-clock.",
         "crash/panic monitor over isolated worker processes + logical step bounds at hook points", "4/C11"),
 "C15": ("exploration",
         "Edit/render histories over a 20-symbol alphabet (edit page/component/layout x mtime advance/equal/backwards/zero, delete/recreate, make invalid, render through three entry points) are executed against one long-lived engine over a mutable in-memory filesystem; after every render the (bytes, error-ness) is compared with a newly created engine over the current files. Exhaustive for length <=3 (quick) / <=4 (thorough) plus seeded histories of length 6-20; cache hit/miss hooks prove which answers came from the cache.",
         "versions whose mtime is indistinguishable from the current one (equal or zero) are exempt as the cache documents; single goroutine; MapFS trusted.",
         "differential history monitor (long-lived vs fresh engine) with cache hit/miss hooks", "4/C15"),
 "C18": ("exploration",
         "The real OverlayFS is run against every stack of up to 3 (thorough: 4) layers (nil or one of 48 MapFS states over a 6-path universe) and every ReadFile/Stat/ReadDir/Glob query over that universe; each answer is compared online with a 40-line reference union model. Exhaustive inside that bound, nothing beyond it.",
         "testing/fstest.MapFS and io/fs helpers are trusted; paths deeper than two components, symlinks and layers that fail with errors other than not-exist are not explored.",
         "reference-model monitor over an exhaustively enumerated bounded configuration space (runtime differential check)", "4/C18"),
}

CLAIMED.update({
 "C04": ("exploration",
         "Loop nests of depth 1-3 are generated as a case description from which both the template and the expected marker tree are derived; a reference interpreter in the check iterates the described items with its own scope model. Every name (item, index, outer loop variables, an unshadowed root name) is read through probe elements in five read positions ({{ }}, interpolated attribute, :attr, expression, v-if) before, inside, at the end of and after each loop and in the v-else branch. Depth-1 grid over 95 collection variants (22 sequence kinds x lengths 0-3, nil, missing) x 27 shadowing name pairs x 3 root kinds x else/if/shape options is exhaustive in the thorough tier; deeper nests are seeded.",
         "x/net/html re-parse trusted; a v-else separated from the loop by another element, maps/strings/numbers as collections (crash-only) and bound attributes on looped <template> are not judged.",
         "reference-interpreter monitor over enumerated + seeded loop programs (marker oracle on re-parsed output)", "4/C04"),
 "C05": ("exploration",
         "Include trees (depth<=3, fan-out<=3) are rendered by the real engine; every file prints a 4-name universe before its first include and again after every include, each print carrying JSON value, Go type (| type) and text. A scope calculus in the check (includer env + props + component front-matter, fresh scope per instance) predicts the exact marker sequence; :required must fail, naming the variable, iff a required name is absent from the merged environment; every shorthand render is compared byte for byte with the equivalent <template include> render. Prop-form grid, 64 typed values and multi-instance combinations are exhaustive, trees seeded.",
         "'provided' is read as 'visible to the component'; a required name bound to nil and YAML type decoding of front-matter are not judged.",
         "reference scope-calculus monitor + differential (shorthand vs include) over enumerated + seeded include trees", "4/C05"),
 "C06": ("exploration",
         "Template sets are described by a small AST (elements, v-if/v-for, includes with supplied content, slots), printed to vuego source and rendered through Template.Render, Vue.Render and RenderString; the same AST is evaluated by a reference model of the statement (content evaluated in the includer's environment plus the slot's props, fallback exactly when nothing was supplied, one slot scope per include tag). Every slot is wrapped in a marker element and both outputs are compared node by node. All single-instance combinations of slot sets, fallbacks, scoped props and 9x7x7 supply forms are exhaustive; multi-instance, loops, nesting to depth 3, layout-inherited slots and pass-through slots are enumerated or seeded.",
         "a slot template without a declared variable, explicit <slot name=default>, duplicate supplies and v-slot mixed with plain children are not judged.",
         "reference-model monitor over an AST-described program space (marker oracle, node-by-node diff)", "4/C06"),
 "C07": ("exploration",
         "Each case is a small file tree with page, layouts, Fill data and front-matter rendered through Load().Fill().Render and RenderFile; an independent resolver predicts the chain (page first, default base only when due, relative before layouts/, cycle and missing-target errors) and the check asserts one marker nest with the page innermost, nothing written on error, page data visible in every layer, and at most limit+2 layout-loop iterations counted at an engine hook. The pruned graph space over 6 files x 7 layout options, chains of every length 1-102 and 150, cycles of length 1-4 entered after 0-3 links and all key-collision subsets are exhaustive; random trees are seeded.",
         "a chain of exactly 100 layouts is accepted either way; ambiguous .vuego resolution and layout-defined front-matter keys are not judged.",
         "reference-resolver monitor over an exhaustively enumerated bounded file-graph space + logical step bound at a hook", "4/C07"),
 "C08": ("exploration",
         "A case is a small program over the public API (constructor, theme.yml, data/*.yml, files with front-matter, Fill/Assign/New/Load/Render/Get calls) executed on the real engine and on an independent reference model of the template tree in parallel; every key is read as {{ }}, interpolated attribute, v-text, :attr, expression and v-if and through Template.Get. The 2^5 presence matrix x Fill/Assign orders x value types x data shapes (map, struct by tag / field name / untagged, pointer) x 7 entry points, all data-file subsets and all call histories of length <=3 (quick) / <=4 (thorough) are exhaustive; longer histories are seeded.",
         "keys a later Fill omits, inherited front-matter and front-matter under RenderString are weakly judged as stated in the check's assumptions.",
         "reference-model monitor over exhaustive precedence matrix + enumerated/seeded API histories", "4/C08"),
 "C12": ("fault_enumeration",
         "An instrumented io.Writer logs every Write (offset, length, accepted bytes, injected error) and fails at a chosen offset in six ways (sticky or once; accepting a prefix, nothing or everything). Every entry point (Load().Render with no/default/explicit/chained layout, RenderFile, RenderString, RenderByte, RenderReader) x 9 succeeding and ~45 failing programs (failure early/late, in attribute, loop, include, slot, layout, reader, node processor, context cancelled before or during the call) is run; every program that returns nil gets every writer behaviour at every offset 0..len(document) (thorough: every byte offset; quick: one offset per observed Write for the two behaviours where that is equivalent). Conservation check: error and healthy writer => 0 bytes; nil => exactly the reference document; writer failure => non-nil error.",
         "which error is returned and what a failed writer holds are not judged; writers violating the io.Writer contract are not generated.",
         "fault injection at every writer offset + conservation check over the recorded write log", "4/C12"),
 "C13": ("exploration",
         "Typed expression trees (every operator x operand-type signature at depth 1, every operator pair at depth 2, seeded deeper trees, 4 surface styles kept apart) are rendered in seven positions ({{ }}, interpolated and bound attributes, v-bind, v-if, v-else-if, v-show) over four typed environments and compared with an independent typed interpreter in the check; every filter chain of length 1-2 (3 in thorough) over 31 filter forms, every parameter-kind x argument-kind pairing, 34 quoting variants and the error contract (unknown function, arity, conversion, function error must fail the render naming the function) are enumerated; 42 documentation examples are replayed.",
         "debatable arithmetic (integer division with remainder, % on negatives, mixed int/float equality, cross-type comparison) and undocumented conversions are not judged.",
         "reference-interpreter monitor over enumerated + seeded expression trees and filter chains", "4/C13"),
 "C14": ("exploration",
         "One element carrying 1-6 attribute specs (static, interpolated, : / v-bind: bound, class object, style object, v-show, bracketed, every directive) drawn from a 70-atom vocabulary is rendered inside marker siblings, also as a conditional-chain member and inside v-for; a reference model computes the expected attribute set: generic attributes exact, class as ordered token list, style as property map with bound overriding static and display:none iff v-show is falsy, bracketed attributes unwrapped with the raw value, no directive in the output, static order kept. All 1- and 2-sequences (and all 343k triples in thorough) are enumerated, longer ones seeded over every Go value kind.",
         "style-object values that are empty/nil/bool or contain ';', two bound class/style attributes and elements under v-pre are not judged or not generated.",
         "reference-model monitor over enumerated attribute combinations (attribute-set oracle on re-parsed output)", "4/C14"),
 "C16": ("exploration",
         "Cases are an AST of placements (144 wrapper pairs over v-for, <template v-for>, v-if, includes of bare and <template>-rooted components, loops around includes, slots) x 12 payload arrangements of marked elements, rendered through seven entry points, each engine rendering P, Q, P (and P again in thorough); a reference model walks the AST with one seen-set per render unit (the page and each layout separately) and the number of occurrences of every unique marker in the parsed output must match.",
         "a marked element is judged only when the unmarked witness beside it appears as often as the model says; v-once+v-for on one element tolerates one copy per iteration.",
         "exactly-once checker over markers in the re-parsed output against a reference placement model", "4/C16"),
 "C17": ("exploration",
         "Every sequence of 4 (quick) / 5 (thorough) operations over an 11-letter alphabet (Push nil/map, Pop, Set, Copy and continue on either side) x 6 root configurations is executed on the real Stack and on a reference scope-list model; after every operation Lookup and EnvMap are compared for every name on every live stack, plus Resolve, the typed getters and ForEach once per prefix. Path resolution uses nested values built together with their table of valid steps (9 holder kinds around 31 terminals, depth <=2/3), every valid and invalid step in four spellings. A hook asserts that pooled scope maps are empty when handed out.",
         "presence flag of a nil element, promoted fields by JSON tag and map[int]T keys are crash-only; unmatched Pop is never issued.",
         "model-based monitor: reference scope-list model over exhaustive operation sequences + by-construction path tables + pool invariant hook", "4/C17"),
 "C19": ("exploration",
         "Format is run on every .vuego file and documentation html block of the repository (x5 option sets), on every string of <=4 tokens over hostile attribute/text token sets, on every parent x child-sequence structure of <=3 children, on doctype/front-matter combinations and on seeded generated documents; per case the check judges no error, Format(Format(x)) == Format(x), and equality of the parsed DOM of Format(x) and x (attributes value-by-value with whitespace collapsed, text with whitespace removed, pre content exact, mustache list), plus byte identity of front-matter and doctype.",
         "x/net/html and html.Render trusted; no-break space and textarea/title whitespace are not judged; preservation is skipped when the source DOM is a parser-recovery artefact.",
         "idempotence + DOM-preservation monitor over corpus, enumerated token strings and seeded documents", "4/C19"),
 "C20": ("exploration",
         "Markdown sources from a position x hazard-atom matrix (55 positions x 146 atoms), exhaustive structure families (lists, headings, tables with every alignment vector, inline nesting, container x block, break kinds, all block-kind pairs), a seeded grammar and random/mutated bytes are rendered through the default templates and compared node by node with goldmark's own HTML renderer on the same source; every subset model of overridden templates (each single one, all pairs, seeded subsets) must affect exactly the corresponding construct; no document may fail or panic.",
         "the goldmark parser is shared with the reference, so parser bugs are invisible; documents whose raw HTML leaves elements open are judged for no-failure only.",
         "differential monitor against goldmark's reference renderer (DOM diff with classifier) + override placement model", "4/C20"),
})

NOT_YET = "check not built yet in this round (work in progress; see DESIGN.md section 8)"
def hooks_commits():
    try:
        out = subprocess.check_output(["git", "-C", "/repo", "log", "--format=%H %s"], text=True)
        return [l.split()[0] for l in out.splitlines() if " verif:" in " " + l]
    except Exception:
        return []
m = {
 "version": 1,
 "setup_cmd": "./setup.sh",
 "hooks": {
  "guard": "verif",
  "enable": "go build -tags verif (the harness module replaces github.com/titpetric/vuego with /repo; ./check rebuilds the worker from /repo's working tree on every invocation, adding -race where the race detector is the monitor)",
  "baseline_off_cmd": "./baseline.sh",
  "source_commits": hooks_commits(),
  "add_only": True,
 },
 "engines": [
  {"name": "vverif", "path": "harness/", "serves_properties": sorted(CLAIMED), "kind_free_text": "Go monitor/worker harness: deterministic case planner, child worker processes linking /repo with -tags verif under ulimit+watchdog, online reference-model oracles, offline history checkers, evidence writer"},
 ],
 "checks": [],
 "not_applicable": [],
 "notes": "Exit codes: 0 held, 1 violated (VIOLATION lines), 2 inconclusive or build failure (no VIOLATION line). Known findings live in known_findings.json.",
}
for pid in ALL:
    if pid in CLAIMED:
        cat, text, note, tech, ref = CLAIMED[pid]
        m["checks"].append({
         "property_id": pid,
         "quick_cmd": "./check %s quick" % pid,
         "thorough_cmd": "./check %s thorough" % pid,
         "evidence_file": "/verif/evidence/%s.json" % pid,
         "replay_cmd_template": "./check %s quick --replay {path}" % pid,
         "engine": "vverif",
         "level_claimed": {"category": cat, "text": text, "design_ref": "DESIGN.md " + ref},
         "level_note": note,
         "technique": tech,
        })
    else:
        m["not_applicable"].append({"property_id": pid, "reason": NOT_YET})
json.dump(m, open(os.path.join(ROOT, "MANIFEST.json"), "w"), indent=1)
print("claimed:", sorted(CLAIMED))
