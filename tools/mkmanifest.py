#!/usr/bin/env python3
"""Regenerates /verif/MANIFEST.json from the table below (one row per claimed property)."""
import json, os, subprocess
ROOT = os.path.dirname(os.path.dirname(os.path.abspath(__file__)))
ALL = ["C%02d" % i for i in range(1, 21)]
# id -> (level category, level text, level note, technique, design ref)
CLAIMED = {
 "C18": ("exploration",
         "The real OverlayFS is run against every stack of up to 3 layers (nil or one of 48 MapFS states over a 6-path universe) and every ReadFile/Stat/ReadDir/Glob query over that universe; each answer is compared online with a 40-line reference union model. Exhaustive inside that bound, nothing beyond it.",
         "testing/fstest.MapFS and io/fs helpers are trusted; paths deeper than two components, symlinks and layers that fail with errors other than not-exist are not explored.",
         "reference-model monitor over an exhaustively enumerated bounded configuration space (runtime differential check)", "4/C18"),
}
NOT_YET = "check not built yet in this round (work in progress; see DESIGN.md section 8)"
def hooks_commits():
    try:
        out = subprocess.check_output(["git", "-C", "/repo", "log", "--format=%H %s"], text=True)
        return [l.split()[0] for l in out.splitlines() if " verif:" in " " + l]
    except Exception:
        return []
m = {
 "version": 1,
 "setup_cmd": "./setup.sh",
 "hooks": {
  "guard": "verif",
  "enable": "go build -tags verif (the harness module replaces github.com/titpetric/vuego with /repo; ./check rebuilds the worker from /repo's working tree on every invocation, adding -race where the race detector is the monitor)",
  "baseline_off_cmd": "./baseline.sh",
  "source_commits": hooks_commits(),
  "add_only": True,
 },
 "engines": [
  {"name": "vverif", "path": "harness/", "serves_properties": sorted(CLAIMED), "kind_free_text": "Go monitor/worker harness: deterministic case planner, child worker processes linking /repo with -tags verif under ulimit+watchdog, online reference-model oracles, offline history checkers, evidence writer"},
 ],
 "checks": [],
 "not_applicable": [],
 "notes": "Exit codes: 0 held, 1 violated (VIOLATION lines), 2 inconclusive or build failure (no VIOLATION line). Known findings live in known_findings.json.",
}
for pid in ALL:
    if pid in CLAIMED:
        cat, text, note, tech, ref = CLAIMED[pid]
        m["checks"].append({
         "property_id": pid,
         "quick_cmd": "./check %s quick" % pid,
         "thorough_cmd": "./check %s thorough" % pid,
         "evidence_file": "/verif/evidence/%s.json" % pid,
         "replay_cmd_template": "./check %s quick --replay {path}" % pid,
         "engine": "vverif",
         "level_claimed": {"category": cat, "text": text, "design_ref": "DESIGN.md " + ref},
         "level_note": note,
         "technique": tech,
        })
    else:
        m["not_applicable"].append({"property_id": pid, "reason": NOT_YET})
json.dump(m, open(os.path.join(ROOT, "MANIFEST.json"), "w"), indent=1)
print("claimed:", sorted(CLAIMED))
