#!/usr/bin/env python3
"""Regenerates /verif/MANIFEST.json from the table below (one row per claimed property)."""
import json, os, subprocess
ROOT = os.path.dirname(os.path.dirname(os.path.abspath(__file__)))
ALL = ["C%02d" % i for i in range(1, 21)]
# id -> (level category, level text, level note, technique, design ref)
CLAIMED = {
 "C01": ("exploration",
         "Differential re-parse under hostile values: every template of the grid (10 escaped sinks x 16 enclosing constructs x 4 static neighbourhoods) is rendered by the real engine with a harmless word and with each hostile value; an HTML5 parser must find the same elements and attribute names, every non-sink text run/attribute must be unchanged, the sink must hold the value literally, and a canary variable / registered function must never show up. All strings up to length 3 (quick) / 4 (thorough) over a 14-symbol hostile alphabet are enumerated on the base grid, a 150-token dictionary on the full grid, random concatenations beyond. Held means: on the executions listed in the evidence.",
         "golang.org/x/net/html is the trusted observer; values with CR/NUL not generated; a defect present for every value incl. the harmless word is C02's; longer strings are sampled, not enumerated.",
         "runtime differential monitor (harmless vs hostile render, HTML5 re-parse, canary) over enumerated + seeded inputs", "4/C01"),
 "C02": ("exploration",
         "The real engine renders generated parser-stable fragments and full documents (and every directive-free file of the repository) through all seven render entry points; the parse of the bytes is compared node by node with the parse of the source (elements, attribute names and values, text, doctype). Typed values are interpolated and the parsed sink compared with neighbours + fmt.Sprint(value); v-html values must appear verbatim in the bytes.",
         "x/net/html trusted on both sides with the engine's own document/fragment rule; generator keeps only parser-stable sources; full documents judged through file entry points only; whitespace normalised per text node.",
         "runtime round-trip monitor (HTML5 re-parse of output vs source) over seeded generated documents", "4/C02"),
 "C03": ("exploration",
         "Every chain shape v-if + k x v-else-if (k<=2 quick, <=3 thorough) +/- v-else x every truth assignment x 9 placements x bare/negated conditions is rendered by the real engine with values rotating through every Go value kind; the markers found among the parent's children must be exactly those a 20-line reference predicts. Every value of the kind catalogue is read in v-if, v-else-if, v-show, :attr and :class object (and negated) and must agree with the stated truthiness table. Exhaustive inside the stated bounds.",
         "x/net/html re-parse trusted; typed nil pointers/slices/maps reported but not judged; orphan v-else and non-whitespace text between members are outside the statement.",
         "reference-model monitor over an exhaustively enumerated bounded program space (marker oracle on re-parsed output)", "4/C03"),
 "C09": ("exploration",
         "The real engine, built with the Go race detector, serves short runs of 2-16 goroutines released by a barrier onto one shared Vue or base Template (cold and warm caches, private and shared read-only data, all catalogue features, previously unseen expressions/paths) while failpoints at the engine's hook points inject seeded yields, sleeps and rendezvous so that two goroutines sit in the same cache window together. Three monitors decide: race-detector reports collected per worker, each call's bytes+error vs the same call alone on a fresh engine, and porcupine linearizability of recorded edit/render histories (files rewritten underneath) against a register-per-file model. Evidence lists hook hits, rendezvous met per window, histories and operations checked.",
         "happens-before analysis only covers executed access pairs; schedules are perturbed, not enumerated; the linearizable in-memory FS, porcupine v1.3.0 and the race runtime are trusted; callers use the API as docs/concurrency.md prescribes.",
         "Go race detector + solo-reference differential + porcupine linearizability check over failpoint-perturbed stress runs", "4/C09"),
 "C10": ("exploration",
         "A catalogue of 42 template programs (every directive, includes, slots, layouts, filters, failing templates) lives in one filesystem; all ordered pairs, 20-fold repetitions and seeded sequences are rendered on one long-lived engine through four entry points and every step's bytes and error are compared with the same program on a fresh engine; caller data is deep-compared before/after; every program prints the inner-scope variable names of all programs (leak probes); hooks assert that pooled scope maps and builders are handed out empty. Thorough tier repeats under -race.",
         "reference = fresh-engine render; catalogue coverage, not all templates; error text compared literally.",
         "history monitor: byte-equality against a fresh-engine reference + invariant hooks on pooled state", "4/C10"),
 "C11": ("exploration",
         "Isolated worker processes (ulimit, watchdog, begin/end marker per case) feed the real engine random bytes, token soup and mutated corpus files as templates and front-matter, every typed value of a 45-value catalogue in every directive position (exhaustive), every include graph over 3 files x 4 include forms (exhaustive) and layout cycles/chains. A recovered panic, a process-fatal error attributed by the marker, or a logical bound exceeded at the engine's hooks (include chain, evaluate depth/steps, serialiser steps, layout iterations) is a violation; a watchdog firing alone is inconclusive.",
         "harness functions are total; self-referential maps not generated; bounded progress is decided on logical counters, not wall-clock.",
         "crash/panic monitor over isolated worker processes + logical step bounds at hook points", "4/C11"),
 "C15": ("exploration",
         "Edit/render histories over a 20-symbol alphabet (edit page/component/layout x mtime advance/equal/backwards/zero, delete/recreate, make invalid, render through three entry points) are executed against one long-lived engine over a mutable in-memory filesystem; after every render the (bytes, error-ness) is compared with a newly created engine over the current files. Exhaustive for length <=3 (quick) / <=4 (thorough) plus seeded histories of length 6-20; cache hit/miss hooks prove which answers came from the cache.",
         "versions whose mtime is indistinguishable from the current one (equal or zero) are exempt as the cache documents; single goroutine; MapFS trusted.",
         "differential history monitor (long-lived vs fresh engine) with cache hit/miss hooks", "4/C15"),
 "C18": ("exploration",
         "The real OverlayFS is run against every stack of up to 3 layers (nil or one of 48 MapFS states over a 6-path universe) and every ReadFile/Stat/ReadDir/Glob query over that universe; each answer is compared online with a 40-line reference union model. Exhaustive inside that bound, nothing beyond it.",
         "testing/fstest.MapFS and io/fs helpers are trusted; paths deeper than two components, symlinks and layers that fail with errors other than not-exist are not explored.",
         "reference-model monitor over an exhaustively enumerated bounded configuration space (runtime differential check)", "4/C18"),
}
NOT_YET = "check not built yet in this round (work in progress; see DESIGN.md section 8)"
def hooks_commits():
    try:
        out = subprocess.check_output(["git", "-C", "/repo", "log", "--format=%H %s"], text=True)
        return [l.split()[0] for l in out.splitlines() if " verif:" in " " + l]
    except Exception:
        return []
m = {
 "version": 1,
 "setup_cmd": "./setup.sh",
 "hooks": {
  "guard": "verif",
  "enable": "go build -tags verif (the harness module replaces github.com/titpetric/vuego with /repo; ./check rebuilds the worker from /repo's working tree on every invocation, adding -race where the race detector is the monitor)",
  "baseline_off_cmd": "./baseline.sh",
  "source_commits": hooks_commits(),
  "add_only": True,
 },
 "engines": [
  {"name": "vverif", "path": "harness/", "serves_properties": sorted(CLAIMED), "kind_free_text": "Go monitor/worker harness: deterministic case planner, child worker processes linking /repo with -tags verif under ulimit+watchdog, online reference-model oracles, offline history checkers, evidence writer"},
 ],
 "checks": [],
 "not_applicable": [],
 "notes": "Exit codes: 0 held, 1 violated (VIOLATION lines), 2 inconclusive or build failure (no VIOLATION line). Known findings live in known_findings.json.",
}
for pid in ALL:
    if pid in CLAIMED:
        cat, text, note, tech, ref = CLAIMED[pid]
        m["checks"].append({
         "property_id": pid,
         "quick_cmd": "./check %s quick" % pid,
         "thorough_cmd": "./check %s thorough" % pid,
         "evidence_file": "/verif/evidence/%s.json" % pid,
         "replay_cmd_template": "./check %s quick --replay {path}" % pid,
         "engine": "vverif",
         "level_claimed": {"category": cat, "text": text, "design_ref": "DESIGN.md " + ref},
         "level_note": note,
         "technique": tech,
        })
    else:
        m["not_applicable"].append({"property_id": pid, "reason": NOT_YET})
json.dump(m, open(os.path.join(ROOT, "MANIFEST.json"), "w"), indent=1)
print("claimed:", sorted(CLAIMED))
