#!/bin/bash
# Builds the monitor/worker (plain and -race) from files on disk only; warms the build cache.
set -e
ROOT="$(cd "$(dirname "$0")" && pwd)"
. "$ROOT/env.sh"
mkdir -p "$ROOT/.build" "$ROOT/evidence" "$ROOT/replays"
cd "$ROOT/harness"
cp /repo/go.sum go.sum
go build -tags verif -o "$ROOT/.build/vverif" .
go build -tags verif -race -o "$ROOT/.build/vverif-race" .
echo "setup ok: $(go version)"
