# toolchain environment for every harness command (offline)
TC=/root/go/pkg/mod/golang.org/toolchain@v0.0.1-go1.25.5.linux-amd64/bin
if [ -x "$TC/go" ]; then export PATH="$TC:$PATH"; else export PATH="/opt/veriftools/go1.26.8/bin:$PATH"; fi
export GOTOOLCHAIN=local GOFLAGS=-mod=mod GOPROXY=off GOSUMDB=off CGO_ENABLED=${CGO_ENABLED:-1}
