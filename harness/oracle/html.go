// Package oracle holds the shared, engine-independent oracles: an HTML5
// re-parse of rendered bytes into a normalised DOM (golang.org/x/net/html is
// the trusted base), skeleton extraction and node-by-node comparison.
package oracle

import (
	"fmt"
	"sort"
	"strings"

	"golang.org/x/net/html"
	"golang.org/x/net/html/atom"
)

type Attr struct{ K, V string }

// N is a normalised DOM node.
type N struct {
	Kind  string // "doc" | "el" | "text" | "doctype"
	Name  string // element name or doctype name
	Attrs []Attr // in source order
	Text  string // normalised text (text nodes)
	Raw   string // un-normalised text
	Kids  []*N
}

var bodyCtx = &html.Node{Type: html.ElementNode, Data: "body", DataAtom: atom.Body}

// IsDocument applies the engine's documented rule for choosing between a
// full-document parse and a fragment parse.
func IsDocument(src string) bool { return strings.Contains(src, "</html>") }

// Parse parses src as a document (doc=true) or as a body fragment.
func Parse(src string, doc bool) *N {
	root := &N{Kind: "doc"}
	if doc {
		d, err := html.Parse(strings.NewReader(src))
		if err != nil {
			return root
		}
		for c := d.FirstChild; c != nil; c = c.NextSibling {
			conv(root, c)
		}
	} else {
		nodes, err := html.ParseFragment(strings.NewReader(src), bodyCtx)
		if err != nil {
			return root
		}
		for _, c := range nodes {
			conv(root, c)
		}
	}
	mergeText(root)
	return root
}

// ParseAuto parses with the engine's own document/fragment rule.
func ParseAuto(src string) *N { return Parse(src, IsDocument(src)) }

func conv(parent *N, n *html.Node) {
	switch n.Type {
	case html.TextNode:
		parent.Kids = append(parent.Kids, &N{Kind: "text", Raw: n.Data})
	case html.DoctypeNode:
		name := strings.ToLower(n.Data)
		for _, a := range n.Attr { // public / system identifiers
			name += fmt.Sprintf(" %s=%q", a.Key, a.Val)
		}
		parent.Kids = append(parent.Kids, &N{Kind: "doctype", Name: name})
	case html.ElementNode:
		e := &N{Kind: "el", Name: n.Data}
		if n.Namespace != "" {
			e.Name = n.Namespace + ":" + n.Data
		}
		for _, a := range n.Attr {
			k := a.Key
			if a.Namespace != "" {
				k = a.Namespace + ":" + k
			}
			e.Attrs = append(e.Attrs, Attr{k, a.Val})
		}
		for c := n.FirstChild; c != nil; c = c.NextSibling {
			conv(e, c)
		}
		parent.Kids = append(parent.Kids, e)
	case html.DocumentNode:
		for c := n.FirstChild; c != nil; c = c.NextSibling {
			conv(parent, c)
		}
	}
	// comments dropped
}

// NormText trims and collapses internal whitespace runs.
// (HTML white space is ASCII white space: a no-break space is a character.)
func NormText(s string) string { return strings.Join(strings.FieldsFunc(s, IsSpace), " ") }

// IsSpace reports whether r is HTML white space.
func IsSpace(r rune) bool { return r == ' ' || r == '\t' || r == '\n' || r == '\r' || r == '\f' }

// mergeText merges adjacent text nodes (a dropped comment may have separated
// them), normalises and removes whitespace-only ones.
func mergeText(n *N) {
	var out []*N
	for _, k := range n.Kids {
		if k.Kind == "text" && len(out) > 0 && out[len(out)-1].Kind == "text" {
			out[len(out)-1].Raw += k.Raw
			continue
		}
		out = append(out, k)
	}
	kept := out[:0]
	for _, k := range out {
		if k.Kind == "text" {
			k.Text = NormText(k.Raw)
			if k.Text == "" {
				continue
			}
		} else {
			mergeText(k)
		}
		kept = append(kept, k)
	}
	n.Kids = kept
}

func (n *N) Attr(k string) (string, bool) {
	for _, a := range n.Attrs {
		if a.K == k {
			return a.V, true
		}
	}
	return "", false
}

// Skeleton is the tree of element names with the sorted attribute names per element.
func (n *N) Skeleton() string {
	var b strings.Builder
	n.skel(&b)
	return b.String()
}

func (n *N) skel(b *strings.Builder) {
	switch n.Kind {
	case "text":
		return
	case "doctype":
		b.WriteString("<!" + n.Name + ">")
		return
	case "el":
		b.WriteString("<" + n.Name)
		names := make([]string, 0, len(n.Attrs))
		for _, a := range n.Attrs {
			names = append(names, a.K)
		}
		sort.Strings(names)
		for _, k := range names {
			b.WriteString(" " + k)
		}
		b.WriteString(">")
	}
	for _, k := range n.Kids {
		k.skel(b)
	}
	if n.Kind == "el" {
		b.WriteString("</>")
	}
}

// Canon renders the normalised DOM to a canonical string (attributes sorted by name).
func (n *N) Canon() string {
	var b strings.Builder
	n.canon(&b)
	return b.String()
}

func (n *N) canon(b *strings.Builder) {
	switch n.Kind {
	case "text":
		fmt.Fprintf(b, "%q", n.Text)
		return
	case "doctype":
		b.WriteString("<!" + n.Name + ">")
		return
	case "el":
		b.WriteString("<" + n.Name)
		as := append([]Attr(nil), n.Attrs...)
		sort.SliceStable(as, func(i, j int) bool { return as[i].K < as[j].K })
		for _, a := range as {
			fmt.Fprintf(b, " %s=%q", a.K, a.V)
		}
		b.WriteString(">")
	}
	for _, k := range n.Kids {
		k.canon(b)
	}
	if n.Kind == "el" {
		b.WriteString("</>")
	}
}

// Difference describes the first point at which two normalised DOMs differ.
type Difference struct {
	Path  string // e.g. /html/body/div[2]
	Kind  string // missing | extra | name | attr-set | attr-value | text | doctype | kind
	Where string // element class of the node (or its parent for text)
	A, B  string
}

func (d *Difference) String() string {
	return fmt.Sprintf("%s at %s: expected %s, got %s", d.Kind, d.Path, d.A, d.B)
}

// Diff compares want and got node by node and returns the first difference (nil when equal).
// attrFilter, when non-nil, decides which attributes take part.
func Diff(want, got *N, attrFilter func(el, key string) bool) *Difference {
	return diff(want, got, "", attrFilter)
}

func diff(a, b *N, path string, af func(el, key string) bool) *Difference {
	if a.Kind != b.Kind {
		return &Difference{Path: path, Kind: "kind", Where: a.Name, A: a.brief(), B: b.brief()}
	}
	switch a.Kind {
	case "text":
		if a.Text != b.Text {
			return &Difference{Path: path, Kind: "text", A: fmt.Sprintf("%q", a.Text), B: fmt.Sprintf("%q", b.Text)}
		}
		return nil
	case "doctype":
		if a.Name != b.Name {
			return &Difference{Path: path, Kind: "doctype", A: a.Name, B: b.Name}
		}
		return nil
	case "el":
		if a.Name != b.Name {
			return &Difference{Path: path, Kind: "name", Where: a.Name, A: a.Name, B: b.Name}
		}
		am, bm := attrMap(a, af), attrMap(b, af)
		if keysOf(am) != keysOf(bm) {
			return &Difference{Path: path, Kind: "attr-set", Where: a.Name, A: keysOf(am), B: keysOf(bm)}
		}
		for k, v := range am {
			if bm[k] != v {
				return &Difference{Path: path + "@" + k, Kind: "attr-value", Where: a.Name, A: fmt.Sprintf("%q", v), B: fmt.Sprintf("%q", bm[k])}
			}
		}
	}
	n := len(a.Kids)
	if len(b.Kids) < n {
		n = len(b.Kids)
	}
	for i := 0; i < n; i++ {
		p := path + "/" + a.Kids[i].label(i)
		if d := diff(a.Kids[i], b.Kids[i], p, af); d != nil {
			if d.Where == "" {
				d.Where = a.Name
			}
			return d
		}
	}
	if len(a.Kids) > n {
		return &Difference{Path: path + "/" + a.Kids[n].label(n), Kind: "missing", Where: a.Name, A: a.Kids[n].brief(), B: "(nothing)"}
	}
	if len(b.Kids) > n {
		return &Difference{Path: path + "/" + b.Kids[n].label(n), Kind: "extra", Where: a.Name, A: "(nothing)", B: b.Kids[n].brief()}
	}
	return nil
}

func (n *N) label(i int) string {
	switch n.Kind {
	case "el":
		return fmt.Sprintf("%s[%d]", n.Name, i)
	case "text":
		return fmt.Sprintf("#text[%d]", i)
	}
	return fmt.Sprintf("#%s[%d]", n.Kind, i)
}

func (n *N) brief() string {
	switch n.Kind {
	case "text":
		return fmt.Sprintf("text %q", n.Text)
	case "doctype":
		return "<!doctype " + n.Name + ">"
	case "el":
		return "<" + n.Name + ">"
	}
	return n.Kind
}

func attrMap(n *N, af func(el, key string) bool) map[string]string {
	m := map[string]string{}
	for _, a := range n.Attrs {
		if af != nil && !af(n.Name, a.K) {
			continue
		}
		if _, dup := m[a.K]; !dup {
			m[a.K] = a.V
		}
	}
	return m
}

func keysOf(m map[string]string) string {
	ks := make([]string, 0, len(m))
	for k := range m {
		ks = append(ks, k)
	}
	sort.Strings(ks)
	return "[" + strings.Join(ks, " ") + "]"
}

// Walk visits every node in document order.
func (n *N) Walk(f func(*N)) {
	f(n)
	for _, k := range n.Kids {
		k.Walk(f)
	}
}

// Find returns all elements satisfying pred, in document order.
func (n *N) Find(pred func(*N) bool) []*N {
	var out []*N
	n.Walk(func(x *N) {
		if x.Kind == "el" && pred(x) {
			out = append(out, x)
		}
	})
	return out
}

// ByAttr returns the elements carrying attribute k (with value v unless v == "*").
func (n *N) ByAttr(k, v string) []*N {
	return n.Find(func(x *N) bool {
		got, ok := x.Attr(k)
		return ok && (v == "*" || got == v)
	})
}

// InnerText concatenates the normalised text of all descendant text nodes, separated by single spaces.
func (n *N) InnerText() string {
	var parts []string
	n.Walk(func(x *N) {
		if x.Kind == "text" {
			parts = append(parts, x.Text)
		}
	})
	return strings.Join(parts, " ")
}

// RawText concatenates the raw (un-normalised) text of all descendant text nodes.
func (n *N) RawText() string {
	var b strings.Builder
	n.Walk(func(x *N) {
		if x.Kind == "text" {
			b.WriteString(x.Raw)
		}
	})
	return b.String()
}

// Markers returns the sequence of data-m values of the direct element children.
func (n *N) ChildMarkers(attr string) []string {
	var out []string
	for _, k := range n.Kids {
		if k.Kind == "el" {
			if v, ok := k.Attr(attr); ok {
				out = append(out, v)
			}
		}
	}
	return out
}

// AllMarkers returns the data-m values of every element in document order.
func (n *N) AllMarkers(attr string) []string {
	var out []string
	n.Walk(func(x *N) {
		if x.Kind == "el" {
			if v, ok := x.Attr(attr); ok {
				out = append(out, v)
			}
		}
	})
	return out
}

// ElementClass classifies an element name for violation signatures.
func ElementClass(name string) string {
	switch name {
	case "br", "hr", "img", "input", "meta", "link", "area", "base", "col", "embed", "source", "track", "wbr":
		return "void"
	case "script", "style":
		return "raw-text"
	case "textarea", "title":
		return "rcdata"
	case "table", "thead", "tbody", "tfoot", "tr", "td", "th", "caption", "colgroup":
		return "table"
	case "span", "a", "b", "i", "em", "strong", "code", "small", "label", "u", "s", "sub", "sup", "abbr", "q", "cite":
		return "inline"
	case "html", "head", "body":
		return "document"
	case "pre":
		return "pre"
	case "":
		return "root"
	}
	if strings.Contains(name, ":") {
		return "foreign"
	}
	return "block"
}

// ParserStable reports whether src survives parse -> html.Render -> parse unchanged,
// i.e. the parser performs no tree fix-ups on it.
func ParserStable(src string, doc bool) bool {
	var nodes []*html.Node
	if doc {
		d, err := html.Parse(strings.NewReader(src))
		if err != nil {
			return false
		}
		nodes = []*html.Node{d}
	} else {
		ns, err := html.ParseFragment(strings.NewReader(src), bodyCtx)
		if err != nil {
			return false
		}
		nodes = ns
	}
	var b strings.Builder
	for _, n := range nodes {
		if err := html.Render(&b, n); err != nil {
			return false
		}
	}
	a := Parse(src, doc).Canon()
	c := Parse(b.String(), doc).Canon()
	return a == c
}
