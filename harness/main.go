// vverif is both the monitor (parent) and the worker (child) of the
// runtime-monitoring harness. The worker links the code under test from /repo.
package main

import (
	"flag"
	"fmt"
	"os"
	"strconv"

	"verifharness/core"
	_ "verifharness/props"
)

func main() {
	if len(os.Args) < 3 {
		fmt.Println("usage: vverif mon|work|replay <ID> [flags]")
		os.Exit(2)
	}
	mode, id := os.Args[1], os.Args[2]
	fs := flag.NewFlagSet(mode, flag.ExitOnError)
	tier := fs.String("tier", "quick", "")
	seed := fs.Uint64("seed", 1, "")
	shard := fs.Int("shard", 0, "")
	of := fs.Int("of", 1, "")
	from := fs.Int("from", 0, "")
	out := fs.String("out", "", "")
	cases := fs.String("cases", "", "")
	root := fs.String("root", "/verif", "")
	race := fs.Bool("race", false, "")
	replay := fs.String("replay", "", "")
	fs.Parse(os.Args[3:])
	if s := os.Getenv("VERIF_SEED"); s != "" && mode == "mon" {
		if v, err := strconv.ParseUint(s, 10, 64); err == nil {
			*seed = v
		}
	}
	ctx := core.Ctx{Tier: *tier, Seed: *seed, Race: *race || raceEnabled}
	switch mode {
	case "mon":
		bin, _ := os.Executable()
		os.Exit(core.RunMonitor(core.MonArgs{ID: id, Ctx: ctx, Root: *root, Bin: bin, Replay: *replay}))
	case "work":
		if err := core.RunWorker(core.WorkerArgs{ID: id, Ctx: ctx, Shard: *shard, Of: *of, From: *from, Out: *out, CasesFile: *cases}); err != nil {
			fmt.Fprintln(os.Stderr, "worker:", err)
			os.Exit(3)
		}
	default:
		fmt.Println("unknown mode", mode)
		os.Exit(2)
	}
}
