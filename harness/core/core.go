// Package core is the runtime-monitoring framework shared by all property
// checks: deterministic case planning, the worker protocol, violation
// signatures and the evidence writer.
package core

import (
	"encoding/json"
	"fmt"
	"hash/fnv"
	"sort"
	"sync"
)

// Ctx describes one check invocation.
type Ctx struct {
	Tier string // quick | thorough
	Seed uint64
	Race bool // worker was built with -race
}

func (c Ctx) Thorough() bool { return c.Tier == "thorough" }

// Pick returns q for the quick tier and t for the thorough tier.
func (c Ctx) Pick(q, t int) int {
	if c.Thorough() {
		return t
	}
	return q
}

// Violation is one oracle failure.
type Violation struct {
	Sig    string          `json:"sig"`    // classifier signature (features of the failing case, not the raw input)
	Detail string          `json:"detail"` // the oracle's reasoning: expected vs observed
	Case   json.RawMessage `json:"case"`   // replayable case
}

// Obs is what the monitors observed while executing one case.
type Obs struct {
	Evals        int              // engine calls made
	NonTrivial   []uint64         // hashes of the distinct non-trivial sub-cases exercised
	Cells        map[string]int   // coverage cells hit (property specific)
	Counters     map[string]int64 // property specific observations (hook hits, bytes, ...)
	Viol         []Violation
	Sample       any    // optional: a written-out description of this case for the evidence file
	Inconclusive string // non-empty: why this case could not be decided
}

func (o *Obs) Cell(name string) {
	if o.Cells == nil {
		o.Cells = map[string]int{}
	}
	o.Cells[name]++
}

func (o *Obs) Count(name string, n int64) {
	if o.Counters == nil {
		o.Counters = map[string]int64{}
	}
	o.Counters[name] += n
}

func (o *Obs) NT(parts ...any) {
	o.NonTrivial = append(o.NonTrivial, HashOf(parts...))
}

// Fail records a violation. c is the replayable case.
func (o *Obs) Fail(c any, sig, format string, args ...any) {
	raw, _ := json.Marshal(c)
	o.Viol = append(o.Viol, Violation{Sig: sig, Detail: fmt.Sprintf(format, args...), Case: raw})
}

// Prop is one property check.
type Prop interface {
	ID() string
	// Rule describes how cases are generated and what makes one non-trivial/distinct.
	Rule() string
	// Plan returns the number of cases of this run; it must depend on ctx only.
	Plan(ctx Ctx) int
	// Gen returns case i (a JSON-serialisable value). Deterministic in (ctx, i).
	Gen(ctx Ctx, i int) any
	// Decode turns a stored case back into the value Exec expects.
	Decode(raw json.RawMessage) (any, error)
	// Exec runs the real code on the case under the monitors and returns the observation.
	Exec(ctx Ctx, c any) Obs
}

// Meta carries optional per-property settings.
type Meta struct {
	Level         string // evidence level, default exploration
	Exhaustive    func(ctx Ctx) bool
	Race          bool // run the worker built with -race (quick tier)
	RaceThorough  bool // run with -race in the thorough tier only
	Workers       int  // 0 = default (16)
	Isolate       bool // trace every case (begin marker flushed before the engine is entered)
	MemKB         int  // ulimit -v for the worker; 0 = default
	TimeoutS      func(ctx Ctx) int
	Assumptions   []string
	MinNonTrivial func(ctx Ctx) int // floor below which a run is inconclusive
	// Finish is called in the worker after the last case of the shard (e.g. race-log collection)
	Finish func(ctx Ctx, o *Obs)
}

var (
	regMu sync.Mutex
	reg   = map[string]Prop{}
	metas = map[string]Meta{}
)

func Register(p Prop, m Meta) {
	regMu.Lock()
	defer regMu.Unlock()
	reg[p.ID()] = p
	metas[p.ID()] = m
}

func Lookup(id string) (Prop, Meta, bool) {
	regMu.Lock()
	defer regMu.Unlock()
	p, ok := reg[id]
	return p, metas[id], ok
}

func IDs() []string {
	regMu.Lock()
	defer regMu.Unlock()
	var ids []string
	for id := range reg {
		ids = append(ids, id)
	}
	sort.Strings(ids)
	return ids
}

// HashOf hashes a list of values through their fmt form.
func HashOf(parts ...any) uint64 {
	h := fnv.New64a()
	for _, p := range parts {
		switch t := p.(type) {
		case string:
			h.Write([]byte(t))
		case []byte:
			h.Write(t)
		default:
			fmt.Fprint(h, t)
		}
		h.Write([]byte{0})
	}
	return h.Sum64()
}

// JSONDecode is a helper for Prop.Decode implementations.
func JSONDecode[T any](raw json.RawMessage) (any, error) {
	var v T
	if err := json.Unmarshal(raw, &v); err != nil {
		return nil, err
	}
	return v, nil
}
