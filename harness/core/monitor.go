package core

import (
	"bufio"
	"encoding/binary"
	"encoding/json"
	"fmt"
	"os"
	"os/exec"
	"path/filepath"
	"sort"
	"strings"
	"sync"
	"time"
)

// KnownFinding is one entry of /verif/known_findings.json.
type KnownFinding struct {
	Property  string          `json:"property"`
	Signature string          `json:"signature"`
	What      string          `json:"what"`
	Status    string          `json:"status"` // open | fixed
	Commit    string          `json:"commit,omitempty"`
	Witness   json.RawMessage `json:"witness,omitempty"`
}

type MonArgs struct {
	ID     string
	Ctx    Ctx
	Root   string // /verif
	Bin    string // worker binary (this binary, possibly the -race build)
	Replay string // replay a stored case file instead of the planned run
}

type shardResult struct {
	events   []Event
	hashes   map[uint64]struct{}
	crashes  []crashInfo
	timeouts []int
	summary  WorkerSummary
	logs     []string
}

type crashInfo struct {
	I      int
	Status string
	Frame  string
	Tail   string
}

// Evidence mirrors EVIDENCE.schema.json.
type Evidence struct {
	PropertyID  string         `json:"property_id"`
	Tier        string         `json:"tier"`
	Seed        int64          `json:"seed"`
	Level       string         `json:"level"`
	Coverage    map[string]any `json:"coverage"`
	Assumptions []string       `json:"assumptions,omitempty"`
	WallS       float64        `json:"wall_s"`
	Violations  int            `json:"violations"`
	Verdict     string         `json:"verdict"`
}

// RunMonitor plans the run, drives the workers, applies the offline verdict
// logic and writes the evidence file. It returns the process exit code.
func RunMonitor(a MonArgs) int {
	start := time.Now()
	p, meta, ok := Lookup(a.ID)
	if !ok {
		fmt.Printf("unknown property %s\n", a.ID)
		return 2
	}
	work := filepath.Join(a.Root, ".work", a.ID+"-"+a.Ctx.Tier)
	os.RemoveAll(work)
	os.MkdirAll(work, 0o755)
	os.MkdirAll(filepath.Join(a.Root, "replays"), 0o755)
	if old, _ := filepath.Glob(filepath.Join(a.Root, "replays", a.ID+"-"+a.Ctx.Tier+"-*.json")); a.Replay == "" {
		for _, f := range old {
			os.Remove(f)
		}
	}
	os.MkdirAll(filepath.Join(a.Root, "evidence"), 0o755)

	known := loadKnown(filepath.Join(a.Root, "known_findings.json"), a.ID)

	nworkers := meta.Workers
	if nworkers == 0 {
		nworkers = 16
	}
	total := p.Plan(a.Ctx)
	if total < nworkers {
		nworkers = max(total, 1)
	}
	timeoutS := 600
	if meta.TimeoutS != nil {
		timeoutS = meta.TimeoutS(a.Ctx)
	} else if a.Ctx.Thorough() {
		timeoutS = 3600
	}
	memKB := meta.MemKB
	if memKB == 0 {
		memKB = 4 << 20 // 4 GB virtual
	}
	if a.Ctx.Race {
		memKB = 0 // the race runtime reserves terabytes of address space
	}

	res := make([]*shardResult, nworkers)
	var wg sync.WaitGroup
	if a.Replay == "" {
		for k := 0; k < nworkers; k++ {
			wg.Add(1)
			go func(k int) {
				defer wg.Done()
				res[k] = runShard(a, work, k, nworkers, total, timeoutS, memKB, "")
			}(k)
		}
		wg.Wait()
	} else {
		nworkers = 1
		res = res[:1]
		res[0] = runShard(a, work, 0, 1, 0, timeoutS, memKB, a.Replay)
	}

	// --- aggregate
	agg := WorkerSummary{Cells: map[string]int{}, Counters: map[string]int64{}}
	hashes := map[uint64]struct{}{}
	var viols []Event
	var samples []any
	var inconc []string
	for _, r := range res {
		agg.Cases += r.summary.Cases
		agg.Evals += r.summary.Evals
		for k, v := range r.summary.Cells {
			if strings.HasPrefix(k, "xproc|") {
				// per-process facts for CrossCheck: counted, not listed among the coverage cells
				agg.Counters["cross_process_facts_recorded"]++
				continue
			}
			agg.Cells[k] += v
		}
		for k, v := range r.summary.Counters {
			agg.Counters[k] += v
		}
		for h := range r.hashes {
			hashes[h] = struct{}{}
		}
		for _, e := range r.events {
			switch e.Ev {
			case "viol":
				viols = append(viols, e)
			case "sample":
				if len(samples) < 6 {
					samples = append(samples, e.Sample)
				}
			case "inconclusive":
				inconc = append(inconc, fmt.Sprintf("case %d: %s", e.I, e.Why))
			}
		}
		for _, c := range r.crashes {
			var cs any
			var raw []byte
			if a.Replay == "" {
				cs = p.Gen(a.Ctx, c.I)
				raw, _ = json.Marshal(cs)
			} else { // the cases of a replay come from the file
				var sc storedCases
				if b, err := os.ReadFile(a.Replay); err == nil && json.Unmarshal(b, &sc) == nil && c.I < len(sc.Cases) {
					raw = sc.Cases[c.I]
					cs, _ = p.Decode(raw)
				}
			}
			v := Violation{Sig: "crash@" + crashSig(p, cs, c.Frame), Detail: "worker process died (" + c.Status + ") while executing this case\n" + c.Tail, Case: raw}
			viols = append(viols, Event{Ev: "viol", I: c.I, Viol: &v})
		}
		for _, i := range r.timeouts {
			inconc = append(inconc, fmt.Sprintf("watchdog fired in case %d (no logical bound exceeded)", i))
		}
	}

	// --- offline check over what the worker processes recorded, where the property offers one: a fact that must be
	// the same in every process (each worker is a process of its own, with its own history of earlier cases)
	if cc, ok := p.(CrossChecker); ok && a.Replay == "" {
		var per []map[string]int
		for _, r := range res {
			per = append(per, r.summary.Cells)
		}
		for _, v := range cc.CrossCheck(a.Ctx, per) {
			vv := v
			viols = append(viols, Event{Ev: "viol", I: -1, Viol: &vv})
		}
	}

	// --- known findings: re-execute stored witnesses
	knownOpen := map[string]*KnownFinding{}
	var knownLines []string
	knownMet := map[string]int{}
	var regress []Event
	if a.Replay == "" && len(known) > 0 {
		var sc storedCases
		var idx []*KnownFinding
		for i := range known {
			k := &known[i]
			if k.Status == "open" {
				knownOpen[k.Signature] = k
			}
			if len(k.Witness) > 0 {
				sc.Cases = append(sc.Cases, k.Witness)
				idx = append(idx, k)
			}
		}
		if len(sc.Cases) > 0 {
			cf := filepath.Join(work, "known-witnesses.json")
			raw, _ := json.Marshal(sc)
			os.WriteFile(cf, raw, 0o644)
			kr := runShard(a, filepath.Join(work, "known"), 0, 1, 0, timeoutS, memKB, cf)
			failed := map[int][]Event{}
			for _, e := range kr.events {
				if e.Ev == "viol" {
					failed[e.I] = append(failed[e.I], e)
				}
			}
			for _, c := range kr.crashes {
				sig := c.Frame
				if dc, err := p.Decode(sc.Cases[c.I]); err == nil {
					sig = crashSig(p, dc, c.Frame)
				}
				v := Violation{Sig: "crash@" + sig, Detail: c.Tail, Case: sc.Cases[c.I]}
				failed[c.I] = append(failed[c.I], Event{Ev: "viol", I: c.I, Viol: &v})
			}
			agg.Evals += kr.summary.Evals
			for i, k := range idx {
				evs := failed[i]
				switch k.Status {
				case "open":
					still := false
					for _, e := range evs {
						if e.Viol.Sig == k.Signature {
							still = true
						} else if _, okk := knownOpen[e.Viol.Sig]; !okk {
							regress = append(regress, e)
						}
					}
					if still {
						knownLines = append(knownLines, fmt.Sprintf("KNOWN-FINDING: property=%s %s %s", a.ID, k.Signature, k.What))
					}
				case "fixed":
					for _, e := range evs {
						if _, okk := knownOpen[e.Viol.Sig]; !okk {
							regress = append(regress, e) // a fixed defect came back
						}
					}
				}
			}
		}
	}

	// --- verdict
	bySig := map[string][]Event{}
	for _, e := range append(viols, regress...) {
		if _, isKnown := knownOpen[e.Viol.Sig]; isKnown && a.Replay == "" {
			knownMet[e.Viol.Sig]++
			continue
		}
		bySig[e.Viol.Sig] = append(bySig[e.Viol.Sig], e)
	}
	sigs := make([]string, 0, len(bySig))
	for s := range bySig {
		sigs = append(sigs, s)
	}
	sort.Strings(sigs)

	for _, l := range knownLines {
		fmt.Println(l)
	}
	nviol := 0
	var violSummaries []map[string]any
	for _, s := range sigs {
		evs := bySig[s]
		nviol += len(evs)
		e := evs[0]
		// choose the smallest witness
		for _, x := range evs {
			if len(x.Viol.Case) < len(e.Viol.Case) {
				e = x
			}
		}
		name := fmt.Sprintf("%s-%s-%016x.json", a.ID, a.Ctx.Tier, HashOf(s))
		path := filepath.Join(a.Root, "replays", name)
		rep := map[string]any{
			"property": a.ID, "tier": a.Ctx.Tier, "seed": a.Ctx.Seed, "index": e.I,
			"signature": s, "detail": e.Viol.Detail, "occurrences": len(evs),
			"cases": []json.RawMessage{e.Viol.Case},
		}
		raw, _ := json.MarshalIndent(rep, "", " ")
		os.WriteFile(path, raw, 0o644)
		fmt.Printf("VIOLATION property=%s replay=%s\n", a.ID, path)
		fmt.Printf("  signature: %s (%d occurrences)\n  %s\n", s, len(evs), firstLines(e.Viol.Detail, 3))
		violSummaries = append(violSummaries, map[string]any{"signature": s, "occurrences": len(evs), "replay": path})
	}

	minNT := 2
	if meta.MinNonTrivial != nil {
		minNT = meta.MinNonTrivial(a.Ctx)
	}
	verdict := "held"
	if nviol > 0 {
		verdict = "violated"
	} else if a.Replay == "" && (len(inconc) > 0 || len(hashes) < minNT) {
		verdict = "inconclusive"
		if len(hashes) < minNT {
			inconc = append(inconc, fmt.Sprintf("only %d distinct non-trivial cases (< floor %d)", len(hashes), minNT))
		}
	}

	// --- evidence
	level := meta.Level
	if level == "" {
		level = "exploration"
	}
	cov := map[string]any{
		"evaluations":         agg.Evals,
		"distinct_nontrivial": len(hashes),
		"rule":                p.Rule(),
		"samples":             samples,
		"cases":               agg.Cases,
		"planned_cases":       total,
		"cells":               agg.Cells,
		"observations":        agg.Counters,
		"workers":             nworkers,
		"race_detector":       a.Ctx.Race,
	}
	if meta.Exhaustive != nil && meta.Exhaustive(a.Ctx) {
		cov["exhaustive"] = true
	}
	if len(knownMet) > 0 || len(knownLines) > 0 {
		cov["known_findings_met"] = knownMet
		cov["known_finding_lines"] = knownLines
	}
	if len(violSummaries) > 0 {
		cov["violation_signatures"] = violSummaries
	}
	if len(inconc) > 0 {
		if len(inconc) > 20 {
			inconc = inconc[:20]
		}
		cov["inconclusive"] = inconc
	}
	if len(samples) == 0 {
		cov["samples"] = []any{fmt.Sprintf("(no sample recorded; first planned case) %v", mustJSON(p.Gen(a.Ctx, 0)))}
	}
	ev := Evidence{
		PropertyID: a.ID, Tier: a.Ctx.Tier, Seed: int64(a.Ctx.Seed), Level: level, Coverage: cov,
		Assumptions: meta.Assumptions, WallS: time.Since(start).Seconds(), Violations: nviol, Verdict: verdict,
	}
	// evidence describes the tree under /repo only: a run against another checkout
	// (VERIF_REPO, used to try seeded changes) leaves the evidence files alone
	if a.Replay == "" && os.Getenv("VERIF_REPO") == "" {
		raw, _ := json.MarshalIndent(ev, "", " ")
		os.WriteFile(filepath.Join(a.Root, "evidence", a.ID+".json"), raw, 0o644)
	}

	fmt.Printf("%s %s seed=%d: verdict=%s cases=%d evaluations=%d distinct_nontrivial=%d violations=%d known=%d wall=%.1fs\n",
		a.ID, a.Ctx.Tier, a.Ctx.Seed, verdict, agg.Cases, agg.Evals, len(hashes), nviol, len(knownLines), time.Since(start).Seconds())
	switch verdict {
	case "violated":
		return 1
	case "inconclusive":
		for _, s := range inconc {
			fmt.Println("INCONCLUSIVE:", s)
		}
		return 2
	}
	// held: the per-worker logs are of no further use (they run to a gigabyte in
	// the thorough tier); after a violation or an inconclusive run they stay for inspection
	if os.Getenv("VERIF_KEEP_WORK") == "" {
		os.RemoveAll(work)
	}
	return 0
}

func mustJSON(v any) string {
	raw, _ := json.Marshal(v)
	if len(raw) > 2000 {
		raw = raw[:2000]
	}
	return string(raw)
}

func firstLines(s string, n int) string {
	l := strings.Split(s, "\n")
	if len(l) > n {
		l = l[:n]
	}
	for i := range l {
		if len(l[i]) > 220 {
			l[i] = l[i][:220] + "…"
		}
	}
	return strings.Join(l, "\n  ")
}

func loadKnown(path, id string) []KnownFinding {
	raw, err := os.ReadFile(path)
	if err != nil {
		return nil
	}
	var all struct {
		Findings []KnownFinding `json:"findings"`
	}
	if err := json.Unmarshal(raw, &all); err != nil {
		fmt.Println("cannot parse known_findings.json:", err)
		return nil
	}
	var out []KnownFinding
	for _, k := range all.Findings {
		if k.Property == id {
			out = append(out, k)
		}
	}
	return out
}

// runShard runs one worker process to completion, restarting it after the
// crashing case when the process dies.
func runShard(a MonArgs, work string, k, of, total, timeoutS, memKB int, casesFile string) *shardResult {
	os.MkdirAll(work, 0o755)
	r := &shardResult{hashes: map[uint64]struct{}{}, summary: WorkerSummary{Cells: map[string]int{}, Counters: map[string]int64{}}}
	from := 0
	for attempt := 0; attempt < 200; attempt++ {
		out := filepath.Join(work, fmt.Sprintf("shard-%d-%d.jsonl", k, attempt))
		logf := filepath.Join(work, fmt.Sprintf("shard-%d-%d.log", k, attempt))
		args := fmt.Sprintf("work %s --tier %s --seed %d --shard %d --of %d --from %d --out %s", a.ID, a.Ctx.Tier, a.Ctx.Seed, k, of, from, out)
		if casesFile != "" {
			args += " --cases " + casesFile
		}
		lim := ""
		if memKB > 0 {
			lim = fmt.Sprintf("ulimit -v %d; ", memKB)
		}
		sh := fmt.Sprintf("%sexec timeout -s QUIT -k 10 %d %s %s >%s 2>&1", lim, timeoutS, a.Bin, args, logf)
		cmd := exec.Command("sh", "-c", sh)
		cmd.Env = append(os.Environ(), "GOTRACEBACK=all", "VERIF_WORKDIR="+work)
		if a.Ctx.Race {
			rl := filepath.Join(work, fmt.Sprintf("race-%d-%d", k, attempt))
			cmd.Env = append(cmd.Env, "GORACE=halt_on_error=0 log_path="+rl, "VERIF_RACELOG="+rl)
		}
		err := cmd.Run()
		done := readShard(out, r)
		r.logs = append(r.logs, logf)
		if done {
			return r
		}
		// the worker died: attribute to the case named by the marker
		i, phase := readMarker(out + ".marker")
		status := "unknown"
		if err != nil {
			status = err.Error()
		}
		tail := tailFile(logf, 60)
		if strings.Contains(status, "exit status 124") || strings.Contains(tail, "SIGQUIT: quit") {
			r.timeouts = append(r.timeouts, i)
		} else {
			r.crashes = append(r.crashes, crashInfo{I: i, Status: status, Frame: crashFrame(tail, logf), Tail: tail})
		}
		if phase == 'D' || i < 0 {
			return r
		}
		if casesFile != "" {
			from = i + 1
		} else {
			from = i + 1 // the worker iterates i = shard, shard+of, ...; From skips everything below
		}
		if casesFile == "" && from >= total {
			return r
		}
	}
	return r
}

func crashFrame(tail, logf string) string {
	raw, _ := os.ReadFile(logf)
	s := string(raw)
	kind := "fatal"
	switch {
	case strings.Contains(s, "stack overflow") || strings.Contains(s, "stack exceeds"):
		kind = "stack-overflow"
	case strings.Contains(s, "out of memory") || strings.Contains(s, "cannot allocate memory"):
		kind = "out-of-memory"
	case strings.Contains(s, "DATA RACE"):
		kind = "race"
	case strings.Contains(s, "panic:"):
		kind = "panic"
	}
	return kind + ":" + TopRepoFrame(s)
}

func tailFile(path string, n int) string {
	raw, err := os.ReadFile(path)
	if err != nil {
		return ""
	}
	if len(raw) > 1<<20 {
		raw = raw[:1<<20] // the head of a Go crash dump names the cause
	}
	l := strings.Split(string(raw), "\n")
	if len(l) > n {
		l = l[:n]
	}
	return strings.Join(l, "\n")
}

func readMarker(path string) (int, byte) {
	raw, err := os.ReadFile(path)
	if err != nil || len(raw) < 9 {
		return -1, 0
	}
	return int(int64(binary.LittleEndian.Uint64(raw[:8]))), raw[8]
}

func readShard(out string, r *shardResult) bool {
	done := false
	var last *WorkerSummary
	if f, err := os.Open(out); err == nil {
		sc := bufio.NewScanner(f)
		sc.Buffer(make([]byte, 1<<20), 64<<20)
		for sc.Scan() {
			var e Event
			if json.Unmarshal(sc.Bytes(), &e) != nil {
				continue
			}
			if e.Ev == "summary" && e.Summary != nil {
				last = e.Summary // cumulative: the last record of the file counts
				continue
			}
			r.events = append(r.events, e)
		}
		f.Close()
	}
	if last != nil {
		done = last.Done
		r.summary.Cases += last.Cases
		r.summary.Evals += last.Evals
		for k, v := range last.Cells {
			r.summary.Cells[k] += v
		}
		for k, v := range last.Counters {
			r.summary.Counters[k] += v
		}
	}
	if raw, err := os.ReadFile(out + ".hashes"); err == nil {
		for i := 0; i+8 <= len(raw); i += 8 {
			r.hashes[binary.LittleEndian.Uint64(raw[i:])] = struct{}{}
		}
	}
	return done
}

// CrashTagger lets a property refine the signature of a process-fatal crash
// ("<kind>:<innermost vuego function>") with what is specific about the case -
// the kind of data that was walked, or, where the function in which the
// process happens to die varies from run to run (memory exhaustion), a name for
// the case instead of the function - so that a recorded finding covers neither
// more nor less than the crash it describes. "" keeps the default.
// CrossChecker is implemented by a property whose workers record facts (as cells) that must agree between
// processes; the monitor hands it every worker's cells after the run.
type CrossChecker interface {
	CrossCheck(ctx Ctx, perWorker []map[string]int) []Violation
}

type CrashTagger interface {
	CrashTag(c any, kind, fn string) string
}

func crashSig(p Prop, c any, frame string) string {
	if t, ok := p.(CrashTagger); ok && c != nil {
		kind, fn, _ := strings.Cut(frame, ":")
		if sig := t.CrashTag(c, kind, fn); sig != "" {
			return sig
		}
	}
	return frame
}
