package core

// RNG is a splitmix64 generator; every random choice of the harness derives
// from VERIF_SEED through it, so a (property, tier, seed, index) tuple always
// denotes the same case.
type RNG struct{ s uint64 }

func NewRNG(seed uint64, stream ...uint64) *RNG {
	r := &RNG{s: seed*0x9E3779B97F4A7C15 + 0x1234567}
	for _, x := range stream {
		r.s ^= (x + 0x9E3779B97F4A7C15) * 0xBF58476D1CE4E5B9
		r.Next()
	}
	return r
}

func (r *RNG) Next() uint64 {
	r.s += 0x9E3779B97F4A7C15
	z := r.s
	z = (z ^ (z >> 30)) * 0xBF58476D1CE4E5B9
	z = (z ^ (z >> 27)) * 0x94D049BB133111EB
	return z ^ (z >> 31)
}

func (r *RNG) Intn(n int) int {
	if n <= 0 {
		return 0
	}
	return int(r.Next() % uint64(n))
}

func (r *RNG) Bool() bool { return r.Next()&1 == 1 }

// Chance returns true with probability num/den.
func (r *RNG) Chance(num, den int) bool { return r.Intn(den) < num }

func Pick[T any](r *RNG, xs []T) T { return xs[r.Intn(len(xs))] }

func (r *RNG) Perm(n int) []int {
	p := make([]int, n)
	for i := range p {
		p[i] = i
	}
	for i := n - 1; i > 0; i-- {
		j := r.Intn(i + 1)
		p[i], p[j] = p[j], p[i]
	}
	return p
}
