package core

import (
	"bufio"
	"encoding/binary"
	"encoding/json"
	"fmt"
	"os"
	"runtime/debug"
	"strings"
)

// Event is one line of a worker's event log.
type Event struct {
	Ev      string         `json:"ev"` // viol | sample | summary | inconclusive
	I       int            `json:"i"`
	Viol    *Violation     `json:"viol,omitempty"`
	Sample  any            `json:"sample,omitempty"`
	Why     string         `json:"why,omitempty"`
	Summary *WorkerSummary `json:"summary,omitempty"`
}

type WorkerSummary struct {
	Cases    int              `json:"cases"`
	Evals    int64            `json:"evals"`
	Cells    map[string]int   `json:"cells"`
	Counters map[string]int64 `json:"counters"`
	Viols    int              `json:"viols"`
	Last     int              `json:"last"` // last case index completed
	Done     bool             `json:"done"` // false: cumulative progress record of a worker still running
}

// WorkerArgs selects what a worker executes.
type WorkerArgs struct {
	ID         string
	Ctx        Ctx
	Shard, Of  int
	From       int    // skip case indices below From
	Out        string // event log path; Out+".hashes" and Out+".marker" are written next to it
	CasesFile  string // execute these stored cases instead of the generated shard
	MaxSamples int
}

type storedCases struct {
	Cases []json.RawMessage `json:"cases"`
}

// RunWorker executes a shard of the case list under the monitors.
func RunWorker(a WorkerArgs) error {
	p, meta, ok := Lookup(a.ID)
	if !ok {
		return fmt.Errorf("unknown property %s", a.ID)
	}
	debug.SetMaxStack(256 << 20)
	f, err := os.Create(a.Out)
	if err != nil {
		return err
	}
	defer f.Close()
	w := bufio.NewWriterSize(f, 1<<16)
	enc := json.NewEncoder(w)
	hf, err := os.Create(a.Out + ".hashes")
	if err != nil {
		return err
	}
	defer hf.Close()
	hw := bufio.NewWriterSize(hf, 1<<16)
	mf, err := os.Create(a.Out + ".marker")
	if err != nil {
		return err
	}
	defer mf.Close()
	var mbuf [16]byte
	mark := func(i int, phase byte) {
		binary.LittleEndian.PutUint64(mbuf[:8], uint64(int64(i)))
		mbuf[8] = phase
		mf.WriteAt(mbuf[:], 0)
	}

	sum := &WorkerSummary{Cells: map[string]int{}, Counters: map[string]int64{}, Last: -1}
	seen := map[uint64]struct{}{}
	samples := 0
	if a.MaxSamples == 0 {
		a.MaxSamples = 3
	}

	handle := func(i int, c any) {
		mark(i, 'B')
		if meta.Isolate {
			w.Flush()
		}
		obs := safeExec(p, a.Ctx, c)
		mark(i, 'E')
		sum.Cases++
		sum.Evals += int64(obs.Evals)
		sum.Last = i
		for k, v := range obs.Cells {
			sum.Cells[k] += v
		}
		for k, v := range obs.Counters {
			sum.Counters[k] += v
		}
		for _, h := range obs.NonTrivial {
			if _, dup := seen[h]; !dup {
				seen[h] = struct{}{}
				var b [8]byte
				binary.LittleEndian.PutUint64(b[:], h)
				hw.Write(b[:])
			}
		}
		for k := range obs.Viol {
			sum.Viols++
			v := obs.Viol[k]
			enc.Encode(Event{Ev: "viol", I: i, Viol: &v})
			w.Flush()
		}
		if obs.Inconclusive != "" {
			enc.Encode(Event{Ev: "inconclusive", I: i, Why: obs.Inconclusive})
		}
		if obs.Sample != nil && samples < a.MaxSamples {
			samples++
			enc.Encode(Event{Ev: "sample", I: i, Sample: obs.Sample})
		}
		if sum.Cases%50 == 0 || meta.Isolate {
			enc.Encode(Event{Ev: "summary", Summary: sum})
			hw.Flush()
			w.Flush()
		}
	}

	if a.CasesFile != "" {
		raw, err := os.ReadFile(a.CasesFile)
		if err != nil {
			return err
		}
		var sc storedCases
		if err := json.Unmarshal(raw, &sc); err != nil {
			return err
		}
		for i, rc := range sc.Cases {
			if i < a.From {
				continue
			}
			c, err := p.Decode(rc)
			if err != nil {
				enc.Encode(Event{Ev: "inconclusive", I: i, Why: "cannot decode stored case: " + err.Error()})
				continue
			}
			handle(i, c)
		}
	} else {
		n := p.Plan(a.Ctx)
		for i := a.Shard; i < n; i += a.Of {
			if i < a.From {
				continue
			}
			handle(i, p.Gen(a.Ctx, i))
		}
	}
	if meta.Finish != nil {
		var o Obs
		meta.Finish(a.Ctx, &o)
		for k, v := range o.Counters {
			sum.Counters[k] += v
		}
		for k := range o.Viol {
			sum.Viols++
			v := o.Viol[k]
			enc.Encode(Event{Ev: "viol", I: -1, Viol: &v})
		}
	}
	mark(-1, 'D')
	sum.Done = true
	enc.Encode(Event{Ev: "summary", Summary: sum})
	hw.Flush()
	return w.Flush()
}

// safeExec converts a panic escaping from the code under test into a violation
// of the property being checked (the monitor itself must survive).
func safeExec(p Prop, ctx Ctx, c any) (obs Obs) {
	defer func() {
		if r := recover(); r != nil {
			st := string(debug.Stack())
			obs.Evals++
			obs.Fail(c, "panic@"+TopRepoFrame(st), "panic escaped: %v\n%s", r, trimStack(st))
		}
	}()
	return p.Exec(ctx, c)
}

// TopRepoFrame returns the innermost vuego function in a stack dump.
func TopRepoFrame(stack string) string {
	for _, ln := range strings.Split(stack, "\n") {
		ln = strings.TrimSpace(ln)
		if strings.HasPrefix(ln, "github.com/titpetric/vuego") {
			if k := strings.Index(ln, "("); k > 0 {
				// keep method receivers such as (*Vue).evalFor intact
				if j := strings.LastIndex(ln, "("); j > 0 && !strings.HasSuffix(ln[:j], ".") {
					ln = ln[:j]
				}
			}
			ln = strings.TrimPrefix(ln, "github.com/titpetric/vuego")
			ln = strings.TrimPrefix(ln, "/")
			ln = strings.TrimPrefix(ln, ".")
			return ln
		}
	}
	return "unknown"
}

func trimStack(st string) string {
	lines := strings.Split(st, "\n")
	if len(lines) > 40 {
		lines = lines[:40]
	}
	return strings.Join(lines, "\n")
}
