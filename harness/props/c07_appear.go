package props

import (
	"bytes"
	"fmt"
	"strings"
	"testing/fstest"
	"time"

	vuego "github.com/titpetric/vuego"

	"verifharness/core"
)

// C07 "appear" part: one engine kept over a filesystem in which the files the
// layout resolution asks for (layouts/base.vuego, a layout next to the page)
// appear and disappear between renders. Whether the default is applied and
// which of two candidates a bare name resolves to is decided by the files that
// exist when the render runs; a fresh engine on the same filesystem state is
// the reference.

type c07AppearStep struct {
	Op   string // add | del
	Path string
	Src  string
}

var c07AppearScens = []struct {
	Label string
	Page  string
	Init  map[string]string
	Steps []c07AppearStep
}{
	{"default-layout-added-then-removed", "p.vuego", map[string]string{"p.vuego": `<p data-m="page">P</p>`},
		[]c07AppearStep{{"add", "layouts/base.vuego", `<main data-m="base"><div v-html="content"></div></main>`}, {"del", "layouts/base.vuego", ""}, {"add", "layouts/base.vuego", `<main data-m="base2"><div v-html="content"></div></main>`}}},
	{"default-layout-removed-then-added", "p.vuego", map[string]string{"p.vuego": `<p data-m="page">P</p>`, "layouts/base.vuego": `<main data-m="base"><div v-html="content"></div></main>`},
		[]c07AppearStep{{"del", "layouts/base.vuego", ""}, {"add", "layouts/base.vuego", `<main data-m="base2"><div v-html="content"></div></main>`}}},
	{"layout-next-to-the-page-added-then-removed", "sub/p.vuego", map[string]string{"sub/p.vuego": "---\nlayout: wrap\n---\n<p data-m=\"page\">P</p>", "layouts/wrap.vuego": `<main data-m="fallback"><div v-html="content"></div></main>`},
		[]c07AppearStep{{"add", "sub/wrap.vuego", `<main data-m="relative"><div v-html="content"></div></main>`}, {"del", "sub/wrap.vuego", ""}, {"add", "sub/wrap.vuego", `<main data-m="relative2"><div v-html="content"></div></main>`}}},
	{"layout-next-to-the-page-removed-then-added", "sub/p.vuego", map[string]string{"sub/p.vuego": "---\nlayout: wrap\n---\n<p data-m=\"page\">P</p>", "layouts/wrap.vuego": `<main data-m="fallback"><div v-html="content"></div></main>`, "sub/wrap.vuego": `<main data-m="relative"><div v-html="content"></div></main>`},
		[]c07AppearStep{{"del", "sub/wrap.vuego", ""}, {"add", "sub/wrap.vuego", `<main data-m="relative2"><div v-html="content"></div></main>`}}},
	{"second-link-next-to-the-first-layout-added", "p.vuego", map[string]string{"p.vuego": "---\nlayout: a\n---\n<p data-m=\"page\">P</p>", "layouts/a.vuego": "---\nlayout: b\n---\n<section data-m=\"a\"><div v-html=\"content\"></div></section>", "layouts/b.vuego": `<main data-m="b"><div v-html="content"></div></main>`},
		[]c07AppearStep{{"del", "layouts/b.vuego", ""}, {"add", "layouts/b.vuego", `<main data-m="b2"><div v-html="content"></div></main>`}}},
}

func c07NAppear() int { return len(c07AppearScens) * 2 }

func c07AppearCase(i int) c07Case {
	return c07Case{Part: "appear", Shape: c07AppearScens[i%len(c07AppearScens)].Label, Page: []string{"render", "renderfile"}[(i/len(c07AppearScens))%2], FillKind: "none"}
}

func c07ExecAppear(c c07Case) core.Obs {
	var o core.Obs
	o.NT(mustJSON(c))
	o.Cell("part/appear")
	o.Cell("appear/" + c.Shape + "/" + c.Page)
	var sc *struct {
		Label string
		Page  string
		Init  map[string]string
		Steps []c07AppearStep
	}
	for k := range c07AppearScens {
		if c07AppearScens[k].Label == c.Shape {
			sc = &c07AppearScens[k]
		}
	}
	if sc == nil {
		return o
	}
	clock := time.Date(2024, 1, 1, 0, 0, 0, 0, time.UTC)
	fsys := fstest.MapFS{}
	put := func(path, src string) {
		clock = clock.Add(time.Minute)
		fsys[path] = &fstest.MapFile{Data: []byte(src), ModTime: clock}
	}
	for _, p := range sortedKeys(sc.Init) {
		put(p, sc.Init[p])
	}
	render := func(e vuego.Template) (string, error) {
		var b bytes.Buffer
		var err error
		if c.Page == "renderfile" {
			err = e.RenderFile(bg, &b, sc.Page)
		} else {
			err = e.Load(sc.Page).Render(bg, &b)
		}
		return b.String(), err
	}
	long := vuego.NewFS(fsys)
	compare := func(at string) {
		o.Evals += 2
		got, gerr := render(long)
		want, werr := render(vuego.NewFS(fsys))
		state := fmt.Sprint(sortedKeys(map[string]*fstest.MapFile(fsys)))
		if (gerr != nil) != (werr != nil) {
			o.Fail(c, "appear/"+c.Shape+"/error-ness-differs-from-a-fresh-engine", "%s (files now: %s): engine kept over the changes: err=%v; fresh engine: err=%v", at, state, gerr, werr)
			return
		}
		if gerr == nil && c07Squash(got) != c07Squash(want) {
			o.Fail(c, "appear/"+c.Shape+"/layout-decided-by-files-that-existed-earlier", "%s (files now: %s)\nengine kept over the changes: %s\nfresh engine:                %s", at, state, c07Squash(got), c07Squash(want))
		}
	}
	compare("before any change")
	for k, st := range sc.Steps {
		if st.Op == "add" {
			put(st.Path, st.Src)
		} else {
			delete(fsys, st.Path)
		}
		compare(fmt.Sprintf("after step %d (%s %s)", k+1, st.Op, st.Path))
		compare(fmt.Sprintf("after step %d (%s %s), second render", k+1, st.Op, st.Path))
	}
	return o
}

func c07Squash(s string) string { return strings.Join(strings.Fields(s), "") }
