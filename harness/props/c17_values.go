package props

import (
	"fmt"
	"reflect"
	"sort"
	"strconv"
	"strings"
)

// C17 value recipes. A c17Node is a JSON-serialisable recipe of a nested Go
// value. c17Build turns it into the Go value TOGETHER WITH the table of steps
// that ordinary Go indexing can take from it (c17Built.steps), so the expected
// result of every path is known by construction, not by re-implementing path
// resolution or by reflection.

type c17Node struct {
	K    string    `json:"k"`
	I    int64     `json:"i,omitempty"`
	S    string    `json:"s,omitempty"`
	B    bool      `json:"b,omitempty"`
	F    float64   `json:"f,omitempty"`
	Keys []string  `json:"keys,omitempty"`
	Kids []c17Node `json:"kids,omitempty"`
}

// struct types used as containers (fields of type any can hold any nested value)
type c17T struct {
	X any `json:"x"`
	Y int
	z any
}

type c17S struct {
	Name   any `json:"name"`
	Plain  any
	Opt    any               `json:"opt,omitempty"`
	Kid    *c17S             `json:"kid"`
	Arr    [2]any            `json:"arr"`
	List   []any             `json:"list,omitempty"`
	Strs   map[string]string `json:"strs"`
	Val    c17T              `json:"val"`
	hidden any
	secret any `json:"sec"`
}

// root data struct of the sequence part
type c17Root struct {
	A   any `json:"a"`
	B   any `json:"b"`
	Cee any `json:"c,omitempty"`
	D   any
	Sub *c17Root `json:"sub"`
	hid any
}

type c17Bad struct{ step, cls string }

type c17Built struct {
	val    any
	kind   string               // container class (for signatures)
	steps  map[string]*c17Built // every step Go indexing / field access can take
	cls    map[string]string    // class of each valid step
	fuzzy  map[string]string    // steps whose outcome the statement does not decide -> reason
	bad    []c17Bad             // steps that must report absence
	elems  []*c17Built          // ordered elements (slices and arrays)
	probes [][]string
}

func c17NewBuilt(val any, kind string) *c17Built {
	return &c17Built{val: val, kind: kind, steps: map[string]*c17Built{}, cls: map[string]string{}}
}

func (b *c17Built) add(step, cls string, child *c17Built) {
	b.steps[step] = child
	b.cls[step] = cls
}

func (b *c17Built) addBad(step, cls string) {
	if _, ok := b.steps[step]; ok {
		return
	}
	if _, ok := b.fuzzy[step]; ok {
		return
	}
	b.bad = append(b.bad, c17Bad{step, cls})
}

func (b *c17Built) addFuzzy(step, why string, child *c17Built) {
	if b.fuzzy == nil {
		b.fuzzy = map[string]string{}
	}
	b.fuzzy[step] = why
	if child != nil {
		b.steps[step] = child
		b.cls[step] = "fuzzy"
	}
}

func (b *c17Built) sortedSteps() []string {
	ks := make([]string, 0, len(b.steps))
	for k := range b.steps {
		ks = append(ks, k)
	}
	sort.Strings(ks)
	return ks
}

func c17Leaf(v any) *c17Built {
	k := "scalar"
	if v == nil {
		k = "nil"
	}
	b := c17NewBuilt(v, k)
	b.addBad("k", "step-on-"+k)
	b.addBad("0", "step-on-"+k)
	return b
}

func c17Seq(val any, kind string, kids []*c17Built) *c17Built {
	b := c17NewBuilt(val, kind)
	for i, k := range kids {
		b.add(strconv.Itoa(i), "index", k)
	}
	b.elems = kids
	n := len(kids)
	b.addBad(strconv.Itoa(n), "index-out-of-range")
	b.addBad(strconv.Itoa(n+1), "index-out-of-range")
	b.addBad("-1", "index-negative")
	b.addBad("x", "index-non-numeric")
	b.addBad("name", "index-non-numeric")
	b.addBad("99999999999999999999", "index-out-of-range")
	return b
}

func c17MapB(val any, kind string, keys []string, kids []*c17Built) *c17Built {
	b := c17NewBuilt(val, kind)
	for i, k := range keys {
		b.add(k, "key", kids[i])
	}
	b.addBad("zz", "missing-key")
	b.addBad("0", "missing-key")
	return b
}

// c17Ptr: a non-nil pointer is transparent for indexing.
func c17Ptr(val any, target *c17Built) *c17Built {
	kind := target.kind
	if !strings.HasPrefix(kind, "*") { // pointer depth is not a separate class
		kind = "*" + kind
	}
	b := &c17Built{val: val, kind: kind, steps: target.steps, cls: target.cls, fuzzy: target.fuzzy, bad: target.bad, elems: nil}
	return b
}

func c17NilPtr(val any, what string) *c17Built {
	b := c17NewBuilt(val, "nil-pointer("+what+")")
	b.addBad("name", "step-on-nil-pointer")
	b.addBad("Name", "step-on-nil-pointer")
	b.addBad("0", "step-on-nil-pointer")
	return b
}

func c17PtrTo(v any) any {
	if v == nil {
		return new(any)
	}
	rv := reflect.ValueOf(v)
	p := reflect.New(rv.Type())
	p.Elem().Set(rv)
	return p.Interface()
}

func (n c17Node) kid(key string) (c17Node, bool) {
	for i, k := range n.Keys {
		if k == key && i < len(n.Kids) {
			return n.Kids[i], true
		}
	}
	return c17Node{}, false
}

func c17BuildT(n c17Node) (c17T, *c17Built) {
	t := c17T{Y: int(n.I), z: "UNEXPORTED-z"}
	xb := c17Leaf(nil)
	if x, ok := n.kid("X"); ok {
		xb = c17Build(x)
	}
	t.X = xb.val
	b := c17NewBuilt(nil, "struct")
	b.add("X", "field-name", xb)
	b.add("x", "json-tag", xb)
	b.add("Y", "field-name", c17Leaf(t.Y))
	b.addBad("z", "unexported-field")
	b.addBad("y", "missing-field")
	b.addBad("zz", "missing-field")
	b.addBad("0", "index-on-struct")
	b.val = t
	return t, b
}

func c17BuildS(n c17Node) (c17S, *c17Built) {
	s := c17S{hidden: "UNEXPORTED-hidden", secret: "UNEXPORTED-secret"}
	b := c17NewBuilt(nil, "struct")
	anyField := func(key string) *c17Built {
		if k, ok := n.kid(key); ok {
			return c17Build(k)
		}
		return c17Leaf(nil)
	}
	nb := anyField("Name")
	s.Name = nb.val
	b.add("Name", "field-name", nb)
	b.add("name", "json-tag", nb)
	pb := anyField("Plain")
	s.Plain = pb.val
	b.add("Plain", "field-name", pb)
	ob := anyField("Opt")
	s.Opt = ob.val
	b.add("Opt", "field-name", ob)
	b.add("opt", "json-tag", ob)
	// Kid *c17S
	var kb *c17Built
	if k, ok := n.kid("Kid"); ok && k.K == "struct" {
		ks, ksb := c17BuildS(k)
		p := &ks
		s.Kid = p
		kb = c17Ptr(p, ksb)
	} else {
		kb = c17NilPtr((*c17S)(nil), "struct")
	}
	b.add("Kid", "field-name", kb)
	b.add("kid", "json-tag", kb)
	// Arr [2]any
	var arrKids []*c17Built
	if k, ok := n.kid("Arr"); ok {
		for i := 0; i < 2; i++ {
			if i < len(k.Kids) {
				arrKids = append(arrKids, c17Build(k.Kids[i]))
			} else {
				arrKids = append(arrKids, c17Leaf(nil))
			}
		}
	} else {
		arrKids = []*c17Built{c17Leaf(nil), c17Leaf(nil)}
	}
	s.Arr = [2]any{arrKids[0].val, arrKids[1].val}
	ab := c17Seq(s.Arr, "array", arrKids)
	b.add("Arr", "field-name", ab)
	b.add("arr", "json-tag", ab)
	// List []any
	var lb *c17Built
	if k, ok := n.kid("List"); ok {
		var kids []*c17Built
		l := make([]any, 0, len(k.Kids))
		for _, e := range k.Kids {
			eb := c17Build(e)
			kids = append(kids, eb)
			l = append(l, eb.val)
		}
		s.List = l
		lb = c17Seq(l, "[]any", kids)
	} else {
		lb = c17Seq([]any(nil), "[]any", nil)
	}
	b.add("List", "field-name", lb)
	b.add("list", "json-tag", lb)
	// Strs map[string]string
	var sb *c17Built
	if k, ok := n.kid("Strs"); ok {
		m := map[string]string{}
		var kids []*c17Built
		var keys []string
		for i, key := range k.Keys {
			if i < len(k.Kids) {
				m[key] = k.Kids[i].S
			}
		}
		for _, key := range sortedKeys(m) {
			keys = append(keys, key)
			kids = append(kids, c17Leaf(m[key]))
		}
		s.Strs = m
		sb = c17MapB(m, "map[string]string", keys, kids)
	} else {
		sb = c17MapB(map[string]string(nil), "map[string]string", nil, nil)
	}
	b.add("Strs", "field-name", sb)
	b.add("strs", "json-tag", sb)
	// Val c17T
	var tb *c17Built
	if k, ok := n.kid("Val"); ok {
		s.Val, tb = c17BuildT(k)
	} else {
		s.Val, tb = c17BuildT(c17Node{K: "structT"})
	}
	b.add("Val", "field-name", tb)
	b.add("val", "json-tag", tb)
	b.addBad("hidden", "unexported-field")
	b.addBad("secret", "unexported-field")
	b.addBad("sec", "unexported-field")
	b.addBad("plain", "missing-field")
	b.addBad("zz", "missing-field")
	b.addBad("0", "index-on-struct")
	b.val = s
	return s, b
}

// c17BuildItem covers the harness' typed struct Item (typed.go): typed fields,
// json tags with omitempty, an untagged field, an unexported one, a pointer.
func c17BuildItem(title string, count int, depth int) (Item, *c17Built) {
	it := Item{Title: title, Count: count, Tags: []string{title + "-t0", title + "-t1"}, Plain: title + "-pl", On: true, hidden: "UNEXPORTED-hidden"}
	b := c17NewBuilt(nil, "struct")
	both := func(name, tag string, child *c17Built) {
		b.add(name, "field-name", child)
		if tag != "" {
			b.add(tag, "json-tag", child)
		}
	}
	both("Title", "title", c17Leaf(it.Title))
	both("Count", "count", c17Leaf(it.Count))
	both("Tags", "tags", c17Seq(it.Tags, "[]string", []*c17Built{c17Leaf(it.Tags[0]), c17Leaf(it.Tags[1])}))
	both("Plain", "", c17Leaf(it.Plain))
	both("On", "on", c17Leaf(it.On))
	if depth > 0 {
		sub, sb := c17BuildItem(title+"-sub", count+1, depth-1)
		p := &sub
		it.Sub = p
		both("Sub", "sub", c17Ptr(p, sb))
	} else {
		both("Sub", "sub", c17NilPtr((*Item)(nil), "struct"))
	}
	b.addBad("hidden", "unexported-field")
	b.addBad("plain", "missing-field")
	b.addBad("zz", "missing-field")
	b.addBad("0", "index-on-struct")
	b.val = it
	return it, b
}

func c17BuildEmb(title string, count int) *c17Built {
	it, ib := c17BuildItem(title, count, 1)
	e := Emb{Item: it, Extra: title + "-extra"}
	b := c17NewBuilt(e, "struct(embedded)")
	b.add("Item", "field-name", ib)
	xb := c17Leaf(e.Extra)
	b.add("Extra", "field-name", xb)
	b.add("extra", "json-tag", xb)
	for _, f := range []string{"Title", "Count", "Tags", "Plain", "On", "Sub"} {
		b.add(f, "promoted-field-name", ib.steps[f])
	}
	for _, t := range []string{"title", "count", "tags", "on", "sub"} {
		b.addFuzzy(t, "promoted-field-by-json-tag", ib.steps[t])
	}
	b.addBad("hidden", "unexported-field")
	b.addBad("zz", "missing-field")
	return b
}

// c17BuildRoot builds a c17Root value (root data of the sequence part).
func c17BuildRoot(a, bb, cee, d *c17Built, sub *c17Root, subB *c17Built) (c17Root, *c17Built) {
	r := c17Root{hid: "UNEXPORTED-hid"}
	b := c17NewBuilt(nil, "struct")
	nz := func(x *c17Built) *c17Built {
		if x == nil {
			return c17Leaf(nil)
		}
		return x
	}
	a, bb, cee, d = nz(a), nz(bb), nz(cee), nz(d)
	r.A, r.B, r.Cee, r.D = a.val, bb.val, cee.val, d.val
	b.add("A", "field-name", a)
	b.add("a", "json-tag", a)
	b.add("B", "field-name", bb)
	b.add("b", "json-tag", bb)
	b.add("Cee", "field-name", cee)
	b.add("c", "json-tag", cee)
	b.add("D", "field-name", d)
	var sb *c17Built
	if sub != nil {
		r.Sub = sub
		sb = c17Ptr(sub, subB)
	} else {
		sb = c17NilPtr((*c17Root)(nil), "struct")
	}
	b.add("Sub", "field-name", sb)
	b.add("sub", "json-tag", sb)
	b.addBad("hid", "unexported-field")
	b.addBad("zz", "missing-field")
	b.val = r
	return r, b
}

// c17Build is total: an ill-formed recipe degrades to a leaf.
func c17Build(n c17Node) *c17Built {
	buildKids := func() []*c17Built {
		out := make([]*c17Built, 0, len(n.Kids))
		for _, k := range n.Kids {
			out = append(out, c17Build(k))
		}
		return out
	}
	switch n.K {
	case "nil", "":
		return c17Leaf(nil)
	case "int":
		return c17Leaf(int(n.I))
	case "i64":
		return c17Leaf(int64(n.I))
	case "u8":
		return c17Leaf(uint8(n.I))
	case "str":
		return c17Leaf(n.S)
	case "bool":
		return c17Leaf(n.B)
	case "float":
		return c17Leaf(n.F)
	case "map":
		kids := buildKids()
		m := make(map[string]any, len(kids))
		var keys []string
		var ks []*c17Built
		for i, key := range n.Keys {
			if i >= len(kids) {
				break
			}
			if _, dup := m[key]; dup {
				continue
			}
			m[key] = kids[i].val
			keys = append(keys, key)
			ks = append(ks, kids[i])
		}
		return c17MapB(m, "map[string]any", keys, ks)
	case "nilmap":
		return c17MapB(map[string]any(nil), "map[string]any", nil, nil)
	case "mapss":
		m := map[string]string{}
		for i, key := range n.Keys {
			if i < len(n.Kids) {
				m[key] = n.Kids[i].S
			}
		}
		var keys []string
		var ks []*c17Built
		for _, key := range sortedKeys(m) {
			keys = append(keys, key)
			ks = append(ks, c17Leaf(m[key]))
		}
		return c17MapB(m, "map[string]string", keys, ks)
	case "nilmapss":
		return c17MapB(map[string]string(nil), "map[string]string", nil, nil)
	case "mapns": // map keyed by a defined string type: Go reaches m["k"], so does a path step
		m := map[NamedString]string{}
		for i, key := range n.Keys {
			if i < len(n.Kids) {
				m[NamedString(key)] = n.Kids[i].S
			}
		}
		var keys []string
		var ks []*c17Built
		raw := map[string]string{}
		for k, v := range m {
			raw[string(k)] = v
		}
		for _, key := range sortedKeys(raw) {
			keys = append(keys, key)
			ks = append(ks, c17Leaf(raw[key]))
		}
		return c17MapB(m, "map[NamedString]string", keys, ks)
	case "mapsi":
		m := map[string]int{}
		for i, key := range n.Keys {
			if i < len(n.Kids) {
				m[key] = int(n.Kids[i].I)
			}
		}
		var keys []string
		var ks []*c17Built
		for _, key := range sortedKeys(m) {
			keys = append(keys, key)
			ks = append(ks, c17Leaf(m[key]))
		}
		return c17MapB(m, "map[string]int", keys, ks)
	case "mapis": // map[int]any: whether a path step can address a non-string key is not decided by the statement
		kids := buildKids()
		m := map[int]any{}
		b := c17NewBuilt(m, "map[int]any")
		for i, key := range n.Keys {
			if i >= len(kids) {
				break
			}
			ik, err := strconv.Atoi(key)
			if err != nil {
				continue
			}
			if _, dup := m[ik]; dup {
				continue
			}
			m[ik] = kids[i].val
			b.addFuzzy(strconv.Itoa(ik), "map-with-non-string-key", kids[i])
		}
		b.addBad("zz", "missing-key")
		b.addBad("77", "missing-key")
		return b
	case "slice":
		kids := buildKids()
		l := make([]any, 0, len(kids))
		for _, k := range kids {
			l = append(l, k.val)
		}
		return c17Seq(l, "[]any", kids)
	case "nilslice":
		return c17Seq([]any(nil), "[]any", nil)
	case "strs":
		l := make([]string, 0, len(n.Kids))
		var ks []*c17Built
		for _, k := range n.Kids {
			l = append(l, k.S)
			ks = append(ks, c17Leaf(k.S))
		}
		return c17Seq(l, "[]string", ks)
	case "ints":
		l := make([]int, 0, len(n.Kids))
		var ks []*c17Built
		for _, k := range n.Kids {
			l = append(l, int(k.I))
			ks = append(ks, c17Leaf(int(k.I)))
		}
		return c17Seq(l, "[]int", ks)
	case "arr2":
		var ks []*c17Built
		for i := 0; i < 2; i++ {
			if i < len(n.Kids) {
				ks = append(ks, c17Build(n.Kids[i]))
			} else {
				ks = append(ks, c17Leaf(nil))
			}
		}
		return c17Seq([2]any{ks[0].val, ks[1].val}, "array", ks)
	case "arr3s":
		var a [3]string
		var ks []*c17Built
		for i := 0; i < 3; i++ {
			if i < len(n.Kids) {
				a[i] = n.Kids[i].S
			}
			ks = append(ks, c17Leaf(a[i]))
		}
		return c17Seq(a, "array", ks)
	case "struct":
		_, b := c17BuildS(n)
		return b
	case "structT":
		_, b := c17BuildT(n)
		return b
	case "structs":
		var l []c17S
		var ks []*c17Built
		for _, k := range n.Kids {
			s, sb := c17BuildS(k)
			l = append(l, s)
			ks = append(ks, sb)
		}
		return c17Seq(l, "[]struct", ks)
	case "pstructs":
		var l []*c17S
		var ks []*c17Built
		for _, k := range n.Kids {
			if k.K == "nil" {
				l = append(l, nil)
				ks = append(ks, c17NilPtr((*c17S)(nil), "struct"))
				continue
			}
			s, sb := c17BuildS(k)
			p := &s
			l = append(l, p)
			ks = append(ks, c17Ptr(p, sb))
		}
		return c17Seq(l, "[]*struct", ks)
	case "ptr":
		if len(n.Kids) == 0 {
			return c17Leaf(nil)
		}
		t := c17Build(n.Kids[0])
		if t.val == nil {
			b := c17NewBuilt(c17PtrTo(nil), "*nil")
			b.addBad("k", "step-on-nil")
			return b
		}
		return c17Ptr(c17PtrTo(t.val), t)
	case "nilpstruct":
		return c17NilPtr((*c17S)(nil), "struct")
	case "nilpslice":
		return c17NilPtr((*[]any)(nil), "slice")
	case "nilpmap":
		return c17NilPtr((*map[string]any)(nil), "map")
	case "item":
		_, b := c17BuildItem(n.S, int(n.I), 1)
		return b
	case "pitem":
		it, b := c17BuildItem(n.S, int(n.I), 1)
		return c17Ptr(&it, b)
	case "emb":
		return c17BuildEmb(n.S, int(n.I))
	}
	return c17Leaf(fmt.Sprintf("unknown-kind-%s", n.K))
}

// c17Equal: the observed value is the element Go indexing reaches. Pointers
// must be the very same pointer, everything else deeply equal (and of the same
// dynamic type, which reflect.DeepEqual requires).
func c17Equal(got, want any) bool {
	if want == nil || got == nil {
		return want == nil && got == nil
	}
	wv := reflect.ValueOf(want)
	if wv.Kind() == reflect.Ptr {
		gv := reflect.ValueOf(got)
		return gv.Kind() == reflect.Ptr && gv.Type() == wv.Type() && gv.Pointer() == wv.Pointer()
	}
	return reflect.DeepEqual(got, want)
}

// ---- recipe helpers

func c17N(k string) c17Node   { return c17Node{K: k} }
func c17Int(i int) c17Node    { return c17Node{K: "int", I: int64(i)} }
func c17Str(s string) c17Node { return c17Node{K: "str", S: s} }
func c17Map(keys []string, kids ...c17Node) c17Node {
	return c17Node{K: "map", Keys: keys, Kids: kids}
}
func c17List(kids ...c17Node) c17Node { return c17Node{K: "slice", Kids: kids} }
func c17Struct(keys []string, kids ...c17Node) c17Node {
	return c17Node{K: "struct", Keys: keys, Kids: kids}
}

// c17Hold wraps next in one container of the given holder kind.
var c17Holders = []string{"map", "slice", "arr2", "struct", "ptr", "kid", "structs", "pstructs", "val"}

func c17Hold(kind string, next c17Node, stamp int) c17Node {
	switch kind {
	case "map":
		return c17Map([]string{"k", "other"}, next, c17Int(stamp))
	case "slice":
		return c17List(c17Int(stamp), next)
	case "arr2":
		return c17Node{K: "arr2", Kids: []c17Node{next, c17Str(fmt.Sprintf("s%d", stamp))}}
	case "struct":
		f := []string{"Name", "Plain", "Opt"}[stamp%3]
		return c17Struct([]string{f}, next)
	case "ptr":
		return c17Node{K: "ptr", Kids: []c17Node{next}}
	case "kid":
		return c17Struct([]string{"Kid"}, c17Struct([]string{"Name"}, next))
	case "structs":
		return c17Node{K: "structs", Kids: []c17Node{c17Struct([]string{"Name"}, next), c17Struct(nil)}}
	case "pstructs":
		return c17Node{K: "pstructs", Kids: []c17Node{c17Struct([]string{"Opt"}, next), c17N("nil")}}
	case "val":
		return c17Struct([]string{"Val"}, c17Node{K: "structT", I: int64(stamp), Keys: []string{"X"}, Kids: []c17Node{next}})
	}
	return next
}

var c17Terminals = []c17Node{
	c17Int(41),
	c17Str("leaf"),
	c17N("nil"),
	{K: "bool", B: true},
	{K: "float", F: 2.5},
	{K: "i64", I: 1 << 40},
	{K: "u8", I: 200},
	{K: "mapss", Keys: []string{"k", "m"}, Kids: []c17Node{c17Str("vk"), c17Str("")}},
	{K: "mapsi", Keys: []string{"k", "z"}, Kids: []c17Node{c17Int(5), c17Int(0)}},
	{K: "mapns", Keys: []string{"en", "k"}, Kids: []c17Node{c17Str("Hello"), c17Str("nk")}},
	{K: "mapis", Keys: []string{"1", "2"}, Kids: []c17Node{c17Str("one"), c17Int(2)}},
	{K: "strs", Kids: []c17Node{c17Str("p"), c17Str(""), c17Str("r")}},
	{K: "ints", Kids: []c17Node{c17Int(0), c17Int(7)}},
	{K: "arr3s", Kids: []c17Node{c17Str("x"), c17Str("y")}},
	c17N("nilslice"),
	c17N("nilmap"),
	c17N("nilmapss"),
	c17N("nilpstruct"),
	c17N("nilpslice"),
	c17N("nilpmap"),
	{K: "item", S: "it", I: 3},
	{K: "pitem", S: "pit", I: 4},
	{K: "emb", S: "em", I: 5},
	{K: "structT", I: 9, Keys: []string{"X"}, Kids: []c17Node{c17Str("tx")}},
	{K: "ptr", Kids: []c17Node{c17Int(8)}},
	{K: "ptr", Kids: []c17Node{c17N("nil")}},
	{K: "ptr", Kids: []c17Node{{K: "ptr", Kids: []c17Node{c17Struct([]string{"Name", "Strs"}, c17Str("pp"), c17Node{K: "mapss", Keys: []string{"k"}, Kids: []c17Node{c17Str("v")}})}}}},
	{K: "ptr", Kids: []c17Node{{K: "ints", Kids: []c17Node{c17Int(1), c17Int(2)}}}},
	{K: "ptr", Kids: []c17Node{{K: "arr3s", Kids: []c17Node{c17Str("a0")}}}},
	{K: "ptr", Kids: []c17Node{{K: "mapss", Keys: []string{"k"}, Kids: []c17Node{c17Str("pv")}}}},
	c17Struct([]string{"Name", "Plain", "Opt", "Arr", "List", "Strs", "Val", "Kid"},
		c17Int(1), c17Str("pl"), c17N("nil"),
		c17Node{K: "arr2", Kids: []c17Node{c17Int(10), c17List(c17Int(11))}},
		c17List(c17Str("l0"), c17Map([]string{"k"}, c17Int(12))),
		c17Node{K: "mapss", Keys: []string{"k"}, Kids: []c17Node{c17Str("sv")}},
		c17Node{K: "structT", I: 13, Keys: []string{"X"}, Kids: []c17Node{c17List(c17Int(14))}},
		c17Struct([]string{"Name"}, c17Str("kidname"))),
	c17Map([]string{"k", "n", "e", "l"}, c17Str("v"), c17N("nil"), c17Str(""), c17List()),
}
