package props

import (
	"fmt"
	"strings"
	"sync/atomic"

	vuego "github.com/titpetric/vuego"

	"verifharness/core"
	"verifharness/oracle"
)

// C03 "lazy" part: the members after the first truthy one carry conditions
// that cannot be evaluated (a registered function that returns an error, or a
// call on a missing variable). The first truthy branch must be rendered all
// the same - a chain that goes on evaluating conditions after it has found its
// branch turns a valid page into a failed render.

type c03Lazy struct {
	K     int    `json:"k"`     // number of v-else-if members
	Else  bool   `json:"else"`  // chain ends in v-else
	Taken int    `json:"taken"` // index of the first truthy member (0 = the v-if)
	Bad   string `json:"bad"`   // boom (function returning an error) | count (function with a side effect, returns true)
	Place string `json:"place"` // top | for | template | component
}

var c03LazyBoom, c03LazyCount atomic.Int64

func c03LazyFuncs() vuego.LoadOption {
	return vuego.WithFuncs(vuego.FuncMap{
		"c03boom":  func() (bool, error) { c03LazyBoom.Add(1); return false, fmt.Errorf("c03boom must not be called") },
		"c03count": func() bool { c03LazyCount.Add(1); return true },
	})
}

func c03LazyCases() []c03Lazy {
	var out []c03Lazy
	for k := 1; k <= 3; k++ {
		for _, e := range []bool{false, true} {
			for taken := 0; taken < k; taken++ { // at least one v-else-if follows the taken member
				for _, bad := range []string{"boom", "count"} {
					for _, pl := range []string{"top", "for", "template", "component"} {
						out = append(out, c03Lazy{k, e, taken, bad, pl})
					}
				}
			}
		}
	}
	return out
}

func c03ExecLazy(c c03Case, o *core.Obs) {
	l := *c.Lazy
	tag := "p"
	if l.Place == "template" {
		tag = "template"
	}
	var b strings.Builder
	member := func(i int, dir, cond string) {
		attr := dir
		if cond != "" {
			attr = fmt.Sprintf(`%s="%s"`, dir, cond)
		}
		if tag == "template" {
			fmt.Fprintf(&b, `<template %s><i data-m="b%d">B%d</i></template>`, attr, i, i)
		} else {
			fmt.Fprintf(&b, `<p %s data-m="b%d">B%d</p>`, attr, i, i)
		}
	}
	cond := func(i int) string {
		switch {
		case i < l.Taken:
			return "no"
		case i == l.Taken:
			return "yes"
		case l.Bad == "boom":
			return "c03boom()"
		}
		return "c03count()"
	}
	member(0, "v-if", cond(0))
	for i := 1; i <= l.K; i++ {
		member(i, "v-else-if", cond(i))
	}
	if l.Else {
		member(l.K+1, "v-else", "")
	}
	chain := b.String()
	tpl := `<section><b data-m="pre">pre</b>` + chain + `<b data-m="post">post</b></section>`
	want := []string{"pre", fmt.Sprintf("b%d", l.Taken), "post"}
	files := map[string]string{}
	switch l.Place {
	case "for":
		tpl = `<section><div v-for="x in two"><b data-m="pre">pre</b>` + chain + `<b data-m="post">post</b></div></section>`
		want = append(want, want...)
	case "component":
		files["c.vuego"] = `<b data-m="pre">pre</b>` + chain + `<b data-m="post">post</b>`
		tpl = `<section><template include="c.vuego" :yes="yes" :no="no"></template></section>`
	}
	files["page.vuego"] = tpl
	data := map[string]any{"yes": true, "no": false, "two": []any{1, 2}}
	boom0, count0 := c03LazyBoom.Load(), c03LazyCount.Load()
	out, err := renderFile(memFS(files), "page.vuego", data, c03LazyFuncs())
	o.Evals++
	o.NT("lazy", mustJSON(l))
	o.Cell("part/lazy")
	o.Cell("lazy/place/" + l.Place)
	o.Cell("lazy/later-condition/" + l.Bad)
	booms, counts := c03LazyBoom.Load()-boom0, c03LazyCount.Load()-count0
	sig := func(what string) string { return fmt.Sprintf("lazy/%s/later-%s/%s", what, l.Bad, l.Place) }
	detail := fmt.Sprintf("chain: %s\noutput: %s", chain, clip(out, 500))
	if err != nil {
		o.Fail(c, sig("render-failed-on-a-condition-after-the-taken-branch"), "member %d is the first truthy one, the render failed: %v (c03boom called %d time(s))\n%s", l.Taken, err, booms, detail)
		return
	}
	got := oracle.ParseAuto(out).AllMarkers("data-m")
	if strings.Join(got, " ") != strings.Join(want, " ") {
		o.Fail(c, sig("wrong-branch"), "markers %v, want %v\n%s", got, want, detail)
		return
	}
	if booms+counts > 0 {
		// evaluated and ignored: observable only through side effects, which the statement does not forbid
		o.Cell("lazy/observed/later-conditions-evaluated-without-effect-on-output")
	} else {
		o.Cell("lazy/observed/later-conditions-not-evaluated")
	}
}

var _ = core.HashOf
