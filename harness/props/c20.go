package props

import (
	"bytes"
	"encoding/json"
	"fmt"
	"io/fs"
	"regexp"
	"sort"
	"strings"
	"sync"
	"unicode/utf8"

	"github.com/titpetric/vuego/markdown"
	"github.com/yuin/goldmark"
	"github.com/yuin/goldmark/ast"
	"github.com/yuin/goldmark/extension"
	east "github.com/yuin/goldmark/extension/ast"
	gmhtml "github.com/yuin/goldmark/renderer/html"
	"github.com/yuin/goldmark/text"
	xhtml "golang.org/x/net/html"

	"verifharness/core"
	"verifharness/oracle"
)

// C20 — Markdown rendered through the default vuego templates has the same
// structure and text as a CommonMark/GFM reference rendering; rendering never
// fails; a user template in the content FS replaces exactly its default.
//
// Reference model: goldmark's own HTML renderer (raw HTML passed through, GFM
// table alignment as the `align` attribute like the GFM spec) on the same
// source. Observer: golang.org/x/net/html re-parse of both outputs into the
// harness' normalised DOM, compared node by node with a classifying differ
// written here (c20_diff.go). Override model: pre-order walk of the goldmark
// AST gives the exact sequence of templates the renderer must instantiate.

type c20Case struct {
	Part string   `json:"part"`           // matrix | struct | doc | bytes | ovr
	Fam  string   `json:"fam,omitempty"`  // position (matrix) / family (struct) / kind (bytes, ovr)
	Atom string   `json:"atom,omitempty"` // atom class (matrix)
	Src  string   `json:"src,omitempty"`
	Raw  []byte   `json:"raw,omitempty"` // source when it is not valid UTF-8
	Ovr  []string `json:"ovr,omitempty"`
	Load bool     `json:"load,omitempty"` // additionally go through Load()+Document.Render
}

func (c c20Case) source() []byte {
	if c.Raw != nil {
		return c.Raw
	}
	return []byte(c.Src)
}

type c20 struct{}

func init() {
	core.Register(&c20{}, core.Meta{
		Exhaustive: func(ctx core.Ctx) bool { return false },
		Assumptions: []string{
			"goldmark's HTML renderer (unsafe mode, GFM extensions, table alignment as align attribute) on the same goldmark parse is the CommonMark/GFM reference rendering; parser defects shared by both sides are not observable",
			"golang.org/x/net/html re-parse of both outputs is the trusted observer (its one known deviation from browsers, '&#x;' read as U+FFFD, is compensated); white space is collapsed, except that the text of markdown code blocks is compared exactly in documents without raw HTML, and the reader's view of inline containers (p, h1-h6, th, td, li) is compared for white space that appears or disappears between words",
			"heading id attributes (vuego extension) are ignored; an empty title attribute equals an absent one; <ol> without start equals start=1; link/image destinations are compared after percent-decoding (CommonMark leaves URL normalisation to the renderer); goldmark's '<br>' inside an image alt text (hard break in the description) is read as white space",
			"documents whose raw HTML leaves a tag unterminated or a fragile element (formatting, raw-text, table, implied-end-tag elements) unbalanced are judged for no-failure only: the HTML parser re-parents what follows depending on insignificant inter-block white space",
			"after a dropped closing line of a raw HTML block (own signature) the rest of that document is not compared; in a document whose reference text has a literal '<' outside code, differences without an explanation of their own are attributed to that '<' (signature literal-lt-became-markup)",
			"documents loaded through Load() that begin with '---' are subject to front-matter extraction (documented feature) and are only judged for no-failure",
			"per worker process at most 25 violations of one signature are recorded in full; further ones are counted under suppressed/<signature>",
		},
		MinNonTrivial: func(ctx core.Ctx) int { return 1000 },
	})
}

func (p *c20) ID() string { return "C20" }
func (p *c20) Rule() string {
	return "exhaustive parts: (matrix) every atom of a catalogue of literal-character hazards (<, >, &, quotes, character references incl. malformed/legacy ones, backslash escapes, mustache and Vue-looking text, markup-looking and unbalanced-markup text, values the engine treats as falsy, markdown punctuation, unicode) x every position of a catalogue of inline/block/attribute positions (paragraph, ATX/setext heading, emphasis/strong/strike, link text/destination/title, reference definition, image alt/src/title, code span, fenced/indented code, fence info, table header/body cell, tight/loose/nested list item, blockquote, task item, autolinks, raw HTML block/inline, hard breaks, deep nesting); (struct) ordered-list start x delimiter x tightness x item count, list nesting shapes to depth 3 over 5 marker kinds, heading level x style x content, table columns<=3 x every alignment vector x body rows x ragged rows, inline nesting to depth 3 over 8 wrappers, container x inner block, break kind x inline position, every ordered pair of block kinds with and without separating blank line; (ovr) each default template overridden singly, every pair, all 17, none. random parts: seeded grammar documents of <=12 blocks (all constructs above, nested containers, reference links), random-byte / mutated-corpus documents judged for no-failure only, seeded override subsets over generated documents. non-trivial = every case whose source is non-empty; distinct by (part, source, override set)"
}

// ---- plan ----

type c20Plan struct {
	exh   []c20Case
	nDoc  int
	nByte int
	nOvr  int
}

var (
	c20ExhOnce sync.Once
	c20ExhList []c20Case
)

func (p *c20) plan(ctx core.Ctx) c20Plan {
	c20ExhOnce.Do(func() { c20ExhList = c20BuildExhaustive() })
	return c20Plan{
		exh:   c20ExhList,
		nDoc:  ctx.Pick(20000, 200000),
		nByte: ctx.Pick(20000, 300000),
		nOvr:  ctx.Pick(600, 5000),
	}
}

func (p *c20) Plan(ctx core.Ctx) int {
	pl := p.plan(ctx)
	return len(pl.exh) + pl.nDoc + pl.nByte + pl.nOvr
}

func (p *c20) Gen(ctx core.Ctx, i int) any {
	pl := p.plan(ctx)
	if i < 0 {
		return c20Case{Part: "doc"}
	}
	if i < len(pl.exh) {
		return pl.exh[i]
	}
	i -= len(pl.exh)
	switch {
	case i < pl.nDoc:
		r := core.NewRNG(ctx.Seed, 20, uint64(i))
		g := &c20G{r: r}
		maxBlocks := 1 + r.Intn(12)
		if r.Chance(1, 2) {
			maxBlocks = 1 + r.Intn(4)
		}
		src := g.doc(maxBlocks)
		return c20MkCase("doc", "", "", src, nil, i%8 == 0)
	case i < pl.nDoc+pl.nByte:
		j := i - pl.nDoc
		r := core.NewRNG(ctx.Seed, 21, uint64(j))
		kind, b := c20GenBytes(r)
		c := c20MkCase("bytes", kind, "", "", nil, j%4 == 0)
		if utf8.Valid(b) {
			c.Src = string(b)
		} else {
			c.Raw = b
		}
		return c
	default:
		j := i - pl.nDoc - pl.nByte
		r := core.NewRNG(ctx.Seed, 22, uint64(j))
		g := &c20G{r: r, tame: true}
		var src string
		if r.Chance(1, 4) {
			src = c20KitchenSink
		} else {
			src = g.doc(2 + r.Intn(6))
		}
		var set []string
		k := 1 + r.Intn(len(c20Templates))
		if r.Chance(1, 2) {
			k = 1 + r.Intn(5)
		}
		for _, x := range r.Perm(len(c20Templates))[:k] {
			set = append(set, c20Templates[x])
		}
		sort.Strings(set)
		return c20MkCase("ovr", "random-subset", "", src, set, false)
	}
}

func c20MkCase(part, fam, atom, src string, ovr []string, load bool) c20Case {
	return c20Case{Part: part, Fam: fam, Atom: atom, Src: src, Ovr: ovr, Load: load}
}

func (p *c20) Decode(raw json.RawMessage) (any, error) { return core.JSONDecode[c20Case](raw) }

// ---- reference ----

var c20Ref = goldmark.New(
	goldmark.WithExtensions(
		extension.Linkify,
		extension.NewTable(extension.WithTableCellAlignMethod(extension.TableCellAlignAttribute)),
		extension.Strikethrough,
		extension.TaskList,
	),
	goldmark.WithRendererOptions(gmhtml.WithUnsafe()),
)

var c20Templates = []string{
	"autolink", "blockquote", "code_block", "code_span", "emphasis", "hard_break", "heading", "image", "link",
	"list", "list_item", "paragraph", "raw_html", "strikethrough", "table", "task_checkbox", "thematic_break",
}

// c20Root: which element names the root of a default template may produce.
var c20Root = map[string]string{
	"autolink": "a", "blockquote": "blockquote", "code_block": "pre", "code_span": "code", "emphasis": "em|strong",
	"hard_break": "br", "heading": "h1|h2|h3|h4|h5|h6", "image": "img", "link": "a", "list": "ol|ul", "list_item": "li",
	"paragraph": "p", "raw_html": "", "strikethrough": "del", "table": "table", "task_checkbox": "input", "thematic_break": "hr",
}

// c20AST summarises the goldmark parse of a document: the pre-order sequence of
// template instantiations the renderer has to make, and features used by the
// classifier and the coverage cells.
type c20AST struct {
	seq         []string
	kinds       map[string]int
	hasRaw      bool
	rawOpenTag  bool // a raw HTML block ends inside an unterminated tag
	rawChunks   []string
	rawUnbal    string   // name of an element that raw HTML opens and does not close (or closes without opening)
	closures    []string // closure lines of HTML blocks
	hasSoft     bool
	maxDepth    int
	blocks      int
	refLinkDefs bool
}

func c20Analyse(src []byte) c20AST {
	doc := c20Ref.Parser().Parse(text.NewReader(src))
	a := c20AST{kinds: map[string]int{}}
	for c := doc.FirstChild(); c != nil; c = c.NextSibling() {
		a.blocks++
	}
	add := func(k string) {
		a.seq = append(a.seq, k)
		a.kinds[k]++
	}
	var walk func(n ast.Node, depth int)
	walk = func(n ast.Node, depth int) {
		if depth > a.maxDepth {
			a.maxDepth = depth
		}
		descend := true
		switch x := n.(type) {
		case *ast.Heading:
			add("heading")
		case *ast.Paragraph:
			add("paragraph")
		case *ast.FencedCodeBlock:
			add("code_block")
			a.kinds["fenced"]++
			descend = false
		case *ast.CodeBlock:
			add("code_block")
			a.kinds["indented"]++
			descend = false
		case *ast.Blockquote:
			add("blockquote")
		case *ast.List:
			add("list")
			if x.IsOrdered() {
				a.kinds["ordered"]++
			}
			if !x.IsTight {
				a.kinds["loose"]++
			}
		case *ast.ListItem:
			add("list_item")
		case *ast.ThematicBreak:
			add("thematic_break")
		case *ast.HTMLBlock:
			a.hasRaw = true
			a.kinds["html_block"]++
			var raw strings.Builder
			for i := 0; i < x.Lines().Len(); i++ {
				l := x.Lines().At(i)
				raw.Write(l.Value(src))
			}
			if x.HasClosure() {
				raw.Write(x.ClosureLine.Value(src))
			}
			rs := raw.String()
			if strings.LastIndex(rs, "<") > strings.LastIndex(rs, ">") {
				a.rawOpenTag = true
			}
			a.rawChunks = append(a.rawChunks, rs)
			if x.HasClosure() {
				a.closures = append(a.closures, string(x.ClosureLine.Value(src)))
			}
			descend = false
		case *east.Table:
			add("table")
		case *ast.Text:
			if x.HardLineBreak() {
				add("hard_break")
			} else if x.SoftLineBreak() {
				a.hasSoft = true
				a.kinds["soft_break"]++
			}
		case *ast.CodeSpan:
			add("code_span")
			descend = false
		case *ast.Emphasis:
			add("emphasis")
		case *ast.Link:
			add("link")
		case *ast.Image:
			add("image")
			descend = false // only the plain text of the children is used (alt)
		case *ast.AutoLink:
			add("autolink")
			descend = false
		case *ast.RawHTML:
			add("raw_html")
			a.hasRaw = true
			var raw strings.Builder
			for i := 0; i < x.Segments.Len(); i++ {
				sg := x.Segments.At(i)
				raw.Write(sg.Value(src))
			}
			a.rawChunks = append(a.rawChunks, raw.String())
			descend = false
		case *east.Strikethrough:
			add("strikethrough")
		case *east.TaskCheckBox:
			add("task_checkbox")
		}
		if !descend {
			return
		}
		for c := n.FirstChild(); c != nil; c = c.NextSibling() {
			walk(c, depth+1)
		}
	}
	walk(doc, 0)
	a.rawUnbal = c20RawUnbalanced(a.rawChunks)
	return a
}

// c20RawUnbalanced tokenises the raw HTML chunks of a document and returns the
// name of a non-void element whose start and end tags do not pair up ("" if
// all do). Such raw HTML leaves an element open across markdown constructs; the
// HTML parser then re-parents or swallows what follows, and insignificant
// white space between blocks decides where — those documents are not judged
// structurally.
func c20RawUnbalanced(chunks []string) string {
	open := map[string]int{}
	for _, ch := range chunks {
		z := xhtml.NewTokenizer(strings.NewReader(ch))
		for {
			tt := z.Next()
			if tt == xhtml.ErrorToken {
				break
			}
			switch tt {
			case xhtml.StartTagToken:
				n, _ := z.TagName()
				name := string(n)
				if oracle.ElementClass(name) != "void" {
					open[name]++
				}
			case xhtml.EndTagToken:
				n, _ := z.TagName()
				open[string(n)]--
			}
		}
	}
	for _, k := range sortedKeys(open) {
		if open[k] != 0 && c20Fragile[k] {
			return k
		}
	}
	return ""
}

// elements whose being left open changes how the HTML parser treats what
// follows: formatting elements (re-opened after every block boundary), raw
// text / RCDATA elements (swallow markup as text), table and select content
// (foster parenting), elements with implied end tags, foreign content.
var c20Fragile = map[string]bool{
	"a": true, "b": true, "big": true, "code": true, "em": true, "font": true, "i": true, "nobr": true, "s": true, "small": true, "strike": true, "strong": true, "tt": true, "u": true,
	"script": true, "style": true, "textarea": true, "title": true, "xmp": true, "plaintext": true, "iframe": true, "noembed": true, "noframes": true, "noscript": true,
	"select": true, "option": true, "optgroup": true, "table": true, "tr": true, "td": true, "th": true, "tbody": true, "thead": true, "tfoot": true, "caption": true, "colgroup": true,
	"template": true, "svg": true, "math": true, "pre": true, "listing": true, "button": true, "form": true, "head": true, "body": true, "html": true, "frameset": true,
	"li": true, "dd": true, "dt": true, "p": true, "h1": true, "h2": true, "h3": true, "h4": true, "h5": true, "h6": true, "applet": true, "marquee": true, "object": true,
}

// ---- per-process cap on recorded duplicates ----

const c20CapPerSig = 25

var c20Seen = map[string]int{}

type c20Rep struct {
	o    *core.Obs
	c    c20Case
	once map[string]bool
}

func (r *c20Rep) fail(sig, format string, args ...any) {
	if r.once == nil {
		r.once = map[string]bool{}
	}
	if r.once[sig] {
		return
	}
	r.once[sig] = true
	r.o.Cell("violation/" + sig)
	c20Seen[sig]++
	if c20Seen[sig] > c20CapPerSig {
		r.o.Count("suppressed/"+sig, 1)
		return
	}
	r.o.Fail(r.c, sig, format, args...)
}

// ---- exec ----

func (p *c20) Exec(ctx core.Ctx, cc any) core.Obs {
	c := cc.(c20Case)
	var o core.Obs
	src := c.source()
	rep := &c20Rep{o: &o, c: c}
	if len(src) > 0 {
		o.NT(c.Part, string(src), strings.Join(c.Ovr, ","))
	}
	switch c.Part {
	case "ovr":
		p.execOverride(c, src, rep)
		return o
	}

	// 1. the engine
	md := markdown.New(nil)
	var buf bytes.Buffer
	err := md.RenderBytes(&buf, src)
	o.Evals++
	out := buf.String()
	if err != nil {
		rep.fail("render-error/RenderBytes/"+c20ErrClass(err), "RenderBytes returned an error: %v\nsource: %q", err, clip(string(src), 600))
	}
	loadOut, loadJudged := "", false
	if c.Load {
		fsys := fstestBytes(map[string][]byte{"doc.md": src})
		m2 := markdown.New(fsys)
		d, lerr := m2.Load("doc.md")
		o.Evals++
		if lerr != nil {
			rep.fail("render-error/Load/"+c20ErrClass(lerr), "Load of an existing file returned an error: %v\nsource: %q", lerr, clip(string(src), 600))
		} else {
			var b2 bytes.Buffer
			rerr := d.Render(&b2)
			o.Evals++
			if rerr != nil {
				rep.fail("render-error/Document.Render/"+c20ErrClass(rerr), "Document.Render returned an error: %v\nsource: %q", rerr, clip(string(src), 600))
			} else if bytes.HasPrefix(src, []byte("---")) {
				o.Cell("not-judged/load-front-matter-prefix")
			} else {
				loadOut, loadJudged = b2.String(), true
			}
		}
	}
	if c.Load && err == nil && !bytes.HasPrefix(src, []byte("---")) && utf8.Valid(src) {
		// the same document with a front-matter block in front: the body is the document
		for _, fm := range []string{"---\ntitle: T\n---\n", "---\ntitle: \"a --- b\"\n---\n\n"} {
			fsys := fstestBytes(map[string][]byte{"fm.md": append([]byte(fm), src...)})
			d, lerr := markdown.New(fsys).Load("fm.md")
			o.Evals++
			if lerr != nil {
				rep.fail("render-error/Load/"+c20ErrClass(lerr), "Load of a file with front-matter returned an error: %v\nsource: %q", lerr, clip(fm+string(src), 600))
				continue
			}
			var b3 bytes.Buffer
			if rerr := d.Render(&b3); rerr != nil {
				rep.fail("render-error/Document.Render/"+c20ErrClass(rerr), "Document.Render returned an error: %v\nsource: %q", rerr, clip(fm+string(src), 600))
				continue
			}
			if w, g := oracle.Parse(out, false), oracle.Parse(b3.String(), false); w.Canon() != g.Canon() {
				rep.fail("load/front-matter-changes-the-body", "the document rendered from a file with a front-matter block differs from the document alone: %v\nfile: %q\nwith front-matter: %q\nalone: %q", oracle.Diff(w, g, nil), clip(fm+string(src), 400), clip(b3.String(), 500), clip(out, 500))
			} else {
				o.Cell("load/front-matter-block-judged")
			}
		}
	}
	if c.Part == "bytes" {
		o.Cell("bytes/" + c.Fam)
		if c.Load {
			o.Cell("bytes/via-load")
		}
		return o
	}
	if err != nil {
		return o
	}

	// 2. the reference
	a := c20Analyse(src)
	var rb bytes.Buffer
	if rerr := c20Ref.Convert(src, &rb); rerr != nil {
		o.Inconclusive = "reference renderer failed: " + rerr.Error()
		return o
	}
	ref := rb.String()
	p.cells(&o, c, a)

	p.judge(rep, "RenderBytes", src, a, ref, out)
	if loadJudged {
		if loadOut == out {
			o.Cell("load/same-bytes-as-RenderBytes")
		} else {
			o.Cell("load/differs-from-RenderBytes")
			p.judge(rep, "Load+Render", src, a, ref, loadOut)
		}
	}
	if len(o.Viol) == 0 && a.kinds["table"] > 0 && a.kinds["link"] > 0 && a.kinds["list"] > 0 {
		o.Sample = map[string]any{"source": clip(string(src), 400), "engine": clip(out, 600), "reference": clip(ref, 600)}
	}
	return o
}

func c20ErrClass(err error) string {
	s := err.Error()
	m := regexp.MustCompile(`rendering ([a-z_]+) template`).FindStringSubmatch(s)
	if m != nil {
		return m[1]
	}
	return "other"
}

func (p *c20) cells(o *core.Obs, c c20Case, a c20AST) {
	switch c.Part {
	case "matrix":
		o.Cell("matrix/pos/" + c.Fam)
		o.Cell("matrix/atom/" + c.Atom)
	case "struct":
		o.Cell("struct/" + c.Fam)
	case "doc":
		b := a.blocks
		switch {
		case b > 12:
			o.Cell("doc/blocks/13+")
		case b >= 9:
			o.Cell("doc/blocks/9-12")
		case b >= 5:
			o.Cell("doc/blocks/5-8")
		default:
			o.Cell(fmt.Sprintf("doc/blocks/%d", b))
		}
		d := a.maxDepth
		if d > 8 {
			d = 8
		}
		o.Cell(fmt.Sprintf("doc/ast-depth/%d", d))
	}
	if c.Part == "doc" || c.Part == "struct" {
		for _, k := range sortedKeys(a.kinds) {
			o.Cell("construct/" + k)
		}
	}
}

// judge compares one engine output with the reference.
func (p *c20) judge(rep *c20Rep, api string, src []byte, a c20AST, ref, out string) {
	o := rep.o
	head := func(what string) string {
		return fmt.Sprintf("%s [%s]\nsource: %q\nengine: %q | reference: %q", what, api, clip(string(src), 500), clip(out, 700), clip(ref, 700))
	}
	// closing line of an HTML block (types 1-5) missing from the output: everything
	// after it is swallowed by the unclosed construct; the DOM comparison would only
	// show consequences.
	for _, cl := range a.closures {
		cl = strings.TrimRight(cl, "\r\n")
		if strings.TrimSpace(cl) == "" {
			continue
		}
		if strings.Count(out, cl) < strings.Count(ref, cl) {
			rep.fail("html-block-closing-line-dropped/raw-html", "%s", head(fmt.Sprintf("the closing line %q of a raw HTML block is in the reference output but missing from the engine output", cl)))
			o.Cell("masked/dom-compare-skipped-after-closing-line-dropped")
			return
		}
	}
	if a.rawOpenTag || a.rawUnbal != "" {
		o.Cell("not-judged/raw-html-leaves-a-tag-or-element-open")
		return
	}
	want := oracle.Parse(ref, false)
	got := oracle.Parse(out, false)
	if c20SwallowedMarkup(want) {
		// raw HTML opened a raw-text / RCDATA element (<title ...>, <textarea>,
		// <xmp> ...): the rest of the document is its text, serialisation white
		// space included - not a structure the statement speaks about
		o.Cell("not-judged/raw-html-opens-a-raw-text-element")
		return
	}
	cm := &c20Cmp{noRaw: !a.hasRaw}
	cm.root(want, got)
	cm.inlineWhitespace(ref, out)
	if cm.noRaw && a.kinds["code_block"] > 0 {
		// white space is significant inside <pre>: compare the exact text of the code blocks
		codeDiff := false
		for _, d := range cm.diffs {
			if d.sink == "code-block" || d.class == "structure-differs" || d.class == "literal-lt-became-markup" {
				codeDiff = true
			}
		}
		wp, wc := c20PreTexts(ref)
		gp, gc := c20PreTexts(out)
		if !codeDiff && len(wp) == len(gp) {
			for i := range wp {
				if wc[i] != gc[i] {
					cm.add(false, "code-whitespace-differs", "code-block", "content of code block %d: reference %q, engine %q", i, clip(wc[i], 200), clip(gc[i], 200))
					break
				}
				if wp[i] != gp[i] {
					cm.add(false, "pre-whitespace-added", "code-block", "text content of <pre> %d (white space is significant there): reference %q, engine %q — the engine's template output has white space between <pre> and <code>", i, clip(wp[i], 200), clip(gp[i], 200))
					break
				}
			}
		}
		o.Cell("judged/code-block-exact-whitespace")
	}
	if len(cm.diffs) == 0 {
		o.Cell("judged/agree")
		return
	}
	o.Cell("judged/differ")
	for _, d := range cm.diffs {
		rep.fail(d.class+"/"+d.sink, "%s", head(d.msg))
	}
}

// ---- overrides ----

const c20KitchenSink = "# Head *em*\n\nPara **strong** ~~del~~ `code` [link](/u \"t\") ![img](/i.png) <http://a.b/c> <span>raw</span> line  \nbreak\n\n> quote\n\n1. one\n2. two\n\n- [x] task\n- [ ] open\n\n```go\ncode\n```\n\n| a | b |\n|:--|--:|\n| 1 | 2 |\n\n---\n"

var c20MarkerRe = regexp.MustCompile(`<x-ov data-ov="([a-z_]+)"></x-ov>\s*`)

func (p *c20) execOverride(c c20Case, src []byte, rep *c20Rep) {
	o := rep.o
	defaults := markdown.Templates()
	files := map[string][]byte{}
	for _, name := range c.Ovr {
		def, err := fs.ReadFile(defaults, "markdown/"+name+".vuego")
		if err != nil {
			o.Inconclusive = "default template " + name + " not readable: " + err.Error()
			return
		}
		files["markdown/"+name+".vuego"] = []byte(`<x-ov data-ov="` + name + `"></x-ov>` + string(def))
	}
	render := func(fsys fs.FS) (string, error) {
		var b bytes.Buffer
		err := markdown.New(fsys).RenderBytes(&b, src)
		o.Evals++
		return b.String(), err
	}
	base, err := render(fstestBytes(map[string][]byte{"unrelated.txt": []byte("x")}))
	if err != nil {
		rep.fail("render-error/RenderBytes/"+c20ErrClass(err), "RenderBytes (no overrides, non-nil content FS) returned an error: %v\nsource: %q", err, clip(string(src), 600))
		return
	}
	// a content filesystem that is a whole site (default layout, configuration, components) and overrides nothing
	site, err := render(fstestBytes(map[string][]byte{
		"layouts/base.vuego":  []byte(`<html><head><title>{{ title }}</title></head><body><main v-html="content"></main></body></html>`),
		"theme.yml":           []byte("title: Site\nlayout: base\n"),
		"components/Em.vuego": []byte(`<b>component</b>`),
		"content/post.md":     []byte("# post\n"),
	}))
	if err != nil {
		rep.fail("override/site-files/render-error", "RenderBytes with a content filesystem holding layouts/base.vuego, theme.yml, components/ and no markdown/ templates returned an error: %v\nsource: %q", err, clip(string(src), 600))
	} else if site != base {
		rep.fail("override/site-files/change-the-output", "a content filesystem that holds a site's own files (layouts/base.vuego, theme.yml, components/) but no markdown/ templates changes the output\nsource: %q\nwith: %q\nwithout: %q", clip(string(src), 400), clip(site, 600), clip(base, 600))
	} else {
		o.Cell("ovr/site-files-do-not-matter")
	}
	out, err := render(fstestBytes(files))
	if err != nil {
		rep.fail("override/render-error", "RenderBytes with overridden templates %v returned an error: %v\nsource: %q", c.Ovr, err, clip(string(src), 600))
		return
	}
	a := c20Analyse(src)
	o.Cell(fmt.Sprintf("ovr/%s", c.Fam))
	switch n := len(c.Ovr); {
	case n <= 2:
		o.Cell(fmt.Sprintf("ovr/set-size/%d", n))
	case n == len(c20Templates):
		o.Cell("ovr/set-size/all")
	default:
		o.Cell("ovr/set-size/3..16")
	}
	in := map[string]bool{}
	for _, n := range c.Ovr {
		in[n] = true
	}
	var wantSeq []string
	for _, k := range a.seq {
		if in[k] {
			wantSeq = append(wantSeq, k)
		}
	}
	var gotSeq []string
	ms := c20MarkerRe.FindAllStringSubmatchIndex(out, -1)
	for _, m := range ms {
		name := out[m[2]:m[3]]
		gotSeq = append(gotSeq, name)
		// what follows the marker must be the root element of that template
		rest := out[m[1]:]
		if names := c20Root[name]; names != "" {
			ok := false
			for _, el := range strings.Split(names, "|") {
				if strings.HasPrefix(rest, "<"+el+">") || strings.HasPrefix(rest, "<"+el+" ") {
					ok = true
				}
			}
			if !ok {
				rep.fail("override/marker-not-followed-by-template-root", "marker of overridden template %q is followed by %q, want one of <%s>\noverridden: %v source: %q\noutput: %q", name, clip(rest, 40), names, c.Ovr, clip(string(src), 400), clip(out, 600))
			}
		}
	}
	head := fmt.Sprintf("overridden: %v\nsource: %q\nwith overrides: %q | without: %q", c.Ovr, clip(string(src), 400), clip(out, 700), clip(base, 700))
	if strings.Join(wantSeq, " ") != strings.Join(gotSeq, " ") {
		cls := "override/wrong-instances"
		switch {
		case len(gotSeq) == 0:
			cls = "override/not-effective"
		case len(gotSeq) < len(wantSeq):
			cls = "override/some-instances-use-default"
		case len(gotSeq) > len(wantSeq):
			cls = "override/extra-instances"
		}
		rep.fail(cls, "template instantiations in document order: want %v got %v\n%s", wantSeq, gotSeq, head)
	}
	for _, k := range gotSeq {
		o.Cell("ovr/seen/" + k)
	}
	if len(c.Ovr) > 0 {
		defer p.execOverrideWrapped(c, src, base, wantSeq, rep)
	}
	// nothing but the markers may have changed
	stripped := c20MarkerRe.ReplaceAllString(out, "")
	if stripped == base {
		o.Cell("ovr/rest-byte-identical")
		return
	}
	w, g := oracle.Parse(base, false), oracle.Parse(stripped, false)
	if w.Canon() == g.Canon() {
		o.Cell("ovr/rest-dom-identical")
		return
	}
	d := oracle.Diff(w, g, nil)
	rep.fail("override/changes-other-output", "with the override markers removed the output differs from the output without overrides: %v\n%s", d, head)
}

var (
	c20WrapOpenRe  = regexp.MustCompile(`<x-ovw data-ov="([a-z_]+)">\s*`)
	c20WrapCloseRe = regexp.MustCompile(`</x-ovw>\s*`)
	c20HeadingIDRe = regexp.MustCompile(`(<h[1-6]) id="[^"]*"`)
)

// execOverrideWrapped: the user templates put the default markup inside a
// wrapper element of their own. Every instantiation must arrive whole (its
// start tag and its end tag), in document order, and with the wrappers' tags
// removed the output is the output without overrides.
func (p *c20) execOverrideWrapped(c c20Case, src []byte, base string, wantSeq []string, rep *c20Rep) {
	o := rep.o
	defaults := markdown.Templates()
	files := map[string][]byte{}
	for _, name := range c.Ovr {
		def, err := fs.ReadFile(defaults, "markdown/"+name+".vuego")
		if err != nil {
			return
		}
		files["markdown/"+name+".vuego"] = []byte(`<x-ovw data-ov="` + name + `">` + string(def) + `</x-ovw>`)
	}
	var b bytes.Buffer
	err := markdown.New(fstestBytes(files)).RenderBytes(&b, src)
	o.Evals++
	out := b.String()
	head := fmt.Sprintf("overridden (default markup inside <x-ovw data-ov=NAME>...</x-ovw>): %v\nsource: %q\nwith overrides: %q | without: %q", c.Ovr, clip(string(src), 400), clip(out, 700), clip(base, 700))
	if err != nil {
		rep.fail("override/wrapped/render-error", "RenderBytes returned an error: %v\n%s", err, head)
		return
	}
	var gotSeq []string
	for _, m := range c20WrapOpenRe.FindAllStringSubmatch(out, -1) {
		gotSeq = append(gotSeq, m[1])
	}
	if strings.Join(wantSeq, " ") != strings.Join(gotSeq, " ") {
		rep.fail("override/wrapped/wrong-instances", "template instantiations in document order: want %v got %v\n%s", wantSeq, gotSeq, head)
		return
	}
	if nc := len(c20WrapCloseRe.FindAllString(out, -1)); nc != len(gotSeq) {
		rep.fail("override/wrapped/end-tags-lost", "%d wrapper start tags but %d wrapper end tags: part of a user template's output is missing\n%s", len(gotSeq), nc, head)
		return
	}
	stripped := c20WrapCloseRe.ReplaceAllString(c20WrapOpenRe.ReplaceAllString(out, ""), "")
	// raw HTML of the document that leaves a formatting element open makes the
	// HTML parser re-open it around every later piece of white space; the
	// comparison of the two trees then compares formatting, not templates
	for el := range c20Formatting {
		if strings.Count(base, "<"+el+">")+strings.Count(base, "<"+el+" ") != strings.Count(base, "</"+el+">") {
			o.Cell("ovr/wrapped/unbalanced-raw-html-not-compared")
			return
		}
	}
	// a heading's id is derived from the markup of its content, wrappers and
	// the white space around them included: not judged here
	w, g := oracle.Parse(c20HeadingIDRe.ReplaceAllString(base, "$1"), false), oracle.Parse(c20HeadingIDRe.ReplaceAllString(stripped, "$1"), false)
	// where a wrapper's tags stood the serialiser's line breaks remain: white
	// space is not compared in this form (the marker form above compares it)
	c20SquashWS(w)
	c20SquashWS(g)
	if w.Canon() == g.Canon() {
		o.Cell("ovr/wrapped/rest-dom-identical")
		return
	}
	d := oracle.Diff(w, g, nil)
	rep.fail("override/wrapped/changes-other-output", "with the wrappers' tags removed the output differs from the output without overrides: %v\n%s", d, head)
}

// c20SquashWS removes every white space character from the text nodes of a tree.
func c20SquashWS(n *oracle.N) {
	kids := n.Kids[:0]
	for _, k := range n.Kids {
		if k.Kind == "text" {
			k.Text = strings.Join(strings.Fields(k.Text), "")
			if k.Text == "" {
				continue
			}
			if len(kids) > 0 && kids[len(kids)-1].Kind == "text" {
				kids[len(kids)-1].Text += k.Text
				continue
			}
		} else {
			c20SquashWS(k)
		}
		kids = append(kids, k)
	}
	n.Kids = kids
}

func fstestBytes(files map[string][]byte) fs.FS {
	m := map[string]string{}
	for k, v := range files {
		m[k] = string(v)
	}
	return memFS(m)
}

var c20RawTextEls = map[string]bool{"title": true, "textarea": true, "xmp": true, "plaintext": true, "iframe": true, "noembed": true, "noframes": true, "noscript": true, "script": true, "style": true}

// c20SwallowedMarkup: some raw-text / RCDATA element of the reference DOM holds markup as text.
func c20SwallowedMarkup(n *oracle.N) bool {
	if n.Kind == "el" && c20RawTextEls[n.Name] && strings.Contains(n.InnerText(), "</") {
		return true
	}
	for _, k := range n.Kids {
		if c20SwallowedMarkup(k) {
			return true
		}
	}
	return false
}
