package props

import (
	"bytes"
	"encoding/json"
	"fmt"
	"sort"
	"strconv"
	"strings"

	vuego "github.com/titpetric/vuego"

	"verifharness/core"
	"verifharness/oracle"
)

// C06 — slots receive the matching content, fall back otherwise, and stay per-instance.
//
// Every case is a small set of template files described by an AST (c06Node).
// The AST is printed to vuego source and rendered by the real engine; the same
// AST is evaluated by an independent reference model (c06Ref) that implements
// the statement: supplied content is evaluated in the includer's environment
// plus the props the slot binds (under the declared name or destructured),
// fallback exactly when nothing was supplied, one slot scope per include tag.
// Both results are re-parsed with x/net/html and compared node by node; slot
// positions are wrapped in <x-s data-m="S:comp:slot"> so that a difference can
// be attributed to one slot fill and classified.

// ---------------------------------------------------------------- case model

type c06For struct {
	List string `json:"list"`
	Item string `json:"item"`
	Idx  string `json:"idx,omitempty"`
}

type c06Supply struct {
	Name string    `json:"name"`           // "" = unnamed slot
	Form string    `json:"form"`           // plain | vslot | vslotdef | hash
	Var  string    `json:"var,omitempty"`  // "" | "p" | "{ n, t }"
	Kind string    `json:"kind,omitempty"` // content kind label (classification only)
	Kids []c06Node `json:"kids,omitempty"`
}

type c06Node struct {
	T     string      `json:"t"`               // text | el | inc | slot | content | def
	ID    string      `json:"id,omitempty"`    // text token / element marker / instance id / slot wrapper marker
	Tag   string      `json:"tag,omitempty"`   // el: tag name (default span); "template" renders its children only
	Refs  []string    `json:"refs,omitempty"`  // variable paths shown as :data-rK="path" and as {{ path }}
	TRefs []string    `json:"trefs,omitempty"` // variable paths shown as {{ path }} only
	If    string      `json:"if,omitempty"`    // el: v-if on a bool variable
	For   *c06For     `json:"for,omitempty"`   // el: v-for
	Kids  []c06Node   `json:"kids,omitempty"`  // el children / slot fallback
	Comp  string      `json:"comp,omitempty"`  // inc: component file
	Via   string      `json:"via,omitempty"`   // inc: include | tag
	Props [][2]string `json:"props,omitempty"` // inc: prop name <- includer path; slot: bound prop name <- component path
	Sup   []c06Supply `json:"sup,omitempty"`   // inc: supplied slot content; def: exactly one
	Name  string      `json:"name,omitempty"`  // slot: name ("" = unnamed)
	Bare  bool        `json:"bare,omitempty"`  // slot: no <x-s> wrapper around it
	WS    bool        `json:"ws,omitempty"`    // inc: newline + indentation around the supplies
}

type c06File struct {
	FM    [][2]string `json:"fm,omitempty"` // front-matter (string values)
	Nodes []c06Node   `json:"nodes"`
}

type c06Case struct {
	Part    string             `json:"part"`            // single | multi | loop | nested | pass | layout | shadow
	Entry   string             `json:"entry"`           // file | vue | string
	Page    string             `json:"page"`            // file rendered
	Out     string             `json:"out,omitempty"`   // layout part: outermost layout, whose evaluation is the output
	Tags    bool               `json:"tags,omitempty"`  // component shorthand tags are used (WithComponents)
	Label   string             `json:"label,omitempty"` // feature label used in signatures of special parts
	Files   map[string]c06File `json:"files"`
	Data    map[string]any     `json:"data"`
	Skipped bool               `json:"skipped,omitempty"`
	Opt     *c06Opt            `json:"opt,omitempty"` // opt part (c06_opt.go)
}

func c06CompFile(ci int) string { return "components/Comp" + string(rune('A'+ci)) + ".vuego" }
func c06CompTag(file string) string {
	s := strings.TrimSuffix(strings.TrimPrefix(file, "components/Comp"), ".vuego")
	return "comp-" + strings.ToLower(s)
}
func c06CompID(file string) string {
	s := strings.TrimSuffix(strings.TrimPrefix(file, "components/Comp"), ".vuego")
	if len(s) == 1 {
		return "c" + strconv.Itoa(int(s[0]-'A'))
	}
	return s
}

// ---------------------------------------------------------------- printing (vuego source)

func c06SlotNameOr(name string) string {
	if name == "" {
		return "default"
	}
	return name
}

func c06PrintNodes(b *strings.Builder, ns []c06Node) {
	for i := range ns {
		c06PrintNode(b, &ns[i])
	}
}

func c06Mustaches(refs, trefs []string) string {
	var parts []string
	for _, r := range refs {
		parts = append(parts, "{{ "+r+" }}")
	}
	for _, r := range trefs {
		parts = append(parts, "{{ "+r+" }}")
	}
	return strings.Join(parts, "|")
}

func c06PrintNode(b *strings.Builder, n *c06Node) {
	switch n.T {
	case "text":
		b.WriteString(" " + n.ID)
		for _, r := range n.Refs {
			b.WriteString(" {{ " + r + " }}")
		}
		b.WriteString(" ")
	case "el":
		tag := n.Tag
		if tag == "" {
			tag = "span"
		}
		b.WriteString("<" + tag)
		if n.If != "" {
			fmt.Fprintf(b, ` v-if="%s"`, n.If)
		}
		if n.For != nil {
			if n.For.Idx != "" {
				fmt.Fprintf(b, ` v-for="(%s, %s) in %s"`, n.For.Idx, n.For.Item, n.For.List)
			} else {
				fmt.Fprintf(b, ` v-for="%s in %s"`, n.For.Item, n.For.List)
			}
		}
		if tag != "template" {
			fmt.Fprintf(b, ` data-m="%s"`, n.ID)
			for k, r := range n.Refs {
				fmt.Fprintf(b, ` :data-r%d="%s"`, k, r)
			}
		}
		b.WriteString(">")
		if tag != "template" {
			b.WriteString(c06Mustaches(n.Refs, n.TRefs))
		}
		c06PrintNodes(b, n.Kids)
		b.WriteString("</" + tag + ">")
	case "inc":
		open, close := "", ""
		if n.Via == "tag" {
			t := c06CompTag(n.Comp)
			open, close = "<"+t, "</"+t+">"
		} else {
			open, close = `<template include="`+n.Comp+`"`, "</template>"
		}
		b.WriteString(open)
		for _, p := range n.Props {
			fmt.Fprintf(b, ` :%s="%s"`, p[0], p[1])
		}
		b.WriteString(">")
		if n.WS {
			b.WriteString("\n  ")
		}
		for i := range n.Sup {
			c06PrintSupply(b, &n.Sup[i])
			if n.WS {
				b.WriteString("\n  ")
			}
		}
		b.WriteString(close)
	case "slot":
		if !n.Bare {
			fmt.Fprintf(b, `<x-s data-m="%s">`, n.ID)
		}
		b.WriteString("<slot")
		if n.Name != "" {
			fmt.Fprintf(b, ` name="%s"`, n.Name)
		}
		for _, p := range n.Props {
			fmt.Fprintf(b, ` :%s="%s"`, p[0], p[1])
		}
		b.WriteString(">")
		c06PrintNodes(b, n.Kids)
		b.WriteString("</slot>")
		if !n.Bare {
			b.WriteString("</x-s>")
		}
	case "content":
		b.WriteString(`<main data-m="content" v-html="content"></main>`)
	case "def":
		for i := range n.Sup {
			c06PrintSupply(b, &n.Sup[i])
		}
	}
}

func c06PrintSupply(b *strings.Builder, s *c06Supply) {
	if s.Form == "plain" {
		c06PrintNodes(b, s.Kids)
		return
	}
	attr := ""
	switch s.Form {
	case "vslot":
		if s.Name == "" {
			attr = "v-slot"
		} else {
			attr = "v-slot:" + s.Name
		}
	case "vslotdef":
		attr = "v-slot:default"
	case "hash":
		attr = "#" + c06SlotNameOr(s.Name)
	}
	b.WriteString("<template " + attr)
	if s.Var != "" {
		fmt.Fprintf(b, `="%s"`, s.Var)
	}
	b.WriteString(">")
	c06PrintNodes(b, s.Kids)
	b.WriteString("</template>")
}

func c06Source(f c06File) string {
	var b strings.Builder
	if len(f.FM) > 0 {
		b.WriteString("---\n")
		for _, kv := range f.FM {
			fmt.Fprintf(&b, "%s: %s\n", kv[0], kv[1])
		}
		b.WriteString("---\n")
	}
	c06PrintNodes(&b, f.Nodes)
	return b.String()
}

// ---------------------------------------------------------------- reference model

type c06Env struct {
	vars map[string]any
	up   *c06Env
}

func (e *c06Env) lookup(path string) (any, bool) {
	parts := strings.Split(path, ".")
	var cur any
	found := false
	for s := e; s != nil; s = s.up {
		if v, ok := s.vars[parts[0]]; ok {
			cur, found = v, true
			break
		}
	}
	if !found {
		return nil, false
	}
	for _, k := range parts[1:] {
		m, ok := cur.(map[string]any)
		if !ok {
			return nil, false
		}
		if cur, ok = m[k]; !ok {
			return nil, false
		}
	}
	return cur, true
}

// c06Scope is what one include tag supplied, together with the environment and
// the slot scope that were current where the tag was written.
type c06Scope struct {
	sup   map[string]*c06Supply
	env   *c06Env
	up    *c06Scope
	inst  string
	file  string // file in which the include tag is written
	class string // "" or "inherited" (page -> layout)
}

type c06Prov struct {
	Inst, Comp, Slot string
	Outcome          string // supplied | fallback | empty
	Form, Var, Kind  string
	Class            string // plain | template | inherited | -
	HasProps         bool
}

type c06Ref struct {
	files map[string]c06File
	b     strings.Builder
	prov  []c06Prov
	bad   string
	depth int
	fills int
	iters int
}

func c06Val(v any) string {
	switch t := v.(type) {
	case string:
		return t
	case int:
		return strconv.Itoa(t)
	case bool:
		return strconv.FormatBool(t)
	}
	return fmt.Sprintf("?%T", v)
}

func (r *c06Ref) get(env *c06Env, path string) any {
	v, ok := env.lookup(path)
	if !ok {
		if r.bad == "" {
			r.bad = "reference model: variable " + path + " is not defined where it is used"
		}
		return "?"
	}
	return v
}

func c06Destructured(v string) ([]string, bool) {
	v = strings.TrimSpace(v)
	if !strings.HasPrefix(v, "{") {
		return nil, false
	}
	var names []string
	for _, p := range strings.Split(strings.Trim(v, "{}"), ",") {
		if p = strings.TrimSpace(p); p != "" {
			names = append(names, p)
		}
	}
	return names, true
}

func (r *c06Ref) eval(ns []c06Node, env *c06Env, sc *c06Scope, file string) {
	for i := range ns {
		n := &ns[i]
		switch n.T {
		case "text":
			r.b.WriteString(" " + n.ID)
			for _, p := range n.Refs {
				r.b.WriteString(" " + c06Val(r.get(env, p)))
			}
			r.b.WriteString(" ")
		case "el":
			if n.For != nil {
				lv := r.get(env, n.For.List)
				var items []any
				switch t := lv.(type) {
				case []any:
					items = t
				default:
					if r.bad == "" {
						r.bad = "reference model: v-for over a non-list"
					}
				}
				for k, it := range items {
					vars := map[string]any{n.For.Item: it}
					if n.For.Idx != "" {
						vars[n.For.Idx] = k
					}
					r.iters++
					r.evalEl(n, &c06Env{vars: vars, up: env}, sc, file)
				}
				continue
			}
			if n.If != "" {
				cv, _ := r.get(env, n.If).(bool)
				if !cv {
					continue
				}
			}
			r.evalEl(n, env, sc, file)
		case "inc":
			f, ok := r.files[n.Comp]
			if !ok || r.depth > 8 {
				if r.bad == "" {
					r.bad = "reference model: missing component or too deep"
				}
				continue
			}
			vars := map[string]any{}
			for _, p := range n.Props {
				vars[p[0]] = r.get(env, p[1])
			}
			for _, kv := range f.FM {
				vars[kv[0]] = kv[1]
			}
			nsc := &c06Scope{sup: map[string]*c06Supply{}, env: env, up: sc, inst: n.ID, file: file}
			for k := range n.Sup {
				nsc.sup[c06SlotNameOr(n.Sup[k].Name)] = &n.Sup[k]
			}
			r.depth++
			r.eval(f.Nodes, &c06Env{vars: vars}, nsc, n.Comp)
			r.depth--
		case "slot":
			name := c06SlotNameOr(n.Name)
			props := map[string]any{}
			for _, p := range n.Props {
				props[p[0]] = r.get(env, p[1])
			}
			pv := c06Prov{Comp: c06CompID(file), Slot: name, Class: "-", HasProps: len(n.Props) > 0}
			var sup *c06Supply
			if sc != nil {
				sup = sc.sup[name]
				pv.Inst = sc.inst
			}
			switch {
			case sup != nil:
				pv.Outcome, pv.Form, pv.Var, pv.Kind = "supplied", sup.Form, c06VarForm(sup.Var), sup.Kind
				pv.Class = "template"
				if sup.Form == "plain" {
					pv.Class = "plain"
				}
				if sc.class != "" {
					pv.Class = sc.class
				}
			case len(n.Kids) > 0:
				pv.Outcome = "fallback"
			default:
				pv.Outcome = "empty"
			}
			if !n.Bare {
				fmt.Fprintf(&r.b, `<x-s data-m="%s">`, n.ID)
				r.prov = append(r.prov, pv)
			}
			r.fills++
			if sup != nil {
				vars := map[string]any{}
				if names, ok := c06Destructured(sup.Var); ok {
					for _, nm := range names {
						if v, has := props[nm]; has {
							vars[nm] = v
						}
					}
				} else if sup.Var != "" {
					vars[sup.Var] = props
				}
				r.depth++
				r.eval(sup.Kids, &c06Env{vars: vars, up: sc.env}, sc.up, sc.file)
				r.depth--
			} else {
				r.eval(n.Kids, env, sc, file)
			}
			if !n.Bare {
				r.b.WriteString("</x-s>")
			}
		case "content":
			r.b.WriteString(`<main data-m="content"></main>`)
		case "def":
			// a page-level slot definition is consumed by the layout; what the page itself
			// prints for it is outside the statement
		}
	}
}

func (r *c06Ref) evalEl(n *c06Node, env *c06Env, sc *c06Scope, file string) {
	tag := n.Tag
	if tag == "" {
		tag = "span"
	}
	if tag == "template" {
		r.eval(n.Kids, env, sc, file)
		return
	}
	fmt.Fprintf(&r.b, `<%s data-m="%s"`, tag, n.ID)
	var vals []string
	for k, p := range n.Refs {
		v := c06Val(r.get(env, p))
		fmt.Fprintf(&r.b, ` data-r%d="%s"`, k, v)
		vals = append(vals, v)
	}
	for _, p := range n.TRefs {
		vals = append(vals, c06Val(r.get(env, p)))
	}
	r.b.WriteString(">")
	r.b.WriteString(strings.Join(vals, "|"))
	r.eval(n.Kids, env, sc, file)
	r.b.WriteString("</" + tag + ">")
}

func c06VarForm(v string) string {
	switch {
	case v == "":
		return "novar"
	case strings.HasPrefix(strings.TrimSpace(v), "{"):
		return "destr"
	}
	return "named"
}

// ---------------------------------------------------------------- builders

func c06Text(id string, refs ...string) c06Node { return c06Node{T: "text", ID: id, Refs: refs} }
func c06El(id string, refs ...string) c06Node   { return c06Node{T: "el", ID: id, Refs: refs} }

// c06Cx describes what supplied content may refer to at the place it is written.
type c06Cx struct {
	ivar    string // scalar variable of the includer
	list    string // list of {id} maps of the includer ("" = none)
	yes, no string // bool variables of the includer ("" = none)
	loopVar string // name for v-for items inside the content
}

var c06RootCx = c06Cx{ivar: "who", list: "xs", yes: "yes", no: "no", loopVar: "lx"}

func c06BaseData() map[string]any {
	return map[string]any{
		"who": "W0", "who2": "W1", "yes": true, "no": false,
		"xs": []any{map[string]any{"id": "x0"}, map[string]any{"id": "x1"}},
	}
}

// propRefs returns the paths under which the slot's props (names pn: attr+text, pt: text-only) are
// visible in content declared with v.
func c06PropRefs(v string, slotProps [][2]string, textOnly map[string]bool) (attr, text []string) {
	if v == "" || len(slotProps) == 0 {
		return nil, nil
	}
	names, destr := c06Destructured(v)
	for _, sp := range slotProps {
		path := ""
		if destr {
			for _, nm := range names {
				if nm == sp[0] {
					path = nm
				}
			}
		} else {
			path = v + "." + sp[0]
		}
		if path == "" {
			continue
		}
		if textOnly[sp[0]] {
			text = append(text, path)
		} else {
			attr = append(attr, path)
		}
	}
	return
}

// c06Content builds supplied content of the given kind; the returned kind is the one actually realised.
func c06Content(id, kind string, cx c06Cx, pattr, ptext []string) ([]c06Node, string) {
	hasProp := len(pattr)+len(ptext) > 0
	switch kind {
	case "prop", "mixed":
		if !hasProp {
			kind = "ivar"
		}
	case "dirprop":
		if !hasProp {
			kind = "dir"
		}
	}
	if (kind == "dir" || kind == "dirprop") && (cx.list == "" || cx.yes == "") {
		kind = "ivar"
	}
	if (kind == "ivar" || kind == "text") && cx.ivar == "" {
		kind = "static"
	}
	switch kind {
	case "text":
		return []c06Node{c06Text(id+".t", cx.ivar)}, kind
	case "static":
		return []c06Node{c06Text(id + ".t"), c06El(id)}, kind
	case "ivar":
		return []c06Node{c06Text(id+".t", cx.ivar), c06El(id, cx.ivar)}, kind
	case "prop":
		e := c06El(id, pattr...)
		e.TRefs = ptext
		t := c06Text(id + ".t")
		if len(pattr) > 0 {
			t.Refs = pattr[:1]
		} else {
			t.Refs = ptext[:1]
		}
		return []c06Node{t, e}, kind
	case "mixed":
		e := c06El(id, append([]string{cx.ivar}, pattr...)...)
		e.TRefs = ptext
		return []c06Node{e, c06Text(id+".t", cx.ivar)}, kind
	case "dir":
		y := c06El(id+".y", cx.ivar)
		y.If = cx.yes
		n := c06El(id + ".n")
		n.If = cx.no
		ty := c06Node{T: "el", Tag: "template", If: cx.yes, Kids: []c06Node{c06El(id+".ty", cx.ivar)}}
		f := c06El(id+".f", cx.loopVar+".id", cx.ivar)
		f.For = &c06For{List: cx.list, Item: cx.loopVar}
		return []c06Node{y, n, c06Text(id + ".t"), ty, f}, kind
	case "dirprop":
		refs := append([]string{cx.loopVar + ".id"}, pattr...)
		f := c06El(id+".f", refs...)
		f.TRefs = ptext
		f.For = &c06For{List: cx.list, Item: cx.loopVar, Idx: cx.loopVar + "i"}
		y := c06El(id+".y", pattr...)
		y.TRefs = ptext
		y.If = cx.yes
		n := c06El(id+".n", pattr...)
		n.If = cx.no
		return []c06Node{f, y, n}, kind
	}
	return []c06Node{c06El(id)}, "static"
}

type c06SlotCfg struct {
	Name  string
	FB    int // 0 none, 1 static, 2 dynamic (component prop)
	Props bool
	Bare  bool
	Dup   bool // the component has this slot twice
}

// c06MakeComp builds component ci: <div data-m="C:cI"> pre [slots in the given order] post </div>.
// Props of the component: cIn, cIt (bound by scoped slots), cIv (shown by dynamic fallbacks).
func c06MakeComp(ci int, slots []c06SlotCfg) c06File {
	c := "c" + strconv.Itoa(ci)
	kids := []c06Node{c06El(c + ".pre")}
	for _, s := range slots {
		kids = append(kids, c06MakeSlot(c, s, [][2]string{{"n", c + "n"}, {"t", c + "t"}}, c+"v"))
		kids = append(kids, c06Text(c+".sep"))
		if s.Dup {
			d := c06MakeSlot(c, s, [][2]string{{"n", c + "n"}, {"t", c + "t"}}, c+"v")
			d.ID += "~2"
			kids = append(kids, c06Node{T: "el", Tag: "div", ID: c + ".dupwrap", Kids: []c06Node{d}})
		}
	}
	kids = append(kids, c06El(c+".post"))
	return c06File{Nodes: []c06Node{{T: "el", Tag: "div", ID: "C:" + c, Kids: kids}}}
}

func c06MakeSlot(c string, s c06SlotCfg, props [][2]string, dynVar string) c06Node {
	n := c06Node{T: "slot", ID: "S:" + c + ":" + c06SlotNameOr(s.Name), Name: s.Name, Bare: s.Bare}
	if s.Props {
		n.Props = props
	}
	fb := c + "." + c06SlotNameOr(s.Name) + ".fb"
	switch s.FB {
	case 1:
		n.Kids = []c06Node{c06Text(fb + ".t"), c06El(fb)}
	case 2:
		n.Kids = []c06Node{c06El(fb, dynVar), c06Text(fb+".t", dynVar)}
	}
	return n
}

// c06StdProps passes the three standard props of component ci from root data variables of instance inst.
func c06StdProps(ci int, inst string, data map[string]any) [][2]string {
	c := "c" + strconv.Itoa(ci)
	var out [][2]string
	for _, k := range []string{"n", "t", "v"} {
		v := k + "v" + inst
		data[v] = strings.ToUpper(k) + inst
		out = append(out, [2]string{c + k, v})
	}
	return out
}

type c06FormSpec struct {
	Form, Var string
	DV        int // destructuring variant (random parts): 0 literal Var, 1 first prop only, 2 compact, 3 reversed, 4 last prop only
}

var c06DefForms = []c06FormSpec{
	{Form: "none"}, {Form: "plain"}, {Form: "vslot"}, {Form: "vslot", Var: "p"}, {Form: "vslot", Var: "{ n, t }"},
	{Form: "vslotdef"}, {Form: "hash"}, {Form: "hash", Var: "p"}, {Form: "hash", Var: "{ n, t }"},
}
var c06NamedForms = []c06FormSpec{
	{Form: "none"}, {Form: "vslot"}, {Form: "vslot", Var: "p"}, {Form: "vslot", Var: "{ n, t }"}, {Form: "hash"}, {Form: "hash", Var: "p"}, {Form: "hash", Var: "{ n, t }"},
}
var c06Kinds = []string{"static", "ivar", "prop", "dir", "mixed", "text"} // single part: quick the first four, thorough the first five (the random parts use all)
var c06RandKinds = []string{"static", "ivar", "prop", "mixed", "dir", "dirprop", "prop", "mixed", "text"}

func c06SlotOf(f c06File, name string) *c06Node {
	var found *c06Node
	var walk func(ns []c06Node)
	walk = func(ns []c06Node) {
		for i := range ns {
			if ns[i].T == "slot" && ns[i].Name == name && found == nil {
				found = &ns[i]
			}
			if ns[i].T != "inc" {
				walk(ns[i].Kids)
			}
		}
	}
	walk(f.Nodes)
	return found
}

// c06MakeSupply builds what an includer writes for slot `name` of component file comp.
func c06MakeSupply(inst, name string, fs c06FormSpec, kind string, cx c06Cx, comp c06File, textOnly map[string]bool) c06Supply {
	var slotProps [][2]string
	if sl := c06SlotOf(comp, name); sl != nil {
		slotProps = sl.Props
	}
	if strings.HasPrefix(fs.Var, "{") {
		names := []string{"n", "t"}
		if len(slotProps) > 0 {
			names = nil
			for _, sp := range slotProps {
				names = append(names, sp[0])
			}
		}
		switch fs.DV {
		case 0:
			if len(slotProps) > 0 {
				fs.Var = "{ " + strings.Join(names, ", ") + " }"
			}
		case 1:
			fs.Var = "{ " + names[0] + " }"
		case 2:
			fs.Var = "{" + strings.Join(names, ",") + "}"
		case 3:
			rev := append([]string{}, names...)
			sort.Sort(sort.Reverse(sort.StringSlice(rev)))
			fs.Var = "{ " + strings.Join(rev, ", ") + " }"
		case 4:
			fs.Var = "{ " + names[len(names)-1] + " }"
		}
	}
	pa, pt := c06PropRefs(fs.Var, slotProps, textOnly)
	kids, k := c06Content(inst+"."+c06SlotNameOr(name)+".s", kind, cx, pa, pt)
	return c06Supply{Name: name, Form: fs.Form, Var: fs.Var, Kind: k, Kids: kids}
}

func c06PageWrap(body []c06Node) c06File {
	kids := append([]c06Node{c06El("pre", "who")}, body...)
	kids = append(kids, c06El("post"))
	return c06File{Nodes: []c06Node{{T: "el", Tag: "div", ID: "page", Kids: kids}}}
}

func c06PickEntry(r *core.RNG, c *c06Case, allowTag bool) string {
	via := "include"
	c.Entry = core.Pick(r, []string{"file", "file", "vue", "string"})
	if allowTag && c.Entry != "vue" && r.Chance(1, 3) {
		via = "tag"
		c.Tags = true
	}
	return via
}

// ---- part: single (exhaustive)

var c06SlotNames = []string{"head", "", "foot"}

func c06CompShapes(ctx core.Ctx) [][]c06SlotCfg {
	var out [][]c06SlotCfg
	cfg := func(name string, k int) c06SlotCfg { return c06SlotCfg{Name: name, FB: k % 3, Props: k/3 == 1} }
	for mask := 1; mask < 8; mask++ {
		var names []string
		for b, nm := range c06SlotNames {
			if mask&(1<<b) != 0 {
				names = append(names, nm)
			}
		}
		if ctx.Thorough() {
			total := 1
			for range names {
				total *= 6
			}
			for x := 0; x < total; x++ {
				var sh []c06SlotCfg
				y := x
				for _, nm := range names {
					sh = append(sh, cfg(nm, y%6))
					y /= 6
				}
				out = append(out, sh)
			}
			continue
		}
		for k := 0; k < 6; k++ {
			var sh, rot []c06SlotCfg
			for j, nm := range names {
				sh = append(sh, cfg(nm, k))
				rot = append(rot, cfg(nm, (k+2*j+1+j*j)%6))
			}
			out = append(out, sh)
			if len(names) > 1 {
				out = append(out, rot)
			}
		}
	}
	return out
}

func c06BuildSingle(ctx core.Ctx, i int) c06Case {
	shapes := c06CompShapes(ctx)
	r := core.NewRNG(ctx.Seed, 0x51, uint64(i))
	kinds := c06KindsFor(ctx)
	kind := kinds[i%len(kinds)]
	i /= len(kinds)
	ff := c06NamedForms[i%len(c06NamedForms)]
	i /= len(c06NamedForms)
	hf := c06NamedForms[i%len(c06NamedForms)]
	i /= len(c06NamedForms)
	df := c06DefForms[i%len(c06DefForms)]
	i /= len(c06DefForms)
	shape := shapes[i%len(shapes)]

	c := c06Case{Part: "single", Page: "page.vuego", Files: map[string]c06File{}, Data: c06BaseData()}
	via := c06PickEntry(r, &c, true)
	comp := c06MakeComp(0, shape)
	c.Files[c06CompFile(0)] = comp
	inc := c06Node{T: "inc", ID: "i0", Comp: c06CompFile(0), Via: via, Props: c06StdProps(0, "i0", c.Data)}
	for k, fs := range []c06FormSpec{hf, df, ff} {
		if fs.Form == "none" {
			continue
		}
		inc.Sup = append(inc.Sup, c06MakeSupply("i0", c06SlotNames[k], fs, kind, c06RootCx, comp, nil))
	}
	c.Files[c.Page] = c06PageWrap([]c06Node{inc})
	return c
}

func c06KindsFor(ctx core.Ctx) []string {
	if ctx.Thorough() {
		return c06Kinds[:5]
	}
	return c06Kinds[:4]
}

func c06NSingle(ctx core.Ctx) int {
	return len(c06CompShapes(ctx)) * len(c06DefForms) * len(c06NamedForms) * len(c06NamedForms) * len(c06KindsFor(ctx))
}

// ---- part: multi (random): 1-3 instances side by side

func c06RandSlots(r *core.RNG, allowBare bool) []c06SlotCfg {
	for {
		var sh []c06SlotCfg
		for _, k := range r.Perm(3) {
			if r.Chance(2, 3) {
				sh = append(sh, c06SlotCfg{Name: c06SlotNames[k], FB: r.Intn(3), Props: r.Bool(), Bare: allowBare && r.Chance(1, 10), Dup: r.Chance(1, 8)})
			}
		}
		if len(sh) > 0 {
			return sh
		}
	}
}

func c06RandForm(r *core.RNG, name string) c06FormSpec {
	var fs c06FormSpec
	if name == "" {
		fs = c06DefForms[1+r.Intn(len(c06DefForms)-1)]
	} else {
		fs = c06NamedForms[1+r.Intn(len(c06NamedForms)-1)]
	}
	if strings.HasPrefix(fs.Var, "{") {
		fs.DV = r.Intn(5)
	} else if fs.Var != "" && r.Chance(1, 3) {
		fs.Var = core.Pick(r, []string{"sp", "slotProps", "q"})
	}
	return fs
}

// c06RandSupplies picks a subset of the slot names (plus sometimes a name the component does not have).
func c06RandSupplies(r *core.RNG, inst string, comp c06File, cx c06Cx, kinds []string, textOnly map[string]bool, names []string) []c06Supply {
	var sup []c06Supply
	for _, k := range r.Perm(len(names)) {
		nm := names[k]
		if !r.Chance(3, 5) {
			continue
		}
		sup = append(sup, c06MakeSupply(inst, nm, c06RandForm(r, nm), core.Pick(r, kinds), cx, comp, textOnly))
	}
	if r.Chance(1, 6) {
		sup = append(sup, c06MakeSupply(inst, "side", c06RandForm(r, "side"), core.Pick(r, kinds), cx, comp, textOnly))
	}
	return sup
}

func c06BuildMulti(seed uint64, i int) c06Case {
	r := core.NewRNG(seed, 0x52, uint64(i))
	c := c06Case{Part: "multi", Page: "page.vuego", Files: map[string]c06File{}, Data: c06BaseData()}
	via := c06PickEntry(r, &c, true)
	ncomp := 1 + r.Intn(2)
	for ci := 0; ci < ncomp; ci++ {
		c.Files[c06CompFile(ci)] = c06MakeComp(ci, c06RandSlots(r, true))
	}
	ninst := 1 + r.Intn(3)
	var body []c06Node
	for k := 0; k < ninst; k++ {
		inst := "i" + strconv.Itoa(k)
		ci := r.Intn(ncomp)
		comp := c.Files[c06CompFile(ci)]
		inc := c06Node{T: "inc", ID: inst, Comp: c06CompFile(ci), Via: via, Props: c06StdProps(ci, inst, c.Data)}
		inc.Sup = c06RandSupplies(r, inst, comp, c06RootCx, c06RandKinds, nil, c06SlotNames)
		inc.WS = r.Chance(1, 3)
		body = append(body, inc)
		if r.Bool() {
			body = append(body, c06Text("between"+strconv.Itoa(k)))
		}
	}
	c.Files[c.Page] = c06PageWrap(body)
	return c
}

// ---- part: loop (random): slot inside v-for of the component and/or include inside v-for of the includer

func c06BuildLoop(seed uint64, i int) c06Case {
	r := core.NewRNG(seed, 0x53, uint64(i))
	c := c06Case{Part: "loop", Page: "page.vuego", Files: map[string]c06File{}, Data: c06BaseData()}
	via := c06PickEntry(r, &c, true)
	variant := core.Pick(r, []string{"comp", "comp", "inc", "both"})
	c.Label = variant
	nItems := 1 + r.Intn(3)
	var ys []any
	for k := 0; k < nItems; k++ {
		ys = append(ys, "y"+strconv.Itoa(k))
	}
	c.Data["ys"] = ys
	textOnly := map[string]bool{"i": true}

	var comp c06File
	rowName := core.Pick(r, []string{"", "row"})
	if variant == "inc" {
		comp = c06MakeComp(0, c06RandSlots(r, false))
	} else {
		// <ul data-m="C:c0"><li v-for="(i, it) in c0items" data-m="c0.li"> [row slot] </li></ul> [optional plain slot "foot"]
		row := c06MakeSlot("c0", c06SlotCfg{Name: rowName, FB: r.Intn(3), Props: true}, [][2]string{{"it", "it"}, {"i", "i"}}, "it")
		li := c06Node{T: "el", Tag: "li", ID: "c0.li", Refs: []string{"it"}, For: &c06For{List: "c0items", Item: "it", Idx: "i"}, Kids: []c06Node{row}}
		if r.Bool() {
			li.For.Idx = ""
			row.Props = [][2]string{{"it", "it"}}
			li.Kids = []c06Node{row}
		}
		nodes := []c06Node{{T: "el", Tag: "ul", ID: "C:c0", Kids: []c06Node{li}}}
		if r.Bool() {
			nodes = append(nodes, c06MakeSlot("c0", c06SlotCfg{Name: "foot", FB: r.Intn(3), Props: r.Bool()}, [][2]string{{"n", "c0n"}, {"t", "c0t"}}, "c0v"))
		}
		comp = c06File{Nodes: nodes}
	}
	c.Files[c06CompFile(0)] = comp

	mkInc := func(inst string, cx c06Cx, props [][2]string) c06Node {
		inc := c06Node{T: "inc", ID: inst, Comp: c06CompFile(0), Via: via, Props: props, WS: r.Chance(1, 3)}
		names := c06SlotNames
		if variant != "inc" {
			names = []string{rowName, "foot"}
		}
		for len(inc.Sup) == 0 {
			inc.Sup = c06RandSupplies(r, inst, comp, cx, c06RandKinds, textOnly, names)
			if r.Chance(1, 8) {
				break
			}
		}
		return inc
	}
	var body []c06Node
	switch variant {
	case "comp":
		props := append(c06StdProps(0, "i0", c.Data), [2]string{"c0items", "ys"})
		body = append(body, mkInc("i0", c06RootCx, props))
		if r.Bool() {
			c.Data["zs"] = []any{"z0", "z1"}
			props2 := append(c06StdProps(0, "i1", c.Data), [2]string{"c0items", "zs"})
			body = append(body, mkInc("i1", c06RootCx, props2))
		}
	default:
		// includer loop: <div v-for="(ri, row) in rows" data-m="row"> include </div>; content may show row.id
		var rows []any
		nRows := 1 + r.Intn(3)
		for k := 0; k < nRows; k++ {
			rows = append(rows, map[string]any{"id": "r" + strconv.Itoa(k), "n": "rn" + strconv.Itoa(k), "items": []any{"a" + strconv.Itoa(k), "b" + strconv.Itoa(k)}})
		}
		c.Data["rows"] = rows
		cx := c06RootCx
		cx.ivar = "row.id"
		props := [][2]string{{"c0n", "row.n"}, {"c0t", "row.id"}, {"c0v", "row.n"}}
		if variant == "both" {
			props = append(props, [2]string{"c0items", "row.items"})
		}
		wrap := c06Node{T: "el", Tag: "div", ID: "row", Refs: []string{"row.id"}, For: &c06For{List: "rows", Item: "row"}, Kids: []c06Node{mkInc("i0", cx, props)}}
		body = append(body, wrap)
	}
	c.Files[c.Page] = c06PageWrap(body)
	return c
}

// ---- part: nested (random): components inside supplied content and inside component templates, depth <= 3

type c06NestGen struct {
	r     *core.RNG
	c     *c06Case
	ninst int
	via   string
}

// inst builds an include of component ci written in a place described by cx; propSrc are three
// scalar paths visible there.
func (g *c06NestGen) inst(ci, depth int, cx c06Cx, propSrc []string, kinds []string) c06Node {
	inst := "i" + strconv.Itoa(g.ninst)
	g.ninst++
	comp := g.c.Files[c06CompFile(ci)]
	c := "c" + strconv.Itoa(ci)
	inc := c06Node{T: "inc", ID: inst, Comp: c06CompFile(ci), Via: "include", WS: g.r.Chance(1, 3)}
	for k, nm := range []string{"n", "t", "v"} {
		inc.Props = append(inc.Props, [2]string{c + nm, propSrc[k%len(propSrc)]})
	}
	for _, k := range g.r.Perm(3) {
		nm := c06SlotNames[k]
		if !g.r.Chance(3, 5) {
			continue
		}
		fs := c06RandForm(g.r, nm)
		if fs.Var != "" && !strings.HasPrefix(fs.Var, "{") {
			fs.Var = "p" + strconv.Itoa(depth) // distinct per nesting level
		}
		s := c06MakeSupply(inst, nm, fs, core.Pick(g.r, kinds), cx, comp, nil)
		if depth < 3 && g.ninst < 7 && g.r.Chance(1, 2) {
			// a nested component inside this content; it can use the includer's variable and this slot's props
			src := []string{cx.ivar}
			var slotProps [][2]string
			if sl := c06SlotOf(comp, nm); sl != nil {
				slotProps = sl.Props
			}
			pa, _ := c06PropRefs(s.Var, slotProps, nil)
			src = append(src, pa...)
			child := g.inst(g.r.Intn(len(g.c.Files)-1), depth+1, cx, src, kinds)
			s.Kind += "+nest"
			pos := g.r.Intn(len(s.Kids) + 1)
			kids := append([]c06Node{}, s.Kids[:pos]...)
			kids = append(kids, child)
			s.Kids = append(kids, s.Kids[pos:]...)
		}
		inc.Sup = append(inc.Sup, s)
	}
	return inc
}

func c06BuildNested(seed uint64, i int) c06Case {
	r := core.NewRNG(seed, 0x54, uint64(i))
	c := c06Case{Part: "nested", Page: "page.vuego", Files: map[string]c06File{}, Data: c06BaseData()}
	c06PickEntry(r, &c, false)
	g := &c06NestGen{r: r, c: &c}
	ncomp := 2 + r.Intn(2)
	for ci := 0; ci < ncomp; ci++ {
		c.Files[c06CompFile(ci)] = c06MakeComp(ci, c06RandSlots(r, false))
	}
	c.Files["page.vuego"] = c06File{} // placeholder so that len(Files)-1 == ncomp
	// component-level nesting: component ci (ci < ncomp-1) may include a later component in its own template,
	// supplying content that shows ci's own props
	for ci := ncomp - 2; ci >= 0; ci-- {
		if !r.Chance(1, 2) {
			continue
		}
		cj := ci + 1 + r.Intn(ncomp-1-ci)
		cname := "c" + strconv.Itoa(ci)
		inst := cname + "x"
		target := c.Files[c06CompFile(cj)]
		tj := "c" + strconv.Itoa(cj)
		inc := c06Node{T: "inc", ID: inst, Comp: c06CompFile(cj), Via: "include",
			Props: [][2]string{{tj + "n", cname + "t"}, {tj + "t", cname + "n"}, {tj + "v", cname + "v"}}}
		cx := c06Cx{ivar: cname + "v"}
		for _, k := range r.Perm(3) {
			if r.Chance(1, 2) {
				nm := c06SlotNames[k]
				inc.Sup = append(inc.Sup, c06MakeSupply(inst, nm, c06RandForm(r, nm), core.Pick(r, []string{"static", "ivar", "prop", "mixed"}), cx, target, nil))
			}
		}
		f := c.Files[c06CompFile(ci)]
		root := f.Nodes[0]
		pos := 1 + r.Intn(len(root.Kids)-1)
		kids := append([]c06Node{}, root.Kids[:pos]...)
		kids = append(kids, inc)
		root.Kids = append(kids, root.Kids[pos:]...)
		f.Nodes = []c06Node{root}
		c.Files[c06CompFile(ci)] = f
	}
	var body []c06Node
	n := 1 + r.Intn(2)
	for k := 0; k < n; k++ {
		src := []string{"who", "who2"}
		body = append(body, g.inst(r.Intn(ncomp), 1, c06RootCx, src, c06RandKinds))
	}
	c.Files["page.vuego"] = c06PageWrap(body)
	return c
}

// ---- part: pass (enumerated): a component hands its own <slot> on as content of an inner component

func c06NPass(ctx core.Ctx) int { return 16 }

func c06BuildPass(i int) c06Case {
	c := c06Case{Part: "pass", Page: "page.vuego", Entry: "file", Files: map[string]c06File{}, Data: c06BaseData()}
	outerName := []string{"", "head"}[i%2]
	innerForm := []c06FormSpec{{Form: "plain"}, {Form: "hash"}}[(i/2)%2]
	supplied := (i/4)%2 == 0
	innerName := []string{"", "head"}[(i/8)%2]
	if innerForm.Form == "plain" {
		innerName = ""
	}
	c.Label = fmt.Sprintf("outer-%s/inner-%s/%s", c06SlotNameOr(outerName), c06SlotNameOr(innerName), map[bool]string{true: "supplied", false: "unsupplied"}[supplied])
	// inner component c1: one slot innerName and, if that is named, also an unnamed slot with fallback
	inner := []c06SlotCfg{{Name: innerName, FB: 1}}
	if innerName != "" {
		inner = append(inner, c06SlotCfg{Name: "", FB: 1})
	}
	c.Files[c06CompFile(1)] = c06MakeComp(1, inner)
	// outer component c0: <div data-m="C:c0"> include c1 with content = c0's own slot </div>
	own := c06MakeSlot("c0", c06SlotCfg{Name: outerName, FB: 1}, nil, "")
	inc := c06Node{T: "inc", ID: "c0x", Comp: c06CompFile(1), Via: "include",
		Props: [][2]string{{"c1n", "c0n"}, {"c1t", "c0t"}, {"c1v", "c0v"}},
		Sup:   []c06Supply{{Name: innerName, Form: innerForm.Form, Kind: "passthrough", Kids: []c06Node{own}}}}
	c.Files[c06CompFile(0)] = c06File{Nodes: []c06Node{{T: "el", Tag: "div", ID: "C:c0", Kids: []c06Node{c06El("c0.pre"), inc}}}}
	top := c06Node{T: "inc", ID: "i0", Comp: c06CompFile(0), Via: "include", Props: c06StdProps(0, "i0", c.Data)}
	if supplied {
		form := c06FormSpec{Form: "plain"}
		if outerName != "" {
			form = c06FormSpec{Form: "hash"}
		}
		top.Sup = []c06Supply{c06MakeSupply("i0", outerName, form, "ivar", c06RootCx, c.Files[c06CompFile(0)], nil)}
	}
	c.Files[c.Page] = c06PageWrap([]c06Node{top})
	return c
}

// ---- part: layout (exhaustive): the page defines <template #name>, the layout has <slot name>

func c06NLayout(ctx core.Ctx) int { return 9 * 9 * 2 * 3 * 2 * 2 }

func c06BuildLayout(i int) c06Case {
	c := c06Case{Part: "layout", Page: "page.vuego", Entry: "file", Files: map[string]c06File{}, Data: c06BaseData()}
	fbSide, fbFoot := i%3, (i/3)%3
	i /= 9
	pageForms := []string{"none", "hash", "vslot"}
	fSide, fFoot := pageForms[i%3], pageForms[(i/3)%3]
	i /= 9
	extra := i%2 == 1
	i /= 2
	kind := []string{"static", "ivar", "dir"}[i%3]
	i /= 3
	twice := i%2 == 1
	i /= 2
	chain := i%2 == 1
	c.Label = kind

	c.Data["lv"] = "L0"
	mk := func(name string, fb int, id string) c06Node {
		n := c06MakeSlot("lay", c06SlotCfg{Name: name, FB: fb}, nil, "lv")
		n.ID = id
		return n
	}
	lay := []c06Node{
		{T: "el", Tag: "aside", ID: "lay.aside", Kids: []c06Node{mk("side", fbSide, "S:lay:side"), c06El("lay.after")}},
		{T: "content"},
		{T: "el", Tag: "footer", ID: "lay.footer", Kids: []c06Node{c06Text("lay.ft"), mk("foot", fbFoot, "S:lay:foot")}},
	}
	if twice {
		lay = append(lay, c06Node{T: "el", Tag: "div", ID: "lay.again", Kids: []c06Node{mk("side", fbSide, "S:lay:side2")}})
	}
	outer := "layouts/main.vuego"
	c.Files[outer] = c06File{Nodes: lay}
	page := c06File{FM: [][2]string{{"layout", "main"}}}
	if chain {
		c.Files["layouts/inner.vuego"] = c06File{FM: [][2]string{{"layout", "main"}}, Nodes: []c06Node{{T: "el", Tag: "section", ID: "inner", Kids: []c06Node{{T: "content"}}}}}
		page.FM = [][2]string{{"layout", "inner"}}
	}
	c.Out = outer
	def := func(name, form string) {
		if form == "none" {
			return
		}
		kids, k := c06Content("page."+name+".s", kind, c06RootCx, nil, nil)
		page.Nodes = append(page.Nodes, c06Node{T: "def", Sup: []c06Supply{{Name: name, Form: form, Kind: k, Kids: kids}}})
	}
	def("side", fSide)
	page.Nodes = append(page.Nodes, c06El("page.body", "who"))
	def("foot", fFoot)
	if extra {
		def("nowhere", "hash")
	}
	c.Files[c.Page] = page
	return c
}

// ---- part: shadow (enumerated): a component variable has the name of an includer variable used in the content

func c06NShadow(ctx core.Ctx) int { return 3 * 3 }

func c06BuildShadow(i int) c06Case {
	c := c06Case{Part: "shadow", Page: "page.vuego", Entry: "file", Files: map[string]c06File{}, Data: c06BaseData()}
	src := []string{"prop", "loopvar", "frontmatter"}[i%3]
	form := []c06FormSpec{{Form: "plain"}, {Form: "hash"}, {Form: "vslot", Var: "p"}}[(i/3)%3]
	c.Label = src
	slot := c06MakeSlot("c0", c06SlotCfg{Name: "", FB: 1, Props: true}, [][2]string{{"n", "c0n"}}, "c0v")
	comp := c06File{Nodes: []c06Node{{T: "el", Tag: "div", ID: "C:c0", Kids: []c06Node{slot}}}}
	props := c06StdProps(0, "i0", c.Data)
	switch src {
	case "prop":
		props = append(props, [2]string{"who", "who2"})
	case "loopvar":
		c.Data["ys"] = []any{"y0", "y1"}
		props = append(props, [2]string{"c0items", "ys"})
		comp.Nodes[0].Kids = []c06Node{{T: "el", Tag: "div", ID: "c0.li", For: &c06For{List: "c0items", Item: "who"}, Kids: []c06Node{slot}}}
	case "frontmatter":
		comp.FM = [][2]string{{"who", "FM"}}
	}
	c.Files[c06CompFile(0)] = comp
	inc := c06Node{T: "inc", ID: "i0", Comp: c06CompFile(0), Via: "include", Props: props}
	inc.Sup = []c06Supply{c06MakeSupply("i0", "", form, "ivar", c06RootCx, comp, nil)}
	c.Files[c.Page] = c06PageWrap([]c06Node{inc})
	return c
}

// ---------------------------------------------------------------- the property

type c06 struct{}

func init() {
	core.Register(&c06{}, core.Meta{
		Exhaustive: func(ctx core.Ctx) bool { return false },
		Assumptions: []string{
			"golang.org/x/net/html re-parse of the output (whitespace-normalised) is the trusted observer",
			"whitespace-only text between the children of an include tag supplies nothing (the documented examples are formatted that way)",
			"values are non-empty alphanumeric strings, booleans and loop indices, so escaping, truthiness and literal evaluation (other properties) do not interfere",
			"component templates refer only to their own props; supplied content refers only to variables of the place where it is written and to the props of the slot it fills",
			"what a slot template without a declared variable sees of the slot's props, explicit <slot name=\"default\">, duplicate supplies for one name, a v-slot template mixed with plain children for the unnamed slot, and what a page itself prints for a <template #name> it hands to its layout are not judged (not generated / not compared)",
			"supplied content that shows an includer variable must show the includer's value even when the component has a prop, loop variable or front-matter key of the same name (strict reading of 'evaluated with the includer's variables'); reported under its own signatures shadow/...",
			"a <slot> that a component writes inside the content it supplies to an inner component is a slot of the outer component (lexical reading); reported under its own signatures pass/... and crash@...",
			"whether a component included by a layout inherits the page's slot templates is not judged (not generated)",
		},
		MinNonTrivial: func(ctx core.Ctx) int { return ctx.Pick(20000, 200000) },
	})
}

func (p *c06) ID() string { return "C06" }
func (p *c06) Rule() string {
	return "single (exhaustive): one component with every non-empty subset of {head, unnamed, foot} slots x per-slot {no fallback, static fallback, fallback showing a prop} x {binds props n,t or not} (quick: uniform and one rotated assignment per subset; thorough: all 6^k) x includer forms for the unnamed slot {none, plain children, v-slot, v-slot=\"p\", v-slot=\"{ n, t }\", v-slot:default, #default, #default=\"p\", #default=\"{ n, t }\"} x for head and foot {none, v-slot:x, v-slot:x=\"p\", v-slot:x=\"{ n, t }\", #x, #x=\"p\", #x=\"{ n, t }\"} (supplies for slots the component lacks included) x content kind {static, includer variable, slot props, directives v-if/v-for/template; thorough also: variable+props mixed}; " +
		"multi (random): 1-3 instances of 1-2 random components side by side, random subsets/forms/order/destructuring variants, unmatched slot names, unwrapped slots; loop (random): slot inside the component's v-for binding item/index, include inside the includer's v-for, both; nested (random): components inside supplied content and inside component templates, depth <= 3; " +
		"pass (enumerated): a component hands its own <slot> on as content for an inner component; layout (exhaustive): page <template #x>/<template v-slot:x> consumed by layout <slot name=x> (fallbacks, twice-used slot, 1-2 layouts); shadow (enumerated): component prop / loop variable / front-matter named like the includer variable the content shows. " +
		"Entry points Template.Render, Vue.Render, Template.RenderString; include tags and registered shorthand tags. non-trivial = a case in which at least one slot position is evaluated; distinct by the generated sources"
}

func c06NRand(ctx core.Ctx) (multi, loop, nested int) {
	return ctx.Pick(8000, 100000), ctx.Pick(6000, 70000), ctx.Pick(6000, 70000)
}

func (p *c06) Plan(ctx core.Ctx) int {
	m, l, n := c06NRand(ctx)
	return c06NSingle(ctx) + c06NPass(ctx) + c06NLayout(ctx) + c06NShadow(ctx) + c06NOpt(ctx) + m + l + n
}

func (p *c06) Gen(ctx core.Ctx, i int) any {
	if n := c06NSingle(ctx); i < n {
		return c06BuildSingle(ctx, i)
	} else {
		i -= n
	}
	if n := c06NPass(ctx); i < n {
		return c06BuildPass(i)
	} else {
		i -= n
	}
	if n := c06NLayout(ctx); i < n {
		return c06BuildLayout(i)
	} else {
		i -= n
	}
	if n := c06NShadow(ctx); i < n {
		return c06BuildShadow(i)
	} else {
		i -= n
	}
	if n := c06NOpt(ctx); i < n {
		return c06BuildOpt(i)
	} else {
		i -= n
	}
	m, l, _ := c06NRand(ctx)
	switch {
	case i < m:
		return c06BuildMulti(ctx.Seed, i)
	case i < m+l:
		return c06BuildLoop(ctx.Seed, i-m)
	}
	return c06BuildNested(ctx.Seed, i-m-l)
}

func (p *c06) Decode(raw json.RawMessage) (any, error) { return core.JSONDecode[c06Case](raw) }

func c06Render(c c06Case, src map[string]string) (string, error) {
	fsys := memFS(src)
	var opts []vuego.LoadOption
	if c.Tags {
		opts = append(opts, vuego.WithComponents())
	}
	switch c.Entry {
	case "vue":
		return renderVue(fsys, c.Page, c.Data)
	case "string":
		var b bytes.Buffer
		t := vuego.New(append([]vuego.LoadOption{vuego.WithFS(fsys)}, opts...)...).Fill(c.Data)
		err := t.RenderString(bg, &b, src[c.Page])
		return b.String(), err
	}
	return renderFile(fsys, c.Page, c.Data, opts...)
}

func (p *c06) Exec(ctx core.Ctx, cc any) core.Obs {
	c := cc.(c06Case)
	var o core.Obs
	if c.Part == "opt" && c.Opt != nil {
		c06ExecOpt(c, &o)
		return o
	}
	if c.Skipped || len(c.Files) == 0 {
		return o
	}
	src := map[string]string{}
	for name, f := range c.Files {
		src[name] = c06Source(f)
	}
	// reference model
	ref := &c06Ref{files: c.Files}
	root := &c06Env{vars: c.Data}
	if c.Part == "layout" {
		sc := &c06Scope{sup: map[string]*c06Supply{}, env: root, inst: "page", file: c.Page, class: "inherited"}
		pf := c.Files[c.Page]
		for k := range pf.Nodes {
			if pf.Nodes[k].T == "def" {
				s := &pf.Nodes[k].Sup[0]
				sc.sup[s.Name] = s
			}
		}
		ref.eval(c.Files[c.Out].Nodes, root, sc, c.Out)
	} else {
		ref.eval(c.Files[c.Page].Nodes, root, nil, c.Page)
	}
	if ref.bad != "" {
		o.Inconclusive = ref.bad
		return o
	}

	out, err := c06Render(c, src)
	o.Evals++
	if ref.fills > 0 {
		names := sortedKeys(src)
		parts := []any{c.Part, c.Entry}
		for _, n := range names {
			parts = append(parts, n, src[n])
		}
		o.NT(parts...)
	}
	sigPart := "inc"
	switch c.Part {
	case "layout", "pass", "shadow":
		sigPart = c.Part
	}
	showSrc := func() string {
		var b strings.Builder
		for _, n := range sortedKeys(src) {
			fmt.Fprintf(&b, "  %s: %s\n", n, src[n])
		}
		return b.String()
	}
	if err != nil {
		o.Fail(c, sigPart+"/render-error", "render failed: %v\nfiles:\n%sdata: %s", err, showSrc(), mustJSON(c.Data))
		return o
	}
	want := oracle.Parse(ref.b.String(), false)
	got := oracle.Parse(out, false)
	if c.Part == "layout" {
		for _, m := range got.ByAttr("data-m", "content") {
			m.Kids = nil
		}
	}

	// coverage
	o.Cell("part/" + c.Part)
	o.Cell("entry/" + c.Entry)
	if c.Tags {
		o.Cell("include-via/shorthand-tag")
	} else {
		o.Cell("include-via/template-include")
	}
	if c.Label != "" && c.Part != "layout" {
		o.Cell(c.Part + "/" + c.Label)
	}
	insts := map[string]bool{}
	for _, pv := range ref.prov {
		insts[pv.Inst] = true
		o.Cell("outcome/" + pv.Outcome)
		if pv.Outcome == "supplied" {
			o.Cell("supply/" + pv.Class + "/" + pv.Form + "+" + pv.Var)
			o.Cell("content/" + pv.Kind)
			if pv.HasProps {
				o.Cell("scoped/" + pv.Var)
			}
		}
		if pv.Slot == "default" {
			o.Cell("slot/unnamed")
		} else {
			o.Cell("slot/named")
		}
	}
	if c.Part == "multi" || c.Part == "nested" {
		o.Cell(fmt.Sprintf("%s/instances-with-wrapped-slots-%d", c.Part, len(insts)))
	}
	if c.Part == "loop" {
		o.Count("loop_iterations_modelled", int64(ref.iters))
	}
	o.Count("slot_positions_modelled", int64(ref.fills))

	d := oracle.Diff(want, got, nil)
	if d == nil {
		o.Cell("verdict/agree")
		if c.Part != "single" && len(ref.prov) >= 3 {
			o.Sample = map[string]any{"part": c.Part, "files": src, "output": clip(out, 1500)}
		}
		return o
	}
	defect, k := c06Classify(want, got, ref.prov)
	sig := sigPart + "/" + defect
	where := "outside any slot position"
	if k >= 0 && k < len(ref.prov) {
		pv := ref.prov[k]
		slotClass := "named"
		if pv.Slot == "default" {
			slotClass = "unnamed"
		}
		where = fmt.Sprintf("slot %q of component %s, instance %s (expected outcome: %s, form %s, var %s, content %s)", pv.Slot, pv.Comp, pv.Inst, pv.Outcome, pv.Form, pv.Var, pv.Kind)
		outcomeClass := "unsupplied"
		if pv.Outcome == "supplied" {
			outcomeClass = "supplied"
		}
		switch {
		case sigPart == "pass":
			sig += "/" + outcomeClass
		case sigPart != "inc":
			sig += "/" + c.Label
		case defect == "content-of-another-instance":
			sig += "/" + outcomeClass
		case defect == "content-of-another-slot":
			sig += "/" + slotClass + "-" + outcomeClass
		case pv.Outcome != "supplied":
			sig += "/" + slotClass
		case strings.HasPrefix(defect, "content-"):
			sig += "/" + pv.Class + "/" + pv.Var
		default:
			sig += "/" + pv.Form
		}
	} else if sigPart != "inc" && sigPart != "pass" {
		sig += "/" + c.Label
	}
	o.Fail(c, sig, "%s\nfirst difference: %s\nfiles:\n%sdata: %s\nexpected (reference model): %s\nobserved: %s",
		where, d.String(), showSrc(), mustJSON(c.Data), clip(ref.b.String(), 1500), clip(out, 1500))
	return o
}

// ---------------------------------------------------------------- classification of a difference

func c06IsWrapper(n *oracle.N) bool {
	v, ok := n.Attr("data-m")
	return ok && n.Name == "x-s" && strings.HasPrefix(v, "S:")
}

func c06Wrappers(root *oracle.N) []*oracle.N { return root.Find(c06IsWrapper) }

// c06MarkerKind parses a marker or text token: "<inst>.<slot>.s[...]" is supplied content,
// "<comp>.<slot>.fb[...]" is fallback content.
func c06MarkerKind(m string) (kind, owner, slot string) {
	parts := strings.Split(m, ".")
	if len(parts) < 3 {
		return "", "", ""
	}
	switch parts[2] {
	case "s":
		return "sup", parts[0], parts[1]
	case "fb":
		return "fb", parts[0], parts[1]
	}
	return "", "", ""
}

// c06OwnMarkers lists the content markers (element markers and text tokens, document order) inside a
// slot position, not descending into nested slot positions.
func c06OwnMarkers(w *oracle.N) []string {
	var out []string
	var walk func(n *oracle.N)
	walk = func(n *oracle.N) {
		for _, k := range n.Kids {
			switch k.Kind {
			case "text":
				for _, word := range strings.Fields(k.Text) {
					if kind, _, _ := c06MarkerKind(word); kind != "" {
						out = append(out, word)
					}
				}
			case "el":
				if c06IsWrapper(k) {
					continue
				}
				if v, ok := k.Attr("data-m"); ok {
					out = append(out, v)
				}
				walk(k)
			}
		}
	}
	walk(w)
	return out
}

func c06HasRawTemplate(w *oracle.N) bool {
	raw := false
	w.Walk(func(n *oracle.N) {
		if n.Kind == "text" && strings.Contains(n.Raw, "{{") {
			raw = true
		}
		if n.Kind == "el" {
			if n.Name == "slot" || n.Name == "template" {
				raw = true
			}
			for _, a := range n.Attrs {
				if strings.HasPrefix(a.K, ":") || strings.HasPrefix(a.K, "v-") || strings.HasPrefix(a.K, "#") {
					raw = true
				}
			}
		}
	})
	return raw
}

// c06ChildWrappers returns the nearest slot positions below n (not those nested in another one).
func c06ChildWrappers(n *oracle.N) []*oracle.N {
	var out []*oracle.N
	var walk func(x *oracle.N)
	walk = func(x *oracle.N) {
		for _, k := range x.Kids {
			if k.Kind != "el" {
				continue
			}
			if c06IsWrapper(k) {
				out = append(out, k)
				continue
			}
			walk(k)
		}
	}
	walk(n)
	return out
}

// c06OwnCanon is the canonical form of what a slot position holds itself, nested positions cut out.
func c06OwnCanon(n *oracle.N) string {
	var b strings.Builder
	var walk func(x *oracle.N)
	walk = func(x *oracle.N) {
		for _, k := range x.Kids {
			switch k.Kind {
			case "text":
				fmt.Fprintf(&b, "%q", k.Text)
			case "el":
				if c06IsWrapper(k) {
					v, _ := k.Attr("data-m")
					b.WriteString("<slot-position " + v + "/>")
					continue
				}
				b.WriteString("<" + k.Name)
				as := append([]oracle.Attr(nil), k.Attrs...)
				sort.SliceStable(as, func(i, j int) bool { return as[i].K < as[j].K })
				for _, a := range as {
					fmt.Fprintf(&b, " %s=%q", a.K, a.V)
				}
				b.WriteString(">")
				walk(k)
				b.WriteString("</>")
			}
		}
	}
	walk(n)
	return b.String()
}

// c06Classify names the defect class and the index (in prov / expected wrapper pre-order) of the slot
// position it was seen at. It descends from the document root through matching slot positions and stops
// at the outermost position whose own content markers differ (what is nested inside wrong content is a
// consequence, not a cause); if all markers agree it reports the position whose own values differ.
func c06Classify(want, got *oracle.N, prov []c06Prov) (string, int) {
	ew := c06Wrappers(want)
	if len(ew) != len(prov) {
		return "model-misaligned", -1
	}
	index := map[*oracle.N]int{}
	for i, w := range ew {
		index[w] = i
	}
	var find func(e, g *oracle.N, idx int) (string, int, bool)
	find = func(e, g *oracle.N, idx int) (string, int, bool) {
		em, gm := c06OwnMarkers(e), c06OwnMarkers(g)
		if strings.Join(em, " ") != strings.Join(gm, " ") {
			if idx < 0 {
				return c06ClassifyUnwrapped(em, gm), -1, true
			}
			return c06ClassifyOne(e, g, prov[idx]), idx, true
		}
		ec, gc := c06ChildWrappers(e), c06ChildWrappers(g)
		sameKids := len(ec) == len(gc)
		if sameKids {
			for i := range ec {
				a, _ := ec[i].Attr("data-m")
				b, _ := gc[i].Attr("data-m")
				if a != b {
					sameKids = false
				}
			}
		}
		if !sameKids {
			if len(gc) > len(ec) {
				return "extra-slot-positions", idx, true
			}
			return "missing-slot-positions", idx, true
		}
		for i := range ec {
			if d, k, ok := find(ec[i], gc[i], index[ec[i]]); ok {
				return d, k, true
			}
		}
		if c06OwnCanon(e) != c06OwnCanon(g) {
			if idx < 0 {
				return "outside-slot-positions", -1, true
			}
			return c06ClassifyOne(e, g, prov[idx]), idx, true
		}
		return "", -1, false
	}
	if d, k, ok := find(want, got, -1); ok {
		return d, k
	}
	return "unclassified", -1
}

func c06ClassifyUnwrapped(em, gm []string) string {
	count := func(xs []string) map[string]int {
		m := map[string]int{}
		for _, x := range xs {
			m[x]++
		}
		return m
	}
	wm, om := count(em), count(gm)
	for _, x := range sortedKeys(om) {
		if om[x] > wm[x] {
			switch kind, _, _ := c06MarkerKind(x); kind {
			case "sup":
				return "unwrapped/unexpected-supplied-content"
			case "fb":
				return "unwrapped/unexpected-fallback"
			}
		}
	}
	for _, x := range sortedKeys(wm) {
		if wm[x] > om[x] {
			switch kind, _, _ := c06MarkerKind(x); kind {
			case "sup":
				return "unwrapped/supplied-content-missing"
			case "fb":
				return "unwrapped/fallback-missing"
			}
		}
	}
	return "outside-slot-positions"
}

func c06ClassifyOne(ew, gw *oracle.N, pv c06Prov) string {
	em, gm := c06OwnMarkers(ew), c06OwnMarkers(gw)
	isFB := func(m string) bool { k, _, _ := c06MarkerKind(m); return k == "fb" }
	var gFB, gOwn, gOtherSlot, gForeign int
	for _, m := range gm {
		kind, owner, slot := c06MarkerKind(m)
		switch kind {
		case "fb":
			gFB++
		case "sup":
			switch {
			case owner == pv.Inst && slot == pv.Slot:
				gOwn++
			case owner == pv.Inst:
				gOtherSlot++
			default:
				gForeign++
			}
		}
	}
	eFB := 0
	for _, m := range em {
		if isFB(m) {
			eFB++
		}
	}
	switch pv.Outcome {
	case "supplied":
		switch {
		case gForeign > 0:
			return "content-of-another-instance"
		case gOtherSlot > 0:
			return "content-of-another-slot"
		case gFB > eFB && gOwn > 0:
			return "fallback-in-addition-to-supplied"
		case gFB > eFB:
			return "supplied-ignored-fallback-shown"
		case gOwn == 0 && len(em) > 0 && strings.TrimSpace(gw.InnerText()) == "":
			return "supplied-dropped"
		}
		if strings.Join(em, " ") == strings.Join(gm, " ") {
			if c06HasRawTemplate(gw) {
				return "content-not-evaluated"
			}
			return "content-wrong-value"
		}
		if c06HasRawTemplate(gw) {
			return "content-not-evaluated"
		}
		sort.Strings(em)
		sort.Strings(gm)
		if strings.Join(em, " ") == strings.Join(gm, " ") {
			return "content-order"
		}
		return "content-structure"
	default:
		switch {
		case gForeign > 0:
			return "content-of-another-instance"
		case gOtherSlot > 0 || gOwn > 0:
			return "content-of-another-slot"
		case pv.Outcome == "fallback" && gFB == 0:
			return "fallback-missing"
		case pv.Outcome == "empty" && len(gm) > 0:
			return "unexpected-content"
		}
		if c06HasRawTemplate(gw) {
			return "fallback-not-evaluated"
		}
		return "fallback-wrong-value"
	}
}
