package props

import (
	"fmt"
	"strings"
)

// Reference model of the variable stack: a list of scopes (name -> binding)
// plus the table of names the root data value offers as fallback.

type c17Bind struct {
	b     *c17Built
	fuzzy bool // value representation not decided (struct-valued root field flattened by Copy)
}

type c17Field struct {
	bind         c17Bind
	class        string // struct-tag-name | struct-go-name | struct-untagged-name
	structValued bool   // field of struct / pointer-to-struct type: EnvMap's representation is not judged
	canonical    bool   // the key under which the merged environment lists the field
}

type c17Model struct {
	scopes   []map[string]c17Bind
	fields   map[string]c17Field // nil: no struct root data
	rootKind string
}

func (m *c17Model) depth() int { return len(m.scopes) }

// lookup returns the innermost binding; class describes where the name lives.
func (m *c17Model) lookup(name string) (c17Bind, bool, string) {
	for i := len(m.scopes) - 1; i >= 0; i-- {
		if b, ok := m.scopes[i][name]; ok {
			if _, isField := m.fields[name]; isField {
				return b, true, "scope-name-over-struct-field"
			}
			return b, true, "scope-name"
		}
	}
	if f, ok := m.fields[name]; ok {
		return f.bind, true, f.class
	}
	return c17Bind{}, false, "unbound-name"
}

// outerValues lists the values bound to name in scopes below the innermost binding (for classification).
func (m *c17Model) outerValues(name string) []any {
	var out []any
	found := false
	for i := len(m.scopes) - 1; i >= 0; i-- {
		if b, ok := m.scopes[i][name]; ok {
			if found && b.b != nil {
				out = append(out, b.b.val)
			}
			found = true
		}
	}
	if f, ok := m.fields[name]; ok && found && f.bind.b != nil {
		out = append(out, f.bind.b.val)
	}
	return out
}

func (m *c17Model) push(sc map[string]c17Bind) {
	if sc == nil {
		sc = map[string]c17Bind{}
	}
	m.scopes = append(m.scopes, sc)
}

func (m *c17Model) pop() { m.scopes = m.scopes[:len(m.scopes)-1] }

func (m *c17Model) set(name string, b c17Bind) { m.scopes[len(m.scopes)-1][name] = b }

// copy: a new stack over the flattened environment, same root data.
func (m *c17Model) copy() *c17Model {
	flat := map[string]c17Bind{}
	for name, f := range m.fields {
		if f.structValued && f.canonical {
			flat[name] = c17Bind{b: f.bind.b, fuzzy: true}
		}
	}
	for _, sc := range m.scopes {
		for k, v := range sc {
			flat[k] = v
		}
	}
	return &c17Model{scopes: []map[string]c17Bind{flat}, fields: m.fields, rootKind: m.rootKind}
}

func (m *c17Model) isStructValued(name string) bool {
	for i := len(m.scopes) - 1; i >= 0; i-- {
		if _, ok := m.scopes[i][name]; ok {
			return false
		}
	}
	return m.fields[name].structValued
}

// c17Exp is the expected outcome of resolving a path.
type c17Exp struct {
	b       *c17Built // reached element (nil when absent)
	absent  bool
	fuzzy   string // non-empty: not judged, reason
	parent  string // kind of the container at which the last step was taken
	stepCls string // class of the last step
}

// walk computes the expectation for name followed by steps.
func (m *c17Model) walk(name string, steps []string) c17Exp {
	bind, ok, ncls := m.lookup(name)
	if !ok {
		return c17Exp{absent: true, parent: "stack", stepCls: ncls}
	}
	if bind.fuzzy {
		return c17Exp{fuzzy: "struct-valued-root-field-after-copy", b: nil, parent: "stack", stepCls: ncls}
	}
	return c17WalkFrom(bind.b, steps, "stack", ncls)
}

func c17WalkFrom(cur *c17Built, steps []string, parent, cls string) c17Exp {
	for i, s := range steps {
		if cur.val == nil {
			return c17Exp{absent: true, parent: "nil", stepCls: "step-on-nil"}
		}
		if why, fz := cur.fuzzy[s]; fz {
			child := cur.steps[s]
			if i == len(steps)-1 {
				return c17Exp{fuzzy: why, b: child, parent: cur.kind, stepCls: "fuzzy"}
			}
			return c17Exp{fuzzy: why, parent: cur.kind, stepCls: "fuzzy"}
		}
		child, ok := cur.steps[s]
		if !ok {
			return c17Exp{absent: true, parent: cur.kind, stepCls: cur.classifyUnknown(s)}
		}
		parent, cls = cur.kind, cur.cls[s]
		cur = child
	}
	return c17Exp{b: cur, parent: parent, stepCls: cls}
}

// classifyUnknown names the class of a step that is not valid at this value.
func (b *c17Built) classifyUnknown(s string) string {
	for _, bd := range b.bad {
		if bd.step == s {
			return bd.cls
		}
	}
	k := b.kind
	if k != "*nil" {
		k = strings.TrimLeft(k, "*")
	}
	switch {
	case strings.HasPrefix(k, "map"):
		return "missing-key"
	case k == "array" || strings.HasPrefix(k, "[]"):
		if c17IsNum(s) {
			if s[0] == '-' {
				return "index-negative"
			}
			return "index-out-of-range"
		}
		return "index-non-numeric"
	case strings.HasPrefix(k, "struct"):
		if c17IsNum(s) {
			return "index-on-struct"
		}
		return "missing-field"
	case strings.HasPrefix(k, "nil-pointer"):
		return "step-on-nil-pointer"
	case k == "nil" || k == "*nil":
		return "step-on-nil"
	}
	return "step-on-scalar"
}

// c17Judge compares one observation (value, ok) with the expectation.
// defect == "" means consistent; note is a not-judged reason (may accompany "").
func c17Judge(got any, ok bool, e c17Exp) (defect, note string) {
	if e.fuzzy != "" {
		if ok && e.b != nil && !c17Equal(got, e.b.val) {
			return "wrong-element", e.fuzzy
		}
		return "", e.fuzzy
	}
	if e.absent {
		if ok {
			return "present-but-absent-expected", ""
		}
		if got != nil {
			return "value-returned-with-not-found", ""
		}
		return "", ""
	}
	if e.b.val == nil {
		if got != nil {
			return "wrong-element", ""
		}
		return "", "nil-element-presence-flag"
	}
	if !ok {
		return "absent-but-reachable", ""
	}
	if !c17Equal(got, e.b.val) {
		return "wrong-element", ""
	}
	return "", ""
}

func c17IsNum(s string) bool {
	if len(s) > 0 && s[0] == '-' {
		s = s[1:]
	}
	if s == "" {
		return false
	}
	for i := 0; i < len(s); i++ {
		if s[i] < '0' || s[i] > '9' {
			return false
		}
	}
	return true
}

var c17Spellings = []string{"dotted", "bracket", "quoted-bracket", "mixed", "padded-bracket"}

// c17Spell writes root followed by steps in one of the four spellings.
func c17Spell(root string, steps []string, sp int) string {
	var b strings.Builder
	b.WriteString(root)
	for i, s := range steps {
		num := c17IsNum(s)
		br := func(quoted bool) {
			if quoted && !num {
				q := "'"
				if i%2 == 1 {
					q = `"`
				}
				b.WriteString("[" + q + s + q + "]")
			} else {
				b.WriteString("[" + s + "]")
			}
		}
		switch sp {
		case 0:
			b.WriteString("." + s)
		case 1:
			br(false)
		case 2:
			br(true)
		case 4: // blanks inside the brackets, as Go (and the engine's own trimming) allows: a[ 'k' ][ 0 ]
			if num {
				b.WriteString("[ " + s + " ]")
			} else if i%2 == 0 {
				b.WriteString("[ '" + s + "' ]")
			} else {
				b.WriteString(`["` + s + `" ]`)
			}
		default:
			if i%2 == 0 {
				br(i%4 == 0)
			} else {
				b.WriteString("." + s)
			}
		}
	}
	return b.String()
}

func c17Show(v any) string {
	return clip(fmt.Sprintf("%#v", v), 160)
}

// probePaths returns a small set of step lists exercising a value: its valid
// steps, some second-level steps, and invalid steps.
func (b *c17Built) probePaths() [][]string {
	if b.probes != nil {
		return b.probes
	}
	out := [][]string{}
	ss := b.sortedSteps()
	for i, s := range ss {
		if i >= 4 {
			break
		}
		out = append(out, []string{s})
		ch := b.steps[s]
		if ch.val == nil {
			continue
		}
		cs := ch.sortedSteps()
		for j, t := range cs {
			if j >= 2 {
				break
			}
			out = append(out, []string{s, t})
		}
		if len(ch.bad) > 0 {
			out = append(out, []string{s, ch.bad[0].step})
		}
	}
	for i, bd := range b.bad {
		if i >= 2 {
			break
		}
		out = append(out, []string{bd.step})
	}
	b.probes = out
	return out
}
