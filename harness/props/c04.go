package props

import (
	"encoding/json"
	"fmt"
	"reflect"
	"strconv"
	"strings"

	"verifharness/core"
	"verifharness/oracle"
)

// C04 — v-for renders one scoped instance per item, in order, and restores the scope.
//
// A case is a loop nest (depth 1..3). The template and the expected marker tree
// are both derived from the case description: the template statically, the
// expectation by a reference interpreter that iterates the described items and
// keeps its own scope model (frames of name -> value over a root model). Every
// value is observed through "probes": small marked elements that read one name in
// five positions (text {{ n }}, static attribute with interpolation, bound
// attribute :a="n", an expression {{ n == lit0 ? 'k0' : (n == lit1 ? ... ) }} naming
// the literal the value equals, and v-if="n == lit0").

// ---------------------------------------------------------------- case

type c04Coll struct {
	Kind  string  `json:"kind"`
	State string  `json:"state,omitempty"` // "" | missing | nilif | nilslice
	Atoms []int   `json:"atoms,omitempty"` // one atom (0..3) per item
	Sub   [][]int `json:"sub,omitempty"`   // nested kinds: the rows; composite kinds: the tags of each item (nil = no tags)
}

type c04Loop struct {
	Src    string   `json:"src"` // root | rootgo | box | item | field
	Coll   *c04Coll `json:"coll,omitempty"`
	Var    string   `json:"var"`
	Idx    string   `json:"idx,omitempty"`
	If     string   `json:"if,omitempty"` // "" | skip | first | never
	IfAtom int      `json:"ifatom,omitempty"`
	Shape  string   `json:"shape,omitempty"` // "" | bind | tmpl
	Else   string   `json:"else,omitempty"`  // "" | imm | ws | comment | elem
}

type c04Case struct {
	Part  string    `json:"part"`  // d1 | grid2 | nest | nonseq
	Root  string    `json:"root"`  // map | struct | ptr
	Entry string    `json:"entry"` // str | file | vue
	Top   bool      `json:"top,omitempty"`
	Loops []c04Loop `json:"loops"`
	Text  *c04Text  `json:"text,omitempty"` // text part (c04_text.go)
	Fn    *c04Fn    `json:"fn,omitempty"`   // fnnames part (c04_fn.go)
	Last  *c04Last  `json:"last,omitempty"` // last part (c04_last.go)
	TVar  *c04TVar  `json:"tvar,omitempty"` // tvar part (c04_tvar.go)
}

// c04Root is the struct form of the root data.
type c04Root struct {
	Title string `json:"title"`
	Count int    `json:"count"`
	Plain string
	C0    any            `json:"c0"`
	C1    any            `json:"c1"`
	C2    any            `json:"c2"`
	Box   map[string]any `json:"box"`
}

// ---------------------------------------------------------------- kinds

type c04Kind struct {
	name  string
	class string // slice | array | composite | nested
	elem  string // nested kinds: the kind of a row
	tags  string // composite kinds: accessor of the tag list ("" = none)
	acc   string // accessor of the identity scalar in path position
	eacc  string // same in expression position (optional chaining)
	vals  []any  // atom -> identity scalar (abstract: string, int, float64, bool, nil)
	lits  []string
}

var (
	c04StrVals  = []any{"a", "b", "c", "d"}
	c04StrLits  = []string{"'a'", "'b'", "'c'", "'d'"}
	c04IntVals  = []any{7, 0, -3, 12}
	c04IntLits  = []string{"7", "0", "-3", "12"}
	c04UintVals = []any{7, 0, 3, 12}
	c04UintLits = []string{"7", "0", "3", "12"}
	c04FltVals  = []any{1.5, 0.0, -2.5, 3.0}
	c04FltLits  = []string{"1.5", "0", "-2.5", "3"}
	c04BoolVals = []any{true, false, true, false}
	c04BoolLits = []string{"true", "false", "true", "false"}
	c04AnyVals  = []any{"m", 5, true, nil}
	c04AnyLits  = []string{"'m'", "5", "true", "nil"}

	// plain probes compare a name against these
	c04PVals = []any{"ROOT", 77, nil, "PL"}
	c04PLits = []string{"'ROOT'", "77", "nil", "'PL'"}
	// index probes compare a name against these
	c04IVals = []any{0, 1, 2, 3, nil}
	c04ILits = []string{"0", "1", "2", "3", "nil"}
)

var c04KindList = []*c04Kind{
	{name: "[]any", class: "slice", vals: c04AnyVals, lits: c04AnyLits},
	{name: "[]string", class: "slice", vals: c04StrVals, lits: c04StrLits},
	{name: "[]int", class: "slice", vals: c04IntVals, lits: c04IntLits},
	{name: "[]int64", class: "slice", vals: c04IntVals, lits: c04IntLits},
	{name: "[]int8", class: "slice", vals: c04IntVals, lits: c04IntLits},
	{name: "[]uint8", class: "slice", vals: c04UintVals, lits: c04UintLits},
	{name: "[]uint16", class: "slice", vals: c04UintVals, lits: c04UintLits},
	{name: "[]float64", class: "slice", vals: c04FltVals, lits: c04FltLits},
	{name: "[]float32", class: "slice", vals: c04FltVals, lits: c04FltLits},
	{name: "[]bool", class: "slice", vals: c04BoolVals, lits: c04BoolLits},
	{name: "[N]int", class: "array", vals: c04IntVals, lits: c04IntLits},
	{name: "[N]string", class: "array", vals: c04StrVals, lits: c04StrLits},
	{name: "[N]any", class: "array", vals: c04AnyVals, lits: c04AnyLits},
	{name: "[]map", class: "composite", tags: ".tags", acc: ".id", eacc: "?.id", vals: c04StrVals, lits: c04StrLits},
	{name: "[]mapss", class: "composite", acc: ".id", eacc: "?.id", vals: c04StrVals, lits: c04StrLits},
	{name: "[]Item", class: "composite", tags: ".Tags", acc: ".Title", eacc: "?.Title", vals: c04StrVals, lits: c04StrLits},
	{name: "[]*Item", class: "composite", tags: ".Tags", acc: ".Title", eacc: "?.Title", vals: c04StrVals, lits: c04StrLits},
	{name: "[N]Item", class: "array", tags: ".Tags", acc: ".Title", eacc: "?.Title", vals: c04StrVals, lits: c04StrLits},
	{name: "[][]int", class: "nested", elem: "[]int", acc: "[0]", eacc: "?.[0]", vals: c04IntVals, lits: c04IntLits},
	{name: "[][]string", class: "nested", elem: "[]string", acc: "[0]", eacc: "?.[0]", vals: c04StrVals, lits: c04StrLits},
	{name: "[][]any", class: "nested", elem: "[]any", acc: "[0]", eacc: "?.[0]", vals: c04AnyVals, lits: c04AnyLits},
	{name: "[N][]int", class: "nested", elem: "[]int", acc: "[0]", eacc: "?.[0]", vals: c04IntVals, lits: c04IntLits},
}

var c04Kinds = func() map[string]*c04Kind {
	m := map[string]*c04Kind{}
	for _, k := range c04KindList {
		m[k.name] = k
	}
	return m
}()

var c04NonSeq = []string{"ns:string", "ns:int", "ns:bool", "ns:float", "ns:map", "ns:mapss", "ns:mapint", "ns:struct", "ns:*struct", "ns:*slice", "ns:func", "ns:chan", "ns:emptymap"}

func c04ScalarSlice(kind string, vals []any, atoms []int) any {
	n := len(atoms)
	switch kind {
	case "[]any", "[N]any":
		out := make([]any, n)
		for i, a := range atoms {
			out[i] = vals[a]
		}
		return out
	case "[]string", "[N]string":
		out := make([]string, n)
		for i, a := range atoms {
			out[i] = vals[a].(string)
		}
		return out
	case "[]int", "[N]int":
		out := make([]int, n)
		for i, a := range atoms {
			out[i] = vals[a].(int)
		}
		return out
	case "[]int64":
		out := make([]int64, n)
		for i, a := range atoms {
			out[i] = int64(vals[a].(int))
		}
		return out
	case "[]int8":
		out := make([]int8, n)
		for i, a := range atoms {
			out[i] = int8(vals[a].(int))
		}
		return out
	case "[]uint8":
		out := make([]uint8, n)
		for i, a := range atoms {
			out[i] = uint8(vals[a].(int))
		}
		return out
	case "[]uint16":
		out := make([]uint16, n)
		for i, a := range atoms {
			out[i] = uint16(vals[a].(int))
		}
		return out
	case "[]float64":
		out := make([]float64, n)
		for i, a := range atoms {
			out[i] = vals[a].(float64)
		}
		return out
	case "[]float32":
		out := make([]float32, n)
		for i, a := range atoms {
			out[i] = float32(vals[a].(float64))
		}
		return out
	case "[]bool":
		out := make([]bool, n)
		for i, a := range atoms {
			out[i] = vals[a].(bool)
		}
		return out
	}
	panic("c04: unknown scalar kind " + kind)
}

func c04ToArray(slice any) any {
	sv := reflect.ValueOf(slice)
	av := reflect.New(reflect.ArrayOf(sv.Len(), sv.Type().Elem())).Elem()
	for i := 0; i < sv.Len(); i++ {
		av.Index(i).Set(sv.Index(i))
	}
	return av.Interface()
}

func c04SubAt(sub [][]int, i int) []int {
	if i < len(sub) {
		return sub[i]
	}
	return nil
}

func c04Tags(sub []int) []string {
	if sub == nil {
		return nil
	}
	out := make([]string, len(sub))
	for i, a := range sub {
		out[i] = c04StrVals[a%4].(string)
	}
	return out
}

// c04BuildColl builds the Go value of a collection description.
func c04BuildColl(c *c04Coll) (val any, present bool) {
	switch c.State {
	case "missing":
		return nil, false
	case "nilif":
		return nil, true
	}
	if strings.HasPrefix(c.Kind, "ns:") {
		switch c.Kind {
		case "ns:string":
			return "abc", true
		case "ns:int":
			return 5, true
		case "ns:bool":
			return true, true
		case "ns:float":
			return 2.5, true
		case "ns:map":
			return map[string]any{"k": "a", "l": "b"}, true
		case "ns:emptymap":
			return map[string]any{}, true
		case "ns:mapss":
			return map[string]string{"k": "a"}, true
		case "ns:mapint":
			return map[int]string{1: "a", 2: "b"}, true
		case "ns:struct":
			return Item{Title: "a", Tags: []string{"p"}}, true
		case "ns:*struct":
			return &Item{Title: "a"}, true
		case "ns:*slice":
			return &[]int{1, 2}, true
		case "ns:func":
			return func() {}, true
		case "ns:chan":
			return make(chan int), true
		}
		panic("c04: unknown non-sequence kind " + c.Kind)
	}
	k := c04Kinds[c.Kind]
	if k == nil {
		panic("c04: unknown kind " + c.Kind)
	}
	atoms := c.Atoms
	var v any
	switch k.name {
	case "[]map":
		out := make([]map[string]any, len(atoms))
		for i, a := range atoms {
			m := map[string]any{"id": k.vals[a], "n": a}
			if t := c04SubAt(c.Sub, i); t != nil {
				m["tags"] = c04Tags(t)
			}
			out[i] = m
		}
		v = out
	case "[]mapss":
		out := make([]map[string]string, len(atoms))
		for i, a := range atoms {
			out[i] = map[string]string{"id": k.vals[a].(string)}
		}
		v = out
	case "[]Item", "[N]Item":
		out := make([]Item, len(atoms))
		for i, a := range atoms {
			out[i] = Item{Title: k.vals[a].(string), Count: a, Tags: c04Tags(c04SubAt(c.Sub, i))}
		}
		v = out
	case "[]*Item":
		out := make([]*Item, len(atoms))
		for i, a := range atoms {
			out[i] = &Item{Title: k.vals[a].(string), Count: a, Tags: c04Tags(c04SubAt(c.Sub, i))}
		}
		v = out
	case "[][]int", "[N][]int":
		out := make([][]int, len(c.Sub))
		for i, r := range c.Sub {
			out[i] = c04ScalarSlice("[]int", k.vals, r).([]int)
		}
		v = out
	case "[][]string":
		out := make([][]string, len(c.Sub))
		for i, r := range c.Sub {
			out[i] = c04ScalarSlice("[]string", k.vals, r).([]string)
		}
		v = out
	case "[][]any":
		out := make([][]any, len(c.Sub))
		for i, r := range c.Sub {
			out[i] = c04ScalarSlice("[]any", k.vals, r).([]any)
		}
		v = out
	default:
		v = c04ScalarSlice(k.name, k.vals, atoms)
	}
	if c.State == "nilslice" {
		return reflect.Zero(reflect.TypeOf(v)).Interface(), true
	}
	if strings.HasPrefix(k.name, "[N]") {
		v = c04ToArray(v)
	}
	return v, true
}

// c04Len is the number of items the description denotes.
func (c *c04Coll) n() int {
	if c.State != "" {
		return 0
	}
	if k := c04Kinds[c.Kind]; k != nil && k.class == "nested" {
		return len(c.Sub)
	}
	return len(c.Atoms)
}

// ---------------------------------------------------------------- reference scalars

func c04Print(v any) string {
	switch t := v.(type) {
	case nil:
		return ""
	case string:
		return t
	case bool:
		return strconv.FormatBool(t)
	case int:
		return strconv.Itoa(t)
	case float64:
		return strconv.FormatFloat(t, 'g', -1, 64)
	}
	return fmt.Sprint(v)
}

func c04Falsy(v any) bool {
	switch t := v.(type) {
	case nil:
		return true
	case string:
		return t == ""
	case bool:
		return !t
	case int:
		return t == 0
	case float64:
		return t == 0
	}
	return false
}

func c04Num(v any) (float64, bool) {
	switch t := v.(type) {
	case int:
		return float64(t), true
	case float64:
		return t, true
	}
	return 0, false
}

func c04Eq(a, b any) bool {
	if a == nil || b == nil {
		return a == nil && b == nil
	}
	if x, ok := c04Num(a); ok {
		y, ok2 := c04Num(b)
		return ok2 && x == y
	}
	switch t := a.(type) {
	case string:
		u, ok := b.(string)
		return ok && t == u
	case bool:
		u, ok := b.(bool)
		return ok && t == u
	}
	return false
}

// ---------------------------------------------------------------- static plan

type c04Spec struct {
	ID     string
	Name   string
	PK     string // "P" plain (root constants), "I" plain (indexes), "O" opaque, or a kind name
	Role   string // item | index | ambient | enclosing | outer
	Shadow string // fresh | root | rootfield | loopvar | coll (class of the probed name where it is bound by a loop)
	SameAs string
}

type c04Plan struct {
	kind                    *c04Kind
	itemProbe               bool
	srcExpr                 string
	pre, in, end, els, post []c04Spec
	reloop                  bool
}

type c04Prog struct {
	c     c04Case
	plans []c04Plan
}

func c04IsStructRoot(root string) bool { return root == "struct" || root == "ptr" }

func c04CollKey(name string) bool {
	switch name {
	case "c0", "c1", "c2", "box", "C0", "C1", "C2", "Box":
		return true
	}
	return false
}

func (g *c04Prog) binderOf(name string, upto int) (int, string) {
	for e := upto - 1; e >= 0; e-- {
		if g.c.Loops[e].Var == name {
			return e, "var"
		}
		if g.c.Loops[e].Idx == name && name != "" {
			return e, "idx"
		}
	}
	return -1, ""
}

func (g *c04Prog) pkOf(name string, upto int) string {
	e, how := g.binderOf(name, upto)
	switch how {
	case "var":
		if g.plans[e].itemProbe {
			return g.plans[e].kind.name
		}
		return "O"
	case "idx":
		return "I"
	}
	if c04CollKey(name) {
		return "O"
	}
	return "P"
}

// shadowClass classifies what the name of loop d (variable or index) shadows.
func (g *c04Prog) shadowClass(name string, d int) (coarse, fine string) {
	if e, _ := g.binderOf(name, d); e >= 0 {
		return "loopvar", "outer-loop-variable"
	}
	if c04CollKey(name) {
		return "coll", "collection-name"
	}
	st := c04IsStructRoot(g.c.Root)
	switch name {
	case "title", "count":
		if st {
			return "root", "struct-json-tag"
		}
		return "root", "map-key"
	case "Plain":
		if st {
			return "root", "struct-untagged-field"
		}
		return "root", "map-key"
	case "Title", "Count":
		if st {
			return "rootfield", "struct-go-field-name"
		}
	}
	return "fresh", "fresh"
}

func c04Compile(c c04Case) (*c04Prog, error) {
	g := &c04Prog{c: c}
	if len(c.Loops) == 0 || len(c.Loops) > 3 {
		return nil, fmt.Errorf("bad depth %d", len(c.Loops))
	}
	g.plans = make([]c04Plan, len(c.Loops))
	for d, L := range c.Loops {
		pl := &g.plans[d]
		if L.Var == "" || L.Var == L.Idx {
			return nil, fmt.Errorf("bad names at depth %d", d)
		}
		switch L.Src {
		case "root", "rootgo", "box":
			if L.Coll == nil {
				return nil, fmt.Errorf("loop %d without collection", d)
			}
			pl.kind = c04Kinds[L.Coll.Kind]
			if pl.kind == nil {
				return nil, fmt.Errorf("unknown kind %q", L.Coll.Kind)
			}
			switch L.Src {
			case "root":
				pl.srcExpr = fmt.Sprintf("c%d", d)
			case "rootgo":
				// Template.Render hands the engine a map built from the struct (json tag keys),
				// so Go field names only exist for the string and Vue.Render entries
				if c04IsStructRoot(c.Root) && c.Entry != "file" {
					pl.srcExpr = fmt.Sprintf("C%d", d)
				} else {
					pl.srcExpr = fmt.Sprintf("c%d", d)
				}
			case "box":
				pl.srcExpr = fmt.Sprintf("box.c%d", d)
			}
			pl.itemProbe = true
			if pl.kind.class == "nested" {
				for _, r := range L.Coll.Sub {
					if len(r) == 0 {
						pl.itemProbe = false
					}
				}
			}
		case "item":
			if d == 0 || g.plans[d-1].kind.class != "nested" {
				return nil, fmt.Errorf("item source needs a nested outer loop")
			}
			pl.kind = c04Kinds[g.plans[d-1].kind.elem]
			pl.srcExpr = c.Loops[d-1].Var
			pl.itemProbe = true
		case "field":
			if d == 0 || g.plans[d-1].kind.tags == "" {
				return nil, fmt.Errorf("field source needs an outer loop over items with tags")
			}
			pl.kind = c04Kinds["[]string"]
			pl.srcExpr = c.Loops[d-1].Var + g.plans[d-1].kind.tags
			pl.itemProbe = true
		default:
			return nil, fmt.Errorf("unknown source %q", L.Src)
		}
		// names bound here must not hide the collection keys used by deeper loops
		for _, n := range []string{L.Var, L.Idx} {
			if n == "box" || strings.HasPrefix(n, "C") && c04CollKey(n) || n == "Box" {
				return nil, fmt.Errorf("name %q not allowed", n)
			}
			if len(n) == 2 && n[0] == 'c' && n[1] >= '0' && n[1] <= '2' && int(n[1]-'0') > d {
				return nil, fmt.Errorf("name %q hides a deeper collection", n)
			}
		}
	}
	for d, L := range c.Loops {
		pl := &g.plans[d]
		vc, _ := g.shadowClass(L.Var, d)
		ic := "fresh"
		if L.Idx != "" {
			ic, _ = g.shadowClass(L.Idx, d)
		}
		id := func(ph, what string) string { return fmt.Sprintf("%s%d.%s", ph, d, what) }
		// inside an instance
		if pl.itemProbe {
			pl.in = append(pl.in, c04Spec{ID: id("in", "v"), Name: L.Var, PK: pl.kind.name, Role: "item", Shadow: vc})
		}
		if L.Idx != "" {
			pl.in = append(pl.in, c04Spec{ID: id("in", "i"), Name: L.Idx, PK: "I", Role: "index", Shadow: ic})
		}
		for _, amb := range []string{"title", "count", "Plain"} {
			if e, _ := g.binderOf(amb, d+1); e < 0 {
				pl.in = append(pl.in, c04Spec{ID: id("in", "amb"), Name: amb, PK: "P", Role: "ambient", Shadow: "fresh"})
				break
			}
		}
		for e := 0; e < d; e++ {
			E := c.Loops[e]
			if be, how := g.binderOf(E.Var, d+1); be == e && how == "var" && g.plans[e].itemProbe {
				sc, _ := g.shadowClass(E.Var, e)
				pl.in = append(pl.in, c04Spec{ID: id("in", fmt.Sprintf("o%dv", e)), Name: E.Var, PK: g.plans[e].kind.name, Role: "enclosing", Shadow: sc})
			}
			if E.Idx != "" {
				if be, how := g.binderOf(E.Idx, d+1); be == e && how == "idx" {
					sc, _ := g.shadowClass(E.Idx, e)
					pl.in = append(pl.in, c04Spec{ID: id("in", fmt.Sprintf("o%di", e)), Name: E.Idx, PK: "I", Role: "enclosing", Shadow: sc})
				}
			}
		}
		if d+1 < len(c.Loops) {
			if pl.itemProbe {
				pl.end = append(pl.end, c04Spec{ID: id("end", "v"), Name: L.Var, PK: pl.kind.name, Role: "item", Shadow: vc})
			}
			if L.Idx != "" {
				pl.end = append(pl.end, c04Spec{ID: id("end", "i"), Name: L.Idx, PK: "I", Role: "index", Shadow: ic})
			}
		}
		// around the loop
		pl.pre = append(pl.pre, c04Spec{ID: id("pre", "v"), Name: L.Var, PK: g.pkOf(L.Var, d), Role: "outer", Shadow: vc})
		pl.post = append(pl.post, c04Spec{ID: id("post", "v"), Name: L.Var, PK: g.pkOf(L.Var, d), Role: "outer", Shadow: vc, SameAs: id("pre", "v")})
		pl.els = append(pl.els, c04Spec{ID: id("els", "v"), Name: L.Var, PK: g.pkOf(L.Var, d), Role: "outer", Shadow: vc})
		if L.Idx != "" {
			pl.pre = append(pl.pre, c04Spec{ID: id("pre", "i"), Name: L.Idx, PK: g.pkOf(L.Idx, d), Role: "outer", Shadow: ic})
			pl.post = append(pl.post, c04Spec{ID: id("post", "i"), Name: L.Idx, PK: g.pkOf(L.Idx, d), Role: "outer", Shadow: ic, SameAs: id("pre", "i")})
			pl.els = append(pl.els, c04Spec{ID: id("els", "i"), Name: L.Idx, PK: g.pkOf(L.Idx, d), Role: "outer", Shadow: ic})
		}
		if d == 0 && (vc == "coll" || ic == "coll") {
			pl.reloop = true
		}
		// normalise the v-if mode
		if L.If == "first" && L.Idx == "" {
			return nil, fmt.Errorf("if=first needs an index variable")
		}
		if L.If == "skip" && !pl.itemProbe {
			return nil, fmt.Errorf("if=skip needs an observable item")
		}
		if L.IfAtom < 0 || L.IfAtom > 3 {
			return nil, fmt.Errorf("bad ifatom")
		}
	}
	return g, nil
}

// ---------------------------------------------------------------- template

func c04Access(name, pk string) (path, expr string, lits []string) {
	switch pk {
	case "P", "O":
		return name, name, c04PLits
	case "I":
		return name, name, c04ILits
	}
	k := c04Kinds[pk]
	return name + k.acc, name + k.eacc, k.lits
}

func c04ProbeTpl(s c04Spec) string {
	a, e, lits := c04Access(s.Name, s.PK)
	// one expression that names the first literal the value equals: k0, k1, ... or none
	sel, closing := "", ""
	for j, l := range lits {
		sel += fmt.Sprintf("%s == %s ? 'k%d' : (", e, l, j)
		closing += ")"
	}
	sel += "'none'" + closing
	return fmt.Sprintf(`<q data-m="p" data-k="%s" :data-a="%s" data-s="{{ %s }}"><s>{{ %s }}</s><e>{{ %s }}</e><b v-if="%s == %s" data-m="c"></b></q>`,
		s.ID, a, a, a, sel, e, lits[0])
}

func c04ProbesTpl(ss []c04Spec) string {
	var b strings.Builder
	for _, s := range ss {
		b.WriteString(c04ProbeTpl(s))
	}
	return b.String()
}

func (g *c04Prog) ifExpr(d int) string {
	L := g.c.Loops[d]
	k := g.plans[d].kind
	switch L.If {
	case "skip":
		return fmt.Sprintf("%s%s != %s", L.Var, k.eacc, k.lits[L.IfAtom])
	case "first":
		return L.Idx + " == 0"
	case "never":
		if L.Idx != "" {
			return L.Idx + " < 0"
		}
		return "nope"
	}
	return ""
}

func (g *c04Prog) block(d int) string {
	L := g.c.Loops[d]
	pl := g.plans[d]
	var b strings.Builder
	b.WriteString(c04ProbesTpl(pl.pre))
	forExpr := L.Var + " in " + pl.srcExpr
	if L.Idx != "" {
		forExpr = "(" + L.Idx + ", " + L.Var + ") in " + pl.srcExpr
	}
	dir := fmt.Sprintf(`v-for="%s"`, forExpr)
	if ie := g.ifExpr(d); ie != "" {
		dir += fmt.Sprintf(` v-if="%s"`, ie)
	}
	a, e, lits := c04Access(L.Var, pl.kind.name)
	bind := ""
	if L.Shape == "bind" {
		if pl.itemProbe {
			bind += fmt.Sprintf(` :data-a="%s" data-s="{{ %s }}" :data-x="%s == %s"`, a, a, e, lits[0])
		}
		if L.Idx != "" {
			bind += fmt.Sprintf(` :data-i="%s" data-j="{{ %s }}"`, L.Idx, L.Idx)
		}
	}
	body := c04ProbesTpl(pl.in)
	if d+1 < len(g.c.Loops) {
		body += g.block(d+1) + c04ProbesTpl(pl.end)
	}
	if L.Shape == "tmpl" {
		leaf := ""
		if pl.itemProbe {
			leaf = fmt.Sprintf(` data-s="{{ %s }}"`, a)
		}
		fmt.Fprintf(&b, `<template %s><div data-m="L%d">%s</div><i data-m="T%d"%s></i></template>`, dir, d, body, d, leaf)
	} else {
		fmt.Fprintf(&b, `<div %s data-m="L%d"%s>%s</div>`, dir, d, bind, body)
	}
	if L.Else != "" {
		switch L.Else {
		case "ws":
			b.WriteString("\n   \n")
		case "comment":
			b.WriteString("<!-- between -->")
		case "elem":
			fmt.Fprintf(&b, `<i data-m="X%d"></i>`, d)
		}
		fmt.Fprintf(&b, `<div v-else data-m="E%d">%s</div>`, d, c04ProbesTpl(pl.els))
	}
	b.WriteString(c04ProbesTpl(pl.post))
	if pl.reloop {
		rl := ""
		if pl.itemProbe {
			rl = c04ProbeTpl(c04Spec{ID: "rl.v", Name: "w", PK: pl.kind.name})
		}
		fmt.Fprintf(&b, `<div v-for="w in %s" data-m="RL">%s</div>`, pl.srcExpr, rl)
	}
	return b.String()
}

func (g *c04Prog) template() string {
	if g.c.Top {
		return g.block(0)
	}
	return `<section data-m="R">` + g.block(0) + `</section>`
}

func (g *c04Prog) data() any {
	cs := [3]any{}
	has := [3]bool{}
	box := map[string]any{}
	for d, L := range g.c.Loops {
		if L.Coll == nil {
			continue
		}
		v, ok := c04BuildColl(L.Coll)
		if !ok {
			continue
		}
		if L.Src == "box" {
			box[fmt.Sprintf("c%d", d)] = v
		} else {
			cs[d], has[d] = v, true
		}
	}
	switch g.c.Root {
	case "struct", "ptr":
		r := c04Root{Title: "ROOT", Count: 77, Plain: "PL", C0: cs[0], C1: cs[1], C2: cs[2], Box: box}
		if g.c.Root == "ptr" {
			return &r
		}
		return r
	}
	m := map[string]any{"title": "ROOT", "count": 77, "Plain": "PL", "box": box}
	for d := range cs {
		if has[d] {
			m[fmt.Sprintf("c%d", d)] = cs[d]
		}
	}
	return m
}

// ---------------------------------------------------------------- reference interpreter

type c04MV struct {
	Def           bool
	Opaque        bool // value whose observations are not modelled (collections)
	ExprUndecided bool // expression environment not modelled (Go field name of a struct root)
	Kind          string
	Val           any
	Sub           []int
	SubNil        bool
}

type c04PExp struct {
	Undecided     bool
	ExprUndecided bool
	Text          string
	Falsy         bool
	Vec           string
	VIf           bool
}

type c04Exp struct {
	M     string
	Spec  *c04Spec
	PE    c04PExp
	Depth int
	// looped element with bindings
	Bind  *c04PExp
	BindI int // expected index (-1: none)
	// template leaf
	Leaf *string
	Kids []*c04Exp
}

type c04Env struct {
	root   string
	entry  string
	frames []map[string]c04MV
}

func (e *c04Env) lookup(name string) c04MV {
	for i := len(e.frames) - 1; i >= 0; i-- {
		if v, ok := e.frames[i][name]; ok {
			return v
		}
	}
	st := c04IsStructRoot(e.root)
	switch name {
	case "title":
		return c04MV{Def: true, Val: "ROOT"}
	case "count":
		return c04MV{Def: true, Val: 77}
	case "Plain":
		return c04MV{Def: true, Val: "PL"}
	case "Title", "Count":
		if st && e.entry == "file" {
			// whether a Go field name of the root struct is visible through Template.Render
			// (which passes a map built from the struct) is not part of this property
			return c04MV{Def: true, Opaque: true}
		}
		if st && name == "Title" {
			return c04MV{Def: true, Val: "ROOT", ExprUndecided: true}
		}
		if st {
			return c04MV{Def: true, Val: 77, ExprUndecided: true}
		}
	}
	if c04CollKey(name) {
		return c04MV{Def: true, Opaque: true}
	}
	return c04MV{}
}

func c04PExpOf(s c04Spec, mv c04MV) (c04PExp, error) {
	if s.PK == "O" || mv.Opaque {
		return c04PExp{Undecided: true}, nil
	}
	vals := c04PVals
	switch {
	case s.PK == "P" || s.PK == "I":
		if mv.Def && mv.Kind != "" {
			return c04PExp{}, fmt.Errorf("model: plain probe %s meets an item of kind %q", s.ID, mv.Kind)
		}
		if s.PK == "I" {
			vals = c04IVals
		}
	default:
		if mv.Def && mv.Kind != s.PK {
			return c04PExp{}, fmt.Errorf("model: probe %s of kind %s meets a value of kind %q", s.ID, s.PK, mv.Kind)
		}
		vals = c04Kinds[s.PK].vals
	}
	var v any
	if mv.Def {
		v = mv.Val
	}
	pe := c04PExp{Text: c04Print(v), Falsy: c04Falsy(v), ExprUndecided: mv.ExprUndecided}
	pe.Vec = "none"
	for j, l := range vals {
		if c04Eq(v, l) {
			pe.Vec = fmt.Sprintf("k%d", j)
			break
		}
	}
	pe.VIf = c04Eq(v, vals[0])
	return pe, nil
}

type c04Interp struct {
	g    *c04Prog
	env  *c04Env
	err  error
	info map[string]int // cells gathered while interpreting
}

func (it *c04Interp) probes(ss []c04Spec, depth int) []*c04Exp {
	var out []*c04Exp
	for i := range ss {
		s := ss[i]
		pe, err := c04PExpOf(s, it.env.lookup(s.Name))
		if err != nil && it.err == nil {
			it.err = err
		}
		out = append(out, &c04Exp{M: "p", Spec: &s, PE: pe, Depth: depth})
	}
	return out
}

// items resolves the collection of loop d in the current environment.
func (it *c04Interp) items(d int) (items []c04MV, why string) {
	L := it.g.c.Loops[d]
	k := it.g.plans[d].kind
	mk := func(atoms []int, sub [][]int, n int) []c04MV {
		out := make([]c04MV, n)
		for p := 0; p < n; p++ {
			mv := c04MV{Def: true, Kind: k.name}
			if k.class == "nested" {
				row := c04SubAt(sub, p)
				mv.Sub = row
				if len(row) > 0 {
					mv.Val = k.vals[row[0]]
				}
			} else {
				mv.Val = k.vals[atoms[p]]
				if k.tags != "" {
					mv.Sub = c04SubAt(sub, p)
					mv.SubNil = mv.Sub == nil
				}
			}
			out[p] = mv
		}
		return out
	}
	switch L.Src {
	case "root", "rootgo", "box":
		c := L.Coll
		if c.State != "" {
			return nil, c.State
		}
		n := c.n()
		if n == 0 {
			return nil, "empty"
		}
		return mk(c.Atoms, c.Sub, n), "items"
	case "item", "field":
		outer := it.env.lookup(it.g.c.Loops[d-1].Var)
		if !outer.Def || outer.Kind != it.g.plans[d-1].kind.name {
			if it.err == nil {
				it.err = fmt.Errorf("model: derived loop %d does not see the outer item", d)
			}
			return nil, "missing"
		}
		if L.Src == "field" && outer.SubNil {
			return nil, "nil"
		}
		if len(outer.Sub) == 0 {
			return nil, "empty"
		}
		atoms := make([]int, len(outer.Sub))
		for i, a := range outer.Sub {
			atoms[i] = a % 4
		}
		return mk(atoms, nil, len(atoms)), "items"
	}
	return nil, "missing"
}

func (it *c04Interp) pass(d int, mv c04MV, p int) bool {
	L := it.g.c.Loops[d]
	switch L.If {
	case "skip":
		return !c04Eq(mv.Val, it.g.plans[d].kind.vals[L.IfAtom])
	case "first":
		return p == 0
	case "never":
		return false
	}
	return true
}

func (it *c04Interp) cell(name string) {
	it.info[name]++
}

func (it *c04Interp) block(d int) []*c04Exp {
	L := it.g.c.Loops[d]
	pl := it.g.plans[d]
	var out []*c04Exp
	out = append(out, it.probes(pl.pre, d)...)
	items, why := it.items(d)
	produced := 0
	for p, mv := range items {
		if !it.pass(d, mv, p) {
			continue
		}
		produced++
		fr := map[string]c04MV{L.Var: mv}
		if L.Idx != "" {
			fr[L.Idx] = c04MV{Def: true, Val: p}
		}
		it.env.frames = append(it.env.frames, fr)
		n := &c04Exp{M: fmt.Sprintf("L%d", d), Depth: d, BindI: -1}
		n.Kids = append(n.Kids, it.probes(pl.in, d)...)
		if d+1 < len(it.g.c.Loops) {
			n.Kids = append(n.Kids, it.block(d+1)...)
			n.Kids = append(n.Kids, it.probes(pl.end, d)...)
		}
		if L.Shape == "bind" {
			if pl.itemProbe {
				pe, _ := c04PExpOf(c04Spec{ID: "bind", Name: L.Var, PK: pl.kind.name}, mv)
				n.Bind = &pe
			}
			if L.Idx != "" {
				n.BindI = p
			}
		}
		out = append(out, n)
		if L.Shape == "tmpl" {
			leaf := &c04Exp{M: fmt.Sprintf("T%d", d), Depth: d, BindI: -1}
			if pl.itemProbe {
				s := c04Print(mv.Val)
				leaf.Leaf = &s
			}
			out = append(out, leaf)
		}
		it.env.frames = it.env.frames[:len(it.env.frames)-1]
	}
	emptyWhy := why
	if why == "items" && produced == 0 {
		emptyWhy = "filtered"
	}
	if L.Else != "" {
		if L.Else == "elem" {
			out = append(out, &c04Exp{M: fmt.Sprintf("X%d", d), Depth: d, BindI: -1})
			it.cell("not-judged/else-after-other-element")
		} else if produced == 0 {
			e := &c04Exp{M: fmt.Sprintf("E%d", d), Depth: d, BindI: -1}
			e.Kids = it.probes(pl.els, d)
			out = append(out, e)
			it.cell("else/" + L.Else + "/expected-rendered/" + emptyWhy)
		} else {
			it.cell("else/" + L.Else + "/expected-suppressed")
		}
	}
	ic := produced
	if ic > 3 {
		ic = 3
	}
	it.cell(fmt.Sprintf("instances/depth%d/%d", d, ic))
	if produced == 0 {
		it.cell(fmt.Sprintf("empty/depth%d/%s", d, emptyWhy))
	}
	out = append(out, it.probes(pl.post, d)...)
	if pl.reloop {
		for _, mv := range items {
			n := &c04Exp{M: "RL", Depth: d, BindI: -1}
			if pl.itemProbe {
				it.env.frames = append(it.env.frames, map[string]c04MV{"w": mv})
				n.Kids = it.probes([]c04Spec{{ID: "rl.v", Name: "w", PK: pl.kind.name, Role: "item", Shadow: "fresh"}}, d)
				it.env.frames = it.env.frames[:len(it.env.frames)-1]
			}
			out = append(out, n)
		}
	}
	return out
}

// ---------------------------------------------------------------- observation

type c04Got struct {
	M    string
	K    string
	N    *oracle.N
	Kids []*c04Got
}

func c04Extract(n *oracle.N) []*c04Got {
	var out []*c04Got
	for _, k := range n.Kids {
		if k.Kind != "el" {
			continue
		}
		m, ok := k.Attr("data-m")
		if !ok {
			out = append(out, c04Extract(k)...)
			continue
		}
		g := &c04Got{M: m, N: k}
		if m == "p" {
			g.K, _ = k.Attr("data-k")
		} else {
			g.Kids = c04Extract(k)
		}
		out = append(out, g)
	}
	return out
}

type c04PObs struct {
	Text, SAttr, BAttr, Vec string
	BHas, VIf               bool
}

func c04ReadProbe(n *oracle.N) c04PObs {
	var o c04PObs
	o.SAttr, _ = n.Attr("data-s")
	o.BAttr, o.BHas = n.Attr("data-a")
	for _, k := range n.Kids {
		if k.Kind != "el" {
			continue
		}
		switch k.Name {
		case "s":
			o.Text = k.InnerText()
		case "e":
			o.Vec = strings.ReplaceAll(k.InnerText(), " ", "")
		case "b":
			if m, _ := k.Attr("data-m"); m == "c" {
				o.VIf = true
			}
		}
	}
	return o
}

func (o c04PObs) String() string {
	b := "(absent)"
	if o.BHas {
		b = strconv.Quote(o.BAttr)
	}
	return fmt.Sprintf("{text=%q static-attr=%q bound-attr=%s expr=[%s] v-if=%v}", o.Text, o.SAttr, b, o.Vec, o.VIf)
}

func (e c04PExp) String() string {
	if e.Undecided {
		return "{not modelled}"
	}
	ex := "[" + e.Vec + "] v-if=" + strconv.FormatBool(e.VIf)
	if e.ExprUndecided {
		ex = "(expression positions not modelled)"
	}
	b := strconv.Quote(e.Text)
	if e.Falsy {
		b += " or absent"
	}
	return fmt.Sprintf("{text=%q static-attr=%q bound-attr=%s expr=%s}", e.Text, e.Text, b, ex)
}

// c04DiffProbe returns the read positions at which the observation differs from the expectation.
func c04DiffProbe(e c04PExp, o c04PObs) []string {
	if e.Undecided {
		return nil
	}
	var bad []string
	if o.Text != e.Text {
		bad = append(bad, "text")
	}
	if o.SAttr != e.Text {
		bad = append(bad, "sattr")
	}
	if o.BHas {
		if o.BAttr != e.Text {
			bad = append(bad, "battr")
		}
	} else if !e.Falsy {
		bad = append(bad, "battr")
	}
	if !e.ExprUndecided {
		if o.Vec != e.Vec {
			bad = append(bad, "expr")
		}
		if o.VIf != e.VIf {
			bad = append(bad, "vif")
		}
	}
	return bad
}

func c04DiffObs(a, b c04PObs) []string {
	var bad []string
	if a.Text != b.Text {
		bad = append(bad, "text")
	}
	if a.SAttr != b.SAttr {
		bad = append(bad, "sattr")
	}
	if a.BHas != b.BHas || a.BAttr != b.BAttr {
		bad = append(bad, "battr")
	}
	if a.Vec != b.Vec {
		bad = append(bad, "expr")
	}
	if a.VIf != b.VIf {
		bad = append(bad, "vif")
	}
	return bad
}

func c04PosClass(set map[string]bool) string {
	path := set["text"] || set["sattr"] || set["battr"]
	ex := set["expr"] || set["vif"]
	switch {
	case path && ex:
		return "all-positions"
	case path:
		return "path-positions"
	}
	return "expression-positions"
}

// ---------------------------------------------------------------- comparison

type c04Finding struct {
	pos    map[string]bool
	detail string
}

type c04Cmp struct {
	g        *c04Prog
	findings map[string]*c04Finding // signature prefix -> finding (read positions are appended when reported)
	flat     map[string]string      // complete signatures
	order    []string
	checked  map[string]int
}

func (k *c04Cmp) addProbe(prefix, shadow string, pos []string, detail string) {
	key := prefix + "\x00" + shadow
	f := k.findings[key]
	if f == nil {
		f = &c04Finding{pos: map[string]bool{}, detail: detail}
		k.findings[key] = f
		k.order = append(k.order, key)
	}
	for _, p := range pos {
		f.pos[p] = true
	}
}

func (k *c04Cmp) addFlat(sig, detail string) {
	if _, ok := k.flat[sig]; !ok {
		k.flat[sig] = detail
		k.order = append(k.order, "\x01"+sig)
	}
}

func (k *c04Cmp) collClass(d int) string {
	L := k.g.c.Loops[d]
	switch L.Src {
	case "item":
		return "derived-from-outer-item"
	case "field":
		return "derived-from-outer-field"
	}
	if L.Coll.State != "" {
		return L.Coll.State
	}
	return k.g.plans[d].kind.class
}

func c04Markers(es []*c04Exp) []string {
	var out []string
	for _, e := range es {
		if e.M == "p" {
			out = append(out, "p:"+e.Spec.ID)
		} else {
			out = append(out, e.M)
		}
	}
	return out
}

func c04GotMarkers(gs []*c04Got) []string {
	var out []string
	for _, g := range gs {
		if g.M == "p" {
			out = append(out, "p:"+g.K)
		} else {
			out = append(out, g.M)
		}
	}
	return out
}

func c04CountOf(ms []string, m string) int {
	n := 0
	for _, x := range ms {
		if x == m {
			n++
		}
	}
	return n
}

func c04Phase(id string) string {
	for i, ch := range id {
		if ch >= '0' && ch <= '9' || ch == '.' {
			return id[:i]
		}
	}
	return id
}

// sibs compares one sibling list: the block of loop d (with the probes around it).
func (k *c04Cmp) sibs(exp []*c04Exp, got []*c04Got, d int, where string) {
	L := k.g.c.Loops[d]
	if L.Else == "elem" {
		// a v-else that does not immediately follow the loop: the statement is silent
		em := fmt.Sprintf("E%d", d)
		var g2 []*c04Got
		for _, g := range got {
			if g.M != em {
				g2 = append(g2, g)
			}
		}
		got = g2
	}
	wm, gm := c04Markers(exp), c04GotMarkers(got)
	if strings.Join(wm, " ") != strings.Join(gm, " ") {
		lm, em, tm := fmt.Sprintf("L%d", d), fmt.Sprintf("E%d", d), fmt.Sprintf("T%d", d)
		wl, gl := c04CountOf(wm, lm), c04CountOf(gm, lm)
		we, ge := c04CountOf(wm, em), c04CountOf(gm, em)
		depth := "outer"
		if d > 0 {
			depth = "inner"
		}
		shape := "element"
		if L.Shape == "tmpl" {
			shape = "template"
		}
		detail := fmt.Sprintf("%s: marker sequence of the children\n  expected %v\n  observed %v", where, wm, gm)
		// the feature most likely to matter: a v-if on the looped element decides the count when present
		feat := k.collClass(d) + "/" + shape
		if L.If != "" {
			feat = "v-if-on-looped-element:" + L.If
		}
		switch {
		case gl < wl:
			k.addFlat(fmt.Sprintf("seq/missing-instances/%s/%s", depth, feat), detail)
		case gl > wl:
			k.addFlat(fmt.Sprintf("seq/extra-instances/%s/%s", depth, feat), detail)
		case ge > we && we == 0:
			k.addFlat(fmt.Sprintf("else/rendered-although-loop-produced-instances/%s/%s", L.Else, depth), detail)
		case ge < we:
			k.addFlat(fmt.Sprintf("else/not-rendered-although-loop-produced-nothing/%s/%s/%s", L.Else, depth, k.collClass(d)), detail)
		case ge > we:
			k.addFlat(fmt.Sprintf("else/duplicated/%s/%s", L.Else, depth), detail)
		case c04CountOf(wm, tm) != c04CountOf(gm, tm):
			k.addFlat(fmt.Sprintf("seq/template-children/%s/%s", depth, k.collClass(d)), detail)
		case c04CountOf(wm, "RL") != c04CountOf(gm, "RL"):
			k.addFlat("seq/collection-changed-after-loop-shadowed-its-name", detail)
		case c04CountOf(wm, fmt.Sprintf("X%d", d)) != c04CountOf(gm, fmt.Sprintf("X%d", d)):
			k.addFlat(fmt.Sprintf("else/element-between-loop-and-v-else-lost/%s", depth), detail)
		case len(wm) != len(gm):
			k.addFlat(fmt.Sprintf("seq/sibling-lost-or-duplicated/%s", depth), detail)
		default:
			k.addFlat(fmt.Sprintf("seq/order/%s/%s", depth, shape), detail)
		}
		return
	}
	obs := map[string]c04PObs{}
	for i, e := range exp {
		g := got[i]
		switch {
		case e.M == "p":
			o := c04ReadProbe(g.N)
			obs[e.Spec.ID] = o
			k.probe(e, o, obs, where)
		default:
			k.node(e, g, where)
		}
	}
}

func (k *c04Cmp) probe(e *c04Exp, o c04PObs, sib map[string]c04PObs, where string) {
	s := e.Spec
	ph := c04Phase(s.ID)
	k.checked[ph+"/"+s.Role]++
	a, ex, _ := c04Access(s.Name, s.PK)
	desc := func(kind string, want string) string {
		return fmt.Sprintf("%s: probe %s reads %q (expression form %q), role %s, the name is %s at its loop\n  %s\n  observed %s", where, s.ID, a, ex, s.Role, s.Shadow, want, o)
	}
	bad := c04DiffProbe(e.PE, o)
	switch ph {
	case "pre":
		// the value of a name before the loop is the reference for "restored"; it is not judged itself
		if len(bad) > 0 {
			k.checked["not-judged/pre-loop-value-differs-from-model"]++
		}
		return
	case "post", "els":
		fam := "restore/after-loop"
		if ph == "els" {
			fam = "restore/in-else-branch"
		}
		if len(bad) > 0 {
			k.addProbe(fam, s.Shadow, bad, desc("", "expected "+e.PE.String()))
		}
		if s.SameAs != "" {
			if pre, ok := sib[s.SameAs]; ok {
				if df := c04DiffObs(pre, o); len(df) > 0 {
					k.addProbe(fam, s.Shadow, df, desc("", "expected the same as before the loop "+pre.String()))
				}
				k.checked["restore-compared-with-pre/"+s.Shadow]++
			}
		}
		return
	}
	if len(bad) > 0 {
		k.addProbe("bind/"+ph+"/"+s.Role, s.Shadow, bad, desc("", "expected "+e.PE.String()))
	}
}

func (k *c04Cmp) node(e *c04Exp, g *c04Got, where string) {
	d := e.Depth
	L := k.g.c.Loops[d]
	here := where + " > " + e.M
	if e.Bind != nil {
		var bad []string
		sv, _ := g.N.Attr("data-s")
		if sv != e.Bind.Text {
			bad = append(bad, "sattr")
		}
		if bv, has := g.N.Attr("data-a"); has {
			if bv != e.Bind.Text {
				bad = append(bad, "battr")
			}
		} else if !e.Bind.Falsy {
			bad = append(bad, "battr")
		}
		xv, xhas := g.N.Attr("data-x")
		if e.Bind.VIf && xv != "true" || !e.Bind.VIf && xhas && xv != "false" {
			bad = append(bad, "expr")
		}
		k.checked["bind/looped-element-attributes"]++
		if len(bad) > 0 {
			sc, _ := k.g.shadowClass(L.Var, d)
			k.addProbe("bind/looped-element/item", sc, bad, fmt.Sprintf("%s: attributes of the looped element itself\n  expected data-s=%q, data-a=%q (or absent when falsy), data-x present iff item is the first atom (%v)\n  observed %v", here, e.Bind.Text, e.Bind.Text, e.Bind.VIf, g.N.Attrs))
		}
	}
	if e.BindI >= 0 {
		var bad []string
		want := strconv.Itoa(e.BindI)
		if jv, _ := g.N.Attr("data-j"); jv != want {
			bad = append(bad, "sattr")
		}
		if iv, has := g.N.Attr("data-i"); has && iv != want || !has && e.BindI != 0 {
			bad = append(bad, "battr")
		}
		if len(bad) > 0 {
			sc, _ := k.g.shadowClass(L.Idx, d)
			k.addProbe("bind/looped-element/index", sc, bad, fmt.Sprintf("%s: index attributes of the looped element\n  expected data-j=%q data-i=%q\n  observed %v", here, want, want, g.N.Attrs))
		}
	}
	if e.Leaf != nil {
		k.checked["bind/template-second-child"]++
		if sv, _ := g.N.Attr("data-s"); sv != *e.Leaf {
			sc, _ := k.g.shadowClass(L.Var, d)
			k.addProbe("bind/template-second-child/item", sc, []string{"sattr"}, fmt.Sprintf("%s: second child of the looped <template>\n  expected data-s=%q\n  observed %v", here, *e.Leaf, g.N.Attrs))
		}
	}
	if len(e.Kids) == 0 && len(g.Kids) == 0 {
		return
	}
	switch {
	case strings.HasPrefix(e.M, "L") && d+1 < len(k.g.c.Loops):
		// children: in-probes, block of loop d+1, end-probes
		k.sibs(e.Kids, g.Kids, d+1, here)
	default:
		k.leafKids(e, g, here)
	}
}

// leafKids compares children that are probes only (innermost instance, else branch, reloop).
func (k *c04Cmp) leafKids(e *c04Exp, g *c04Got, where string) {
	wm, gm := c04Markers(e.Kids), c04GotMarkers(g.Kids)
	if strings.Join(wm, " ") != strings.Join(gm, " ") {
		k.addFlat("seq/probe-children-differ", fmt.Sprintf("%s: children markers expected %v observed %v", where, wm, gm))
		return
	}
	obs := map[string]c04PObs{}
	for i, ek := range e.Kids {
		o := c04ReadProbe(g.Kids[i].N)
		obs[ek.Spec.ID] = o
		k.probe(ek, o, obs, where)
	}
}

// ---------------------------------------------------------------- generation

type c04 struct{}

func init() {
	core.Register(&c04{}, core.Meta{
		Exhaustive: func(ctx core.Ctx) bool { return false },
		Assumptions: []string{
			"golang.org/x/net/html re-parse of the output is the trusted observer",
			"'the loop produced nothing' is read literally: no instance was rendered (empty, nil, missing collection, or every item removed by a v-if on the looped element)",
			"a v-else separated from the loop by whitespace or a comment counts as immediately following (as in the documentation example); one separated by another element is not judged",
			"a bound attribute whose value is falsy may be omitted (attribute binding rule, not part of this statement); when present it must carry the item",
			"expression-position reads of a name that exists only as Go field name of a struct root are not modelled; they are only required to be the same before and after the loop",
			"maps, strings, numbers and other non-sequences as collection are executed for crashes only",
			"bound attributes on a looped <template> are not generated (their write-through to the parent scope is deliberate)",
		},
		MinNonTrivial: func(ctx core.Ctx) int { return 1000 },
	})
}

func (p *c04) ID() string { return "C04" }
func (p *c04) Rule() string {
	return "part d1 (depth 1): collection variants (22 sequence kinds: slices and arrays of any/string/int widths/uint widths/floats/bool/maps/structs/struct pointers/nested slices, length 0..3, plus missing key, nil interface, typed nil slices) x 27 name pairs (1- and 2-variable form; fresh, shadowing a root map key, a struct json tag, a struct Go field name, an untagged field, the collection's own name) x root data as map/struct/pointer-to-struct, crossed (thorough: fully, path seeded; quick: 3 seeded picks) with v-else placement (none/immediate/whitespace/comment/after another element) x v-if on the looped element (none/skip one value/first only/never) x shape (plain/bindings on the looped element/<template>) x collection path (root key/nested map path/Go field name); part grid2: every (else x if x shape x path x emptiness class x form) combination; part nest: seeded random nests of depth 2 (thorough 2-3) with inner loops over root collections, over the outer item itself (rows of nested slices) or over a field of the outer item, names shadowing outer loop variables/indexes and root names; part nonseq: maps/strings/numbers/... as collection (crash only); part last: the loop is the last child of its parent, follows static text / indentation / an element plus text, and produces nothing (empty, nil, missing collection, every item rejected, empty inner collection of a nest; control: one item) x looped element {b, <template>, li} x 3 entry points: no instance and no unevaluated source in the output; part fnnames: item or index variable named like each of 10 vuego template functions (those that are not also reserved built-ins of the expression language) x {plain, v-if on the looped element + v-else, nested, <template>} x {nothing, an operator expression, a call of that function, another loop} evaluated before the loop x 3 entry points, item and index read in text, static attribute, bound attribute, operator expressions and v-if. Every name (loop variable, index, enclosing loop variables, an unshadowed root name) is read through probes in five positions (text {{ n }}, static attribute with interpolation, bound attribute, an expression naming the literal it equals, v-if) before, inside and after each loop and in the v-else branch; a loop whose variable shadows its own collection name is followed by a second loop over the same collection. non-trivial = a loop nest over a sequence description was rendered and compared; distinct by the case description"
}

type c04Names struct{ v, i string }

var c04D1Names = func() []c04Names {
	var out []c04Names
	for _, v := range []string{"x", "title", "count", "Title", "Plain", "c0"} {
		for _, i := range []string{"", "i", "count", "Title", "title"} {
			if v != i {
				out = append(out, c04Names{v, i})
			}
		}
	}
	return out
}()

type c04Variant struct {
	kind  string
	n     int
	state string
}

var c04D1Variants = func() []c04Variant {
	var out []c04Variant
	for _, k := range c04KindList {
		for n := 0; n <= 3; n++ {
			out = append(out, c04Variant{kind: k.name, n: n})
		}
	}
	out = append(out, c04Variant{kind: "[]any", state: "missing"}, c04Variant{kind: "[]any", state: "nilif"},
		c04Variant{kind: "[]any", state: "nilslice"}, c04Variant{kind: "[]string", state: "nilslice"},
		c04Variant{kind: "[]Item", state: "nilslice"}, c04Variant{kind: "[][]int", state: "nilslice"}, c04Variant{kind: "[]map", state: "nilslice"})
	return out
}()

var (
	c04Roots   = []string{"map", "struct", "ptr"}
	c04Elses   = []string{"", "imm", "ws", "comment", "elem"}
	c04Ifs     = []string{"", "skip", "first", "never"}
	c04Shapes  = []string{"", "bind", "tmpl"}
	c04Srcs    = []string{"root", "box", "rootgo"}
	c04Entries = []string{"str", "str", "file", "vue"}
)

const (
	c04Minor  = 5 * 4 * 3 * 3 // else x if x shape x path
	c04MinorT = 5 * 4 * 3     // enumerated in the thorough d1 part (path is seeded)
)

func (v c04Variant) coll(rot int) *c04Coll {
	c := &c04Coll{Kind: v.kind, State: v.state}
	if v.state != "" {
		return c
	}
	k := c04Kinds[v.kind]
	for p := 0; p < v.n; p++ {
		a := (p + rot) % 4
		switch {
		case k.class == "nested":
			row := make([]int, 0, 3)
			for q := 0; q <= (p+rot)%3; q++ {
				row = append(row, (a+q)%4)
			}
			c.Sub = append(c.Sub, row)
		case k.tags != "":
			c.Atoms = append(c.Atoms, a)
			if (p+rot)%3 == 2 {
				c.Sub = append(c.Sub, nil)
			} else {
				c.Sub = append(c.Sub, []int{(a + 1) % 4})
			}
		default:
			c.Atoms = append(c.Atoms, a)
		}
	}
	return c
}

// c04FixIf makes the requested v-if mode applicable to the loop.
func c04FixIf(L *c04Loop, itemProbe bool) {
	if L.If == "first" && L.Idx == "" {
		L.If = "skip"
	}
	if L.If == "skip" && !itemProbe {
		if L.Idx != "" {
			L.If = "first"
		} else {
			L.If = "never"
		}
	}
}

func c04MinorApply(L *c04Loop, m int) {
	L.Else = c04Elses[m%5]
	m /= 5
	L.If = c04Ifs[m%4]
	m /= 4
	L.Shape = c04Shapes[m%3]
	m /= 3
	L.Src = c04Srcs[m%3]
}

func (p *c04) sizes(ctx core.Ctx) (nD1, nGrid2, nNest, nNon int) {
	major := len(c04D1Variants) * len(c04D1Names) * len(c04Roots)
	nD1 = major * ctx.Pick(3, c04MinorT)
	nGrid2 = c04Minor * 7 * 2
	nNest = ctx.Pick(10000, 150000)
	nNon = len(c04NonSeq) * 2 * 3
	return
}

func (p *c04) Plan(ctx core.Ctx) int {
	a, b, c, d := p.sizes(ctx)
	return a + b + c + d + c04NText() + c04NFn() + c04NLast() + c04NTVar()
}

func (p *c04) Gen(ctx core.Ctx, i int) any {
	if a, b, c, d := p.sizes(ctx); i >= a+b+c+d+c04NText()+c04NFn()+c04NLast() {
		return c04BuildTVar(i - (a + b + c + d) - c04NText() - c04NFn() - c04NLast())
	} else if i >= a+b+c+d+c04NText()+c04NFn() {
		return c04BuildLast(i - (a + b + c + d) - c04NText() - c04NFn())
	} else if i >= a+b+c+d+c04NText() {
		return c04BuildFn(i - (a + b + c + d) - c04NText())
	} else if i >= a+b+c+d {
		return c04BuildText(i - (a + b + c + d))
	}
	nD1, nGrid2, nNest, _ := p.sizes(ctx)
	r := core.NewRNG(ctx.Seed, uint64(i), 0xC04)
	base := c04Case{Entry: core.Pick(r, c04Entries), Top: r.Chance(1, 4)}
	switch {
	case i < nD1:
		per := ctx.Pick(3, c04MinorT)
		m := i % per
		j := i / per
		root := c04Roots[j%3]
		j /= 3
		nm := c04D1Names[j%len(c04D1Names)]
		j /= len(c04D1Names)
		v := c04D1Variants[j]
		if !ctx.Thorough() {
			m = r.Intn(c04Minor)
		} else {
			m += c04MinorT * r.Intn(3)
		}
		L := c04Loop{Var: nm.v, Idx: nm.i, IfAtom: r.Intn(4)}
		c04MinorApply(&L, m)
		L.Coll = v.coll(r.Intn(4))
		c04FixIf(&L, true)
		base.Part, base.Root, base.Loops = "d1", root, []c04Loop{L}
		return base
	case i < nD1+nGrid2:
		j := i - nD1
		m := j % c04Minor
		j /= c04Minor
		form := j % 2
		j /= 2
		cls := j // 0..6: len 0,1,2,3, nilslice, missing, nilif
		kind := core.Pick(r, c04KindList).name
		v := c04Variant{kind: kind}
		switch cls {
		case 0, 1, 2, 3:
			v.n = cls
		case 4:
			v.state = "nilslice"
		case 5:
			v.state = "missing"
		case 6:
			v.state = "nilif"
		}
		nm := core.Pick(r, c04D1Names)
		for (form == 0) != (nm.i == "") {
			nm = core.Pick(r, c04D1Names)
		}
		L := c04Loop{Var: nm.v, Idx: nm.i, IfAtom: r.Intn(4)}
		c04MinorApply(&L, m)
		L.Coll = v.coll(r.Intn(4))
		c04FixIf(&L, true)
		base.Part, base.Root, base.Loops = "grid2", core.Pick(r, c04Roots), []c04Loop{L}
		return base
	case i < nD1+nGrid2+nNest:
		depth := 2
		if ctx.Thorough() && r.Chance(1, 3) {
			depth = 3
		}
		base.Part, base.Root = "nest", core.Pick(r, c04Roots)
		base.Loops = c04GenNest(r, depth)
		return base
	}
	j := i - nD1 - nGrid2 - nNest
	root := c04Roots[j%3]
	j /= 3
	form := j % 2
	j /= 2
	L := c04Loop{Src: "root", Var: "x", Else: "imm", Coll: &c04Coll{Kind: c04NonSeq[j%len(c04NonSeq)]}}
	if form == 1 {
		L.Idx = "i"
	}
	base.Part, base.Root, base.Loops = "nonseq", root, []c04Loop{L}
	return base
}

func c04RandColl(r *core.RNG) *c04Coll {
	k := core.Pick(r, c04KindList)
	c := &c04Coll{Kind: k.name}
	if r.Chance(1, 10) {
		c.State = core.Pick(r, []string{"missing", "nilif", "nilslice"})
		return c
	}
	n := r.Intn(4)
	for p := 0; p < n; p++ {
		switch {
		case k.class == "nested":
			row := []int{}
			for q := r.Intn(4); q > 0; q-- {
				row = append(row, r.Intn(4))
			}
			c.Sub = append(c.Sub, row)
		case k.tags != "":
			c.Atoms = append(c.Atoms, r.Intn(4))
			if r.Chance(1, 4) {
				c.Sub = append(c.Sub, nil)
			} else {
				t := []int{}
				for q := r.Intn(3); q > 0; q-- {
					t = append(t, r.Intn(4))
				}
				c.Sub = append(c.Sub, t)
			}
		default:
			c.Atoms = append(c.Atoms, r.Intn(4))
		}
	}
	return c
}

func c04GenNest(r *core.RNG, depth int) []c04Loop {
	freshV := []string{"x", "y", "z"}
	freshI := []string{"i", "j", "k"}
	var loops []c04Loop
	var kinds []*c04Kind
	for d := 0; d < depth; d++ {
		L := c04Loop{}
		var kind *c04Kind
		itemProbe := true
		if d > 0 {
			pk := kinds[d-1]
			switch {
			case pk.class == "nested" && r.Chance(2, 3):
				L.Src, kind = "item", c04Kinds[pk.elem]
			case pk.tags != "" && r.Chance(2, 3):
				L.Src, kind = "field", c04Kinds["[]string"]
			}
		}
		if L.Src == "" {
			L.Src = core.Pick(r, []string{"root", "root", "box", "rootgo"})
			L.Coll = c04RandColl(r)
			kind = c04Kinds[L.Coll.Kind]
			if kind.class == "nested" {
				for _, row := range L.Coll.Sub {
					if len(row) == 0 {
						itemProbe = false
					}
				}
			}
		}
		kinds = append(kinds, kind)
		// names
		cands := []string{"title", "count", "Title", "Plain", "Count"}
		for e := 0; e <= d; e++ {
			cands = append(cands, fmt.Sprintf("c%d", e))
		}
		for _, o := range loops {
			cands = append(cands, o.Var, o.Var)
			if o.Idx != "" {
				cands = append(cands, o.Idx)
			}
		}
		L.Var = freshV[d]
		if r.Chance(1, 2) {
			L.Var = core.Pick(r, cands)
		}
		if r.Chance(1, 2) {
			L.Idx = freshI[d]
			if r.Chance(2, 5) {
				L.Idx = core.Pick(r, cands)
			}
			if L.Idx == L.Var {
				L.Idx = freshI[d]
			}
		}
		L.Else = core.Pick(r, []string{"", "", "imm", "imm", "ws", "comment", "elem"})
		L.If = core.Pick(r, []string{"", "", "", "skip", "skip", "first", "never"})
		L.IfAtom = r.Intn(4)
		L.Shape = core.Pick(r, []string{"", "", "bind", "tmpl"})
		c04FixIf(&L, itemProbe)
		loops = append(loops, L)
	}
	return loops
}

func (p *c04) Decode(raw json.RawMessage) (any, error) { return core.JSONDecode[c04Case](raw) }

// ---------------------------------------------------------------- execution

func c04Render(c c04Case, tpl string, data any) (string, error) {
	switch c.Entry {
	case "file":
		return renderFile(memFS(map[string]string{"t.vuego": tpl}), "t.vuego", data)
	case "vue":
		return renderVue(memFS(map[string]string{"t.vuego": tpl}), "t.vuego", data)
	}
	return renderStr(tpl, data)
}

func (p *c04) Exec(ctx core.Ctx, cc any) core.Obs {
	c := cc.(c04Case)
	var o core.Obs
	if c.Part == "text" && c.Text != nil {
		c04ExecText(c, &o)
		return o
	}
	if c.Part == "last" && c.Last != nil {
		c04ExecLast(c, &o)
		return o
	}
	if c.Part == "tvar" && c.TVar != nil {
		c04ExecTVar(c, &o)
		return o
	}
	if c.Part == "fnnames" && c.Fn != nil {
		c04ExecFn(c, &o)
		return o
	}
	if c.Part == "nonseq" {
		return p.execNonSeq(c)
	}
	g, err := c04Compile(c)
	if err != nil {
		o.Inconclusive = "case does not compile: " + err.Error()
		return o
	}
	tpl := g.template()
	data := g.data()
	it := &c04Interp{g: g, env: &c04Env{root: c.Root, entry: c.Entry}, info: map[string]int{}}
	exp := it.block(0)
	if it.err != nil {
		o.Inconclusive = it.err.Error()
		return o
	}
	out, rerr := c04Render(c, tpl, data)
	o.Evals++
	o.NT(mustJSON(c))
	if rerr != nil {
		cmp := &c04Cmp{g: g}
		o.Fail(c, fmt.Sprintf("error/%s", cmp.collClass(0)), "render failed: %v\ntemplate: %s\ndata: %s", rerr, tpl, c04DataStr(data))
		return o
	}
	doc := oracle.Parse(out, false)
	got := c04Extract(doc)
	if !c.Top {
		if len(got) != 1 || got[0].M != "R" {
			o.Fail(c, "seq/wrapper-lost", "wrapper element not found exactly once\ntemplate: %s\noutput: %s", tpl, clip(out, 1500))
			return o
		}
		got = got[0].Kids
	}
	cmp := &c04Cmp{g: g, findings: map[string]*c04Finding{}, flat: map[string]string{}, checked: map[string]int{}}
	cmp.sibs(exp, got, 0, "root")
	tail := fmt.Sprintf("\ntemplate: %s\ndata (%s root): %s\noutput: %s", tpl, c.Root, c04DataStr(data), clip(out, 1800))
	for n, key := range cmp.order {
		if n >= 2 {
			// later findings of the same case are usually consequences of the first ones
			o.Count("findings-not-reported-after-the-first-two-of-a-case", 1)
			continue
		}
		if strings.HasPrefix(key, "\x01") {
			sig := key[1:]
			o.Fail(c, sig, "%s%s", cmp.flat[sig], tail)
			continue
		}
		f := cmp.findings[key]
		parts := strings.SplitN(key, "\x00", 2)
		pc, sh := c04PosClass(f.pos), parts[1]
		onlyPath := strings.HasPrefix(parts[0], "bind/looped-element/") || strings.HasPrefix(parts[0], "bind/template-second-child/")
		if (pc == "all-positions" || onlyPath) && sh != "fresh" {
			// every read position agrees on the wrong value: what exactly was shadowed does not matter
			sh = "shadowing"
		}
		o.Fail(c, parts[0]+"/"+pc+"/"+sh, "%s%s", f.detail, tail)
	}
	// coverage
	for name, n := range it.info {
		for ; n > 0; n-- {
			o.Cell(name)
		}
	}
	for name, n := range cmp.checked {
		o.Count("probes/"+name, int64(n))
	}
	o.Cell("part/" + c.Part)
	o.Cell("root/" + c.Root)
	o.Cell("entry/" + c.Entry)
	o.Cell(fmt.Sprintf("depth/%d", len(c.Loops)))
	if c.Top {
		o.Cell("placement/top-level")
	} else {
		o.Cell("placement/wrapped")
	}
	for d, L := range c.Loops {
		pl := g.plans[d]
		if L.Coll != nil {
			if L.Coll.State != "" {
				o.Cell("coll/" + L.Coll.State + "/" + L.Coll.Kind)
			} else {
				o.Cell(fmt.Sprintf("coll/%s/len%d", L.Coll.Kind, L.Coll.n()))
			}
		}
		o.Cell("src/" + L.Src)
		_, fine := g.shadowClass(L.Var, d)
		o.Cell("var-name/" + fine)
		if L.Idx != "" {
			_, fi := g.shadowClass(L.Idx, d)
			o.Cell("form/two-variable/index-name/" + fi)
		} else {
			o.Cell("form/one-variable")
		}
		if L.If != "" {
			o.Cell("v-if-on-looped/" + L.If)
		}
		sh := L.Shape
		if sh == "" {
			sh = "plain"
		}
		o.Cell("shape/" + sh)
		if !pl.itemProbe {
			o.Cell("not-judged/item-value-of-nested-slice-with-empty-row")
		}
		if pl.reloop {
			o.Cell("reloop-after-shadowed-collection-name")
		}
	}
	if len(c.Loops) == 2 && c.Loops[1].Src == "item" && c.Loops[0].Idx != "" && len(o.Viol) == 0 {
		o.Sample = map[string]any{"template": tpl, "data": c04DataStr(data), "output": clip(out, 1200)}
	}
	return o
}

func (p *c04) execNonSeq(c c04Case) core.Obs {
	var o core.Obs
	L := c.Loops[0]
	v, _ := c04BuildColl(L.Coll)
	var data any
	switch c.Root {
	case "struct":
		data = c04Root{Title: "ROOT", C0: v}
	case "ptr":
		data = &c04Root{Title: "ROOT", C0: v}
	default:
		data = map[string]any{"title": "ROOT", "c0": v}
	}
	forExpr := "x in c0"
	body := `<s>{{ x == 'a' }}</s>`
	if L.Idx != "" {
		forExpr = "(i, x) in c0"
		body += `<e>{{ i }}</e>`
	}
	tpl := fmt.Sprintf(`<section data-m="R"><div v-for="%s" data-m="L0" :data-i="i">%s</div><div v-else data-m="E0"></div><q>{{ x == 'a' }}</q></section>`, forExpr, body)
	_, err := c04Render(c, tpl, data)
	o.Evals++
	// only crashes (panics escape to the worker) are judged
	if err != nil {
		o.Cell("not-judged/non-sequence/error-returned/" + L.Coll.Kind)
	} else {
		o.Cell("not-judged/non-sequence/" + L.Coll.Kind)
	}
	o.Cell("part/nonseq")
	return o
}

func c04DataStr(data any) string {
	raw, err := json.Marshal(data)
	if err != nil {
		return fmt.Sprintf("%+v", data)
	}
	return clip(string(raw), 900)
}
