package props

import (
	"bytes"
	"encoding/json"
	"fmt"
	"reflect"
	"sort"
	"strconv"
	"strings"
	"sync"
	"testing/fstest"

	vuego "github.com/titpetric/vuego"

	"verifharness/core"
	"verifharness/oracle"
)

// C08 — every variable is chosen by one fixed precedence of data sources:
// own front-matter > later Fill/Assign > earlier Fill/Assign > data/*.yml > theme.yml,
// the same in every read position and for map / struct data, and templates made
// with New/Load never change what their parent or siblings see.
//
// A case is a small program over the public Template API (constructor, then
// Fill / Assign / New / Load / RenderFile / Vue.Render calls on a tree of
// templates) plus the filesystem it runs on. Exec interprets the program on the
// real engine and on a reference model side by side; after the program (and at
// every explicit "obs" step) every template of the tree is observed through
// Template.Get and through a render of a probe body that reads every key in
// every read position.

// ---------------------------------------------------------------- case format

type c08Key struct {
	N      string `json:"n"`                // the variable name written by the sources and read by the template
	T      string `json:"t"`                // value type: s string, i int, b bool, l list, m nested map
	Field  string `json:"field,omitempty"`  // Go field name when a struct Fill carries the key
	Tag    string `json:"tag,omitempty"`    // json tag of that field ("" = untagged field)
	Omit   bool   `json:"omit,omitempty"`   // the json tag carries ,omitempty (a zero value in the struct is still a value given through Fill)
	NoExpr bool   `json:"noexpr,omitempty"` // no {{ path == c }} probe (a nested read of an undefined key is an evaluation error the statement does not speak about)
}

type c08File struct {
	Name string            `json:"name"`
	V    map[string]string `json:"v"`
}

type c08Tpl struct {
	Name  string            `json:"name"`
	HasFM bool              `json:"has_fm,omitempty"`
	FM    map[string]string `json:"fm,omitempty"`
}

type c08Op struct {
	Op    string            `json:"op"` // fill | assign | new | load | obs | renderfile | vuerender | vuefragment
	T     int               `json:"t"`  // template acted on (0 = the constructed root)
	File  string            `json:"file,omitempty"`
	Key   string            `json:"key,omitempty"`
	Val   string            `json:"val,omitempty"`
	Shape string            `json:"shape,omitempty"` // map | struct | ptr | nil
	V     map[string]string `json:"v,omitempty"`
}

type c08Case struct {
	Part     string            `json:"part"` // matrix | files | histx | hist ("" = skipped index)
	Keys     []c08Key          `json:"keys,omitempty"`
	HasTheme bool              `json:"has_theme,omitempty"`
	Theme    map[string]string `json:"theme,omitempty"`
	Data     []c08File         `json:"data,omitempty"`
	Tpls     []c08Tpl          `json:"tpls,omitempty"`
	Ctor     string            `json:"ctor,omitempty"` // newfs | withfs | new | vue
	Ops      []c08Op           `json:"ops,omitempty"`
	// labels (coverage cells only)
	Entry   string     `json:"entry,omitempty"`
	Shape   string     `json:"shape,omitempty"`
	Kinds   string     `json:"kinds,omitempty"`
	Pattern int        `json:"pattern,omitempty"`
	Shared  *c08Shared `json:"shared,omitempty"` // part shared (c08_shared.go)
}

// ---------------------------------------------------------------- registration

type c08 struct{}

func init() {
	core.Register(&c08{}, core.Meta{
		Exhaustive: func(ctx core.Ctx) bool { return false },
		Assumptions: []string{
			"testing/fstest.MapFS is a correct fs.FS; golang.org/x/net/html re-parse of the output is the trusted observer",
			"a variable name is one exact identifier; a struct passed to Fill defines the field name and the JSON tag of each exported field; all competing sources of a case write the same identifier",
			"a Fill that does not mention a key written earlier (by Fill or Assign, or inherited from the parent) is not judged for that key: both the earlier value and the fall-through to data/*.yml, theme.yml are accepted",
			"a key that a child inherits from its parent's own front-matter (Load/New on a loaded template) is not judged until the child itself is given the key through Fill or Assign: parent front-matter is not one of the sources the statement orders, but from then on the child's own Fill/Assign value (or its own front-matter) must be seen",
			"RenderString on a Load()ed template is not a render of that file: its front-matter keys are accepted with either the front-matter or the Fill/Assign value",
			"Vue.Render / Vue.RenderFragment take no config (NewVue does not read theme.yml, data/): only front-matter > passed data is judged there",
			"several data/*.yml files defining one key: the alphabetically last file wins (docs/data-loading.md); the statement itself only places data/ above theme.yml",
			"layouts (front-matter key 'layout', layouts/base.vuego) are outside the statement and not generated",
			"typed maps (map[string]string, ...) as Fill data are not generated; 'map' means map[string]any",
			"list and nested-map keys get no {{ path == c }} probe (a nested read of an undefined key inside {{ }} is an evaluation error the statement does not speak about); their expression context is observed through v-if",
			"a false boolean in a bound attribute is dropped by the engine and therefore cannot be told from an undefined key in that one position",
		},
		MinNonTrivial: func(ctx core.Ctx) int { return 5000 },
	})
}

func (p *c08) ID() string { return "C08" }
func (p *c08) Rule() string {
	return "matrix part (exhaustive): 2^5 presence patterns of one key over (front-matter, later write, earlier write, data/d.yml, theme.yml) x write kinds (Fill/Assign)^2 x value type (string,int,bool,list,nested map) x data shape (map, struct by tag, struct by field name, pointer by tag, pointer by field name, untagged field) x entry (NewFS.Load.writes.Render, New(WithFS) same, writes.Load.Render, writes.RenderFile, writes.RenderString, Vue.Render, Vue.RenderFragment), with bystander keys defined only by config / front-matter; the probe body of file-based engines begins with an attribute-less include of a partial whose own front-matter defines every key (that file's front-matter stays in that file); every template is observed through Get and through a probe body reading each key as {{k}}, t=\"{{k}}\", v-text=\"k\", :a=\"k\", {{k == c}}, v-if=\"k == c\" (lists as k[0], nested maps as k.tag; c ranges over every value any source gives the key); files part (exhaustive): every subset of 4 data files (+/- root theme.yml) defining one key; histx part (exhaustive): every valid call sequence of length <= 3 (thorough <= 4) over {Fill a, Fill b, Assign a, Assign c, New, Load a, Load b, observe} x template index on a tree of <= 3 templates; hist part (seeded): random filesystems, keys, shapes and call sequences of length 4..6 (thorough ..8) on trees of <= 3 (thorough 4) templates, with struct / pointer / nil Fill data, by-field-name and untagged keys; every program is followed by a sweep observing every template (Get, Render or RenderString, and RenderString on loaded templates) and the root once more; non-trivial = a case in which at least one judged observation had >= 2 sources defining the key or the tree had >= 2 templates; distinct by the whole case"
}

// ---------------------------------------------------------------- plan

var c08Entries = []string{"load-write-render", "withfs-load-write-render", "write-load-render", "write-renderfile", "write-renderstring", "vue-render", "vue-fragment"}
var c08Shapes = []string{"map", "struct-tag", "struct-name", "ptr-tag", "ptr-name", "struct-untagged", "struct-omitempty", "ptr-omitempty", "map-named", "map-string"}
var c08Types = []string{"s", "i", "b", "l", "m", "n"} // n: strings, but the front-matter holds the key with a YAML null ("key: ~")
var c08Kinds = []string{"FF", "FA", "AF", "AA"}       // kind of the earlier write, kind of the later write

const c08NFiles = 32 // 2^4 data-file subsets x root theme present/absent

func (p *c08) nMatrix() int {
	return len(c08Entries) * len(c08Shapes) * len(c08Types) * len(c08Kinds) * 32
}

var c08SeqOnce [2]sync.Once
var c08Seqs [2][][]int

// c08HistSeqs enumerates every valid op sequence of length 1..maxLen over the
// fixed alphabet (8 actions x template index) on a tree of at most 3 templates.
func c08HistSeqs(ctx core.Ctx) [][]int {
	idx, maxLen := 0, 3
	if ctx.Thorough() {
		idx, maxLen = 1, 4
	}
	c08SeqOnce[idx].Do(func() {
		var out [][]int
		var rec func(seq []int, n int)
		rec = func(seq []int, n int) {
			if len(seq) > 0 {
				out = append(out, append([]int{}, seq...))
			}
			if len(seq) == maxLen {
				return
			}
			for t := 0; t < n; t++ {
				for a := 0; a < 8; a++ {
					creates := a == 4 || a == 5 || a == 6
					if creates && n >= 3 {
						continue
					}
					nn := n
					if creates {
						nn++
					}
					rec(append(seq, t*8+a), nn)
				}
			}
		}
		rec(nil, 1)
		c08Seqs[idx] = out
	})
	return c08Seqs[idx]
}

func (p *c08) nRandom(ctx core.Ctx) int { return ctx.Pick(20000, 200000) }

func (p *c08) Plan(ctx core.Ctx) int {
	return c08NShared() + p.nMatrix() + c08NFiles + len(c08HistSeqs(ctx)) + p.nRandom(ctx)
}

func (p *c08) Decode(raw json.RawMessage) (any, error) { return core.JSONDecode[c08Case](raw) }

// ---------------------------------------------------------------- generation

func (p *c08) Gen(ctx core.Ctx, i int) any {
	if i < c08NShared() {
		return c08GenShared(i)
	}
	i -= c08NShared()
	if i < p.nMatrix() {
		return c08GenMatrix(i)
	}
	i -= p.nMatrix()
	if i < c08NFiles {
		return c08GenFiles(i)
	}
	i -= c08NFiles
	seqs := c08HistSeqs(ctx)
	if i < len(seqs) {
		return c08GenHistX(seqs[i])
	}
	i -= len(seqs)
	return c08GenRandom(ctx, i)
}

func c08KeyFor(typ, shape string) c08Key {
	up := "K" + typ
	lo := "k" + typ
	switch shape {
	case "struct-name", "ptr-name":
		return c08Key{N: up, T: typ, Field: up, Tag: lo}
	case "struct-untagged":
		return c08Key{N: "U" + typ, T: typ, Field: "U" + typ}
	case "struct-omitempty", "ptr-omitempty":
		return c08Key{N: lo, T: typ, Field: up, Tag: lo, Omit: true}
	}
	return c08Key{N: lo, T: typ, Field: up, Tag: lo}
}

func c08GenMatrix(i int) c08Case {
	pattern := i % 32
	i /= 32
	kinds := c08Kinds[i%len(c08Kinds)]
	i /= len(c08Kinds)
	typ := c08Types[i%len(c08Types)]
	i /= len(c08Types)
	shape := c08Shapes[i%len(c08Shapes)]
	i /= len(c08Shapes)
	entry := c08Entries[i]

	fm, w2, w1, data, theme := pattern&16 != 0, pattern&8 != 0, pattern&4 != 0, pattern&2 != 0, pattern&1 != 0
	vue := strings.HasPrefix(entry, "vue-")
	// redundant or inapplicable combinations are skipped (empty case)
	if !w1 && kinds[0] != 'F' || !w2 && kinds[1] != 'F' {
		return c08Case{}
	}
	hasFill := w1 && kinds[0] == 'F' || w2 && kinds[1] == 'F'
	if !hasFill && shape != "map" && shape != "struct-name" && shape != "struct-untagged" {
		// without a Fill the shape only decides the identifier (lower-case, field-like, untagged-like)
		return c08Case{}
	}
	if entry == "write-renderstring" && fm {
		return c08Case{}
	}
	if vue && (w2 || data || theme || kinds[0] != 'F') {
		return c08Case{}
	}

	key := c08KeyFor(typ, shape)
	key.NoExpr = typ == "l" || typ == "m"
	vals := []string{"fmv", "wbv", "wav", "dav", "thv"}
	switch typ {
	case "i":
		vals = []string{"101", "202", "303", "404", "505"}
	case "n":
		vals[0] = "~"
	case "b":
		flip := (pattern*7 + int(kinds[1])) % 2
		for k := range vals {
			vals[k] = strconv.FormatBool((k+flip)%2 == 0)
		}
	}
	c := c08Case{Part: "matrix", Entry: entry, Shape: shape, Kinds: kinds, Pattern: pattern, Ctor: "newfs"}
	c.Keys = []c08Key{key}
	tpl := c08Tpl{Name: "p.vuego"}
	if fm {
		tpl.HasFM = true
		tpl.FM = map[string]string{key.N: vals[0]}
	}
	if !vue {
		// bystander keys: defined by exactly one low source each, while the higher sources exist but do not mention them
		c.Keys = append(c.Keys, c08Key{N: "kz", T: "s", Field: "Kz", Tag: "kz"}, c08Key{N: "kd", T: "s", Field: "Kd", Tag: "kd"})
		c.HasTheme = true
		c.Theme = map[string]string{"kz": "thz", "kd": "thd"}
		c.Data = []c08File{{Name: "d.yml", V: map[string]string{"kd": "dad"}}}
		if theme {
			c.Theme[key.N] = vals[4]
		}
		if data {
			c.Data[0].V[key.N] = vals[3]
		}
		if pattern%3 != 0 {
			c.Keys = append(c.Keys, c08Key{N: "kf", T: "s", Field: "Kf", Tag: "kf"})
			tpl.HasFM = true
			if tpl.FM == nil {
				tpl.FM = map[string]string{}
			}
			tpl.FM["kf"] = "fmf"
		}
	}
	c.Tpls = []c08Tpl{tpl}
	if shape == "map-string" && typ != "s" {
		return c08Case{} // a map[string]string holds strings only
	}
	fshape := "map"
	switch {
	case shape == "map-named":
		fshape = "namedmap" // type Vars map[string]any
	case shape == "map-string":
		fshape = "strmap" // map[string]string
	case strings.HasPrefix(shape, "struct"):
		fshape = "struct"
	case strings.HasPrefix(shape, "ptr"):
		fshape = "ptr"
	}
	write := func(t int, kind byte, val string) c08Op {
		if kind == 'A' {
			return c08Op{Op: "assign", T: t, Key: key.N, Val: val}
		}
		return c08Op{Op: "fill", T: t, Shape: fshape, V: map[string]string{key.N: val}}
	}
	writes := func(t int) []c08Op {
		var ops []c08Op
		if w1 {
			ops = append(ops, write(t, kinds[0], vals[2]))
		}
		if w2 {
			ops = append(ops, write(t, kinds[1], vals[1]))
		}
		return ops
	}
	switch entry {
	case "load-write-render", "withfs-load-write-render":
		if entry[0] == 'w' {
			c.Ctor = "withfs"
		}
		c.Ops = append([]c08Op{{Op: "load", T: 0, File: "p.vuego"}}, writes(1)...)
	case "write-load-render":
		c.Ops = append(writes(0), c08Op{Op: "load", T: 0, File: "p.vuego"})
	case "write-renderfile":
		c.Ops = append(writes(0), c08Op{Op: "renderfile", T: 0, File: "p.vuego"})
	case "write-renderstring":
		c.Ops = writes(0)
	case "vue-render", "vue-fragment":
		c.Ctor = "vue"
		op := c08Op{Op: "vuerender", File: "p.vuego", Shape: "nil"}
		if entry == "vue-fragment" {
			op.Op = "vuefragment"
		}
		if w1 {
			op.Shape = fshape
			op.V = map[string]string{key.N: vals[2]}
		}
		c.Ops = []c08Op{op}
	}
	return c
}

func c08GenFiles(i int) c08Case {
	names := []string{"a.yml", "m.yaml", "theme.yml", "z.yml"}
	c := c08Case{Part: "files", Ctor: "newfs", Entry: "files", Shape: "map", Pattern: i}
	c.Keys = []c08Key{{N: "ks", T: "s", Field: "Ks", Tag: "ks"}, {N: "ko", T: "s", Field: "Ko", Tag: "ko"}}
	for k, n := range names {
		f := c08File{Name: n, V: map[string]string{"ko": "o" + string(rune('a'+k))}}
		if i&(1<<k) != 0 {
			f.V["ks"] = "d" + string(rune('a'+k))
		}
		c.Data = append(c.Data, f)
	}
	if i&16 != 0 {
		c.HasTheme = true
		c.Theme = map[string]string{"ks": "thv", "ko": "tho"}
	}
	c.Tpls = []c08Tpl{{Name: "p.vuego"}}
	c.Ops = []c08Op{{Op: "load", T: 0, File: "p.vuego"}}
	return c
}

func c08GenHistX(seq []int) c08Case {
	c := c08Case{Part: "histx", Ctor: "newfs", Entry: "hist", Shape: "map"}
	c.Keys = []c08Key{{N: "ka", T: "s", Field: "Ka", Tag: "ka"}, {N: "kb", T: "s", Field: "Kb", Tag: "kb"}, {N: "kc", T: "s", Field: "Kc", Tag: "kc"}}
	c.HasTheme = true
	c.Theme = map[string]string{"ka": "tha", "kb": "thb", "kc": "thc"}
	c.Data = []c08File{{Name: "d.yml", V: map[string]string{"ka": "daa"}}}
	c.Tpls = []c08Tpl{{Name: "a.vuego", HasFM: true, FM: map[string]string{"ka": "fma"}}, {Name: "b.vuego", HasFM: true, FM: map[string]string{"kb": "fmb"}}}
	for j, code := range seq {
		t, a := code/8, code%8
		tag := func(k string) string { return fmt.Sprintf("o%d%s", j, k) }
		switch a {
		case 0:
			c.Ops = append(c.Ops, c08Op{Op: "fill", T: t, Shape: "map", V: map[string]string{"ka": tag("a")}})
		case 1:
			c.Ops = append(c.Ops, c08Op{Op: "fill", T: t, Shape: "map", V: map[string]string{"kb": tag("b"), "kc": tag("c")}})
		case 2:
			c.Ops = append(c.Ops, c08Op{Op: "assign", T: t, Key: "ka", Val: tag("a")})
		case 3:
			c.Ops = append(c.Ops, c08Op{Op: "assign", T: t, Key: "kc", Val: tag("c")})
		case 4:
			c.Ops = append(c.Ops, c08Op{Op: "new", T: t})
		case 5:
			c.Ops = append(c.Ops, c08Op{Op: "load", T: t, File: "a.vuego"})
		case 6:
			c.Ops = append(c.Ops, c08Op{Op: "load", T: t, File: "b.vuego"})
		case 7:
			c.Ops = append(c.Ops, c08Op{Op: "obs", T: t})
		}
	}
	return c
}

func c08GenRandom(ctx core.Ctx, i int) c08Case {
	r := core.NewRNG(ctx.Seed, uint64(i), 0xC08)
	c := c08Case{Part: "hist", Entry: "hist", Shape: "map"}
	switch x := r.Intn(20); {
	case x < 14:
		c.Ctor = "newfs"
	case x < 17:
		c.Ctor = "withfs"
	default:
		c.Ctor = "new"
	}
	useStruct := r.Chance(2, 5)
	typePool := []string{"s", "s", "s", "i", "i", "b", "l", "m"}
	for k := 0; k < 3; k++ {
		typ := core.Pick(r, typePool)
		key := c08Key{N: fmt.Sprintf("k%d", k), T: typ, Field: fmt.Sprintf("K%d", k), Tag: fmt.Sprintf("k%d", k), NoExpr: typ == "l" || typ == "m"}
		if useStruct {
			switch r.Intn(8) {
			case 0:
				key.N = key.Field // addressed by field name
			case 1:
				key.N, key.Field, key.Tag = fmt.Sprintf("U%d", k), fmt.Sprintf("U%d", k), "" // untagged field
			case 2, 3:
				key.Omit = true
			}
		}
		c.Keys = append(c.Keys, key)
	}
	// values: unique per (source, key); ints are numbers, bools random
	serial := 0
	val := func(k c08Key, src string) string {
		serial++
		switch k.T {
		case "i":
			return strconv.Itoa(1000 + serial)
		case "b":
			return strconv.FormatBool(r.Bool())
		}
		return fmt.Sprintf("%s%d", src, serial)
	}
	subset := func(src string, num, den int) map[string]string {
		m := map[string]string{}
		for _, k := range c.Keys {
			if r.Chance(num, den) {
				m[k.N] = val(k, src)
			}
		}
		return m
	}
	if c.Ctor != "new" {
		if r.Chance(7, 10) {
			c.HasTheme = true
			c.Theme = subset("th", 1, 2)
		}
		nd := r.Intn(3)
		for k := 0; k < nd; k++ {
			name := []string{"a.yml", "b.yaml"}[k]
			c.Data = append(c.Data, c08File{Name: name, V: subset("d"+string(rune('a'+k)), 2, 5)})
		}
		for _, n := range []string{"a.vuego", "b.vuego"} {
			t := c08Tpl{Name: n}
			if r.Chance(3, 4) {
				t.HasFM = true
				t.FM = subset("fm"+n[:1], 2, 5)
			}
			c.Tpls = append(c.Tpls, t)
		}
	}
	maxT := ctx.Pick(3, 4)
	n := 4 + r.Intn(ctx.Pick(3, 5))
	nt := 1
	for len(c.Ops) < n {
		t := r.Intn(nt)
		switch x := r.Intn(100); {
		case x < 28:
			op := c08Op{Op: "fill", T: t, Shape: "map", V: subset("f", 1, 2)}
			if useStruct {
				op.Shape = core.Pick(r, []string{"map", "struct", "struct", "ptr"})
				if op.Shape != "map" {
					c.Shape = "struct"
				}
			} else if r.Chance(1, 12) {
				op.Shape, op.V = "nil", map[string]string{} // Fill(nil): defines nothing
			}
			c.Ops = append(c.Ops, op)
		case x < 52:
			k := core.Pick(r, c.Keys)
			c.Ops = append(c.Ops, c08Op{Op: "assign", T: t, Key: k.N, Val: val(k, "as")})
		case x < 64:
			if nt < maxT {
				c.Ops = append(c.Ops, c08Op{Op: "new", T: t})
				nt++
			}
		case x < 82:
			if nt < maxT && c.Ctor != "new" {
				c.Ops = append(c.Ops, c08Op{Op: "load", T: t, File: core.Pick(r, c.Tpls).Name})
				nt++
			}
		case x < 92:
			c.Ops = append(c.Ops, c08Op{Op: "obs", T: t})
		default:
			if c.Ctor != "new" {
				c.Ops = append(c.Ops, c08Op{Op: "renderfile", T: t, File: core.Pick(r, c.Tpls).Name})
			}
		}
	}
	return c
}

// ---------------------------------------------------------------- values

func c08KeyByName(keys []c08Key, n string) (c08Key, bool) {
	for _, k := range keys {
		if k.N == n {
			return k, true
		}
	}
	return c08Key{}, false
}

// c08Go builds the Go value a Fill/Assign passes for a tag.
func c08Go(k c08Key, tag string, inStruct bool) any {
	switch k.T {
	case "i":
		n, _ := strconv.Atoi(tag)
		return n
	case "b":
		return tag == "true"
	case "l":
		if inStruct {
			return []string{tag, "z"}
		}
		return []any{tag, "z"}
	case "m":
		return map[string]any{"tag": tag}
	}
	return tag
}

func c08Yaml(k c08Key, tag string) string {
	if tag == "~" {
		return "~"
	}
	switch k.T {
	case "l":
		return "[" + tag + ", z]"
	case "m":
		return "{tag: " + tag + "}"
	}
	return tag
}

func c08YamlDoc(keys []c08Key, m map[string]string) string {
	var b strings.Builder
	for _, n := range sortedKeys(m) {
		k, ok := c08KeyByName(keys, n)
		if !ok {
			k = c08Key{N: n, T: "s"}
		}
		fmt.Fprintf(&b, "%s: %s\n", n, c08Yaml(k, m[n]))
	}
	return b.String()
}

func c08Path(k c08Key) string {
	switch k.T {
	case "l":
		return k.N + "[0]"
	case "m":
		return k.N + ".tag"
	}
	return k.N
}

func c08Lit(k c08Key, tag string) string {
	switch k.T {
	case "i", "b":
		return tag
	}
	return "'" + tag + "'"
}

// c08GetDecode maps what Template.Get returned back to the value it stands
// for. Scalars must come back as their plain text; for lists and maps the
// statement does not fix a format, so the one candidate value occurring as a
// token of the returned text is taken.
func c08GetDecode(k c08Key, raw string, cands []string) string {
	if raw == "" {
		return ""
	}
	var hit []string
	if k.T == "l" || k.T == "m" {
		toks := map[string]bool{}
		for _, t := range strings.FieldsFunc(raw, func(r rune) bool {
			return !(r >= 'a' && r <= 'z' || r >= 'A' && r <= 'Z' || r >= '0' && r <= '9')
		}) {
			toks[t] = true
		}
		for _, c := range cands {
			if toks[c] {
				hit = append(hit, c)
			}
		}
	} else {
		for _, c := range cands {
			if raw == c {
				hit = append(hit, c)
			}
		}
	}
	switch len(hit) {
	case 0:
		return "other:" + clip(raw, 40)
	case 1:
		return hit[0]
	}
	return "ambiguous:" + strings.Join(hit, ",")
}

var c08FieldTypes = map[string]reflect.Type{
	"s": reflect.TypeOf(""),
	"n": reflect.TypeOf(""),
	"i": reflect.TypeOf(0),
	"b": reflect.TypeOf(false),
	"l": reflect.TypeOf([]string(nil)),
	"m": reflect.TypeOf(map[string]any(nil)),
}

// C08Vars is a named map type, as applications define for their view data.
type C08Vars map[string]any

// c08Data builds the value handed to Fill / Vue.Render.
func c08Data(keys []c08Key, shape string, v map[string]string) any {
	switch shape {
	case "nil":
		return nil
	case "map", "", "namedmap":
		m := map[string]any{}
		for n, tag := range v {
			k, _ := c08KeyByName(keys, n)
			m[n] = c08Go(k, tag, false)
		}
		if shape == "namedmap" {
			return C08Vars(m)
		}
		return m
	case "strmap":
		m := map[string]string{}
		for n, tag := range v {
			k, _ := c08KeyByName(keys, n)
			m[n] = fmt.Sprint(c08Go(k, tag, false))
		}
		return m
	}
	var fields []reflect.StructField
	var ks []c08Key
	for _, n := range sortedKeys(v) {
		k, _ := c08KeyByName(keys, n)
		f := reflect.StructField{Name: k.Field, Type: c08FieldTypes[k.T]}
		if k.Tag != "" {
			f.Tag = reflect.StructTag(`json:"` + k.Tag + `"`)
			if k.Omit {
				f.Tag = reflect.StructTag(`json:"` + k.Tag + `,omitempty"`)
			}
		}
		fields = append(fields, f)
		ks = append(ks, k)
	}
	pv := reflect.New(reflect.StructOf(fields))
	for j, k := range ks {
		pv.Elem().Field(j).Set(reflect.ValueOf(c08Go(k, v[k.N], true)))
	}
	if shape == "ptr" {
		return pv.Interface()
	}
	return pv.Elem().Interface()
}

// ---------------------------------------------------------------- reference model

// c08V is a value a template may legitimately see together with the class of
// the source it comes from: fm | inherited-fm | assign | fill-map | fill-struct | data | theme | none.
type c08V struct{ tag, cls string }

type c08Ent struct {
	vals []c08V // values the Fill/Assign layer may hold for the key
	fall bool   // a later Fill did not mention the key: falling through to config is accepted too
}

type c08Model struct {
	loaded bool
	fm     map[string]string   // the template's own front-matter
	inh    map[string][]string // front-matter values inherited from ancestors (not judged)
	w      map[string]*c08Ent
}

func c08NewModel() *c08Model {
	return &c08Model{inh: map[string][]string{}, w: map[string]*c08Ent{}}
}

func (m *c08Model) child() *c08Model {
	c := c08NewModel()
	for k, v := range m.inh {
		c.inh[k] = append([]string{}, v...)
	}
	for k, v := range m.fm {
		c.inh[k] = append(c.inh[k], v)
	}
	for k, e := range m.w {
		c.w[k] = &c08Ent{vals: append([]c08V{}, e.vals...), fall: e.fall}
	}
	return c
}

func (m *c08Model) fill(v map[string]string, shape string) {
	cls := "fill-map"
	if shape == "struct" || shape == "ptr" {
		cls = "fill-struct"
	}
	for k, e := range m.w {
		if _, ok := v[k]; !ok {
			e.fall = true
		}
	}
	for k, tag := range v {
		m.w[k] = &c08Ent{vals: []c08V{{tag, cls}}}
		// a value written to this template after it was derived is "given through
		// Fill/Assign"; an inherited parent front-matter value is not this
		// template's own front-matter and can no longer stand in for the key
		delete(m.inh, k)
	}
}

func (m *c08Model) assign(k, tag string) {
	m.w[k] = &c08Ent{vals: []c08V{{tag, "assign"}}}
	delete(m.inh, k)
}

// ---------------------------------------------------------------- execution

type c08Run struct {
	c      c08Case
	o      *core.Obs
	fsys   fstest.MapFS
	body   string
	cands  map[string][]string          // key -> every value some source gives it
	src    map[string]map[string]string // key -> value -> source class
	tpls   []vuego.Template
	models []*c08Model
	multi  bool // some judged observation had >= 2 defining sources
}

func (p *c08) Exec(ctx core.Ctx, cc any) core.Obs {
	c := cc.(c08Case)
	var o core.Obs
	if c.Part == "" {
		return o
	}
	if c.Part == "shared" && c.Shared != nil {
		c08ExecShared(c, &o)
		return o
	}
	x := &c08Run{c: c, o: &o}
	x.run()
	return o
}

func (x *c08Run) addCand(key, tag, class string) {
	if _, ok := c08KeyByName(x.c.Keys, key); !ok {
		return
	}
	if x.src[key] == nil {
		x.src[key] = map[string]string{}
	}
	if old, ok := x.src[key][tag]; ok {
		if old != class {
			x.src[key][tag] = "several"
		}
		return
	}
	x.src[key][tag] = class
	x.cands[key] = append(x.cands[key], tag)
}

func (x *c08Run) prepare() {
	c := x.c
	x.cands, x.src = map[string][]string{}, map[string]map[string]string{}
	for k, v := range c.Theme {
		x.addCand(k, v, "theme")
	}
	for _, f := range c.Data {
		for k, v := range f.V {
			x.addCand(k, v, "data")
		}
	}
	for _, t := range c.Tpls {
		for k, v := range t.FM {
			x.addCand(k, v, "fm")
		}
	}
	for _, op := range c.Ops {
		switch op.Op {
		case "assign":
			x.addCand(op.Key, op.Val, "assign")
		case "fill", "vuerender", "vuefragment":
			for k, v := range op.V {
				x.addCand(k, v, "fill")
			}
		}
	}
	// file-based engines: the probe body starts with an include tag without attributes of a partial whose
	// front-matter defines every key - another file's front-matter, which must stay in that file
	incFM := map[string]string{}
	if c.Ctor != "new" {
		for _, k := range c.Keys {
			switch k.T {
			case "b":
			case "i":
				incFM[k.N] = "9077"
			default:
				incFM[k.N] = "incl"
			}
			if tag, ok := incFM[k.N]; ok {
				x.addCand(k.N, tag, "included-file-front-matter")
			}
		}
	}
	for _, k := range c.Keys {
		if k.T == "b" {
			x.cands[k.N] = []string{"true", "false"}
		}
		sort.Strings(x.cands[k.N])
	}
	// probe body: every key in every read position
	var b strings.Builder
	if c.Ctor != "new" {
		b.WriteString(`<template include="partials/c08inc.vuego"></template>`)
	}
	for j, k := range c.Keys {
		path := c08Path(k)
		fmt.Fprintf(&b, `<p data-m="k%d" :a="%s" t="{{ %s }}">{{ %s }}</p><u data-m="k%d-t" v-text="%s"></u>`, j, path, path, path, j, path)
		for ci, cand := range x.cands[k.N] {
			lit := c08Lit(k, cand)
			if !k.NoExpr {
				fmt.Fprintf(&b, `<b data-m="k%d-e%d">{{ %s == %s }}</b>`, j, ci, path, lit)
			}
			fmt.Fprintf(&b, `<i v-if="%s == %s" data-m="k%d-v%d"></i>`, path, lit, j, ci)
		}
		b.WriteString("\n")
	}
	// after every read: the body assigns each (lower-case) key as a template-local variable. A render works on its own
	// copy of the template's variables, so no later read - through this template, a child or a sibling - may see it.
	for _, k := range c.Keys {
		if c08PlainLower(k.N) {
			fmt.Fprintf(&b, `<template %s="probe-local"></template>`, k.N)
		}
	}
	x.body = b.String()
	if c.Ctor != "new" {
		files := map[string]string{}
		if c.HasTheme {
			files["theme.yml"] = c08YamlDoc(c.Keys, c.Theme)
		}
		for _, f := range c.Data {
			files["data/"+f.Name] = c08YamlDoc(c.Keys, f.V)
		}
		files["partials/c08inc.vuego"] = "---\n" + c08YamlDoc(c.Keys, incFM) + "---\n<em data-m=\"inc\"></em>\n"
		for _, t := range c.Tpls {
			src := x.body
			if t.HasFM {
				src = "---\n" + c08YamlDoc(c.Keys, t.FM) + "---\n" + x.body
			}
			files[t.Name] = src
		}
		x.fsys = memFS(files)
	}
}

func c08PlainLower(n string) bool {
	for i, r := range n {
		if !(r >= 'a' && r <= 'z' || i > 0 && (r >= '0' && r <= '9' || r == '_')) {
			return false
		}
	}
	return n != ""
}

func (x *c08Run) tpl(name string) c08Tpl {
	for _, t := range x.c.Tpls {
		if t.Name == name {
			return t
		}
	}
	return c08Tpl{Name: name}
}

// config is the value data/*.yml (alphabetically last file) or else theme.yml gives the key.
func (x *c08Run) config(key string) (val c08V, nsrc int) {
	val = c08V{"", "none"}
	files := append([]c08File{}, x.c.Data...)
	sort.Slice(files, func(a, b int) bool { return files[a].Name < files[b].Name })
	for _, f := range files {
		if v, ok := f.V[key]; ok {
			val = c08V{v, "data"}
			nsrc++
		}
	}
	if v, ok := x.c.Theme[key]; ok && x.c.HasTheme {
		nsrc++
		if val.cls == "none" {
			val = c08V{v, "theme"}
		}
	}
	return val, nsrc
}

// allowed returns the set of values (tag "" = undefined) the statement permits
// for key at a template (one element = fully judged) and the number of sources
// defining the key there.
func (x *c08Run) allowed(m *c08Model, key string, fileRender, useConfig bool) (set []c08V, nsrc int) {
	rank := map[string]int{"fm": 5, "assign": 4, "fill-map": 4, "fill-struct": 4, "inherited-fm": 3, "data": 2, "theme": 1}
	add := func(v c08V) {
		if v.tag == "~" {
			// the key is present with a null value: it reads as empty, and it still hides every lower source
			v.tag = ""
		}
		for j, s := range set {
			if s.tag == v.tag {
				// the same value from two sources (booleans): label it by the higher-ranked one
				if rank[v.cls] > rank[s.cls] {
					set[j].cls = v.cls
				}
				return
			}
		}
		set = append(set, v)
	}
	cfg := c08V{"", "none"}
	if useConfig {
		cfg, nsrc = x.config(key)
	}
	if _, ok := m.w[key]; ok {
		nsrc++
	}
	if v, ok := m.fm[key]; ok && m.loaded {
		nsrc++
		add(c08V{v, "fm"})
		if fileRender {
			return set, nsrc
		}
	}
	for _, v := range m.inh[key] {
		add(c08V{v, "inherited-fm"})
	}
	if e, ok := m.w[key]; ok {
		for _, v := range e.vals {
			add(v)
		}
		if e.fall {
			add(cfg)
		}
	} else {
		add(cfg)
	}
	return set, nsrc
}

func (x *c08Run) run() {
	c, o := x.c, x.o
	x.prepare()
	useConfig := c.Ctor == "newfs" || c.Ctor == "withfs"
	switch c.Ctor {
	case "newfs":
		x.tpls = append(x.tpls, vuego.NewFS(x.fsys))
	case "withfs":
		x.tpls = append(x.tpls, vuego.New(vuego.WithFS(x.fsys)))
	case "new":
		x.tpls = append(x.tpls, vuego.New())
	}
	if c.Ctor != "vue" {
		o.Evals++
		x.models = append(x.models, c08NewModel())
	}
	o.Cell("ctor/" + c.Ctor)
	for _, op := range c.Ops {
		if op.Op != "vuerender" && op.Op != "vuefragment" && (op.T < 0 || op.T >= len(x.tpls)) {
			o.Inconclusive = fmt.Sprintf("malformed case: op %s on template %d of %d", op.Op, op.T, len(x.tpls))
			return
		}
		o.Cell(c.Part + "/op/" + op.Op)
		switch op.Op {
		case "fill":
			o.Evals++
			x.tpls[op.T].Fill(c08Data(c.Keys, op.Shape, op.V))
			x.models[op.T].fill(op.V, op.Shape)
			o.Cell("fill-shape/" + op.Shape)
		case "assign":
			o.Evals++
			k, _ := c08KeyByName(c.Keys, op.Key)
			x.tpls[op.T].Assign(op.Key, c08Go(k, op.Val, false))
			x.models[op.T].assign(op.Key, op.Val)
		case "new":
			o.Evals++
			x.tpls = append(x.tpls, x.tpls[op.T].New())
			x.models = append(x.models, x.models[op.T].child())
		case "load":
			o.Evals++
			x.tpls = append(x.tpls, x.tpls[op.T].Load(op.File))
			m := x.models[op.T].child()
			m.loaded, m.fm = true, x.tpl(op.File).FM
			x.models = append(x.models, m)
		case "obs":
			x.observe(op.T, useConfig)
		case "renderfile":
			o.Evals++
			var buf bytes.Buffer
			err := x.tpls[op.T].RenderFile(bg, &buf, op.File)
			m := x.models[op.T].child()
			m.loaded, m.fm = true, x.tpl(op.File).FM
			x.judgeRender(fmt.Sprintf("template %d .RenderFile(%s)", op.T, op.File), "renderfile", m, true, useConfig, buf.String(), err)
		case "vuerender", "vuefragment":
			o.Evals++
			var buf bytes.Buffer
			v := vuego.NewVue(x.fsys)
			data := c08Data(c.Keys, op.Shape, op.V)
			var err error
			if op.Op == "vuerender" {
				err = v.Render(&buf, op.File, data)
			} else {
				err = v.RenderFragment(&buf, op.File, data)
			}
			m := c08NewModel()
			m.loaded, m.fm = true, x.tpl(op.File).FM
			if op.Shape != "nil" {
				m.fill(op.V, op.Shape)
				o.Cell("fill-shape/" + op.Shape)
			}
			x.judgeRender(fmt.Sprintf("Vue.%s(%s)", op.Op, op.File), op.Op, m, true, false, buf.String(), err)
		default:
			o.Inconclusive = "malformed case: unknown op " + op.Op
			return
		}
	}
	// final sweep: every template of the tree, root first, then once more the
	// root (observing a child must not have changed it)
	for t := range x.tpls {
		x.observe(t, useConfig)
	}
	if len(x.tpls) > 1 {
		x.observe(0, useConfig)
	}
	if x.multi || len(x.tpls) > 1 {
		o.NT(mustJSON(c))
	}
	switch c.Part {
	case "matrix":
		o.Cell("matrix/entry/" + c.Entry)
		o.Cell("matrix/shape/" + c.Shape)
		o.Cell("matrix/type/" + c.Keys[0].T)
		o.Cell("matrix/kinds/" + c.Kinds)
		o.Cell(fmt.Sprintf("matrix/pattern/%05b", c.Pattern))
		if c.Pattern == 0b11111 && c.Shape == "struct-tag" && c.Keys[0].T == "s" && c.Entry == "load-write-render" && c.Kinds == "FA" {
			o.Sample = map[string]any{"case": c, "body": x.body}
		}
	case "files":
		o.Cell(fmt.Sprintf("files/subset/%05b", c.Pattern))
	default:
		o.Cell(fmt.Sprintf("%s/ops%d", c.Part, len(c.Ops)))
		o.Cell(fmt.Sprintf("%s/templates%d", c.Part, len(x.tpls)))
		o.Cell(c.Part + "/shape/" + c.Shape)
	}
}

// observe reads every key of template t through Get and through a render.
func (x *c08Run) observe(t int, useConfig bool) {
	o, m, tp := x.o, x.models[t], x.tpls[t]
	where := fmt.Sprintf("template %d", t)
	for _, k := range x.c.Keys {
		o.Evals++
		raw := tp.Get(k.N)
		got := c08GetDecode(k, raw, x.cands[k.N])
		set, nsrc := x.allowed(m, k.N, m.loaded, useConfig)
		x.verdict(where+".Get", "get", m, k, set, nsrc, map[string]string{"get": got}, "")
	}
	var buf bytes.Buffer
	o.Evals++
	if m.loaded {
		err := tp.Render(bg, &buf)
		x.judgeRender(where+".Render()", "render", m, true, useConfig, buf.String(), err)
		// the same template used for a string render: its own front-matter keys are then only weakly judged
		var sb bytes.Buffer
		o.Evals++
		err = tp.RenderString(bg, &sb, x.body)
		x.judgeRender(where+".RenderString(body)", "renderstring", m, false, useConfig, sb.String(), err)
	} else {
		err := tp.RenderString(bg, &buf, x.body)
		x.judgeRender(where+".RenderString(body)", "renderstring", m, false, useConfig, buf.String(), err)
	}
}

// judgeRender decodes the probe body's output and compares every key in every position.
func (x *c08Run) judgeRender(where, entry string, m *c08Model, fileRender, useConfig bool, out string, err error) {
	if !fileRender && m.loaded {
		entry = "renderstring-on-loaded"
	}
	if err != nil {
		x.fail(c08EntryClass(entry)+"/render-error", "%s failed: %v", where, err)
		return
	}
	doc := oracle.Parse(out, false)
	for j, k := range x.c.Keys {
		ps := doc.ByAttr("data-m", fmt.Sprintf("k%d", j))
		if len(ps) != 1 {
			x.fail(c08EntryClass(entry)+"/probe-element-lost", "%s: probe element k%d found %d times\noutput: %s", where, j, len(ps), clip(out, 600))
			continue
		}
		obs := map[string]string{}
		obs["interp"] = ps[0].InnerText()
		av, has := ps[0].Attr("a")
		switch {
		case k.T == "b" && (!has || av == "false"):
			// a false bound attribute is dropped: indistinguishable from an undefined key
			obs["attr"] = "false-or-none"
		case k.T == "b":
			obs["attr"] = "true"
		case !has:
			obs["attr"] = ""
		default:
			obs["attr"] = av
		}
		if tv, has := ps[0].Attr("t"); has {
			obs["attr-interp"] = tv
		} else {
			obs["attr-interp"] = "other:attribute-lost"
		}
		if us := doc.ByAttr("data-m", fmt.Sprintf("k%d-t", j)); len(us) == 1 {
			obs["v-text"] = us[0].InnerText()
			if obs["v-text"] == "<nil>" {
				// v-text prints a nil value as fmt does; which text a nil has is not this property's subject
				obs["v-text"] = ""
			}
		} else {
			obs["v-text"] = "other:element-lost"
		}
		var eTrue, vTrue []string
		for ci, cand := range x.cands[k.N] {
			if !k.NoExpr {
				es := doc.ByAttr("data-m", fmt.Sprintf("k%d-e%d", j, ci))
				if len(es) == 1 && es[0].InnerText() == "true" {
					eTrue = append(eTrue, cand)
				} else if len(es) != 1 || es[0].InnerText() != "false" {
					eTrue = append(eTrue, "?")
				}
			}
			if len(doc.ByAttr("data-m", fmt.Sprintf("k%d-v%d", j, ci))) > 0 {
				vTrue = append(vTrue, cand)
			}
		}
		pick := func(xs []string) string {
			switch len(xs) {
			case 0:
				return ""
			case 1:
				return xs[0]
			}
			return "ambiguous:" + strings.Join(xs, ",")
		}
		if !k.NoExpr {
			obs["expr"] = pick(eTrue)
		}
		obs["vif"] = pick(vTrue)
		set, nsrc := x.allowed(m, k.N, fileRender, useConfig)
		x.verdict(where, entry, m, k, set, nsrc, obs, out)
	}
}

func c08EntryClass(entry string) string {
	switch entry {
	case "render", "renderfile":
		return "file-render"
	case "renderstring", "renderstring-on-loaded":
		return "string-render"
	case "vuerender", "vuefragment":
		return "vue-render"
	}
	return entry // get
}

// c08Addressing: a struct field is reached either under the key Fill stores it
// with (its JSON tag, or the field name of an untagged field) or by the Go
// field name of a tagged field.
func c08Addressing(k c08Key) string {
	if k.Tag != "" && k.N == k.Field {
		return "by-field-name"
	}
	return "by-key"
}

func c08AddressingCell(k c08Key) string {
	switch {
	case k.Tag == "":
		return "untagged-field"
	case k.N == k.Field:
		return "by-field-name"
	}
	return "by-json-tag"
}

// gotClass classifies an unexpected observation relative to what the model
// thinks this template could see.
func (x *c08Run) gotClass(m *c08Model, k c08Key, v string) string {
	switch {
	case v == "":
		return "undefined"
	case v == "false-or-none":
		return "false-or-undefined"
	case strings.HasPrefix(v, "ambiguous:"):
		return "ambiguous"
	case strings.HasPrefix(v, "other:") || v == "?":
		return "unrecognised"
	case k.T == "b":
		// two values only: name the most plausible origin of the wrong one
		if e, ok := m.w[k.N]; ok {
			for _, wv := range e.vals {
				if wv.tag == v {
					return "own-write"
				}
			}
		}
		if cfg, _ := x.config(k.N); cfg.cls != "none" && cfg.tag == v && x.c.Ctor != "new" && x.c.Ctor != "vue" {
			return "config"
		}
		for _, iv := range m.inh[k.N] {
			if iv == v {
				return "inherited-fm"
			}
		}
		return "foreign-or-unexplained-bool"
	}
	switch x.src[k.N][v] {
	case "theme", "data":
		return "config"
	case "fm":
		if m.loaded && m.fm[k.N] == v {
			return "own-fm"
		}
		for _, iv := range m.inh[k.N] {
			if iv == v {
				return "inherited-fm"
			}
		}
		return "foreign-fm"
	case "included-file-front-matter":
		return "front-matter-of-an-included-file"
	case "assign", "fill":
		if e, ok := m.w[k.N]; ok {
			for _, wv := range e.vals {
				if wv.tag == v {
					return "own-write"
				}
			}
		}
		return "foreign-or-overridden-write"
	}
	return "unrecognised"
}

// verdict compares the observations of one key at one observation point with the allowed set.
func (x *c08Run) verdict(where, entry string, m *c08Model, k c08Key, set []c08V, nsrc int, obs map[string]string, out string) {
	o := x.o
	judged := len(set) == 1
	if judged {
		o.Cell("judged/" + entry)
		if nsrc >= 2 {
			x.multi = true
			o.Cell("judged-with-competing-sources/" + entry)
		}
		o.Cell("winner/" + set[0].cls)
		if set[0].cls == "fill-struct" {
			o.Cell("winner/fill-struct/" + c08AddressingCell(k))
		}
	} else {
		o.Cell("weakly-judged(several-values-accepted)/" + entry)
	}
	ok := func(got string) bool {
		for _, s := range set {
			if got == s.tag {
				return true
			}
			if got == "false-or-none" && (s.tag == "" || s.tag == "false") {
				return true
			}
		}
		return false
	}
	var bad []string
	decisive := 0
	for _, pos := range sortedKeys(obs) {
		o.Cell("position/" + pos + "/" + k.T)
		if !ok(obs[pos]) {
			bad = append(bad, pos)
			decisive++
		} else if obs[pos] != "false-or-none" {
			decisive++
		}
	}
	if len(bad) == 0 {
		return
	}
	posClass := "mixed-positions"
	exprOnly, plainOnly := true, true
	for _, b := range bad {
		if b != "expr" && b != "vif" {
			exprOnly = false
		}
		if b != "interp" && b != "attr" && b != "attr-interp" && b != "v-text" {
			plainOnly = false
		}
	}
	switch {
	case entry == "get":
		posClass = ""
	case len(bad) == decisive:
		posClass = "all-positions"
	case exprOnly:
		posClass = "expression-positions"
	case plainOnly:
		posClass = "plain-positions"
	}
	want := "one-of-several"
	if judged {
		want = set[0].cls
	}
	for _, s := range set {
		if s.cls == "fill-struct" {
			// (also when a second outcome is accepted: the struct is what the case is about)
			want = "fill-struct(" + c08Addressing(k) + ")"
			break
		}
	}
	gotSet := map[string]bool{}
	for _, b := range bad {
		gotSet[x.gotClass(m, k, obs[b])] = true
	}
	if len(gotSet) > 1 {
		delete(gotSet, "false-or-undefined") // the weaker form of "undefined"
	}
	sig := c08EntryClass(entry)
	if posClass != "" {
		sig += "/" + posClass
	}
	got := strings.Join(sortedKeys(gotSet), "+")
	if strings.HasPrefix(got, "foreign") {
		// a value this template should not be able to see at all: what it hides is secondary
		want = "*"
	}
	sig += "/want-" + want + "/got-" + got
	var allowed []string
	for _, s := range set {
		allowed = append(allowed, fmt.Sprintf("%q(%s)", s.tag, s.cls))
	}
	x.fail(sig, "%s: key %q (type %s, %d defining sources): the statement allows %s, observed %v\noutput: %s", where, k.N, k.T, nsrc, strings.Join(allowed, " or "), obs, clip(out, 500))
}

func (x *c08Run) fail(sig, format string, args ...any) {
	c := x.c
	var fl []string
	for _, n := range sortedKeys(map[string]*fstest.MapFile(x.fsys)) {
		d := string(x.fsys[n].Data)
		if strings.HasSuffix(n, ".vuego") {
			if j := strings.Index(d, "<p data-m"); j >= 0 {
				d = d[:j] + "<probe body>"
			}
		}
		fl = append(fl, fmt.Sprintf("%s=%q", n, d))
	}
	x.o.Fail(c, sig, "%s\nconstructor: %s\nfiles: %s\ncalls: %s\nprobe body: %s",
		fmt.Sprintf(format, args...), c.Ctor, strings.Join(fl, " "), mustJSON(c.Ops), clip(x.body, 700))
}
