package props

import (
	"fmt"
	"regexp"
	"strings"

	xhtml "golang.org/x/net/html"
	"golang.org/x/net/html/atom"

	"verifharness/oracle"
)

// The classifying differ of C20: compares the normalised DOM of the reference
// rendering (want) with the one of the engine (got) and turns every difference
// into (defect class, sink).

type c20D struct {
	class string // defect class
	sink  string // text | code-span | code-block | href | src | title | alt | info-class | ...
	msg   string
}

type c20Cmp struct {
	noRaw bool // the document has no raw HTML: whitespace inside code blocks is compared exactly
	lt    bool // the reference has a literal '<' as text outside code
	diffs []c20D
}

// fallback classes carry no explanation of their own; in a document whose
// reference text has a literal '<' outside code they are attributed to that '<'
// (the engine copies it unescaped, the HTML parser then sees a tag that can
// swallow or re-parent anything after it).
var c20Fallback = map[string]bool{"text-differs": true, "mustache-evaluated": true, "whitespace-extra": true, "whitespace-missing": true, "structure-differs": true, "attr-missing": true, "attr-extra": true, "attr-value-differs": true, "falsy-attribute-dropped": true}

func (cm *c20Cmp) add(lt bool, class, sink, format string, args ...any) {
	// (Differences in a document with a literal '<' used to be attributed to the
	// engine copying that '<' unescaped; since that defect was repaired every
	// difference keeps its own class, so nothing hides behind the old label.)
	_ = lt
	cm.diffs = append(cm.diffs, c20D{class, sink, fmt.Sprintf(format, args...)})
}

var c20Phrasing = map[string]bool{
	"a": true, "em": true, "strong": true, "del": true, "code": true, "br": true, "img": true, "input": true,
	"span": true, "b": true, "i": true, "u": true, "s": true, "sub": true, "sup": true, "small": true, "abbr": true,
	"q": true, "cite": true, "label": true, "kbd": true, "mark": true,
}

// elements the HTML parser re-opens ("reconstructs") after a mis-nested end tag
var c20Formatting = map[string]bool{"a": true, "b": true, "big": true, "code": true, "em": true, "font": true, "i": true, "nobr": true, "s": true, "small": true, "strike": true, "strong": true, "tt": true, "u": true}

var c20InlineContainers = map[string]bool{"p": true, "h1": true, "h2": true, "h3": true, "h4": true, "h5": true, "h6": true, "th": true, "td": true, "li": true}

func c20IsHeading(n string) bool { return len(n) == 2 && n[0] == 'h' && n[1] >= '1' && n[1] <= '6' }

// c20Prune removes formatting elements without content. They appear when raw
// HTML leaves a formatting element open across a block boundary: the parser
// then re-opens it at the next token, and whether that token is the
// insignificant white space between two blocks differs between the renderers.
func c20Prune(n *oracle.N) {
	kept := n.Kids[:0]
	for _, k := range n.Kids {
		if k.Kind == "el" {
			c20Prune(k)
			if c20Formatting[k.Name] && len(k.Kids) == 0 {
				continue
			}
		}
		kept = append(kept, k)
	}
	n.Kids = kept
}

func (cm *c20Cmp) root(w, g *oracle.N) {
	c20Prune(w)
	c20Prune(g)
	cm.lt = strings.Contains(c20TextOutsideCode(w), "<")
	cm.kids(w, g, "", false, false)
}

func c20SameShape(a, b *oracle.N) bool {
	if a.Kind != b.Kind {
		return false
	}
	return a.Kind != "el" || a.Name == b.Name
}

func c20Brief(ks []*oracle.N) string {
	var p []string
	for _, k := range ks {
		switch k.Kind {
		case "el":
			p = append(p, "<"+k.Name+">")
		case "text":
			p = append(p, fmt.Sprintf("%q", clip(k.Text, 30)))
		default:
			p = append(p, k.Kind)
		}
	}
	return "[" + strings.Join(p, " ") + "]"
}

// kids aligns and compares the children of a matched pair.
func (cm *c20Cmp) kids(w, g *oracle.N, path string, inCode, inPre bool) {
	wk, gk := w.Kids, g.Kids
	lt := true
	var aligned [][2]*oracle.N
	i, j := 0, 0
	doubled := false
	ok := true
	for i < len(wk) && j < len(gk) {
		if !c20SameShape(wk[i], gk[j]) {
			ok = false
			break
		}
		isBr := func(n *oracle.N) bool { return n.Kind == "el" && n.Name == "br" }
		if isBr(wk[i]) && isBr(gk[j]) {
			// a run of k hard breaks in the reference against a run of 2k in the
			// engine output: every <br> was serialised as <br></br>
			rw, rg := 0, 0
			for i+rw < len(wk) && isBr(wk[i+rw]) {
				rw++
			}
			for j+rg < len(gk) && isBr(gk[j+rg]) {
				rg++
			}
			if rg == 2*rw {
				for t := 0; t < rw; t++ {
					aligned = append(aligned, [2]*oracle.N{wk[i+t], gk[j+2*t]})
				}
				doubled = true
				i += rw
				j += rg
				continue
			}
		}
		aligned = append(aligned, [2]*oracle.N{wk[i], gk[j]})
		i++
		j++
	}
	if doubled {
		cm.add(false, "double-br", "hard-break", "a hard line break is one <br> in the reference and two <br> elements in the engine output (serialised as <br></br>) at %s", c20Path(path, w))
	}
	complete := ok && i == len(wk) && j == len(gk)
	if !complete {
		cm.structural(w, wk, gk, i, j, path, lt)
	}
	for _, pr := range aligned {
		cm.node(pr[0], pr[1], path, inCode, inPre, lt)
	}
}

func c20Path(path string, n *oracle.N) string {
	if n.Kind == "el" {
		return path + "/" + n.Name
	}
	if path == "" {
		return "/"
	}
	return path
}

func (cm *c20Cmp) structural(w *oracle.N, wk, gk []*oracle.N, i, j int, path string, lt bool) {
	where := c20Path(path, w)
	// GFM: a table without body rows has no <tbody>
	if w.Kind == "el" && w.Name == "table" && j < len(gk) && i == len(wk) && gk[j].Kind == "el" && gk[j].Name == "tbody" && len(gk[j].Kids) == 0 && j == len(gk)-1 {
		cm.add(false, "empty-tbody-emitted", "table", "table without body rows: the reference has no <tbody>, the engine emits an empty one at %s", where)
		return
	}
	cm.add(lt, "structure-differs", "text", "children of %s: reference %s, engine %s (first mismatch at child %d)", where, c20Brief(wk), c20Brief(gk), i)
}

func c20TextOutsideCode(n *oracle.N) string {
	var b strings.Builder
	var f func(x *oracle.N)
	f = func(x *oracle.N) {
		if x.Kind == "text" {
			b.WriteString(x.Raw)
			return
		}
		if x.Kind == "el" && (x.Name == "code" || x.Name == "pre") {
			return
		}
		for _, k := range x.Kids {
			f(k)
		}
	}
	f(n)
	return b.String()
}

func (cm *c20Cmp) node(w, g *oracle.N, path string, inCode, inPre, lt bool) {
	switch w.Kind {
	case "text":
		if w.Text != g.Text {
			sink := "text"
			if inCode && inPre {
				sink = "code-block"
			} else if inCode {
				sink = "code-span"
			}
			for _, cl := range c20ClassifyText(w.Raw, g.Raw, true) {
				if cl == "whitespace-extra" && sink == "text" {
					// adjacent text nodes were merged by a parser fix-up (nested <a>): same defect as below
					cl = "whitespace-inserted-after-inline-element"
				}
				cm.add(lt, cl, sink, "text at %s: reference %q, engine %q", c20Path(path, w), clip(w.Text, 160), clip(g.Text, 160))
			}
		}
		return
	case "el":
	default:
		return
	}
	p := path + "/" + w.Name
	cm.attrs(w, g, p, lt)
	cm.kids(w, g, p, inCode || w.Name == "code", inPre || w.Name == "pre")
}

var c20AttrSinks = map[string]string{
	"href": "destination", "src": "destination", "title": "title", "alt": "alt", "class": "info-class", "start": "start", "align": "align",
	"type": "checkbox", "checked": "checkbox", "disabled": "checkbox",
}

func c20AttrSink(k string) string {
	if s, ok := c20AttrSinks[k]; ok {
		return s
	}
	return "attr-other"
}

func (cm *c20Cmp) attrs(w, g *oracle.N, p string, lt bool) {
	am := func(n *oracle.N) map[string]string {
		m := map[string]string{}
		for _, a := range n.Attrs {
			if c20IsHeading(n.Name) && a.K == "id" {
				continue
			}
			if a.K == "title" && a.V == "" {
				continue
			}
			if _, dup := m[a.K]; !dup {
				m[a.K] = a.V
			}
		}
		return m
	}
	wm, gm := am(w), am(g)
	if w.Name == "ol" {
		ws, wok := wm["start"]
		_, gok := gm["start"]
		if wok && ws == "0" && !gok {
			cm.add(false, "falsy-attribute-dropped", "start", "ordered list starting at 0: reference has start=\"0\", the engine emits no start attribute (the list then starts at 1) at %s", p)
			delete(wm, "start")
		}
		if _, ok := wm["start"]; !ok {
			wm["start"] = "1"
		}
		if _, ok := gm["start"]; !ok {
			gm["start"] = "1"
		}
	}
	for _, k := range sortedKeys(wm) {
		gv, ok := gm[k]
		wv := wm[k]
		if !ok {
			if _, known := c20AttrSinks[k]; known && (wv == "" || wv == "false" || wv == "language-false") {
				cm.add(lt, "falsy-attribute-dropped", c20AttrSink(k), "attribute %s of %s: reference has %s=%q, the engine emits no %s attribute (a bound attribute whose value is empty, 0 or \"false\" is omitted)", k, p, k, wv, k)
			} else {
				cm.add(lt, "attr-missing", c20AttrSink(k), "attribute %s of %s: reference %q, engine has no such attribute", k, p, clip(wv, 120))
			}
			continue
		}
		if wv == gv {
			continue
		}
		what := ""
		if k == "href" || k == "src" {
			wv, gv = c20PctDecode(wv), c20PctDecode(gv)
			if wv == gv {
				continue
			}
			what = " (compared percent-decoded)"
		}
		if k == "alt" && oracle.NormText(wv) == oracle.NormText(gv) {
			// a soft line break inside the image description: "\n" in the
			// reference, a space in the engine output - the same plain text
			continue
		}
		if k == "alt" && strings.Contains(wv, "<br>\n") {
			// goldmark writes the markup of a hard line break into the alt text; the plain-text reading is white space
			wv = strings.ReplaceAll(wv, "<br>\n", "\n")
			if oracle.NormText(wv) == oracle.NormText(gv) {
				continue
			}
		}
		for _, cl := range c20ClassifyText(wv, gv, false) {
			if cl == "text-differs" {
				cl = "attr-value-differs"
			}
			cm.add(lt, cl, c20AttrSink(k), "attribute %s of %s: reference %q, engine %q%s", k, p, clip(wm[k], 160), clip(gm[k], 160), what)
		}
	}
	for _, k := range sortedKeys(gm) {
		if _, ok := wm[k]; !ok {
			cm.add(lt, "attr-extra", c20AttrSink(k), "attribute %s=%q of %s is not in the reference", k, clip(gm[k], 120), p)
		}
	}
}

func c20PctDecode(s string) string {
	var b strings.Builder
	for i := 0; i < len(s); i++ {
		if s[i] == '%' && i+2 < len(s) && c20Hex(s[i+1]) >= 0 && c20Hex(s[i+2]) >= 0 {
			b.WriteByte(byte(c20Hex(s[i+1])<<4 | c20Hex(s[i+2])))
			i += 2
			continue
		}
		b.WriteByte(s[i])
	}
	return b.String()
}

func c20Hex(c byte) int {
	switch {
	case c >= '0' && c <= '9':
		return int(c - '0')
	case c >= 'a' && c <= 'f':
		return int(c-'a') + 10
	case c >= 'A' && c <= 'F':
		return int(c-'A') + 10
	}
	return -1
}

var c20MustacheRe = regexp.MustCompile(`\{\{.*?\}\}`)

const (
	c20xBS = 1 << iota
	c20xCR
	c20xAMP
	c20xWSExtra
	c20xWSMissing
)

var c20AmpTokenRe = regexp.MustCompile(`^&#?[A-Za-z0-9]+;?`)
var c20CharrefAtRe = regexp.MustCompile(`^&(#[0-9]{1,7}|#[xX][0-9a-fA-F]{1,6}|[A-Za-z][A-Za-z0-9]{1,31});`)

const c20Punct = "!\"#$%&'()*+,-./:;<=>?@[\\]^_`{|}~"

// c20Align walks the reference string and the engine string in parallel and
// explains every point where they part by one escape mechanism:
//   - the engine kept the backslash of a backslash escape,
//   - the engine kept a character reference where the reference has the character,
//   - (text that went through the HTML parser) the reference has a literal "&..."
//     which the parser decoded in the engine output,
//   - white space present on one side only.
//
// It returns the set of mechanisms used, or ok=false when that does not explain the difference.
func c20Align(want, got string, viaParser bool) (mask int, ok bool) {
	type key struct{ i, j int }
	dead := map[key]bool{}
	var rec func(i, j int) (int, bool)
	rec = func(i, j int) (int, bool) {
		if i == len(want) && j == len(got) {
			return 0, true
		}
		k := key{i, j}
		if dead[k] {
			return 0, false
		}
		if i < len(want) && j < len(got) && want[i] == got[j] {
			if m, ok := rec(i+1, j+1); ok {
				return m, true
			}
		}
		if j+1 < len(got) && got[j] == '\\' && strings.IndexByte(c20Punct, got[j+1]) >= 0 && i < len(want) && want[i] == got[j+1] {
			if m, ok := rec(i+1, j+2); ok {
				return m | c20xBS, true
			}
		}
		if j+1 < len(got) && got[j] == '\\' && got[j+1] == '&' {
			// "\&amp;" in a destination: the reference un-escapes and then decodes, the engine does neither
			if ref := c20CharrefAtRe.FindString(got[j+1:]); ref != "" {
				if dec := xhtml.UnescapeString(ref); dec != ref && strings.HasPrefix(want[i:], dec) {
					if m, ok := rec(i+len(dec), j+1+len(ref)); ok {
						return m | c20xBS | c20xCR, true
					}
				}
			}
		}
		if j < len(got) && got[j] == '&' {
			if ref := c20CharrefAtRe.FindString(got[j:]); ref != "" {
				dec := strings.ReplaceAll(xhtml.UnescapeString(ref), "\u00a0", "\u2423")
				if dec != ref && strings.HasPrefix(want[i:], dec) {
					if m, ok := rec(i+len(dec), j+len(ref)); ok {
						return m | c20xCR, true
					}
				}
				if dec != ref && strings.TrimSpace(dec) == "" { // &nbsp; and friends: white space after normalisation
					if i < len(want) && want[i] == ' ' {
						if m, ok := rec(i+1, j+len(ref)); ok {
							return m | c20xCR, true
						}
					}
					emax := j + len(ref) // white space next to it collapses with it
					for emax < len(got) && got[emax] == ' ' {
						emax++
					}
					for e := emax; e >= j+len(ref); e-- {
						if m, ok := rec(i, e); ok {
							return m | c20xCR, true
						}
					}
				}
			}
		}
		if viaParser && i < len(want) && want[i] == '&' {
			if strings.HasPrefix(want[i:], "&#x;") || strings.HasPrefix(want[i:], "&#X;") {
				// observer artefact: golang.org/x/net/html turns the digit-less "&#x;" into U+FFFD, browsers keep it as text
				if strings.HasPrefix(got[j:], "\uFFFD") {
					if m, ok := rec(i+4, j+len("\uFFFD")); ok {
						return m, true
					}
				}
			}
			if tok := c20AmpTokenRe.FindString(want[i:]); tok != "" {
				dec := strings.ReplaceAll(xhtml.UnescapeString(tok), "\u00a0", "\u2423")
				if dec != tok && strings.HasPrefix(got[j:], dec) {
					if m, ok := rec(i+len(tok), j+len(dec)); ok {
						return m | c20xAMP, true
					}
				}
				// "\&amp;": the reference reads an escaped '&' followed by "amp;", the engine keeps the backslash and the parser decodes the rest
				if dec != tok && strings.HasPrefix(got[j:], "\\"+dec) {
					if m, ok := rec(i+len(tok), j+1+len(dec)); ok {
						return m | c20xAMP | c20xBS, true
					}
				}
			}
		}
		if j < len(got) && got[j] == ' ' {
			if m, ok := rec(i, j+1); ok {
				return m | c20xWSExtra, true
			}
		}
		if i < len(want) && want[i] == ' ' {
			if m, ok := rec(i+1, j); ok {
				return m | c20xWSMissing, true
			}
		}
		dead[k] = true
		return 0, false
	}
	return rec(0, 0)
}

// c20ClassifyText explains a difference between a reference string and an
// engine string; a difference that needs two explanations yields both
// classes; nil means "no difference" (observer artefact only).
func c20ClassifyText(want, got string, viaParser bool) []string {
	n := func(x string) string { return oracle.NormText(strings.ReplaceAll(x, "\u00a0", "\u2423")) } // a no-break space is a character, not white space
	want, got = n(want), n(got)
	if want == got {
		return nil
	}
	if len(want) > 4000 || len(got) > 4000 {
		return []string{"text-differs"}
	}
	if mask, ok := c20Align(want, got, viaParser); ok {
		var cls []string
		if mask&c20xBS != 0 {
			cls = append(cls, "backslash-escape-kept")
		}
		if mask&c20xCR != 0 {
			cls = append(cls, "charref-not-decoded")
		}
		if mask&c20xAMP != 0 {
			cls = append(cls, "literal-ampersand-decoded-as-charref")
		}
		if mask&c20xWSExtra != 0 {
			cls = append(cls, "whitespace-extra")
		}
		if mask&c20xWSMissing != 0 {
			cls = append(cls, "whitespace-missing")
		}
		return cls
	}
	// template code evaluated: everything around the mustaches is intact, a mustache is gone
	if loc := c20MustacheRe.FindAllStringIndex(want, -1); len(loc) > 0 {
		prefix, suffix := want[:loc[0][0]], want[loc[len(loc)-1][1]:]
		if len(got) >= len(prefix)+len(suffix) && strings.HasPrefix(got, prefix) && strings.HasSuffix(got, suffix) {
			for _, l := range loc {
				if !strings.Contains(got, want[l[0]:l[1]]) {
					return []string{"mustache-evaluated"}
				}
			}
		}
	}
	return []string{"text-differs"}
}

// c20PreTexts returns, for every <pre> element of an HTML fragment in document
// order, its exact text content and the exact text content of its first <code> child.
func c20PreTexts(src string) (pres, codes []string) {
	nodes, err := xhtml.ParseFragment(strings.NewReader(src), &xhtml.Node{Type: xhtml.ElementNode, Data: "body", DataAtom: atom.Body})
	if err != nil {
		return nil, nil
	}
	var text func(n *xhtml.Node, b *strings.Builder)
	text = func(n *xhtml.Node, b *strings.Builder) {
		if n.Type == xhtml.TextNode {
			b.WriteString(n.Data)
		}
		for c := n.FirstChild; c != nil; c = c.NextSibling {
			text(c, b)
		}
	}
	var walk func(n *xhtml.Node)
	walk = func(n *xhtml.Node) {
		if n.Type == xhtml.ElementNode && n.Data == "pre" {
			var b strings.Builder
			text(n, &b)
			pres = append(pres, b.String())
			code := ""
			for c := n.FirstChild; c != nil; c = c.NextSibling {
				if c.Type == xhtml.ElementNode && c.Data == "code" {
					var cb strings.Builder
					text(c, &cb)
					code = cb.String()
					break
				}
			}
			codes = append(codes, code)
			return
		}
		for c := n.FirstChild; c != nil; c = c.NextSibling {
			walk(c)
		}
	}
	for _, n := range nodes {
		walk(n)
	}
	return
}

type c20Inline struct{ name, flat string }

// c20InlineFlats parses an HTML fragment without any white-space normalisation
// and returns, for every inline container (p, h1-h6, th, td, li) whose content
// is phrasing content only, the text as a reader sees it: boundaries of phrasing
// elements contribute nothing, a <br> (or a run of them) is one token.
func c20InlineFlats(src string) []c20Inline {
	nodes, err := xhtml.ParseFragment(strings.NewReader(src), &xhtml.Node{Type: xhtml.ElementNode, Data: "body", DataAtom: atom.Body})
	if err != nil {
		return nil
	}
	var out []c20Inline
	var allPhrasing func(n *xhtml.Node) bool
	allPhrasing = func(n *xhtml.Node) bool {
		for c := n.FirstChild; c != nil; c = c.NextSibling {
			if c.Type == xhtml.ElementNode && (!c20Phrasing[c.Data] || !allPhrasing(c)) {
				return false
			}
		}
		return true
	}
	var walk func(n *xhtml.Node)
	walk = func(n *xhtml.Node) {
		if n.Type == xhtml.ElementNode && c20InlineContainers[n.Data] && allPhrasing(n) {
			var b strings.Builder
			prevBr := false
			var f func(x *xhtml.Node)
			f = func(x *xhtml.Node) {
				for c := x.FirstChild; c != nil; c = c.NextSibling {
					switch {
					case c.Type == xhtml.TextNode:
						b.WriteString(c.Data)
						if strings.TrimSpace(c.Data) != "" {
							prevBr = false
						}
					case c.Type == xhtml.ElementNode && c.Data == "br":
						if !prevBr {
							b.WriteString(" \u23ce ")
						}
						prevBr = true
					case c.Type == xhtml.ElementNode && (c.Data == "img" || c.Data == "input"):
						b.WriteString("\u25a3")
						prevBr = false
					case c.Type == xhtml.ElementNode:
						f(c)
					}
				}
			}
			f(n)
			out = append(out, c20Inline{n.Data, b.String()})
			return
		}
		for c := n.FirstChild; c != nil; c = c.NextSibling {
			walk(c)
		}
	}
	for _, n := range nodes {
		walk(n)
	}
	return out
}

// inlineWhitespace compares the reader's view of every inline container; only
// white-space differences are reported here (everything else is found node by node).
func (cm *c20Cmp) inlineWhitespace(ref, out string) {
	for _, d := range cm.diffs {
		if d.class == "structure-differs" || d.class == "literal-lt-became-markup" {
			return
		}
	}
	w, g := c20InlineFlats(ref), c20InlineFlats(out)
	if len(w) != len(g) {
		return
	}
	for i := range w {
		if w[i].name != g[i].name {
			return
		}
	}
	seen := map[string]bool{}
	for i := range w {
		n := func(x string) string { return oracle.NormText(strings.ReplaceAll(x, "\u00a0", "\u2423")) }
		fw, fg := n(w[i].flat), n(g[i].flat)
		if fw == fg || len(fw) > 4000 || len(fg) > 4000 {
			continue
		}
		mask, ok := c20Align(fw, fg, true)
		if !ok {
			continue
		}
		if mask&c20xWSExtra != 0 && !seen["x"] {
			seen["x"] = true
			cm.add(false, "whitespace-inserted-after-inline-element", "text", "inline content of <%s>: the reference reads %q, the engine output reads %q (white space where the source has none)", w[i].name, clip(fw, 120), clip(fg, 120))
		}
		if mask&c20xWSMissing != 0 && !seen["m"] {
			seen["m"] = true
			cm.add(false, "whitespace-at-inline-element-edge-trimmed", "text", "inline content of <%s>: the reference reads %q, the engine output reads %q (white space of the source lost)", w[i].name, clip(fw, 120), clip(fg, 120))
		}
	}
}
