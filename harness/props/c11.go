package props

import (
	"bytes"
	"encoding/json"
	"fmt"
	"io/fs"
	"os"
	"path/filepath"
	"sort"
	"strings"
	"sync"
	"sync/atomic"

	vuego "github.com/titpetric/vuego"

	"verifharness/core"
)

// C11 — every render call returns: no panic, no unbounded recursion.
// Monitors: the worker's recover wrapper (panic -> violation), the parent's
// crash attribution (fatal errors), and logical step/depth bounds enforced by
// hooks inside the engine (unbounded recursion is decided after microseconds).

type c11Case struct {
	Part  string            `json:"part"` // soup | types | graph | layout | struct
	Tpl   string            `json:"tpl,omitempty"`
	Files map[string]string `json:"files,omitempty"`
	Entry string            `json:"entry,omitempty"`
	EP    string            `json:"ep,omitempty"` // string | byte | reader | file | renderfile | vue | fragment
	Val   *TV               `json:"val,omitempty"`
	Pos   string            `json:"pos,omitempty"`
	Root  string            `json:"root,omitempty"` // struct part: kind of root data
}

// CrashTag names the data of a types case when it is self-referential (a fatal
// stack overflow while such a value is printed is a finding of its own), and
// names an amplification case by its shape: where the process runs out of
// memory differs from run to run.
func (p *c11) CrashTag(cc any, kind, fn string) string {
	c, ok := cc.(c11Case)
	if !ok {
		return ""
	}
	if c.Val != nil && (c.Val.K == "cyclicMap" || c.Val.K == "cyclicSlice") {
		return kind + ":" + fn + "/data:" + c.Val.K
	}
	if c.Part == "amplify" && kind == "out-of-memory" {
		return kind + ":amplify/" + c.Pos
	}
	return ""
}

type c11Abort struct{ what string }

var (
	c11Once     sync.Once
	c11Evals    atomic.Int64
	c11Serial   atomic.Int64
	c11MaxDepth atomic.Int64
	c11MaxChain atomic.Int64
	c11Layout   atomic.Int64
	c11Armed    atomic.Bool
)

const (
	c11LimitChain  = 150   // length of the include chain (documented maximum 100)
	c11LimitDepth  = 5_000 // evaluate() nesting depth (include chain <= 100 files x element nesting)
	c11LimitEvals  = 3_000_000
	c11LimitSerial = 5_000_000
	c11LimitLayout = 120 // layout loop iterations (documented maximum 100)
)

func c11Install() {
	c11Once.Do(func() {
		addHook(func(point, a, b int) {
			if !c11Armed.Load() {
				return
			}
			switch point {
			case vuego.VerifEvalEnter, vuego.VerifIncludeEnter:
				if int64(a) > c11MaxDepth.Load() {
					c11MaxDepth.Store(int64(a))
				}
				if int64(b) > c11MaxChain.Load() {
					c11MaxChain.Store(int64(b))
				}
				if b > c11LimitChain {
					panic(c11Abort{"include-chain"})
				}
				if a > c11LimitDepth {
					panic(c11Abort{"eval-depth"})
				}
				if c11Evals.Add(1) > c11LimitEvals {
					panic(c11Abort{"eval-steps"})
				}
			case vuego.VerifSerializeNode:
				if c11Serial.Add(1) > c11LimitSerial {
					panic(c11Abort{"serialise-steps"})
				}
			case vuego.VerifLayoutIter:
				if c11Layout.Add(1) > c11LimitLayout {
					panic(c11Abort{"layout-steps"})
				}
			}
		})
	})
}

type c11 struct {
	corpus []string
}

func c11Corpus() []string {
	var out []string
	filepath.WalkDir("/repo", func(p string, d fs.DirEntry, err error) error {
		if err != nil {
			return nil
		}
		if d.IsDir() {
			if d.Name() == ".git" {
				return filepath.SkipDir
			}
			return nil
		}
		if strings.HasSuffix(p, ".vuego") {
			if raw, err := os.ReadFile(p); err == nil && len(raw) < 20000 {
				out = append(out, string(raw))
			}
		}
		return nil
	})
	sort.Strings(out)
	return out
}

func init() {
	p := &c11{corpus: c11Corpus()}
	core.Register(p, core.Meta{
		MemKB: 3 << 20,
		Assumptions: []string{
			"functions registered by the harness are total; a panic inside a user function would not be counted against the engine",
			"bounded progress is decided on logical counters reported by hooks (include chain <= 150, layout iterations <= 120, evaluate depth <= 5k, <= 3M evaluate calls and <= 5M serialiser steps per case); a wall-clock watchdog firing without a bound being exceeded is inconclusive",
			"self-referential maps / slices and self-including components that double their work per level are generated as fixed cases only (they kill the worker process; recorded as known findings), the worker's address space is limited to 3 GB so that memory exhaustion is observed as the runtime's own fatal error",
		},
		TimeoutS: func(ctx core.Ctx) int { return ctx.Pick(900, 3600) },
	})
}

func (p *c11) ID() string { return "C11" }
func (p *c11) Rule() string {
	return "longlived: 16 sequences (Template string / Template file / Vue.Render / Vue.RenderFragment x conditions / operators / paths / mixed) of 700 distinct templates rendered on ONE engine - far more distinct expressions and paths than its caches hold - every render returns (a render parked on a lock nobody else holds is read off the goroutine dump); expr: every string of <=3 (thorough <=4) tokens over 26 expression fragments (names, pipes, calls, lone quotes, brackets, operators, mustache delimiters) written into 8 expression positions ({{ }}, :attr, v-text, v-if, v-for, v-html, mustache in a static attribute, :class/:style object values); soup: seeded random bytes, token soup over an HTML/mustache/directive dictionary and byte/token mutations of the repository's .vuego corpus, as template body and as front-matter, through 7 entry points; types: every typed value of a 45-value catalogue (all numeric kinds, nil, typed nils, chan, func, maps with non-string keys, structs with unexported/embedded fields, cyclic pointer struct, deep nesting) x every directive position (v-for collection, v-if/else-if, v-show, :style with/without static style, :class, object syntax, v-html, v-text, bound/interpolated attrs, path steps, every built-in filter and argument position, operators, include props, slot props, template vars) - exhaustive; graph: every include graph over 3 files (each includes any subset of the others and itself) x 4 include forms (direct, in v-for, in v-if, as slot content) - exhaustive, plus layout cycles/chains; slotfwd: wrapper components forwarding named/default/scoped slots to inner components (also through two levels, inside v-for, and through a layout); struct: struct/pointer root data with unexported, embedded and cyclic fields; non-trivial = every case that reached the engine; distinct by case content"
}

var c11Vals = []TV{
	tvNil(), tvMissing(), tvB(true), tvB(false), tvI(0), tvI(7), {K: "int8", I: -1}, {K: "int64", I: 1 << 62}, {K: "uint8", U: 255}, {K: "uint64", U: 1<<64 - 1}, {K: "uintptr", U: 1},
	tvF(0), tvF(1.5), {K: "float32", F: 0.1}, {K: "float64", F: 1e308}, tvS(""), tvS("str"), tvS("{{ v }}"), tvS("a.b[0]"), tvS("12"),
	tvList(), tvList(tvI(1), tvS("a"), tvNil()), tvKind("[]string", tvS("a")), tvKind("[]int", tvI(1), tvI(2)), tvKind("[2]int", tvI(1), tvI(2)), tvKind("[][]int", tvKind("[]int", tvI(1))), {K: "nilslice"},
	tvMap(map[string]TV{}), tvMap(map[string]TV{"a": tvMap(map[string]TV{"b": tvList(tvMap(map[string]TV{"c": tvI(1)}), tvMap(map[string]TV{"c": tvS("x")}))})}), {K: "map[string]string", M: map[string]TV{"a": tvS("b")}}, {K: "map[string]int", M: map[string]TV{"a": tvI(1)}}, {K: "map[int]string", L: []TV{tvS("zero"), tvS("one")}}, {K: "nilmap"},
	{K: "Item", M: map[string]TV{"title": tvS("t"), "hidden": tvS("h"), "tags": tvList(tvS("x"))}}, {K: "*Item", M: map[string]TV{"title": tvS("t"), "sub": {M: map[string]TV{"title": tvS("s")}}}}, {K: "nil*Item"}, {K: "Emb", S: "e", M: map[string]TV{"title": tvS("t")}}, {K: "[]Item", L: []TV{{M: map[string]TV{"title": tvS("a")}}}}, {K: "[]*Item", L: []TV{{M: map[string]TV{"title": tvS("a")}}}},
	{K: "NamedBool", B: true}, {K: "NamedBool"}, {K: "NamedInt", I: 3}, {K: "NamedInt"}, {K: "NamedInt8", I: -1}, {K: "NamedUint8", U: 5}, {K: "NamedUint8"}, {K: "NamedUint64", U: 1 << 63}, {K: "NamedFloat", F: 0.5}, {K: "NamedString", S: "ns"}, {K: "NamedString"}, {K: "FileMode", U: 0o644}, {K: "FileMode"}, {K: "Duration", I: 1500}, {K: "Month", I: 2},
	{K: "nil*[]any"}, {K: "nil*[]Item"}, {K: "nil*map"}, {K: "nil*[2]int"}, {K: "*[]any"}, {K: "*map"},
	{K: "nil*time"}, {K: "nil*Stringer"}, {K: "nil*error"}, {K: "*time", I: 1700000000}, {K: "Stringer", S: "s"}, {K: "error", S: "e"},
	{K: "time", I: 1700000000}, {K: "chan"}, {K: "func"}, {K: "struct{}"}, {K: "cyclic*Item"}, {K: "deep"},
	{K: "cyclicMap"}, {K: "cyclicSlice"}, {K: "embNilPtr"}, {K: "*embNilPtr"},
}

// c11Go builds the value, adding the kinds only this check needs.
func c11Go(t TV) any {
	switch t.K {
	case "cyclic*Item":
		it := &Item{Title: "cyc"}
		it.Sub = it
		return it
	case "cyclicValue": // page.Meta is a value struct whose Owner points back to the page
		pg := &CycPage{Title: "t", Meta: CycMeta{Note: "n", Tags: []string{"x"}}}
		pg.Meta.Owner = pg
		pg.Sub = pg
		return pg
	case "cyclicValueByValue": // the same, the root handed over by value
		pg := &CycPage{Title: "t", Meta: CycMeta{Note: "n"}}
		pg.Meta.Owner = pg
		return *pg
	case "cyclic2*Item": // a cycle of two: a.Sub = b, b.Sub = a
		a, b := &Item{Title: "a"}, &Item{Title: "b"}
		a.Sub, b.Sub = b, a
		return a
	case "cyclicMap": // a map that holds itself
		m := map[string]any{"a": 1}
		m["self"] = m
		return m
	case "cyclicSlice": // a slice whose element is the slice
		sl := []any{1, nil}
		sl[1] = sl
		return sl
	case "embNilPtr": // fields promoted through a nil embedded pointer
		return C17EmbP{Name: "n"}
	case "*embNilPtr":
		return &C17EmbP{Name: "n"}
	case "deep":
		var v any = "leaf"
		for i := 0; i < 2000; i++ {
			if i%2 == 0 {
				v = map[string]any{"a": v}
			} else {
				v = []any{v}
			}
		}
		return v
	}
	return t.Go()
}

var c11Positions = []struct{ name, tpl string }{
	{"for", `<p v-for="x in v">{{ x }}</p>`},
	{"for-index", `<p v-for="(i, x) in v">{{ i }}{{ x }}</p>`},
	{"for-path", `<p v-for="x in v.a.b">{{ x.c }}</p>`},
	{"for-nested", `<div v-for="x in v"><i v-for="y in x">{{ y }}</i></div>`},
	{"if", `<p v-if="v">a</p><p v-else-if="v">b</p><p v-else>c</p>`},
	{"if-not", `<p v-if="!v">a</p>`},
	{"show", `<p v-show="v">a</p><p style="color:red" v-show="!v">b</p>`},
	{"style", `<p :style="v">a</p>`},
	{"style-static", `<p style="color:red" :style="v">a</p>`},
	{"class", `<p :class="v">a</p><p class="s" :class="v">a</p>`},
	{"class-object", `<p :class="{a: v, 'b-c': !v}">a</p>`},
	{"style-object", `<p style="margin:0" :style="{color: v, fontSize: v}">a</p>`},
	{"html", `<p v-html="v">a</p>`},
	{"text", `<p v-text="v">a</p>`},
	{"bound", `<p :title="v" v-bind:id="v">a</p>`},
	{"attr", `<p title="{{ v }}" data-x="a{{ v }}b">a</p>`},
	{"interp", `<p>{{ v }}</p>`},
	{"path-dot", `<p>{{ v.a }}|{{ v.a.b }}|{{ v.title }}|{{ v.Title }}|{{ v.hidden }}|{{ v.Sub.Sub.title }}|{{ v.Item.title }}</p>`},
	{"path-index", `<p>{{ v[0] }}|{{ v[1].c }}|{{ v[-1] }}|{{ v[99] }}|{{ v['a'] }}|{{ v["a"].b[0].c }}|{{ v[x] }}|{{ v[ }}|{{ v.0 }}</p>`},
	{"filters-1", `<p>{{ v | upper }}|{{ v | lower }}|{{ v | title }}|{{ v | trim }}|{{ v | len }}|{{ v | escape }}|{{ v | int }}|{{ v | string }}|{{ v | type }}</p>`},
	{"filter-json", `<p>{{ v | json }}</p>`},
	{"filter-jsonpretty", `<p>{{ v | jsonPretty }}</p>`},
	{"filter-default", `<p>{{ v | default("d") }}|{{ zz | default(v) }}</p>`},
	{"filter-time", `<p>{{ v | formatTime("2006") }}|{{ v | formatDate }}|{{ t | formatTime(v) }}</p>`},
	{"filter-userfunc", `<p>{{ v | shout }}</p>`},
	{"filter-userfunc-int", `<p>{{ v | add(1) }}</p>`},
	{"filter-userfunc-arg", `<p>{{ one | add(v) }}</p>`},
	{"filter-file", `<p>{{ v | file }}</p>`},
	{"nest-130", strings.Repeat("<div>", 130) + "x" + strings.Repeat("</div>", 130)},
	{"nest-260", strings.Repeat("<section><i>", 130) + "x" + strings.Repeat("</i></section>", 130)},
	{"nest-500", strings.Repeat("<b>", 500) + "x" + strings.Repeat("</b>", 500)},
	{"userfunc-pipe-longdate", `<p>{{ v | longdate }}</p>`},
	{"userfunc-call-longdate", `<p>{{ longdate(v) }}</p>`},
	{"userfunc-attr-longdate", `<p :title="longdate(v)" v-if="longdate(v)">c</p><p v-text="v | longdate"></p>`},
	{"userfunc-pipe-itemtitle", `<p>{{ v | itemtitle }}</p>`},
	{"userfunc-call-itemtitle", `<p>{{ itemtitle(v) }}</p>`},
	{"userfunc-attr-itemtitle", `<p :title="itemtitle(v)" v-if="itemtitle(v)">c</p><p v-text="v | itemtitle"></p>`},
	{"userfunc-pipe-ptitle", `<p>{{ v | ptitle }}</p>`},
	{"userfunc-call-ptitle", `<p>{{ ptitle(v) }}</p>`},
	{"userfunc-attr-ptitle", `<p :title="ptitle(v)" v-if="ptitle(v)">c</p><p v-text="v | ptitle"></p>`},
	{"userfunc-pipe-sumints", `<p>{{ v | sumints }}</p>`},
	{"userfunc-call-sumints", `<p>{{ sumints(v) }}</p>`},
	{"userfunc-attr-sumints", `<p :title="sumints(v)" v-if="sumints(v)">c</p><p v-text="v | sumints"></p>`},
	{"userfunc-pipe-nkeys", `<p>{{ v | nkeys }}</p>`},
	{"userfunc-call-nkeys", `<p>{{ nkeys(v) }}</p>`},
	{"userfunc-attr-nkeys", `<p :title="nkeys(v)" v-if="nkeys(v)">c</p><p v-text="v | nkeys"></p>`},
	{"userfunc-pipe-flagof", `<p>{{ v | flagof }}</p>`},
	{"userfunc-call-flagof", `<p>{{ flagof(v) }}</p>`},
	{"userfunc-attr-flagof", `<p :title="flagof(v)" v-if="flagof(v)">c</p><p v-text="v | flagof"></p>`},
	{"userfunc-pipe-halfof", `<p>{{ v | halfof }}</p>`},
	{"userfunc-call-halfof", `<p>{{ halfof(v) }}</p>`},
	{"userfunc-attr-halfof", `<p :title="halfof(v)" v-if="halfof(v)">c</p><p v-text="v | halfof"></p>`},
	{"userfunc-pipe-pairof", `<p>{{ v | pairof }}</p>`},
	{"userfunc-call-pairof", `<p>{{ pairof(v) }}</p>`},
	{"userfunc-attr-pairof", `<p :title="pairof(v)" v-if="pairof(v)">c</p><p v-text="v | pairof"></p>`},
	{"userfunc-pipe-anyof", `<p>{{ v | anyof }}</p>`},
	{"userfunc-call-anyof", `<p>{{ anyof(v) }}</p>`},
	{"userfunc-attr-anyof", `<p :title="anyof(v)" v-if="anyof(v)">c</p><p v-text="v | anyof"></p>`},
	{"userfunc-joinv-0", `<p>{{ v | joinv }}</p>`},
	{"userfunc-joinv-1", `<p>{{ joinv(v) }}</p>`},
	{"userfunc-joinv-2", `<p>{{ joinv("-", v, v) }}</p>`},
	{"userfunc-joinv-3", `<p>{{ "-" | joinv(v) }}</p>`},
	{"call", `<p>{{ len(v) }}|{{ upper(v) }}</p>`},
	{"op-eq", `<p>{{ v == 1 }}|{{ v != "a" }}|{{ v === v }}</p>`},
	{"op-cmp", `<p>{{ v > 1 }}</p>`},
	{"op-arith", `<p>{{ v + 1 }}</p>`},
	{"op-arith2", `<p>{{ v * v }}|{{ 1 / v }}|{{ 1 % v }}</p>`},
	{"op-ternary", `<p>{{ v ? 1 : 2 }}</p>`},
	{"op-logic", `<p>{{ v && true }}|{{ v || false }}</p>`},
	{"op-dotpipe", `<p>{{ v | . > 1 ? "a" : "b" }}</p>`},
	{"template-var", `<template :x="v" y="{{ v }}"><p>{{ x }}{{ y }}</p></template>`},
	{"include-prop", `<template include="c.vuego" :p="v" q="{{ v }}"></template>`},
	{"include-dynamic", `<template include="{{ v }}"></template>`},
	{"slot-prop", `<template include="s.vuego"><template v-slot="sp">{{ sp.item }}|{{ sp.item.a }}|{{ sp.item[0] }}</template></template>`},
	{"required", `<template include="r.vuego" :must="v"></template>`},
	{"once-pre", `<p v-once :title="v">{{ v }}</p><p v-pre :title="v">{{ v }}</p>`},
}

var c11TypeFiles = map[string]string{
	"c.vuego": `<div><p v-for="x in p">{{ x }}</p><i>{{ p }}{{ q }}{{ p.a }}</i></div>`,
	"s.vuego": `<ul><li><slot :item="v">fb</slot></li></ul>`,
	"r.vuego": `<template :required="must"><b>{{ must }}</b></template>`,
}

var c11EPs = []string{"string", "byte", "reader", "file", "renderfile", "vue", "fragment"}

var c11Tokens = []string{
	"<div>", "</div>", "<p", ">", "<template", " include=\"a.vuego\"", " v-for=\"x in items\"", " v-for=\"(i,x) in\"", " v-for=\"in\"", " v-if=\"", "\"", " v-else-if=\"x\"", " v-else", " v-show=\"!x\"", " v-html=\"x\"", " v-text=\"", " v-once", " v-pre", " v-keep", " :class=\"{a:", "}\"", " :style=\"{", " :x=\"", " v-bind:=\"\"", " :=\"x\"", " [x]=\"y\"", " []=\"\"", " #=\"\"", " #a=\"{ b }\"", " v-slot:=\"\"", " v-slot=\"{\"",
	"<slot", " name=\"", "</slot>", "</template>", "{{", "}}", "{{ x | ", "upper", " | ", "default(", ")", "(", ",", "\"a", "'b", " x.y[0] ", "[", "]", ".", "..", " == ", " ? ", " : ", " + ", " && ", "!", "items", "user.name", "{{}}", "{{ }}", "{{ | }}", "{{ a | b(c,) }}", "{{ f( }}", "{{ x[ }}", "{{ 1/0 }}", "{{ .. }}",
	"<script>", "</script>", "<style>", "<style lang=\"less\">", "</style>", "<!--", "-->", "<!DOCTYPE html>", "<html>", "</html>", "<head>", "<body>", "<table>", "<tr>", "<td>", "<svg>", "<math>", "<textarea>", "<title>", "<select>", "<option>", "<br>", "&amp;", "&#0;", "&#x110000;", "\x00", "\xff\xfe", "\n", "\r\n", "\t", " ", "=", "<", "/>", "</", "<a b=c d='e' f>", "---\n", "layout: x\n", "a: [1, 2\n", "? - : |\n",
}

func (p *c11) dims(ctx core.Ctx) (soup, types, graph, layout, strct int) {
	return ctx.Pick(60000, 2000000), len(c11Vals) * len(c11Positions), 512 * 4, 24, c11NStruct + len(c11SlotForward) + c11NAmplify
}

// amplification: a component that includes itself and does work that doubles per
// level *before* it descends (the depth limit bounds the chain, not the work).
var c11Amplify = []map[string]string{
	{"page.vuego": `<template include="a.vuego"><i>x</i></template>`,
		"a.vuego": `<div><slot></slot></div><template include="a.vuego"><slot></slot><slot></slot></template>`},
	{"page.vuego": `<template include="a.vuego" :v="'ab'"></template>`,
		"a.vuego": `<template include="a.vuego" :v="v + v"></template>`},
}

var c11NAmplify = len(c11Amplify) * 4

// slot forwarding shapes: a wrapper component hands its own slots on to an
// inner component (recursion through slots must be bounded too)
var c11SlotForward = []map[string]string{
	{"page.vuego": `<template include="panel.vuego"><template #header>Hello</template><p>body</p></template>`,
		"panel.vuego": `<template include="card.vuego"><template #header><slot name="header">Panel</slot></template><slot></slot></template>`,
		"card.vuego":  `<div><header><slot name="header">H</slot></header><slot>B</slot></div>`},
	{"page.vuego": `<template include="panel.vuego"></template>`,
		"panel.vuego": `<template include="card.vuego"><template #header><slot name="header">Panel</slot></template><slot></slot></template>`,
		"card.vuego":  `<div><header><slot name="header">H</slot></header><slot>B</slot></div>`},
	{"page.vuego": `<template include="panel.vuego"><template v-slot:header="p">{{ p.n }}</template></template>`,
		"panel.vuego": `<section><template include="card.vuego"><template v-slot:header="q"><slot name="header" :n="q.n">Panel</slot></template></template></section>`,
		"card.vuego":  `<div><slot name="header" :n="1">H</slot></div>`},
	{"page.vuego": `<template include="panel.vuego"><i>x</i></template>`,
		"panel.vuego": `<template include="card.vuego"><template #header><slot>Panel</slot></template><template #default><slot name="header">D</slot></template></template>`,
		"card.vuego":  `<div><slot name="header">H</slot><slot>B</slot></div>`},
	{"page.vuego": `<template include="a.vuego"><template #s>top</template></template>`,
		"a.vuego": `<template include="b.vuego"><template #s><slot name="s">A</slot></template></template>`,
		"b.vuego": `<template include="c.vuego"><template #s><slot name="s">B</slot></template></template>`,
		"c.vuego": `<p><slot name="s">C</slot></p>`},
	{"page.vuego": `<template include="panel.vuego"><template #header>Hello</template></template>`,
		"panel.vuego": `<div v-for="k in two"><template include="card.vuego"><template #header><slot name="header">Panel</slot></template></template></div>`,
		"card.vuego":  `<div><slot name="header">H</slot></div>`},
	{"page.vuego": "---\nlayout: lay\n---\n<template #side><slot name=\"side\">x</slot></template><p>b</p>",
		"layouts/lay.vuego": `<aside><slot name="side">FB</slot></aside><main v-html="content"></main>`},
}

var c11StructRoots = []string{"Item", "*Item", "Emb", "cyclic*Item", "cyclic2*Item", "cyclicValue", "cyclicValueByValue", "nil*Item", "[]Item", "map[int]string", "string", "int", "chan", "func", "deep"}

// every root through every entry point
var c11NStruct = len(c11StructRoots) * len(c11EPs)

func (p *c11) Plan(ctx core.Ctx) int {
	a, b, c, d, e := p.dims(ctx)
	return a + b + c + d + e + c11NExpr(ctx) + c11NLong()
}

// expr part: every string of <=3 (thorough <=4) tokens over an alphabet of
// expression fragments, written into each position in which the engine parses
// an expression (the soups above rarely form a complete directive around such a
// string). No outcome is expected except "returns".
var c11ExprTokens = []string{"x", " | ", "default(", "upper", "(", ")", "'", `"`, ",", "1", ".", "[", "]", " ", "-", "!", " == ", " ? ", " : ", "a'b", `\`, "items", "{{", "}}", "|", "&&"}
var c11ExprPos = []string{`<p>{{ $ }}</p>`, `<p :title="$">k</p>`, `<p v-text="$">k</p>`, `<p v-if="$">k</p><p v-else>e</p>`, `<p v-for="it in $">{{ it }}</p>`, `<p v-html="$"></p>`, `<p title="a {{ $ }} b">k</p>`, `<p :class="{on: $}" :style="{color: $}">k</p>`}

func c11NExpr(ctx core.Ctx) int {
	n, t, pw := len(c11ExprTokens), 0, 1
	for l := 1; l <= ctx.Pick(3, 4); l++ {
		pw *= n
		t += pw
	}
	return t * len(c11ExprPos)
}

func c11ExprCase(i int) c11Case {
	pos := c11ExprPos[i%len(c11ExprPos)]
	i /= len(c11ExprPos)
	n := len(c11ExprTokens)
	l, pw := 1, n
	for i >= pw {
		i -= pw
		pw *= n
		l++
	}
	var b strings.Builder
	for k := 0; k < l; k++ {
		b.WriteString(c11ExprTokens[i%n])
		i /= n
	}
	e := b.String()
	if !strings.Contains(pos, "{{ $") {
		e = strings.ReplaceAll(e, `"`, "&quot;") // inside a double-quoted attribute
	}
	return c11Case{Part: "expr", EP: c11EPs[(i+l)%len(c11EPs)], Tpl: strings.ReplaceAll(pos, "$", e)}
}

func (p *c11) soup(r *core.RNG) string {
	switch r.Intn(4) {
	case 0: // random bytes
		b := make([]byte, r.Intn(200))
		for i := range b {
			b[i] = byte(r.Next())
		}
		return string(b)
	case 1, 2: // token soup
		var b strings.Builder
		for k := 1 + r.Intn(40); k > 0; k-- {
			b.WriteString(core.Pick(r, c11Tokens))
		}
		return b.String()
	default: // mutated corpus
		if len(p.corpus) == 0 {
			return "<p>{{ x }}</p>"
		}
		s := []byte(core.Pick(r, p.corpus))
		for k := 1 + r.Intn(6); k > 0 && len(s) > 0; k-- {
			i := r.Intn(len(s))
			switch r.Intn(5) {
			case 0:
				s[i] = byte(r.Next())
			case 1:
				s = append(s[:i], s[min(len(s), i+1+r.Intn(20)):]...)
			case 2:
				tok := core.Pick(r, c11Tokens)
				s = append(s[:i], append([]byte(tok), s[i:]...)...)
			case 3:
				j := r.Intn(len(s))
				if i > j {
					i, j = j, i
				}
				s = append(s[:j], append(append([]byte{}, s[i:j]...), s[j:]...)...)
			default:
				s = s[:i]
			}
		}
		return string(s)
	}
}

func (p *c11) Gen(ctx core.Ctx, i int) any {
	if a, b, c, d, e := p.dims(ctx); i >= a+b+c+d+e+c11NExpr(ctx) {
		return c11LongCase(i - (a + b + c + d + e + c11NExpr(ctx)))
	}
	nsoup, ntypes, ngraph, nlayout, _ := p.dims(ctx)
	if i < nsoup {
		r := core.NewRNG(ctx.Seed, 0xC11, uint64(i))
		c := c11Case{Part: "soup", EP: core.Pick(r, c11EPs), Tpl: p.soup(r)}
		if r.Chance(1, 3) {
			c.Tpl = "---\n" + p.soup(r) + "\n---\n" + c.Tpl
		}
		c.Files = map[string]string{"a.vuego": p.soup(r)}
		if r.Chance(1, 4) {
			c.Files["layouts/base.vuego"] = p.soup(r)
		}
		return c
	}
	i -= nsoup
	if i < ntypes {
		v := c11Vals[i%len(c11Vals)]
		pos := c11Positions[i/len(c11Vals)]
		return c11Case{Part: "types", Pos: pos.name, Tpl: pos.tpl, Val: &v, EP: c11EPs[(i+int(ctx.Seed))%len(c11EPs)]}
	}
	i -= ntypes
	if i < ngraph {
		form := i % 4
		g := i / 4
		names := []string{"a.vuego", "b.vuego", "c.vuego"}
		files := map[string]string{}
		for k, n := range names {
			mask := (g >> (3 * k)) & 7
			var b strings.Builder
			b.WriteString(`<div data-f="` + n + `">`)
			for j, m := range names {
				if mask&(1<<j) == 0 {
					continue
				}
				inc := `<template include="` + m + `"></template>`
				switch form {
				case 1:
					inc = `<template v-for="x in two"><template include="` + m + `"></template></template>`
				case 2:
					inc = `<section v-if="t"><template include="` + m + `"></template></section>`
				case 3:
					inc = `<template include="box.vuego"><template include="` + m + `"></template></template>`
				}
				b.WriteString(inc)
			}
			b.WriteString(`</div>`)
			files[n] = b.String()
			if form == 0 && g%2 == 1 {
				// the include is the very first node of the file (no wrapping element)
				files[n] = strings.TrimSuffix(strings.TrimPrefix(files[n], `<div data-f="`+n+`">`), `</div>`)
			}
		}
		files["box.vuego"] = `<div class="box"><slot>empty</slot></div>`
		return c11Case{Part: "graph", Files: files, Entry: "a.vuego", EP: []string{"file", "vue", "renderfile", "fragment"}[g%4]}
	}
	i -= ngraph
	if i < nlayout {
		files := map[string]string{}
		n := 1 + i%4 // cycle length
		pre := (i / 4) % 3
		total := n + pre
		for k := 0; k < total; k++ {
			next := k + 1
			if k == total-1 {
				next = pre // back edge
			}
			body := `<div v-html="content"></div>`
			if (i/12)%2 == 0 && i%3 == 0 {
				body += body // a layout that uses its content twice doubles the document per round
			}
			files[fmt.Sprintf("layouts/l%d.vuego", k)] = fmt.Sprintf("---\nlayout: l%d\n---\n<div data-l=\"%d\">%s</div>", next, k, body)
		}
		if i >= 12 { // long straight chains instead of cycles
			files = map[string]string{}
			ln := []int{99, 100, 101, 150}[i%4]
			for k := 0; k < ln; k++ {
				fm := fmt.Sprintf("---\nlayout: l%d\n---\n", k+1)
				if k == ln-1 {
					fm = ""
				}
				files[fmt.Sprintf("layouts/l%d.vuego", k)] = fm + `<div><div v-html="content"></div></div>`
			}
		}
		files["page.vuego"] = "---\nlayout: l0\n---\n<p>page</p>"
		return c11Case{Part: "layout", Files: files, Entry: "page.vuego", EP: []string{"file", "renderfile"}[i%2]}
	}
	i -= nlayout
	if ns := c11NStruct + len(c11SlotForward) + c11NAmplify; i >= ns {
		return c11ExprCase(i - ns)
	}
	if k := i - c11NStruct - len(c11SlotForward); k >= 0 {
		return c11Case{Part: "amplify", Pos: []string{"slot-content-doubles", "prop-doubles"}[k%len(c11Amplify)], Files: c11Amplify[k%len(c11Amplify)], Entry: "page.vuego", EP: []string{"file", "vue", "renderfile", "fragment"}[k/len(c11Amplify)]}
	}
	if i >= c11NStruct {
		return c11Case{Part: "slotfwd", Files: c11SlotForward[(i-c11NStruct)%len(c11SlotForward)], Entry: "page.vuego", EP: []string{"file", "vue", "renderfile", "fragment"}[(i-c11NStruct)%4]}
	}
	roots := c11StructRoots
	return c11Case{Part: "struct", Root: roots[i%len(roots)], EP: c11EPs[(i/len(roots))%len(c11EPs)],
		Tpl: `<p>{{ title }}|{{ Title }}|{{ hidden }}|{{ Plain }}|{{ sub.title }}|{{ Sub.Sub.Sub.title }}|{{ extra }}|{{ Item.title }}</p><p v-if="title == 't'">eq</p><i v-for="t in tags">{{ t }}</i><b :title="count">{{ count + 1 }}</b><u>{{ sub }}</u><u v-text="sub"></u><u :data-x="sub" v-html="sub"></u><u :class="{a: sub}" v-show="sub">{{ sub | json }}</u><s v-for="(k, v) in sub">{{ k }}={{ v }}</s><em>{{ meta.note }}|{{ meta.owner.title }}|{{ meta }}|{{ meta.owner.meta.owner.meta.note }}</em><em v-if="meta.owner">{{ meta.owner | json }}</em>`}
}

func (p *c11) Decode(raw json.RawMessage) (any, error) { return core.JSONDecode[c11Case](raw) }

func c11Run(ep string, files map[string]string, entry, tpl string, data any) (string, error) {
	var b bytes.Buffer
	var err error
	fsys := memFS(files)
	opts := []vuego.LoadOption{vuego.WithFuncs(catFuncs())}
	switch ep {
	case "string":
		err = vuego.NewFS(fsys, opts...).Fill(data).RenderString(bg, &b, tpl)
	case "byte":
		err = vuego.NewFS(fsys, opts...).Fill(data).RenderByte(bg, &b, []byte(tpl))
	case "reader":
		err = vuego.NewFS(fsys, opts...).Fill(data).RenderReader(bg, &b, strings.NewReader(tpl))
	case "file":
		err = vuego.NewFS(fsys, opts...).Load(entry).Fill(data).Render(bg, &b)
	case "renderfile":
		err = vuego.NewFS(fsys, opts...).Fill(data).RenderFile(bg, &b, entry)
	case "vue":
		err = vuego.NewVue(fsys).Funcs(catFuncs()).Render(&b, entry, data)
	case "fragment":
		err = vuego.NewVue(fsys).Funcs(catFuncs()).RenderFragment(&b, entry, data)
	}
	return b.String(), err
}

func (p *c11) Exec(ctx core.Ctx, cc any) (o core.Obs) {
	c := cc.(c11Case)
	if c.Part == "longlived" {
		return c11ExecLong(c)
	}
	c11Install()
	c11Evals.Store(0)
	c11Serial.Store(0)
	c11MaxDepth.Store(0)
	c11MaxChain.Store(0)
	c11Layout.Store(0)
	files := map[string]string{}
	for k, v := range c.Files {
		files[k] = v
	}
	entry := c.Entry
	var data any = map[string]any{"items": []any{1, "a"}, "user": map[string]any{"name": "N"}, "x": 1, "t": true, "two": []any{1, 2}, "one": 1}
	cls := c.Part
	switch c.Part {
	case "soup", "expr":
		entry = "page.vuego"
		files[entry] = c.Tpl
	case "types":
		entry = "page.vuego"
		files[entry] = c.Tpl
		for k, v := range c11TypeFiles {
			files[k] = v
		}
		m := data.(map[string]any)
		if c.Val.K != "missing" {
			m["v"] = c11Go(*c.Val)
		}
		cls = "types/" + c.Pos + "/" + c.Val.K
	case "struct":
		entry = "page.vuego"
		files[entry] = c.Tpl
		data = c11Go(TV{K: c.Root, S: "str", I: 1, M: map[string]TV{"title": tvS("t"), "hidden": tvS("h"), "tags": tvList(tvS("x"))}, L: []TV{{M: map[string]TV{"title": tvS("a")}, S: "s"}}})
		cls = "struct/" + c.Root
	}
	o.Evals++
	o.NT(mustJSON(c))
	o.Cell(c.Part + "/" + c.EP)
	defer func() {
		c11Armed.Store(false)
		o.Count("max_eval_depth_seen", 0) // keep key present
		if d := c11MaxDepth.Load(); d > 0 {
			o.Count("evaluate_calls", c11Evals.Load())
			o.Count("serialise_steps", c11Serial.Load())
		}
		if r := recover(); r != nil {
			if ab, ok := r.(c11Abort); ok {
				o.Fail(c, "unbounded/"+ab.what+"/"+c.Part, "logical bound exceeded (%s): include chain %d, eval depth %d, evaluate calls %d, serialiser steps %d, layout iterations %d - the engine does not bound this recursion/loop", ab.what, c11MaxChain.Load(), c11MaxDepth.Load(), c11Evals.Load(), c11Serial.Load(), c11Layout.Load())
				return
			}
			panic(r) // real panic: classified by the worker's wrapper (panic@<function>)
		}
	}()
	c11Armed.Store(true)
	out, err := c11Run(c.EP, files, entry, c.Tpl, data)
	c11Armed.Store(false)
	if err != nil {
		o.Cell("returned-error/" + c.Part)
	} else {
		o.Cell("returned-output/" + c.Part)
	}
	// cyclic graphs must end in an error, not in output
	if c.Part == "graph" && err == nil && c11GraphCyclic(c.Files) && strings.Count(out, "data-f") > 5000 {
		o.Fail(c, "graph/cycle-produced-output", "a cyclic include graph produced %d bytes of output instead of an error", len(out))
	}
	if c.Part == "layout" && err == nil && len(c.Files) < 20 {
		o.Fail(c, "layout/cycle-produced-output", "a cyclic layout chain produced output instead of an error: %s", clip(out, 200))
	}
	_ = cls
	if c.Part == "types" && c.Pos == "path-index" && c.Val.K == "map[int]string" {
		o.Sample = map[string]any{"part": c.Part, "position": c.Pos, "template": c.Tpl, "value": c.Val.K, "entry": c.EP, "error": errStr(err), "output": clip(out, 200)}
	}
	return o
}

// c11GraphCyclic: does an unconditional include cycle exist that is reachable from a.vuego?
func c11GraphCyclic(files map[string]string) bool {
	adj := map[string][]string{}
	for n, src := range files {
		for _, m := range []string{"a.vuego", "b.vuego", "c.vuego"} {
			if strings.Contains(src, `include="`+m+`"`) {
				adj[n] = append(adj[n], m)
			}
		}
	}
	state := map[string]int{}
	var dfs func(string) bool
	dfs = func(n string) bool {
		state[n] = 1
		for _, m := range adj[n] {
			if state[m] == 1 || (state[m] == 0 && dfs(m)) {
				return true
			}
		}
		state[n] = 2
		return false
	}
	return dfs("a.vuego")
}
