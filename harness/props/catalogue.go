package props

import (
	"bytes"
	"errors"
	"fmt"
	"io/fs"
	"strings"
	"time"

	vuego "github.com/titpetric/vuego"
)

// A shared catalogue of template programs covering every directive, includes,
// slots, layouts, filters, front-matter and failing templates. All programs
// live in one filesystem (each under its own directory), so one long-lived
// engine can serve all of them (C09, C10, C15).

type Prog struct {
	Name    string
	Dir     string            // directory of the program's files inside the shared FS
	Files   map[string]string // path (relative to FS root) -> content
	Mode    string            // file | string
	Entry   string            // file mode: path of the page
	Str     string            // string mode: the template
	Data    TV                // caller data (map)
	WantErr bool
	NoData  bool // rendered without any caller data (nil): everything comes from front-matter
}

func catFuncs() vuego.FuncMap {
	return vuego.FuncMap{
		"shout": func(s string) string { return strings.ToUpper(s) + "!" },
		"add":   func(a, b int) int { return a + b },
		// a function that takes the render's context: it must see the variables of the render it is called in
		"ctxget": func(ctx *vuego.VueContext, key string) any {
			if ctx == nil {
				return "no-context"
			}
			v, _ := ctx.Stack().Resolve(key)
			return v
		},
		// total functions with parameters of the kinds a template's values have to be converted to
		"longdate":  func(t time.Time) string { return t.UTC().Format("2006") },
		"itemtitle": func(it Item) string { return it.Title },
		"ptitle": func(it *Item) string {
			if it == nil {
				return "nil"
			}
			return it.Title
		},
		"sumints": func(xs []int) int {
			n := 0
			for _, x := range xs {
				n += x
			}
			return n
		},
		"nkeys":  func(m map[string]any) int { return len(m) },
		"flagof": func(b bool) string { return fmt.Sprint(b) },
		"halfof": func(f float64) float64 { return f / 2 },
		"pairof": func(a [2]int) int { return a[0] + a[1] },
		"anyof":  func(v any) string { return fmt.Sprintf("%T", v) },
		"joinv":  func(sep string, parts ...string) string { return strings.Join(parts, sep) },
		"failif": func(s string) (string, error) {
			if s == "boom" {
				return "", errors.New("failif: boom")
			}
			return s, nil
		},
	}
}

// leak names: every program binds some of these in inner scopes; every program
// prints all of them at top level, where they must be unbound.
var catLeakNames = []string{"lk_it", "lk_idx", "lk_prop", "lk_fm", "lk_slot"}

func catLeakProbe() string {
	var b strings.Builder
	b.WriteString(`<i data-leak="1">`)
	for _, n := range catLeakNames {
		b.WriteString("{{ " + n + " }}")
	}
	b.WriteString(`</i>`)
	return b.String()
}

func Catalogue() []Prog {
	var out []Prog
	n := 0
	items := tvList(tvMap(map[string]TV{"name": tvS("a<1>"), "n": tvI(1), "on": tvB(true)}), tvMap(map[string]TV{"name": tvS("b&2"), "n": tvI(0), "on": tvB(false)}), tvMap(map[string]TV{"name": tvS("c"), "n": tvI(3), "on": tvB(true)}))
	base := map[string]TV{
		"title": tvS("Title & Co"), "items": items, "show": tvB(true), "hide": tvB(false), "n": tvI(5), "f": tvF(2.5), "html": tvS("<b>raw</b>"),
		"user": tvMap(map[string]TV{"name": tvS("Ann"), "tags": tvKind("[]string", tvS("x"), tvS("y"))}), "cls": tvS("c1 c2"), "color": tvS("red"), "empty": tvList(),
		"m": tvMap(map[string]TV{"k1": tvS("v1"), "k2": tvS("v2"), "k3": tvS("v3"), "k4": tvS("v4"), "k5": tvS("v5")}),
	}
	data := func(extra map[string]TV) TV {
		m := map[string]TV{}
		for k, v := range base {
			m[k] = v
		}
		for k, v := range extra {
			m[k] = v
		}
		return tvMap(m)
	}
	_ = data
	add := func(name string, mode string, page string, files map[string]string, extra map[string]TV, wantErr bool) {
		dir := fmt.Sprintf("p%02d", n)
		n++
		sub := func(s string) string { return strings.ReplaceAll(s, "@D", dir) }
		ex2 := map[string]TV{}
		for k, v := range extra {
			if v.K == "string" {
				v.S = sub(v.S)
			}
			ex2[k] = v
		}
		p := Prog{Name: name, Dir: dir, Mode: mode, Data: data(ex2), WantErr: wantErr, Files: map[string]string{}}
		for k, v := range files {
			if strings.HasPrefix(k, "/") {
				p.Files[k[1:]] = sub(v) // a file outside the program's directory (layouts/...)
				continue
			}
			p.Files[dir+"/"+k] = sub(v)
		}
		page = sub(page)
		if mode == "string" {
			p.Str = page + catLeakProbe()
		} else {
			p.Entry = dir + "/page.vuego"
			// front-matter must stay at the very top of the file
			p.Files[p.Entry] = page + catLeakProbe()
		}
		out = append(out, p)
	}
	S, F := "string", "file"

	add("interp", S, `<h1>{{ title }}</h1><p>{{ user.name }} {{ n }} {{ f }} {{ user.tags[1] }}</p>`, nil, nil, false)
	add("if-chain", S, `<p v-if="hide" data-m="a">A</p><p v-else-if="n == 5" data-m="b">B</p><p v-else data-m="c">C</p><p v-if="!hide">D</p>`, nil, nil, false)
	add("for", S, `<ul><li v-for="lk_it in items" :data-n="lk_it.n">{{ lk_it.name }}</li></ul>`, nil, nil, false)
	add("for-index", S, `<ul><li v-for="(lk_idx, lk_it) in items">{{ lk_idx }}={{ lk_it.name }}<b v-if="lk_it.on">on</b></li></ul>`, nil, nil, false)
	add("for-else", S, `<ul><li v-for="x in empty">{{ x }}</li><li v-else>none</li></ul>`, nil, nil, false)
	add("for-nested", S, `<div v-for="lk_it in items"><span v-for="t in user.tags">{{ lk_it.name }}/{{ t }}</span></div>`, nil, nil, false)
	add("for-template", S, `<template v-for="lk_it in items"><dt>{{ lk_it.name }}</dt><dd>{{ lk_it.n }}</dd></template>`, nil, nil, false)
	add("for-map", S, `<ul><li v-for="v in m">{{ v }}</li></ul>`, nil, nil, false)
	// maps whose keys are not strings: the iteration order must be fixed all the same
	add("for-map-intkeys", S, `<ul><li v-for="(k, v) in mi">{{ k }}={{ v }}</li></ul><ol><li v-for="v in mi">{{ v }}</li></ol>`, nil,
		map[string]TV{"mi": {K: "map[int]string", L: []TV{tvS("zero"), tvS("one"), tvS("two"), tvS("three"), tvS("four"), tvS("five"), tvS("six"), tvS("seven")}}}, false)
	add("for-map-keys-printing-alike", S, `<ol><li v-for="v in ma">{{ v }}</li></ol>`, nil,
		map[string]TV{"ma": {K: "map[any]string/alike", L: []TV{tvS("zero"), tvS("one"), tvS("two"), tvS("three")}}}, false)
	add("for-map-fm-numeric-keys", F, "---\nstatus:\n  200: ok\n  404: missing\n  500: broken\n  301: moved\n  418: teapot\n  204: empty\n---\n<dl><template v-for=\"(code, text) in status\"><dt>{{ code }}</dt><dd>{{ text }}</dd></template></dl>", nil, nil, false)
	add("attrs-multi", S, `<a :href="user.name" :title="title" :data-n="n" :data-f="f" id="x" class="st" :class="cls" style="margin:0;color:blue" :style="{color: color, fontSize: '12px'}">k</a>`, nil, nil, false)
	add("attrs-many-bound", S, `<i :a="n" :b="f" :c="title" :d="cls" :e="color" :g="user.name" :h="show">z</i>`, nil, nil, false)
	add("class-object", S, `<div class="card" :class="{active: show, off: hide, big: n}"></div>`, nil, nil, false)
	add("style-object", S, `<div style="padding:1px;color:blue;margin:2px" :style="{color: color, backgroundColor: 'black', marginTop: '3px'}"></div>`, nil, nil, false)
	// the same static style text merged with different bound styles: nothing one merge writes may reach the other, or the next render
	add("style-same-static-text", S, `<i style="color:red;margin:0" :style="{color: color}">a</i><b style="color:red;margin:0" :style="{margin: '1px'}">b</b><u style="color:red;margin:0" :style="{padding: n + 'px'}">c</u>`, nil, nil, false)
	add("v-show", S, `<p v-show="hide" style="color:red;margin:0">hidden</p><p v-show="show" style="color:red">shown</p><p v-show="hide">bare</p>`, nil, nil, false)
	add("v-html-text", S, `<div v-html="html"></div><div v-text="html"></div><template v-html="html"></template>`, nil, nil, false)
	add("v-pre", S, `<div v-pre>{{ title }} <b v-if="x">k</b></div>`, nil, nil, false)
	add("v-once-loop", S, `<div v-for="lk_it in items"><style v-once>.a{}</style><script v-once>1</script><p>{{ lk_it.name }}</p></div>`, nil, nil, false)
	add("filters", S, `<p>{{ title | upper }} {{ user.name | lower | title }} {{ items | len }} {{ missing | default("dflt") }} {{ title | shout }} {{ n | add(2) }}</p>`, nil, nil, false)
	add("ctxfunc-in-expressions", S, `<p v-if="ctxget('title') != ''" :data-n="ctxget('n') + 1" :title="upper(ctxget('title'))">{{ ctxget('title') | upper }} {{ ctxget('title') }} {{ ctxget('n') > 3 ? "big" : "small" }}</p><i v-show="ctxget('show')">s</i>`, nil, nil, false)
	// rows of two different anonymous struct types read by JSON tag: what one type's fields are must not depend on
	// which of the two a process happened to see first (the programs sit 3 apart: different workers meet them in different order)
	add("anon-struct-rows-a", S, `<ul><li v-for="r in rows" :data-id="r.id">{{ r.title }} - {{ r.mail }}</li></ul>`, nil, map[string]TV{"rows": {K: "anonRowsA"}}, false)
	add("exprs", S, `<p>{{ n > 3 ? "big" : "small" }} {{ n + 1 }} {{ show && !hide }} {{ user.name == "Ann" }}</p>`, nil, nil, false)
	add("json-script", S, `<script>var d = {{ user | json }};</script><pre>{{ user | json }}</pre>`, nil, nil, false)
	add("template-vars", S, `<template :lk_tmpl="n + 1"><p>{{ lk_tmpl }}</p></template><p>after</p>`, nil, nil, false)
	add("anon-struct-rows-b", S, `<ul><li v-for="r in rows" :data-id="r.id">{{ r.title }} - {{ r.mail }}</li></ul>`, nil, map[string]TV{"rows": {K: "anonRowsB"}}, false)
	add("bracket-attrs", S, `<p [v-if]="keep" [:k]="raw" [@click]="go()">x</p>`, nil, nil, false)

	add("file-vhtml", F, `<div v-html="html"></div><template v-html="html"></template><p v-text="title"></p><template :tv="title"><i>{{ tv }}</i></template><b :title="user.name">{{ n }}</b>`, nil, nil, false)
	add("file-vhtml-attrs", F, `<div id="a" class="b" v-html="html"></div><p a="1" b="2" c="3" d="4" v-text="title"></p><section a="1" b="2" c="3" d="4" e="5" v-html="html"></section><article a="1" b="2" c="3" d="4" e="5" f="6" v-text="user.name"></article><aside a="1" b="2" c="3" d="4" e="5" f="6" g="7" h="8" v-html="title"></aside><h4 a="1" b="2" c="3" d="4" e="5" f="6" g="7" h="8" i="9" j="10" v-text="title"></h4>`, nil, nil, false)
	add("include-attrs", F, `<template include="@D/c.vuego" a="1" :b="title"></template><template include="@D/c.vuego" a="1" b="2" c="3" d="4" :e="user.name"></template>`, map[string]string{"c.vuego": `<i>{{ a }}{{ b }}{{ e }}</i>`}, nil, false)
	add("less-style", F, `<style type="text/css+less">@c: red; @pad: 4px; .card { color: @c; .title { padding: @pad * 2; &:hover { color: darken(@c, 10%); } } }</style><div class="card"><p class="title">{{ title }}</p></div>`, nil, nil, false)
	// pages whose LESS defines or looks up the same names with different bodies: what one page compiles must not reach another
	add("less-mixin-a", F, "<div class=\"a\">{{ title }}</div><style type=\"text/css+less\">\n.rounded {\n  border-radius: 4px;\n}\n.box {\n  .rounded();\n  color: red;\n}\n</style>", nil, nil, false)
	add("less-mixin-b", F, "<div class=\"b\">{{ title }}</div><style type=\"text/css+less\">\n.rounded {\n  border-radius: 9px;\n}\n.card {\n  .rounded();\n}\n</style>", nil, nil, false)
	add("less-extend-c", F, "<p>{{ title }}</p><style type=\"text/css+less\">\n.message {\n  color: blue;\n}\n.success {\n  &:extend(.message);\n  color: green;\n}\n</style>", nil, nil, false)
	add("less-extend-d", F, "<p>{{ title }}</p><style type=\"text/css+less\">\n.message {\n  color: black;\n}\n@w: 3px;\n.w { width: @w; }\n</style>", nil, nil, false)
	add("less-in-component", F, `<template include="@D/c.vuego"></template><template include="@D/c.vuego"></template>`, map[string]string{"c.vuego": `<style v-once type="text/css+less">@w: 10px; .c { width: @w + 5; }</style><i class="c">{{ n }}</i>`}, nil, false)
	add("include", F, `<main><template include="@D/c.vuego" :lk_prop="n" label="L {{ title }}"></template><template include="@D/c.vuego" :lk_prop="f" label="second"></template></main>`,
		map[string]string{"c.vuego": "---\nlk_fm: fm-value\n---\n<section><h2>{{ label }}</h2><p>{{ lk_prop }} {{ lk_fm }} {{ title }}</p></section>"}, nil, false)
	add("include-nested", F, `<template include="@D/outer.vuego" :x="n"></template>`,
		map[string]string{"outer.vuego": `<div class="outer"><template include="@D/inner.vuego" :y="x"></template><template include="@D/inner.vuego" y="s"></template></div>`, "inner.vuego": `<span>{{ y }}/{{ x }}</span>`}, nil, false)
	// wrapper components: the component file's root <template> is itself an include that forwards props (string, list),
	// or carries v-html: whatever evaluating that root tag writes must not stay with the engine
	add("include-wrapper-root", F, `<main><template include="@D/field.vuego" :label="title" :rows="items"></template><template include="@D/field.vuego" label="static {{ n }}" :rows="user.tags"></template></main>`,
		map[string]string{"field.vuego": `<template include="@D/label.vuego" :text="label" :list="rows" note="n {{ label }}"></template>`,
			"label.vuego": `<label :title="note">{{ text }}<i v-for="r in list">{{ r.name }}{{ r }}</i></label>`}, nil, false)
	add("include-root-vhtml", F, `<div><template include="@D/raw.vuego" :body="html"></template><template include="@D/raw.vuego" :body="title"></template></div>`,
		map[string]string{"raw.vuego": `<template v-html="body"></template>`}, nil, false)
	add("include-required-ok", F, `<template include="@D/c.vuego" name="nm"></template>`,
		map[string]string{"c.vuego": `<template :required="name"><b>{{ name }}</b></template>`}, nil, false)
	add("slots", F, `<template include="@D/card.vuego"><template v-slot:head><h3>{{ title }}</h3></template><p>{{ user.name }} body</p><template #foot="lk_slot">{{ lk_slot.k }} foot</template></template><template include="@D/card.vuego"></template>`,
		map[string]string{"card.vuego": `<article><header><slot name="head">fallback head</slot></header><slot>fallback body</slot><footer><slot name="foot" :k="n">fallback foot</slot></footer></article>`}, nil, false)
	add("slot-loop", F, `<template include="@D/list.vuego"><template v-slot="sp"><b>{{ sp.item.name }}#{{ sp.index }}</b></template></template>`,
		map[string]string{"list.vuego": `<ul><li v-for="(i, it) in items"><slot :item="it" :index="i"></slot></li></ul>`}, nil, false)
	add("slot-destructure", F, `<template include="@D/list.vuego"><template v-slot="{ item, index }"><b>{{ item.name }}#{{ index }}</b></template></template>`,
		map[string]string{"list.vuego": `<ul><li v-for="(i, it) in items"><slot :item="it" :index="i"></slot></li></ul>`}, nil, false)
	add("slot-default-dynamic", F, `<template include="@D/box.vuego"><p v-for="lk_it in items">{{ lk_it.name }}</p></template>`,
		map[string]string{"box.vuego": `<div class="box"><slot></slot></div>`}, nil, false)
	add("nested-component-slot", F, `<template include="@D/outer.vuego"><template include="@D/inner.vuego"><i>{{ title }}</i></template></template>`,
		map[string]string{"outer.vuego": `<div class="o"><slot></slot></div>`, "inner.vuego": `<div class="i"><slot>none</slot></div>`}, nil, false)
	add("v-once-component", F, `<template include="@D/w.vuego"></template><template include="@D/w.vuego"></template><template include="@D/w2.vuego"></template>`,
		map[string]string{"w.vuego": `<style v-once>.w{}</style><p>w</p>`, "w2.vuego": `<style v-once>.w2{}</style><p>w2</p>`}, nil, false)
	add("layout", F, "---\nlayout: lay\npagevar: from-page\n---\n<p>{{ title }} {{ pagevar }}</p>",
		map[string]string{"lay.vuego": "---\nlayout: outer\nlayvar: from-lay\n---\n<div class=\"lay\">{{ pagevar }} {{ layvar }}<div v-html=\"content\"></div></div>", "outer.vuego": `<html><head><title>{{ title }}</title></head><body><div v-html="content"></div></body></html>`}, nil, false)
	add("layout-single", F, "---\nlayout: one\n---\n<p>{{ title }} {{ user.name }}</p>",
		map[string]string{"one.vuego": `<main class="one"><h1>{{ title }}</h1><div v-html="content"></div><i v-for="lk_it in items">{{ lk_it.name }}</i></main>`}, nil, false)
	add("layout-deep", F, "---\nlayout: l1\n---\n<p>{{ title }}</p>",
		map[string]string{"l1.vuego": "---\nlayout: l2\n---\n<div class=\"l1\" v-html=\"content\"></div>", "l2.vuego": "---\nlayout: l3\n---\n<div class=\"l2\" v-html=\"content\"></div>",
			"l3.vuego": "---\nlayout: l4\n---\n<div class=\"l3\">{{ user.name }}<div v-html=\"content\"></div></div>", "l4.vuego": `<html><head><title>{{ title }}</title></head><body v-html="content"></body></html>`}, nil, false)
	add("layout-component-slot", F, "---\nlayout: shell\n---\n<template #side><b>{{ user.name }}</b></template><p>{{ title }}</p>",
		map[string]string{"shell.vuego": `<div class="shell"><aside><slot name="side">no side</slot></aside><template include="@D/card.vuego" :t="title"></template><div v-html="content"></div></div>`, "card.vuego": `<section>{{ t }}</section>`}, nil, false)
	// one bare layout name used from two directories: next to the page in one, only in layouts/ for the other
	add("layout-name-own", F, "---\nlayout: post\n---\n<p>own {{ title }}</p>",
		map[string]string{"post.vuego": `<article class="own-post"><div v-html="content"></div></article>`}, nil, false)
	add("layout-name-shared", F, "---\nlayout: post\n---\n<p>shared {{ title }}</p>",
		map[string]string{"/layouts/post.vuego": `<section class="shared-post">{{ user.name }}<div v-html="content"></div></section>`}, nil, false)
	add("frontmatter", F, "---\ntitle: FM Title\nlist:\n  - 1\n  - 2\nnested:\n  k: v\n---\n<h1>{{ title }}</h1><i v-for=\"x in list\">{{ x }}</i><b>{{ nested.k }}</b>", nil, nil, false)
	add("full-document", F, "<!DOCTYPE html>\n<html lang=\"en\"><head><meta charset=\"utf-8\"><title>{{ title }}</title></head><body class=\"b\"><p v-if=\"show\">{{ user.name }}</p></body></html>", nil, nil, false)
	add("file-filter", F, `<pre v-html="file('@D/inc.txt')"></pre><p>{{ incpath | file }}</p>`, map[string]string{"inc.txt": "included <text> & more"}, map[string]TV{"incpath": tvS("@D/inc.txt")}, false)

	// site configuration (theme.yml, data/*.yml) with nested maps: read as it is by one page, partly overridden by another page's data
	cfgRead := `<p>{{ cfgsite.name }}|{{ cfgsite.tagline }}|{{ cfgsite.nested.deep }}|{{ cfgmenu.items[0] }}</p><i v-if="cfgsite.nested.flag">flag</i>`
	add("cfg-read", F, cfgRead, map[string]string{
		"/theme.yml":     "cfgsite:\n  name: Site Name\n  tagline: Tag line\n  nested:\n    deep: deep-default\n    flag: false\n",
		"/data/cfgmenu.yml": "items:\n  - home\n  - about\n"}, nil, false)
	add("cfg-override", F, cfgRead, nil, map[string]TV{"cfgsite": tvMap(map[string]TV{"name": tvS("Mine"), "nested": tvMap(map[string]TV{"deep": tvS("deep-mine"), "flag": tvB(true)})}),
		"cfgmenu": tvMap(map[string]TV{"items": tvList(tvS("private"))})}, false)
	// no caller data at all: the page's own front-matter is the whole scope, and the page writes into the root scope
	add("fm-only-accumulate", F, "---\ntotal: 0\nstep: 3\nrows:\n  - 1\n  - 2\n---\n<i v-if=\"seen\">seen before</i><i v-else>first time</i><template :seen=\"step > 1\"></template><template v-for=\"r in rows\"><template :total=\"total + step\"></template></template><p>total={{ total }} step={{ step }}</p>", nil, nil, false)
	out[len(out)-1].NoData = true
	// the same expression texts over differently typed data (anything cached per expression text must not depend on the first data seen)
	retype := `<p>{{ rv == rw }}|{{ rv != 1 }}|{{ rv == 'a' }}|{{ ro.f == rw }}</p><i v-if="rv == rw">eq</i><b :data-v="rv == rw ? 'y' : 'n'">k</b><u v-for="x in rmixed">{{ x == 1 }},</u>`
	add("retype-int", S, retype, nil, map[string]TV{"rv": tvI(1), "rw": tvI(1), "ro": tvMap(map[string]TV{"f": tvI(1)}), "rmixed": tvList(tvI(1), tvS("a"), tvF(2.5), tvB(true))}, false)
	add("retype-string", S, retype, nil, map[string]TV{"rv": tvS("a"), "rw": tvS("a"), "ro": tvMap(map[string]TV{"f": tvS("a")}), "rmixed": tvList(tvS("1"), tvI(1), tvNil())}, false)
	add("retype-mixed", S, retype, nil, map[string]TV{"rv": tvI(1), "rw": tvS("1"), "ro": tvMap(map[string]TV{"f": tvF(1)}), "rmixed": tvList(tvB(false), tvI(1))}, false)

	// failing programs
	add("err-unknown-filter", S, `<p>{{ title | nosuchfilter }}</p>`, nil, nil, true)
	add("err-filter-error", S, `<p>ok {{ title | upper }}</p><p>{{ bad | failif }}</p>`, nil, map[string]TV{"bad": tvS("boom")}, true)
	// component shorthand tags (resolved on engines set up with WithComponents / RegisterComponent; plain custom elements elsewhere)
	add("shorthand-components", F, `<cat-panel t="P"><cat-chip :n="n"></cat-chip><cat-chip n="two"></cat-chip></cat-panel><div v-for="lk_it in items"><cat-chip :n="lk_it.name"></cat-chip></div><cat-chip n="out"></cat-chip>`, map[string]string{
		"/components/CatPanel.vuego": `<section data-c="panel" :data-t="t"><slot></slot><cat-chip n="own"></cat-chip></section>`,
		"/components/CatChip.vuego":  `<span data-c="chip">{{ n }}</span>`}, nil, false)
	add("err-missing-include", F, `<p>before</p><template include="@D/nope.vuego"></template>`, nil, nil, true)
	add("err-required", F, `<template include="@D/c.vuego"></template>`, map[string]string{"c.vuego": `<template :required="must"><b>{{ must }}</b></template>`}, nil, true)
	add("err-include-bad-frontmatter", F, `<template include="@D/c.vuego"></template>`, map[string]string{"c.vuego": "---\n: : bad: [yaml\n---\n<p>x</p>"}, nil, true)
	add("err-missing-layout", F, "---\nlayout: gone\n---\n<p>x</p>", nil, nil, true)
	add("err-mid-text", S, `<p>Account {{ title }} balance {{ bad | failif }} tail</p>`, nil, map[string]TV{"bad": tvS("boom")}, true)
	add("err-mid-attr", S, `<p title="A {{ title }} B {{ bad | failif }} C">x</p>`, nil, map[string]TV{"bad": tvS("boom")}, true)
	add("err-in-component-mid-text", F, `<template include="@D/c.vuego"></template>`, map[string]string{"c.vuego": `<p>Owner {{ user.name }} then {{ nope | nosuchfilter }}</p>`}, nil, true)
	add("err-late-in-loop", S, `<ul><li v-for="lk_it in items">{{ lk_it.name | failif }}</li><li>{{ bad | failif }}</li></ul>`, nil, map[string]TV{"bad": tvS("boom")}, true)
	return out
}

// Variant returns the program's data with every string leaf and number changed
// in a way that depends on v (v == 0: the data as catalogued), so that the same
// cached templates are rendered with different data on one engine.
func (p *Prog) Variant(v int) any {
	d := p.Data.Go()
	if v == 0 {
		return d
	}
	return catVary(d, v, "")
}

func catVary(x any, v int, key string) any {
	switch t := x.(type) {
	case map[string]any:
		out := make(map[string]any, len(t))
		for k, e := range t {
			out[k] = catVary(e, v, k)
		}
		return out
	case []any:
		out := make([]any, len(t))
		for i, e := range t {
			out[i] = catVary(e, v, key)
		}
		return out
	case string:
		if key == "incpath" || key == "bad" || key == "cls" || key == "color" {
			return t // paths, the failure trigger and css tokens keep their meaning
		}
		return fmt.Sprintf("%s~v%d", t, v)
	case int:
		if key == "n" {
			return t // conditions in the catalogue compare n with literals
		}
		return t + v
	}
	return x
}

// CatFS builds the shared filesystem of a list of programs.
func CatFS(progs []Prog, extra map[string]string) map[string]string {
	files := map[string]string{}
	for _, p := range progs {
		for k, v := range p.Files {
			files[k] = v
		}
	}
	for k, v := range extra {
		files[k] = v
	}
	return files
}

// Entry points through which a catalogue program can be rendered on an engine.
// base is the long-lived template (NewFS), vue the long-lived low-level engine.
type catEngine struct {
	fsys fs.FS
	base vuego.Template
	vue  *vuego.Vue
	nofs vuego.Template // an engine without a filesystem (vuego.New)
}

func newCatEngine(fsys fs.FS) *catEngine {
	vue := vuego.NewVue(fsys).Funcs(catFuncs())
	vue.RegisterNodeProcessor(vuego.NewLessProcessor(fsys))
	return &catEngine{fsys: fsys, base: vuego.NewFS(fsys, vuego.WithFuncs(catFuncs()), vuego.WithLessProcessor()), vue: vue, nofs: vuego.New(vuego.WithFuncs(catFuncs()))}
}

// newCatEnginePlain: engines without any node processor, with component shorthand tags
// (WithComponents on the template side, RegisterComponent on the Vue side).
func newCatEnginePlain(fsys fs.FS) *catEngine {
	vue := vuego.NewVue(fsys).Funcs(catFuncs())
	vue.RegisterComponent("cat-panel", "components/CatPanel.vuego").RegisterComponent("cat-chip", "components/CatChip.vuego")
	return &catEngine{fsys: fsys, base: vuego.NewFS(fsys, vuego.WithFuncs(catFuncs()), vuego.WithComponents()), vue: vue, nofs: vuego.New(vuego.WithFuncs(catFuncs()))}
}

var catEntryPoints = []string{"load-render", "renderfile", "vue-render", "vue-fragment"}

// run renders program p through entry point ep with the given data value.
func (e *catEngine) run(p *Prog, ep string, data any) (string, error) {
	var b bytes.Buffer
	var err error
	if p.Mode == "nofs-assign" {
		// a request on an engine without a filesystem: the caller's (possibly shared) data, then a value of the request's own
		err = e.nofs.New().Fill(data).Assign("lk_assigned", p.Entry).RenderString(bg, &b, p.Str)
		return b.String(), err
	}
	if p.Mode == "base-string" {
		// straight on the shared base template, with the variables it was set up with
		// ("a single base template may be used from any number of goroutines at once")
		switch ep {
		case "renderfile", "vue-fragment":
			err = e.base.RenderByte(bg, &b, []byte(p.Str))
		default:
			err = e.base.RenderString(bg, &b, p.Str)
		}
		return b.String(), err
	}
	if p.NoData {
		switch ep {
		case "load-render":
			err = e.base.Load(p.Entry).Render(bg, &b)
		case "renderfile":
			err = e.base.New().RenderFile(bg, &b, p.Entry)
		case "vue-render":
			err = e.vue.Render(&b, p.Entry, nil)
		case "vue-fragment":
			err = e.vue.RenderFragment(&b, p.Entry, map[string]any{})
		}
		return b.String(), err
	}
	if p.Mode == "string" {
		switch ep {
		case "renderfile", "vue-fragment":
			err = e.base.New().Fill(data).RenderByte(bg, &b, []byte(p.Str))
		default:
			err = e.base.New().Fill(data).RenderString(bg, &b, p.Str)
		}
		return b.String(), err
	}
	switch ep {
	case "load-render":
		err = e.base.Load(p.Entry).Fill(data).Render(bg, &b)
	case "renderfile":
		err = e.base.New().Fill(data).RenderFile(bg, &b, p.Entry)
	case "vue-render":
		err = e.vue.Render(&b, p.Entry, data)
	case "vue-fragment":
		err = e.vue.RenderFragment(&b, p.Entry, data)
	}
	return b.String(), err
}
