package props

import (
	"strings"

	"verifharness/core"
)

// C13 workload: typed expression trees, special groups, filter chains, the
// parameter/argument pairing matrix, quoting variants, error cases and the
// documentation's own examples.

// ---------------------------------------------------------------- leaves and operators

// leaf pools per type (I int, F float, S string, B bool) and leaf kind (0 literal, 1 variable, 2 nested path)
var c13Leaves = map[byte][3][]c13E{}

type c13Op struct {
	K   string // 2 | u | ?
	Op  string
	In  []byte
	Out byte
}

var c13Ops []c13Op

// (op, leaf-kind combination) pairs of the depth-1 space; (outer, slot, inner) triples of the depth-2 space
var c13D1 [][2]int
var c13D2 [][3]int

var c13Styles = []string{"spaced", "unspaced", "strict", "dq"}

func init() {
	lits := func(k string, xs ...string) []c13E {
		var out []c13E
		for _, x := range xs {
			out = append(out, c13Lit(k, x))
		}
		return out
	}
	paths := func(xs ...string) []c13E {
		var out []c13E
		for _, x := range xs {
			out = append(out, c13P(x))
		}
		return out
	}
	c13Leaves['I'] = [3][]c13E{lits("i", "0", "1", "2", "3", "5", "7", "10", "12", "100"), paths("n1", "n2", "n0", "ng", "i64", "i32", "u8"), paths("m.x", "m.in.k", "l[0]", "l[2]", "li[1]", "msi.k", "st.Count", "ps.Count", "m['404']", "msi['7']")}
	c13Leaves['F'] = [3][]c13E{lits("f", "0.5", "2.5", "1.25", "4.0"), paths("f1", "f2", "f32", "fi", "fbig", "fsmall"), paths("m.r")}
	c13Leaves['S'] = [3][]c13E{lits("s", "k1", "zed", "a b", "Hi"), paths("s1", "s2", "se", "sp"), paths("m.name", "m.in.w", "ls[0]", "ls[1]", "mss.k", "st.Plain", "ps.Plain", "mss['200']")}
	c13Leaves['B'] = [3][]c13E{lits("b", "true", "false"), paths("bt", "bf", "b1", "b2"), paths("m.ok", "m.off", "st.On")}

	add := func(k, op string, out byte, in ...byte) {
		c13Ops = append(c13Ops, c13Op{K: k, Op: op, In: in, Out: out})
	}
	for _, op := range []string{"+", "-", "*"} {
		add("2", op, 'I', 'I', 'I')
		add("2", op, 'F', 'I', 'F')
		add("2", op, 'F', 'F', 'I')
		add("2", op, 'F', 'F', 'F')
	}
	for _, in := range [][2]byte{{'I', 'I'}, {'I', 'F'}, {'F', 'I'}, {'F', 'F'}} {
		add("2", "/", 'F', in[0], in[1])
	}
	add("2", "%", 'I', 'I', 'I')
	add("2", "+", 'S', 'S', 'S')
	for _, op := range []string{"<", ">", "<=", ">="} {
		for _, in := range [][2]byte{{'I', 'I'}, {'I', 'F'}, {'F', 'I'}, {'F', 'F'}, {'S', 'S'}} {
			add("2", op, 'B', in[0], in[1])
		}
	}
	for _, op := range []string{"==", "!="} {
		for _, t := range []byte{'I', 'F', 'S', 'B'} {
			add("2", op, 'B', t, t)
		}
	}
	add("2", "&&", 'B', 'B', 'B')
	add("2", "||", 'B', 'B', 'B')
	add("u", "!", 'B', 'B')
	add("u", "-", 'I', 'I')
	add("u", "-", 'F', 'F')
	for _, t := range []byte{'I', 'F', 'S', 'B'} {
		add("?", "", t, 'B', t, t)
	}
	for oi, op := range c13Ops {
		n := 1
		for range op.In {
			n *= 3
		}
		for c := 0; c < n; c++ {
			c13D1 = append(c13D1, [2]int{oi, c})
		}
		for slot, t := range op.In {
			for ii, inner := range c13Ops {
				if inner.Out == t {
					c13D2 = append(c13D2, [3]int{oi, slot, ii})
				}
			}
		}
	}
	c13BuildSpecials()
	c13BuildChains()
	c13BuildPairs()
	c13BuildQuotes()
	c13BuildErrs()
}

func c13Leaf(r *core.RNG, t byte, kind int) c13E {
	if kind < 0 {
		kind = r.Intn(3)
	}
	return core.Pick(r, c13Leaves[t][kind])
}

func c13Node(op c13Op, kids []c13E) c13E {
	return c13E{K: op.K, Op: op.Op, A: kids}
}

// c13RandTree builds a random well-typed tree of the given result type.
func c13RandTree(r *core.RNG, t byte, depth int) c13E {
	if depth <= 0 || r.Chance(1, 5) {
		return c13Leaf(r, t, -1)
	}
	// pick an operator family first, then an operand-type signature within it
	fams := map[string][]int{}
	var names []string
	for i, op := range c13Ops {
		if op.Out == t {
			f := c13RootClass(&c13E{K: op.K, Op: op.Op})
			if len(fams[f]) == 0 {
				names = append(names, f)
			}
			fams[f] = append(fams[f], i)
		}
	}
	op := c13Ops[core.Pick(r, fams[core.Pick(r, names)])]
	kids := make([]c13E, len(op.In))
	for i, it := range op.In {
		kids[i] = c13RandTree(r, it, depth-1)
	}
	e := c13Node(op, kids)
	if r.Chance(1, 8) {
		e.P = true
	}
	return e
}

func c13Depth(e *c13E) int {
	d := 0
	for i := range e.A {
		if k := c13Depth(&e.A[i]); k > d {
			d = k
		}
	}
	if e.K == "2" || e.K == "u" || e.K == "?" {
		return d + 1
	}
	return d
}

// c13StyleFits says whether a style changes anything for the tree.
func c13StyleFits(e *c13E, style string) bool {
	found := false
	e.walk(func(x *c13E) {
		switch style {
		case "strict":
			if x.K == "2" && (x.Op == "==" || x.Op == "!=") {
				found = true
			}
		case "dq":
			if x.K == "s" {
				found = true
			}
		case "unspaced":
			if x.K == "2" || x.K == "?" {
				found = true
			}
		}
	})
	return found || style == "spaced"
}

// ---------------------------------------------------------------- special groups

type c13Spec struct {
	Group string
	E     c13E
}

var c13Specials []c13Spec

func c13BuildSpecials() {
	add := func(g string, e c13E) { c13Specials = append(c13Specials, c13Spec{g, e}) }
	for _, t := range []byte{'I', 'F', 'S', 'B'} {
		for kind := 1; kind <= 2; kind++ {
			for _, l := range c13Leaves[t][kind] {
				add("path", l)
				if t == 'B' {
					add("unary-only", c13Un("!", l))
				}
				if t == 'I' || t == 'F' {
					add("unary-only", c13Un("-", l))
				}
			}
		}
		for _, l := range c13Leaves[t][0] {
			add("bare-literal", l)
		}
	}
	for _, p := range []string{"st.title", "st.count", "st.on", "ps.title", "ps.count"} {
		add("json-tag", c13P(p))
	}
	for _, e := range []c13E{
		c13Bin("+", c13P("st.count"), c13Int(1)), c13Bin(">", c13P("st.count"), c13P("n2")), c13Bin("==", c13P("st.count"), c13Int(4)),
		c13Bin("==", c13P("st.title"), c13Str("T1")), c13Bin("!=", c13P("ps.title"), c13Str("zed")), c13Bin("+", c13P("st.title"), c13Str("k1")),
		c13Bin("&&", c13P("st.on"), c13P("bt")), c13Bin("||", c13P("bf"), c13P("st.on")), c13Tern(c13P("st.on"), c13P("n1"), c13P("n2")),
		c13Bin("*", c13P("ps.count"), c13Int(2)), c13Tern(c13P("bt"), c13P("st.title"), c13Str("zed")), c13Bin("<", c13Int(2), c13P("ps.count")),
	} {
		add("json-tag-in-op", e)
	}
	// direct calls
	s1, s2, n1, n2 := c13P("s1"), c13P("s2"), c13P("n1"), c13P("n2")
	for _, e := range []c13E{
		c13Call("len", c13P("l")), c13Call("len", s1), c13Call("len", c13P("ls")), c13Call("len", c13P("m")), c13Call("len", c13P("se")),
		c13Call("upper", s1), c13Call("lower", c13P("st.Plain")), c13Call("trim", c13P("sp")), c13Call("int", c13P("sn")), c13Call("string", n1),
		c13Call("title", s2), c13Call("json", c13P("l")), c13Call("escape", c13P("sx")),
	} {
		add("call/builtin", e)
	}
	for _, e := range []c13E{
		c13Call("default", c13P("se"), c13Str("fb")), c13Call("default", s1, c13Str("fb")), c13Call("default", c13P("nl"), c13Str("fb")),
	} {
		add("call/builtin", e)
	}
	for _, e := range []c13E{
		c13Call("hDbl", n1), c13Call("hDbl", c13Int(3)), c13Call("hDbl", c13P("n0")), c13Call("hSub", n1, n2), c13Call("hSub", n1, c13Int(2)), c13Call("hSub", n2, n2),
		c13Call("hPos", n1), c13Call("hPos", c13P("n0")), c13Call("hPos", c13P("ng")), c13Call("hNot", c13P("bt")), c13Call("hNot", c13P("bf")), c13Call("hImp", c13P("bt"), c13P("b1")),
		c13Call("hCat", s1, c13Str("k1")), c13Call("hCat", s1, s2), c13Call("hCat", c13Str("k1"), c13Str("zed")), c13Call("hBr", s1), c13Call("hBr", c13P("se")),
		c13Call("hKind", n1), c13Call("hKind", c13P("l")), c13Call("hKind", c13P("f32")), c13Call("hId", s1), c13Call("hId", c13P("n0")), c13Call("hId", c13P("bf")),
		c13Call("hJoin", c13Str("k1"), c13Str("zed")), c13Call("hJoin"), c13Call("hSum", c13Int(1), c13Int(2), c13Int(3)), c13Call("hSum", n1),
		c13Call("hCtx", s1), c13Call("hCtxSub", n1, n2), c13Call("hCtxJoin", s1, c13Str("k1")), c13Call("hCtxJoin", s1), c13Call("hCtxJoin"), c13Call("hCtxSum", n1, n2, c13Int(3)), c13Call("hCtxSum", n1), c13Call("hErrS", s1), c13Call("hErrI", n1), c13Call("hFSub", c13P("f1"), c13Lit("f", "0.5")),
		c13Call("hUSum", c13Int(1), c13Int(2)), c13Call("hSub64", c13P("i64"), c13Int(2)), c13Call("hRep", s1, c13Int(2)), c13Call("hRep", s1, c13P("n0")),
		c13Call("hItemTitle", c13P("st")), c13Call("hPItemCount", c13P("ps")), c13Call("hArr2", c13P("li")), c13Call("hArr2", c13P("li1")),
		c13Call("hSlug", s1), c13Call("hSlug", n1), c13Pipe(n1, c13Call("hSlug")), c13Call("hSlug", c13P("bt")), c13Pipe(c13P("f1"), c13Call("hSlug")), c13Call("hSlug", c13Str("k1")),
	} {
		add("call/custom", e)
	}
	for _, e := range []c13E{
		c13Bin("==", c13Call("hItemTitle", c13P("st")), c13Str("<T1>")), c13Bin("+", c13Call("hItemTitle", c13P("st")), c13Str("k1")), c13Bin("+", c13Call("hPItemCount", c13P("ps")), c13Int(1)),
		c13Bin(">", c13Call("hPItemCount", c13P("ps")), c13P("n1")), c13Tern(c13P("bt"), c13Call("hItemTitle", c13P("st")), c13Str("zed")), c13Bin("&&", c13P("bt"), c13Bin("!=", c13Call("hItemTitle", c13P("st")), c13Str("zed"))),
	} {
		add("call-in-op/struct-arg", e)
	}
	// calls as operands of documented operators
	type cl struct {
		t     byte
		e     c13E
		class string
	}
	calls := []cl{
		{'I', c13Call("len", c13P("l")), "builtin"}, {'I', c13Call("len", s1), "builtin"}, {'S', c13Call("upper", s1), "builtin"}, {'I', c13Call("int", c13P("sn")), "builtin"},
		{'I', c13Call("hDbl", n1), "custom"}, {'I', c13Call("hSub", n1, c13Int(1)), "custom"}, {'S', c13Call("hBr", s1), "custom"}, {'S', c13Call("hCat", s1, c13Str("k1")), "custom"},
		{'B', c13Call("hPos", n1), "custom"}, {'B', c13Call("hNot", c13P("bf")), "custom"},
	}
	for _, c := range calls {
		for _, op := range c13Ops {
			for slot, t := range op.In {
				if t != c.t || (op.Op == "/" || op.Op == "%") {
					continue
				}
				kids := make([]c13E, len(op.In))
				for i, it := range op.In {
					kids[i] = c13Leaves[it][1][(slot+i)%len(c13Leaves[it][1])]
				}
				kids[slot] = c.e
				g := "call-in-op/"
				if op.K == "u" {
					g = "unary-of-call/"
				}
				add(g+c.class, c13Node(op, kids))
			}
		}
	}
	for _, e := range []c13E{
		c13Call("hDbl", c13Bin("+", n1, c13Int(1))), c13Call("hPos", c13Bin("-", n1, n2)), c13Call("hCat", c13Bin("+", s1, c13Str("k1")), s2),
		c13Call("hNot", c13Bin(">", n1, n2)), c13Call("hSub", c13Bin("*", n1, c13Int(2)), n2),
	} {
		add("call-expr-arg/custom", e)
	}
	// a float32 that is not exactly representable keeps its own shortest form when it becomes a string
	for _, e := range []c13E{
		c13Pipe(c13P("f32b"), c13Call("hCat", c13Str("k1"))), c13Call("hCat", c13P("f32b"), c13Str("k1")), c13Call("hCat", c13Str("k1"), c13P("f32b")), c13P("f32b"), c13Pipe(c13P("f32b"), c13Call("hBr")),
	} {
		add("float32-to-string", e)
	}
	// the head of a pipe is an expression like any other: a literal (the form the
	// documentation's own examples use), a call, an operator expression
	for _, e := range []c13E{
		c13Pipe(c13Str("k1"), c13Call("hRep", c13Int(2))), c13Pipe(c13Str("k1"), c13Call("upper")), c13Pipe(c13Str("k1"), c13Call("hCat", s1), c13Call("upper")),
		c13Pipe(c13Int(5), c13Call("hDbl")), c13Pipe(c13Int(5), c13Call("hSub", c13Int(1))), c13Pipe(c13Int(5), c13Call("hDbl"), c13Call("string"), c13Call("hCat", c13Str("k1"))),
		c13Pipe(c13Lit("f", "2.5"), c13Call("hFSub", c13Lit("f", "0.5"))), c13Pipe(c13Str("zed"), c13Call("len")),
	} {
		add("pipe-head/literal", e)
	}
	for _, e := range []c13E{
		c13Pipe(c13Call("len", c13P("l")), c13Call("hSub", c13Int(1))), c13Pipe(c13Call("hSum", c13Int(1), c13Int(2)), c13Call("hSub", c13Int(3))), c13Pipe(c13Call("upper", s1), c13Call("hCat", c13Str("k1"))),
		c13Pipe(c13Call("hDbl", n1), c13Call("hDbl")), c13Pipe(c13Call("hCat", s1, s2), c13Call("upper"), c13Call("len")),
	} {
		add("pipe-head/call", e)
	}
	for _, e := range []c13E{
		c13Pipe(c13Bin("+", n1, c13Int(1)), c13Call("hSub", c13Int(1))), c13Pipe(c13Bin("+", s1, c13Str("k1")), c13Call("upper")), c13Pipe(c13Bin("*", n1, n2), c13Call("hDbl"), c13Call("hSub", n2)),
		c13Pipe(c13Tern(c13P("bt"), s1, s2), c13Call("upper")), c13Pipe(c13Un("-", n1), c13Call("hDbl")),
	} {
		add("pipe-head/expr", e)
	}
	// a variable that is present with a nil value and named like a registered function is still the variable
	for _, e := range []c13E{
		c13Bin("==", c13Call("default", c13P("hNil"), c13Str("fb")), c13Str("fb")), c13Call("default", c13P("hNil"), c13Str("fb")),
		c13Tern(c13Bin("==", c13Call("default", c13P("hNil"), c13Str("fb")), c13Str("fb")), s1, s2), c13Bin("&&", c13P("bt"), c13Bin("==", c13Call("default", c13P("hNil"), c13Str("k1")), c13Str("k1"))),
		c13Bin("+", c13Call("default", c13P("hNil"), c13Str("fb")), s1),
	} {
		add("nil-variable-named-like-a-function", e)
	}
	// the documented filters on text outside ASCII
	for _, e := range []c13E{
		c13Pipe(c13P("su"), c13Call("title")), c13Call("title", c13P("su")), c13Pipe(c13P("su"), c13Call("upper")), c13Pipe(c13P("su"), c13Call("title"), c13Call("hBr")),
		c13Bin("==", c13Call("title", c13P("su")), c13Str("Élan Vital")),
	} {
		add("builtin-filter-on-non-ascii-text", e)
	}
	// the strict comparison operators are data inside a quoted string
	for _, e := range []c13E{
		c13Str("a===b"), c13Str("x!==y"), c13Bin("==", c13Str("a===b"), s1), c13Bin("+", s1, c13Str("!==")), c13Pipe(c13Str("a===b"), c13Call("upper")), c13Call("hCat", s1, c13Str("===")),
		c13Tern(c13P("bt"), c13Str("is === ok"), c13Str("zed")),
	} {
		add("strict-operator-text-in-literal", e)
	}
	// calls joined by an operator written without blanks: add(1,2)+add(3,4)
	for _, e := range []c13E{
		c13Bin("+", c13Call("hDbl", n1), c13Call("hSub", n1, n2)), c13Bin("*", c13Call("hSub", n1, c13Int(1)), c13Int(2)), c13Bin(">", c13Call("hDbl", n1), c13Call("hSub", n2, c13Int(1))),
		c13Bin("+", c13Call("hCat", s1, c13Str("k1")), c13Call("upper", s2)), c13Bin("-", c13Call("hSub", n1, n2), c13Call("hSub", n2, n1)),
	} {
		add("call-in-op/unspaced", e)
	}
	// a quoted literal with characters outside ASCII, standing before a pipe (as the head, inside an
	// operator head, as the argument of a filter that another filter follows)
	for _, e := range []c13E{
		c13Pipe(c13Str("é"), c13Call("upper")), c13Pipe(c13P("se"), c13Call("default", c13Str("—ö")), c13Call("upper")), c13Pipe(c13Bin("+", s1, c13Str("ö")), c13Call("upper")),
		c13Pipe(s1, c13Call("hCat", c13Str("Grüße")), c13Call("lower")), c13Pipe(c13Str("日本"), c13Call("hCat", c13Str("語")), c13Call("hBr")), c13Pipe(c13Str("é"), c13Call("hCat", s1)),
	} {
		add("pipe-head/non-ascii-literal", e)
	}
	// arguments are expressions too: a call, a call whose own arguments hold a comma, a unary minus
	for _, e := range []c13E{
		c13Call("upper", c13Call("trim", c13P("sp"))), c13Call("hSub", n1, c13Call("hDbl", n2)), c13Call("hSub", n1, c13Call("hSum", c13Int(1), c13Int(2))), c13Call("hCat", c13Call("upper", s1), c13Call("lower", s2)),
		c13Call("len", c13Call("hCat", s1, s2)), c13Pipe(s1, c13Call("hCat", c13Call("upper", s2))), c13Pipe(n1, c13Call("hSub", c13Call("hDbl", n2))),
	} {
		add("call-arg/nested-call", e)
	}
	for _, e := range []c13E{
		c13Call("hSub", n1, c13Un("-", n2)), c13Pipe(n1, c13Call("hSub", c13Un("-", n2))), c13Call("hDbl", c13Un("-", n1)), c13Call("hNot", c13Un("!", c13P("bt"))), c13Pipe(n1, c13Call("hSub", c13Bin("+", n2, c13Int(1)))),
	} {
		add("call-arg/unary-or-operator", e)
	}
	// an argument that holds an operator and parentheses of its own (a nested call, a grouped sub-expression)
	for _, e := range []c13E{
		c13Pipe(n1, c13Call("hSub", c13Bin("*", c13Bin("+", n2, c13Int(1)), c13Int(2)))), c13Pipe(s1, c13Call("hCat", c13Bin("+", c13Call("upper", s2), c13Str("k1")))),
		c13Pipe(n1, c13Call("hSub", c13Bin("+", c13Call("hDbl", n2), c13Int(1))), c13Call("hDbl")), c13Pipe(c13P("se"), c13Call("default", c13Bin("+", c13Call("upper", s1), c13Str("zed")))),
		c13Call("hSub", n1, c13Bin("*", c13Bin("+", n2, c13Int(1)), c13Int(2))), c13Pipe(s1, c13Call("upper"), c13Call("hCat", c13Bin("+", c13Call("lower", s2), c13Str("k1")))),
	} {
		add("call-arg/operator-and-parentheses", e)
	}
	for _, e := range []c13E{
		c13Call("len", c13Bin("+", s1, s2)), c13Call("upper", c13Bin("+", s1, c13Str("k1"))), c13Call("upper", c13Tern(c13P("bt"), s1, s2)),
	} {
		add("call-expr-arg/builtin", e)
	}
}

// ---------------------------------------------------------------- filter chains

var c13Steps []c13E
var c13Starts = []string{"s1", "n1", "bt", "l", "selfname", "s2", "sp", "ng", "f1", "fbig", "sn", "nope", "se", "i64", "sbad"}

const c13NStartsLen3 = 4

func c13BuildChains() {
	c13Steps = []c13E{
		c13Call("upper"), c13Call("lower"), c13Call("trim"), c13Call("title"), c13Call("escape"), c13Call("string"), c13Call("default", c13Str("fb")),
		c13Call("hBr"), c13Call("hCat", c13Str("k1")), c13Call("hCat", c13P("s2")), c13Call("hErrS"), c13Call("hCtx"), c13Call("hRep", c13Int(2)), c13Call("hJoin", c13Str("k1")), c13Call("hCtxJoin"), c13Call("hCtxJoin", c13Str("k1")),
		c13Call("len"), c13Call("int"),
		c13Call("hDbl"), c13Call("hSub", c13Int(1)), c13Call("hSub", c13P("n2")), c13Call("hSum", c13Int(1), c13Int(2)), c13Call("hCtxSub", c13Int(1)), c13Call("hCtxSum"), c13Call("hCtxSum", c13Int(2)), c13Call("hErrI"), c13Call("hSub64", c13Int(2)), c13Call("hUSum", c13Int(3)),
		c13Call("hPos"), c13Call("hNot"), c13Call("hImp", c13P("bf")), c13Call("hFSub", c13Lit("f", "0.5")),
		c13Call("json"), c13Call("hKind"), c13Call("hId"),
	}
}

// ---------------------------------------------------------------- pairing matrix

type c13Tagged struct {
	Tag string
	E   c13E
	All bool // judge all five positions (otherwise text and bound attribute)
}

var c13Pairs []c13Tagged

func c13BuildPairs() {
	vars := []string{"n1", "n65", "i64", "i32", "u8", "f1", "fi", "f32", "fbig", "fsmall", "s1", "selfname", "sn", "sf", "sb", "se", "sneg", "bt", "bf", "nl", "nope", "l", "m", "st", "ts"}
	lit := []c13E{c13Int(7), c13Int(65), c13Lit("i", "-3"), c13Lit("f", "2.5"), c13Lit("b", "true"), c13Lit("b", "false"), c13Str("zed"), c13Str("42"), c13Str("2.5"), c13Str("true")}
	plain := map[string]string{"pStr": "plain", "pInt": "plain", "pI64": "plain", "pUint": "plain", "pF64": "plain", "pBool": "plain", "pAny": "plain",
		"pVarS": "variadic", "pVarI": "variadic", "pCtxS": "ctx", "pCtxI": "ctx", "pErrS": "err", "pErrI": "err"}
	for _, fn := range []string{"pStr", "pInt", "pI64", "pUint", "pF64", "pBool", "pAny", "pVarS", "pVarI", "pCtxS", "pCtxI", "pErrS", "pErrI"} {
		w := plain[fn]
		for _, v := range vars {
			c13Pairs = append(c13Pairs, c13Tagged{Tag: w + "/piped", E: c13Pipe(c13P(v), c13Call(fn))})
			c13Pairs = append(c13Pairs, c13Tagged{Tag: w + "/call-variable", E: c13Call(fn, c13P(v))})
		}
		for _, l := range lit {
			c13Pairs = append(c13Pairs, c13Tagged{Tag: w + "/call-literal", E: c13Call(fn, l)})
		}
	}
	for _, fn := range []string{"qStr", "qInt", "qI64", "qUint", "qF64", "qBool", "qAny"} {
		for _, v := range vars {
			c13Pairs = append(c13Pairs, c13Tagged{Tag: "second/variable", E: c13Pipe(c13P("s1"), c13Call(fn, c13P(v)))})
		}
		for _, l := range lit {
			c13Pairs = append(c13Pairs, c13Tagged{Tag: "second/literal", E: c13Pipe(c13P("s1"), c13Call(fn, l))})
		}
	}
	// variadic with several arguments of mixed origin
	c13Pairs = append(c13Pairs,
		c13Tagged{Tag: "variadic/mixed", E: c13Pipe(c13P("s1"), c13Call("pVarS", c13Str("k1"), c13P("s2")))},
		c13Tagged{Tag: "variadic/mixed", E: c13Pipe(c13P("n1"), c13Call("pVarI", c13Int(2), c13P("n2"), c13P("sn")))},
		c13Tagged{Tag: "variadic/mixed", E: c13Call("pVarI")},
		c13Tagged{Tag: "variadic/mixed", E: c13Call("pVarS", c13P("s1"), c13P("n1"), c13P("bt"), c13P("f1"))},
	)
}

// ---------------------------------------------------------------- quoting variants

var c13Quotes []c13Tagged

func c13BuildQuotes() {
	contents := [][2]string{
		{"plain", "k1"}, {"space", "a b"}, {"comma", "a,b"}, {"comma-space", "Jan 2, 2006"}, {"pipe-char", "a|b"}, {"paren-close", "a)b"}, {"paren-open", "(x"}, {"parens", "(x)"}, {"call-like", "f(x)"},
		{"operator-text", " - "}, {"operator-text", "a + b"}, {"operator-text", "a == b"}, {"operator-text", "x && y"}, {"operator-text", "q?r:s"},
		{"question-mark", "why?"}, {"colon", "a:b"}, {"variable-name", "n1"}, {"variable-name", "m.name"}, {"variable-name", "l[0]"},
		{"bool-like", "true"}, {"number-like", "42"}, {"number-like", "2.5"}, {"empty", ""}, {"dotted", "a.b"}, {"braces", "{x}"},
		{"punct", "50%"}, {"punct", "a/b"}, {"punct", "a*b"}, {"punct", "a-b"}, {"punct", "x=y"}, {"punct", "hey!"}, {"other-quote", "it's"}, {"other-quote", `say "hi"`},
	}
	for _, c := range contents {
		lit := c13Str(c[1])
		c13Quotes = append(c13Quotes,
			c13Tagged{Tag: c[0] + "/filter-arg", E: c13Pipe(c13P("s1"), c13Call("hCat", lit))},
			c13Tagged{Tag: c[0] + "/filter-arg", E: c13Call("hCat", c13P("s1"), lit)},
			c13Tagged{Tag: c[0] + "/filter-arg", E: c13Call("hBr", lit)},
			c13Tagged{Tag: c[0] + "/filter-arg", E: c13Pipe(c13P("se"), c13Call("default", lit))},
			c13Tagged{Tag: c[0] + "/filter-arg", E: c13Pipe(c13P("s1"), c13Call("hCat", lit), c13Call("upper"))},
			c13Tagged{Tag: c[0] + "/operand", E: c13Bin("==", c13P("s1"), lit), All: true},
			c13Tagged{Tag: c[0] + "/operand", E: c13Bin("+", c13P("s1"), lit), All: true},
			c13Tagged{Tag: c[0] + "/operand", E: c13Tern(c13P("bt"), lit, c13Str("zed")), All: true},
		)
	}
	// a variable whose name reads as a literal
	c13Quotes = append(c13Quotes,
		c13Tagged{Tag: "variable-named-like-bool-literal/filter-arg", E: c13Pipe(c13P("s1"), c13Call("hCat", c13P("t")))},
		c13Tagged{Tag: "variable-named-like-bool-literal/filter-arg", E: c13Call("hBr", c13P("t"))},
	)
}

// ---------------------------------------------------------------- error cases

var c13Errs []c13Tagged

func c13BuildErrs() {
	s1, n1 := c13P("s1"), c13P("n1")
	add := func(tag string, es ...c13E) {
		for _, e := range es {
			c13Errs = append(c13Errs, c13Tagged{Tag: tag, E: e, All: e.K != "|"}) // pipes are documented for {{ }} and bound attributes only
		}
	}
	add("unknown-function",
		c13Pipe(s1, c13Call("nosuch")), c13Call("nosuch", s1), c13Call("nosuch"), c13Pipe(s1, c13Call("upper"), c13Call("nosuch")), c13Pipe(s1, c13Call("nosuch"), c13Call("upper")),
		c13Pipe(s1, c13Call("nosuch", c13Str("k1"))), c13Pipe(n1, c13Call("hDbl"), c13Call("nosuch2"), c13Call("hDbl")), c13Call("Upper", s1), c13Call("nosuch", c13Int(1), c13Int(2)),
		c13Bin("==", c13Call("nosuch", s1), c13Str("k1")), c13Bin("&&", c13P("bt"), c13Call("nosuch", n1)))
	add("arity",
		c13Pipe(s1, c13Call("hCat")), c13Pipe(s1, c13Call("hCat", c13Str("k1"), c13Str("zed"))), c13Call("hDbl"), c13Call("hDbl", n1, c13P("n2")), c13Pipe(n1, c13Call("hDbl", c13Int(1))),
		c13Call("hSum"), c13Pipe(s1, c13Call("upper", c13Str("k1"))), c13Call("default", s1), c13Pipe(s1, c13Call("hCtx", c13Str("k1"))), c13Call("hCtxSub", n1), c13Call("hCat", s1),
		c13Pipe(s1, c13Call("upper"), c13Call("hCat")), c13Pipe(n1, c13Call("hSub")), c13Call("hErrS"), c13Call("hNot", c13P("bt"), c13P("bf")))
	add("conversion",
		c13Pipe(s1, c13Call("hDbl")), c13Call("hDbl", s1), c13Call("hDbl", c13Str("zed")), c13Pipe(c13P("l"), c13Call("hDbl")), c13Pipe(c13P("m"), c13Call("hBr")), c13Pipe(c13P("st"), c13Call("hBr")),
		c13Pipe(c13P("se"), c13Call("hDbl")), c13Pipe(c13P("sf"), c13Call("hDbl")), c13Pipe(c13P("sneg"), c13Call("hUSum", c13Int(1))), c13Pipe(s1, c13Call("hNot")), c13Pipe(s1, c13Call("hFSub", c13Int(1))),
		c13Pipe(s1, c13Call("hRep", c13Str("zed"))), c13Call("hJoin", c13P("l")), c13Call("hSum", c13Int(1), c13Str("zed")), c13Pipe(s1, c13Call("upper"), c13Call("hDbl")), c13Call("hSub", n1, s1),
		c13Call("hPos", c13P("ls")), c13Pipe(c13P("ls"), c13Call("hDbl")), c13Call("hCtxSub", n1, c13P("m")), c13Call("hErrI", s1))
	add("function-error",
		c13Pipe(c13P("sbad"), c13Call("hErrS")), c13Call("hErrS", c13P("sbad")), c13Call("hErrS", c13Str("bad")), c13Pipe(c13P("ng"), c13Call("hErrI")), c13Call("hErrI", c13P("ng")), c13Call("hErrI", c13Lit("i", "-1")),
		c13Pipe(c13P("sbad"), c13Call("hErrS"), c13Call("upper")), c13Pipe(c13P("sbad"), c13Call("trim"), c13Call("hErrS")), c13Pipe(c13P("ng"), c13Call("hErrI"), c13Call("hDbl")), c13Pipe(c13P("ng"), c13Call("hDbl"), c13Call("hErrI")))
}

// ---------------------------------------------------------------- documentation examples

type c13DocEx struct {
	Class string // operators | ternary | pipe-expression-segment | filter | call | failure-contract
	ID    string
	Src   string
	Pos   string // p: text + bound attribute, c: conditions, a: all
	Want  string // printed value
	Truth bool
	ErrFn string // non-empty: the render must fail naming this function
}

var c13Docs = []c13DocEx{
	{"operators", "expressions.md/string-eq", `m.name == 'bob'`, "a", "true", true, ""},
	{"operators", "expressions.md/string-neq", `m.name != 'low'`, "a", "true", true, ""},
	{"operators", "expressions.md/num-ge", `n65 >= 90`, "a", "false", false, ""},
	{"operators", "expressions.md/num-gt", `n65 > 0`, "a", "true", true, ""},
	{"operators", "expressions.md/and", `bt && m.ok`, "a", "true", true, ""},
	{"operators", "expressions.md/or", `bf || bt`, "a", "true", true, ""},
	{"operators", "expressions.md/combined", `(n65 >= 60) && (m.name == 'bob')`, "a", "true", true, ""},
	{"operators", "expressions.md/multi-or", `m.name == 'admin' || m.name == 'moderator' || m.name == 'bob'`, "a", "true", true, ""},
	{"operators", "expressions.md/nested-eq-true", `m.in.w == 'deep'`, "a", "true", true, ""},
	{"operators", "expressions.md/eq-true-literal", `m.ok == true`, "a", "true", true, ""},
	{"operators", "expressions.md/index-path", `l[0]`, "a", "10", true, ""},
	{"call", "expressions.md/len-call-interp", `len(l)`, "a", "3", true, ""},
	{"call", "expressions.md/custom-call-interp", `hPos(n65)`, "a", "true", true, ""},
	{"ternary", "syntax.md/ternary-eq-dq", `m.name == "bob" ? "Online" : "Offline"`, "a", "Online", true, ""},
	{"ternary", "syntax.md/ternary-ge-dq", `n65 >= 18 ? "Adult" : "Minor"`, "a", "Adult", true, ""},
	{"ternary", "syntax.md/ternary-and-dq", `bt && m.ok ? "Allowed" : "Denied"`, "a", "Allowed", true, ""},
	{"ternary", "syntax.md/ternary-or-dq", `bf || m.off ? "No data" : "Has data"`, "a", "Has data", true, ""},
	{"ternary", "syntax.md/ternary-not-dq", `!bf ? "Enabled" : "Disabled"`, "a", "Enabled", true, ""},
	{"pipe-expression-segment", "syntax.md/pipe-dot-ternary", `n65 | . > 100 ? "Expensive" : "Affordable"`, "p", "Affordable", true, ""},
	{"filter", "syntax.md/filter-chain", `s2 | upper | title`, "p", "Bob Ray", true, ""},
	{"filter", "syntax.md/default-dq", `nope | default("No items")`, "p", "No items", true, ""},
	{"filter", "funcmap.md/upper", `s2 | upper`, "p", "BOB RAY", true, ""},
	{"filter", "funcmap.md/lower-title", `s2 | lower | title`, "p", "Bob Ray", true, ""},
	{"filter", "funcmap.md/default-dq", `nope | default("fallback")`, "p", "fallback", true, ""},
	{"filter", "funcmap.md/trim-lower-title", `sp | trim | lower | title`, "p", "Pad", true, ""},
	{"filter", "funcmap.md/nested-upper", `m.name | upper`, "p", "BOB", true, ""},
	{"filter", "funcmap.md/formatTime-upper", `ts | formatTime("2006-01-02") | upper`, "p", "2023-11-14", true, ""},
	{"filter", "funcmap.md/formatTime-comma-layout", `ts | formatTime("Jan 2, 2006")`, "p", "Nov 14, 2023", true, ""},
	{"filter", "funcmap.md/len-filter", `l | len`, "p", "3", true, ""},
	{"call", "funcmap.md/len-in-v-if", `len(l)`, "c", "3", true, ""},
	{"call", "funcmap.md/custom-call-in-v-if", `hPos(n65)`, "c", "true", true, ""},
	{"filter", "funcmap.md/int-filter", `sn | int`, "p", "42", true, ""},
	{"call", "funcmap.md/int-call-compare-in-v-if", `int(sn) > 0`, "c", "true", true, ""},
	{"filter", "funcmap.md/string-filter", `n65 | string`, "p", "65", true, ""},
	{"filter", "funcmap.md/json-filter", `l | json`, "p", "[10,20,30]", true, ""},
	{"filter", "funcmap.md/escape-filter", `sx | escape`, "p", "a&lt;b&amp;c", true, ""},
	{"filter", "funcmap.md/slugify-prefix", `s2 | slugify | prefix('/blog/')`, "p", "/blog/bob-ray", true, ""},
	{"filter", "funcmap.md/truncate", `s2 | truncate(3)`, "p", "bob...", true, ""},
	{"filter", "funcmap.md/currency", `f1 | currency`, "p", "$2.50", true, ""},
	{"failure-contract", "funcmap.md/error-example", `ls | hDbl`, "p", "", false, "hDbl"},
	{"failure-contract", "funcmap.md/unknown-function-fails", `s2 | nosuch`, "p", "", false, "nosuch"},
	{"failure-contract", "funcmap.md/unknown-function-fails-in-v-if", `nosuch(s2)`, "c", "", false, "nosuch"},
}

// ---------------------------------------------------------------- plan

type c13Seg struct {
	name string
	n    int
}

func c13Segments(ctx core.Ctx) []c13Seg {
	nChain12 := (len(c13Steps) + len(c13Steps)*len(c13Steps)) * len(c13Starts)
	nChain3 := ctx.Pick(20000, len(c13Steps)*len(c13Steps)*len(c13Steps)*c13NStartsLen3)
	return []c13Seg{
		{"d1", len(c13D1) * c13NEnv * len(c13Styles)},
		{"d2", len(c13D2) * ctx.Pick(2, 6) * len(c13Styles)},
		{"rnd", ctx.Pick(40000, 500000)},
		{"special", len(c13Specials) * c13NEnv},
		{"chain12", nChain12},
		{"chain3", nChain3},
		{"pair", len(c13Pairs) * 2},
		{"quote", len(c13Quotes) * 2},
		{"err", len(c13Errs) * 2},
		{"doc", len(c13Docs)},
	}
}

func c13PlanN(ctx core.Ctx) int {
	n := 0
	for _, s := range c13Segments(ctx) {
		n += s.n
	}
	return n
}

// c13Decidable reports whether the reference interpreter decides the tree in the environment.
func c13Decidable(e *c13E, env int) bool {
	ev := &c13Ev{env: c13Envs[env]}
	_, st := ev.eval(e)
	return st.Und == ""
}

func c13GenCase(ctx core.Ctx, i int) c13Case {
	if i < 0 {
		return c13Case{Part: "skip"}
	}
	seg := ""
	for _, s := range c13Segments(ctx) {
		if i < s.n {
			seg = s.name
			break
		}
		i -= s.n
	}
	switch seg {
	case "d1":
		style := c13Styles[i%len(c13Styles)]
		i /= len(c13Styles)
		env := i % c13NEnv
		i /= c13NEnv
		oi, combo := c13D1[i][0], c13D1[i][1]
		op := c13Ops[oi]
		var e c13E
		for try := 0; try < 12; try++ {
			r := core.NewRNG(ctx.Seed, 1, uint64(i), uint64(env), uint64(try))
			kids := make([]c13E, len(op.In))
			c := combo
			for k, t := range op.In {
				kids[k] = c13Leaf(r, t, c%3)
				c /= 3
			}
			e = c13Node(op, kids)
			if c13Decidable(&e, env) {
				break
			}
		}
		if !c13StyleFits(&e, style) {
			return c13Case{Part: "skip"}
		}
		return c13Case{Part: "tree", Style: style, Env: env, E: &e}
	case "d2":
		style := c13Styles[i%len(c13Styles)]
		i /= len(c13Styles)
		rot := i % ctx.Pick(2, 6)
		i /= ctx.Pick(2, 6)
		t := c13D2[i]
		outer, slot, inner := c13Ops[t[0]], t[1], c13Ops[t[2]]
		var e c13E
		env := 0
		for try := 0; try < 12; try++ {
			r := core.NewRNG(ctx.Seed, 2, uint64(i), uint64(rot), uint64(try))
			env = r.Intn(c13NEnv)
			kids := make([]c13E, len(outer.In))
			for k, it := range outer.In {
				if k == slot {
					ik := make([]c13E, len(inner.In))
					for j, jt := range inner.In {
						ik[j] = c13Leaf(r, jt, -1)
					}
					kids[k] = c13Node(inner, ik)
					kids[k].P = r.Chance(1, 6)
				} else {
					kids[k] = c13Leaf(r, it, -1)
				}
			}
			e = c13Node(outer, kids)
			if c13Decidable(&e, env) {
				break
			}
		}
		if !c13StyleFits(&e, style) {
			return c13Case{Part: "skip"}
		}
		return c13Case{Part: "tree", Style: style, Env: env, E: &e}
	case "rnd":
		var e c13E
		env, style := 0, "spaced"
		for try := 0; try < 12; try++ {
			r := core.NewRNG(ctx.Seed, 3, uint64(i), uint64(try))
			env = r.Intn(c13NEnv)
			t := core.Pick(r, []byte{'I', 'F', 'S', 'B', 'B', 'I'})
			e = c13RandTree(r, t, ctx.Pick(2, 3))
			switch k := r.Intn(20); {
			case k < 11:
				style = "spaced"
			case k < 14:
				style = "dq"
			case k < 16:
				style = "strict"
			default:
				style = "unspaced"
			}
			if c13Depth(&e) == 0 || !c13Decidable(&e, env) {
				continue
			}
			if c13TreeGroup(&e, style) == "unary-only" && try < 4 && !r.Chance(1, 8) {
				continue // the special part covers unary-only expressions; keep a few here
			}
			break
		}
		if c13Depth(&e) == 0 {
			return c13Case{Part: "skip"}
		}
		if !c13StyleFits(&e, style) {
			style = "spaced"
		}
		return c13Case{Part: "tree", Style: style, Env: env, E: &e, Tight: i%7 == 0}
	case "special":
		sp := c13Specials[i/c13NEnv]
		e := sp.E
		style := ""
		if strings.HasSuffix(sp.Group, "/unspaced") {
			style = "unspaced"
		}
		return c13Case{Part: "special", Group: sp.Group, Style: style, Env: i % c13NEnv, E: &e}
	case "chain12", "chain3":
		ns := len(c13Steps)
		var start string
		var idx []int
		env := i % c13NEnv
		if seg == "chain12" {
			start = c13Starts[i%len(c13Starts)]
			i /= len(c13Starts)
			if i < ns {
				idx = []int{i}
			} else {
				i -= ns
				idx = []int{i / ns, i % ns}
			}
		} else if ctx.Thorough() {
			start = c13Starts[i%c13NStartsLen3]
			i /= c13NStartsLen3
			idx = []int{i / (ns * ns), (i / ns) % ns, i % ns}
		} else {
			// sampled chains of length 3, biased towards chains whose prefix the reference accepts
			r := core.NewRNG(ctx.Seed, 4, uint64(i))
			start = core.Pick(r, c13Starts)
			env = r.Intn(c13NEnv)
			for k := 0; k < 3; k++ {
				j := r.Intn(ns)
				for try := 0; try < 6; try++ {
					pre := make([]c13E, 0, 3)
					for _, x := range idx {
						pre = append(pre, c13Steps[x])
					}
					pe := c13Pipe(c13P(start), append(pre, c13Steps[j])...)
					ev := &c13Ev{env: c13Envs[env]}
					if _, st := ev.eval(&pe); st.ok() || r.Chance(1, 5) {
						break
					}
					j = r.Intn(ns)
				}
				idx = append(idx, j)
			}
		}
		calls := make([]c13E, len(idx))
		for k, j := range idx {
			calls[k] = c13Steps[j]
		}
		e := c13Pipe(c13P(start), calls...)
		return c13Case{Part: "chain", Env: env, E: &e, Style: []string{"spaced", "dq"}[(i/3)%2]}
	case "pair":
		p := c13Pairs[i/2]
		e := p.E
		return c13Case{Part: "pair", Tag: p.Tag, Env: []int{0, 3}[i%2], E: &e}
	case "quote":
		q := c13Quotes[i/2]
		e := q.E
		return c13Case{Part: "quote", Tag: q.Tag, Env: 0, E: &e, Style: []string{"spaced", "dq"}[i%2], All: q.All}
	case "err":
		x := c13Errs[i/2]
		e := x.E
		return c13Case{Part: "err", Tag: x.Tag, Env: []int{0, 3}[i%2], E: &e, All: x.All}
	case "doc":
		d := c13Docs[i]
		return c13Case{Part: "doc", Env: 0, Tag: d.ID, Group: d.Class, Src: d.Src, Pos: d.Pos, Want: d.Want, Truth: d.Truth, ErrFn: d.ErrFn}
	}
	return c13Case{Part: "skip"}
}
