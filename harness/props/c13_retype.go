package props

import (
	"bytes"
	"fmt"
	"strings"

	vuego "github.com/titpetric/vuego"

	"verifharness/core"
)

// C13 "retype" part: the same expression text evaluated, on ONE engine, over
// environments in which the same variable names hold values of different Go
// types (also inside one v-for over a mixed list). What an expression means
// must not depend on the data the engine happened to see first: every render is
// compared with the same render on a fresh engine.

type c13Retype struct {
	Expr string `json:"expr"`
	A    []TV   `json:"a"` // x, y in the first environment
	B    []TV   `json:"b"` // x, y in the second environment
	Loop bool   `json:"loop,omitempty"`
}

var c13RetypeExprs = []string{
	"x == y", "x != y", "x == 1", "x != 1", "x == 'a'", "x", "!x", "x ? 'T' : 'F'", "x == y ? 'same' : 'diff'",
	"o.f == 1", "o.f", "o.f == y", "x == y && x != 2", "x == nil", "x | string", "x | default('d')",
}

var c13RetypeVals = [][]TV{
	{tvI(1), tvI(1)}, {tvS("a"), tvS("a")}, {tvI(1), tvS("1")}, {tvS("1"), tvI(1)}, {tvF(1.5), tvF(1.5)}, {tvB(true), tvB(true)}, {tvNil(), tvI(1)},
	{{K: "int64", I: 1}, tvI(1)}, {tvS("a"), tvS("b")}, {tvI(2), tvI(3)}, {{K: "Item", M: map[string]TV{"title": tvS("t")}}, tvS("a")},
}

func c13NRetype() int {
	n := len(c13RetypeVals)
	return len(c13RetypeExprs)*n*n + len(c13RetypeExprs)
}

func c13BuildRetype(i int) c13Case {
	n := len(c13RetypeVals)
	if i >= len(c13RetypeExprs)*n*n {
		e := c13RetypeExprs[i-len(c13RetypeExprs)*n*n]
		return c13Case{Part: "retype", Retype: &c13Retype{Expr: e, Loop: true}}
	}
	e := c13RetypeExprs[i/(n*n)]
	a, b := c13RetypeVals[(i/n)%n], c13RetypeVals[i%n]
	return c13Case{Part: "retype", Retype: &c13Retype{Expr: e, A: a, B: b}}
}

func c13RetypeTpl(e string) string {
	return `<i data-m="t">[{{ ` + e + ` }}]</i><i data-m="a" :data-v="` + e + `"></i><i v-if="` + e + `" data-m="if"></i><i v-show="` + e + `" data-m="show"></i>`
}

func c13RetypeData(v []TV) map[string]any {
	m := map[string]any{}
	if len(v) >= 2 {
		if v[0].K != "missing" {
			m["x"] = v[0].Go()
		}
		m["y"] = v[1].Go()
		m["o"] = map[string]any{"f": v[0].Go()}
	}
	return m
}

func c13RetypeRender(t vuego.Template, tpl string, data map[string]any) (string, string) {
	var b bytes.Buffer
	err := t.New().Fill(data).RenderString(bg, &b, tpl)
	return b.String(), errStr(err)
}

func c13ExecRetype(c c13Case, o *core.Obs) {
	rt := c.Retype
	long := vuego.New(vuego.WithFuncs(c13FuncMap))
	type step struct {
		tpl  string
		data map[string]any
		name string
	}
	var steps []step
	if rt.Loop {
		// the same expression text over a mixed list: x takes a different type in every iteration
		mixed := []any{1, "a", 2.5, true, nil, int64(1), "1", map[string]any{"f": 1}}
		tpl := `<p v-for="x in xs">` + c13RetypeTpl(rt.Expr) + `</p>`
		for k := range mixed {
			// reference per iteration: the list holding only that item
			steps = append(steps, step{tpl, map[string]any{"xs": []any{mixed[k]}, "y": 1, "o": map[string]any{"f": mixed[k]}}, fmt.Sprintf("item %d (%T)", k, mixed[k])})
		}
		// one render over the whole list on the long-lived engine, compared piecewise
		whole, werr := c13RetypeRender(long, tpl, map[string]any{"xs": mixed, "y": 1, "o": map[string]any{"f": 1}})
		o.Evals++
		var parts []string
		anyErr := ""
		for k, st := range steps {
			d := map[string]any{"xs": []any{mixed[k]}, "y": 1, "o": map[string]any{"f": 1}}
			out, err := c13RetypeRender(vuego.New(vuego.WithFuncs(c13FuncMap)), st.tpl, d)
			o.Evals++
			if err != "<nil>" && anyErr == "" {
				anyErr = err
			}
			parts = append(parts, out)
		}
		o.NT("retype-loop", rt.Expr)
		o.Cell("part/retype/loop")
		if anyErr != "" || werr != "<nil>" {
			if (anyErr != "") != (werr != "<nil>") {
				o.Fail(c, "retype/loop/error-depends-on-neighbouring-items", "expression %q over a mixed list: whole-list render error %q, per-item renders error %q", rt.Expr, werr, anyErr)
			}
			return
		}
		if whole != strings.Join(parts, "") {
			o.Fail(c, "retype/loop/value-depends-on-neighbouring-items", "expression %q evaluated in one v-for over a list of differently typed items gives a different result than evaluating each item alone\nwhole: %s\nparts: %s", rt.Expr, clip(whole, 600), clip(strings.Join(parts, ""), 600))
		}
		return
	}
	tpl := c13RetypeTpl(rt.Expr)
	o.NT("retype", rt.Expr, mustJSON(rt.A), mustJSON(rt.B))
	o.Cell("part/retype/pair")
	for k, v := range [][]TV{rt.A, rt.B, rt.A} {
		data := c13RetypeData(v)
		got, gerr := c13RetypeRender(long, tpl, data)
		want, werr := c13RetypeRender(vuego.New(vuego.WithFuncs(c13FuncMap)), tpl, c13RetypeData(v))
		o.Evals += 2
		if gerr != werr {
			o.Fail(c, "retype/error-depends-on-earlier-data", "expression %q, environment %d of the sequence (x=%s y=%s): long-lived engine error %q, fresh engine error %q (the engine saw x=%s y=%s before)", rt.Expr, k, v[0], v[1], gerr, werr, rt.A[0], rt.A[1])
			return
		}
		if got != want {
			o.Fail(c, "retype/value-depends-on-earlier-data", "expression %q, environment %d of the sequence (x=%s y=%s): long-lived engine gives a different result than a fresh engine (the engine saw x=%s y=%s before)\nlong-lived: %s\nfresh:      %s", rt.Expr, k, v[0], v[1], rt.A[0], rt.A[1], clip(got, 400), clip(want, 400))
			return
		}
	}
}
