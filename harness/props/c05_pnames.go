package props

import (
	"bytes"
	"fmt"
	"strings"

	vuego "github.com/titpetric/vuego"

	"verifharness/core"
	"verifharness/oracle"
)

// propnames part of C05: the rule "attributes of the include are the
// component's props" does not depend on how the prop is called. Prop names that
// coincide with words the engine uses elsewhere (the :required / :require
// check, layout and content of the layout chain, slot, name, key ...) are
// passed in every form and must arrive in the component, must satisfy the
// component's own :required list, and must not be visible to the includer
// after the include.

var c05PNames = []string{"required", "require", "requires", "content", "layout", "slot", "name", "key", "is", "ref", "id", "type", "title", "value", "item", "index", "data", "props", "scope", "template", "component", "pa"}
var c05PForms = []string{"static", "interp", "bound", "short-static", "short-bound"}

type c05PN struct {
	Name string `json:"name"`
	Form string `json:"form"`
	Req  bool   `json:"req"`  // the component lists the name in :required
	Out  bool   `json:"out"`  // the includer has a variable of that name (must be shadowed inside, restored after)
	Loop bool   `json:"loop"` // the include sits inside a v-for
	Cond string `json:"cond"` // "" | if (the include tag carries a true v-if) | else (it is the v-else of a false v-if)
	// LoopSame: the loop variable has the prop's name and is what the prop is bound to
	// (<div v-for="item in items"><card :item="item">) - the usual way to hand an item to a component
	LoopSame bool `json:"loop_same,omitempty"`
}

func c05NPNames() int { return len(c05PNames)*len(c05PForms)*8*3 + len(c05PNames)*2*2 }

func c05GenPNames(i int) c05Case {
	if main := len(c05PNames) * len(c05PForms) * 8 * 3; i >= main {
		i -= main
		pn := c05PN{Name: c05PNames[i%len(c05PNames)], Loop: true, LoopSame: true}
		i /= len(c05PNames)
		pn.Form = []string{"bound", "short-bound"}[i%2]
		pn.Out = (i/2)%2 == 1
		return c05Case{Part: "propnames", PN: &pn}
	}
	pn := c05PN{Name: c05PNames[i%len(c05PNames)]}
	i /= len(c05PNames)
	pn.Form = c05PForms[i%len(c05PForms)]
	i /= len(c05PForms)
	pn.Req, pn.Out, pn.Loop = i&1 != 0, i&2 != 0, i&4 != 0
	pn.Cond = []string{"", "if", "else"}[(i/8)%3]
	return c05Case{Part: "propnames", PN: &pn}
}

func c05ExecPNames(c c05Case, o *core.Obs) {
	pn := *c.PN
	attr := ""
	switch pn.Form {
	case "static", "short-static":
		attr = fmt.Sprintf(`%s="PV"`, pn.Name)
	case "interp":
		attr = fmt.Sprintf(`%s="P{{ src }}"`, pn.Name)
	default:
		attr = fmt.Sprintf(`:%s="srcv"`, pn.Name)
		if pn.LoopSame {
			attr = fmt.Sprintf(`:%[1]s="%[1]s"`, pn.Name)
		}
	}
	cond := map[string]string{"": "", "if": `v-if="yes" `, "else": `v-else `}[pn.Cond]
	inc := fmt.Sprintf(`<template %sinclude="components/Probe.vuego" %s other="OV"></template>`, cond, attr)
	if strings.HasPrefix(pn.Form, "short") {
		inc = fmt.Sprintf(`<probe %s%s other="OV"></probe>`, cond, attr)
	}
	if pn.Cond == "else" {
		inc = `<em v-if="no">never</em>` + inc
	}
	if pn.LoopSame {
		inc = `<div v-for="` + pn.Name + ` in pvs">` + inc + `</div>`
	} else if pn.Loop {
		inc = `<div v-for="lp in two">` + inc + `</div>`
	}
	page := `<section data-m="before">[{{ ` + pn.Name + ` }}]</section>` + inc + `<section data-m="after">[{{ ` + pn.Name + ` }}]</section>`
	req := ""
	if pn.Req {
		req = fmt.Sprintf(` :required="%s"`, pn.Name)
	}
	comp := fmt.Sprintf(`<template%s><i data-m="in">[{{ %s }}|{{ other }}]</i></template>`, req, pn.Name)
	data := map[string]any{"src": "V", "srcv": "PV", "two": []any{1, 2}, "pvs": []any{"PV", "PV"}, "yes": true, "no": false}
	wantOut := ""
	if pn.Out && pn.Name != "layout" { // a page-level `layout` variable selects a layout file (C07), it is not an ordinary variable
		data[pn.Name] = "OUTER"
		wantOut = "OUTER"
	}
	n := 1
	if pn.Loop {
		n = 2
	}
	files := map[string]string{"page.vuego": page, "components/Probe.vuego": comp}
	var b bytes.Buffer
	err := vuego.NewFS(memFS(files), vuego.WithComponents()).Load("page.vuego").Fill(data).Render(bg, &b)
	o.Evals++
	o.NT("propnames", mustJSON(pn))
	o.Cell("part/propnames")
	o.Cell("propnames/name/" + pn.Name)
	o.Cell("propnames/form/" + pn.Form)
	o.Cell("propnames/include-tag-condition/" + map[string]string{"": "none", "if": "v-if", "else": "v-else"}[pn.Cond])
	sig := func(what string) string {
		cls := "ordinary"
		if pn.Name != "pa" {
			cls = "engine-word"
		}
		if pn.Cond != "" {
			cls += "+v-" + pn.Cond + "-on-the-include-tag"
		}
		if pn.LoopSame {
			cls += "+loop-variable-of-the-same-name"
		}
		return fmt.Sprintf("propnames/%s/%s/%s", what, cls, pn.Form)
	}
	detail := fmt.Sprintf("prop %q (%s), required=%v, includer variable=%v, in loop=%v\npage: %s\ncomponent: %s\noutput: %s", pn.Name, pn.Form, pn.Req, pn.Out, pn.Loop, page, comp, clip(b.String(), 600))
	if err != nil {
		what := "error"
		if pn.Req && strings.Contains(err.Error(), "equired") {
			what = "provided-prop-reported-missing"
		}
		o.Fail(c, sig(what), "render failed: %v\n%s", err, detail)
		return
	}
	doc := oracle.ParseAuto(b.String())
	ins := doc.ByAttr("data-m", "in")
	if len(ins) != n {
		o.Fail(c, sig("instances"), "expected %d component instance(s), found %d\n%s", n, len(ins), detail)
		return
	}
	for _, in := range ins {
		if got := in.InnerText(); got != "[PV|OV]" {
			what := "prop-not-received"
			if strings.HasPrefix(got, "[OUTER|") {
				what = "includer-variable-instead-of-prop"
			}
			o.Fail(c, sig(what), "component printed %q, want \"[PV|OV]\"\n%s", got, detail)
			return
		}
	}
	for _, m := range []string{"before", "after"} {
		s := doc.ByAttr("data-m", m)
		if len(s) != 1 || s[0].InnerText() != "["+wantOut+"]" {
			got := "<missing>"
			if len(s) == 1 {
				got = s[0].InnerText()
			}
			o.Fail(c, sig("includer-sees-prop-"+m), "includer reads %q %s the include, want %q\n%s", got, m, "["+wantOut+"]", detail)
			return
		}
	}
}

// selfrec part: a component that includes itself through its own shorthand tag
// (a tree), compared with the same component written with <template include>.

func c05NSelfRec() int { return 2 * len(c05SelfRecForms) }

var c05SelfRecForms = []string{"short", "include", "nest-short", "nest-include",
	"shadow-prop-include", "shadow-prop-short", "shadow-fm-include", "shadow-fm-short", "shadow-prop-in-loop"}

func c05GenSelfRec(i int) c05Case {
	return c05Case{Part: "selfrec", Entry: []string{"tpl", "vue"}[i%2], PN: &c05PN{Form: c05SelfRecForms[(i/2)%len(c05SelfRecForms)]}}
}

// nest forms: a shorthand tag written in the content supplied to another
// shorthand tag (directly and inside an element), against the include spelling.
func c05ExecNestShort(c c05Case, o *core.Obs) {
	page := `<x-card t="T"><x-badge :n="x">new {{ x }}</x-badge><p data-m="p"><x-badge n="in-p">deep</x-badge></p></x-card>`
	if c.PN.Form == "nest-include" {
		page = `<template include="components/XCard.vuego" t="T"><template include="components/XBadge.vuego" :n="x">new {{ x }}</template><p data-m="p"><template include="components/XBadge.vuego" n="in-p">deep</template></p></template>`
	}
	files := map[string]string{"page.vuego": page,
		"components/XCard.vuego":  `<div data-m="card" :data-t="t"><slot>fd</slot></div>`,
		"components/XBadge.vuego": `<span data-m="badge" :data-n="n"><slot>fb</slot></span>`}
	data := map[string]any{"x": "X"}
	var b bytes.Buffer
	var err error
	fsys := memFS(files)
	if c.Entry == "vue" {
		v := vuego.NewVue(fsys)
		v.RegisterComponent("x-card", "components/XCard.vuego")
		v.RegisterComponent("x-badge", "components/XBadge.vuego")
		err = v.Render(&b, "page.vuego", data)
	} else {
		err = vuego.NewFS(fsys, vuego.WithComponents()).Load("page.vuego").Fill(data).Render(bg, &b)
	}
	o.Evals++
	o.NT("selfrec", c.Entry, c.PN.Form)
	o.Cell("part/selfrec/" + c.PN.Form)
	sig := "selfrec/" + c.PN.Form
	if err != nil {
		o.Fail(c, sig+"/error", "render failed: %v\npage: %s", err, page)
		return
	}
	var got []string
	doc := oracle.ParseAuto(b.String())
	for _, n := range doc.ByAttr("data-m", "badge") {
		d, _ := n.Attr("data-n")
		got = append(got, d+":"+strings.TrimSpace(n.InnerText()))
	}
	want := "X:new X in-p:deep"
	if strings.Join(got, " ") != want || len(doc.ByAttr("data-m", "card")) != 1 {
		o.Fail(c, sig+"/component-in-slot-content-not-rendered", "a component tag in the content supplied to another component (%s spelling): want badges %q inside one card, got %q\npage: %s\noutput: %s", c.PN.Form, want, strings.Join(got, " "), page, clip(b.String(), 700))
	}
}

// shadow forms: a map-valued prop (or front-matter key) named like a variable of the includer replaces that
// variable as a whole inside the component: a key only the includer's map has is not readable through it, by a
// dotted path, a bracketed path, a bound attribute, a loop collection, or one include further down.
func c05ExecShadowPath(c c05Case, o *core.Obs) {
	attr := ` :user="u"`
	fm := ""
	switch {
	case strings.HasPrefix(c.PN.Form, "shadow-fm"):
		attr, fm = "", "---\nuser:\n  age: 3\n---\n"
	}
	inc := `<template include="components/UCard.vuego"` + attr + `></template>`
	if strings.HasSuffix(c.PN.Form, "-short") {
		inc = `<u-card` + attr + `></u-card>`
	}
	if c.PN.Form == "shadow-prop-in-loop" {
		inc = `<section v-for="u in us"><u-card :user="u"></u-card></section>`
	}
	page := `<div data-m="before">[{{ user.name }}]</div>` + inc + `<div data-m="after">[{{ user.name }}|{{ user.age }}]</div>`
	comp := fm + `<div data-m="card"><i data-p="age">[{{ user.age }}]</i><i data-p="dot">[{{ user.name }}]</i><i data-p="bracket">[{{ user['name'] }}]</i>` +
		`<i data-p="attr" :title="user.name" :data-deep="user.deep.x">x</i><i data-p="filter">[{{ user.name | upper }}]</i><b data-p="loop" v-for="it in user.items">{{ it }}</b>` +
		`<i data-p="deep">[{{ user.deep.x }}]</i><i data-p="cond" v-if="user.name">c</i><template include="components/UInner.vuego"></template></div>`
	inner := `<em data-p="inner">[{{ user.name }}|{{ user.age }}]</em>`
	files := map[string]string{"page.vuego": page, "components/UCard.vuego": comp, "components/UInner.vuego": inner}
	data := map[string]any{
		"user": map[string]any{"name": "Ann", "items": []any{1, 2}, "deep": map[string]any{"x": "OUT"}},
		"u":    map[string]any{"age": 3, "deep": map[string]any{}},
		"us":   []any{map[string]any{"age": 3}},
	}
	var b bytes.Buffer
	var err error
	fsys := memFS(files)
	if c.Entry == "vue" {
		v := vuego.NewVue(fsys)
		v.RegisterComponent("u-card", "components/UCard.vuego")
		err = v.Render(&b, "page.vuego", data)
	} else {
		err = vuego.NewFS(fsys, vuego.WithComponents()).Load("page.vuego").Fill(data).Render(bg, &b)
	}
	o.Evals++
	o.NT("selfrec", c.Entry, c.PN.Form)
	o.Cell("part/selfrec/" + c.PN.Form)
	sig := "shadow/" + strings.TrimPrefix(c.PN.Form, "shadow-")
	if err != nil {
		o.Fail(c, sig+"/error", "render failed: %v\npage: %s\ncomponent: %s", err, page, comp)
		return
	}
	doc := oracle.ParseAuto(b.String())
	text := func(key, val string) string {
		ns := doc.ByAttr(key, val)
		if len(ns) != 1 {
			return fmt.Sprintf("<%d elements>", len(ns))
		}
		return strings.TrimSpace(ns[0].InnerText())
	}
	bad := func(what, want, got string) {
		o.Fail(c, sig+"/"+what, "a map-valued %s named like the includer's variable `user` (includer: {name, items, deep.x}; the component's: {age}): %s: want %q, got %q\npage: %s\ncomponent: %s\noutput: %s",
			map[bool]string{true: "front-matter key", false: "prop"}[fm != ""], what, want, got, page, comp, clip(b.String(), 900))
	}
	for _, w := range [][2]string{{"age", "[3]"}, {"dot", "[]"}, {"bracket", "[]"}, {"filter", "[]"}, {"deep", "[]"}, {"inner", "[|3]"}} {
		if got := text("data-p", w[0]); got != w[1] {
			bad("component-reads-includer-key/"+w[0], w[1], got)
		}
	}
	if n := doc.ByAttr("data-p", "attr"); len(n) == 1 {
		if v, ok := n[0].Attr("title"); ok {
			bad("component-reads-includer-key/bound-attr", "(no title attribute)", v)
		}
		if v, ok := n[0].Attr("data-deep"); ok {
			bad("component-reads-includer-key/bound-attr-deep", "(no data-deep attribute)", v)
		}
	} else {
		bad("probe-missing/attr", "1 element", fmt.Sprint(len(n)))
	}
	if n := len(doc.ByAttr("data-p", "loop")); n != 0 {
		bad("component-reads-includer-key/loop-collection", "0 iterations", fmt.Sprint(n))
	}
	if n := len(doc.ByAttr("data-p", "cond")); n != 0 {
		bad("component-reads-includer-key/condition", "absent", "present")
	}
	if got := text("data-m", "before"); got != "[Ann]" {
		bad("includer-before", "[Ann]", got)
	}
	if got := text("data-m", "after"); got != "[Ann|]" {
		bad("includer-after", "[Ann|]", got)
	}
}

func c05ExecSelfRec(c c05Case, o *core.Obs) {
	if strings.HasPrefix(c.PN.Form, "shadow-") {
		c05ExecShadowPath(c, o)
		return
	}
	if strings.HasPrefix(c.PN.Form, "nest-") {
		c05ExecNestShort(c, o)
		return
	}
	kid := `<tree-node v-for="k in node.kids" :node="k" :depth="k.name"></tree-node>`
	if c.PN.Form == "include" {
		kid = `<template include="components/TreeNode.vuego" v-for="k in node.kids" :node="k" :depth="k.name"></template>`
	}
	comp := `<li data-m="n" :data-d="depth">{{ node.name }}<ul v-if="node.kids">` + kid + `</ul></li>`
	page := `<ul data-m="root"><tree-node :node="tree" depth="top"></tree-node></ul>`
	files := map[string]string{"page.vuego": page, "components/TreeNode.vuego": comp}
	leaf := func(n string) map[string]any { return map[string]any{"name": n} }
	data := map[string]any{"tree": map[string]any{"name": "a", "kids": []any{
		map[string]any{"name": "b", "kids": []any{leaf("c"), map[string]any{"name": "d", "kids": []any{leaf("e")}}}}, leaf("f")}}}
	var b bytes.Buffer
	var err error
	fsys := memFS(files)
	if c.Entry == "vue" {
		v := vuego.NewVue(fsys)
		v.RegisterComponent("tree-node", "components/TreeNode.vuego")
		err = v.Render(&b, "page.vuego", data)
	} else {
		err = vuego.NewFS(fsys, vuego.WithComponents()).Load("page.vuego").Fill(data).Render(bg, &b)
	}
	o.Evals++
	o.NT("selfrec", c.Entry, c.PN.Form)
	o.Cell("part/selfrec/" + c.PN.Form)
	sig := "selfrec/" + c.PN.Form
	if err != nil {
		o.Fail(c, sig+"/error", "render failed: %v\ncomponent: %s", err, comp)
		return
	}
	var got []string
	for _, n := range oracle.ParseAuto(b.String()).ByAttr("data-m", "n") {
		d, _ := n.Attr("data-d")
		own := ""
		for _, k := range n.Kids {
			if k.Kind == "text" {
				own += k.Text
			}
		}
		got = append(got, d+":"+strings.TrimSpace(own))
	}
	want := "top:a b:b c:c d:d e:e f:f"
	if strings.Join(got, " ") != want {
		o.Fail(c, sig+"/tree-not-rendered", "a component that includes itself (%s spelling): want nodes %q, got %q\ncomponent: %s\noutput: %s", c.PN.Form, want, strings.Join(got, " "), comp, clip(b.String(), 700))
	}
}
