package props

import (
	"encoding/json"
	"fmt"
	vuego "github.com/titpetric/vuego"
	"regexp"
	"strings"

	"verifharness/core"
	"verifharness/oracle"
)

// C03 — conditional chains render exactly the first truthy branch; truthiness is uniform.

type c03Case struct {
	Part      string   `json:"part"` // chain | uniform
	Placement string   `json:"placement,omitempty"`
	K         int      `json:"k,omitempty"`    // number of v-else-if members
	Else      bool     `json:"else,omitempty"` // chain ends in v-else
	Form      string   `json:"form,omitempty"` // bare | not
	Vals      []TV     `json:"vals,omitempty"` // condition values c0..cK (first chain / first item)
	Vals2     []TV     `json:"vals2,omitempty"`
	Val       *TV      `json:"val,omitempty"`  // uniform part
	Path      string   `json:"path,omitempty"` // uniform part: "v" or "o.v"
	Lazy      *c03Lazy `json:"lazy,omitempty"` // lazy part (c03_lazy.go)
}

var c03Falsy = []TV{
	{K: "bool"}, {K: "int"}, {K: "int8"}, {K: "int16"}, {K: "int32"}, {K: "int64"},
	{K: "uint"}, {K: "uint8"}, {K: "uint16"}, {K: "uint32"}, {K: "uint64"}, {K: "uintptr"},
	{K: "float32"}, {K: "float64"}, {K: "string"}, {K: "nil"}, {K: "missing"},
}

var c03Truthy = []TV{
	{K: "bool", B: true}, {K: "int", I: 1}, {K: "int", I: -1}, {K: "int8", I: 3}, {K: "int16", I: 7}, {K: "int32", I: -2}, {K: "int64", I: 1 << 40},
	{K: "uint", U: 1}, {K: "uint8", U: 255}, {K: "uint16", U: 9}, {K: "uint32", U: 1}, {K: "uint64", U: 1 << 50}, {K: "uintptr", U: 1},
	{K: "float32", F: 0.5}, {K: "float64", F: -0.25}, {K: "float64", F: 1e-9},
	{K: "string", S: "x"}, {K: "string", S: "0"}, {K: "string", S: " "}, {K: "string", S: "nil"},
	{K: "*Item", M: map[string]TV{"title": tvS("t")}}, {K: "Item"}, {K: "slice"}, {K: "slice", L: []TV{tvI(0)}},
	{K: "map"}, {K: "map", M: map[string]TV{"a": tvI(0)}}, {K: "[]int"}, {K: "time", I: 0}, {K: "struct{}"}, {K: "map[string]string"},
	// non-nil pointers are truthy whatever they point to ("everything else truthy")
	{K: "*bool", B: true}, {K: "*int"}, {K: "*int", I: 4}, {K: "*string"}, {K: "*string", S: "s"}, {K: "**int"},
	// named types over the basic kinds, non-zero
	{K: "NamedBool", B: true}, {K: "NamedInt", I: 2}, {K: "NamedInt8", I: -3}, {K: "NamedUint8", U: 9}, {K: "NamedUint64", U: 1 << 63}, {K: "NamedFloat", F: 0.5}, {K: "NamedString", S: "ns"},
	{K: "FileMode", U: 0o755}, {K: "Duration", I: 1500}, {K: "Month", I: 3},
}

var c03Undecided = []TV{{K: "nil*Item"}, {K: "nilslice"}, {K: "nilmap"},
	// zero values of named types: the documented table lists Go's built-in types only
	{K: "NamedBool"}, {K: "NamedInt"}, {K: "NamedUint8"}, {K: "NamedFloat"}, {K: "NamedString"}, {K: "FileMode"}}

// values used by the uniform part only: the string "false" is truthy by the
// stated rule but falsy in the engine (pinned by the repository's own unit test,
// recorded as a known finding); keeping it out of the chain part keeps chain
// verdicts about chain structure.
var c03UniformOnly = []TV{{K: "string", S: "false"}, {K: "string", S: "true"}, {K: "string", S: "FALSE"}, {K: "*bool"}}

// incmember / shortmember: the chain members are include tags / shorthand component tags themselves (a conditional include)
var c03Placements = []string{"top", "nested", "for", "template", "ws", "comment", "adjacent", "beforefor", "table", "component", "slot", "layout", "incmember", "shortmember", "slotmember", "tvhtml", "elsefor", "afteremptyfor", "comptop"}

type c03 struct{}

func init() {
	core.Register(&c03{}, core.Meta{
		Exhaustive: func(ctx core.Ctx) bool { return true },
		Assumptions: []string{
			"golang.org/x/net/html re-parse of the output is the trusted observer",
			"typed nil pointers / nil slices / nil maps and zero values of named types (type T int, fs.FileMode, ...) are reported in the evidence but judged only for uniformity across positions, not for direction (the documented table does not say whether a typed nil is 'nil' or whether a named zero is a zero)",
			"orphan v-else / v-else-if (no preceding v-if) and non-whitespace text between chain members are outside the statement and not generated",
		},
	})
}

func (p *c03) ID() string { return "C03" }
func (p *c03) Rule() string {
	return "chain part: every shape v-if + k x v-else-if (k<=2 quick, k<=3 thorough) with/without v-else x every truth assignment x 19 placements (the chain of <template> members heading an included component file, the chain directly after a loop that produces nothing, the v-else-if / v-else members being loops themselves, the chain members being include tags / shorthand component tags / <slot> elements of a component / <template v-html> tags themselves, top, nested, inside v-for with per-item conditions, on <template>, whitespace/comment between members, two adjacent chains, chain directly before a v-for sibling, inside table rows, inside an included component, inside slot content, inside a layout) x condition form (bare, negated) x a rotation through all Go value kinds realising each truth value; lazy part: every chain of 1-3 v-else-if (with/without v-else) x every position of the first truthy member that is followed by a v-else-if x later conditions that call a function returning an error / a counting function x {top, v-for, <template>, component}: the taken branch is rendered and the render does not fail; uniform part: every value of the truthy/falsy/undecided catalogue (all numeric widths, strings incl. \"0\" and \"false\", nil, missing, pointers, slices, maps, structs) x {v, o.v, v as the item of a loop whose variable shadows a truthy outer v, a variable named title / json like a built-in template function, a struct field by JSON tag, a dashed map key, a numeric dotted step} read in v-if, v-else-if, v-show, :attr, :class object and their negations in v-if/v-else-if/v-show; non-trivial = every generated case (each has a condition decided by data); distinct by (shape, placement, form, values)"
}

func (p *c03) maxK(ctx core.Ctx) int { return ctx.Pick(2, 3) }

// enumeration of chain cases
type c03Shape struct {
	k      int
	els    bool
	assign int // bitmask over k+1 conditions
}

func (p *c03) shapes(ctx core.Ctx) []c03Shape {
	var out []c03Shape
	for k := 0; k <= p.maxK(ctx); k++ {
		for _, e := range []bool{false, true} {
			for a := 0; a < 1<<(k+1); a++ {
				out = append(out, c03Shape{k, e, a})
			}
		}
	}
	return out
}

func (p *c03) rot(ctx core.Ctx) int { return ctx.Pick(8, len(c03Truthy)) }

func (p *c03) Plan(ctx core.Ctx) int {
	nChain := len(p.shapes(ctx)) * len(c03Placements) * 2 * p.rot(ctx)
	nUni := (len(c03Falsy) + len(c03Truthy) + len(c03Undecided) + len(c03UniformOnly)) * 9
	return nChain + nUni + len(c03LazyCases()) + c03NCompound
}

func (p *c03) Gen(ctx core.Ctx, i int) any {
	shapes := p.shapes(ctx)
	rot := p.rot(ctx)
	nChain := len(shapes) * len(c03Placements) * 2 * rot
	if nUni := (len(c03Falsy) + len(c03Truthy) + len(c03Undecided) + len(c03UniformOnly)) * 9; i >= nChain+nUni+len(c03LazyCases()) {
		j := i - nChain - nUni - len(c03LazyCases())
		return c03Case{Part: "compound", K: j / 8, Path: fmt.Sprintf("%03b", j%8)}
	} else if i >= nChain+nUni {
		l := c03LazyCases()[i-nChain-nUni]
		return c03Case{Part: "lazy", Lazy: &l}
	}
	if i >= nChain {
		j := i - nChain
		all := append(append(append(append([]TV{}, c03Falsy...), c03Truthy...), c03Undecided...), c03UniformOnly...)
		v := all[j/9]
		// shadow: the value is the item of a loop whose variable shadows a truthy outer variable of the same name;
		// title, json: the variable is named like a built-in template function
		// tag: a struct field addressed by its JSON tag; dash: a map key with a dash; idx: a numeric dotted step -
		// paths that only the variable stack resolves, not the expression engine
		// varidx: a map read through a variable key (sel[k])
		path := []string{"v", "o.v", "shadow", "title", "json", "tag", "dash", "idx", "varidx"}[j%9]
		return c03Case{Part: "uniform", Val: &v, Path: path}
	}
	r := i % rot
	i /= rot
	form := []string{"bare", "not"}[i%2]
	i /= 2
	pl := c03Placements[i%len(c03Placements)]
	i /= len(c03Placements)
	sh := shapes[i]
	// the seed shifts which kinds meet which shape, so different seeds visit different combinations
	off := int(ctx.Seed % 997)
	pick := func(truth bool, pos int) TV {
		if form == "not" {
			truth = !truth
		}
		if truth {
			return c03Truthy[(r*3+pos*5+off)%len(c03Truthy)]
		}
		return c03Falsy[(r*3+pos*5+off)%len(c03Falsy)]
	}
	c := c03Case{Part: "chain", Placement: pl, K: sh.k, Else: sh.els, Form: form}
	for j := 0; j <= sh.k; j++ {
		c.Vals = append(c.Vals, pick(sh.assign&(1<<j) != 0, j))
	}
	if pl == "for" || pl == "adjacent" {
		// second item / second chain: the complementary-rotated assignment
		a2 := (sh.assign*5 + 3 + r) % (1 << (sh.k + 1))
		for j := 0; j <= sh.k; j++ {
			c.Vals2 = append(c.Vals2, pick(a2&(1<<j) != 0, j+7))
		}
	}
	return c
}

func (p *c03) Decode(raw json.RawMessage) (any, error) { return core.JSONDecode[c03Case](raw) }

// chainHTML writes the members of one chain. prefix distinguishes variable and marker names.
func c03Chain(c c03Case, prefix, varPrefix, tag string, sep string, tmpl bool) string {
	var b strings.Builder
	cond := func(j int) string {
		e := fmt.Sprintf("%s%d", varPrefix, j)
		if c.Form == "not" {
			e = "!" + e
		}
		return e
	}
	member := func(dir, marker string) {
		if tmpl {
			fmt.Fprintf(&b, `<template %s><%s data-m="%s">x</%s><%s data-m="%s+">y</%s></template>`, dir, tag, marker, tag, tag, marker, tag)
		} else {
			fmt.Fprintf(&b, `<%s %s data-m="%s">x</%s>`, tag, dir, marker, tag)
		}
	}
	member(fmt.Sprintf(`v-if="%s"`, cond(0)), prefix+"0")
	for j := 1; j <= c.K; j++ {
		b.WriteString(sep)
		member(fmt.Sprintf(`v-else-if="%s"`, cond(j)), fmt.Sprintf("%s%d", prefix, j))
	}
	if c.Else {
		b.WriteString(sep)
		member("v-else", prefix+"else")
	}
	return b.String()
}

func c03Expect(c c03Case, vals []TV, prefix string, tmpl bool) (markers []string, undecided bool) {
	chosen := ""
	for j, v := range vals {
		t, dec := v.Truthy()
		if !dec {
			return nil, true
		}
		if c.Form == "not" {
			t = !t
		}
		if t {
			chosen = fmt.Sprintf("%s%d", prefix, j)
			break
		}
	}
	if chosen == "" && c.Else {
		chosen = prefix + "else"
	}
	if chosen == "" {
		return nil, false
	}
	if tmpl {
		return []string{chosen, chosen + "+"}, false
	}
	return []string{chosen}, false
}

func c03Data(vals []TV, varPrefix string, into map[string]any) {
	for j, v := range vals {
		if v.K == "missing" {
			continue
		}
		into[fmt.Sprintf("%s%d", varPrefix, j)] = v.Go()
	}
}

func (p *c03) Exec(ctx core.Ctx, cc any) core.Obs {
	c := cc.(c03Case)
	if c.Part == "uniform" {
		return p.execUniform(c)
	}
	var o core.Obs
	if c.Part == "compound" {
		var o core.Obs
		c03ExecCompound(c, &o)
		return o
	}
	if c.Part == "lazy" && c.Lazy != nil {
		c03ExecLazy(c, &o)
		return o
	}
	data := map[string]any{}
	var tpl string
	var files map[string]string
	var want []string
	withComponents := false
	tag := "p"
	switch c.Placement {
	case "top", "nested", "ws", "comment", "template", "beforefor", "table", "memberfor", "component", "slot", "layout", "incmember", "shortmember", "slotmember", "tvhtml", "elsefor", "afteremptyfor", "comptop":
		c03Data(c.Vals, "c", data)
		sep := ""
		switch c.Placement {
		case "ws":
			sep = "\n   \n"
		case "comment":
			sep = "<!-- between -->"
		}
		if c.Placement == "table" {
			tag = "tr"
		}
		tmplMembers := c.Placement == "template" || c.Placement == "comptop"
		chain := c03Chain(c, "b", "c", tag, sep, tmplMembers)
		exp, _ := c03Expect(c, c.Vals, "b", tmplMembers)
		if c.Placement == "elsefor" {
			// the v-else-if / v-else members are loops themselves: the chosen one renders one instance per item
			data["two"] = []any{1, 2}
			re := regexp.MustCompile(`<p (v-else-if="[^"]*"|v-else) data-m="([^"]*)">`)
			chain = re.ReplaceAllString(chain, `<p $1 v-for="n in two" data-m="$2">`)
			if len(exp) == 1 && exp[0] != "b0" {
				exp = []string{exp[0], exp[0]}
			}
		}
		if c.Placement == "memberfor" {
			// every member is also looped (two instances of the chosen branch)
			data["two"] = []any{1, 2}
			chain = strings.ReplaceAll(chain, ` data-m="`, ` v-for="n in two" data-m="`)
			if len(exp) == 1 {
				exp = []string{exp[0], exp[0]}
			}
		}
		pre, post := `<p data-m="pre">a</p>T1 `, ` T2<p data-m="post">z</p>`
		want = append([]string{"pre"}, exp...)
		switch c.Placement {
		case "afteremptyfor":
			// the chain directly follows a loop that produces nothing: the chain is a chain of its own, not the loop's else
			data["none"] = []any{}
			pre = `<p data-m="pre">a</p>T1 <p v-for="n in none" data-m="loop">{{ n }}</p>`
			if c.Form == "not" {
				pre += "\n  <!-- c -->"
			}
		case "beforefor":
			data["items"] = []any{1, 2}
			post = `<p v-for="n in items" data-m="loop">{{ n }}</p>` + post
			want = append(want, "loop", "loop")
		case "table":
			pre, post = `<tr data-m="pre"><td>a</td></tr>`, `<tr data-m="post"><td>z</td></tr>`
		}
		want = append(want, "post")
		switch c.Placement {
		case "slotmember", "tvhtml":
			re := regexp.MustCompile(`<p (v-if="[^"]*"|v-else-if="[^"]*"|v-else) data-m="([^"]*)">x</p>`)
			if c.Placement == "tvhtml" {
				// the members are <template v-html> tags: the chosen one prints its markup in place
				tpl = `<section data-m="wrap">` + pre + re.ReplaceAllString(chain, `<template $1 v-html="markup['$2']"></template>`) + post + `</section>`
				mk := map[string]any{}
				for _, m := range re.FindAllStringSubmatch(chain, -1) {
					mk[m[2]] = `<p data-m="` + m[2] + `">x</p>`
				}
				data["markup"] = mk
				break
			}
			// the members are <slot> elements of a component; the page supplies every one of them
			var supply strings.Builder
			for _, m := range re.FindAllStringSubmatch(chain, -1) {
				fmt.Fprintf(&supply, `<template #%s><p data-m="%s">x</p></template>`, strings.ReplaceAll(m[2], "+", "x"), m[2])
			}
			comp := re.ReplaceAllStringFunc(chain, func(x string) string {
				m := re.FindStringSubmatch(x)
				return `<slot ` + m[1] + ` name="` + strings.ReplaceAll(m[2], "+", "x") + `">fallback-` + m[2] + `</slot>`
			})
			props := ""
			for k := range data {
				props += fmt.Sprintf(` :%s="%s"`, k, k)
			}
			files = map[string]string{"page.vuego": `<template include="c.vuego"` + props + `>` + supply.String() + `</template>`, "c.vuego": `<section data-m="wrap">` + pre + comp + post + `</section>`}
		case "incmember", "shortmember":
			// <p DIR data-m="M">x</p>  ->  an include of a component that renders <p data-m="M">
			re := regexp.MustCompile(`<p (v-if="[^"]*"|v-else-if="[^"]*"|v-else) data-m="([^"]*)">x</p>`)
			repl := `<template $1 include="components/MBox.vuego" mk="$2"></template>`
			if c.Placement == "shortmember" {
				repl = `<m-box $1 mk="$2"></m-box>`
				withComponents = true
			}
			files = map[string]string{"page.vuego": `<section data-m="wrap">` + pre + re.ReplaceAllString(chain, repl) + post + `</section>`, "components/MBox.vuego": `<p :data-m="mk">x</p>`}
		case "component":
			files = map[string]string{"page.vuego": `<template include="c.vuego"></template>`, "c.vuego": `<section data-m="wrap">` + pre + chain + post + `</section>`}
		case "comptop":
			// the chain of <template> members is the very first thing in the component file
			files = map[string]string{"page.vuego": `<section data-m="wrap">` + pre + `<template include="c.vuego"></template></section>`, "c.vuego": chain + post}
		case "slot":
			files = map[string]string{"page.vuego": `<template include="c.vuego"><template v-slot:body>` + pre + chain + post + `</template></template>`, "c.vuego": `<section data-m="wrap"><slot name="body">fb</slot></section>`}
		case "layout":
			files = map[string]string{"page.vuego": "---\nlayout: lay\n---\n<p>page</p>", "layouts/lay.vuego": `<section data-m="wrap">` + pre + chain + post + `</section><div v-html="content"></div>`}
		case "top":
			tpl = pre + chain + post
		case "table":
			tpl = `<table><tbody data-m="wrap">` + pre + strings.ReplaceAll(strings.ReplaceAll(chain, ">x</tr>", "><td>x</td></tr>"), ">y</tr>", "><td>y</td></tr>") + post + `</tbody></table>`
		default:
			tpl = `<section data-m="wrap">` + pre + chain + post + `</section>`
		}
	case "adjacent":
		c03Data(c.Vals, "c", data)
		c03Data(c.Vals2, "d", data)
		e1, _ := c03Expect(c, c.Vals, "b", false)
		e2, _ := c03Expect(c, c.Vals2, "e", false)
		tpl = `<section data-m="wrap"><p data-m="pre">a</p>` + c03Chain(c, "b", "c", "p", "", false) + c03Chain(c, "e", "d", "p", "\n", false) + `<p data-m="post">z</p></section>`
		want = append(append(append([]string{"pre"}, e1...), e2...), "post")
	case "for":
		mk := func(vals []TV) map[string]any {
			m := map[string]any{}
			c03Data(vals, "c", m)
			return m
		}
		data["items"] = []any{mk(c.Vals), mk(c.Vals2)}
		tpl = `<ul data-m="list"><li v-for="it in items" data-m="li"><p data-m="pre">a</p>` + c03Chain(c, "b", "it.c", "p", " ", false) + `<p data-m="post">z</p></li></ul>`
	}
	for _, v := range append(append([]TV{}, c.Vals...), c.Vals2...) {
		if _, dec := v.Truthy(); !dec {
			o.Cell("undecided-not-judged")
			return o
		}
	}
	var out string
	var err error
	if files != nil && withComponents {
		out, err = renderFile(memFS(files), "page.vuego", data, vuego.WithComponents())
		tpl = mustJSON(files)
	} else if files != nil {
		out, err = renderFile(memFS(files), "page.vuego", data)
		tpl = mustJSON(files)
	} else {
		out, err = renderStr(tpl, data)
	}
	o.Evals++
	o.NT("chain", mustJSON(c))
	valKinds := ""
	for _, v := range c.Vals {
		valKinds += v.K + ","
	}
	sigBase := fmt.Sprintf("chain/%s", c.Placement)
	if err != nil {
		o.Fail(c, sigBase+"/error", "render failed: %v\ntemplate: %s", err, tpl)
		return o
	}
	doc := oracle.Parse(out, false)
	check := func(parent *oracle.N, want []string, which string) {
		got := parent.ChildMarkers("data-m")
		if strings.Join(got, " ") != strings.Join(want, " ") {
			o.Fail(c, sigBase+"/"+c03Defect(want, got)+c03Culprit(c, want, got), "%s: children markers want %v got %v (value kinds %s)\ntemplate: %s\noutput: %s", which, want, got, valKinds, tpl, out)
		}
		// siblings rendered unchanged: text T1/T2 must still be there exactly once
		if c.Placement != "table" && c.Placement != "for" && c.Placement != "adjacent" {
			txt := parent.InnerText()
			if strings.Count(txt, "T1") != 1 || strings.Count(txt, "T2") != 1 {
				o.Fail(c, sigBase+"/sibling-text", "%s: static text siblings T1/T2 not preserved: %q\ntemplate: %s\noutput: %s", which, txt, tpl, out)
			}
		}
	}
	switch c.Placement {
	case "top":
		check(doc, want, "top level")
	case "for":
		lis := doc.ByAttr("data-m", "li")
		if len(lis) != 2 {
			o.Fail(c, sigBase+"/instances", "want 2 loop instances got %d\noutput: %s", len(lis), out)
			return o
		}
		for k, vals := range [][]TV{c.Vals, c.Vals2} {
			e, _ := c03Expect(c, vals, "b", false)
			check(lis[k], append(append([]string{"pre"}, e...), "post"), fmt.Sprintf("loop instance %d", k))
		}
	default:
		w := doc.ByAttr("data-m", "wrap")
		if len(w) != 1 {
			o.Fail(c, sigBase+"/wrapper", "wrapper element not found exactly once\noutput: %s", out)
			return o
		}
		check(w[0], want, "wrapper")
	}
	o.Cell(fmt.Sprintf("chain/%s/k%d", c.Placement, c.K))
	if c.Placement == "for" && c.K == 2 {
		o.Sample = map[string]any{"template": tpl, "values": valKinds, "output": out}
	}
	return o
}

func c03Defect(want, got []string) string {
	ws, gs := map[string]bool{}, map[string]int{}
	for _, w := range want {
		ws[w] = true
	}
	for _, g := range got {
		gs[g]++
	}
	branchW, branchG := 0, 0
	for _, w := range want {
		if w != "pre" && w != "post" && w != "loop" {
			branchW++
		}
	}
	for _, g := range got {
		if g != "pre" && g != "post" && g != "loop" {
			branchG++
		}
	}
	switch {
	case gs["pre"] != 1 || gs["post"] != 1:
		return "sibling-lost-or-duplicated"
	case branchG > branchW:
		return "extra-branch"
	case branchG < branchW:
		return "missing-branch"
	default:
		for _, g := range got {
			if !ws[g] {
				return "wrong-branch"
			}
		}
		return "order"
	}
}

// c03Culprit names the value class of the condition that must have been
// mis-evaluated when exactly one other branch was chosen.
func c03Culprit(c c03Case, want, got []string) string {
	idx := func(ms []string) int {
		for _, m := range ms {
			if len(m) == 2 && m[0] == 'b' && m[1] >= '0' && m[1] <= '9' {
				return int(m[1] - '0')
			}
			if m == "belse" {
				return 99
			}
		}
		return 100
	}
	w, g := idx(want), idx(got)
	k := w
	if g < w {
		k = g
	}
	if k < len(c.Vals) && w != g {
		return "/" + c.Form + ":" + c03ValClass(c.Vals[k])
	}
	return ""
}

func c03ValClass(v TV) string {
	switch v.K {
	case "string":
		switch v.S {
		case "", "0", "false":
			return fmt.Sprintf("string:%q", v.S)
		}
		return "string:other"
	case "bool":
		return fmt.Sprintf("bool:%v", v.B)
	case "nil", "missing", "nil*Item", "nilslice", "nilmap":
		return v.K
	}
	t, _ := v.Truthy()
	if strings.HasPrefix(v.K, "int") || strings.HasPrefix(v.K, "uint") || strings.HasPrefix(v.K, "float") {
		if t {
			return v.K + ":nonzero"
		}
		return v.K + ":zero"
	}
	return v.K
}

func (p *c03) execUniform(c c03Case) core.Obs {
	var o core.Obs
	v := *c.Val
	data := map[string]any{"t": true}
	e := c.Path
	if c.Path == "o.v" {
		m := map[string]any{}
		if v.K != "missing" {
			m["v"] = v.Go()
		}
		data["o"] = m
	} else if c.Path == "tag" {
		it := Item{}
		switch v.K {
		case "bool":
			it.On, e = v.B, "st.on"
		case "int":
			it.Count, e = int(v.I), "st.count"
		case "string":
			it.Title, e = v.S, "st.title"
		default:
			o.Cell("skipped/kind-has-no-struct-field")
			return o
		}
		data["st"] = []Item{it}[0]
	} else if c.Path == "dash" || c.Path == "idx" {
		if v.K == "missing" {
			o.Cell("skipped/missing-in-container")
			return o
		}
		if c.Path == "dash" {
			data["o"] = map[string]any{"is-v": v.Go()}
			e = "o.is-v"
		} else {
			data["l"] = []any{v.Go()}
			e = "l.0"
		}
	} else if c.Path == "varidx" {
		if v.K == "missing" {
			o.Cell("skipped/missing-in-container")
			return o
		}
		data["sel"] = map[string]any{"kk": v.Go()}
		data["k"] = "kk"
		e = "sel[k]"
	} else if c.Path == "title" || c.Path == "json" {
		if v.K == "missing" {
			// without a variable of that name the name IS the function: not an undefined variable
			o.Cell("skipped/function-name-without-a-variable")
			return o
		}
		data[c.Path] = v.Go()
		e = c.Path
	} else if c.Path == "shadow" {
		e = "v"
		if v.K == "missing" {
			o.Cell("skipped/missing-cannot-be-a-list-item")
			return o
		}
		data["v"] = "OUTER"
		data["vs"] = []any{v.Go()}
	} else if v.K != "missing" {
		data["v"] = v.Go()
	}
	tpl := fmt.Sprintf(`<i v-if="%[1]s" data-m="if"></i>`+
		`<i v-if="zz" data-m="x"></i><i v-else-if="%[1]s" data-m="elif"></i>`+
		`<i v-show="%[1]s" data-m="show"></i>`+
		`<i :data-on="%[1]s" data-m="attr"></i>`+
		`<i :class="{on: %[1]s}" data-m="cls"></i>`+
		`<i v-if="!%[1]s" data-m="nif"></i>`+
		`<i v-if="zz" data-m="x"></i><i v-else-if="!%[1]s" data-m="nelif"></i>`+
		`<i v-show="!%[1]s" data-m="nshow"></i>`+
		`<i :data-on="!%[1]s" data-m="nattr"></i>`+
		`<i :class="{on: !%[1]s}" data-m="ncls"></i>`+
		`<i v-if="!!%[1]s" data-m="nnif"></i>`+
		`<i v-if="zz" data-m="x"></i><i v-else-if="!!%[1]s" data-m="nnelif"></i>`+
		`<i v-show="!!%[1]s" data-m="nnshow"></i>`+
		`<i :data-on="!!%[1]s" data-m="nnattr"></i>`+
		`<i :class="{on: !!%[1]s}" data-m="nncls"></i>`, e)
	if c.Path == "shadow" {
		tpl = `<template v-for="v in vs">` + tpl + `</template>`
	}
	out, err := renderStr(tpl, data)
	o.Evals++
	cls := c03ValClass(v)
	o.NT("uniform", cls, c.Path, mustJSON(v))
	if err != nil {
		o.Fail(c, "truth/error/"+cls, "render failed: %v", err)
		return o
	}
	doc := oracle.Parse(out, false)
	has := func(m string) (*oracle.N, bool) {
		x := doc.ByAttr("data-m", m)
		if len(x) == 0 {
			return nil, false
		}
		return x[0], true
	}
	obs := map[string]bool{}
	_, obs["v-if"] = has("if")
	_, obs["v-else-if"] = has("elif")
	hidden := func(m string) (bool, bool) {
		n, ok := has(m)
		if !ok {
			return false, false
		}
		st, _ := n.Attr("style")
		return strings.Contains(strings.ReplaceAll(st, " ", ""), "display:none"), true
	}
	if h, ok := hidden("show"); ok {
		obs["v-show"] = !h
	} else {
		o.Fail(c, "truth/v-show-element-missing/"+cls, "v-show element disappeared\noutput: %s", out)
	}
	if n, ok := has("attr"); ok {
		_, obs[":attr"] = n.Attr("data-on")
	}
	if n, ok := has("cls"); ok {
		cv, _ := n.Attr("class")
		obs[":class-object"] = strings.Contains(" "+cv+" ", " on ")
	}
	_, nif := has("nif")
	obs["!v-if"] = !nif
	_, nelif := has("nelif")
	obs["!v-else-if"] = !nelif
	if h, ok := hidden("nshow"); ok {
		obs["!v-show"] = h
	}
	if n, ok := has("nattr"); ok {
		_, on := n.Attr("data-on")
		obs["!:attr"] = !on
	}
	if n, ok := has("ncls"); ok {
		cv, _ := n.Attr("class")
		obs["!:class-object"] = !strings.Contains(" "+cv+" ", " on ")
	}
	// an even number of negations reads the value's truthiness itself
	_, obs["!!v-if"] = has("nnif")
	_, obs["!!v-else-if"] = has("nnelif")
	if h, ok := hidden("nnshow"); ok {
		obs["!!v-show"] = !h
	}
	if n, ok := has("nnattr"); ok {
		_, obs["!!:attr"] = n.Attr("data-on")
	}
	if n, ok := has("nncls"); ok {
		cv, _ := n.Attr("class")
		obs["!!:class-object"] = strings.Contains(" "+cv+" ", " on ")
	}
	want, decided := v.Truthy()
	if !decided {
		o.Cell("undecided/" + v.K)
		o.Count("undecided_values_observed", 1)
		// direction is not judged, agreement between the positions is: the
		// same value has the same truthiness wherever it is read
		ref, refPos := false, ""
		for _, pos := range sortedKeys(obs) {
			if strings.HasPrefix(pos, "!") {
				continue
			}
			if refPos == "" {
				ref, refPos = obs[pos], pos
				continue
			}
			o.Cell("uniform-undecided/" + pos)
			if obs[pos] != ref {
				o.Fail(c, fmt.Sprintf("uniform/%s-vs-%s/%s", refPos, pos, cls), "value %s read as %s is truthy=%v in %s but truthy=%v in %s\ntemplate: %s\noutput: %s", v, c.Path, ref, refPos, obs[pos], pos, tpl, out)
			}
		}
		return o
	}
	for _, pos := range sortedKeys(obs) {
		if v.K == "*bool" && !v.B && strings.HasPrefix(pos, "!") {
			// negating a pointer to false: the expression engine negates the pointee; the
			// statement speaks about the truthiness of values, not about '!' on pointers
			o.Cell("not-judged/negated-pointer-to-false")
			continue
		}
		o.Cell("truth/" + pos)
		if obs[pos] != want {
			o.Fail(c, fmt.Sprintf("truth/%s/%s", pos, cls), "value %s read as %s: reference rule says truthy=%v, position %s treated it as truthy=%v\ntemplate: %s\noutput: %s", v, c.Path, want, pos, obs[pos], tpl, out)
		}
	}
	if cls == "uint16:zero" {
		o.Sample = map[string]any{"value": v.String(), "path": c.Path, "observed_truthiness": obs, "reference": want}
	}
	return o
}
