package props

import (
	"fmt"
	"io/fs"
	"reflect"
	"strings"
	"time"

	"verifharness/core"
	"verifharness/oracle"
)

// C04 "text" part: loops whose instances produce no element at all - a looped
// <template> (or element) whose body is text / interpolation only - followed or
// not by a v-else sibling. The instance sequence is read from the text run; the
// v-else sibling must render exactly when the loop produced nothing.

type c04Text struct {
	Kind  string `json:"kind"`  // collection kind
	Len   int    `json:"len"`   // 0..3, -1 nil, -2 missing
	Form  int    `json:"form"`  // 0: x, 1: (i, x)
	Body  string `json:"body"`  // text | text+if | comment | mixed
	Else  string `json:"else"`  // none | imm | ws | comment
	Entry string `json:"entry"` // str | file | vue
}

// the later kinds print differently from their underlying values: the item bound
// in an instance is the element itself, not a converted copy
var c04TextKinds = []string{"slice", "[]string", "[]int", "[3]string", "[]map", "[]float32", "[3]float32", "[]Duration", "[]Month", "[]NamedString", "[]Stringer", "[]uint8", "[]FileMode"}

// c04TextTyped returns a typed collection of n (<=3) elements and the text each element prints as.
func c04TextTyped(kind string, n int) (any, []string, bool) {
	var coll any
	switch kind {
	case "[]float32":
		coll = []float32{0.1, 3.14, 2.5}[:n]
	case "[3]float32":
		coll = [3]float32{0.1, 3.14, 2.5}
	case "[]Duration":
		coll = []time.Duration{1500 * time.Millisecond, 2 * time.Minute, 0}[:n]
	case "[]Month":
		coll = []time.Month{time.January, time.March, time.December}[:n]
	case "[]NamedString":
		coll = []NamedString{"aa", "bb", "cc"}[:n]
	case "[]Stringer":
		coll = []TextStringer{{"s1"}, {"s2"}, {"s3"}}[:n]
	case "[]uint8":
		coll = []uint8{65, 66, 200}[:n]
	case "[]FileMode":
		coll = []fs.FileMode{0o644, 0o755 | fs.ModeDir, 0}[:n]
	default:
		return nil, nil, false
	}
	rv := reflect.ValueOf(coll)
	var vals []string
	for k := 0; k < rv.Len(); k++ {
		vals = append(vals, fmt.Sprint(rv.Index(k).Interface()))
	}
	return coll, vals, true
}
var c04TextBodies = []string{"text", "text+if", "comment", "mixed"}
var c04TextElses = []string{"none", "imm", "ws", "comment"}

func c04NText() int { return len(c04TextKinds) * 6 * 2 * len(c04TextBodies) * len(c04TextElses) }

func c04BuildText(i int) c04Case {
	t := c04Text{Entry: []string{"str", "file", "vue"}[i%3]}
	t.Else = c04TextElses[i%len(c04TextElses)]
	i /= len(c04TextElses)
	t.Body = c04TextBodies[i%len(c04TextBodies)]
	i /= len(c04TextBodies)
	t.Form = i % 2
	i /= 2
	t.Len = []int{0, 1, 2, 3, -1, -2}[i%6]
	i /= 6
	t.Kind = c04TextKinds[i%len(c04TextKinds)]
	return c04Case{Part: "text", Text: &t}
}

func c04ExecText(c c04Case, o *core.Obs) {
	t := c.Text
	n := t.Len
	if (t.Kind == "[3]string" || t.Kind == "[3]float32") && n >= 0 {
		n = 3
	}
	typed, typedVals, isTyped := c04TextTyped(t.Kind, max(n, 0))
	items := []string{"aa", "bb", "cc"}
	var coll any
	switch {
	case t.Len == -1:
		coll = nil
	case t.Len == -2:
	case isTyped:
		coll = typed
	default:
		switch t.Kind {
		case "slice":
			l := []any{}
			for k := 0; k < n; k++ {
				l = append(l, items[k])
			}
			coll = l
		case "[]string":
			coll = append([]string{}, items[:n]...)
		case "[]int":
			l := []int{}
			for k := 0; k < n; k++ {
				l = append(l, 10+k)
			}
			coll = l
		case "[3]string":
			coll = [3]string{"aa", "bb", "cc"}
		case "[]map":
			l := []map[string]any{}
			for k := 0; k < n; k++ {
				l = append(l, map[string]any{"v": items[k]})
			}
			coll = l
		}
	}
	data := map[string]any{"keep": true}
	if t.Len != -2 {
		data["xs"] = coll
	}
	val := func(k int) string {
		if isTyped {
			return typedVals[k]
		}
		if t.Kind == "[]int" {
			return fmt.Sprint(10 + k)
		}
		return items[k]
	}
	item := "{{ x }}"
	if t.Kind == "[]map" {
		item = "{{ x.v }}"
	}
	vars := "x"
	idx := ""
	if t.Form == 1 {
		vars = "(i, x)"
		idx = "{{ i }}:"
	}
	body := ""
	switch t.Body {
	case "text":
		body = "[" + idx + item + "];"
	case "text+if":
		body = `<template v-if="keep">[` + idx + item + `];</template>`
	case "comment":
		body = "<!-- c -->[" + idx + item + "];"
	case "mixed":
		body = "[" + idx + item + "]" + `{{ "" }};`
	}
	sep := map[string]string{"none": "", "imm": "", "ws": "\n   ", "comment": "<!-- sep -->"}[t.Else]
	els := `<p v-else data-m="else">none</p>`
	if t.Else == "none" {
		els = ""
	}
	tpl := `<div data-m="w"><i data-m="pre">p</i><template v-for="` + vars + ` in xs">` + body + `</template>` + sep + els + `<i data-m="post">q</i></div>`
	var out string
	var err error
	switch t.Entry {
	case "file":
		out, err = renderFile(memFS(map[string]string{"t.vuego": tpl}), "t.vuego", data)
	case "vue":
		out, err = renderVue(memFS(map[string]string{"t.vuego": tpl}), "t.vuego", data)
	default:
		out, err = renderStr(tpl, data)
	}
	o.Evals++
	o.NT("text", mustJSON(t))
	o.Cell("part/text/" + t.Body + "/else:" + t.Else)
	if err != nil {
		o.Fail(c, "text/error", "render failed: %v\ntemplate: %s", err, tpl)
		return
	}
	produced := 0
	if t.Len >= 0 {
		produced = n
	}
	var want []string
	for k := 0; k < produced; k++ {
		s := "[" + val(k) + "];"
		if t.Form == 1 {
			s = fmt.Sprintf("[%d:%s];", k, val(k))
		}
		want = append(want, s)
	}
	doc := oracle.Parse(out, false)
	w := doc.ByAttr("data-m", "w")
	if len(w) != 1 {
		o.Fail(c, "text/wrapper-lost", "wrapper not found\noutput: %s", out)
		return
	}
	markers := w[0].ChildMarkers("data-m")
	wantMarkers := []string{"pre", "post"}
	if t.Else != "none" && produced == 0 {
		wantMarkers = []string{"pre", "else", "post"}
	}
	txt := strings.ReplaceAll(w[0].InnerText(), " ", "")
	txt = strings.TrimSuffix(strings.TrimPrefix(txt, "p"), "q")
	txt = strings.ReplaceAll(txt, "none", "")
	if txt != strings.Join(want, "") {
		o.Fail(c, "text/seq/"+t.Body, "text-only loop instances: want %q, got %q\ntemplate: %s\noutput: %s", strings.Join(want, ""), txt, tpl, out)
	}
	if strings.Join(markers, " ") != strings.Join(wantMarkers, " ") {
		sig := "text/else/not-rendered-although-loop-produced-nothing"
		if produced > 0 {
			sig = "text/else/rendered-although-loop-produced-instances"
		}
		o.Fail(c, sig, "v-else after a loop whose instances are text only: loop produced %d instance(s); want children %v, got %v\ntemplate: %s\noutput: %s", produced, wantMarkers, markers, tpl, out)
	}
}
