package props

import (
	"bytes"
	"fmt"
	"strings"

	vuego "github.com/titpetric/vuego"

	"verifharness/core"
	"verifharness/oracle"
)

// C08 "shared" part: one map of the caller is handed to Fill on two sibling
// templates (the usual "site" data of an application), with and without site
// configuration. What the first template adds on top of it - its front-matter,
// a later Assign - is its own: the sibling still sees the values of the map, and
// the map itself is what the caller made it.

type c08Shared struct {
	Config bool   `json:"config"`  // theme.yml present
	Assign bool   `json:"assign"`  // the first template also gets an Assign
	Render bool   `json:"render"`  // the first template is rendered before the second is filled
	Chain  bool   `json:"chain"`   // the first template has a layout chain whose inner layout defines a key in its front-matter
	Ctor   string `json:"ctor"`    // newfs | withfs
	Obs    string `json:"observe"` // render | get | string
}

func c08NShared() int { return 2 * 2 * 2 * 2 * 2 * 3 }

func c08GenShared(i int) c08Case {
	s := c08Shared{Config: i&1 != 0, Assign: i&2 != 0, Render: i&4 != 0, Chain: i&8 != 0, Ctor: []string{"newfs", "withfs"}[(i>>4)&1], Obs: []string{"render", "get", "string"}[(i>>5)%3]}
	return c08Case{Part: "shared", Shared: &s}
}

func c08ExecShared(c c08Case, o *core.Obs) {
	s := *c.Shared
	files := map[string]string{
		"a.vuego": "---\nka: fma\n---\n<p data-m=\"a\">{{ ka }}|{{ kb }}|{{ kc }}</p>",
		"b.vuego": "<p data-m=\"b\">{{ ka }}|{{ kb }}|{{ kc }}</p>",
	}
	if s.Chain {
		files["a.vuego"] = "---\nlayout: inner\nka: fma\n---\n<p data-m=\"a\">{{ ka }}|{{ kb }}|{{ kc }}</p>"
		files["layouts/inner.vuego"] = "---\nlayout: outer\nkc: fminner\n---\n<section><div v-html=\"content\"></div></section>"
		files["layouts/outer.vuego"] = "<main><i data-m=\"outer\">{{ kc }}</i><div v-html=\"content\"></div></main>"
	}
	if s.Config {
		files["theme.yml"] = "kt: theme\n"
	}
	fsys := memFS(files)
	var base vuego.Template
	if s.Ctor == "withfs" {
		base = vuego.New(vuego.WithFS(fsys))
	} else {
		base = vuego.NewFS(fsys)
	}
	site := map[string]any{"ka": "site-a", "kb": "site-b", "kc": "site-c"}
	before := fmt.Sprint(site)
	o.Evals++
	o.NT("shared", mustJSON(s))
	o.Cell("part/shared")
	o.Cell(fmt.Sprintf("shared/config:%v/chain:%v", s.Config, s.Chain))
	sig := func(what string) string {
		return fmt.Sprintf("shared/%s/config:%v/chain:%v", what, s.Config, s.Chain)
	}
	detail := func() string { return fmt.Sprintf("case %s\nfiles: %s", mustJSON(s), mustJSON(files)) }
	a := base.Load("a.vuego").Fill(site)
	if s.Assign {
		a.Assign("kb", "assigned-on-a")
	}
	if s.Render {
		var buf bytes.Buffer
		if err := a.Render(bg, &buf); err != nil {
			o.Fail(c, sig("render-error"), "rendering the first template failed: %v\n%s", err, detail())
			return
		}
		if s.Chain {
			// the outer layout reads kc from the Fill data: the inner layout's own front-matter is the inner layout's
			if n := oracle.ParseAuto(buf.String()).ByAttr("data-m", "outer"); len(n) != 1 || n[0].InnerText() != "site-c" {
				got := "<missing>"
				if len(n) == 1 {
					got = n[0].InnerText()
				}
				o.Fail(c, sig("layout-sees-another-layouts-front-matter"), "the outer layout printed kc=%q, want the Fill value \"site-c\" (kc is defined by the inner layout's front-matter only)\noutput: %s\n%s", got, clip(buf.String(), 400), detail())
			}
		}
	}
	b := base.Load("b.vuego").Fill(site)
	got := ""
	switch s.Obs {
	case "get":
		got = b.Get("ka") + "|" + b.Get("kb") + "|" + b.Get("kc")
	case "string":
		var buf bytes.Buffer
		if err := b.RenderString(bg, &buf, `<p data-m="b">{{ ka }}|{{ kb }}|{{ kc }}</p>`); err != nil {
			o.Fail(c, sig("render-error"), "RenderString on the second template failed: %v\n%s", err, detail())
			return
		}
		got = strings.TrimSpace(oracle.ParseAuto(buf.String()).InnerText())
	default:
		var buf bytes.Buffer
		if err := b.Render(bg, &buf); err != nil {
			o.Fail(c, sig("render-error"), "rendering the second template failed: %v\n%s", err, detail())
			return
		}
		if n := oracle.ParseAuto(buf.String()).ByAttr("data-m", "b"); len(n) == 1 {
			got = n[0].InnerText()
		}
	}
	if want := "site-a|site-b|site-c"; got != want {
		o.Fail(c, sig("sibling-sees-the-first-templates-values"), "the second template, filled with the same map, reads %q, want %q\n%s", got, want, detail())
	}
	if after := fmt.Sprint(site); after != before {
		o.Fail(c, sig("callers-map-modified"), "the caller's map was %s before Fill and is %s now\n%s", before, after, detail())
	}
}
