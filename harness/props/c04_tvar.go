package props

import (
	"fmt"
	"strings"

	"verifharness/core"
	"verifharness/oracle"
)

// C04 "tvar" part: the loop body holds a <template> that binds an attribute
// named like the loop variable (or like the index) - a plain template that
// re-assigns it, or an include that receives it as a prop. The loop variable
// stays inside its instance all the same: after the loop the name has the value
// it had before (or none), and a counter assigned by a template in the body
// (the documented stateful use) still survives the loop.

type c04TVar struct {
	Kind  string `json:"kind"`  // plain | plain-expr | include | include-index | counter
	Outer bool   `json:"outer"` // an outer variable of the loop variable's name exists
	Entry string `json:"entry"` // vue | file
}

var c04TVarKinds = []string{"plain", "plain-expr", "include", "include-index", "counter"}

func c04NTVar() int { return len(c04TVarKinds) * 2 * 2 }

func c04BuildTVar(i int) c04Case {
	t := c04TVar{Kind: c04TVarKinds[i%len(c04TVarKinds)]}
	i /= len(c04TVarKinds)
	t.Outer = i%2 == 1
	t.Entry = []string{"vue", "file"}[(i/2)%2]
	return c04Case{Part: "tvar", TVar: &t}
}

func c04ExecTVar(c c04Case, o *core.Obs) {
	t := *c.TVar
	body := map[string]string{
		"plain":         `<template :it="it"><b data-m="in">{{ it }}</b></template>`,
		"plain-expr":    `<template :it="it + '!'"><b data-m="in">{{ it }}</b></template>`,
		"include":       `<template include="row.vuego" :it="it"></template>`,
		"include-index": `<template include="row.vuego" :it="it" :ix="ix"></template>`,
		"counter":       `<template :n="n + 1"><b data-m="in">{{ it }}</b></template>`,
	}[t.Kind]
	page := `<i data-m="before">[{{ it }}|{{ ix }}]</i><div v-for="(ix, it) in rows">` + body + `</div><i data-m="after">[{{ it }}|{{ ix }}|{{ n }}]</i>`
	files := map[string]string{"page.vuego": page, "row.vuego": `<b data-m="in">{{ it }}</b>`}
	data := map[string]any{"rows": []any{"a", "b", "c"}, "n": 0}
	wantIt, wantIx := "", ""
	if t.Outer {
		data["it"], data["ix"] = "OUT", "OIX"
		wantIt, wantIx = "OUT", "OIX"
	}
	wantN := "0"
	if t.Kind == "counter" {
		wantN = "3"
	}
	var out string
	var err error
	if t.Entry == "vue" {
		out, err = renderVue(memFS(files), "page.vuego", data)
	} else {
		out, err = renderFile(memFS(files), "page.vuego", data)
	}
	o.Evals++
	o.NT("tvar", mustJSON(t))
	o.Cell("part/tvar/" + t.Kind)
	sig := func(what string) string {
		return fmt.Sprintf("tvar/%s/%s/outer:%v", what, t.Kind, t.Outer)
	}
	detail := fmt.Sprintf("page: %s\ndata: %s\noutput: %s", page, mustJSON(data), clip(out, 500))
	if err != nil {
		o.Fail(c, sig("error"), "render failed: %v\n%s", err, detail)
		return
	}
	doc := oracle.ParseAuto(out)
	var ins []string
	for _, n := range doc.ByAttr("data-m", "in") {
		ins = append(ins, n.InnerText())
	}
	wantIn := "a b c"
	if t.Kind == "plain-expr" {
		wantIn = "a! b! c!"
	}
	if strings.Join(ins, " ") != wantIn {
		o.Fail(c, sig("instances"), "instances printed %q, want %q\n%s", strings.Join(ins, " "), wantIn, detail)
		return
	}
	text := func(m string) string {
		if x := doc.ByAttr("data-m", m); len(x) == 1 {
			return x[0].InnerText()
		}
		return "<missing>"
	}
	if got, want := text("before"), "["+wantIt+"|"+wantIx+"]"; got != want {
		o.Fail(c, sig("before-loop"), "before the loop: %q, want %q\n%s", got, want, detail)
	}
	if got, want := text("after"), "["+wantIt+"|"+wantIx+"|"+wantN+"]"; got != want {
		what := "loop-variable-visible-after-loop"
		if strings.HasSuffix(got, "|"+wantN+"]") == false && strings.HasPrefix(got, "["+wantIt+"|"+wantIx+"|") {
			what = "counter-lost"
		}
		o.Fail(c, sig(what), "after the loop: %q, want %q\n%s", got, want, detail)
	}
}
