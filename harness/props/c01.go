package props

import (
	"bytes"
	"encoding/json"
	"fmt"
	"strings"
	"sync/atomic"

	vuego "github.com/titpetric/vuego"

	"verifharness/core"
	"verifharness/oracle"
)

// C01 — data values are inert. Differential re-parse: the same template is
// rendered with a harmless word and with a hostile value bound to the sink
// variable; skeleton, every non-sink text/attribute and the canary are compared.

const (
	c01Harmless = "zqxj"
	c01Canary   = "CANARY-7731-S3CR3T"
)

var c01Sinks = []string{"text", "vtext", "attr", "attr2", "text2x", "attr2x", "boundm2x", "stylehid", "styleihid", "attrhid", // 2x: the same placeholder twice in one text run / attribute value "bound", "vbind", "boundm", "class", "style", "boundstatic",
	// the {{ }} text sink under parents the HTML parser treats specially (raw text, RCDATA, foreign content, table/select scoping)
	"text@noscript", "text@xmp", "text@iframe", "text@noembed", "text@noframes", "text@textarea", "text@title", "text@pre", "text@premix",
	"text@option", "text@td", "text@svgtext", "text@button", "text@h1", "text@a", "text@li", "text@code", "vtext@textarea", "vtext@noscript",
	// bound class/style merged with a static class/style that itself contains a mustache
	"classi", "stylei",
	// the value goes through a filter first: the result is still only text
	// (the literal check does not apply to a transformed value; markup, spill,
	// canary and call checks do)
	// a bracketed attribute is written out literally, but a mustache in its value is interpolated
	"bracket",
	// the value is one of several adjacent text nodes of its element (a <template> wrapper dissolves into its parent)
	"text-tif", "text-tfor", "text-tslot",
	"text~escape", "vtext~escape", "vtext~escapecall", "vtext~trim|escape", "attr~escape", "bound~escape", "text~trim", "vtext~string", "vtext~default"}

// c01RawTextTags: the parser does not decode character references inside these
// (scripting enabled), so the literal value cannot be read back; skeleton, spill
// and canary are still judged.
var c01RawTextTags = map[string]bool{"noscript": true, "xmp": true, "iframe": true, "noembed": true, "noframes": true}
var c01Constructs = []string{"plain", "if", "else", "for-root", "for-root2", "for-child", "for-tmpl", "for-obj",
	"inc-static", "inc-bound", "inc-scope", "inc-troot", "inc-troot-req", "inc-troot-nested", "inc-troot-comment", "inc-troot-fm-blank", "inc-troot-ws", "inc-wrap-twice", "inc-wrap-loop", "slot-default", "slot-named", "slot-prop", "slot-twice", "slot-loop", "layout-var", "layout-page"}
var c01Nbhs = []string{"none", "plain", "entity", "attrs"}

// decoded neighbour text per neighbourhood (source form, parsed form)
func c01LR(nbh string) (lSrc, rSrc, lDec, rDec string) {
	switch nbh {
	case "plain", "attrs":
		return "left ", " right", "left ", " right"
	case "pad": // blanks at both ends of the static part (used by C02)
		return "  lead ", " trail\t ", "  lead ", " trail\t "
	case "entity":
		return "&lt;b&gt; AT&amp;T; ", " &#60;i&#62; &amp;copy; &quot;", "<b> AT&T; ", ` <i> &copy; "`
	}
	return "", "", "", ""
}

type c01Case struct {
	Sink      string   `json:"sink"`
	Construct string   `json:"construct"`
	Nbh       string   `json:"nbh"`
	Values    []string `json:"values"`
}

type c01Tpl struct {
	files    map[string]string // nil => string template in Str
	str      string
	entry    string
	sinkAttr string // "" => text sink
	lDec     string
	rDec     string
	litOK    bool // literal containment of the value in the sink is judged
}

var c01PwnCalls atomic.Int64

func c01Funcs() vuego.LoadOption {
	return vuego.WithFuncs(vuego.FuncMap{"pwn": func() string { c01PwnCalls.Add(1); return "PWNED" }})
}

// c01SinkEl returns the sink element for expression e; extra is spliced into the open tag.
func c01SinkEl(sink, nbh, e, extra string) (el string, sinkAttr string, lDec, rDec string, lit bool) {
	lS, rS, lD, rD := c01LR(nbh)
	sib := ""
	if nbh == "attrs" {
		sib = ` data-q="&quot;q&quot; &amp;amp; &lt;x&gt;" data-r='a"b'`
	}
	if base, f, ok := strings.Cut(sink, "~"); ok {
		fe := e + " | " + strings.ReplaceAll(f, "|", " | ")
		switch f {
		case "escapecall":
			fe = "escape(" + e + ")"
		case "default":
			fe = e + ` | default('d')`
		}
		el, sinkAttr, lDec, rDec, _ = c01SinkEl(base, nbh, fe, extra)
		return el, sinkAttr, lDec, rDec, false
	}
	open := `<p data-s="1"` + sib + extra
	lit = true
	if kind, tag, ok := strings.Cut(sink, "@"); ok {
		pre, post := "", ""
		switch tag {
		case "option":
			pre, post = "<select>", "</select>"
		case "td":
			pre, post = "<table><tbody><tr>", "</tr></tbody></table>"
		case "svgtext":
			pre, post, tag = `<svg viewBox="0 0 1 1">`, "</svg>", "text"
		case "li":
			pre, post = "<ul>", "</ul>"
		case "premix":
			// text under <pre> that is not the only child of its element (an empty element follows it)
			pre, post, tag = "<pre>", "</pre>", "code"
			rS += "<i></i>"
		}
		o := pre + "<" + tag + ` data-s="1"` + sib + extra
		lit = !c01RawTextTags[tag]
		if kind == "vtext" {
			return o + ` v-text="` + e + `">old</` + tag + ">" + post, "", "", "", lit
		}
		return o + ">" + lS + "{{ " + e + " }}" + rS + "</" + tag + ">" + post, "", lD, rD, lit
	}
	switch sink {
	case "text":
		return open + `>` + lS + `{{ ` + e + ` }}` + rS + `</p>`, "", lD, rD, true
	case "vtext":
		return open + ` v-text="` + e + `">old</p>`, "", "", "", true
	case "vhtml": // used by C02 only (values without markup characters)
		return open + ` v-html="` + e + `">old</p>`, "", "", "", true
	case "attr":
		return open + ` title="` + lS + `{{ ` + e + ` }}` + rS + `">k</p>`, "title", lD, rD, true
	case "text-tif":
		return open + `>` + lS + `<template v-if="t">{{ ` + e + ` }}</template>` + rS + `</p>`, "", lD, rD, true
	case "text-tfor":
		return open + `>lead <template v-for="q in two">{{ ` + e + ` }};</template>` + rS + `</p>`, "", "", "", false
	case "text-tslot":
		return open + `>lead ` + lS + `<template v-if="t">a</template><template v-if="t">{{ ` + e + ` }}</template>` + rS + `</p>`, "", "", "", false
	case "bracket":
		return open + ` [title]="` + lS + `{{ ` + e + ` }}` + rS + `">k</p>`, "title", lD, rD, true
	case "stylehid": // the style sinks on an element a false v-show hides (the style value is parsed and written again)
		return open + ` :style="` + e + `" v-show="f">k</p>`, "style", "", "", false
	case "styleihid":
		return open + ` style="color: {{ ` + e + ` }}" v-show="f">k</p>`, "style", "", "", false
	case "attrhid":
		return open + ` title="{{ ` + e + ` }}" style="margin:0" v-show="f">k</p>`, "title", "", "", false
	case "text2x":
		return open + `>` + lS + `{{ ` + e + ` }}|{{ ` + e + ` }}` + rS + `</p>`, "", "", "", false
	case "attr2x":
		return open + ` title="` + lS + `{{ ` + e + ` }}|{{ ` + e + ` }}` + rS + `">k</p>`, "title", "", "", false
	case "boundm2x":
		return open + ` :title="{{ ` + e + ` }}{{ ` + e + ` }}">k</p>`, "title", "", "", false
	case "attr2":
		return open + ` title="` + lS + `{{ ` + e + ` }}|{{ w }}` + rS + `">k</p>`, "title", lD, "|W" + rD, true
	case "bound":
		return open + ` :title="` + e + `">` + lS + `k` + rS + `</p>`, "title", "", "", true
	case "vbind":
		return open + ` v-bind:title="` + e + `">` + lS + `k` + rS + `</p>`, "title", "", "", true
	case "boundm":
		return open + ` :title="{{ ` + e + ` }}">k</p>`, "title", "", "", true
	case "class":
		return open + ` class="st" :class="` + e + `">k</p>`, "class", "st ", "", true
	case "style":
		return open + ` :style="` + e + `">k</p>`, "style", "", "", true
	case "classi":
		return open + ` class="st {{ w }}" :class="` + e + `">k</p>`, "class", "st W ", "", true
	case "stylei":
		return open + ` style="margin:{{ w }}" :style="` + e + `">k</p>`, "style", "", "", false
	case "boundstatic":
		return open + ` title="st" :title="` + e + `">k</p>`, "title", "", "", true
	}
	panic("sink " + sink)
}

const c01Tail = `<span data-after="1">after &amp; tail &lt;end&gt;</span>`
const c01Head = `<span data-before="1" title="&quot;h&quot;">before &lt;b&gt; &amp;amp;</span>`

func c01Build(sink, construct, nbh string) c01Tpl {
	t := c01Tpl{entry: "page.vuego"}
	mk := func(e, extra string) string {
		el, sa, l, r, lit := c01SinkEl(sink, nbh, e, extra)
		t.sinkAttr, t.lDec, t.rDec, t.litOK = sa, l, r, lit
		return el
	}
	wrap := func(body string) string { return c01Head + body + c01Tail }
	switch construct {
	case "plain":
		t.str = wrap(mk("v", ""))
	case "if":
		t.str = wrap(`<div v-if="t">` + mk("v", "") + `</div><div v-else>no</div>`)
	case "else":
		t.str = wrap(`<div v-if="f">no</div><div v-else>` + mk("v", "") + `</div>`)
	case "for-root":
		t.str = wrap(mk("it", ` v-for="it in vs"`))
	case "for-root2":
		t.str = wrap(mk("it", ` v-for="(i, it) in vs" :data-i="i"`))
	case "for-child":
		t.str = wrap(`<ul><li v-for="it in vs">` + mk("it", "") + `</li></ul>`)
	case "for-tmpl":
		t.str = wrap(`<template v-for="it in vs">` + mk("it", "") + `</template>`)
	case "for-obj":
		t.str = wrap(`<ul><li v-for="it in os">` + mk("it.name", "") + `</li></ul>`)
	case "inc-static":
		t.files = map[string]string{"page.vuego": wrap(`<template include="c.vuego" p="{{ v }}"></template>`), "c.vuego": `<div class="c">` + mk("p", "") + `</div>`}
		t.litOK = false // decided per value: JSON-looking prop strings are auto-decoded (documented)
	case "inc-bound":
		t.files = map[string]string{"page.vuego": wrap(`<template include="c.vuego" :p="v"></template>`), "c.vuego": `<div class="c">` + mk("p", "") + `</div>`}
		t.litOK = false
	case "inc-troot": // component file with a root <template> tag (the documented form)
		t.files = map[string]string{"page.vuego": wrap(`<template include="c.vuego" :p="v"></template>`), "c.vuego": `<template><div class="c">` + mk("p", "") + `</div></template>`}
	case "inc-troot-comment": // the root <template> follows a doc comment
		t.files = map[string]string{"page.vuego": wrap(`<template include="c.vuego" :p="v"></template>`), "c.vuego": "<!-- Card: shows p -->\n<template><div class=\"c\">" + mk("p", "") + `</div></template>`}
	case "inc-troot-fm-blank": // front-matter, an empty line, then the root <template>
		t.files = map[string]string{"page.vuego": wrap(`<template include="c.vuego" p="{{ v }}"></template>`), "c.vuego": "---\nkind: card\n---\n\n<template :required=\"p\"><div class=\"c\">" + mk("p", "") + `</div></template>` + "\n"}
	case "inc-troot-ws": // leading white space before the root <template>
		t.files = map[string]string{"page.vuego": wrap(`<template include="c.vuego" :p="v"></template>`), "c.vuego": "\n  <template><div class=\"c\">" + mk("p", "") + "</div></template>\n"}
	case "inc-troot-req":
		t.files = map[string]string{"page.vuego": wrap(`<template include="c.vuego" p="{{ v }}"></template>`), "c.vuego": `<template :required="p">` + mk("p", "") + `<i v-for="x in two">{{ x }}</i></template>`}
	case "inc-troot-nested": // root template that is itself an include
		t.files = map[string]string{"page.vuego": wrap(`<template include="o.vuego" :p="v"></template>`), "o.vuego": `<template include="c.vuego" :q="p"></template>`, "c.vuego": `<template><div class="c">` + mk("q", "") + `</div></template>`}
	case "inc-wrap-twice": // a wrapper component (its root tag is an include forwarding the prop) used twice: first with the value, then with a constant
		t.files = map[string]string{"page.vuego": wrap(`<template include="w.vuego" :p="v" :first="t"></template><template include="w.vuego" :p="w" :first="f"></template>`),
			"w.vuego": `<template include="c.vuego" :q="p" :show="first"></template>`,
			"c.vuego": `<div class="c"><template v-if="show">` + mk("q", "") + `</template><i v-else>{{ q }}</i></div>`}
	case "inc-wrap-loop": // the wrapper used once per item of [value, constant]
		t.files = map[string]string{"page.vuego": wrap(`<template v-for="(i, it) in vw"><template include="w.vuego" :p="it" :idx="i"></template></template>`),
			"w.vuego": `<template include="c.vuego" :q="p" :k="idx"></template>`,
			"c.vuego": `<div class="c"><template v-if="k == 0">` + mk("q", "") + `</template><i v-else>{{ q }}</i></div>`}
	case "inc-scope":
		t.files = map[string]string{"page.vuego": wrap(`<template include="c.vuego"></template>`), "c.vuego": `<div class="c">` + mk("v", "") + `</div>`}
	case "slot-default":
		t.files = map[string]string{"page.vuego": wrap(`<template include="card.vuego">` + mk("v", "") + `</template>`), "card.vuego": `<section class="card"><slot></slot></section>`}
	case "slot-named":
		t.files = map[string]string{"page.vuego": wrap(`<template include="card.vuego"><template v-slot:body>` + mk("v", "") + `</template></template>`), "card.vuego": `<section class="card"><slot name="body">fb</slot></section>`}
	case "slot-prop":
		t.files = map[string]string{"page.vuego": wrap(`<template include="card.vuego"><template v-slot:body="sp">` + mk("sp.item", "") + `</template></template>`), "card.vuego": `<section class="card"><slot name="body" :item="v">fb</slot></section>`}
	case "slot-twice": // the component fills the same named slot twice; the supplied template has static text before the sink
		t.files = map[string]string{"page.vuego": wrap(`<template include="card.vuego"><template v-slot:body="sp">` + "\n   lead " + `<template v-if="sp.first">` + mk("sp.item", "") + `</template><i v-else>{{ sp.item }}</i>` + "\n" + `</template></template>`),
			"card.vuego": `<section class="card"><div><slot name="body" :item="v" :first="t">fb</slot></div><div><slot name="body" :item="w" :first="f">fb</slot></div></section>`}
	case "slot-loop": // the slot is filled once per item of [value, constant]
		t.files = map[string]string{"page.vuego": wrap(`<template include="card.vuego"><template #body="sp">` + "\n   " + `<template v-if="sp.idx == 0">` + mk("sp.item", "") + `</template><i v-else>{{ sp.item }}</i>` + "\n" + `</template></template>`),
			"card.vuego": `<section class="card"><div v-for="(i, it) in vw"><slot name="body" :item="it" :idx="i">fb</slot></div></section>`}
	case "layout-var":
		t.files = map[string]string{"page.vuego": "---\nlayout: lay\n---\n<p>page body</p>", "layouts/lay.vuego": `<main>` + wrap(mk("v", "")) + `<div v-html="content"></div></main>`}
	case "layout-page":
		t.files = map[string]string{"page.vuego": "---\nlayout: lay\n---\n" + wrap(mk("v", "")), "layouts/lay.vuego": `<main><h1>L</h1><div v-html="content"></div></main>`}
	default:
		panic("construct " + construct)
	}
	if construct == "inc-static" || construct == "inc-bound" || strings.HasPrefix(construct, "inc-troot") || strings.HasPrefix(construct, "inc-wrap") {
		// keep literal judgement (where the sink allows it); values that decode as JSON are exempted in Exec
		_, _, _, _, lit := c01SinkEl(sink, nbh, "p", "")
		t.litOK = lit
	}
	return t
}

// c01Carriers are the Go values a hostile text can arrive in: all of them print
// as exactly that text through fmt.
var c01Carriers = []string{"string", "NamedString", "Stringer", "error"}

func c01Carry(val, carrier string) any {
	switch carrier {
	case "NamedString":
		return NamedString(val)
	case "Stringer":
		return TextStringer{S: val}
	case "error":
		return &TextError{S: val}
	}
	return val
}

func c01Data(val string) map[string]any { return c01DataC(val, "string") }

func c01DataC(val, carrier string) map[string]any {
	v := c01Carry(val, carrier)
	return map[string]any{
		"v": v, "w": "W", "t": true, "f": false, "secret": c01Canary,
		"vs": []any{v}, "os": []any{map[string]any{"name": v}}, "two": []any{1, 2}, "vw": []any{v, "W"},
	}
}

func (t *c01Tpl) render(val string) (string, error) { return t.renderC(val, "string") }

func (t *c01Tpl) renderC(val, carrier string) (string, error) {
	if t.files == nil {
		return renderStr(t.str, c01DataC(val, carrier), c01Funcs())
	}
	var b bytes.Buffer
	err := vuego.NewFS(memFS(t.files), c01Funcs()).Load(t.entry).Fill(c01DataC(val, carrier)).Render(bg, &b)
	return b.String(), err
}

var c01Sigma = []string{"<", ">", "&", `"`, "'", ";", "{", "}", "/", "=", " ", "a", "#", "x"}

var c01Dict = []string{
	"</p>", "<script>", "</script>", "<script>alert(1)</script>", `"><img src=x onerror=1>`, `' on=x '`, `" onmouseover="a`, "&lt;", "&amp;lt;", "&#x3c;", "&#60;", "&lt", "&amp;", "&quot;", "&apos;", "&gt;", "&;", "&#;", "&#x;", "&nbsp;", "&copy;", "&copy", "&unknown;",
	"{{ secret }}", "{{secret}}", "{{ pwn() }}", "{{ secret | upper }}", "}}{{", "{{", "}}", "{{ v }}", "{{ 1 + 1 }}", "{{{{ secret }}}}", "{ { secret } }", "{{ secret", "secret }}",
	`v-html="secret"`, `<p v-html="secret"></p>`, `<p v-if="t">x</p>`, `<template include="c.vuego"></template>`, `<slot></slot>`, `:title="secret"`, `<i :title="secret">`, "v-for=", "<!--", "-->", "<!-- c -->", "]]>", "<![CDATA[x]]>", "</textarea>", "</title>", "</style>", "<style>", "<br>", "<br/>", "<p>", "</div>", "</span></p><p>", "<a href=\"javascript:1\">", "<svg onload=1>", "<math>", "</template>", "<template>",
	"<", ">", "&", `"`, "'", "`", "=", "/", "\\", "%", "\t", "\n", "a\nb", "  two  spaces  ", "<b>bold</b>", "a<b", "a>b", "a&b", "a&amp;b", "AT&T;", "x&y;z", "&a;", "1;2", ";&", "&;&;",
	"é", "中文", "\U0001F600", "\u200b", "\u00a0", "\ufeff", "á", "﹤script﹥", "&#x26;lt;", "&#38;", "%3Cscript%3E", "\\u003c", "${secret}", "#{secret}", "<%= secret %>", "[[ secret ]]", "{% secret %}",
	`{"a":1}`, `[1,2]`, `{"a":"<b>"}`, `["{{ secret }}"]`, "{}", "[]", "{a", "[a", "true", "0", "null", "-1", "1e3", "0x10",
	"</noscript><img src=x onerror=1>", "</xmp><b>x</b>", "</iframe><script>1</script>", "</noembed><i>", "</noframes><i>", "</textarea><i>x</i>", "</title><i>x</i>", "</pre><hr>", "</option></select><img src=x>", "</td></tr></table><img src=x>", "</text></svg><img src=x>", "</button><button formaction=x>", "</h1><h1 id=x>", "</a><a href=x>", "</li></ul><ol>", "</code><code id=x>", "</NOSCRIPT><p id=x>", "</xmp ><b>", "</noscript\n><b>", "<!--</noscript>--><b>",
	"data-s=\"1\"", " data-after=1 ", "zqxj", "zqxjzqxj", "<zqxj>", "on", "st", "color:red", "color:red;display:none", "a:b;c:d", "x:{{ secret }}", "display:none",
}

type c01 struct{}

func init() {
	core.Register(&c01{}, core.Meta{
		Assumptions: []string{
			"golang.org/x/net/html (HTML5 tokenizer/tree builder) is the trusted observer of the output bytes",
			"comparisons are modulo the whitespace normalisation the statement exempts (trim, collapse); values containing CR or NUL are not generated (input-stream preprocessing of the observer would change them)",
			"a defect that is present for every value including the harmless word is C02's to find (differential baseline)",
			"include props whose string value decodes as JSON are auto-decoded by the engine (documented); literal containment is not judged for those, skeleton/spill/canary still are",
		},
		MinNonTrivial: func(ctx core.Ctx) int { return 1000 },
	})
}

func (p *c01) ID() string { return "C01" }
func (p *c01) Rule() string {
	return fmt.Sprintf("case = (sink x enclosing construct x static neighbourhood) template with a batch of hostile values; %d sinks ({{ }} text under ordinary, raw-text, RCDATA, foreign and table/select parents, v-text, static attribute with one or two mustaches, :attr / v-bind: / :attr with a mustache, :class / :style alone and merged with static class/style holding a mustache, and text / v-text / attribute / bound sinks whose expression ends in a filter: escape, trim, trim|escape, string, default, escape(x)) x %d constructs x 4 neighbourhoods; base grid: all strings over the 14-symbol alphabet {< > & \" ' ; { } / = space a # x} up to length 3 (quick) / 4 (thorough) on every sink in the plain construct (exhaustive); full grid: a %d-token hostile dictionary on every sink x construct x neighbourhood (exhaustive); plus seeded random concatenations of dictionary tokens and alphabet strings over random grid cells; every value is rendered next to the harmless word 'zqxj' in the same template, once carried as a Go string and once more as a named string type, a fmt.Stringer or an error (carrier chosen by the case); non-trivial = value contains at least one of < > & \" ' { } ; distinct by (sink, construct, neighbourhood, value, carrier)", len(c01Sinks), len(c01Constructs), len(c01Dict))
}

// --- planning
func c01SigmaCount(maxLen int) int {
	n, pw := 0, 1
	for l := 1; l <= maxLen; l++ {
		pw *= len(c01Sigma)
		n += pw
	}
	return n
}

func c01SigmaString(k int) string {
	// k-th string in length-then-lexicographic order
	n := len(c01Sigma)
	l, pw := 1, n
	for k >= pw {
		k -= pw
		pw *= n
		l++
	}
	var b strings.Builder
	digits := make([]int, l)
	for i := l - 1; i >= 0; i-- {
		digits[i] = k % n
		k /= n
	}
	for _, d := range digits {
		b.WriteString(c01Sigma[d])
	}
	return b.String()
}

const c01Batch = 128

func (p *c01) dims(ctx core.Ctx) (sigmaN, baseCases, gridCases, randCases int) {
	sigmaN = c01SigmaCount(ctx.Pick(3, 4))
	per := (sigmaN + c01Batch - 1) / c01Batch
	baseCases = len(c01Sinks) * len(c01Nbhs) * per
	gridCases = len(c01Sinks) * len(c01Constructs) * len(c01Nbhs)
	randCases = ctx.Pick(20000, 400000) / 32
	return
}

func (p *c01) Plan(ctx core.Ctx) int {
	_, b, g, r := p.dims(ctx)
	return b + g + r
}

func (p *c01) Gen(ctx core.Ctx, i int) any { return c01Gen(ctx, i, p) }

func c01Gen(ctx core.Ctx, i int, p *c01) c01Case {
	sigmaN, b, g, _ := p.dims(ctx)
	if i < b {
		per := (sigmaN + c01Batch - 1) / c01Batch
		chunk := i % per
		i /= per
		c := c01Case{Sink: c01Sinks[i%len(c01Sinks)], Construct: "plain", Nbh: c01Nbhs[i/len(c01Sinks)]}
		for k := chunk * c01Batch; k < (chunk+1)*c01Batch && k < sigmaN; k++ {
			c.Values = append(c.Values, c01SigmaString(k))
		}
		return c
	}
	i -= b
	if i < g {
		c := c01Case{Sink: c01Sinks[i%len(c01Sinks)]}
		i /= len(c01Sinks)
		c.Construct = c01Constructs[i%len(c01Constructs)]
		c.Nbh = c01Nbhs[i/len(c01Constructs)]
		c.Values = c01Dict
		return c
	}
	i -= g
	r := core.NewRNG(ctx.Seed, 0xC01, uint64(i))
	c := c01Case{Sink: core.Pick(r, c01Sinks), Construct: core.Pick(r, c01Constructs), Nbh: core.Pick(r, c01Nbhs)}
	for k := 0; k < 32; k++ {
		c.Values = append(c.Values, c01RandValue(r))
	}
	return c
}

func c01RandValue(r *core.RNG) string {
	var b strings.Builder
	n := 1 + r.Intn(4)
	for j := 0; j < n; j++ {
		if r.Chance(2, 3) {
			b.WriteString(core.Pick(r, c01Dict))
		} else {
			for k := 1 + r.Intn(3); k > 0; k-- {
				b.WriteString(core.Pick(r, c01Sigma))
			}
		}
	}
	return b.String()
}

func (p *c01) Decode(raw json.RawMessage) (any, error) { return core.JSONDecode[c01Case](raw) }

func c01ValClass(h string) string {
	switch {
	case strings.Contains(h, "{{"):
		return "mustache"
	case c01HasEntity(h):
		return "entity"
	case strings.ContainsAny(h, "<>"):
		return "angle"
	case strings.ContainsAny(h, `"'`):
		return "quote"
	case strings.Contains(h, "&"):
		return "amp"
	}
	return "other"
}

func c01HasEntity(h string) bool {
	i := strings.Index(h, "&")
	return i >= 0 && strings.Contains(h[i:], ";")
}

func c01Trivial(h string) bool { return !strings.ContainsAny(h, "<>&\"'{};") }

func c01Falsy(h string) bool { return strings.TrimSpace(h) == "" || h == "false" }

func c01JSONLike(h string) bool {
	s := strings.TrimSpace(h)
	if !(strings.HasPrefix(s, "{") || strings.HasPrefix(s, "[")) {
		return false
	}
	var out any
	return json.Unmarshal([]byte(s), &out) == nil
}

func (p *c01) Exec(ctx core.Ctx, cc any) core.Obs {
	c := cc.(c01Case)
	var o core.Obs
	t := c01Build(c.Sink, c.Construct, c.Nbh)
	base, err := t.render(c01Harmless)
	o.Evals++
	cell := c.Sink + "/" + c.Construct + "/" + c.Nbh
	if err != nil {
		o.Fail(c01Case{c.Sink, c.Construct, c.Nbh, []string{c01Harmless}}, "harmless-render-error/"+c.Sink+"/"+c.Construct, "render with the harmless word failed: %v", err)
		return o
	}
	baseDoc := oracle.Parse(base, false)
	baseSinks := baseDoc.ByAttr("data-s", "1")
	if len(baseSinks) != 1 {
		o.Fail(c01Case{c.Sink, c.Construct, c.Nbh, []string{c01Harmless}}, "harness/sink-not-found/"+c.Sink+"/"+c.Construct, "expected exactly one sink element in the harmless render, found %d\n%s", len(baseSinks), base)
		return o
	}
	baseSkel := baseDoc.Skeleton()
	for _, h := range c.Values {
		if strings.ContainsAny(h, "\r\x00") {
			continue
		}
		boundSink := c.Sink == "bound~escape" || c.Sink == "bound" || c.Sink == "vbind" || c.Sink == "boundm" || c.Sink == "class" || c.Sink == "style" || c.Sink == "boundstatic" || c.Sink == "classi" || c.Sink == "stylei"
		if boundSink && c01Falsy(h) {
			o.Cell("skipped/falsy-on-bound-attr")
			continue // a falsy bound value legitimately omits the attribute (C14)
		}
		// every value arrives as a string and, in a second render, in one of the
		// other carriers (chosen by the case, so a replay repeats it)
		hs := 0
		for _, ch := range []byte(c.Sink + c.Construct + c.Nbh + h) {
			hs = hs*31 + int(ch)
		}
		if hs < 0 {
			hs = -hs
		}
		for _, carrier := range []string{"string", c01Carriers[1+hs%(len(c01Carriers)-1)]} {
			if carrier != "string" && (c.Sink == "style" || c.Sink == "class") {
				// :class / :style given a non-string value are object/array syntax territory (C14)
				continue
			}
			one := c01Case{c.Sink, c.Construct, c.Nbh, []string{h}}
			before := c01PwnCalls.Load()
			out, err := t.renderC(h, carrier)
			o.Evals++
			o.Cell(cell)
			o.Cell("carrier/" + carrier)
			vc := c01ValClass(h)
			sig := func(defect string) string {
				s := fmt.Sprintf("%s/%s/%s/%s[%s]", defect, c.Sink, c.Construct, c01NbhClass(c.Nbh), vc)
				if carrier != "string" {
					s += "@" + carrier
				}
				return s
			}
			if !c01Trivial(h) {
				o.NT(cell, h, carrier)
			}
			if err != nil {
				o.Fail(one, sig("error"), "render failed only for the hostile value %q: %v", h, err)
				continue
			}
			if c01PwnCalls.Load() != before {
				o.Fail(one, sig("evaluated-call"), "value %q caused the registered function pwn() to be called\noutput: %s", h, out)
			}
			if strings.Contains(out, c01Canary) {
				o.Fail(one, sig("evaluated"), "value %q made the scope variable 'secret' appear in the output (value was evaluated as template code)\noutput: %s", h, out)
				continue
			}
			doc := oracle.Parse(out, false)
			if sk := doc.Skeleton(); sk != baseSkel {
				o.Fail(one, sig("skeleton"), "value %q changed the set of elements / attribute names\nharmless skeleton: %s\nhostile skeleton:  %s\noutput: %s", h, baseSkel, sk, out)
				continue
			}
			// same skeleton: parallel walk
			if d := c01Compare(baseDoc, doc, t.sinkAttr); d != "" {
				o.Fail(one, sig("spill"), "value %q changed a text run / attribute value other than the sink's: %s\noutput: %s", h, d, out)
				continue
			}
			// literal: the sink contains the value as characters
			if t.litOK {
				if (c.Construct == "inc-static" || c.Construct == "inc-bound" || strings.HasPrefix(c.Construct, "inc-troot") || strings.HasPrefix(c.Construct, "inc-wrap")) && c01JSONLike(h) {
					o.Cell("not-judged/json-prop-literal")
					continue
				}
				s := doc.ByAttr("data-s", "1")[0]
				var got, want string
				if t.sinkAttr == "" {
					got = s.InnerText()
					want = oracle.NormText(t.lDec + h + t.rDec)
				} else {
					a, _ := s.Attr(t.sinkAttr)
					got = oracle.NormText(a)
					want = oracle.NormText(t.lDec + h + t.rDec)
				}
				if got != want {
					o.Fail(one, sig("not-literal"), "sink value is not the neighbours plus the literal value: want %q got %q (value %q carried as %s)\noutput: %s", want, got, h, carrier, out)
				}
			}
		}
	}
	if c.Construct == "slot-prop" && c.Sink == "attr" && c.Nbh == "entity" {
		o.Sample = map[string]any{"sink": c.Sink, "construct": c.Construct, "neighbourhood": c.Nbh, "files": t.files, "values_tried": len(c.Values), "first_values": c.Values[:min(5, len(c.Values))], "harmless_output": base}
	}
	return o
}

func c01NbhClass(n string) string {
	if n == "entity" || n == "attrs" {
		return "nbh-" + n
	}
	return "nbh-simple"
}

// c01Compare walks two DOMs with equal skeletons and returns a description of
// the first non-sink text/attribute difference.
func c01Compare(a, b *oracle.N, sinkAttr string) string {
	if a.Kind != b.Kind || len(a.Kids) != len(b.Kids) && !c01IsSink(a) {
		return fmt.Sprintf("structure under <%s>: %d vs %d children", a.Name, len(a.Kids), len(b.Kids))
	}
	if a.Kind == "text" {
		if a.Text != b.Text {
			return fmt.Sprintf("text %q became %q", a.Text, b.Text)
		}
		return ""
	}
	sink := c01IsSink(a)
	if a.Kind == "el" {
		am, bm := map[string]string{}, map[string]string{}
		for _, x := range a.Attrs {
			am[x.K] = x.V
		}
		for _, x := range b.Attrs {
			bm[x.K] = x.V
		}
		for k, v := range am {
			if sink && k == sinkAttr {
				continue
			}
			if bm[k] != v {
				return fmt.Sprintf("attribute %s of <%s>: %q became %q", k, a.Name, v, bm[k])
			}
		}
	}
	if sink && sinkAttr == "" {
		return "" // the sink's own text run
	}
	ak, bk := a.Kids, b.Kids
	if len(ak) != len(bk) {
		return fmt.Sprintf("children of <%s>: %d vs %d", a.Name, len(ak), len(bk))
	}
	for i := range ak {
		if d := c01Compare(ak[i], bk[i], sinkAttr); d != "" {
			return d
		}
	}
	return ""
}

func c01IsSink(n *oracle.N) bool {
	if n.Kind != "el" {
		return false
	}
	v, ok := n.Attr("data-s")
	return ok && v == "1"
}
