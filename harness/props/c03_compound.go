package props

import (
	"fmt"
	"strings"

	"verifharness/core"
	"verifharness/oracle"
)

// C03 "compound" part: a condition that begins with a negation and goes on with an operator, over boolean operands
// (every assignment of a, b, c). Go's own operators are the reference; the same expression must have that truth in
// v-if, v-else-if, v-show, a boolean attribute binding and a :class object - `!a && b` is `(!a) && b` everywhere.

var c03Compound = []struct {
	expr string
	eval func(a, b, c bool) bool
}{
	{"!a && b", func(a, b, c bool) bool { return !a && b }},
	{"!a && !b", func(a, b, c bool) bool { return !a && !b }},
	{"!a || b", func(a, b, c bool) bool { return !a || b }},
	{"!a == b", func(a, b, c bool) bool { return !a == b }},
	{"!a != b", func(a, b, c bool) bool { return !a != b }},
	{"!a ? b : c", func(a, b, c bool) bool {
		if !a {
			return b
		}
		return c
	}},
	{"a && !b", func(a, b, c bool) bool { return a && !b }},
	{"!(a && b)", func(a, b, c bool) bool { return !(a && b) }},
	{"!a && b || c", func(a, b, c bool) bool { return !a && b || c }},
	{"!a && (b || c)", func(a, b, c bool) bool { return !a && (b || c) }},
	{"!!a && b", func(a, b, c bool) bool { return a && b }},
	{"!o.a && o.b", func(a, b, c bool) bool { return !a && b }},
}

var c03NCompound = len(c03Compound) * 8

func c03ExecCompound(c c03Case, o *core.Obs) {
	ce := c03Compound[c.K%len(c03Compound)]
	a, b, cc := c.Path[0] == '1', c.Path[1] == '1', c.Path[2] == '1'
	want := ce.eval(a, b, cc)
	e := ce.expr
	data := map[string]any{"a": a, "b": b, "c": cc, "o": map[string]any{"a": a, "b": b}}
	tpl := fmt.Sprintf(`<i v-if="%[1]s" data-m="if"></i>`+
		`<i v-if="zz" data-m="x"></i><i v-else-if="%[1]s" data-m="elif"></i>`+
		`<i v-show="%[1]s" data-m="show"></i>`+
		`<i :data-on="%[1]s" data-m="attr"></i><i v-bind:data-on="%[1]s" data-m="vbind"></i>`+
		`<i :class="{on: %[1]s}" data-m="cls"></i>`, e)
	out, err := renderStr(tpl, data)
	o.Evals++
	o.NT("compound", e, c.Path)
	o.Cell("part/compound/" + e)
	if err != nil {
		o.Fail(c, "compound/error", "render failed: %v\ntemplate: %s\ndata: %s", err, tpl, mustJSON(data))
		return
	}
	doc := oracle.Parse(out, false)
	obs := map[string]bool{}
	one := func(m string) *oracle.N {
		if x := doc.ByAttr("data-m", m); len(x) > 0 {
			return x[0]
		}
		return nil
	}
	obs["v-if"] = one("if") != nil
	obs["v-else-if"] = one("elif") != nil
	if n := one("show"); n != nil {
		st, _ := n.Attr("style")
		obs["v-show"] = !strings.Contains(strings.ReplaceAll(st, " ", ""), "display:none")
	}
	for _, m := range []string{"attr", "vbind"} {
		if n := one(m); n != nil {
			_, obs[":"+m] = n.Attr("data-on")
		}
	}
	if n := one("cls"); n != nil {
		cv, _ := n.Attr("class")
		obs[":class-object"] = strings.Contains(" "+cv+" ", " on ")
	}
	for _, pos := range sortedKeys(obs) {
		o.Cell("compound/" + pos)
		if obs[pos] != want {
			o.Fail(c, "compound/"+pos+"/"+e, "%s with a=%v b=%v c=%v is %v, position %s treated it as %v\ntemplate: %s\noutput: %s", e, a, b, cc, want, pos, obs[pos], tpl, out)
		}
	}
}
