package props

import (
	"fmt"
	"strings"

	"verifharness/core"
	"verifharness/oracle"
)

// C03 "compound" part: a condition that begins with a negation and goes on with an operator, over boolean operands
// (every assignment of a, b, c). Go's own operators are the reference; the same expression must have that truth in
// v-if, v-else-if, v-show, a boolean attribute binding and a :class object - `!a && b` is `(!a) && b` everywhere.

var c03Compound = []struct {
	expr string
	eval func(a, b, c bool) bool
}{
	{"!a && b", func(a, b, c bool) bool { return !a && b }},
	{"!a && !b", func(a, b, c bool) bool { return !a && !b }},
	{"!a || b", func(a, b, c bool) bool { return !a || b }},
	{"!a == b", func(a, b, c bool) bool { return !a == b }},
	{"!a != b", func(a, b, c bool) bool { return !a != b }},
	{"!a ? b : c", func(a, b, c bool) bool {
		if !a {
			return b
		}
		return c
	}},
	{"a && !b", func(a, b, c bool) bool { return a && !b }},
	{"!(a && b)", func(a, b, c bool) bool { return !(a && b) }},
	{"!a && b || c", func(a, b, c bool) bool { return !a && b || c }},
	{"!a && (b || c)", func(a, b, c bool) bool { return !a && (b || c) }},
	{"!!a && b", func(a, b, c bool) bool { return a && b }},
	{"!o.a && o.b", func(a, b, c bool) bool { return !a && b }},
}

var c03NCompound = len(c03Compound)*8 + len(c03BareChains)*8

// chains whose members are bare elements (no attribute but the directive, no children), closing their parent: exactly
// the chosen member is a child of the parent
var c03BareChains = []string{
	`<div data-m="w"><hr v-if="a"><input v-else-if="b"><p v-else>none</p></div>`,
	`<section><div data-m="w"><hr v-if="a"><wbr v-else-if="b"><img v-else-if="c"></div></section>`,
	`<ul data-m="w"><li v-if="a"></li><li v-else-if="b"></li><li v-else></li></ul>`,
}

func c03ExecBareChain(c c03Case, o *core.Obs) {
	tpl := c03BareChains[(c.K-len(c03Compound))%len(c03BareChains)]
	a, b, cc := c.Path[0] == '1', c.Path[1] == '1', c.Path[2] == '1'
	out, err := renderStr(tpl, map[string]any{"a": a, "b": b, "c": cc})
	o.Evals++
	o.NT("barechain", tpl, c.Path)
	o.Cell("part/compound/bare-chain")
	if err != nil {
		o.Fail(c, "barechain/error", "render failed: %v\ntemplate: %s", err, tpl)
		return
	}
	ws := oracle.Parse(out, false).ByAttr("data-m", "w")
	if len(ws) != 1 {
		o.Fail(c, "barechain/parent-lost", "parent element found %d times\noutput: %s", len(ws), out)
		return
	}
	var kids []string
	for _, k := range ws[0].Kids {
		if k.Kind != "text" {
			kids = append(kids, k.Name)
		}
	}
	// the members, in template order, with their conditions
	var want []string
	names := map[int][]string{0: {"hr", "input", "p"}, 1: {"hr", "wbr", "img"}, 2: {"li", "li", "li"}}[(c.K-len(c03Compound))%len(c03BareChains)]
	conds := []bool{a, b, true}
	if (c.K-len(c03Compound))%len(c03BareChains) == 1 {
		conds[2] = cc
	}
	for i, ok := range conds {
		if ok {
			want = []string{names[i]}
			break
		}
	}
	if strings.Join(kids, ",") != strings.Join(want, ",") {
		o.Fail(c, "barechain/not-exactly-the-chosen-member", "a=%v b=%v c=%v: the parent must hold exactly %v, it holds %v\ntemplate: %s\noutput: %s", a, b, cc, want, kids, tpl, out)
	}
}

func c03ExecCompound(c c03Case, o *core.Obs) {
	if c.K >= len(c03Compound) {
		c03ExecBareChain(c, o)
		return
	}
	ce := c03Compound[c.K%len(c03Compound)]
	a, b, cc := c.Path[0] == '1', c.Path[1] == '1', c.Path[2] == '1'
	want := ce.eval(a, b, cc)
	e := ce.expr
	data := map[string]any{"a": a, "b": b, "c": cc, "o": map[string]any{"a": a, "b": b}}
	tpl := fmt.Sprintf(`<i v-if="%[1]s" data-m="if"></i>`+
		`<i v-if="zz" data-m="x"></i><i v-else-if="%[1]s" data-m="elif"></i>`+
		`<i v-show="%[1]s" data-m="show"></i>`+
		`<i :data-on="%[1]s" data-m="attr"></i><i v-bind:data-on="%[1]s" data-m="vbind"></i>`+
		`<i :class="{on: %[1]s}" data-m="cls"></i>`, e)
	out, err := renderStr(tpl, data)
	o.Evals++
	o.NT("compound", e, c.Path)
	o.Cell("part/compound/" + e)
	if err != nil {
		o.Fail(c, "compound/error", "render failed: %v\ntemplate: %s\ndata: %s", err, tpl, mustJSON(data))
		return
	}
	doc := oracle.Parse(out, false)
	obs := map[string]bool{}
	one := func(m string) *oracle.N {
		if x := doc.ByAttr("data-m", m); len(x) > 0 {
			return x[0]
		}
		return nil
	}
	obs["v-if"] = one("if") != nil
	obs["v-else-if"] = one("elif") != nil
	if n := one("show"); n != nil {
		st, _ := n.Attr("style")
		obs["v-show"] = !strings.Contains(strings.ReplaceAll(st, " ", ""), "display:none")
	}
	for _, m := range []string{"attr", "vbind"} {
		if n := one(m); n != nil {
			_, obs[":"+m] = n.Attr("data-on")
		}
	}
	if n := one("cls"); n != nil {
		cv, _ := n.Attr("class")
		obs[":class-object"] = strings.Contains(" "+cv+" ", " on ")
	}
	for _, pos := range sortedKeys(obs) {
		o.Cell("compound/" + pos)
		if obs[pos] != want {
			o.Fail(c, "compound/"+pos+"/"+e, "%s with a=%v b=%v c=%v is %v, position %s treated it as %v\ntemplate: %s\noutput: %s", e, a, b, cc, want, pos, obs[pos], tpl, out)
		}
	}
}
