package props

import (
	"fmt"
	"strings"

	"verifharness/core"
	"verifharness/oracle"
)

// C16 "scen" part: hand-built sites for placements the AST of c16_model.go does
// not describe - a marked element that is the v-else-if / v-else member of a
// chain (also the v-else that follows an empty loop), and marked elements in
// the named-slot content a page hands to its layouts. Every scenario states the
// number of occurrences of each marker per render; it is rendered twice on one
// engine through every entry point.

type c16Scen struct {
	Label     string            `json:"label"`
	Files     map[string]string `json:"files"`
	WantFile  map[string]int    `json:"want_file,omitempty"`  // Load().Render / RenderFile (layouts applied)
	WantOther map[string]int    `json:"want_other,omitempty"` // every other entry point; nil: not judged
}

const c16ElseLoop = `<div v-for="i in items"><p v-if="i > 5" data-m="w0">a</p>%s</div>`

var c16Scens = []c16Scen{
	{Label: "else-member-in-loop", Files: map[string]string{"p.vuego": fmt.Sprintf(c16ElseLoop, `<b v-else v-once data-m="m1">e</b>`)}, WantOther: map[string]int{"m1": 1, "w0": 0}},
	{Label: "else-if-member-in-loop", Files: map[string]string{"p.vuego": fmt.Sprintf(c16ElseLoop, `<b v-else-if="i > 0" v-once data-m="m1">e</b><i v-else data-m="w1">z</i>`)}, WantOther: map[string]int{"m1": 1, "w0": 0, "w1": 0}},
	{Label: "else-if-and-else-members-in-loop", Files: map[string]string{"p.vuego": fmt.Sprintf(c16ElseLoop, `<b v-else-if="i == 2" v-once data-m="m1">e</b><i v-else v-once data-m="m2">z</i>`)}, WantOther: map[string]int{"m1": 1, "m2": 1, "w0": 0}},
	{Label: "else-after-empty-loop-in-loop", Files: map[string]string{"p.vuego": `<div v-for="i in items"><p v-for="j in empty" data-m="w0">a</p><b v-else v-once data-m="m1">none</b></div>`}, WantOther: map[string]int{"m1": 1, "w0": 0}},
	{Label: "else-member-in-component-included-thrice", Files: map[string]string{
		"p.vuego": `<template include="c.vuego"></template><template include="c.vuego"></template><template include="c.vuego"></template>`,
		"c.vuego": `<section><p v-if="cF" data-m="w0">x</p><b v-else v-once data-m="m1">e</b><i data-m="w1"></i></section>`}, WantOther: map[string]int{"m1": 1, "w0": 0, "w1": 3}},
	{Label: "two-else-members-side-by-side", Files: map[string]string{"p.vuego": `<p v-if="cF" data-m="w0">x</p><b v-else v-once data-m="m1">e</b><p v-if="cF" data-m="w1">y</p><i v-else v-once data-m="m2">f</i>`}, WantOther: map[string]int{"m1": 1, "m2": 1, "w0": 0, "w1": 0}},
	{Label: "chain-head-in-loop", Files: map[string]string{"p.vuego": `<div v-for="i in items"><b v-if="cT" v-once data-m="m1">e</b><i v-else data-m="w0">z</i></div>`}, WantOther: map[string]int{"m1": 1, "w0": 0}},
	{Label: "root-template-of-component-marked", Files: map[string]string{
		"p.vuego": `<template include="c.vuego"></template><div v-for="i in items"><template include="c.vuego"></template></div><i data-m="w1"></i>`,
		"c.vuego": `<template v-once><style data-m="m1">.a{}</style><script data-m="m2">var a;</script></template>`}, WantOther: map[string]int{"m1": 1, "m2": 1, "w1": 1}},
	{Label: "page-slot-content-for-layout", Files: map[string]string{
		"p.vuego":            "---\nlayout: main\n---\n<p data-m=\"w0\">page</p><template #side><b v-once data-m=\"m1\">s1</b><b v-once data-m=\"m2\">s2</b></template>",
		"layouts/main.vuego": `<main><aside><slot name="side"></slot></aside></main>`}, WantFile: map[string]int{"m1": 1, "m2": 1, "w0": 0}},
	{Label: "page-slot-content-and-layout-elements", Files: map[string]string{
		"p.vuego":            "---\nlayout: main\n---\n<p data-m=\"w0\">page</p><template #side><b v-once data-m=\"m1\">s1</b><b v-once data-m=\"m2\">s2</b></template>",
		"layouts/main.vuego": `<main><i v-once data-m="m3">own</i><aside><slot name="side"></slot></aside><u v-once data-m="m4">own2</u></main>`}, WantFile: map[string]int{"m1": 1, "m2": 1, "m3": 1, "m4": 1, "w0": 0}},
	{Label: "page-slot-content-before-layout-elements-in-a-chain", Files: map[string]string{
		"p.vuego":             "---\nlayout: inner\n---\n<p data-m=\"w0\">page</p><template #side><b v-once data-m=\"m1\">s1</b></template>",
		"layouts/inner.vuego": "---\nlayout: outer\n---\n<section><aside><slot name=\"side\"></slot></aside><i v-once data-m=\"m2\">inner-own</i></section>",
		"layouts/outer.vuego": `<main><div v-html="content"></div><u v-once data-m="m3">outer-own</u></main>`}, WantFile: map[string]int{"m1": 1, "m2": 1, "m3": 1, "w0": 0}},
	{Label: "page-slot-content-for-layout-in-loop", Files: map[string]string{
		"p.vuego":            "---\nlayout: main\n---\n<p data-m=\"w0\">page</p><template #side><b v-once data-m=\"m1\">s1</b><i data-m=\"w1\"></i><b v-once data-m=\"m2\">s2</b></template>",
		"layouts/main.vuego": `<main><aside v-for="i in items"><slot name="side"></slot></aside></main>`}, WantFile: map[string]int{"m1": 1, "m2": 1, "w0": 0, "w1": 3}},
	{Label: "looped-marked-element-reached-first-with-nothing-to-loop-over", Files: map[string]string{"p.vuego": `<div v-for="r in rows"><b v-for="x in r" v-once data-m="m1">{{ x }}</b><i data-m="w1"></i></div>`}, WantOther: map[string]int{"m1": 1, "w1": 3}},
	{Label: "looped-marked-element-whose-items-are-all-filtered-the-first-time", Files: map[string]string{"p.vuego": `<div v-for="i in items"><template v-for="x in items"><b v-if="x < i" v-once data-m="m1">{{ x }}</b></template><i data-m="w1"></i></div>`}, WantOther: map[string]int{"m1": 1, "w1": 3}},
	{Label: "looped-marked-element-in-component-first-included-with-empty-list", Files: map[string]string{
		"p.vuego": `<template include="c.vuego" :r="empty"></template><template include="c.vuego" :r="items"></template><template include="c.vuego" :r="items"></template>`,
		"c.vuego": `<section><b v-for="x in r" v-once data-m="m1">{{ x }}</b><i data-m="w1"></i></section>`}, WantOther: map[string]int{"m1": 1, "w1": 3}},
	// the marked v-else behind a loop that has items the first time and none later: emitted once, at the first empty collection
	{Label: "else-after-loop-nonempty-first-then-empty", Files: map[string]string{"p.vuego": `<div v-for="r in rows2"><p v-for="x in r" data-m="w0">a</p><b v-else v-once data-m="m1">none</b><i data-m="w1"></i></div>`}, WantOther: map[string]int{"m1": 1, "w0": 3, "w1": 4}},
	{Label: "else-after-loop-in-component-nonempty-first-then-empty", Files: map[string]string{
		"p.vuego": `<template include="c.vuego" :r="items"></template><template include="c.vuego" :r="empty"></template><template include="c.vuego" :r="empty"></template>`,
		"c.vuego": `<section><p v-for="x in r" data-m="w0">a</p><b v-else v-once data-m="m1">none</b><i data-m="w1"></i></section>`}, WantOther: map[string]int{"m1": 1, "w0": 3, "w1": 3}},
	// v-once written on shorthand component tags of the rendered template itself: two different tags are two marked elements
	{Label: "two-shorthand-component-tags-marked", Files: map[string]string{
		"p.vuego":                          `<main><widget-scripts v-once></widget-scripts><i data-m="w1"></i><widget-styles v-once></widget-styles></main>`,
		"components/WidgetScripts.vuego": `<script data-m="m1">var w;</script>`, "components/WidgetStyles.vuego": `<style data-m="m2">.w{}</style>`}, WantOther: map[string]int{"m1": 1, "m2": 1, "w1": 1}},
	{Label: "two-shorthand-component-tags-marked-in-loop", Files: map[string]string{
		"p.vuego":                          `<div v-for="i in items"><widget-scripts v-once></widget-scripts><widget-styles v-once></widget-styles><i data-m="w1"></i></div>`,
		"components/WidgetScripts.vuego": `<script data-m="m1">var w;</script>`, "components/WidgetStyles.vuego": `<style data-m="m2">.w{}</style>`}, WantOther: map[string]int{"m1": 1, "m2": 1, "w1": 3}},
	{Label: "shorthand-and-include-spelling-of-two-components-marked", Files: map[string]string{
		"p.vuego":                          `<div v-for="i in items"><widget-scripts v-once></widget-scripts><template include="components/WidgetStyles.vuego" v-once></template><i data-m="w1"></i></div>`,
		"components/WidgetScripts.vuego": `<script data-m="m1">var w;</script>`, "components/WidgetStyles.vuego": `<style data-m="m2">.w{}</style>`}, WantOther: map[string]int{"m1": 1, "m2": 1, "w1": 3}},
}

func c16NScen() int { return len(c16Scens) }

func c16ScenData() map[string]any {
	return map[string]any{"cT": true, "cF": false, "items": []any{1, 2, 3}, "empty": []any{}, "rows": []any{[]any{}, []any{1, 2}, []any{3}}, "rows2": []any{[]any{1, 2}, []any{}, []any{3}, []any{}}}
}

func (p *c16) execScen(ctx core.Ctx, c c16Case) core.Obs {
	var o core.Obs
	s := c.Scen
	o.NT("c16-scen", mustJSON(s.Files))
	o.Cell("part/scen")
	o.Cell("scen/" + s.Label)
	body := s.Files["p.vuego"]
	if i := strings.Index(body, "\n---\n"); strings.HasPrefix(body, "---\n") && i >= 0 {
		body = body[i+5:]
	}
	type failure struct {
		entries []string
		detail  string
	}
	fails := map[string]*failure{}
	var order []string
	for _, entry := range c16Entries {
		want := s.WantOther
		if c16EntryLayouts(entry) && s.WantFile != nil {
			want = s.WantFile
		}
		if want == nil {
			continue
		}
		eng := c16NewEngine(entry, s.Files)
		var first map[string]int
		for step := 0; step < 2; step++ {
			out, err := eng.render("p.vuego", body, c16ScenData())
			o.Evals++
			o.Cell("entry/" + entry)
			add := func(defect, format string, args ...any) {
				f := fails[defect]
				if f == nil {
					f = &failure{detail: fmt.Sprintf(format, args...) + fmt.Sprintf("\nentry %s render #%d\n%sdata: %s\noutput:\n%s", entry, step+1, c16Describe(s.Files), mustJSON(c16ScenData()), clip(out, 1200))}
					fails[defect] = f
					order = append(order, defect)
				}
				f.entries = append(f.entries, entry)
			}
			if err != nil {
				add("render-error", "render failed: %v", err)
				continue
			}
			got := map[string]int{}
			for _, mk := range oracle.ParseAuto(out).AllMarkers("data-m") {
				got[mk]++
			}
			// the unmarked witnesses say whether loops, chains and slots behaved; if not, it is not a v-once matter
			witnessOK := true
			for k, n := range want {
				if strings.HasPrefix(k, "w") && got[k] != n {
					witnessOK = false
				}
			}
			if !witnessOK {
				o.Cell("not-judged/scen-witness-count-differs")
				continue
			}
			for _, k := range sortedKeys(want) {
				if !strings.HasPrefix(k, "m") {
					continue
				}
				o.Count("marked_element_observations", 1)
				switch {
				case first != nil && first[k] != got[k]:
					add("later-render-differs", "marker %s: %d occurrence(s) in the first render, %d in the second", k, first[k], got[k])
				case got[k] == want[k]:
				case got[k] == 0:
					add("missing", "marker %s reached but never emitted (expected %d); all expected %s, observed %s", k, want[k], c16Counts(want), c16Counts(got))
				case got[k] > want[k]:
					add("duplicated", "marker %s emitted %d times, expected %d; all expected %s, observed %s", k, got[k], want[k], c16Counts(want), c16Counts(got))
				default:
					add("fewer", "marker %s emitted %d times, expected %d", k, got[k], want[k])
				}
			}
			if first == nil {
				first = got
			}
		}
	}
	for _, d := range order {
		f := fails[d]
		o.Fail(c, "scen/"+s.Label+"/"+d, "%s\nentries that show it: %s", f.detail, strings.Join(f.entries, " "))
	}
	return o
}
