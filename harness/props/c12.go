package props

import (
	"bytes"
	"context"
	"encoding/json"
	"errors"
	"fmt"
	"io"
	"io/fs"
	"net"
	"net/http"
	"os"
	"strings"
	"syscall"
	"time"

	vuego "github.com/titpetric/vuego"
	"golang.org/x/net/html"

	"verifharness/core"
	"verifharness/oracle"
)

// C12 — output is all-or-nothing and writer failures are reported.
//
// Monitor: an instrumented io.Writer that logs every Write (offset, length,
// accepted bytes, injected error) handed to the real Template render entry
// points. Oracle: conservation of bytes against the document obtained from a
// run with a healthy writer, whose completeness is itself checked against the
// hand-written marker list of the program.
//
//   - render returned an error (and the writer never reported a failure) -> the writer holds 0 bytes
//   - render returned nil -> the writer reported no failure and holds exactly the complete document
//   - the writer reported a failure (any Write returned a non-nil error) -> render returned non-nil
//
// Not judged (statement is silent): which error is returned; whether a
// cancelled context / a catalogued "failing" program must fail at all; what the
// writer holds after it reported a failure itself.

type c12Fail struct {
	At       int    `json:"at,omitempty"`        // bytes accepted in total before this failure
	PerMille int    `json:"per_mille,omitempty"` // random part: At = PerMille*len(document)/1000
	Accept   string `json:"accept"`              // partial | none | all  (what the failing Write accepts)
}

type c12Case struct {
	Entry  string            `json:"entry"`            // render | renderfile | render-unloaded | string | byte | reader
	Layout string            `json:"layout,omitempty"` // none | default | explicit | chain (file entries)
	Prog   string            `json:"prog"`
	Fault  string            `json:"fault"` // none | fault class of the catalogue
	Place  string            `json:"place,omitempty"`
	Files  map[string]string `json:"files,omitempty"`
	Main   string            `json:"main,omitempty"`
	Src    string            `json:"src,omitempty"`
	Data   map[string]any    `json:"data,omitempty"`
	Want   []string          `json:"want,omitempty"` // markers the complete document must contain, in order
	NoFS   bool              `json:"nofs,omitempty"`
	RdFail int               `json:"rdfail,omitempty"` // reader entry: 0 healthy, n>0 the reader fails after n-1 bytes
	Ctx    string            `json:"ctx"`              // live | cancelled | deadline
	WMode  string            `json:"wmode"`            // partial|none|all "/" sticky|once ; "sched" for the random part
	// Offsets restricts the enumerated failure offsets (nil = every offset 0..len(document)); set on violation witnesses.
	Offsets []int `json:"offsets,omitempty"`
	// Scheds are multi-failure schedules (random part).
	Scheds [][]c12Fail `json:"scheds,omitempty"`
	Sticky bool        `json:"sticky,omitempty"`
	Rand   bool        `json:"rand,omitempty"`
	// Warm: the same engine has rendered the page once (successfully, into a healthy writer) before the judged render.
	Warm bool `json:"warm,omitempty"`
}

type c12 struct{}

func init() {
	core.Register(&c12{}, core.Meta{
		Level:      "fault_enumeration",
		Exhaustive: func(ctx core.Ctx) bool { return true },
		Assumptions: []string{
			"the document produced by the same entry point with a healthy bytes.Buffer is 'the complete document'; its completeness is checked against the hand-written marker list of each program",
			"a destination writer honours the io.Writer contract (n < len(p) implies a non-nil error); writers returning short counts without an error are not generated",
			"after the destination writer itself reported a failure the bytes it holds are not judged (a partial prefix is unavoidable)",
			"a context that is cancelled / past its deadline before the call must make the render return an error (it is among the error causes the statement lists and every entry point documents the check on entry); whether a catalogued failing program must produce an error is not judged, only that an error goes with zero bytes and nil with the complete document",
			"a fresh engine is built for every render, so cached templates of a previous (failed) render play no role",
		},
		MinNonTrivial: func(ctx core.Ctx) int { return len(c12Enum(ctx)) * 3 / 4 },
	})
}

func (p *c12) ID() string { return "C12" }
func (p *c12) Rule() string {
	return "enumerated part: every entry point (Load().Render and RenderFile with no layout / default layouts/base.vuego / explicit layout / 2-link layout chain, RenderString, RenderByte, RenderReader, Render without Load) x catalogue of succeeding programs (empty, text only, loops, include+slots, every serialiser branch, full document; thorough adds large loops) and failing programs (unknown filter, filter error, function error, unknown function placed early/late/in attribute/v-text/v-html/loop/nested loop/include/nested include/default slot/named slot/layout; unmet :required, missing include, bad front-matter, bad v-for, missing file, missing layout, cyclic layouts, no filesystem, failing io.Reader, function cancelling the context mid-evaluation) x context (live, cancelled before the call, deadline passed before the call) x for every program that returns nil: six writer behaviours (failing Write accepts a prefix / nothing / everything; failure sticky / once), each as a plain io.Writer and as a writer that also implements io.StringWriter, x EVERY failure offset 0..len(document) (quick tier, accept nothing/everything: one offset per Write call observed in the healthy run, which is every distinguishable offset); random part: seeded programs composed from the block pool with a random fault and writers with 1-3 scheduled failures; non-trivial = the case behaved as catalogued and the fault was really injected (writer reported >= 1 failure and all offsets ran; or the render returned an error; or the context was dead on entry); distinct by (entry, layout, program, context, writer mode)"
}

// ---------------------------------------------------------------------------
// catalogue

var c12Data = map[string]any{
	"title":  "T <1>",
	"v":      "good",
	"bad":    "bad",
	"t":      true,
	"f":      false,
	"items":  []any{"a", "b", "c"},
	"items2": []any{"a", "b", "bad", "c"},
	"rows":   []any{[]any{"r1a", "r1b"}, []any{"r2a", "bad"}},
	"raw":    "<b>bold</b>",
	"html":   `<x>&"'`,
}

type c12Block struct {
	tpl     string
	markers []string
}

var c12Blocks = map[string]c12Block{
	"h":     {`<h1 data-m="h">{{ title }}</h1>`, []string{"h"}},
	"loop":  {`<ul data-m="ul"><li v-for="(i, it) in items" data-m="li">{{ i }}:{{ it | boom }}</li></ul>`, []string{"ul", "li", "li", "li"}},
	"card":  {`<template include="comp/card.vuego" :x="v"><p data-m="slotp">{{ v }}</p><template #foot><i data-m="foot">F</i></template></template>`, []string{"card", "slotp", "cfoot", "foot"}},
	"if":    {`<p v-if="t" data-m="if">yes</p><p v-else data-m="else">no</p><p v-show="f" data-m="show">hidden</p>`, []string{"if", "show"}},
	"vhtml": {`<div data-m="vh" v-html="raw"></div>`, []string{"vh"}},
	"keep":  {`<template v-keep data-k="keep"><span data-m="ink">k</span></template>`, []string{"ink"}},
	"raw":   {`<style>.a > .b{color:red}</style><script>var a = 1 < 2 && true;</script>`, nil},
	"text":  {`plain text &amp; more<br>`, nil},
	"esc":   {`<p data-m="esc" title="a&quot;b">{{ html }}</p>`, []string{"esc"}},
	"thtml": {`<template v-html="raw"></template>`, nil},
	"deep":  {`<div data-m="d1"><div data-m="d2"><span data-m="d3">deep</span>tail<em></em></div></div>`, []string{"d1", "d2", "d3"}},
	"vtext": {`<p data-m="vt" v-text="html"></p>`, []string{"vt"}},
	"void":  {`<input data-m="inp" :value="v" disabled>`, []string{"inp"}},
	"req":   {`<template include="comp/req.vuego" name="nm"></template>`, []string{"req"}},
	"outer": {`<template include="comp/outer.vuego" :x="v"></template>`, []string{"outer", "leaf"}},
	"end":   {`<i data-m="END">end</i>`, []string{"END"}},
}

var c12Comps = map[string]string{
	"comp/card.vuego":  `<div data-m="card"><slot></slot><div data-m="cfoot"><slot name="foot">deffoot</slot></div></div>`,
	"comp/req.vuego":   `<template :required="name"><b data-m="req">{{ name }}</b></template>`,
	"comp/outer.vuego": `<section data-m="outer"><template include="comp/leaf.vuego" :x="x"></template></section>`,
	"comp/leaf.vuego":  `<b data-m="leaf">{{ x | boom }}</b>`,
	"comp/badfm.vuego": "---\na: [1\n---\n<p>x</p>",
}

const (
	c12LayoutBase  = "<!DOCTYPE html>\n<html><head><title>{{ title }}</title></head><body data-m=\"LB\"><main data-m=\"LM\" v-html=\"content\"></main><footer data-m=\"LEND\">foot {{ v }}</footer></body></html>"
	c12LayoutPost  = `<article data-m="LP"><header>{{ title }}</header><section data-m="LS" v-html="content"></section></article><i data-m="LPEND">pe</i>`
	c12BadFM       = "---\na: [1\n---\n"
	c12MainFile    = "pages/p.vuego"
	c12FaultMarker = `data-m="F"`
)

var c12FaultExpr = map[string]string{
	"unknown-filter": "v | nosuch",
	"filter-error":   "bad | boom",
	"func-error":     "boom(bad)",
	"unknown-func":   "nosuch(v)",
}

// c12Prog is one catalogue program before it is bound to an entry point.
type c12Prog struct {
	name   string
	fault  string // none | ...
	place  string
	body   string
	want   []string
	files  map[string]string // extra / overriding files
	pageFM string            // front-matter of the page (file entries), overrides the layout mode's own
	main   string            // overrides the main file name
	only   string            // "" | file | string | reader | layout:<mode>[,<mode>]
	noFS   bool
	rdFail int
	multi  bool // run with every writer mode (program is expected to return nil, or cancels mid-way)
	entry  string
}

func c12Body(names ...string) (string, []string) {
	var b strings.Builder
	var m []string
	for _, n := range names {
		blk := c12Blocks[n]
		b.WriteString(blk.tpl)
		m = append(m, blk.markers...)
	}
	return b.String(), m
}

var c12Std = []string{"h", "loop", "card", "deep"}

func c12Programs(ctx core.Ctx) []c12Prog {
	var ps []c12Prog
	ok := func(name string, blocks ...string) {
		b, m := c12Body(blocks...)
		ps = append(ps, c12Prog{name: name, fault: "none", body: b, want: m, multi: true})
	}
	// succeeding programs
	ps = append(ps, c12Prog{name: "empty", fault: "none", body: "", multi: true})
	ps = append(ps, c12Prog{name: "text-only", fault: "none", body: "hello world", multi: true})
	ok("tiny", "end")
	ok("small", "h", "if", "end")
	ok("loop", "loop", "end")
	ok("include-slot", "card", "req", "outer", "end")
	ok("serialiser-tour", "vhtml", "keep", "raw", "text", "esc", "thtml", "deep", "vtext", "void", "end")
	ok("full", "h", "loop", "card", "if", "vhtml", "keep", "raw", "text", "esc", "thtml", "deep", "vtext", "void", "req", "outer", "end")
	{
		b, m := c12Body("h", "loop", "raw", "end")
		ps = append(ps, c12Prog{name: "document", fault: "none", multi: true, only: "nolayout+string",
			body: "<!DOCTYPE html>\n<html><head><title>doc</title></head><body data-m=\"DB\">" + b + "</body></html>", want: append([]string{}, m...)})
	}
	if ctx.Thorough() {
		big := make([]any, 0, 120)
		for i := 0; i < 120; i++ {
			big = append(big, fmt.Sprintf("item-%03d", i))
		}
		b, m := c12Body("h")
		b += `<ul data-m="ul"><li v-for="it in big" data-m="li">{{ it | boom }}</li></ul>`
		m = append(m, "ul")
		for range big {
			m = append(m, "li")
		}
		e, em := c12Body("card", "end")
		ps = append(ps, c12Prog{name: "big-loop", fault: "none", multi: true, body: b + e, want: append(m, em...), files: map[string]string{"__data__big": mustJSON(big)}})
	}

	std, stdM := c12Body(c12Std...)
	_ = stdM
	fail := func(name, fault, place, body string, files map[string]string) {
		ps = append(ps, c12Prog{name: name, fault: fault, place: place, body: body, files: files})
	}
	// expression-level faults
	for _, f := range []string{"unknown-filter", "filter-error", "func-error", "unknown-func"} {
		e := c12FaultExpr[f]
		fail(f+"@early", f, "early", `<p `+c12FaultMarker+`>{{ `+e+` }}</p>`+std, nil)
		fail(f+"@late", f, "late", std+`<p `+c12FaultMarker+`>{{ `+e+` }}</p>`, nil)
	}
	for _, f := range []string{"filter-error", "unknown-filter"} {
		e := c12FaultExpr[f]
		fail(f+"@include", f, "include", std+`<template include="comp/f.vuego"></template>`, map[string]string{"comp/f.vuego": `<b data-m="cf">ok</b><b ` + c12FaultMarker + `>{{ ` + e + ` }}</b>`})
		fail(f+"@slot", f, "slot", std+`<template include="comp/card.vuego"><p `+c12FaultMarker+`>{{ `+e+` }}</p></template>`, nil)
		fail(f+"@loop", f, "loop", std+`<ul><li v-for="it in items2" data-m="li2"><span v-if="it == 'bad'">{{ `+e+` }}</span><span v-else>{{ it }}</span></li></ul>`, nil)
	}
	{
		e := c12FaultExpr["filter-error"]
		fail("filter-error@attr", "filter-error", "attr", std+`<p `+c12FaultMarker+` :title="`+e+`">x</p>`, nil)
		fail("filter-error@v-text", "filter-error", "v-text", std+`<p `+c12FaultMarker+` v-text="`+e+`">x</p>`, nil)
		fail("filter-error@v-html", "filter-error", "v-html", std+`<p `+c12FaultMarker+` v-html="`+e+`">x</p>`, nil)
		fail("filter-error@loop-value", "filter-error", "loop", std+`<ul><li v-for="it in items2" data-m="li2">{{ it | boom }}</li></ul>`, nil)
		fail("filter-error@nested-loop", "filter-error", "nested-loop", std+`<table><tr v-for="row in rows"><td v-for="cell in row">{{ cell | boom }}</td></tr></table>`, nil)
		fail("filter-error@nested-include", "filter-error", "nested-include", std+`<template include="comp/outer.vuego" :x="bad"></template>`, nil)
		fail("filter-error@named-slot", "filter-error", "named-slot", std+`<template include="comp/card.vuego"><p>d</p><template #foot><i>{{ `+e+` }}</i></template></template>`, nil)
		fail("filter-error@include-in-loop", "filter-error", "include-in-loop", std+`<div v-for="it in items2"><template include="comp/leaf.vuego" :x="it"></template></div>`, nil)
	}
	// structural faults
	fail("required@early", "required", "early", `<template include="comp/req.vuego"></template>`+std, nil)
	fail("required@late", "required", "late", std+`<template include="comp/req.vuego"></template>`, nil)
	fail("required@nested-include", "required", "nested-include", std+`<template include="comp/o2.vuego"></template>`, map[string]string{"comp/o2.vuego": `<section><p>before</p><template include="comp/req.vuego"></template></section>`})
	fail("required@loop", "required", "loop", std+`<div v-for="it in items"><template include="comp/req.vuego"></template></div>`, nil)
	fail("missing-include@early", "missing-include", "early", `<template include="comp/nope.vuego"></template>`+std, nil)
	fail("missing-include@late", "missing-include", "late", std+`<template include="comp/nope.vuego"></template>`, nil)
	fail("missing-include@nested-include", "missing-include", "nested-include", std+`<template include="comp/o3.vuego"></template>`, map[string]string{"comp/o3.vuego": `<section><p>before</p><template include="comp/nope.vuego"></template></section>`})
	fail("bad-frontmatter@include", "bad-frontmatter", "include", std+`<template include="comp/badfm.vuego"></template>`, nil)
	fail("bad-v-for@early", "bad-v-for", "early", `<p v-for="garbage">x</p>`+std, nil)
	fail("bad-v-for@late", "bad-v-for", "late", std+`<p v-for="garbage">x</p>`, nil)
	fail("bad-v-for@include", "bad-v-for", "include", std+`<template include="comp/bv.vuego"></template>`, map[string]string{"comp/bv.vuego": `<p>ok</p><p v-for="a b c">x</p>`})

	// a registered NodeProcessor fails before / after evaluation
	fail("processor-pre@late", "processor-error", "pre-process", std+`<c12pre></c12pre>`, nil)
	fail("processor-post@loop", "processor-error", "post-process", std+`<ul><li v-for="it in items2" :data-x="it">{{ it }}</li></ul>`, nil)
	fail("processor-post@include", "processor-error", "post-process-include", std+`<template include="comp/px.vuego" :x="bad"></template>`, map[string]string{"comp/px.vuego": `<b :data-x="x">p</b>`})

	// file entries only
	ps = append(ps, c12Prog{name: "missing-file", fault: "missing-file", place: "main", body: std, main: "pages/nope.vuego", only: "file"})
	ps = append(ps, c12Prog{name: "bad-frontmatter@main", fault: "bad-frontmatter", place: "main", body: std, pageFM: c12BadFM, only: "file"})
	ps = append(ps, c12Prog{name: "no-filesystem", fault: "no-fs", place: "main", body: std, noFS: true, only: "nolayout"})
	ps = append(ps, c12Prog{name: "not-loaded", fault: "not-loaded", place: "main", body: std, only: "nolayout", entry: "render-unloaded"})

	// layout faults
	lf := `<p ` + c12FaultMarker + `>{{ bad | boom }}</p>`
	ps = append(ps, c12Prog{name: "missing-layout", fault: "missing-layout", place: "layout", body: std, pageFM: "---\nlayout: nope\n---\n", only: "layout:explicit"})
	ps = append(ps, c12Prog{name: "missing-layout@second-link", fault: "missing-layout", place: "layout-chain", body: std, only: "layout:chain",
		files: map[string]string{"layouts/post.vuego": "---\nlayout: nope2\n---\n" + c12LayoutPost}})
	ps = append(ps, c12Prog{name: "bad-frontmatter@layout", fault: "bad-frontmatter", place: "layout", body: std, only: "layout:explicit,chain",
		files: map[string]string{"layouts/post.vuego": c12BadFM + c12LayoutPost}})
	ps = append(ps, c12Prog{name: "bad-frontmatter@last-layout", fault: "bad-frontmatter", place: "layout-chain", body: std, only: "layout:default,chain",
		files: map[string]string{"layouts/base.vuego": c12BadFM + c12LayoutBase}})
	ps = append(ps, c12Prog{name: "filter-error@layout", fault: "filter-error", place: "layout", body: std, only: "layout:explicit,chain",
		files: map[string]string{"layouts/post.vuego": c12LayoutPost + lf}})
	ps = append(ps, c12Prog{name: "filter-error@last-layout", fault: "filter-error", place: "layout-chain", body: std, only: "layout:default,chain",
		files: map[string]string{"layouts/base.vuego": strings.Replace(c12LayoutBase, "<footer", lf+"<footer", 1)}})
	ps = append(ps, c12Prog{name: "missing-include@last-layout", fault: "missing-include", place: "layout-chain", body: std, only: "layout:default,chain",
		files: map[string]string{"layouts/base.vuego": strings.Replace(c12LayoutBase, "<footer", `<template include="comp/nope.vuego"></template><footer`, 1)}})
	ps = append(ps, c12Prog{name: "layout-cycle", fault: "layout-cycle", place: "layout-chain", body: std, only: "layout:explicit",
		files: map[string]string{"layouts/post.vuego": "---\nlayout: post2\n---\n" + c12LayoutPost, "layouts/post2.vuego": "---\nlayout: post\n---\n<div v-html=\"content\"></div>"}})

	ps = append(ps, c12Prog{name: "processor-post@last-layout", fault: "processor-error", place: "layout-chain", body: std, only: "layout:default,chain",
		files: map[string]string{"layouts/base.vuego": strings.Replace(c12LayoutBase, "<footer", `<b :data-x="bad">p</b><footer`, 1)}})

	// failing io.Reader
	for _, at := range []int{0, 1, 40, len(std) - 1} {
		ps = append(ps, c12Prog{name: fmt.Sprintf("reader-fails@%s", c12RdClass(at, len(std))), fault: "reader", place: "reader", body: std, rdFail: at + 1, only: "reader"})
	}

	// a template function cancels the context while the template is evaluated
	mc := `<p data-m="mc">{{ v | cancelNow }}</p>`
	b, m := c12Body("h", "loop", "end")
	ps = append(ps, c12Prog{name: "midcancel@early", fault: "midcancel", place: "early", body: mc + b, want: append([]string{"mc"}, m...), multi: true})
	ps = append(ps, c12Prog{name: "midcancel@late", fault: "midcancel", place: "late", body: b + mc, want: append(append([]string{}, m...), "mc"), multi: true})
	ps = append(ps, c12Prog{name: "midcancel@include", fault: "midcancel", place: "include", body: b + `<template include="comp/mc.vuego"></template>`, want: append(append([]string{}, m...), "mc"), multi: true,
		files: map[string]string{"comp/mc.vuego": mc}})
	ps = append(ps, c12Prog{name: "midcancel@first-layout", fault: "midcancel", place: "layout", body: b, want: m, multi: true, only: "layout:explicit,chain",
		files: map[string]string{"layouts/post.vuego": c12LayoutPost + mc}})
	ps = append(ps, c12Prog{name: "midcancel@last-layout", fault: "midcancel", place: "layout-chain", body: b, want: m, multi: true, only: "layout:default,chain",
		files: map[string]string{"layouts/base.vuego": strings.Replace(c12LayoutBase, "<footer", mc+"<footer", 1)}})
	return ps
}

func c12RdClass(at, n int) string {
	switch {
	case at == 0:
		return "start"
	case at == 1:
		return "first-byte"
	case at >= n-1:
		return "last-byte"
	}
	return "middle"
}

var c12WModes = []string{"partial/sticky", "none/sticky", "all/sticky", "partial/once", "none/once", "all/once"}

type c12EP struct{ entry, layout string }

var c12EPs = []c12EP{
	{"render", "none"}, {"render", "default"}, {"render", "explicit"}, {"render", "chain"},
	{"renderfile", "none"}, {"renderfile", "default"}, {"renderfile", "explicit"}, {"renderfile", "chain"},
	{"string", ""}, {"byte", ""}, {"reader", ""},
}

// c12Bind binds a program to an entry point; ok=false if the combination does not exist.
func c12Bind(p c12Prog, ep c12EP) (c12Case, bool) {
	file := ep.layout != ""
	switch {
	case p.only == "":
	case p.only == "file":
		if !file {
			return c12Case{}, false
		}
	case p.only == "nolayout":
		if ep.layout != "none" {
			return c12Case{}, false
		}
	case p.only == "nolayout+string":
		if file && ep.layout != "none" {
			return c12Case{}, false
		}
	case p.only == "reader":
		if ep.entry != "reader" {
			return c12Case{}, false
		}
	case strings.HasPrefix(p.only, "layout:"):
		found := false
		for _, m := range strings.Split(strings.TrimPrefix(p.only, "layout:"), ",") {
			if m == ep.layout {
				found = true
			}
		}
		if !found {
			return c12Case{}, false
		}
	}
	c := c12Case{Entry: ep.entry, Layout: ep.layout, Prog: p.name, Fault: p.fault, Place: p.place, NoFS: p.noFS, RdFail: p.rdFail, Ctx: "live", WMode: c12WModes[0]}
	if p.entry != "" {
		if ep.entry != "render" {
			return c12Case{}, false
		}
		c.Entry = p.entry
	}
	c.Data = map[string]any{}
	for k, v := range c12Data {
		c.Data[k] = v
	}
	c.Files = map[string]string{}
	for k, v := range c12Comps {
		c.Files[k] = v
	}
	var want []string
	if file {
		fm := ""
		switch ep.layout {
		case "default":
			c.Files["layouts/base.vuego"] = c12LayoutBase
			want = append(append([]string{"LB", "LM"}, p.want...), "LEND")
		case "explicit":
			fm = "---\nlayout: post\n---\n"
			c.Files["layouts/post.vuego"] = c12LayoutPost
			want = append(append([]string{"LP", "LS"}, p.want...), "LPEND")
		case "chain":
			fm = "---\nlayout: post\n---\n"
			c.Files["layouts/post.vuego"] = "---\nlayout: base\n---\n" + c12LayoutPost
			c.Files["layouts/base.vuego"] = c12LayoutBase
			want = append(append([]string{"LB", "LM", "LP", "LS"}, p.want...), "LPEND", "LEND")
		default:
			want = p.want
		}
		if p.pageFM != "" {
			fm = p.pageFM
		}
		c.Files[c12MainFile] = fm + p.body
		c.Main = c12MainFile
		if p.main != "" {
			c.Main = p.main
		}
	} else {
		c.Src = p.body
		want = p.want
	}
	for k, v := range p.files {
		if k == "__data__big" {
			var big []any
			_ = json.Unmarshal([]byte(v), &big)
			c.Data["big"] = big
			continue
		}
		if ep.layout == "chain" && k == "layouts/post.vuego" && !strings.HasPrefix(v, "---") {
			v = "---\nlayout: base\n---\n" + v // keep the chain going through the overridden link
		}
		c.Files[k] = v
	}
	if p.fault == "none" || p.fault == "midcancel" {
		c.Want = want
	} else if file {
		// a catalogued failing program that returns nil all the same has still to
		// deliver a complete document: at least the static frame of the outermost layout
		switch ep.layout {
		case "default", "chain":
			c.Want = []string{"LB", "LM", "LEND"}
		case "explicit":
			c.Want = []string{"LP", "LS", "LPEND"}
		}
	}
	return c, true
}

type c12Key struct {
	tier string
}

var c12EnumCache = map[c12Key][]c12Case{}

// c12Enum is the enumerated case list of a tier (independent of the seed).
func c12Enum(ctx core.Ctx) []c12Case {
	k := c12Key{ctx.Tier}
	if l, ok := c12EnumCache[k]; ok {
		return l
	}
	var out []c12Case
	for _, p := range c12Programs(ctx) {
		for _, ep := range c12EPs {
			c, ok := c12Bind(p, ep)
			if !ok {
				continue
			}
			if p.multi {
				for _, wm := range c12WModes {
					cc := c
					cc.WMode = wm
					out = append(out, cc)
					if (c.Entry == "render" || c.Entry == "renderfile") && strings.HasSuffix(wm, "once") {
						cc.Warm = true // warm template cache, transient writer failure
						out = append(out, cc)
					}
				}
			} else {
				out = append(out, c)
			}
			for _, cm := range []string{"cancelled", "deadline"} {
				cc := c
				cc.Ctx = cm
				out = append(out, cc)
			}
		}
	}
	c12EnumCache[k] = out
	return out
}

func (p *c12) nRand(ctx core.Ctx) int { return ctx.Pick(320, 3200) }

func (p *c12) Plan(ctx core.Ctx) int { return len(c12Enum(ctx)) + p.nRand(ctx) }

func (p *c12) Gen(ctx core.Ctx, i int) any {
	enum := c12Enum(ctx)
	if i < 0 {
		return c12Case{}
	}
	if i < len(enum) {
		return enum[i]
	}
	return c12GenRand(ctx, i-len(enum))
}

var c12PoolBlocks = []string{"h", "loop", "card", "if", "vhtml", "keep", "raw", "text", "esc", "thtml", "deep", "vtext", "void", "req", "outer"}

func c12GenRand(ctx core.Ctx, j int) c12Case {
	r := core.NewRNG(ctx.Seed, 0xC12, uint64(j))
	n := 1 + r.Intn(6)
	var names []string
	for k := 0; k < n; k++ {
		names = append(names, core.Pick(r, c12PoolBlocks))
	}
	names = append(names, "end")
	var parts []string
	var want []string
	for _, nm := range names {
		parts = append(parts, c12Blocks[nm].tpl)
		want = append(want, c12Blocks[nm].markers...)
	}
	prog := c12Prog{name: "rand:" + strings.Join(names, "+"), fault: "none", multi: true}
	if r.Chance(2, 5) {
		// inject a fault at a random position between blocks
		faults := []struct{ fault, place, tpl string }{
			{"filter-error", "text", `<p ` + c12FaultMarker + `>{{ bad | boom }}</p>`},
			{"unknown-filter", "text", `<p ` + c12FaultMarker + `>{{ v | nosuch }}</p>`},
			{"func-error", "attr", `<p ` + c12FaultMarker + ` :title="boom(bad)">x</p>`},
			{"filter-error", "loop", `<ul><li v-for="it in items2">{{ it | boom }}</li></ul>`},
			{"filter-error", "nested-include", `<template include="comp/outer.vuego" :x="bad"></template>`},
			{"filter-error", "slot", `<template include="comp/card.vuego"><p>{{ bad | boom }}</p></template>`},
			{"required", "include", `<template include="comp/req.vuego"></template>`},
			{"missing-include", "include", `<template include="comp/nope.vuego"></template>`},
			{"bad-frontmatter", "include", `<template include="comp/badfm.vuego"></template>`},
			{"bad-v-for", "element", `<p v-for="garbage">x</p>`},
			{"midcancel", "text", `<p data-m="mc">{{ v | cancelNow }}</p>`},
		}
		f := core.Pick(r, faults)
		pos := r.Intn(len(parts) + 1)
		parts = append(parts[:pos], append([]string{f.tpl}, parts[pos:]...)...)
		prog.fault, prog.place = f.fault, f.place
		prog.name += fmt.Sprintf("!%s", f.fault)
		if f.fault != "midcancel" {
			prog.multi = false
			want = nil
		}
	}
	prog.body = strings.Join(parts, "")
	prog.want = want
	ep := core.Pick(r, c12EPs)
	c, _ := c12Bind(prog, ep)
	c.Rand = true
	c.WMode = "sched"
	c.Sticky = r.Bool()
	if r.Chance(1, 8) {
		c.Ctx = core.Pick(r, []string{"cancelled", "deadline"})
	}
	for s := 0; s < 8; s++ {
		var sch []c12Fail
		nf := 1 + r.Intn(3)
		for k := 0; k < nf; k++ {
			sch = append(sch, c12Fail{PerMille: r.Intn(1001), Accept: core.Pick(r, []string{"partial", "none", "all"})})
		}
		// sort by position
		for a := 0; a < len(sch); a++ {
			for b := a + 1; b < len(sch); b++ {
				if sch[b].PerMille < sch[a].PerMille {
					sch[a], sch[b] = sch[b], sch[a]
				}
			}
		}
		c.Scheds = append(c.Scheds, sch)
	}
	return c
}

func (p *c12) Decode(raw json.RawMessage) (any, error) { return core.JSONDecode[c12Case](raw) }

// ---------------------------------------------------------------------------
// instrumented writer / reader

var c12ErrInjected = errors.New("c12: injected writer failure")
var c12ErrReader = errors.New("c12: injected reader failure")

type c12WLog struct {
	Off, Len, N int
	Err         bool
}

type c12Writer struct {
	sched    []c12Fail
	sticky   bool
	next     int
	tripped  bool
	got      []byte
	log      []c12WLog
	reported int // Writes that returned a non-nil error
	fail     error // what a failing Write returns (nil: c12ErrInjected)
}

// c12ErrKinds are the identities a destination's failure has in practice: a hung-up client, a closed pipe or file, a
// cancelled request, a full disk. The statement makes no exception for any of them.
var c12ErrKinds = []error{
	io.ErrClosedPipe, syscall.EPIPE, syscall.ECONNRESET, &net.OpError{Op: "write", Net: "tcp", Err: os.NewSyscallError("write", syscall.EPIPE)},
	os.ErrClosed, context.Canceled, context.DeadlineExceeded, io.EOF, io.ErrUnexpectedEOF, io.ErrShortWrite, syscall.ENOSPC,
	&fs.PathError{Op: "write", Path: "out.html", Err: syscall.EIO}, http.ErrHandlerTimeout, http.ErrAbortHandler,
}

func (w *c12Writer) failure() error {
	if w.fail != nil {
		return w.fail
	}
	return c12ErrInjected
}

func (w *c12Writer) Write(p []byte) (int, error) {
	off := len(w.got)
	if w.tripped && w.sticky {
		w.log = append(w.log, c12WLog{off, len(p), 0, true})
		w.reported++
		return 0, w.failure()
	}
	if w.next < len(w.sched) && off+len(p) > w.sched[w.next].At {
		f := w.sched[w.next]
		w.next++
		n := 0
		switch f.Accept {
		case "partial":
			n = f.At - off
			if n < 0 {
				n = 0
			}
		case "all":
			n = len(p)
		}
		w.got = append(w.got, p[:n]...)
		for w.next < len(w.sched) && w.sched[w.next].At < len(w.got) {
			w.next++
		}
		w.tripped = true
		w.reported++
		w.log = append(w.log, c12WLog{off, len(p), n, true})
		return n, w.failure()
	}
	w.got = append(w.got, p...)
	w.log = append(w.log, c12WLog{off, len(p), len(p), false})
	return len(p), nil
}

// c12StringWriter is the same destination with a WriteString method of its own.
type c12StringWriter struct{ *c12Writer }

func (w c12StringWriter) WriteString(s string) (int, error) { return w.c12Writer.Write([]byte(s)) }

func (w *c12Writer) logString() string {
	var b strings.Builder
	for i, e := range w.log {
		if i >= 12 {
			fmt.Fprintf(&b, " …(%d writes)", len(w.log))
			break
		}
		fmt.Fprintf(&b, " [off=%d len=%d n=%d err=%v]", e.Off, e.Len, e.N, e.Err)
	}
	return b.String()
}

type c12Reader struct {
	data []byte
	fail int // bytes delivered before failing; <0 healthy
	pos  int
}

func (r *c12Reader) Read(p []byte) (int, error) {
	if r.fail >= 0 && r.pos >= r.fail {
		return 0, c12ErrReader
	}
	if r.pos >= len(r.data) {
		return 0, io.EOF
	}
	end := len(r.data)
	if r.fail >= 0 && end > r.fail {
		end = r.fail
	}
	n := copy(p, r.data[r.pos:end])
	r.pos += n
	return n, nil
}

func c12Boom(v any) (string, error) {
	s := fmt.Sprint(v)
	if s == "bad" {
		return "", errors.New("c12: boom")
	}
	return "ok:" + s, nil
}

// c12Proc is a NodeProcessor that fails before evaluation when the source holds
// a <c12pre> element and after evaluation when an element carries data-x="bad".
type c12Proc struct{}

var c12ErrProc = errors.New("c12: node processor failure")

func (c12Proc) New() vuego.NodeProcessor { return c12Proc{} }

func c12AnyNode(nodes []*html.Node, pred func(*html.Node) bool) bool {
	var walk func(n *html.Node) bool
	walk = func(n *html.Node) bool {
		if n == nil {
			return false
		}
		if pred(n) {
			return true
		}
		for c := n.FirstChild; c != nil; c = c.NextSibling {
			if walk(c) {
				return true
			}
		}
		return false
	}
	for _, n := range nodes {
		if walk(n) {
			return true
		}
	}
	return false
}

func (c12Proc) PreProcess(nodes []*html.Node) error {
	if c12AnyNode(nodes, func(n *html.Node) bool { return n.Type == html.ElementNode && n.Data == "c12pre" }) {
		return c12ErrProc
	}
	return nil
}

func (c12Proc) PostProcess(nodes []*html.Node) error {
	if c12AnyNode(nodes, func(n *html.Node) bool {
		if n.Type != html.ElementNode {
			return false
		}
		for _, a := range n.Attr {
			if a.Key == "data-x" && a.Val == "bad" {
				return true
			}
		}
		return false
	}) {
		return c12ErrProc
	}
	return nil
}

type c12Res struct {
	err    error
	ctxErr error // state of the context when the call returned
}

// c12Do runs the case's program once through its entry point on a fresh engine.
func c12Do(c c12Case, ctxMode string, w io.Writer) c12Res {
	var cctx context.Context
	var cancel context.CancelFunc
	switch ctxMode {
	case "cancelled":
		cctx, cancel = context.WithCancel(bg)
		cancel()
	case "deadline":
		cctx, cancel = context.WithDeadline(bg, time.Unix(1, 0))
	default:
		cctx, cancel = context.WithCancel(bg)
	}
	defer cancel()
	cancelNow := cancel
	funcs := vuego.FuncMap{
		"boom":      c12Boom,
		"cancelNow": func(v any) (any, error) { cancelNow(); return v, nil },
	}
	opts := []vuego.LoadOption{vuego.WithFuncs(funcs), vuego.WithProcessor(c12Proc{})}
	var base vuego.Template
	var fsys fs.FS
	if !c.NoFS {
		fsys = memFS(c.Files)
	}
	switch {
	case c.NoFS:
		base = vuego.New(opts...)
	case c.Layout == "":
		base = vuego.New(append(opts, vuego.WithFS(fsys))...)
	default:
		base = vuego.NewFS(fsys, opts...)
	}
	var err error
	if c.Warm && (c.Entry == "render" || c.Entry == "renderfile") {
		// one earlier render of the same page on the same engine, into a healthy writer
		cancelNow = func() {}
		_ = base.Load(c.Main).Fill(c.Data).Render(bg, io.Discard)
		cancelNow = cancel
	}
	switch c.Entry {
	case "render":
		err = base.Load(c.Main).Fill(c.Data).Render(cctx, w)
	case "render-unloaded":
		err = base.Fill(c.Data).Render(cctx, w)
	case "renderfile":
		err = base.Fill(c.Data).RenderFile(cctx, w, c.Main)
	case "string":
		err = base.Fill(c.Data).RenderString(cctx, w, c.Src)
	case "byte":
		err = base.Fill(c.Data).RenderByte(cctx, w, []byte(c.Src))
	case "reader":
		err = base.Fill(c.Data).RenderReader(cctx, w, &c12Reader{data: []byte(c.Src), fail: c.RdFail - 1})
	default:
		err = fmt.Errorf("c12: unknown entry %q", c.Entry)
	}
	return c12Res{err: err, ctxErr: cctx.Err()}
}

// c12Path is the implementation path class of an entry point (for signatures).
func c12Path(c c12Case) string {
	switch {
	case c.Layout == "":
		return "buffered" // RenderString -> RenderByte -> RenderReader share one implementation
	case c.Layout == "none":
		return "file-direct"
	}
	return "file-layout"
}

func c12Cause(c c12Case, ctxMode string) string {
	if ctxMode != "live" {
		return "ctx-" + ctxMode
	}
	switch c.Fault {
	case "none":
		return "unexpected-error"
	case "midcancel":
		return "ctx-cancelled-during-evaluation"
	case "reader":
		return "reader-error"
	case "missing-file", "no-fs", "not-loaded", "missing-layout", "layout-cycle":
		return "load-error"
	case "bad-frontmatter":
		if c.Place == "include" {
			return "evaluation-error"
		}
		return "load-error"
	}
	return "evaluation-error"
}

type c12Ref struct {
	out []byte
	err error
}

func (p *c12) Exec(ctx core.Ctx, cc any) core.Obs {
	o := p.exec(ctx, cc.(c12Case))
	o.Viol = c12Dedup(o.Viol) // one witness per signature and case
	return o
}

func (p *c12) exec(ctx core.Ctx, c c12Case) core.Obs {
	var o core.Obs
	if c.Entry == "" {
		return o
	}
	path := c12Path(c)
	epCell := c.Entry
	if c.Layout != "" {
		epCell += "/" + c.Layout
	}

	// reference: healthy plain buffer, live context
	var rb bytes.Buffer
	rres := c12Do(c, "live", &rb)
	o.Evals++
	ref := c12Ref{out: append([]byte{}, rb.Bytes()...), err: rres.err}
	catalogued := true
	progClass := c.Fault
	if c.Place != "" {
		progClass += "@" + c.Place
	}
	switch {
	case c.Fault == "none" && ref.err != nil:
		catalogued = false
		o.Cell("catalogue/expected-success-returned-error (not judged)")
	case c.Fault != "none" && c.Fault != "midcancel" && ref.err == nil:
		catalogued = false
		o.Cell("catalogue/expected-failure-returned-nil (not judged)/" + progClass)
	}
	if ref.err == nil {
		o.Cell("program/" + progClass + "/returns-nil")
		// the reference must itself be the complete document: every marker of the program, in order
		if len(c.Want) > 0 {
			got := oracle.ParseAuto(string(ref.out)).AllMarkers("data-m")
			if miss := c12Subseq(c.Want, got); miss != "" {
				o.Fail(c, "nil-but-incomplete/"+path+"/healthy-writer-marker-missing",
					"render returned nil with a healthy writer but the document lacks marker %q (want in order %v, got %v)\n%s\noutput: %q", miss, c.Want, got, c12Describe(c), clip(string(ref.out), 600))
			}
		}
	} else {
		o.Cell("program/" + progClass + "/returns-error")
		if len(ref.out) > 0 {
			o.Fail(c, "partial-output-on-error/"+path+"/"+c12Cause(c, "live"),
				"render returned error %q but a healthy bytes.Buffer received %d bytes: %q\n%s", errStr(ref.err), len(ref.out), clip(string(ref.out), 300), c12Describe(c))
		}
	}
	if c.Fault == "midcancel" {
		if rres.ctxErr != nil {
			o.Cell("midcancel/context-cancelled-by-template-function/" + path + "/" + c12NilErr(ref.err))
		} else {
			catalogued = false
			o.Cell("midcancel/function-did-not-run (not judged)")
		}
	}

	judge := func(ctxMode string, w *c12Writer, res c12Res, what string, wit c12Case) {
		rep := w.reported > 0
		switch {
		case res.err == nil && rep:
			st := "once"
			if w.sticky {
				st = "sticky"
			}
			o.Fail(wit, "writer-error-swallowed/"+path+"/"+st,
				"%s: the destination writer returned an error from %d Write call(s) but the render returned nil\nwriter log:%s\nbytes held: %d of %d\n%s", what, w.reported, w.logString(), len(w.got), len(ref.out), c12Describe(c))
		case res.err == nil:
			if ref.err != nil {
				o.Cell("not-judged/nil-here-but-error-in-reference-run")
				return
			}
			if !bytes.Equal(w.got, ref.out) {
				kind := "different"
				if len(w.got) < len(ref.out) && bytes.HasPrefix(ref.out, w.got) {
					kind = "truncated"
				}
				o.Fail(wit, "nil-but-incomplete/"+path+"/"+kind,
					"%s: render returned nil, the writer reported no failure, but it holds %d bytes while the complete document has %d\nwriter log:%s\nheld: %q\nwant: %q\n%s", what, len(w.got), len(ref.out), w.logString(), clip(string(w.got), 300), clip(string(ref.out), 300), c12Describe(c))
			}
		case !rep:
			if len(w.got) > 0 {
				o.Fail(wit, "partial-output-on-error/"+path+"/"+c12Cause(c, ctxMode),
					"%s: render returned error %q (the writer never failed) but the writer received %d bytes in %d Write call(s): %q\nwriter log:%s\n%s", what, errStr(res.err), len(w.got), len(w.log), clip(string(w.got), 300), w.logString(), c12Describe(c))
			} else if len(w.log) > 0 {
				o.Cell("observed/zero-length-writes-on-error")
			}
		default:
			if errors.Is(res.err, w.failure()) {
				o.Cell("writer-failure-reported/" + path + "/error-wraps-writer-error")
			} else {
				o.Cell("writer-failure-reported/" + path + "/other-error")
			}
		}
	}

	// instrumented healthy writer under the case's context
	hw := &c12Writer{}
	hres := c12Do(c, c.Ctx, hw)
	o.Evals++
	judge(c.Ctx, hw, hres, "healthy instrumented writer, context "+c.Ctx, c)
	o.Count("writes_seen_healthy", int64(len(hw.log)))
	if len(hw.log) > 1 {
		o.Cell("entry/" + epCell + "/chunked-writes")
	} else if len(hw.log) == 1 {
		o.Cell("entry/" + epCell + "/single-write")
	} else {
		o.Cell("entry/" + epCell + "/no-write")
	}

	if c.Ctx != "live" {
		o.Cell("ctx/" + c.Ctx + "/" + path + "/returned-" + c12NilErr(hres.err))
		if hres.err == nil {
			// "cancelled context" is one of the causes of an error the statement lists, and every
			// entry point documents the check on entry: a context that is dead before the call must
			// not produce a document
			catalogued = false
			o.Fail(c, "dead-context-but-rendered/"+path+"/"+c.Ctx, "the context was %s before the call, the render returned nil and wrote %d bytes\n%s", c.Ctx, len(hw.got), c12Describe(c))
		}
		// dead context and a writer that fails on the first byte
		fw := &c12Writer{sched: []c12Fail{{At: 0, Accept: "none"}}, sticky: true}
		fres := c12Do(c, c.Ctx, fw)
		o.Evals++
		judge(c.Ctx, fw, fres, "writer failing at offset 0, context "+c.Ctx, c)
		if catalogued {
			o.NT(c.Entry, c.Layout, c.Prog, c.Ctx, c.WMode)
		}
		return o
	}

	if ref.err != nil || hres.err != nil {
		// failing program under a live context: all-or-nothing was judged above
		if catalogued && !c.Rand {
			o.NT(c.Entry, c.Layout, c.Prog, c.Ctx, c.WMode)
		}
		if c.Rand && catalogued {
			o.NT("rand", mustJSON(c))
		}
		return o
	}

	// program returns nil: enumerate writer failures
	L := len(ref.out)
	if c.Rand {
		injected := 0
		for si, sch := range c.Scheds {
			s := make([]c12Fail, len(sch))
			for k, f := range sch {
				s[k] = c12Fail{At: f.PerMille * L / 1000, Accept: f.Accept}
			}
			w := &c12Writer{sched: s, sticky: c.Sticky}
			res := c12Do(c, "live", w)
			o.Evals++
			wit := c
			wit.Scheds = [][]c12Fail{sch}
			judge("live", w, res, fmt.Sprintf("schedule #%d %v sticky=%v", si, s, c.Sticky), wit)
			if w.reported > 0 {
				injected++
				o.Cell(fmt.Sprintf("rand/failures-reported-in-one-render/%s", c12Bucket(w.reported)))
			} else {
				o.Cell("rand/schedule-without-failure")
			}
		}
		if injected > 0 {
			o.NT("rand", mustJSON(c))
		}
		o.Cell("rand/" + path)
		return o
	}

	parts := strings.SplitN(c.WMode, "/", 2)
	accept, sticky := parts[0], len(parts) > 1 && parts[1] == "sticky"
	offs := c.Offsets
	all := offs == nil
	if all && !ctx.Thorough() && accept != "partial" {
		// A failing Write that accepts nothing / everything behaves identically for every
		// offset inside the same Write call, so one representative per observed Write of the
		// (deterministic) healthy run covers every offset; the thorough tier runs them all.
		for _, e := range hw.log {
			if e.Len > 0 {
				offs = append(offs, e.Off)
			}
		}
		offs = append(offs, L)
		o.Cell("offsets/one-per-observed-write (accept " + accept + ")")
	} else if all {
		offs = make([]int, 0, L+1)
		for k := 0; k <= L; k++ {
			offs = append(offs, k)
		}
		o.Cell("offsets/every-byte-offset (accept " + accept + ")")
	}
	below := 0
	for _, k := range offs {
		if k < L {
			below++
		}
	}
	injected := 0
	for oi, k := range offs {
		w := &c12Writer{sched: []c12Fail{{At: k, Accept: accept}}, sticky: sticky}
		res := c12Do(c, "live", w)
		o.Evals++
		if w.reported > 0 {
			injected++
		}
		wit := c
		wit.Offsets = []int{k}
		judge("live", w, res, fmt.Sprintf("writer failing at offset %d of %d (%s)", k, L, c.WMode), wit)
		// the same failing destination, this time one that also implements io.StringWriter
		// (*os.File, *bufio.Writer, an http.ResponseWriter do): its failures count as well
		// and whose failure is one of the errors real destinations give (rotating with the offset)
		kinds := c12ErrKinds[(oi+len(path))%len(c12ErrKinds):][:1]
		if oi == 0 {
			kinds = c12ErrKinds // every identity at the first offset, one (rotating) at each of the others
		}
		for _, kind := range kinds {
			ws := &c12Writer{sched: []c12Fail{{At: k, Accept: accept}}, sticky: sticky, fail: kind}
			res = c12Do(c, "live", c12StringWriter{ws})
			o.Evals++
			o.Cell(fmt.Sprintf("writer-error-identity/%T/%s", kind, clip(kind.Error(), 40)))
			judge("live", ws, res, fmt.Sprintf("writer (with WriteString) failing with %q at offset %d of %d (%s)", kind.Error(), k, L, c.WMode), wit)
		}
		if len(o.Viol) > 8 {
			o.Viol = c12Dedup(o.Viol)
		}
	}
	o.Count("failure_offsets_enumerated", int64(len(offs)))
	o.Count("failures_injected", int64(injected))
	o.Cell("writer/" + path + "/" + c.WMode)
	o.Cell("document-length/" + c12Bucket(L))
	if all && injected == below {
		// every offset below len(document) makes a Write fail; offset len(document) is the control
		if catalogued {
			o.NT(c.Entry, c.Layout, c.Prog, c.Ctx, c.WMode)
		}
	} else if all {
		o.Cell("not-judged/offsets-without-injected-failure")
	}
	if c.Prog == "small" && c.WMode == "partial/sticky" && (c.Entry == "render") {
		o.Sample = map[string]any{"entry": epCell, "program": c.Prog, "document_bytes": L, "healthy_writer_log": hw.logString(), "offsets": len(offs), "failures_injected": injected}
	}
	return o
}

func c12Dedup(v []core.Violation) []core.Violation {
	seen := map[string]bool{}
	out := v[:0]
	for _, x := range v {
		if seen[x.Sig] {
			continue
		}
		seen[x.Sig] = true
		out = append(out, x)
	}
	return out
}

func c12NilErr(err error) string {
	if err == nil {
		return "nil"
	}
	return "error"
}

func c12Bucket(n int) string {
	switch {
	case n == 0:
		return "0"
	case n == 1:
		return "1"
	case n <= 3:
		return "2-3"
	case n <= 120:
		return "4-120"
	case n <= 1000:
		return "121-1000"
	}
	return ">1000"
}

// c12Subseq returns the first element of want that cannot be matched, in order, in got ("" if all match).
func c12Subseq(want, got []string) string {
	j := 0
	for _, w := range want {
		for j < len(got) && got[j] != w {
			j++
		}
		if j == len(got) {
			return w
		}
		j++
	}
	return ""
}

func c12Describe(c c12Case) string {
	var b strings.Builder
	fmt.Fprintf(&b, "entry=%s layout=%q program=%s context=%s", c.Entry, c.Layout, c.Prog, c.Ctx)
	if c.Src != "" || c.Layout == "" {
		fmt.Fprintf(&b, "\nsource: %s", clip(c.Src, 700))
	} else {
		fmt.Fprintf(&b, "\nmain=%s: %s", c.Main, clip(c.Files[c.Main], 700))
		for _, k := range sortedKeys(c.Files) {
			if strings.HasPrefix(k, "layouts/") {
				fmt.Fprintf(&b, "\n%s: %s", k, clip(c.Files[k], 300))
			}
		}
	}
	return b.String()
}
