package props

import (
	"bytes"
	"encoding/json"
	"fmt"
	"io/fs"
	"os"
	"path/filepath"
	"regexp"
	"sort"
	"strings"

	vuego "github.com/titpetric/vuego"
	xhtml "golang.org/x/net/html"

	"verifharness/core"
	"verifharness/oracle"
)

// C02 — rendering is faithful: static content and values survive an HTML round trip.

type c02Case struct {
	Part string `json:"part"`           // static | corpus | value | vhtml
	Src  string `json:"src,omitempty"`  // template source
	Doc  bool   `json:"doc,omitempty"`  // full document (file entry points only)
	File string `json:"file,omitempty"` // corpus: path under /repo
	Sink string `json:"sink,omitempty"` // value part: text | attr | bound
	Nbh  string `json:"nbh,omitempty"`  // value part
	Val  *TV    `json:"val,omitempty"`  // value part
	HTML string `json:"html,omitempty"` // vhtml part
	Wrap string `json:"wrap,omitempty"` // vhtml part: element name
}

type c02 struct{ corpus []string }

var c02DirectiveRe = regexp.MustCompile(`\{\{|\sv-[a-z]|\s:[a-zA-Z]|\s@[a-z]|\s#[a-z]|<template|<slot|\s\[[a-z:@-]+\]|v-bind:|<vuego`)

func c02LoadCorpus() []string {
	var out []string
	filepath.WalkDir("/repo", func(p string, d fs.DirEntry, err error) error {
		if err != nil {
			return nil
		}
		if d.IsDir() {
			if d.Name() == ".git" {
				return filepath.SkipDir
			}
			return nil
		}
		if !(strings.HasSuffix(p, ".html") || strings.HasSuffix(p, ".vuego")) {
			return nil
		}
		raw, err := os.ReadFile(p)
		if err != nil || len(raw) > 200_000 || bytes.HasPrefix(raw, []byte("---")) {
			return nil
		}
		if c02DirectiveRe.Match(raw) {
			return nil
		}
		out = append(out, p)
		return nil
	})
	sort.Strings(out)
	return out
}

func init() {
	p := &c02{corpus: c02LoadCorpus()}
	core.Register(p, core.Meta{
		Assumptions: []string{
			"golang.org/x/net/html is the trusted parser on both sides, with the engine's own context rule (document iff the source contains </html>, else body fragment)",
			"generated static HTML is kept only if parse(x) == parse(render(parse(x))) (no parser fix-ups), so a difference after rendering is the engine's doing",
			"full documents are judged through the file entry points only: the string entry points parse every input as a body fragment by design",
			"'insignificant whitespace' is read as: white space at the edges of a text node, white-space-only text nodes, and the collapsing of runs. Text is therefore compared per text node after trimming and collapsing; the text of every <pre> is compared exactly in addition; comments are ignored. The engine's serialiser is a pretty-printer that puts every child on a line of its own, so `a<span>b</span>c` comes out as `a <span>b</span> c`: the DOM is the same under this reading, although a browser shows a space there - that white space is counted as formatting, not as text",
			"attribute values are compared exactly (blanks at their ends and the kind of each white-space character included)",
		},
		MinNonTrivial: func(ctx core.Ctx) int { return 500 },
	})
}

func (p *c02) ID() string { return "C02" }
func (p *c02) Rule() string {
	return "static part: seeded generator of parser-stable fragments and full documents (doctype variants, html lang, head with meta/link/title) over block/inline/void/table/raw-text/rcdata/svg elements, depth<=4, attributes and text written with named/decimal/hex character references incl. dangerous adjacencies (&amp;lt;, &quot; next to &amp;); each rendered through every applicable entry point (RenderString, RenderByte, RenderReader, Load.Render, RenderFile, Vue.Render, Vue.RenderFragment) and compared node by node with the parse of the source; corpus part: every directive-free .html/.vuego file of the repository; value part: typed Go values (all numeric widths, bools, strings with specials, slices, maps, structs, time) x sink (text, interpolated attr, bound attr) x neighbourhood, parsed sink must equal neighbours + fmt.Sprint(value); vhtml part: HTML snippets/entity text/mustache-looking text through v-html must appear verbatim in the bytes; non-trivial = source contains an element with attributes or a character reference (static), every value/vhtml case; distinct by source / (sink,nbh,value)"
}

func (p *c02) nStatic(ctx core.Ctx) int { return ctx.Pick(30000, 500000) }

var c02Vals = []TV{
	tvS("plain"), tvS(""), tvS("a<b>&c\"d'e"), tvS("&lt;"), tvS("&amp;amp;"), tvS("x;y&z;"), tvS("{{ not }}"), tvS("  padded  "), tvS("multi\nline"), tvS("cr\rin\r\nvalue"), tvS("é中\U0001F600"),
	tvI(0), tvI(-42), {K: "int8", I: -8}, {K: "int16", I: 300}, {K: "int32", I: 1 << 20}, {K: "int64", I: 1 << 40}, {K: "uint", U: 7}, {K: "uint8", U: 200}, {K: "uint16", U: 65535}, {K: "uint32", U: 1 << 31}, {K: "uint64", U: 1 << 63},
	tvF(1.5), tvF(1e21), tvF(-0.000001), {K: "float32", F: 0.25}, tvB(true), tvB(false),
	tvList(tvI(1), tvS("<b>"), tvB(true)), tvKind("[]string", tvS("a&b"), tvS("c")), tvKind("[]int", tvI(1), tvI(2)), tvMap(map[string]TV{"k": tvS("<v>")}), {K: "map[string]string", M: map[string]TV{"a": tvS("1")}},
	{K: "Item", M: map[string]TV{"title": tvS("T<1>"), "count": tvI(2)}}, {K: "*Item", M: map[string]TV{"title": tvS("P")}}, {K: "time", I: 1700000000}, {K: "struct{}"}, {K: "[2]int", L: []TV{tvI(1), tvI(2)}},
}

var c02HTMLs = []string{
	"<b>bold</b>", "<p>one</p><p>two</p>", "a &amp; b &lt;c&gt;", "&lt;script&gt;", "{{ secret }}", "{{ 1 + 1 }}", "x {{ secret | upper }} y", "<i title=\"q&quot;q\">t</i>", "<br>", "<img src=\"a.png\" alt=\"x\">", "plain text", "<!-- comment -->", "<ul><li>1</li><li>2</li></ul>",
	"<span>é中\U0001F600</span>", "<a href=\"?a=1&amp;b=2\">l</a>", "&", "&amp", "<", "unterminated <b>", "<table><tr><td>c</td></tr></table>", "<script>var a = '{{ secret }}';</script>", "<div v-if=\"f\">still here</div>", "<template include=\"x.vuego\"></template>",
}

// value part: sinks and static neighbourhoods (pad: blanks at both ends of the static part)
var c02Sinks = []string{"text", "attr", "attr2", "bound", "bracket", "vtext", "vhtml"}
var c02Nbhs = []string{"none", "plain", "entity", "attrs", "pad"}

func (p *c02) Plan(ctx core.Ctx) int {
	return p.nStatic(ctx) + len(p.corpus) + len(c02Vals)*len(c02Sinks)*len(c02Nbhs) + len(c02HTMLs)*3
}

func (p *c02) Gen(ctx core.Ctx, i int) any {
	ns := p.nStatic(ctx)
	if i < ns {
		r := core.NewRNG(ctx.Seed, 0xC02, uint64(i))
		g := &c02Gen{r: r}
		doc := r.Chance(1, 4)
		// try a few times to get a parser-stable source
		for try := 0; try < 8; try++ {
			var src string
			if doc {
				src = g.document()
			} else {
				src = g.fragment()
			}
			if oracle.ParserStable(src, doc) {
				return c02Case{Part: "static", Src: src, Doc: doc}
			}
		}
		return c02Case{Part: "static", Src: "<p>fallback &amp; stable</p>", Doc: false}
	}
	i -= ns
	if i < len(p.corpus) {
		return c02Case{Part: "corpus", File: p.corpus[i]}
	}
	i -= len(p.corpus)
	if per := len(c02Sinks) * len(c02Nbhs); i < len(c02Vals)*per {
		v := c02Vals[i/per]
		return c02Case{Part: "value", Sink: c02Sinks[(i%per)/len(c02Nbhs)], Nbh: c02Nbhs[i%len(c02Nbhs)], Val: &v}
	} else {
		i -= len(c02Vals) * per
	}
	return c02Case{Part: "vhtml", HTML: c02HTMLs[i/3], Wrap: []string{"div", "template", "section"}[i%3]}
}

func (p *c02) Decode(raw json.RawMessage) (any, error) { return core.JSONDecode[c02Case](raw) }

// ---------------- generator

type c02Gen struct {
	r     *core.RNG
	nodes int
}

var c02Words = []string{"alpha", "beta", "gamma", "x", "42", "lorem ipsum", "A-Z", "q.e.d", "semi;colon", "amp and", "tail;"}
var c02Refs = []string{"&lt;", "&gt;", "&amp;", "&quot;", "&#39;", "&#60;", "&#x26;", "&copy;", "&amp;lt;", "&amp;amp;", "&lt;b&gt;", "&amp;copy;", "&#38;#60;", "&eacute;", "&quot;&amp;", "&lt;&amp;", "&nbsp;", "&nbsp;", "a&nbsp;b", "&#160;"}

func (g *c02Gen) text() string {
	var b strings.Builder
	n := 1 + g.r.Intn(4)
	for i := 0; i < n; i++ {
		if i > 0 && g.r.Chance(3, 4) {
			b.WriteString(" ")
		}
		if g.r.Chance(2, 5) {
			b.WriteString(core.Pick(g.r, c02Refs))
		} else {
			b.WriteString(core.Pick(g.r, c02Words))
		}
	}
	return b.String()
}

func (g *c02Gen) attrVal() string {
	var b strings.Builder
	n := 1 + g.r.Intn(3)
	for i := 0; i < n; i++ {
		if i > 0 && g.r.Chance(1, 2) {
			b.WriteString(" ")
		}
		switch {
		case g.r.Chance(1, 2):
			b.WriteString(core.Pick(g.r, c02Refs))
		case g.r.Chance(1, 8):
			// white space written as character references survives the tokenizer
			// unchanged; in an attribute value it is significant
			b.WriteString(core.Pick(g.r, []string{"a&#13;b", "&#13;&#10;", "x&#9;y", "&#xD;", "l&#10;f", "&#12;"}))
		default:
			b.WriteString(core.Pick(g.r, []string{"v", "a-b", "x=1", "it's", "50%", "a/b", "semi;", "k"}))
		}
	}
	return b.String()
}

func (g *c02Gen) attrs(names ...string) string {
	var b strings.Builder
	pool := append([]string{"id", "class", "title", "data-k", "lang"}, names...)
	perm := g.r.Perm(len(pool))
	n := g.r.Intn(4)
	for i := 0; i < n && i < len(pool); i++ {
		k := pool[perm[i]]
		q := `"`
		v := g.attrVal()
		if g.r.Chance(1, 6) && !strings.Contains(v, "'") {
			q = "'"
		}
		if q == "'" {
			v = strings.ReplaceAll(v, "&#39;", "x")
		}
		fmt.Fprintf(&b, ` %s=%s%s%s`, k, q, v, q)
	}
	return b.String()
}

func (g *c02Gen) inline(depth int) string {
	g.nodes++
	switch g.r.Intn(9) {
	case 0:
		return "<br>"
	case 1:
		return fmt.Sprintf(`<img%s src="i.png">`, g.attrs("alt"))
	case 2:
		return fmt.Sprintf(`<input%s type="text" value="%s">`, g.attrs("name"), g.attrVal())
	case 3, 4:
		tag := core.Pick(g.r, []string{"span", "b", "i", "em", "strong", "code", "small"})
		inner := g.text()
		if depth > 0 && g.r.Chance(1, 3) {
			inner += g.inline(depth - 1)
		}
		return fmt.Sprintf("<%s%s>%s</%s>", tag, g.attrs(), inner, tag)
	case 5:
		return fmt.Sprintf(`<a%s href="/p?a=1&amp;b=%s">%s</a>`, g.attrs(), core.Pick(g.r, []string{"2", "x", "&lt;"}), g.text())
	default:
		return g.text()
	}
}

func (g *c02Gen) block(depth int) string {
	g.nodes++
	if g.nodes > 14 {
		return "<p>" + g.text() + "</p>"
	}
	switch g.r.Intn(15) {
	case 0, 1:
		var b strings.Builder
		tag := core.Pick(g.r, []string{"div", "section", "article", "main", "header"})
		fmt.Fprintf(&b, "<%s%s>", tag, g.attrs())
		if depth > 0 {
			for k := g.r.Intn(3); k >= 0; k-- {
				if g.r.Chance(1, 4) {
					b.WriteString("\n  ")
				}
				if g.r.Chance(1, 6) {
					// comments only between elements: next to text they would make the
					// comparison depend on how whitespace between text runs is judged
					b.WriteString("<!-- c " + core.Pick(g.r, c02Words) + " -->")
				}
				b.WriteString(g.block(depth - 1))
			}
		} else {
			b.WriteString(g.text())
		}
		fmt.Fprintf(&b, "</%s>", tag)
		return b.String()
	case 2, 3:
		var b strings.Builder
		tag := core.Pick(g.r, []string{"p", "h1", "h2", "h3"})
		fmt.Fprintf(&b, "<%s%s>", tag, g.attrs())
		for k := g.r.Intn(3); k >= 0; k-- {
			b.WriteString(g.inline(1))
			if g.r.Chance(1, 2) {
				b.WriteString(" ")
			}
		}
		fmt.Fprintf(&b, "</%s>", tag)
		return b.String()
	case 4:
		var b strings.Builder
		tag := core.Pick(g.r, []string{"ul", "ol"})
		fmt.Fprintf(&b, "<%s%s>", tag, g.attrs())
		for k := g.r.Intn(3); k >= 0; k-- {
			fmt.Fprintf(&b, "<li%s>%s</li>", g.attrs(), g.inline(1))
		}
		fmt.Fprintf(&b, "</%s>", tag)
		return b.String()
	case 5:
		return "<hr" + g.attrs() + ">"
	case 6:
		var b strings.Builder
		fmt.Fprintf(&b, "<table%s>", g.attrs())
		if g.r.Bool() {
			fmt.Fprintf(&b, "<thead><tr><th%s>%s</th><th>%s</th></tr></thead>", g.attrs(), g.text(), g.text())
		}
		b.WriteString("<tbody>")
		for k := g.r.Intn(2); k >= 0; k-- {
			fmt.Fprintf(&b, "<tr%s><td%s>%s</td><td>%s</td></tr>", g.attrs(), g.attrs(), g.inline(0), g.text())
		}
		b.WriteString("</tbody></table>")
		return b.String()
	case 7:
		return fmt.Sprintf("<script%s>var a = 1 < 2 && \"%s\" > 'b'; // &amp; stays</script>", g.attrs(), core.Pick(g.r, []string{"x", "a<b", "</", "&lt;"}))
	case 8:
		return fmt.Sprintf("<style%s>p > a { color: red; content: \"%s\" }</style>", g.attrs(), core.Pick(g.r, []string{"x", "&amp;", "<b>"}))
	case 9:
		return fmt.Sprintf("<textarea%s>%s</textarea>", g.attrs("name"), g.text())
	case 10:
		switch g.r.Intn(3) {
		case 0: // markup two levels deep: white space stays significant all the way down
			return fmt.Sprintf("<pre%s><code><span>%s</span> <span>%s</span>()\n  <b><i>%s</i> %s</b></code>\n%s</pre>", g.attrs(), g.text(), g.text(), g.text(), g.text(), g.text())
		case 1:
			return fmt.Sprintf("<pre%s>%s <em>%s</em>\n    %s</pre>", g.attrs(), g.text(), g.text(), g.text())
		}
		if g.r.Chance(1, 3) {
			// content that begins with a line break: the parser drops the first newline after <pre>, the second is text
			return fmt.Sprintf("<pre%s>\n\n%s\n  %s</pre>", g.attrs(), g.text(), g.text())
		}
		return fmt.Sprintf("<pre%s>%s\n  %s</pre>", g.attrs(), g.text(), g.text())
	case 11:
		if g.r.Chance(1, 3) {
			// HTML integration points inside foreign content: below them <style> / <script> are HTML raw-text elements again
			return core.Pick(g.r, []string{
				fmt.Sprintf(`<svg viewBox="0 0 10 10"><foreignObject width="5" height="5"><style>p > a { content: "%s" }</style><p>%s</p><script>var a = 1 < 2 && "q" > 'b';</script></foreignObject></svg>`, core.Pick(g.r, []string{"x", "&amp;", "<b>"}), g.text()),
				fmt.Sprintf(`<math><mtext><style>b > i { content: '%s' }</style>%s</mtext><mi>x</mi></math>`, core.Pick(g.r, []string{"q", "a&b"}), g.text()),
				fmt.Sprintf(`<svg viewBox="0 0 4 4"><desc><style>a > b { color: red }</style>%s</desc><title><script>if (a < b && c > d) { e("f") }</script></title><rect width="1" height="1"></rect></svg>`, g.text()),
			})
		}
		return fmt.Sprintf(`<svg%s xmlns="http://www.w3.org/2000/svg" xmlns:xlink="http://www.w3.org/1999/xlink" viewBox="0 0 10 10"><circle cx="5" cy="5" r="4"></circle><path d="M0 0L1 1" fill="%s"></path><use xlink:href="#i%d" xml:lang="en"></use><text>%s</text></svg>`, g.attrs(), g.attrVal(), g.r.Intn(3), g.text())
	case 12:
		return fmt.Sprintf("<blockquote%s><p>%s</p></blockquote>", g.attrs("cite"), g.inline(1))
	case 13:
		// elements whose content an HTML parser (scripting enabled, as in a browser) reads as raw text
		return core.Pick(g.r, []string{
			`<noscript><img src="/p.gif?a=1&amp;b=2" alt=""></noscript>`,
			fmt.Sprintf(`<noscript%s><p>%s</p></noscript>`, g.attrs(), core.Pick(g.r, c02Words)),
			`<iframe src="/f"><a href="/f">open</a></iframe>`,
		})
	default:
		return fmt.Sprintf(`<form%s action="/s?x=1&amp;y=2"><label>%s</label><input type="checkbox" checked><select><option value="%s">%s</option></select><button%s>%s</button></form>`, g.attrs(), g.text(), g.attrVal(), g.text(), g.attrs(), g.text())
	}
}

// leading elements whose names begin like table-section tags (<tr.., <td.., <th.., <col.., <caption..)
// or other context-sensitive tags: the file's first tag must not decide how the rest is parsed
var c02Leading = []string{`<track src="a.vtt">`, `<tr-item>row</tr-item>`, `<td-cell>c</td-cell>`, `<th-label>h</th-label>`, `<col-box>x</col-box>`, `<thead-bar>b</thead-bar>`, `<caption-text>t</caption-text>`,
	`<option-list>o</option-list>`, `<li-item>i</li-item>`, `<body-text>b</body-text>`, `<html-snippet>s</html-snippet>`, `<head-line>h</head-line>`, `<frameset-x>f</frameset-x>`, `<select-one>s</select-one>`, `<svg-icon>i</svg-icon>`, `<template-x>t</template-x>`}

func (g *c02Gen) fragment() string {
	var b strings.Builder
	if g.r.Chance(1, 8) {
		b.WriteString(core.Pick(g.r, c02Leading))
		fmt.Fprintf(&b, "<table><tbody><tr><td>%s</td></tr></tbody></table><form%s><input name=\"q\"><p>%s</p></form>", g.text(), g.attrs("action"), g.inline(1))
	}
	for k := g.r.Intn(3); k >= 0; k-- {
		b.WriteString(g.block(1 + g.r.Intn(3)))
		if g.r.Chance(1, 3) {
			b.WriteString("\n")
		}
	}
	return b.String()
}

func (g *c02Gen) document() string {
	var b strings.Builder
	switch g.r.Intn(4) {
	case 0:
		b.WriteString("<!DOCTYPE html>\n")
	case 1:
		b.WriteString("<!doctype html>")
	case 2:
		b.WriteString(`<!DOCTYPE html PUBLIC "-//W3C//DTD XHTML 1.0 Strict//EN" "http://www.w3.org/TR/xhtml1/DTD/xhtml1-strict.dtd">` + "\n")
	}
	fmt.Fprintf(&b, "<html%s>\n<head>", g.attrs())
	if g.r.Bool() {
		fmt.Fprintf(&b, `<meta charset="utf-8"><meta name="description" content="%s">`, g.attrVal())
	}
	if g.r.Bool() {
		fmt.Fprintf(&b, "<title>%s</title>", g.text())
	}
	if g.r.Bool() {
		fmt.Fprintf(&b, `<link rel="stylesheet" href="/a.css?v=1&amp;w=2">`)
	}
	if g.r.Chance(1, 3) {
		b.WriteString("<style>body > p { margin: 0 }</style>")
	}
	fmt.Fprintf(&b, "</head>\n<body%s>\n", g.attrs())
	b.WriteString(g.fragment())
	b.WriteString("\n</body>\n</html>\n")
	return b.String()
}

// ---------------- execution

type c02Entry struct {
	name string
	doc  bool // is given full documents as well (every entry point is)
	run  func(src string) (string, error)
}

func c02Entries() []c02Entry {
	file := func(f func(fsys fs.FS) (string, error)) func(string) (string, error) {
		return func(src string) (string, error) { return f(memFS(map[string]string{"page.vuego": src})) }
	}
	return []c02Entry{
		{"RenderString", true, func(src string) (string, error) { return renderStr(src, nil) }},
		{"RenderByte", true, func(src string) (string, error) {
			var b bytes.Buffer
			err := vuego.New().RenderByte(bg, &b, []byte(src))
			return b.String(), err
		}},
		{"RenderReader", true, func(src string) (string, error) {
			var b bytes.Buffer
			err := vuego.New().RenderReader(bg, &b, strings.NewReader(src))
			return b.String(), err
		}},
		{"Load.Render", true, file(func(fsys fs.FS) (string, error) { return renderFile(fsys, "page.vuego", nil) })},
		{"RenderFile", true, file(func(fsys fs.FS) (string, error) {
			var b bytes.Buffer
			err := vuego.NewFS(fsys).RenderFile(bg, &b, "page.vuego")
			return b.String(), err
		})},
		{"Vue.Render", true, file(func(fsys fs.FS) (string, error) { return renderVue(fsys, "page.vuego", map[string]any{}) })},
		{"Vue.RenderFragment", true, file(func(fsys fs.FS) (string, error) {
			var b bytes.Buffer
			err := vuego.NewVue(fsys).RenderFragment(&b, "page.vuego", map[string]any{})
			return b.String(), err
		})},
	}
}

// c02DedupeBr removes every second <br> of a run of adjacent <br> elements.
func c02DedupeBr(n *oracle.N) {
	var out []*oracle.N
	run := 0
	for _, k := range n.Kids {
		if k.Kind == "el" && k.Name == "br" {
			run++
			if run%2 == 0 {
				continue
			}
		} else {
			run = 0
			c02DedupeBr(k)
		}
		out = append(out, k)
	}
	n.Kids = out
}

func c02HasBr(n *oracle.N) bool {
	found := false
	n.Walk(func(x *oracle.N) {
		if x.Kind == "el" && x.Name == "br" {
			found = true
		}
	})
	return found
}

func (p *c02) checkStatic(o *core.Obs, c c02Case, src string, doc bool, part string) {
	want := oracle.Parse(src, doc)
	nontrivial := strings.Contains(src, "&") || strings.Contains(src, "=")
	for _, e := range c02Entries() {
		if doc && !e.doc {
			continue
		}
		out, err := e.run(src)
		o.Evals++
		if err != nil {
			o.Fail(c, part+"/"+e.name+"/error", "render of a directive-free template failed: %v\nsource: %s", err, clip(src, 600))
			continue
		}
		got := oracle.Parse(out, doc)
		d := oracle.Diff(want, got, nil)
		brNoted, rawNoted := false, false
		for d != nil {
			if !brNoted && c02HasBr(want) && (d.Kind == "extra" && d.B == "<br>" || d.Kind == "name" && d.B == "br" || d.Kind == "kind" && d.B == "<br>" || d.Kind == "missing" || d.Kind == "text") {
				// the void element <br> is written as <br></br>, which parses as two breaks:
				// classify it once, then compare the rest with the doubled breaks folded
				g2 := oracle.Parse(out, doc)
				c02DedupeBr(g2)
				if rawNoted {
					c02UnescapeRaw(g2)
				}
				if d2 := oracle.Diff(want, g2, nil); d2 == nil || d2.String() != d.String() {
					o.Fail(c, part+"/void-br-doubled", "<br> is emitted as <br></br>, which an HTML5 parser reads as two line breaks: %s\nsource: %s\noutput: %s", d, clip(src, 400), clip(out, 400))
					brNoted = true
					got = g2
					d = d2
					continue
				}
			}
			if !rawNoted && d.Kind == "text" && (d.Where == "noscript" || d.Where == "iframe") {
				// classify once, then compare the rest with the escaping of these elements undone
				o.Fail(c, part+"/markup-in-noscript-or-iframe-escaped", "the content of <%s> is raw text for an HTML parser with scripting enabled, the engine writes it escaped: %s\nsource: %s\noutput: %s", d.Where, d, clip(src, 400), clip(out, 400))
				rawNoted = true
				c02UnescapeRaw(got)
				d = oracle.Diff(want, got, nil)
				continue
			}
			cls := oracle.ElementClass(d.Where)
			o.Fail(c, fmt.Sprintf("%s/%s/%s/%s", part, e.name, d.Kind, cls), "parse(output) differs from parse(template): %s\nsource: %s\noutput: %s", d, clip(src, 600), clip(out, 600))
			break
		}
		if d == nil && strings.Contains(src, "<pre") {
			// white space is significant inside <pre>, at every depth: the text of
			// each <pre> must come back exactly (the DOM comparison above collapses it)
			wp, _ := c20PreTexts(src)
			gp, _ := c20PreTexts(out)
			if len(wp) == len(gp) {
				for k := range wp {
					if wp[k] != gp[k] {
						o.Fail(c, fmt.Sprintf("%s/%s/pre-whitespace", part, e.name), "text of <pre> #%d differs in white space: template %q, output %q\nsource: %s\noutput: %s", k, wp[k], gp[k], clip(src, 600), clip(out, 600))
						break
					}
				}
				o.Cell(part + "/pre-text-compared-exactly")
			}
		}
		o.Cell(part + "/" + e.name)
	}
	if nontrivial {
		o.NT(part, src)
	}
	if doc {
		o.Cell(part + "/document")
	} else {
		o.Cell(part + "/fragment")
	}
}

// c02UnescapeRaw undoes the escaping of the text of <noscript> / <iframe> in a
// parsed output (the finding is reported once; the rest is compared without it).
func c02UnescapeRaw(root *oracle.N) {
	root.Walk(func(n *oracle.N) {
		if n.Kind == "el" && (n.Name == "noscript" || n.Name == "iframe") {
			for _, k := range n.Kids {
				if k.Kind == "text" {
					k.Raw = xhtml.UnescapeString(k.Raw)
					k.Text = oracle.NormText(k.Raw)
				}
			}
		}
	})
}

func (p *c02) Exec(ctx core.Ctx, cc any) core.Obs {
	c := cc.(c02Case)
	var o core.Obs
	switch c.Part {
	case "static":
		p.checkStatic(&o, c, c.Src, c.Doc, "static")
		if c.Doc && len(c.Src) < 700 && strings.Contains(c.Src, "<table") {
			o.Sample = map[string]any{"part": "static", "document": true, "source": c.Src}
		}
	case "corpus":
		raw, err := os.ReadFile(c.File)
		if err != nil {
			o.Inconclusive = "corpus file unreadable: " + err.Error()
			return o
		}
		src := string(raw)
		doc := oracle.IsDocument(src)
		if !oracle.ParserStable(src, doc) {
			o.Cell("corpus/not-parser-stable-skipped")
			return o
		}
		p.checkStatic(&o, c, src, doc, "corpus")
	case "value":
		p.execValue(&o, c)
	case "vhtml":
		p.execVHTML(&o, c)
	}
	return o
}

func (p *c02) execValue(o *core.Obs, c c02Case) {
	sink := c.Sink
	if sink == "bound" {
		if t, _ := c.Val.Truthy(); !t {
			o.Cell("value/falsy-bound-skipped")
			return
		}
	}
	if sink == "vhtml" && strings.ContainsAny(fmt.Sprint(c.Val.Go()), "<>&") {
		o.Cell("value/vhtml-value-with-markup-characters-skipped")
		return
	}
	el, sinkAttr, lDec, rDec, _ := c01SinkEl(sink, c.Nbh, "v", "")
	tpl := c01Head + el + c01Tail
	val := c.Val.Go()
	// every other case renders right after a render that failed in the middle of a text node and of an
	// attribute (static text, then a mustache with an unknown filter): nothing of it may reach this one
	afterFailure := (len(mustJSON(c.Val))+len(c.Nbh)+len(sink))%2 == 0
	if afterFailure {
		if _, ferr := renderStr(`<p title="Stale title: {{ w }} {{ v | c02NoSuchFilter }}">Stale text: {{ w }} {{ v | c02NoSuchFilter }}</p>`, map[string]any{"v": val, "w": "W"}); ferr == nil {
			o.Fail(c, "value/unknown-filter-no-error", "a mustache with an unknown filter did not fail the render")
		}
		o.Evals++
		o.Cell("value/after-a-failed-render")
	}
	out, err := renderStr(tpl, map[string]any{"v": val, "w": "W"})
	o.Evals++
	o.NT("value", sink, c.Nbh, mustJSON(c.Val))
	o.Cell("value/" + sink + "/" + c.Nbh)
	sig := fmt.Sprintf("value/%s/%s/%s", sink, c01NbhClass(c.Nbh), c02KindClass(c.Val.K))
	if err != nil {
		o.Fail(c, sig+"/error", "render failed: %v", err)
		return
	}
	if afterFailure && strings.Contains(out, "Stale t") {
		o.Fail(c, "value/text-of-a-failed-render-in-the-next-output/"+sink, "the render before this one failed in the middle of a text node / attribute; its text shows up here\noutput: %s", out)
		return
	}
	doc := oracle.Parse(out, false)
	s := doc.ByAttr("data-s", "1")
	if len(s) != 1 {
		o.Fail(c, sig+"/sink-lost", "sink element not found exactly once\noutput: %s", out)
		return
	}
	want := oracle.NormText(lDec + fmt.Sprint(val) + rDec)
	var got string
	if sinkAttr == "" {
		got = s[0].InnerText()
	} else {
		a, _ := s[0].Attr(sinkAttr)
		got = oracle.NormText(a)
	}
	if sinkAttr != "" && sinkAttr != "class" && sinkAttr != "style" {
		// white space inside an attribute value is significant: the kind of each
		// white-space character must survive, not only the words around it
		a, _ := s[0].Attr(sinkAttr)
		full := lDec + fmt.Sprint(val) + rDec
		if a != full && oracle.NormText(a) == oracle.NormText(full) {
			// same words, other blanks: the static neighbours (or the value's own blanks) were trimmed or collapsed
			o.Fail(c, sig+"/attr-blanks-changed", "attribute %s holds %q, expected the static neighbours plus the value exactly: %q\noutput: %q", sinkAttr, a, full, out)
		}
		for _, ws := range []string{"\r", "\n", "\t"} {
			if strings.Count(a, ws) != strings.Count(full, ws) {
				o.Fail(c, sig+"/attr-whitespace-changed", "attribute %s holds %q, expected neighbours + value %q: the number of %q differs\noutput: %q", sinkAttr, a, full, ws, out)
				break
			}
		}
	}
	if got != want {
		o.Fail(c, sig+"/not-equal", "parsed sink value %q != neighbours + fmt.Sprint(value) %q (value %s)\noutput: %s", got, want, c.Val, out)
	}
	if sink == "text" {
		// the value alone between two elements (no character between the tags and the braces): whatever it
		// prints, nothing - the static siblings after it stay
		o.Evals++
		out2, err2 := renderStr(`<section><div data-x="1"><b>L</b>{{ v }}<i>R</i> tail</div><p data-y="1">{{ v }}<u>U</u></p></section>`, map[string]any{"v": val})
		if err2 != nil {
			o.Fail(c, sig+"/between-elements/error", "render failed: %v", err2)
		} else {
			d2 := oracle.Parse(out2, false)
			x, y := d2.ByAttr("data-x", "1"), d2.ByAttr("data-y", "1")
			form := fmt.Sprint(val)
			if val == nil {
				form = ""
			}
			if len(x) != 1 || len(y) != 1 || c02NoWS(x[0].InnerText()) != c02NoWS("L"+form+"R tail") || c02NoWS(y[0].InnerText()) != c02NoWS(form+"U") {
				o.Fail(c, sig+"/between-elements/siblings-lost-or-text-wrong", "value %s alone between elements: want the texts %q and %q\noutput: %s", c.Val, "L"+form+"R tail", form+"U", out2)
			}
		}
	}
	// the static neighbours of the sink must have survived as well
	if b := doc.ByAttr("data-before", "1"); len(b) != 1 || b[0].InnerText() != "before <b> &amp;" {
		o.Fail(c, sig+"/static-neighbour", "static sibling with character references changed\noutput: %s", out)
	}
}

func c02KindClass(k string) string {
	switch {
	case k == "string", k == "bool":
		return k
	case strings.HasPrefix(k, "int"), strings.HasPrefix(k, "uint"), strings.HasPrefix(k, "float"):
		return "number"
	}
	return "composite"
}

func (p *c02) execVHTML(o *core.Obs, c c02Case) {
	var tpl string
	switch c.Wrap {
	case "template":
		tpl = `<div data-w="1"><template v-html="h"></template></div>`
	default:
		tpl = fmt.Sprintf(`<%s data-w="1" v-html="h">old</%s>`, c.Wrap, c.Wrap)
	}
	out, err := renderStr(tpl, map[string]any{"h": c.HTML, "secret": c01Canary, "f": false})
	o.Evals++
	o.NT("vhtml", c.Wrap, c.HTML)
	o.Cell("vhtml/" + c.Wrap)
	cls := "html"
	if strings.Contains(c.HTML, "{{") {
		cls = "mustache"
	} else if !strings.Contains(c.HTML, "<") {
		cls = "text"
	}
	if err != nil {
		o.Fail(c, "vhtml/"+c.Wrap+"/error/"+cls, "render failed: %v", err)
		return
	}
	if !strings.Contains(out, strings.TrimSpace(c.HTML)) {
		o.Fail(c, "vhtml/"+c.Wrap+"/not-verbatim/"+cls, "v-html output does not contain its value verbatim\nvalue: %q\noutput: %s", c.HTML, out)
	}
}

func c02NoWS(s string) string { return strings.Join(strings.Fields(s), "") }
