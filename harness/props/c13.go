package props

import (
	"bytes"
	"encoding/json"
	"fmt"
	"strings"
	"sync"

	vuego "github.com/titpetric/vuego"

	"verifharness/core"
	"verifharness/oracle"
)

// C13 — an expression means the same everywhere; pipes compose left to right.
//
// Every case is one expression (an AST rendered in a surface-syntax style) and
// one typed environment. The real engine evaluates it in every position that
// accepts it ({{ }}, :attr, v-if, v-else-if, v-show); the reference interpreter
// of c13_ref.go says what the value is (or that the render has to fail naming a
// function, or that the statement does not decide the case).

type c13Case struct {
	Part  string `json:"part"`            // tree | special | chain | pair | quote | err | doc | skip
	Group string `json:"group,omitempty"` // special: generator group
	Tag   string `json:"tag,omitempty"`   // pair / quote / err / doc: generator class
	Style string `json:"style,omitempty"` // spaced (default) | unspaced | strict | dq
	Tight bool   `json:"tight,omitempty"` // {{E}} without inner blanks
	All   bool   `json:"all,omitempty"`   // judge all five positions
	Env   int    `json:"env"`
	E     *c13E  `json:"e,omitempty"`
	// doc part: literal source and hand-derived expectation
	Src   string `json:"src,omitempty"`
	Pos   string `json:"pos,omitempty"`
	Want  string `json:"want,omitempty"`
	Truth bool   `json:"truth,omitempty"`
	ErrFn string `json:"errfn,omitempty"`
	// retype part (c13_retype.go)
	Retype *c13Retype `json:"retype,omitempty"`
}

type c13 struct{}

func init() {
	core.Register(&c13{}, core.Meta{
		Exhaustive: func(ctx core.Ctx) bool { return false },
		Assumptions: []string{
			"golang.org/x/net/html re-parse of the output is the trusted observer; the printed form of a value is fmt.Sprint of it, nil prints nothing",
			"a bound attribute that is absent is accepted exactly when the value is falsy (false, 0, \"\", nil); a present one must carry the printed value (C14 owns attribute presence rules)",
			"not generated / not judged because the conventional value is debatable: integer division with remainder, % with negative or zero operands, mixed int/float equality, equality or ordering across types, non-ASCII string ordering, negative zero, && || ! ?: on non-bool operands, division by zero",
			"argument conversions the documentation does not settle are not judged (float to integer, bool to/from number, nil for a typed parameter, negative to unsigned, quoted number literal for an `any` parameter); if the engine fails on one of them the error must still name the function",
			"built-ins are judged only on documented inputs (string functions on strings, len on strings/slices/maps, int on int/int64/numeric strings/integral floats, default on nil/\"\"/non-empty values, title on lower-case words)",
			"pipes are judged in {{ }} and bound attributes only (documented there); in v-if/v-else-if/v-show only direct calls and operator expressions are judged",
			"strings that print as \"false\" are kept out of truthiness verdicts (C03 known finding)",
			"unary minus on an unsigned value and operands in an unevaluated branch that the reference cannot decide (e.g. a constant division by zero) are not judged",
			"an error 'names the function' when its text contains the function's name (an echoed expression counts)",
		},
	})
}

func (p *c13) ID() string { return "C13" }
func (p *c13) Rule() string {
	return "tree: every operator of the documented grammar with every operand-type signature (arithmetic, /, %, concat, 6 comparisons, && || ! unary-minus, ternary) x every literal/variable/nested-path leaf combination at depth 1 x 4 environments, every (outer operator, slot, inner operator) pairing at depth 2, plus seeded random well-typed trees of depth <= 2 (quick) / 3 (thorough), each in 4 surface styles (documented spaced syntax, \" strings, === / !==, unspaced operators); special: every variable path, unary-only expressions, bare literals, struct json-tag paths, direct calls of built-in and registered functions, calls as operands; chain: every filter chain of length <= 2 over 31 filter forms x 13 start values, length 3 exhaustive (thorough) or sampled (quick); pair: 13 parameter kinds (string,int,int64,uint,float64,bool,any,variadic,context-first,(T,error)) x 22 data values x piped/call-variable/call-literal/second-argument; quote: 34 string-literal contents (commas, pipes, parentheses, operator text, variable names, number-like, empty, other quote) x ' and \" x filter-argument/operand forms; err: unknown function, wrong arity, impossible conversion, function error in every position and chain placement; doc: the examples of docs/expressions.md, syntax.md, funcmap.md. Every case is rendered in all positions that accept it ({{ }} in text and inside a static attribute, :a, v-bind:a, v-if, v-else-if, v-show; pipes: the four printing positions) and compared with the reference interpreter. non-trivial = the reference decides the case (value or required error); distinct by (source text, environment, positions)"
}

func (p *c13) Plan(ctx core.Ctx) int { return c13PlanN(ctx) + c13NRetype() }

func (p *c13) Gen(ctx core.Ctx, i int) any {
	if n := c13PlanN(ctx); i >= n {
		return c13BuildRetype(i - n)
	}
	return c13GenCase(ctx, i)
}

func (p *c13) Decode(raw json.RawMessage) (any, error) { return core.JSONDecode[c13Case](raw) }

// ---------------------------------------------------------------- running the engine

var c13PrintPos = []string{"text", "attr-text", "attr", "v-bind"}
var c13CondPos = []string{"v-if", "v-else-if", "v-show"}
var c13AllPos = append(append([]string{}, c13PrintPos...), c13CondPos...)

type c13Seen struct {
	err     error
	text    string
	attr    string
	hasAttr bool
	truth   bool
	missing bool // the marker element was not found in the output
}

func c13Element(pos, src, q string, tight bool) string {
	switch pos {
	case "text":
		if tight {
			return `<i data-m="text">[{{` + src + `}}]</i>`
		}
		return `<i data-m="text">[{{ ` + src + ` }}]</i>`
	case "attr-text":
		if tight {
			return `<i data-m="attr-text" data-w=` + q + `[{{` + src + `}}]` + q + `></i>`
		}
		return `<i data-m="attr-text" data-w=` + q + `[{{ ` + src + ` }}]` + q + `></i>`
	case "attr":
		return `<i data-m="attr" :data-v=` + q + src + q + `></i>`
	case "v-bind":
		return `<i data-m="v-bind" v-bind:data-v=` + q + src + q + `></i>`
	case "v-if":
		return `<i data-m="v-if" v-if=` + q + src + q + `></i>`
	case "v-else-if":
		return `<i v-if="c13none"></i><i data-m="v-else-if" v-else-if=` + q + src + q + `></i>`
	}
	return `<i data-m="v-show" v-show=` + q + src + q + `></i>`
}

func c13Observe(out string, positions []string) map[string]*c13Seen {
	doc := oracle.Parse(out, false)
	res := map[string]*c13Seen{}
	for _, pos := range positions {
		s := &c13Seen{}
		res[pos] = s
		els := doc.ByAttr("data-m", pos)
		switch pos {
		case "text":
			if len(els) != 1 {
				s.missing = true
				continue
			}
			raw := els[0].RawText()
			if !strings.HasPrefix(raw, "[") || !strings.HasSuffix(raw, "]") || len(els[0].Kids) > 1 {
				s.missing = true
				s.text = raw
				continue
			}
			s.text = raw[1 : len(raw)-1]
		case "attr-text":
			if len(els) != 1 {
				s.missing = true
				continue
			}
			raw, _ := els[0].Attr("data-w")
			if !strings.HasPrefix(raw, "[") || !strings.HasSuffix(raw, "]") {
				s.missing = true
				s.text = raw
				continue
			}
			s.text = raw[1 : len(raw)-1]
		case "attr", "v-bind":
			if len(els) != 1 {
				s.missing = true
				continue
			}
			s.attr, s.hasAttr = els[0].Attr("data-v")
		case "v-if", "v-else-if":
			s.truth = len(els) == 1
		case "v-show":
			if len(els) != 1 {
				s.missing = true
				continue
			}
			st, _ := els[0].Attr("style")
			s.truth = !strings.Contains(strings.ReplaceAll(st, " ", ""), "display:none")
		}
	}
	return res
}

// c13Run renders the expression in the given positions: one combined template
// first; when that fails, one template per position, so that an error in one
// position does not hide the others.
func c13Run(o *core.Obs, src string, positions []string, tight bool, data map[string]any) (map[string]*c13Seen, string) {
	q := `"`
	if strings.Contains(src, `"`) {
		q = `'`
	}
	render := func(ps []string) (string, string, error) {
		var b strings.Builder
		for _, pos := range ps {
			b.WriteString(c13Element(pos, src, q, tight))
		}
		// One long-lived engine per worker process: the same expression text is
		// evaluated over differently typed environments on it, so anything the
		// engine caches per expression text must not depend on the first data seen.
		out, err := c13RenderShared(b.String(), data)
		o.Evals++
		return b.String(), out, err
	}
	tpl, out, err := render(positions)
	if err == nil {
		return c13Observe(out, positions), tpl
	}
	res := map[string]*c13Seen{}
	for _, pos := range positions {
		_, out, err := render([]string{pos})
		if err != nil {
			res[pos] = &c13Seen{err: err}
			continue
		}
		res[pos] = c13Observe(out, []string{pos})[pos]
	}
	return res, tpl
}

// ---------------------------------------------------------------- classification

func c13RootClass(e *c13E) string {
	switch e.K {
	case "2":
		switch e.Op {
		case "+", "-", "*", "/", "%":
			return "arith"
		case "==", "!=":
			return "eq"
		case "<", ">", "<=", ">=":
			return "cmp"
		}
		return "logic"
	case "u":
		if e.Op == "!" {
			return "not"
		}
		return "neg"
	case "?":
		return "ternary"
	case "c":
		return "call"
	case "|":
		return "pipe"
	case "p":
		return "path"
	}
	return "literal"
}

func c13IsLeaf(e *c13E) bool {
	return e.K != "2" && e.K != "u" && e.K != "?" && e.K != "c" && e.K != "|"
}

// c13TreeGroup classifies a tree case by its own features.
func c13TreeGroup(e *c13E, style string) string {
	if e.K == "u" {
		x := e
		for x.K == "u" {
			x = &x.A[0]
		}
		if c13IsLeaf(x) {
			return "unary-only"
		}
	}
	if c13IsLeaf(e) {
		if e.K == "p" {
			return "path"
		}
		return "bare-literal"
	}
	has := map[string]bool{}
	e.walk(func(x *c13E) {
		if x.K == "2" {
			has[x.Op] = true
		}
		if x.K == "?" {
			has["?"] = true
		}
	})
	switch style {
	case "unspaced":
		switch {
		case has["=="] || has["!="] || has["<="] || has[">="] || has["&&"] || has["||"]:
			return "unspaced/with-two-char-operator"
		case has["?"]:
			return "unspaced/with-ternary"
		}
		return "unspaced/one-char-operators-only"
	case "strict":
		if has["!="] {
			return "strict/neq"
		}
		return "strict/eq"
	case "dq":
		return "documented-dq"
	}
	return "documented"
}

func c13ConvTag(convs []string) string {
	if len(convs) == 0 {
		return "no-conversion"
	}
	for _, c := range convs {
		if c == "int->string" || c == "numlit->string" {
			return c
		}
	}
	return convs[0]
}

// ---------------------------------------------------------------- Exec

type c13Verdict struct {
	pos, defect, detail string
}

func (p *c13) Exec(ctx core.Ctx, cc any) core.Obs {
	c := cc.(c13Case)
	var o core.Obs
	if c.Part == "skip" || c.Part == "" {
		return o
	}
	if c.Part == "retype" && c.Retype != nil {
		c13ExecRetype(c, &o)
		return o
	}
	if c.Env < 0 || c.Env >= c13NEnv {
		o.Inconclusive = "bad environment id"
		return o
	}
	env := c13Envs[c.Env]
	style := c.Style
	if style == "" {
		style = "spaced"
	}

	// what the reference says
	var want c13V
	var st c13St
	var convs []string
	src := c.Src
	group := c.Group
	positions := c13PrintPos
	switch c.Part {
	case "doc":
		switch c.Pos {
		case "a":
			positions = c13AllPos
		case "c":
			positions = c13CondPos
		}
		if c.ErrFn != "" {
			st = c13St{Err: "documented-failure", Fn: c.ErrFn}
		} else {
			want = c13VS(c.Want)
			if !c.Truth {
				want = c13VB(false)
			} else if c.Want == "true" {
				want = c13VB(true)
			}
		}
		group = c.Group
	default:
		if c.E == nil {
			o.Inconclusive = "case without expression"
			return o
		}
		src = c13Render(c.E, style)
		ev := &c13Ev{env: env}
		want, st = ev.eval(c.E)
		convs = ev.convs
		if c.Part == "tree" || c.Part == "special" || c.All {
			positions = c13AllPos
		}
		if c.Part == "special" {
			// pipes are documented for the printing positions only
			pipe := false
			c.E.walk(func(x *c13E) { pipe = pipe || x.K == "|" })
			if pipe {
				positions = c13PrintPos
			}
		}
		switch c.Part {
		case "tree":
			group = c13TreeGroup(c.E, style)
		case "chain":
			// the one conversion known to be rune-sensitive is a feature of its own;
			// the pairing part names every other conversion precisely
			group = "other"
			if t := c13ConvTag(convs); t == "int->string" || t == "numlit->string" {
				group = "conv:" + t
			}
		case "pair":
			group = "conv:" + c13ConvTag(convs)
			o.Cell("pair/" + c.Tag)
		case "quote":
			group = c.Tag
			if c.All {
				group = "operand" // the content class matters for filter arguments; operands go through one lexer
			}
		case "err":
			group = c.Tag
		}
	}

	// positions the surface text cannot be put into
	var usable []string
	for _, pos := range positions {
		switch {
		case pos == "text" && c13BreaksText(src):
			o.Cell("not-rendered/text-position/markup-like-source")
		case pos != "text" && strings.Contains(src, `"`) && strings.Contains(src, `'`):
			o.Cell("not-rendered/attribute-position/both-quote-kinds")
		default:
			usable = append(usable, pos)
		}
	}
	if len(usable) == 0 {
		return o
	}

	seen, tpl := c13Run(&o, src, usable, c.Tight, c13Data(env))

	o.Cell("part/" + c.Part)
	if c.Part == "tree" || c.Part == "special" {
		o.Cell("group/" + c.Part + "/" + group)
	}
	if c.E != nil {
		o.Cell("root/" + c13RootClass(c.E))
		if c.Part == "tree" {
			o.Cell(fmt.Sprintf("tree-depth/%d", c13Depth(c.E)))
			o.Cell("style/" + style)
			c.E.walk(func(x *c13E) {
				switch x.K {
				case "2", "u":
					o.Cell("operator/" + x.K + "/" + x.Op)
				case "?":
					o.Cell("operator/ternary")
				}
			})
		}
		c.E.walk(func(x *c13E) {
			if x.K == "c" {
				o.Cell("function/" + x.Op)
			}
		})
		if c.E.K == "|" {
			o.Cell(fmt.Sprintf("chain-length/%d", len(c.E.A)-1))
		}
	}
	for _, cv := range convs {
		o.Cell("conversion/" + cv)
	}

	switch {
	case st.Und != "":
		o.Cell("not-judged/" + st.Und)
		// still: what {{ }} printed and what the bound attribute carries must agree
		t, a := seen["text"], seen["attr"]
		if t != nil && a != nil && t.err == nil && a.err == nil && !t.missing && a.hasAttr && t.text != a.attr && !c13HasCtl(t.text+a.attr) {
			o.Fail(c, c.Part+"/undecided-value/text-and-attribute-disagree", "expression %q (env %d): {{ }} printed %q, the bound attribute carries %q\ntemplate: %s", src, c.Env, t.text, a.attr, tpl)
		}
		for _, pos := range usable {
			if s := seen[pos]; s.err != nil {
				o.Cell("not-judged-outcome/error")
				if f := c13FnOf(c.E); f != "" && !strings.Contains(s.err.Error(), f) {
					o.Fail(c, c.Part+"/undecided-value/error-not-naming-function", "expression %q in %s failed without naming %s: %v", src, pos, f, s.err)
				}
			}
		}
		return o
	case st.Err != "":
		o.Cell("reference/error/" + st.Err)
	default:
		o.Cell("reference/value/" + c13TypeClass(want))
		o.Cell(fmt.Sprintf("reference/truthy/%v", c13Truthy(want)))
	}
	o.NT(src, c.Env, strings.Join(usable, ","))

	show := c13Show(want)
	truthy := c13Truthy(want)
	falseString := want.T == "string" && want.S == "false"
	var verdicts []c13Verdict
	for _, pos := range usable {
		s := seen[pos]
		o.Cell("position/" + pos)
		bad := func(defect, format string, args ...any) {
			verdicts = append(verdicts, c13Verdict{pos, defect, fmt.Sprintf(format, args...)})
		}
		if st.Err != "" {
			switch {
			case s.err == nil:
				bad("no-error", "the render succeeded (%s)", c13Describe(pos, s))
			case !strings.Contains(s.err.Error(), st.Fn):
				bad("error-not-naming-function", "error does not name %s: %v", st.Fn, s.err)
			}
			continue
		}
		if s.err != nil {
			bad("error", "render failed: %v", s.err)
			continue
		}
		if s.missing {
			bad("marker-element-lost", "the carrying element is not in the output as written (%q)", s.text)
			continue
		}
		switch pos {
		case "text", "attr-text":
			if s.text != show {
				d := "wrong-value"
				if s.text == "" {
					d = "empty"
				}
				bad(d, "printed %q, want %q", s.text, show)
			}
		case "attr", "v-bind":
			switch {
			case !s.hasAttr && truthy && !falseString:
				bad("empty", "attribute not emitted, want %q", show)
			case s.hasAttr && s.attr != show:
				bad("wrong-value", "attribute value %q, want %q", s.attr, show)
			}
		default:
			if falseString {
				o.Cell("not-judged/truthiness-of-string-false")
				continue
			}
			if s.truth != truthy {
				bad("wrong-truth", "treated as truthy=%v, the value %s is truthy=%v", s.truth, c13Brief(want), truthy)
			}
		}
	}

	// Position classes for signatures: interp ({{ }} in text and inside a static
	// attribute), bound (:a and v-bind:a), cond (v-if, v-else-if, v-show). A class
	// verdict is formed when every position of the class that could show the defect
	// shows the same one (an absent attribute for a falsy value cannot show
	// anything); interp + bound together become "print".
	sensitive := func(pos string) bool {
		if (pos == "attr" || pos == "v-bind") && st.Err == "" {
			if s := seen[pos]; s != nil && s.err == nil && !s.hasAttr && (!truthy || falseString) {
				return false
			}
		}
		return true
	}
	if c.Part == "chain" || c.Part == "pair" || (c.Part == "quote" && !c.All) {
		// filter chains / pairings / quoted filter arguments: one class of defect per
		// root cause, however the wrong intermediate value shows downstream
		for i := range verdicts {
			switch verdicts[i].defect {
			case "empty", "wrong-value", "error", "marker-element-lost":
				verdicts[i].defect = "wrong-result"
			}
		}
	}
	classOf := map[string]string{"text": "interp", "attr-text": "interp", "attr": "bound", "v-bind": "bound", "v-if": "cond", "v-else-if": "cond", "v-show": "cond"}
	members := map[string]int{}
	for _, u := range usable {
		if sensitive(u) {
			members[classOf[u]]++
		}
	}
	fold := func(into string, from func(pos string) string, need map[string]int) {
		var idx []int
		for i, v := range verdicts {
			if from(v.pos) == into {
				idx = append(idx, i)
			}
		}
		if len(idx) == 0 || len(idx) != need[into] {
			return
		}
		defect := verdicts[idx[0]].defect
		var det []string
		for _, i := range idx {
			if verdicts[i].defect != defect {
				return
			}
			det = append(det, verdicts[i].pos+": "+verdicts[i].detail)
		}
		var keep []c13Verdict
		for _, v := range verdicts {
			if from(v.pos) != into {
				keep = append(keep, v)
			}
		}
		verdicts = append(keep, c13Verdict{into, defect, strings.Join(det, "; ")})
	}
	for _, k := range []string{"interp", "bound", "cond"} {
		fold(k, func(pos string) string { return classOf[pos] }, members)
	}
	printClasses := 0
	for _, k := range []string{"interp", "bound"} {
		if members[k] > 0 {
			printClasses++
		}
	}
	fold("print", func(pos string) string {
		if pos == "interp" || pos == "bound" {
			return "print"
		}
		return ""
	}, map[string]int{"print": printClasses})

	for _, v := range verdicts {
		sig := c.Part + "/" + group + "/" + v.pos + "/" + v.defect
		if c.Part == "tree" && group == "documented" {
			sig += "/" + c13RootClass(c.E)
		}
		if c.Part == "err" && c.E.K == "2" && len(c.E.A) == 2 && c.E.A[0].K == "c" {
			// the failing call stands first in the operator expression: a class of its own, so that the recorded finding
			// about a call that stands later (bt && nosuch(n)) does not cover it
			sig += "/call-first"
		}
		exp := "value " + c13Brief(want)
		if st.Err != "" {
			exp = "a render error (" + st.Err + ") naming " + st.Fn
		}
		o.Fail(c, sig, "expression %q (style %s, env %d) in %s: %s\nreference: %s\ntemplate: %s", src, style, c.Env, v.pos, v.detail, exp, tpl)
	}
	if len(verdicts) == 0 && c.Part == "tree" && c13Depth(c.E) >= 2 && strings.Contains(src, "?") {
		o.Sample = map[string]any{"expression": src, "env": c.Env, "reference": c13Brief(want), "positions": usable}
	}
	return o
}

func c13BreaksText(src string) bool {
	for i := 0; i+1 < len(src); i++ {
		if src[i] == '<' {
			n := src[i+1]
			if (n >= 'a' && n <= 'z') || (n >= 'A' && n <= 'Z') || n == '/' || n == '!' || n == '?' {
				return true
			}
		}
	}
	return strings.Contains(src, "{{") || strings.Contains(src, "}}")
}

func c13HasCtl(s string) bool {
	for i := 0; i < len(s); i++ {
		if s[i] < 0x20 || s[i] == 0x7f {
			return true
		}
	}
	return false
}

// c13FnOf returns the function of a call / the last filter of a pipe (used only for undecided cases).
func c13FnOf(e *c13E) string {
	if e == nil {
		return ""
	}
	if e.K == "c" {
		return e.Op
	}
	return ""
}

func c13TypeClass(v c13V) string {
	switch {
	case c13IsInt(v.T):
		return "int"
	case c13IsFloat(v.T):
		return "float"
	}
	return v.T
}

func c13Brief(v c13V) string {
	if v.T == "string" {
		return fmt.Sprintf("string(%q)", v.S)
	}
	if v.T == "nil" {
		return "nil"
	}
	return fmt.Sprintf("%s(%s)", v.T, clip(c13Show(v), 80))
}

func c13Describe(pos string, s *c13Seen) string {
	switch pos {
	case "text", "attr-text":
		return fmt.Sprintf("printed %q", s.text)
	case "attr", "v-bind":
		if !s.hasAttr {
			return "attribute not emitted"
		}
		return fmt.Sprintf("attribute value %q", s.attr)
	}
	return fmt.Sprintf("condition treated as %v", s.truth)
}

var (
	c13Base     vuego.Template
	c13BaseOnce sync.Once
)

func c13RenderShared(tpl string, data map[string]any) (string, error) {
	c13BaseOnce.Do(func() { c13Base = vuego.New(vuego.WithFuncs(c13FuncMap)) })
	var b bytes.Buffer
	err := c13Base.New().Fill(data).RenderString(bg, &b, tpl)
	return b.String(), err
}
