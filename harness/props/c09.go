package props

import (
	"bytes"
	"encoding/json"
	"fmt"
	"io"
	"io/fs"
	"os"
	"path/filepath"
	"runtime"
	"sort"
	"strconv"
	"strings"
	"sync"
	"sync/atomic"
	"time"

	"github.com/anishathalye/porcupine"
	vuego "github.com/titpetric/vuego"

	"verifharness/core"
)

// C09 — one engine serves any number of concurrent renders without races or cross-talk.
// Monitors: (1) the Go race detector (worker built with -race, halt_on_error=0,
// reports parsed and de-duplicated at the end of the shard); (2) every
// concurrent call's (bytes, error) compared with the same call run alone on a
// fresh engine; (3) porcupine linearizability check of recorded render/edit
// histories against a per-file register model. Failpoints at the engine's hook
// points (yields, short sleeps, rendezvous) widen the interleavings.

type c09Case struct {
	Kind       string `json:"kind"` // stress | lin
	Mode       string `json:"mode"` // vue | template | mixed
	N          int    `json:"n"`
	Iter       int    `json:"iter"`
	Shared     bool   `json:"shared"`
	Warm       bool   `json:"warm"`
	Rendezvous bool   `json:"rendezvous"`
	Sched      uint64 `json:"sched"`
	Run        int    `json:"run"`
	StructBase bool   `json:"struct_base,omitempty"` // the shared base template was filled with struct data before the concurrent phase
	Plain      bool   `json:"plain,omitempty"`       // engines without node processors, with component shorthand tags registered
	Focus      string `json:"focus,omitempty"` // name of the program half of all calls render ("" = none): every program is hammered against itself in some run
}

// ---- failpoint scheduler (monitor state is atomic; it must not itself be a race)
var (
	c09Once     sync.Once
	c09On       atomic.Bool
	c09Rdv      atomic.Bool
	c09SchedKey atomic.Uint64
	c09Ctr      atomic.Uint64
	c09Hits     [32]atomic.Int64 // per point
	c09Met      [32]atomic.Int64 // rendezvous met per point
	c09Yields   atomic.Int64
	c09Sleeps   atomic.Int64
	c09RdvMu    sync.Mutex
	c09Waiting  [32]chan struct{}
	c09TraceMu  sync.Mutex
	c09Trace    []uint32 // (point<<16 | goroutine rank) at the interesting points of the current run
	c09Ranks    map[int64]int
)

func c09Interesting(point int) bool {
	switch point {
	case vuego.VerifCacheHit, vuego.VerifCacheMiss, vuego.VerifCacheStore, vuego.VerifFMMerge, vuego.VerifVOnceAssign,
		vuego.VerifPathMiss, vuego.VerifPathStore, vuego.VerifExprMiss, vuego.VerifExprStore:
		return true
	}
	return false
}

func c09Goid() int64 {
	var buf [64]byte
	n := runtime.Stack(buf[:], false)
	// "goroutine 123 ["
	s := string(buf[:n])
	s = strings.TrimPrefix(s, "goroutine ")
	if i := strings.IndexByte(s, ' '); i > 0 {
		id, _ := strconv.ParseInt(s[:i], 10, 64)
		return id
	}
	return 0
}

func c09Mix(x uint64) uint64 {
	x += 0x9E3779B97F4A7C15
	x = (x ^ (x >> 30)) * 0xBF58476D1CE4E5B9
	x = (x ^ (x >> 27)) * 0x94D049BB133111EB
	return x ^ (x >> 31)
}

func c09Install() {
	c09Once.Do(func() {
		addHook(func(point, a, b int) {
			if !c09On.Load() || point >= 32 {
				return
			}
			c09Hits[point].Add(1)
			if !c09Interesting(point) {
				// hot points (evaluate, serialise): a rare yield only
				if c09Mix(c09Ctr.Add(1)^c09SchedKey.Load())%257 == 0 {
					c09Yields.Add(1)
					runtime.Gosched()
				}
				return
			}
			gid := c09Goid()
			c09TraceMu.Lock()
			rank, ok := c09Ranks[gid]
			if !ok {
				rank = len(c09Ranks)
				c09Ranks[gid] = rank
			}
			if len(c09Trace) < 96 {
				c09Trace = append(c09Trace, uint32(point)<<16|uint32(rank))
			}
			c09TraceMu.Unlock()
			r := c09Mix(c09Ctr.Add(1) ^ c09SchedKey.Load())
			if c09Rdv.Load() && (point == vuego.VerifCacheMiss || point == vuego.VerifCacheStore || point == vuego.VerifPathStore || point == vuego.VerifExprStore || point == vuego.VerifPathMiss || point == vuego.VerifExprMiss || point == vuego.VerifVOnceAssign || point == vuego.VerifFMMerge) && r%3 != 0 {
				c09Rendezvous(point)
				return
			}
			switch r % 4 {
			case 0:
				c09Yields.Add(1)
				runtime.Gosched()
			case 1:
				c09Sleeps.Add(1)
				time.Sleep(time.Duration(20+(r>>8)%480) * time.Microsecond)
			}
		})
	})
}

// c09Rendezvous holds the caller at point until another goroutine reaches the
// same point (both then proceed into the critical window together), or 300µs pass.
func c09Rendezvous(point int) {
	c09RdvMu.Lock()
	if ch := c09Waiting[point]; ch != nil {
		c09Waiting[point] = nil
		close(ch)
		c09Met[point].Add(1)
		c09RdvMu.Unlock()
		return
	}
	ch := make(chan struct{})
	c09Waiting[point] = ch
	c09RdvMu.Unlock()
	select {
	case <-ch:
	case <-time.After(300 * time.Microsecond):
		c09RdvMu.Lock()
		if c09Waiting[point] == ch {
			c09Waiting[point] = nil
		}
		c09RdvMu.Unlock()
	}
}

var c09PointNames = map[int]string{
	vuego.VerifCacheHit: "cacheHit", vuego.VerifCacheMiss: "cacheMiss", vuego.VerifCacheStore: "cacheStore", vuego.VerifFMMerge: "fmMerge", vuego.VerifVOnceAssign: "vonceAssign",
	vuego.VerifPathMiss: "pathMiss", vuego.VerifPathStore: "pathStore", vuego.VerifExprMiss: "exprMiss", vuego.VerifExprStore: "exprStore",
	vuego.VerifPoolGet: "poolGet", vuego.VerifPoolPut: "poolPut", vuego.VerifBufGet: "bufGet", vuego.VerifEvalEnter: "evalEnter", vuego.VerifIncludeEnter: "includeEnter", vuego.VerifSerializeNode: "serializeNode", vuego.VerifLayoutIter: "layoutIter", vuego.VerifSlotEnter: "slotEnter",
}

type c09 struct {
	progs []Prog
}

func init() {
	p := &c09{progs: Catalogue()}
	core.Register(p, core.Meta{
		Race:    true,
		Workers: 8,
		Assumptions: []string{
			"the Go race detector (happens-before analysis) only sees the conflicting access pairs that were executed; schedules are perturbed by failpoints, not enumerated",
			"the in-memory filesystem of the edit workload is itself linearizable (one mutex; content and mtime swapped atomically; mtime is a logical clock); timestamps order call/return events only (one monotonic source)",
			"porcupine (v1.3.0) decides linearizability of each recorded history against a register-per-file model; a checker timeout is inconclusive",
			"callers share data read-only and call Fill only on the per-request template returned by New()/Load(), as docs/concurrency.md prescribes",
		},
		TimeoutS:      func(ctx core.Ctx) int { return ctx.Pick(1200, 7200) },
		Finish:        c09Finish,
		MinNonTrivial: func(ctx core.Ctx) int { return 20 },
	})
}

func (p *c09) ID() string { return "C09" }
func (p *c09) Rule() string {
	return "case = one short run on one shared engine: N in {2,4,8,16} goroutines released by a barrier onto a cold (or pre-warmed) engine, the engine set up either with the LESS node processor or (every third run) without any node processor and with component shorthand tags registered (WithComponents / RegisterComponent), each rendering ~25 programs of the shared catalogue (all features incl. failing programs) plus per-iteration previously unseen expressions and dotted paths, requests on an engine without a filesystem that Fill the map all goroutines share and then Assign a value of their own, through Vue.Render/RenderFragment on one Vue or New()/Load().Fill().Render/RenderFile/RenderString on one base Template, with private or one shared read-only data value; failpoints at the engine's hook points inject seeded yields/sleeps and rendezvous (two goroutines enter the same cache window together); 'lin' runs add 2 editors rewriting page/component files underneath 6 renderers and record a history checked by porcupine; every call's bytes+error are compared with the call run alone; race-detector reports are collected per worker; non-trivial = run in which >=2 goroutines overlapped; distinct by (run configuration, observed interleaving signature at the cache points)"
}

func (p *c09) Plan(ctx core.Ctx) int { return ctx.Pick(320, 3000) }

func (p *c09) Gen(ctx core.Ctx, i int) any {
	r := core.NewRNG(ctx.Seed, 0xC09, uint64(i))
	c := c09Case{Run: i, Sched: r.Next(), N: []int{2, 4, 8, 16}[r.Intn(4)], Iter: 20 + r.Intn(12), Shared: r.Bool(), Warm: r.Chance(1, 4), Rendezvous: r.Chance(2, 3)}
	if i%5 == 4 {
		c.Kind = "lin"
		c.Mode = []string{"vue", "template"}[r.Intn(2)]
		return c
	}
	c.Kind = "stress"
	c.Mode = []string{"vue", "template", "mixed"}[r.Intn(3)]
	c.StructBase = r.Chance(1, 3)
	c.Plain = i%3 == 1
	if c.Plain && i%2 == 1 {
		c.Focus = "shorthand-components"
	} else if i%4 != 3 {
		// rotate the focus through the catalogue (i advances by 1, lin runs take every 5th slot)
		c.Focus = p.progs[(i-i/5)%len(p.progs)].Name
	}
	return c
}

func (p *c09) Decode(raw json.RawMessage) (any, error) { return core.JSONDecode[c09Case](raw) }

// c09SiteCfg: field names and tags that no catalogue program reads.
type c09SiteCfg struct {
	SiteName string      `json:"c09_site_name"`
	Build    int         `json:"c09_build"`
	Flags    []string    `json:"c09_flags"`
	Inner    *c09SiteCfg `json:"c09_inner"`
}

type c09Call struct {
	prog  *Prog
	ep    string
	v     int // data variant
	data  any
	out   string
	err   string
	fresh bool
}

func (p *c09) Exec(ctx core.Ctx, cc any) core.Obs {
	c := cc.(c09Case)
	c09Install()
	if c.N < 2 {
		c.N = 2
	}
	if c.Kind == "lin" {
		return p.execLin(ctx, c)
	}
	var o core.Obs
	files := CatFS(p.progs, nil)
	fsys := memFS(files)
	mkEngine := newCatEngine
	if c.Plain {
		mkEngine = newCatEnginePlain
		o.Cell("engine/no-processors+shorthand-components")
	} else {
		o.Cell("engine/less-processor")
	}
	eng := mkEngine(fsys)
	if c.StructBase {
		// site-wide settings given as a struct to the long-lived base template: every
		// Load / New / RenderString of the concurrent phase starts from that shared stack
		eng.base = eng.base.Fill(&c09SiteCfg{SiteName: "site", Build: 7, Flags: []string{"x"}, Inner: &c09SiteCfg{SiteName: "inner"}})
		o.Cell("base/filled-with-struct")
	} else {
		o.Cell("base/not-filled")
	}

	// plans
	var focus *Prog
	for i := range p.progs {
		if c.Focus != "" && p.progs[i].Name == c.Focus {
			focus = &p.progs[i]
		}
	}
	if focus != nil {
		o.Cell("focus/" + focus.Name)
	} else {
		o.Cell("focus/none")
	}
	plans := make([][]*c09Call, c.N)
	shared := map[string]any{}
	nofsShared := map[string]any{"title": "shared title", "n": 5}
	var freshProgs []*Prog
	for g := 0; g < c.N; g++ {
		r := core.NewRNG(c.Sched, uint64(g), 77)
		for k := 0; k < c.Iter; k++ {
			var call c09Call
			if k%5 == 3 {
				// previously unseen expressions and dotted paths (keeps the shared caches growing)
				u := fmt.Sprintf("%d_%d_%d", c.Run, g, k)
				fp := &Prog{Name: "fresh-expr", Mode: "string",
					Str:  fmt.Sprintf(`<p data-u="%s">{{ n + %d }}|{{ user.k%s }}|{{ deep.a%s.b[1].c }}|{{ n * 2 > %d ? "y" : "n" }}|{{ title | upper }}</p>`, u, g*1000+k, u, u, k),
					Data: tvMap(map[string]TV{"n": tvI(5), "title": tvS("t"), "user": tvMap(map[string]TV{"k" + u: tvS("v" + u)}), "deep": tvMap(map[string]TV{"a" + u: tvMap(map[string]TV{"b": tvList(tvI(0), tvMap(map[string]TV{"c": tvS("leaf" + u)}))})})})}
				freshProgs = append(freshProgs, fp)
				call = c09Call{prog: fp, fresh: true}
			} else if k%5 == 2 && c.Shared && c.Mode != "vue" {
				// engine without a filesystem, Fill with the map all goroutines share, then Assign a value of this request's own
				u := fmt.Sprintf("%d_%d_%d", c.Run, g, k)
				np := &Prog{Name: "nofs-assign", Mode: "nofs-assign", Entry: "own-" + u,
					Str:  fmt.Sprintf(`<p data-a="%s">{{ lk_assigned }}|{{ title }}|{{ n + 1 }}<i v-if="lk_assigned == 'own-%s'">mine</i></p>`, u, u),
					Data: tvMap(map[string]TV{})}
				freshProgs = append(freshProgs, np)
				call = c09Call{prog: np, fresh: true}
			} else if k%5 == 1 && c.Mode != "vue" {
				// a string template rendered straight on the shared base template (no New, no Fill)
				u := fmt.Sprintf("%d_%d_%d", c.Run, g, k)
				bp := &Prog{Name: "base-string", Mode: "base-string",
					Str:  fmt.Sprintf(`<p data-b="%s">{{ SiteName }}|{{ site_name }}|{{ Build }}<i v-for="(i, f) in Flags">{{ i }}{{ f }}<b v-for="n in two%s">{{ n }}</b></i><template :lk_b="'%s'"><u>{{ lk_b }}</u></template><em v-if="Inner">{{ Inner.SiteName }}</em></p>`, u, u, u),
					Data: tvMap(map[string]TV{})}
				freshProgs = append(freshProgs, bp)
				call = c09Call{prog: bp, fresh: true}
			} else {
				call = c09Call{prog: &p.progs[r.Intn(len(p.progs))]}
				if focus != nil && r.Bool() {
					call.prog = focus
				}
			}
			switch c.Mode {
			case "vue":
				call.ep = []string{"vue-render", "vue-fragment"}[r.Intn(2)]
			case "template":
				call.ep = []string{"load-render", "renderfile"}[r.Intn(2)]
			default:
				call.ep = core.Pick(r, catEntryPoints)
			}
			if c.Shared && !call.fresh {
				if _, ok := shared[call.prog.Name]; !ok {
					shared[call.prog.Name] = call.prog.Data.Go()
				}
				call.data = shared[call.prog.Name]
			} else {
				// private data differs from call to call, so that another request's
				// values showing up in this one's output are visible
				if !call.fresh {
					call.v = r.Intn(4)
				}
				call.data = call.prog.Variant(call.v)
			}
			if call.prog.Mode == "nofs-assign" {
				call.data = nofsShared
			}
			plans[g] = append(plans[g], &call)
		}
	}
	if c.Warm {
		for i := range p.progs {
			eng.run(&p.progs[i], "vue-render", p.progs[i].Data.Go())
			eng.run(&p.progs[i], "load-render", p.progs[i].Data.Go())
		}
	}

	// concurrent phase
	c09TraceMu.Lock()
	c09Trace = c09Trace[:0]
	c09Ranks = map[int64]int{}
	c09TraceMu.Unlock()
	var hits0, met0 [32]int64
	for i := range hits0 {
		hits0[i], met0[i] = c09Hits[i].Load(), c09Met[i].Load()
	}
	c09SchedKey.Store(c.Sched)
	c09Rdv.Store(c.Rendezvous)
	var active, maxActive atomic.Int64
	start := make(chan struct{})
	var wg sync.WaitGroup
	for g := 0; g < c.N; g++ {
		wg.Add(1)
		go func(g int) {
			defer wg.Done()
			<-start
			for _, call := range plans[g] {
				a := active.Add(1)
				for {
					m := maxActive.Load()
					if a <= m || maxActive.CompareAndSwap(m, a) {
						break
					}
				}
				out, err := c09Safe(func() (string, error) { return eng.run(call.prog, call.ep, call.data) })
				active.Add(-1)
				call.out, call.err = out, errStr(err)
			}
		}(g)
	}
	c09On.Store(true)
	close(start)
	wg.Wait()
	c09On.Store(false)
	c09Rdv.Store(false)

	// observations
	c09TraceMu.Lock()
	sig := core.HashOf(fmt.Sprint(c09Trace))
	tracelen := len(c09Trace)
	c09TraceMu.Unlock()
	for i := range hits0 {
		if d := c09Hits[i].Load() - hits0[i]; d > 0 {
			o.Count("hook_hits/"+c09PointNames[i], d)
		}
		if d := c09Met[i].Load() - met0[i]; d > 0 {
			o.Count("rendezvous_met/"+c09PointNames[i], d)
		}
	}
	o.Count("max_concurrent_renders_observed", 0)
	if maxActive.Load() >= 2 {
		o.NT(c.Kind, c.Mode, c.N, c.Shared, c.Warm, c.Rendezvous, sig)
		o.Cell(fmt.Sprintf("overlap/N=%d", c.N))
	}
	o.Cell("mode/" + c.Mode)
	if c.Shared {
		o.Cell("data/shared-readonly")
	} else {
		o.Cell("data/private")
	}
	if c.Warm {
		o.Cell("cache/warm")
	} else {
		o.Cell("cache/cold")
	}

	// solo phase: the same call alone on a fresh engine
	solo := map[string]c10Ref{}
	for g := range plans {
		for _, call := range plans[g] {
			o.Evals++
			key := fmt.Sprintf("%s/%s/%d", call.prog.Name, call.ep, call.v)
			if call.fresh {
				key = call.prog.Str + "/" + call.ep
			}
			ref, ok := solo[key]
			if !ok {
				soloEng := mkEngine(fsys)
				if c.StructBase {
					soloEng.base = soloEng.base.Fill(&c09SiteCfg{SiteName: "site", Build: 7, Flags: []string{"x"}, Inner: &c09SiteCfg{SiteName: "inner"}})
				}
				soloData := call.prog.Variant(call.v)
				if call.prog.Mode == "nofs-assign" {
					soloData = map[string]any{"title": "shared title", "n": 5}
				}
				out, err := soloEng.run(call.prog, call.ep, soloData)
				ref = c10Ref{out, errStr(err)}
				solo[key] = ref
				o.Evals++
			}
			cls := call.prog.Name
			if call.prog.WantErr {
				cls = "failing:" + cls
			}
			if strings.HasPrefix(call.err, "PANIC") {
				o.Fail(c, "panic-under-concurrency/"+cls+"/"+call.ep, "goroutine %d: %s", g, clip(call.err, 1500))
				continue
			}
			if call.err != ref.err {
				o.Fail(c, "crosstalk-error/"+cls+"/"+call.ep, "concurrent call returned error %q, the same call alone returns %q", call.err, ref.err)
				continue
			}
			if call.out != ref.out {
				o.Fail(c, "crosstalk-bytes/"+cls+"/"+call.ep, "concurrent call returned different bytes than the same call alone (N=%d mode=%s shared=%v)\n%s", c.N, c.Mode, c.Shared, firstDiff(ref.out, call.out))
			}
		}
	}
	if mustJSONAny(nofsShared) != `{"n":5,"title":"shared title"}` {
		o.Fail(c, "shared-data-modified/nofs-assign", "the map all goroutines pass to Fill on the engine without a filesystem was modified: %s", clip(mustJSONAny(nofsShared), 300))
	}
	// shared data must be unchanged
	for name, d := range shared {
		for i := range p.progs {
			if p.progs[i].Name == name && mustJSONAny(d) != mustJSONAny(p.progs[i].Data.Go()) {
				o.Fail(c, "shared-data-modified/"+name, "the read-only data shared by all goroutines was modified by rendering program %s", name)
			}
		}
	}
	if c.Run%40 == 1 {
		o.Sample = map[string]any{"run": c, "interleaving_trace_len": tracelen, "max_concurrent": maxActive.Load(), "fresh_expression_programs": len(freshProgs)}
	}
	return o
}

func mustJSONAny(v any) string {
	raw, err := json.Marshal(v)
	if err != nil {
		return fmt.Sprint(v)
	}
	return string(raw)
}

func c09Safe(f func() (string, error)) (out string, err error) {
	defer func() {
		if r := recover(); r != nil {
			buf := make([]byte, 4096)
			n := runtime.Stack(buf, false)
			err = fmt.Errorf("PANIC %v\n%s", r, buf[:n])
		}
	}()
	return f()
}

// ---- linearizable in-memory filesystem for the edit workload

type linFile struct {
	data  []byte
	mtime time.Time
}

type linFS struct {
	mu    sync.Mutex
	files map[string]linFile
	clock int64
}

func (l *linFS) write(name string, data []byte) {
	l.mu.Lock()
	l.clock++
	l.files[name] = linFile{data: data, mtime: time.Unix(1700000000+l.clock, 0).UTC()}
	l.mu.Unlock()
}

func (l *linFS) get(name string) (linFile, bool) {
	l.mu.Lock()
	f, ok := l.files[name]
	l.mu.Unlock()
	return f, ok
}

type linOpen struct {
	name string
	f    linFile
	r    *bytes.Reader
}

func (o *linOpen) Stat() (fs.FileInfo, error) { return linInfo{o.name, o.f}, nil }
func (o *linOpen) Read(p []byte) (int, error) { return o.r.Read(p) }
func (o *linOpen) Close() error               { return nil }

type linInfo struct {
	name string
	f    linFile
}

func (i linInfo) Name() string       { return filepath.Base(i.name) }
func (i linInfo) Size() int64        { return int64(len(i.f.data)) }
func (i linInfo) Mode() fs.FileMode  { return 0o644 }
func (i linInfo) ModTime() time.Time { return i.f.mtime }
func (i linInfo) IsDir() bool        { return false }
func (i linInfo) Sys() any           { return nil }

func (l *linFS) Open(name string) (fs.File, error) {
	f, ok := l.get(name)
	if !ok {
		return nil, &fs.PathError{Op: "open", Path: name, Err: fs.ErrNotExist}
	}
	return &linOpen{name: name, f: f, r: bytes.NewReader(f.data)}, nil
}

func (l *linFS) ReadFile(name string) ([]byte, error) {
	f, ok := l.get(name)
	if !ok {
		return nil, &fs.PathError{Op: "open", Path: name, Err: fs.ErrNotExist}
	}
	return append([]byte(nil), f.data...), nil
}

func (l *linFS) Stat(name string) (fs.FileInfo, error) {
	f, ok := l.get(name)
	if !ok {
		return nil, &fs.PathError{Op: "stat", Path: name, Err: fs.ErrNotExist}
	}
	return linInfo{name, f}, nil
}

var _ io.Reader = (*linOpen)(nil)

type linIn struct {
	file  string
	write bool
	stamp int
}

func (p *c09) execLin(ctx core.Ctx, c c09Case) core.Obs {
	var o core.Obs
	lfs := &linFS{files: map[string]linFile{}}
	pageSrc := func(v int) []byte {
		return []byte(fmt.Sprintf("---\nfm: F%d\n---\n<main data-p=\"P%d\">{{ fm }} <template include=\"c.vuego\"></template></main>", v, v))
	}
	compSrc := func(v int) []byte { return []byte(fmt.Sprintf("<section data-c=\"C%d\">c</section>", v)) }
	var stampCtr atomic.Int64
	var t0 = time.Now()
	now := func() int64 { return int64(time.Since(t0)) }
	lfs.write("p.vuego", pageSrc(0))
	lfs.write("c.vuego", compSrc(0))
	base := vuego.NewFS(lfs)
	vue := vuego.NewVue(lfs)

	var hmu sync.Mutex
	var ops []porcupine.Operation
	record := func(op porcupine.Operation) {
		hmu.Lock()
		ops = append(ops, op)
		hmu.Unlock()
	}
	// initial writes are part of the history
	record(porcupine.Operation{ClientId: 0, Input: linIn{"p.vuego", true, 0}, Call: -2, Return: -1, Output: 0})
	record(porcupine.Operation{ClientId: 0, Input: linIn{"c.vuego", true, 0}, Call: -2, Return: -1, Output: 0})

	writers, readers := 2, 6
	if c.N >= 8 {
		readers = 10
	}
	edits, reads := 15, 40
	c09SchedKey.Store(c.Sched)
	c09Rdv.Store(c.Rendezvous)
	c09TraceMu.Lock()
	c09Trace = c09Trace[:0]
	c09Ranks = map[int64]int{}
	c09TraceMu.Unlock()
	start := make(chan struct{})
	var wg sync.WaitGroup
	var torn, rerr atomic.Int64
	var firstTorn, firstErr atomic.Value
	for w := 0; w < writers; w++ {
		wg.Add(1)
		go func(w int) {
			defer wg.Done()
			<-start
			for k := 0; k < edits; k++ {
				v := int(stampCtr.Add(1))
				file, data := "p.vuego", pageSrc(v)
				if (k+w)%2 == 1 {
					file, data = "c.vuego", compSrc(v)
				}
				call := now()
				lfs.write(file, data)
				ret := now()
				record(porcupine.Operation{ClientId: w, Input: linIn{file, true, v}, Call: call, Return: ret, Output: v})
				if k%3 == 0 {
					time.Sleep(50 * time.Microsecond)
				} else {
					runtime.Gosched()
				}
			}
		}(w)
	}
	for r := 0; r < readers; r++ {
		wg.Add(1)
		go func(r int) {
			defer wg.Done()
			<-start
			for k := 0; k < reads; k++ {
				var b bytes.Buffer
				var err error
				call := now()
				useVue := c.Mode == "vue"
				if useVue {
					err = vue.Render(&b, "p.vuego", map[string]any{})
				} else if k%2 == 0 {
					err = base.Load("p.vuego").Fill(map[string]any{}).Render(bg, &b)
				} else {
					err = base.New().RenderFile(bg, &b, "p.vuego")
				}
				ret := now()
				if err != nil {
					rerr.Add(1)
					firstErr.CompareAndSwap(nil, err.Error())
					continue
				}
				out := b.String()
				pv, cv := c09Stamp(out, `data-p="P`), c09Stamp(out, `data-c="C`)
				fv := -1
				if i := strings.Index(out, `data-p="P`); i >= 0 {
					if j := strings.Index(out[i:], ">"); j >= 0 {
						fv = c09Stamp(strings.TrimLeft(out[i+j+1:], " \n\t"), "F")
					}
				}
				if pv < 0 || cv < 0 {
					rerr.Add(1)
					firstErr.CompareAndSwap(nil, "stamps not found in: "+clip(out, 200))
					continue
				}
				if pv != fv {
					torn.Add(1)
					firstTorn.CompareAndSwap(nil, clip(out, 300))
				}
				record(porcupine.Operation{ClientId: writers + r, Input: linIn{"p.vuego", false, 0}, Call: call, Return: ret, Output: pv})
				record(porcupine.Operation{ClientId: writers + r, Input: linIn{"c.vuego", false, 0}, Call: call, Return: ret, Output: cv})
			}
		}(r)
	}
	c09On.Store(true)
	close(start)
	wg.Wait()
	c09On.Store(false)
	c09Rdv.Store(false)
	o.Evals += readers * reads
	o.Cell("lin/mode/" + c.Mode)
	c09TraceMu.Lock()
	sig := core.HashOf(fmt.Sprint(c09Trace))
	c09TraceMu.Unlock()
	o.NT("lin", c.Mode, sig)

	if n := rerr.Load(); n > 0 {
		o.Fail(c, "lin/render-error-under-edits/"+c.Mode, "%d renders failed while files were being rewritten atomically underneath (alone they succeed): %v", n, firstErr.Load())
	}
	if n := torn.Load(); n > 0 {
		o.Fail(c, "lin/torn-page/"+c.Mode, "%d renders combined the front-matter of one page version with the DOM of another: %v", n, firstTorn.Load())
	}
	model := porcupine.Model{
		Partition: func(history []porcupine.Operation) [][]porcupine.Operation {
			m := map[string][]porcupine.Operation{}
			for _, op := range history {
				f := op.Input.(linIn).file
				m[f] = append(m[f], op)
			}
			var keys []string
			for k := range m {
				keys = append(keys, k)
			}
			sort.Strings(keys)
			var out [][]porcupine.Operation
			for _, k := range keys {
				out = append(out, m[k])
			}
			return out
		},
		Init: func() any { return 0 },
		Step: func(state, input, output any) (bool, any) {
			in := input.(linIn)
			if in.write {
				return true, in.stamp
			}
			return output.(int) == state.(int), state
		},
		DescribeOperation: func(input, output any) string {
			in := input.(linIn)
			if in.write {
				return fmt.Sprintf("write(%s, %d)", in.file, in.stamp)
			}
			return fmt.Sprintf("read(%s) -> %d", in.file, output.(int))
		},
	}
	res, info := porcupine.CheckOperationsVerbose(model, ops, 60*time.Second)
	o.Count("porcupine_histories", 1)
	o.Count("porcupine_operations", int64(len(ops)))
	switch res {
	case porcupine.Illegal:
		o.Fail(c, "lin/not-linearizable/"+c.Mode, "the recorded history of %d operations (edits and renders of p.vuego/c.vuego) is not linearizable w.r.t. a register per file: some render returned a version older than one whose write had already returned\n%s", len(ops), c09Witness(info, ops))
	case porcupine.Unknown:
		o.Inconclusive = "porcupine timed out on a history of " + strconv.Itoa(len(ops)) + " operations"
	default:
		o.Cell("lin/linearizable")
	}
	if c.Run%50 == 4 {
		o.Sample = map[string]any{"run": c, "history_ops": len(ops), "editors": writers, "renderers": readers}
	}
	return o
}

func c09Witness(info porcupine.LinearizationInfo, ops []porcupine.Operation) string {
	// a compact witness: the latest reads that returned a stamp smaller than a write completed before they started
	var b strings.Builder
	last := map[string][]c09Wr{}
	for _, op := range ops {
		in := op.Input.(linIn)
		if in.write {
			last[in.file] = append(last[in.file], c09Wr{in.stamp, op.Return})
		}
	}
	n := 0
	for _, op := range ops {
		in := op.Input.(linIn)
		if in.write {
			continue
		}
		got := op.Output.(int)
		for _, w := range last[in.file] {
			if w.ret < op.Call && w.stamp > got && c09Newer(last[in.file], got, w) {
				fmt.Fprintf(&b, "read(%s) called at %d returned %d although write(%d) had returned at %d\n", in.file, op.Call, got, w.stamp, w.ret)
				n++
				break
			}
		}
		if n >= 5 {
			break
		}
	}
	_ = info
	return b.String()
}

// c09Newer: was write w completed after the write of stamp got (i.e. got is stale w.r.t. w)?
type c09Wr struct {
	stamp int
	ret   int64
}

func c09Newer(ws []c09Wr, got int, w c09Wr) bool {
	for _, x := range ws {
		if x.stamp == got {
			return x.ret < w.ret
		}
	}
	return true
}

func c09Stamp(out, marker string) int {
	i := strings.Index(out, marker)
	if i < 0 {
		return -1
	}
	i += len(marker)
	n, d := 0, 0
	for i < len(out) && out[i] >= '0' && out[i] <= '9' {
		n = n*10 + int(out[i]-'0')
		i++
		d++
	}
	if d == 0 {
		return -1
	}
	return n
}

// c09Finish parses this worker's race-detector log (written as races are
// detected), de-duplicates the report blocks and turns them into violations.
func c09Finish(ctx core.Ctx, o *core.Obs) {
	base := os.Getenv("VERIF_RACELOG")
	if base == "" {
		return
	}
	files, _ := filepath.Glob(base + "*")
	blocks := 0
	bySig := map[string]string{}
	for _, f := range files {
		raw, err := os.ReadFile(f)
		if err != nil {
			continue
		}
		for _, blk := range strings.Split(string(raw), "==================") {
			if !strings.Contains(blk, "WARNING: DATA RACE") {
				continue
			}
			blocks++
			sig := c09RaceSig(blk)
			if _, ok := bySig[sig]; !ok {
				bySig[sig] = blk
			}
		}
	}
	o.Count("race_report_blocks", int64(blocks))
	o.Count("race_distinct_signatures", int64(len(bySig)))
	o.Count("race_log_files", int64(len(files)))
	for sig, blk := range bySig {
		o.Fail(map[string]any{"kind": "race-report"}, sig, "the race detector reported a data race\n%s", clip(blk, 3000))
	}
}

// c09RaceSig: innermost vuego frame of each of the two accesses, line numbers stripped.
func c09RaceSig(blk string) string {
	var tops []string
	for _, part := range strings.Split(blk, "\n\n") {
		head := strings.TrimSpace(part)
		if !(strings.HasPrefix(head, "WARNING: DATA RACE") || strings.HasPrefix(head, "Previous ") || strings.HasPrefix(head, "Read at") || strings.HasPrefix(head, "Write at")) {
			continue
		}
		top := "?"
		for _, ln := range strings.Split(part, "\n") {
			ln = strings.TrimSpace(ln)
			if strings.HasPrefix(ln, "github.com/titpetric/vuego") {
				top = core.TopRepoFrame(ln)
				break
			}
		}
		tops = append(tops, top)
		if len(tops) == 2 {
			break
		}
	}
	sort.Strings(tops)
	return "race/" + strings.Join(tops, "|")
}
