package props

import (
	"bytes"
	"encoding/json"
	"fmt"
	"strings"
	"sync"
	"sync/atomic"
	"testing/fstest"
	"time"

	vuego "github.com/titpetric/vuego"

	"verifharness/core"
)

// C15 — a long-lived engine renders what a fresh engine would after any file edits.

type c15Case struct {
	Ops []string `json:"ops"` // e.g. "EP:adv", "EC:eq", "TP", "IP", "R1"
}

var c15EditKinds = []string{"EP", "EC", "EL"}
var c15Policies = []string{"adv", "sub", "eq", "back", "zero"} // sub: the mtime advances by a millisecond only (same second, usually the same length)
var c15Other = []string{"TP", "TC", "TL", "TS", "TB", "IP", "IC", "FP", "BP", "FC", "FL", "UP", "EN", "ES", "ZP", "ZL"} // ZP / ZL: the page / the layout becomes an empty file (a legitimate template: it renders nothing); F*: front-matter-only edit, BP: body-only edit (mtime advances)
var c15Renders = []string{"R1", "R2", "R3", "R4", "R5", "R6", "R7", "R8", "R9"} // R8 / R9: a page that is static except for a component shorthand tag (every second version of it has none), via Load().Render / Vue.Render // R7: Vue.Render of the page without any caller data // R5: Vue.RenderFragment of the page, R6: RenderString of a template that includes the component

func c15Alphabet() []string {
	var a []string
	for _, k := range c15EditKinds {
		for _, p := range c15Policies {
			a = append(a, k+":"+p)
		}
	}
	a = append(a, c15Other...)
	a = append(a, c15Renders...)
	return a
}

var (
	c15Once                       sync.Once
	c15Hits, c15Misses, c15Stores atomic.Int64
)

func c15Install() {
	c15Once.Do(func() {
		addHook(func(point, a, b int) {
			switch point {
			case vuego.VerifCacheHit:
				c15Hits.Add(1)
			case vuego.VerifCacheMiss:
				c15Misses.Add(1)
			case vuego.VerifCacheStore:
				c15Stores.Add(1)
			}
		})
	})
}

type c15 struct{ alpha []string }

func init() {
	core.Register(&c15{alpha: c15Alphabet()}, core.Meta{
		Assumptions: []string{
			"the reference at every render step is a newly created engine over the current files",
			"an edit that keeps the file's modification time equal to the previous version's, or sets it to the zero time, is exempt from the freshness claim as the cache documents: the long-lived engine may answer with any version written since the last distinguishable mtime change (checked by rendering every such combination on a fresh engine)",
			"the exemption ends where the engine itself has seen the file fail: once a render of the long-lived engine has failed on a missing or invalid page, no version older than that one is acceptable for it any more (\"a failed load or render never leaves a stale entry behind\"); the two long-lived engines (Template, Vue) have caches of their own and are tracked separately",
			"shorthand components registered by WithComponents() and the site configuration (theme.yml, data/*.yml) are read when the engine is created; files added to those sets later are outside the histories generated here",
			"testing/fstest.MapFS mutated in place is the filesystem; single goroutine",
		},
		Exhaustive: func(ctx core.Ctx) bool { return false },
	})
}

func (p *c15) ID() string { return "C15" }
func (p *c15) Rule() string {
	return "histories over a 38-symbol alphabet {edit page/component/layout x mtime policy (advance by a second, advance by a millisecond, equal, backwards, zero), front-matter-only and body-only edits, delete/recreate page/component/layout, create/delete a layout next to the page that shadows layouts/lay.vuego, delete/recreate the default layouts/base.vuego, make page/component invalid (bad YAML), render the page via Load().Render / RenderFile / Vue.Render (with and without caller data; the page reads a variable before a top-level <template> assigns it) / Vue.RenderFragment, render a second page that names no layout, render a string template that includes the component} on a page with front-matter + include + layout + a named slot template that the layout consumes; exhaustive for length <=3 (quick) / <=4 (thorough) each followed by eight renders, plus seeded histories of length 6-20; plus overlay histories: the engines on an OverlayFS(upper, lower) whose lower layer holds page, component and layout with modification times a day older than / a day newer than the overriding files, 6 histories of edits, deletions and re-creations of the overriding files x Load.Render / RenderFile / Vue.Render; after every render step the long-lived engine's (bytes, error-ness) is compared with a fresh engine; cache hit/miss/store hook counts prove which comparisons were answered from the cache; non-trivial = history containing at least one edit followed by a render; distinct by the op list"
}

func (p *c15) exh(ctx core.Ctx) int {
	n := len(p.alpha)
	t := 0
	pw := 1
	for l := 1; l <= ctx.Pick(3, 4); l++ {
		pw *= n
		t += pw
	}
	return t
}

func (p *c15) nRand(ctx core.Ctx) int { return ctx.Pick(5000, 150000) }

func (p *c15) Plan(ctx core.Ctx) int { return p.exh(ctx) + p.nRand(ctx) + c15NOverlay() }

func (p *c15) Gen(ctx core.Ctx, i int) any {
	n := len(p.alpha)
	if i < p.exh(ctx) {
		l, pw := 1, n
		for i >= pw {
			i -= pw
			pw *= n
			l++
		}
		ops := make([]string, l)
		for k := l - 1; k >= 0; k-- {
			ops[k] = p.alpha[i%n]
			i /= n
		}
		return c15Case{Ops: append(ops, "R7", "R1", "R5", "R2", "R9", "R6", "R3", "R8", "R7", "R4")}
	}
	if j := i - p.exh(ctx) - p.nRand(ctx); j >= 0 {
		return c15GenOverlay(j)
	}
	r := core.NewRNG(ctx.Seed, 0xC15, uint64(i))
	var ops []string
	for k := 6 + r.Intn(15); k > 0; k-- {
		if r.Chance(2, 5) {
			ops = append(ops, core.Pick(r, c15Renders))
		} else {
			ops = append(ops, core.Pick(r, p.alpha))
		}
	}
	return c15Case{Ops: append(ops, "R6", "R7", "R3", "R9", "R5", "R1", "R8", "R4", "R7", "R2")}
}

func (p *c15) Decode(raw json.RawMessage) (any, error) { return core.JSONDecode[c15Case](raw) }

type c15Version struct {
	n      int
	fv, bv int // version stamps of the front-matter and of the body
	exists bool
	valid  bool
	data   string
	mtime  time.Time
}

type c15World struct {
	fs      fstest.MapFS
	version int
	keepFV  int // writePart: front-matter / body version to keep (0 = new)
	keepBV  int
	empty   bool // the next write produces an empty (or white-space-only) file
	mtime   map[string]time.Time
	hist    map[string][]c15Version // every version ever written, oldest first
	// floor: index of the oldest version of a file an entry may still hold. A
	// render that tried to load the file and failed (missing, invalid) raises it:
	// "a failed load or render never leaves a stale entry behind".
	floor  map[string]int
	engine string // which of the two long-lived engines (each has a cache of its own) the current step uses
}

// accept returns the versions the long-lived engine may legitimately show for
// file: the current one, plus every older version whose modification time is
// indistinguishable from the current one (equal, or the current one is zero) -
// the documented limitation of an mtime-validated cache.
func (w *c15World) accept(file string) []c15Version {
	h := w.hist[file]
	if len(h) == 0 {
		return nil
	}
	cur := h[len(h)-1]
	out := []c15Version{cur}
	if !cur.exists {
		return out
	}
	for i, v := range h[:len(h)-1] {
		if i < w.floor[w.engine+"/"+file] {
			continue
		}
		if v.exists && (cur.mtime.IsZero() || v.mtime.Equal(cur.mtime)) {
			out = append(out, v)
		}
	}
	return out
}

// failedLoad records that a render has just tried to load file and could not
// (it is missing or invalid): nothing older may be served for it afterwards.
func (w *c15World) failedLoad(file string) {
	h := w.hist[file]
	if len(h) == 0 {
		return
	}
	if cur := h[len(h)-1]; !cur.exists || !cur.valid {
		w.floor[w.engine+"/"+file] = len(h) - 1
	}
}

const (
	c15Page = "p.vuego"
	c15Comp = "c.vuego"
	c15Lay  = "layouts/lay.vuego"
	// a layout next to the page: while it exists it shadows layouts/lay.vuego for
	// the page's `layout: lay` (relative before layouts/); absent at the start
	c15Shadow = "lay.vuego"
	// the default layout and a second page that names no layout
	c15Base  = "layouts/base.vuego"
	c15Page2 = "q.vuego"
	// a page without anything dynamic in it except a component shorthand tag, and that component
	c15Static = "s.vuego"
	c15Note   = "components/SiteNote.vuego"
)

func c15Content(file string, fv, v int, valid bool) string {
	switch file {
	case c15Page:
		if !valid {
			return fmt.Sprintf("---\n: : [bad %d\n---\n<p>x</p>", v)
		}
		return fmt.Sprintf("---\nlayout: lay\nfm: F%d\n---\n<template #side><i data-ps=\"P%d\">side</i></template><main data-p=\"P%d\">{{ fm }} [{{ seenb }}]<template include=\"c.vuego\"></template></main><template :seenb=\"fm\"></template>", fv, v, v)
	case c15Comp:
		if !valid {
			return fmt.Sprintf("---\n: : [bad %d\n---\n<p>x</p>", v)
		}
		return fmt.Sprintf("---\ncfm: CF%d\n---\n<section data-c=\"C%d\">{{ cfm }}</section>", fv, v)
	case c15Shadow:
		return fmt.Sprintf("---\nlfm: LF%d\n---\n<html><body data-l=\"L%d\" class=\"shadow\">{{ lfm }} {{ fm }}<aside><slot name=\"side\">ns</slot></aside><div v-html=\"content\"></div></body></html>", fv, v)
	case c15Base:
		return fmt.Sprintf("<html><body data-l=\"L%d\" class=\"base\"><div v-html=\"content\"></div></body></html>", v)
	case c15Page2:
		return fmt.Sprintf("<main data-p=\"P%d\">q <template include=\"c.vuego\"></template></main>", v)
	case c15Static:
		return fmt.Sprintf("<main data-p=\"P%d\">opening hours <site-note kind=\"info\"></site-note></main>", v)
	case c15Note:
		return fmt.Sprintf("<aside data-c=\"C%d\">note</aside>", v)
	default:
		return fmt.Sprintf("---\nlfm: LF%d\n---\n<html><body data-l=\"L%d\">{{ lfm }} {{ fm }}<aside><slot name=\"side\">ns</slot></aside><div v-html=\"content\"></div></body></html>", fv, v)
	}
}

func newC15World() *c15World {
	w := &c15World{fs: fstest.MapFS{}, mtime: map[string]time.Time{}, hist: map[string][]c15Version{}, floor: map[string]int{}}
	for _, f := range []string{c15Page, c15Comp, c15Lay, c15Page2, c15Base, c15Static, c15Note} {
		w.write(f, true, "adv")
	}
	return w
}

// writePart rewrites only the front-matter ("fm") or only the body ("body") of a file.
func (w *c15World) writePart(file, part string) {
	h := w.hist[file]
	if len(h) == 0 || !h[len(h)-1].exists {
		w.write(file, true, "adv")
		return
	}
	w.keepFV, w.keepBV = 0, 0
	if part == "fm" {
		w.keepBV = h[len(h)-1].bv
	} else {
		w.keepFV = h[len(h)-1].fv
	}
	w.write(file, true, "adv")
	w.keepFV, w.keepBV = 0, 0
}

func (w *c15World) write(file string, valid bool, policy string) {
	w.version++
	prev, had := w.mtime[file]
	_, present := w.fs[file]
	mt := prev
	switch {
	case !had:
		mt = time.Unix(1700000000, 0).UTC()
	case policy == "sub":
		mt = prev.Add(time.Millisecond)
		if prev.IsZero() {
			mt = time.Unix(1700000000+int64(w.version), 1000000).UTC()
		}
	case policy == "adv":
		mt = prev.Add(time.Second)
		if prev.IsZero() {
			mt = time.Unix(1700000000+int64(w.version), 0).UTC()
		}
	case policy == "back":
		mt = prev.Add(-time.Second)
		if prev.IsZero() {
			mt = time.Unix(1600000000+int64(w.version), 0).UTC()
		}
	case policy == "zero":
		mt = time.Time{}
	}
	fv, bv := w.version, w.version
	if w.keepFV != 0 {
		fv = w.keepFV
	}
	if w.keepBV != 0 {
		bv = w.keepBV
	}
	data := c15Content(file, fv, bv, valid)
	if w.empty {
		data = []string{"", " \n"}[w.version%2]
	}
	if file == c15Static && len(w.hist[file])%2 == 0 {
		// the static page alternates between a version without any component tag (the first one) and one with the
		// shorthand tag: an edit may be the one that introduces the page's first component tag, or removes its last
		data = strings.Replace(data, `<site-note kind="info"></site-note>`, `<span>closed</span>`, 1)
	}
	_ = present
	w.hist[file] = append(w.hist[file], c15Version{n: w.version, fv: fv, bv: bv, exists: true, valid: valid, data: data, mtime: mt})
	w.mtime[file] = mt
	w.fs[file] = &fstest.MapFile{Data: []byte(data), Mode: 0o644, ModTime: mt}
}

func (w *c15World) remove(file string) {
	delete(w.fs, file)
	// a deleted file is distinguishable (Stat fails): only "missing" is acceptable
	w.version++
	w.hist[file] = append(w.hist[file], c15Version{n: w.version, exists: false})
}

type c15Engines struct {
	base vuego.Template
	vue  *vuego.Vue
}

func c15New(fsys fstest.MapFS) c15Engines {
	vue := vuego.NewVue(fsys)
	vue.RegisterComponent("site-note", c15Note)
	return c15Engines{base: vuego.NewFS(fsys, vuego.WithComponents()), vue: vue}
}

func (e c15Engines) render(kind string) (string, error) {
	var b bytes.Buffer
	var err error
	switch kind {
	case "R1":
		err = e.base.Load(c15Page).Fill(map[string]any{"x": 1}).Render(bg, &b)
	case "R2":
		err = e.base.New().RenderFile(bg, &b, c15Page)
	case "R3":
		err = e.vue.Render(&b, c15Page, map[string]any{"x": 1})
	case "R4":
		err = e.base.Load(c15Page2).Render(bg, &b)
	case "R7":
		err = e.vue.Render(&b, c15Page, nil)
	case "R5":
		err = e.vue.RenderFragment(&b, c15Page, map[string]any{"x": 1})
	case "R8":
		err = e.base.Load(c15Static).Render(bg, &b)
	case "R9":
		err = e.vue.Render(&b, c15Static, nil)
	case "R6":
		err = e.base.New().Fill(map[string]any{"x": 1}).RenderString(bg, &b, `<section data-s="str"><template include="c.vuego"></template></section>`)
	}
	return b.String(), err
}

func (p *c15) Exec(ctx core.Ctx, cc any) core.Obs {
	c := cc.(c15Case)
	if len(c.Ops) > 3 && c.Ops[0] == "OVERLAY" {
		return c15ExecOverlay(c)
	}
	var o core.Obs
	c15Install()
	h0, m0, s0 := c15Hits.Load(), c15Misses.Load(), c15Stores.Load()
	w := newC15World()
	long := c15New(w.fs)
	lastEdit := "none"
	edits, rendersAfterEdit := 0, 0
	for step, op := range c.Ops {
		kind, policy, _ := strings.Cut(op, ":")
		switch kind {
		case "EP":
			w.write(c15Page, true, policy)
		case "EC":
			w.write(c15Comp, true, policy)
		case "EL":
			w.write(c15Lay, true, policy)
		case "TP", "TC", "TL", "TS", "TB":
			f := map[string]string{"TP": c15Page, "TC": c15Comp, "TL": c15Lay, "TS": c15Shadow, "TB": c15Base}[kind]
			if _, ok := w.fs[f]; ok {
				w.remove(f)
			} else {
				w.write(f, true, "adv")
			}
		case "FP":
			w.writePart(c15Page, "fm")
		case "BP":
			w.writePart(c15Page, "body")
		case "FC":
			w.writePart(c15Comp, "fm")
		case "FL":
			w.writePart(c15Lay, "fm")
		case "UP":
			// delete the page / bring it back with the modification time it had
			if _, ok := w.fs[c15Page]; ok {
				w.remove(c15Page)
			} else {
				w.write(c15Page, true, "eq")
			}
		case "EN":
			w.write(c15Note, true, "adv")
		case "ES":
			w.write(c15Static, true, "adv")
		case "ZP", "ZL":
			w.empty = true
			w.write(map[string]string{"ZP": c15Page, "ZL": c15Lay}[kind], true, "adv")
			w.empty = false
		case "IP":
			w.write(c15Page, false, "adv")
		case "IC":
			w.write(c15Comp, false, "adv")
		case "R1", "R2", "R3", "R4", "R5", "R6", "R7", "R8", "R9":
			w.engine = "template"
			if kind == "R3" || kind == "R5" || kind == "R7" || kind == "R9" {
				w.engine = "vue"
			}
			hitsBefore := c15Hits.Load()
			out, err := long.render(kind)
			if err != nil && c15Hits.Load() == hitsBefore {
				// the long-lived engine has just failed on the file this entry
				// point loads first, if that file is missing or invalid now. (A
				// render that answered from the cache has not looked at the file
				// again: it failed on something else, an include for example.)
				switch kind {
				case "R4":
					w.failedLoad(c15Page2)
				case "R8", "R9":
					w.failedLoad(c15Static)
				case "R6":
				default:
					w.failedLoad(c15Page)
				}
			}
			fromCache := c15Hits.Load() > hitsBefore
			fout, ferr := c15New(w.fs).render(kind)
			o.Evals += 2
			if edits > 0 {
				rendersAfterEdit++
			}
			if fromCache {
				o.Cell("compared/answered-from-cache")
			} else {
				o.Cell("compared/reloaded")
			}
			if out == fout && (err != nil) == (ferr != nil) {
				continue
			}
			// ambiguity through indistinguishable mtimes?
			if p.matchesAlternative(w, kind, out, err, &o) {
				o.Cell("exempt/indistinguishable-mtime")
				continue
			}
			what := "stale-or-different-output"
			if (err != nil) != (ferr != nil) {
				what = "error-ness-differs"
			}
			o.Fail(c, fmt.Sprintf("%s/%s/after-%s", what, kind, lastEdit), "step %d (%s) of %v: long-lived engine err=%v, fresh engine err=%v\nlong-lived: %s\nfresh:      %s", step, kind, c.Ops, err, ferr, clip(out, 300), clip(fout, 300))
			continue
		}
		if kind[0] != 'R' {
			lastEdit = op
			edits++
		}
	}
	if rendersAfterEdit > 0 {
		o.NT(strings.Join(c.Ops, " "))
	}
	o.Count("cache_hits", c15Hits.Load()-h0)
	o.Count("cache_misses", c15Misses.Load()-m0)
	o.Count("cache_stores", c15Stores.Load()-s0)
	if len(c.Ops) == 11 {
		o.Sample = map[string]any{"ops": c.Ops}
	}
	return o
}

// matchesAlternative decides whether an output that differs from the fresh
// engine's is covered by the indistinguishable-mtime exemption: every version
// stamp in it must belong to an acceptable version of its file, and when the
// error-ness differs some combination of acceptable versions must reproduce it
// on a fresh engine.
func (p *c15) matchesAlternative(w *c15World, kind, out string, err error, o *core.Obs) bool {
	files := []string{c15Page, c15Comp, c15Lay, c15Shadow, c15Base, c15Page2, c15Static, c15Note}
	total := 1
	okVersions := map[int]bool{}
	for _, f := range files {
		acc := w.accept(f)
		if len(acc) == 0 {
			if f == c15Shadow {
				continue // never written so far
			}
			return false
		}
		total *= len(acc)
		for _, v := range acc {
			okVersions[v.n], okVersions[v.fv], okVersions[v.bv] = true, true, true
		}
	}
	if total <= 1 {
		return false // no ambiguity: the fresh engine's answer is the only acceptable one
	}
	for _, n := range c15Stamps(out) {
		if !okVersions[n] {
			return false
		}
	}
	if total > 512 {
		return true
	}
	// error-ness (and, for whole-version answers, the bytes) must be reproducible
	for combo := 0; combo < total; combo++ {
		alt := fstest.MapFS{}
		k := combo
		for _, f := range files {
			vs := w.accept(f)
			if len(vs) == 0 {
				continue
			}
			v := vs[k%len(vs)]
			k /= len(vs)
			if v.exists {
				alt[f] = &fstest.MapFile{Data: []byte(v.data), Mode: 0o644, ModTime: time.Unix(1700000000, 0)}
			}
		}
		_, aerr := c15New(alt).render(kind)
		o.Evals++
		if (aerr != nil) == (err != nil) {
			return true
		}
	}
	return false
}

// c15Stamps extracts the version numbers of all stamps (P7, F7, C3, CF3, L2, LF2) in an output.
func c15Stamps(out string) []int {
	var ns []int
	for i := 0; i < len(out); i++ {
		c := out[i]
		if c != 'P' && c != 'F' && c != 'C' && c != 'L' {
			continue
		}
		if i > 0 && (out[i-1] >= 'a' && out[i-1] <= 'z' || out[i-1] >= '0' && out[i-1] <= '9') {
			continue
		}
		j := i + 1
		if j < len(out) && out[j] == 'F' {
			j++
		}
		n, d := 0, 0
		for j < len(out) && out[j] >= '0' && out[j] <= '9' {
			n = n*10 + int(out[j]-'0')
			j++
			d++
		}
		if d > 0 {
			ns = append(ns, n)
			i = j - 1
		}
	}
	return ns
}
