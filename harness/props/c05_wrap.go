package props

import (
	"bytes"
	"fmt"
	"strings"

	vuego "github.com/titpetric/vuego"

	"verifharness/core"
	"verifharness/oracle"
)

// C05 "wrap" part: wrapper components whose root tag is itself an include (or a
// shorthand tag) carrying bound props, included several times with different
// props and rendered twice on ONE engine. Each instance must receive exactly
// its own props, with their types - whatever an earlier instance or an earlier
// render received.

type c05Wrap struct {
	Form  string `json:"form"`  // include | shorthand
	Vals  []TV   `json:"vals"`  // one value per instance
	Entry string `json:"entry"` // tpl | vue
	Depth int    `json:"depth"` // number of wrapper levels (1 or 2)
}

var c05WrapVals = [][]TV{
	{tvS("first"), tvS("second")}, {tvI(1), tvI(2)}, {tvS("a"), tvI(7)}, {tvI(7), tvS("a")}, {tvB(true), tvB(false)}, {tvF(1.5), tvS("1.5")},
	{tvList(tvI(1)), tvList(tvI(2), tvI(3))}, {tvMap(map[string]TV{"k": tvS("x")}), tvMap(map[string]TV{"k": tvS("y")})}, {tvS("x"), tvS("x"), tvS("y")}, {tvI(0), tvI(5), tvI(0)},
}

func c05NWrap() int { return len(c05WrapVals) * 2 * 2 * 2 }

func c05BuildWrap(i int) c05Case {
	w := c05Wrap{Entry: []string{"tpl", "vue"}[i%2]}
	i /= 2
	w.Form = []string{"include", "shorthand"}[i%2]
	i /= 2
	w.Depth = 1 + i%2
	i /= 2
	w.Vals = c05WrapVals[i%len(c05WrapVals)]
	return c05Case{Part: "wrap", Wrap: &w}
}

func c05ExecWrap(c c05Case, o *core.Obs) {
	w := c.Wrap
	files := map[string]string{
		"components/Inner.vuego": `<i data-m="inner" data-t="{{ val | type }}" data-j="{{ val | json }}">{{ tag }}</i>`,
	}
	inc := func(file, attrs string) string {
		if w.Form == "shorthand" {
			tag := map[string]string{"components/Inner.vuego": "inner", "components/Wrap.vuego": "wrap", "components/Outer.vuego": "outer"}[file]
			return "<" + tag + " " + attrs + "></" + tag + ">"
		}
		return `<template include="` + file + `" ` + attrs + `></template>`
	}
	// the wrapper's root tag is the include of the inner component, with bound props
	files["components/Wrap.vuego"] = inc("components/Inner.vuego", `:val="val" :tag="tag"`)
	top := "components/Wrap.vuego"
	if w.Depth == 2 {
		files["components/Outer.vuego"] = inc("components/Wrap.vuego", `:val="val" :tag="tag"`)
		top = "components/Outer.vuego"
	}
	var page strings.Builder
	data := map[string]any{}
	for k := range w.Vals {
		data[fmt.Sprintf("v%d", k)] = w.Vals[k].Go()
		page.WriteString(`<section data-m="inst">` + inc(top, fmt.Sprintf(`:val="v%d" tag="T%d"`, k, k)) + `</section>`)
	}
	files["page.vuego"] = page.String()
	fsys := memFS(files)
	var render func(d map[string]any) (string, error)
	if w.Entry == "vue" {
		vue := vuego.NewVue(fsys)
		vue.RegisterComponent("inner", "components/Inner.vuego").RegisterComponent("wrap", "components/Wrap.vuego").RegisterComponent("outer", "components/Outer.vuego")
		render = func(d map[string]any) (string, error) {
			var b bytes.Buffer
			err := vue.Render(&b, "page.vuego", d)
			return b.String(), err
		}
	} else {
		base := vuego.NewFS(fsys, vuego.WithComponents())
		render = func(d map[string]any) (string, error) {
			var b bytes.Buffer
			err := base.Load("page.vuego").Fill(d).Render(bg, &b)
			return b.String(), err
		}
	}
	o.NT("wrap", mustJSON(w))
	o.Cell("part/wrap/" + w.Form + fmt.Sprintf("/depth%d", w.Depth))
	check := func(round int, vals []TV, d map[string]any) {
		out, err := render(d)
		o.Evals++
		sig := "wrap/" + w.Form
		if err != nil {
			o.Fail(c, sig+"/error", "render %d failed: %v\nfiles: %v", round, err, files)
			return
		}
		got := oracle.Parse(out, false).ByAttr("data-m", "inner")
		if len(got) != len(vals) {
			o.Fail(c, sig+"/instances", "render %d: want %d inner instances, got %d\noutput: %s", round, len(vals), len(got), out)
			return
		}
		for k, v := range vals {
			wantT := fmt.Sprintf("%T", v.Go())
			wantJ := mustJSONAny(v.Go())
			t, _ := got[k].Attr("data-t")
			j, _ := got[k].Attr("data-j")
			tag := got[k].InnerText()
			if tag != fmt.Sprintf("T%d", k) || j != wantJ {
				o.Fail(c, sig+"/instance-got-props-of-another-instance-or-render", "render %d, instance %d: want tag T%d value %s, got tag %s value %s\nfiles: %v\noutput: %s", round, k, k, wantJ, tag, j, files, out)
				return
			}
			if t != wantT {
				o.Fail(c, sig+"/bound-prop-lost-its-type", "render %d, instance %d: want type %s, got %s (value %s)\noutput: %s", round, k, wantT, t, j, out)
				return
			}
		}
	}
	check(1, w.Vals, data)
	// second render on the same engine with the values rotated: nothing of render 1 may survive
	rot := append(append([]TV{}, w.Vals[1:]...), w.Vals[0])
	data2 := map[string]any{}
	for k := range rot {
		data2[fmt.Sprintf("v%d", k)] = rot[k].Go()
	}
	check(2, rot, data2)
}
