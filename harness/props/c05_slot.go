package props

import (
	"bytes"
	"strings"

	vuego "github.com/titpetric/vuego"

	"verifharness/core"
	"verifharness/oracle"
)

// C05 "afterslot" part: a component that receives props, has front-matter of
// its own, and reads both before and after its <slot>. The includer supplies
// content that itself binds variables (another component with props, a loop,
// a scoped slot template). After the slot the component still has exactly its
// own props and front-matter - not the bindings made inside the content - and
// a nested include after the slot still finds the props its :required names.

var c05SlotContents = []struct{ Label, Src string }{
	{"plain", `<b data-m="in">t</b>`},
	{"include-with-props", `<template include="components/Badge.vuego" label="L1" pa="inner"></template>`},
	{"two-includes", `<template include="components/Badge.vuego" label="L1"></template><template include="components/Badge.vuego" label="L2" pb="inner"></template>`},
	{"shorthand", `<badge label="L1" pa="inner"></badge>`},
	{"loop", `<b v-for="pa in xs" data-m="in">{{ pa }}</b>`},
	{"loop-with-include", `<template v-for="x in xs"><template include="components/Badge.vuego" :label="x"></template></template>`},
	{"slot-template", `<template v-slot="sp"><b data-m="in">{{ sp.k }}</b></template>`},
	{"nested-card", `<template include="components/Card.vuego" pa="A2" :pb="n"><i data-m="in">deep</i></template>`},
}

func c05NSlot() int { return len(c05SlotContents) * 2 * 2 }

func c05GenSlot(i int) c05Case {
	n := len(c05SlotContents)
	return c05Case{Part: "afterslot", Entry: []string{"tpl", "vue"}[(i/n)%2], PN: &c05PN{Form: c05SlotContents[i%n].Label, Name: []string{"include", "shorthand"}[(i/n/2)%2]}}
}

func c05ExecSlot(c c05Case, o *core.Obs) {
	var content string
	for _, sc := range c05SlotContents {
		if sc.Label == c.PN.Form {
			content = sc.Src
		}
	}
	page := `<template include="components/Card.vuego" pa="A1" :pb="n">` + content + `</template><u data-m="after" :data-pa="pa" :data-label="label">{{ pa }}|{{ label }}|{{ kind }}</u>`
	if c.PN.Name == "shorthand" {
		page = `<card pa="A1" :pb="n">` + content + `</card><u data-m="after" :data-pa="pa" :data-label="label">{{ pa }}|{{ label }}|{{ kind }}</u>`
	}
	files := map[string]string{
		"page.vuego":             page,
		"components/Card.vuego":  "---\nkind: card\n---\n<div data-m=\"card\"><h1 data-m=\"head\">{{ pa }}/{{ pb + 1 }}/{{ kind }}</h1><slot k=\"K\"></slot><footer data-m=\"foot\">{{ pa }}/{{ pb + 1 }}/{{ kind }}/[{{ label }}]</footer><template include=\"components/Foot.vuego\"></template></div>",
		"components/Badge.vuego": `<span data-m="badge">{{ label }}</span>`,
		"components/Foot.vuego":  `<template :required="pa,pb"><p data-m="req">{{ pa }}/{{ pb + 1 }}</p></template>`,
	}
	data := map[string]any{"n": 4, "xs": []any{"x1", "x2"}}
	var b bytes.Buffer
	var err error
	fsys := memFS(files)
	if c.Entry == "vue" {
		v := vuego.NewVue(fsys)
		v.RegisterComponent("card", "components/Card.vuego").RegisterComponent("badge", "components/Badge.vuego")
		err = v.Render(&b, "page.vuego", data)
	} else {
		err = vuego.NewFS(fsys, vuego.WithComponents()).Load("page.vuego").Fill(data).Render(bg, &b)
	}
	o.Evals++
	o.NT("afterslot", c.Entry, c.PN.Form, c.PN.Name)
	o.Cell("part/afterslot/" + c.PN.Form + "/" + c.PN.Name)
	sig := "afterslot/" + c.PN.Form
	if err != nil {
		if strings.Contains(err.Error(), "required") {
			o.Fail(c, sig+"/required-error-although-provided", "the component's props pa, pb were provided, yet an include after the <slot> failed its :required: %v\npage: %s", err, page)
		} else {
			o.Fail(c, sig+"/error", "render failed: %v\npage: %s", err, page)
		}
		return
	}
	doc := oracle.ParseAuto(b.String())
	text := func(m string) []string {
		var out []string
		for _, n := range doc.ByAttr("data-m", m) {
			out = append(out, strings.TrimSpace(n.InnerText()))
		}
		return out
	}
	heads, foots, reqs := text("head"), text("foot"), text("req")
	if len(heads) == 0 || len(heads) != len(foots) || len(reqs) != len(heads) {
		o.Fail(c, sig+"/component-parts-missing", "want head, foot and nested include once per card, got heads=%v foots=%v reqs=%v\noutput: %s", heads, foots, reqs, clip(b.String(), 900))
		return
	}
	// outer card first (document order): head A1/5/card, foot A1/5/card/[]
	if heads[0] != "A1/5/card" {
		o.Fail(c, sig+"/props-before-slot-wrong", "head of the card: want A1/5/card, got %q\noutput: %s", heads[0], clip(b.String(), 900))
	}
	lastFoot, lastReq := foots[len(foots)-1], reqs[len(reqs)-1]
	if lastFoot != "A1/5/card/[]" {
		o.Fail(c, sig+"/props-after-slot-differ-from-props-before-slot", "the card printed %q before its <slot> and %q after it (want A1/5/card/[]): the bindings made inside the supplied content are visible to the component, or its own are gone\npage: %s\noutput: %s", heads[0], lastFoot, page, clip(b.String(), 900))
	}
	if lastReq != "A1/5" {
		o.Fail(c, sig+"/include-after-slot-sees-other-props", "the include after the <slot> printed %q, want A1/5\npage: %s\noutput: %s", lastReq, page, clip(b.String(), 900))
	}
	if after := text("after"); len(after) != 1 || after[0] != "||" {
		o.Fail(c, sig+"/leak-to-includer", "the includer's following content sees bindings of the component or of its slot content: %v (want \"||\")\noutput: %s", after, clip(b.String(), 900))
	}
}
