package props

import (
	"bytes"
	"fmt"
	"regexp"
	"runtime"
	"strings"
	"time"

	vuego "github.com/titpetric/vuego"

	"verifharness/core"
)

// C11 "longlived" part: one engine that keeps meeting templates, expressions
// and variable paths it has not seen before - many more than any of its
// internal caches holds. Every render of the sequence returns.
//
// A render that does not return cannot be observed by waiting for it. The
// sequence therefore runs in a goroutine of its own; when it has not finished
// after a time that exceeds its healthy duration by four orders of magnitude,
// the verdict is taken from the goroutine dump, not from the clock: the render
// goroutine parked on a lock or semaphore while no other goroutine is inside
// the engine is a self-deadlock (violation, with the stack as witness); a
// goroutine that is still running is reported as inconclusive.

var c11LongKinds = []string{"template-string", "template-file", "vue-file", "vue-fragment"}
var c11LongShapes = []string{"conditions", "operators", "paths", "mixed"}

func c11NLong() int { return len(c11LongKinds) * len(c11LongShapes) }

func c11LongCase(i int) c11Case {
	return c11Case{Part: "longlived", EP: c11LongKinds[i%len(c11LongKinds)], Pos: c11LongShapes[(i/len(c11LongKinds))%len(c11LongShapes)]}
}

const c11LongN = 700 // distinct templates per sequence (the engine's caches hold 256 entries)

func c11LongTpl(shape string, k int) string {
	switch shape {
	case "conditions":
		return fmt.Sprintf(`<i v-if="n > %d">a</i><b v-show="n < %d">b</b>`, k, k+1000)
	case "operators":
		return fmt.Sprintf(`<i :data-k="n + %d">{{ n * %d }}</i>`, k, k+2)
	case "paths":
		return fmt.Sprintf(`<i>{{ o.k%d }}|{{ o.deep.k%d.x }}</i>`, k, k)
	default:
		return fmt.Sprintf(`<i v-if="n != %d" :class="{c%d: n > %d}">{{ n + %d }}|{{ o.k%d }}|{{ t | upper }}</i>`, k, k, k-5, k, k)
	}
}

var c11GoroutineHead = regexp.MustCompile(`(?m)^goroutine \d+ \[([^\]]*)\]:`)

func c11ExecLong(c c11Case) (o core.Obs) {
	o.NT("longlived", c.EP, c.Pos)
	o.Cell("part/longlived/" + c.EP + "/" + c.Pos)
	files := map[string]string{}
	for k := 0; k < c11LongN; k++ {
		files[fmt.Sprintf("p%d.vuego", k)] = c11LongTpl(c.Pos, k)
	}
	fsys := memFS(files)
	data := map[string]any{"n": 3, "t": "x", "o": map[string]any{"k1": "v", "deep": map[string]any{}}}
	base := vuego.NewFS(fsys, vuego.WithFuncs(catFuncs()))
	vue := vuego.NewVue(fsys).Funcs(catFuncs())
	type progress struct {
		k   int
		err error
	}
	done := make(chan progress, 1)
	var at [1]int64
	go func() {
		defer func() {
			if r := recover(); r != nil {
				done <- progress{int(at[0]), fmt.Errorf("PANIC: %v", r)}
			}
		}()
		for k := 0; k < c11LongN; k++ {
			at[0] = int64(k)
			var b bytes.Buffer
			var err error
			name := fmt.Sprintf("p%d.vuego", k)
			switch c.EP {
			case "template-string":
				err = base.New().Fill(data).RenderString(bg, &b, files[name])
			case "template-file":
				err = base.Load(name).Fill(data).Render(bg, &b)
			case "vue-file":
				err = vue.Render(&b, name, data)
			default:
				err = vue.RenderFragment(&b, name, data)
			}
			if err != nil {
				done <- progress{k, err}
				return
			}
		}
		done <- progress{c11LongN, nil}
	}()
	o.Evals += c11LongN
	report := func(p progress) {
		if p.err != nil {
			if strings.HasPrefix(p.err.Error(), "PANIC") {
				o.Fail(c, "longlived/panic/"+c.EP, "render %d of the sequence on one engine: %v", p.k+1, p.err)
			} else {
				o.Fail(c, "longlived/error/"+c.EP, "render %d of the sequence on one engine failed although the first ones of the same form succeeded: %v\ntemplate: %s", p.k+1, p.err, c11LongTpl(c.Pos, p.k))
			}
		}
		o.Count("longlived_renders_returned", int64(p.k))
	}
	// (a healthy sequence takes some tens of milliseconds.) Every 60 s without an end the goroutine dump is
	// looked at; a sequence that is still running is simply waited for (the monitor's own watchdog is the limit)
	for {
		select {
		case p := <-done:
			report(p)
			return o
		case <-time.After(60 * time.Second):
		}
		buf := make([]byte, 1<<20)
		dump := string(buf[:runtime.Stack(buf, true)])
		var mine string
		running := 0
		for _, g := range strings.Split(dump, "\n\n") {
			if !strings.Contains(g, "titpetric/vuego") {
				continue
			}
			m := c11GoroutineHead.FindStringSubmatch(g)
			if m == nil {
				continue
			}
			state := m[1]
			if strings.HasPrefix(state, "sync.") || strings.HasPrefix(state, "semacquire") || strings.HasPrefix(state, "chan ") || strings.HasPrefix(state, "select") {
				if strings.Contains(g, "c11ExecLong") {
					mine = g
				}
				continue
			}
			running++
		}
		if mine != "" && running == 0 {
			o.Fail(c, "longlived/render-never-returns(blocked-on-a-lock-nobody-else-holds)/"+c.EP, "render %d of a sequence of distinct templates on ONE engine is parked on a lock while no other goroutine is inside the engine - it waits for itself:\n%s", at[0]+1, clip(mine, 1800))
			return o
		}
		o.Cell("longlived/slow-but-running")
	}
}
