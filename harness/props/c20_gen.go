package props

import (
	"fmt"
	"strings"

	"verifharness/core"
)

// Workload generators of C20: the hazard-atom catalogue, the position
// catalogue, the exhaustive structural families, the seeded document grammar
// and the byte-level generator of the no-failure part.

type c20Atom struct{ class, s string }

var c20Atoms = []c20Atom{
	{"plain", "word"}, {"plain", "two words"},
	{"lt", "<"}, {"lt", "a<b"}, {"lt", "1 < 2"}, {"lt", "x <y z"}, {"lt", "<b"}, {"lt", "<3"}, {"lt", "a <b c"}, {"lt", "<-"}, {"lt", "<<"}, {"lt", "a<1>c"}, {"lt", "if a<1 and c>d"}, {"unbalanced", "a<b>c"}, {"unbalanced", "if a<b and c>d"}, {"unbalanced", "</b> x <i>"},
	{"gt", ">"}, {"gt", "a>b"}, {"gt", "->"},
	{"amp", "&"}, {"amp", "AT&T"}, {"amp", "a && b"}, {"amp", "&x"}, {"amp", "a&b=c&d"},
	{"quote", `"q"`}, {"quote", `'s'`}, {"quote", `a"b`},
	{"charref", "&amp;"}, {"charref", "&lt;"}, {"charref", "&gt;"}, {"charref", "&quot;"}, {"charref", "&copy;"}, {"charref", "&#35;"},
	{"charref", "&#x22;"}, {"charref", "&#X3C;"}, {"charref", "&nbsp;"}, {"charref", "&ouml;"}, {"charref", "&#0;"}, {"charref", "&#1234567;"},
	{"charref", "&lt;b&gt;x&lt;/b&gt;"}, {"charref", "&amp;amp;"}, {"charref", "&#123;&#123; content &#125;&#125;"},
	{"charref-like", "&copy"}, {"charref-like", "&amp"}, {"charref-like", "&lt"}, {"charref-like", "&unknown;"}, {"charref-like", "&#;"}, {"charref-like", "&#x;"},
	{"charref-like", "&ampx;"}, {"charref-like", "&notit;"}, {"charref-like", "x&lt y"},
	{"backslash", `\*`}, {"backslash", `\_x\_`}, {"backslash", `\\`}, {"backslash", `\<`}, {"backslash", `\>`}, {"backslash", `\&`}, {"backslash", `\&amp;`},
	{"backslash", `\[x\]`}, {"backslash", "\\`"}, {"backslash", `\{\{ x \}\}`}, {"backslash", `\#`}, {"backslash", `\a`}, {"backslash", `\|`}, {"backslash", `\"`},
	{"backslash", `\'`}, {"backslash", `\(x\)`}, {"backslash", `\!`}, {"backslash", `1\.`}, {"backslash", `\-`}, {"backslash", `\~`}, {"backslash", `\<b>x\</b>`},
	{"backslash", `a\`}, {"backslash", `\\\*`}, {"backslash", `\ `},
	{"mustache", "{{ content }}"}, {"mustache", "{{content}}"}, {"mustache", "{{ level }}"}, {"mustache", "{{ 1 + 1 }}"}, {"mustache", "{{ href }}"},
	{"mustache", "{{ x | upper }}"}, {"mustache", "{{"}, {"mustache", "}}"}, {"mustache", "{ {x} }"}, {"mustache", `{{ "<b>" }}`}, {"mustache", "{{ code }}"},
	{"mustache", "{{ language }}"}, {"mustache", "{{ cell.content }}"}, {"mustache", "{{ src }}{{ alt }}{{ title }}"}, {"mustache", "{{ label }}"},
	{"mustache", "{{ start }}"}, {"mustache", "{{ checked }}"}, {"mustache", "{{ headers }}"}, {"mustache", "{{ id }}"}, {"mustache", "{{ undefined.path }}"},
	{"mustache", "{{ content"}, {"mustache", "{{{ content }}}"},
	{"vue", `v-if="zz"`}, {"vue", `:href="x"`}, {"vue", "@click"}, {"vue", `v-html="content"`}, {"vue", "v-for=\"a in b\""},
	{"markup", "<b>x</b>"}, {"markup", "<i v-if=\"zz\">x</i>"}, {"markup", "<img src=x onerror=y>"}, {"markup", "<!-- c -->"}, {"markup", `<a href="{{ x }}">y</a>`},
	{"markup", `<span :title="content">d</span>`}, {"markup", "<br>"}, {"markup", "<br/>"}, {"markup", "<template>x</template>"}, {"markup", "<slot></slot>"},
	{"markup", "<vuego include=\"x\"></vuego>"}, {"markup", "<B>X</B>"}, {"markup", "<x-y z>"},
	{"falsy", "false"}, {"falsy", "0"}, {"falsy", "FALSE"}, {"falsy", "null"}, {"falsy", "nil"}, {"falsy", "true"},
	{"unicode", "ünï ✓"}, {"unicode", "a\u00a0b"}, {"unicode", "a\u200bb"}, {"unicode", "日本語"}, {"unicode", "a\tb"},
	{"md-punct", "*"}, {"md-punct", "_"}, {"md-punct", "a*b"}, {"md-punct", "**"}, {"md-punct", "~"}, {"md-punct", "`"}, {"md-punct", "[x]"}, {"md-punct", "[x]("},
	{"md-punct", "!["}, {"md-punct", "#"}, {"md-punct", "1."}, {"md-punct", "-"}, {"md-punct", "+"}, {"md-punct", "|"}, {"md-punct", "a|b"}, {"md-punct", "a | b"}, {"md-punct", "==="},
	{"md-punct", "(paren)"}, {"md-punct", "a)b"}, {"md-punct", "~~x~~"}, {"md-punct", "http://u.v/w"},
}

type c20Pos struct {
	name string
	f    func(a string) string
}

var c20Positions = []c20Pos{
	{"paragraph", func(a string) string { return a }},
	{"paragraph-mid", func(a string) string { return "foo " + a + " bar" }},
	{"paragraph-tight", func(a string) string { return "foo" + a + "bar" }},
	{"paragraph-multiline", func(a string) string { return "foo\n" + a + "\nbar" }},
	{"atx-heading", func(a string) string { return "## " + a }},
	{"atx-heading-closed", func(a string) string { return "# foo " + a + " bar #" }},
	{"setext-heading", func(a string) string { return "foo " + a + "\n---" }},
	{"emphasis", func(a string) string { return "foo *x " + a + " y* bar" }},
	{"strong", func(a string) string { return "**x " + a + " y**" }},
	{"strikethrough", func(a string) string { return "~~x " + a + " y~~" }},
	{"strong-emphasis", func(a string) string { return "***x " + a + " y***" }},
	{"link-text", func(a string) string { return "[x " + a + " y](/u)" }},
	{"link-dest", func(a string) string { return "[t](" + a + ")" }},
	{"link-dest-angle", func(a string) string { return "[t](<" + a + ">)" }},
	{"link-dest-in-path", func(a string) string { return "[t](/p/" + strings.ReplaceAll(a, " ", "") + "?q=1)" }},
	{"link-title-dq", func(a string) string { return `[t](/u "` + a + `")` }},
	{"link-title-sq", func(a string) string { return `[t](/u '` + a + `')` }},
	{"link-title-paren", func(a string) string { return `[t](/u (` + a + `))` }},
	{"refdef-title", func(a string) string { return "[t][r]\n\n[r]: /u \"" + a + "\"" }},
	{"refdef-dest", func(a string) string { return "[t][r]\n\n[r]: <" + a + ">" }},
	{"refdef-label", func(a string) string { return "[x " + a + "]\n\n[x " + a + "]: /u" }},
	{"image-alt", func(a string) string { return "![x " + a + " y](/i.png)" }},
	{"image-alt-nested", func(a string) string { return "![*x " + a + "* `c` [l](/u)](/i.png)" }},
	{"image-src", func(a string) string { return "![a](" + a + ")" }},
	{"image-title", func(a string) string { return `![a](/i "` + a + `")` }},
	{"code-span", func(a string) string { return "foo `x " + a + " y` bar" }},
	{"code-span-2tick", func(a string) string { return "``" + a + "``" }},
	{"fenced-code", func(a string) string { return "```\n" + a + "\n  " + a + "\n```" }},
	{"fenced-code-tilde-lang", func(a string) string { return "~~~go\n" + a + "\n~~~" }},
	{"fence-info", func(a string) string { return "```" + a + "\nx\n```" }},
	{"fence-info-second-word", func(a string) string { return "~~~ go " + a + "\nx\n~~~" }},
	{"indented-code", func(a string) string { return "    " + a + "\n\n    y " + a }},
	{"table-header-cell", func(a string) string { return "| x " + a + " y | h |\n|---|---|\n| c | d |" }},
	{"table-body-cell", func(a string) string { return "| h | i |\n|:--|--:|\n| x " + a + " y | d |" }},
	{"table-cell-code", func(a string) string { return "| h |\n|:-:|\n| `" + a + "` |" }},
	{"tight-list-item", func(a string) string { return "- x " + a + " y\n- z" }},
	{"loose-list-item", func(a string) string { return "- x " + a + " y\n\n- z" }},
	{"nested-ordered-item", func(a string) string { return "1. a\n   - x " + a + " y" }},
	{"blockquote", func(a string) string { return "> x " + a + " y" }},
	{"task-item", func(a string) string { return "- [x] x " + a + " y" }},
	{"autolink-path", func(a string) string { return "<http://h.t/" + a + ">" }},
	{"autolink-email", func(a string) string { return "<me" + a + "@x.yz>" }},
	{"ext-autolink-www", func(a string) string { return "see www.ex.com/" + a + " ok" }},
	{"ext-autolink-query", func(a string) string { return "http://ex.com/?q=" + a + "&r=2 end" }},
	{"html-block-body", func(a string) string { return "<div>\n" + a + "\n</div>" }},
	{"html-block-attr", func(a string) string { return "<div title=\"" + strings.ReplaceAll(a, `"`, "") + "\">x</div>\n\nafter" }},
	{"html-block-then-md", func(a string) string { return "<div>\n\n" + a + "\n\n</div>" }},
	{"html-comment-block", func(a string) string { return "<!-- " + strings.ReplaceAll(a, "--", "- -") + " -->\n\nafter " + a }},
	{"inline-raw-attr", func(a string) string { return "x <span title=\"" + strings.ReplaceAll(a, `"`, "") + "\">y</span> z" }},
	{"inline-raw-between", func(a string) string { return "x <b>y " + a + "</b> z" }},
	{"hard-break-spaces", func(a string) string { return "x " + a + "  \ny " + a }},
	{"hard-break-backslash", func(a string) string { return "x " + a + "\\\ny" }},
	{"heading-emphasis", func(a string) string { return "# *x " + a + " y*" }},
	{"deep", func(a string) string { return "> - *[x " + a + " y](/u \"" + strings.ReplaceAll(a, `"`, "") + "\")*" }},
	{"deep-table-link-code", func(a string) string {
		return "| [**" + a + "**](/u) | `" + strings.ReplaceAll(a, "`", "") + "` |\n|--|--|"
	}},
}

// ---- exhaustive families ----

func c20BuildExhaustive() []c20Case {
	var out []c20Case
	add := func(part, fam, atom, src string) {
		out = append(out, c20Case{Part: part, Fam: fam, Atom: atom, Src: src})
	}
	// matrix
	for _, p := range c20Positions {
		for _, a := range c20Atoms {
			add("matrix", p.name, a.class, p.f(a.s))
		}
	}
	// ordered lists
	for _, start := range []string{"0", "1", "2", "3", "9", "10", "007", "42", "999999999"} {
		for _, delim := range []string{".", ")"} {
			for _, loose := range []bool{false, true} {
				for n := 1; n <= 3; n++ {
					var b strings.Builder
					for k := 0; k < n; k++ {
						if k > 0 {
							if loose {
								b.WriteString("\n")
							}
						}
						num := start
						if k > 0 {
							num = fmt.Sprint(k + 1)
						}
						fmt.Fprintf(&b, "%s%s item%d\n", num, delim, k)
					}
					add("struct", "ordered-list-start", "", b.String())
				}
			}
		}
	}
	// list nesting shapes
	markers := []string{"-", "*", "+", "1.", "5)"}
	var nest func(prefix []string)
	nest = func(prefix []string) {
		if len(prefix) > 0 {
			for _, loose := range []bool{false, true} {
				var b strings.Builder
				indent := ""
				for d, m := range prefix {
					fmt.Fprintf(&b, "%s%s L%d\n", indent, m, d)
					if loose {
						b.WriteString("\n")
					}
					indent += strings.Repeat(" ", len(m)+1)
				}
				// a second item at the top level after the nest
				fmt.Fprintf(&b, "%s tail\n", prefix[0])
				add("struct", fmt.Sprintf("list-nesting/depth%d", len(prefix)), "", b.String())
			}
		}
		if len(prefix) == 3 {
			return
		}
		for _, m := range markers {
			nest(append(append([]string{}, prefix...), m))
		}
	}
	nest(nil)
	// headings
	contents := []string{"plain text", "*em* and **strong**", "`code` & <b>", "[link](/u \"t\")", "trailing #", "", "a  \nb"}
	for lvl := 1; lvl <= 6; lvl++ {
		for _, ct := range contents {
			one := strings.ReplaceAll(ct, "\n", " ")
			add("struct", "heading/atx", "", strings.Repeat("#", lvl)+" "+one)
			add("struct", "heading/atx-closed", "", strings.Repeat("#", lvl)+" "+one+" "+strings.Repeat("#", lvl))
			add("struct", "heading/atx-indented", "", "   "+strings.Repeat("#", lvl)+" "+one)
		}
	}
	for _, ul := range []string{"=", "---", "=========="} {
		for _, ct := range contents {
			if ct == "" {
				continue
			}
			add("struct", "heading/setext", "", ct+"\n"+ul)
		}
	}
	add("struct", "heading/atx", "", "####### seven")
	add("struct", "heading/atx", "", "#nospace")
	// a trailing {...} is heading text in CommonMark / GFM, not an attribute list
	for _, tail := range []string{"{#setup}", "{.lead}", "{k=v}", "{}", "{#a .b c=d}"} {
		add("struct", "heading/atx-trailing-braces", "", "# Install "+tail)
		add("struct", "heading/atx-trailing-braces", "", "> ## Nested "+tail)
		add("struct", "heading/setext-trailing-braces", "", "Install "+tail+"\n===")
	}
	// tables
	aligns := []string{"---", ":--", "--:", ":-:"}
	for cols := 1; cols <= 3; cols++ {
		n := 1
		for k := 0; k < cols; k++ {
			n *= 4
		}
		for v := 0; v < n; v++ {
			var hdr, del []string
			x := v
			for k := 0; k < cols; k++ {
				hdr = append(hdr, fmt.Sprintf("h%d", k))
				del = append(del, aligns[x%4])
				x /= 4
			}
			for rows := 0; rows <= 2; rows++ {
				for _, ragged := range []string{"exact", "short", "long"} {
					if rows == 0 && ragged != "exact" {
						continue
					}
					var b strings.Builder
					b.WriteString("| " + strings.Join(hdr, " | ") + " |\n")
					b.WriteString("|" + strings.Join(del, "|") + "|\n")
					for r := 0; r < rows; r++ {
						nc := cols
						if ragged == "short" {
							nc = cols - 1
						} else if ragged == "long" {
							nc = cols + 1
						}
						var cells []string
						for k := 0; k < nc; k++ {
							cells = append(cells, fmt.Sprintf("r%dc%d *e*", r, k))
						}
						b.WriteString("| " + strings.Join(cells, " | ") + " |\n")
					}
					add("struct", fmt.Sprintf("table/cols%d/rows%d/%s", cols, rows, ragged), "", b.String())
				}
			}
		}
	}
	// inline nesting
	type wrap struct{ name, open, close string }
	wraps := []wrap{
		{"em*", "*", "*"}, {"em_", "_", "_"}, {"strong*", "**", "**"}, {"strong_", "__", "__"}, {"del", "~~", "~~"},
		{"code", "`", "`"}, {"link", "[", "](/u \"t\")"}, {"both", "***", "***"}, {"image", "![", "](/i.png)"},
	}
	var nestInline func(seq []wrap)
	nestInline = func(seq []wrap) {
		if len(seq) > 0 {
			s := "a b"
			for k := len(seq) - 1; k >= 0; k-- {
				s = seq[k].open + s + seq[k].close
			}
			add("struct", fmt.Sprintf("inline-nesting/depth%d", len(seq)), "", "pre "+s+" post")
			add("struct", fmt.Sprintf("inline-nesting-tight/depth%d", len(seq)), "", "pre"+s+"post, "+s+".")
		}
		if len(seq) == 3 {
			return
		}
		for _, w := range wraps {
			nestInline(append(append([]wrap{}, seq...), w))
		}
	}
	nestInline(nil)
	// container x inner block
	inner := map[string]string{
		"para": "text one\ntext two", "atx": "## head", "setext": "head\n====", "fenced": "```go\ncode {{ x }}\n```", "indented": "    code <b>",
		"table": "| a | b |\n|---|:-:|\n| 1 | 2 |", "hr": "***", "html": "<div>raw</div>", "bullets": "- x\n- y", "ordered": "7. x\n8. y",
		"two-paras": "one\n\ntwo", "task": "- [ ] t\n- [x] u", "quote": "> q", "para-then-list": "intro\n- x", "code-then-para": "```\nc\n```\nafter",
	}
	type cont struct {
		name string
		wrap func(string) string
	}
	ind := func(first, rest, s string) string {
		ls := strings.Split(s, "\n")
		for i := range ls {
			if i == 0 {
				ls[i] = first + ls[i]
			} else if ls[i] != "" {
				ls[i] = rest + ls[i]
			} else if strings.TrimSpace(rest) != "" {
				ls[i] = strings.TrimRight(rest, " ")
			}
		}
		return strings.Join(ls, "\n")
	}
	conts := []cont{
		{"blockquote", func(s string) string { return ind("> ", "> ", s) }},
		{"bullet-item", func(s string) string { return ind("- ", "  ", s) + "\n- next" }},
		{"ordered-item", func(s string) string { return ind("3. ", "   ", s) }},
		{"quote-in-item", func(s string) string { return ind("- ", "  ", ind("> ", "> ", s)) }},
		{"item-in-quote", func(s string) string { return ind("> ", "> ", ind("1. ", "   ", s)) }},
		{"quote-quote", func(s string) string { return ind("> ", "> ", ind("> ", "> ", s)) }},
		{"item-after-para", func(s string) string { return ind("- ", "  ", "lead\n\n"+s) }},
	}
	for _, ct := range conts {
		for _, k := range sortedKeys(inner) {
			add("struct", "container/"+ct.name, "", ct.wrap(inner[k]))
		}
	}
	// breaks
	breaks := map[string]string{"hard-spaces": "  \n", "hard-backslash": "\\\n", "soft": "\n", "hard-many-spaces": "     \n"}
	brPos := map[string]func(b string) string{
		"paragraph":  func(b string) string { return "one" + b + "two" + b + "three" },
		"emphasis":   func(b string) string { return "*one" + b + "two*" },
		"strong":     func(b string) string { return "x **one" + b + "two** y" },
		"link-text":  func(b string) string { return "[one" + b + "two](/u)" },
		"list-item":  func(b string) string { return "- one" + b + "  two" },
		"blockquote": func(b string) string { return "> one" + b + "> two" },
		"heading":    func(b string) string { return "one" + b + "two\n===" },
		"after-code": func(b string) string { return "`c`" + b + "two" },
		"raw-br":     func(b string) string { return "one<br>" + b + "two <br><br> three" },
		"image-alt":  func(b string) string { return "![one" + b + "two](/i)" },
		"strike":     func(b string) string { return "~~one" + b + "two~~" },
	}
	for _, bk := range sortedKeys(breaks) {
		for _, ps := range sortedKeys(brPos) {
			add("struct", "break/"+bk, "", brPos[ps](breaks[bk]))
		}
	}
	// block adjacency
	blocks := map[string]string{
		"para": "para text", "atx": "# head", "setext": "head\n---", "fenced": "```\ncode\n```", "indented": "    code", "quote": "> q",
		"bullets": "- a\n- b", "ordered": "2. a\n3. b", "table": "| a |\n|---|\n| 1 |", "hr": "***", "html": "<div>x</div>", "html-comment": "<!-- c -->",
		"refdef": "[r]: /u \"t\"", "reflink": "[r]", "task": "- [x] t", "html-script": "<script>\nvar a = 1 < 2;\n</script>", "html-pre": "<pre>\n  keep\n</pre>",
	}
	bk := sortedKeys(blocks)
	for _, x := range bk {
		for _, y := range bk {
			add("struct", "adjacent/blank", "", blocks[x]+"\n\n"+blocks[y]+"\n")
			add("struct", "adjacent/no-blank", "", blocks[x]+"\n"+blocks[y]+"\n")
		}
	}
	// overrides: none, each single, every pair, all
	ov := func(fam string, set []string) {
		out = append(out, c20Case{Part: "ovr", Fam: fam, Src: c20KitchenSink, Ovr: set})
	}
	ov("none", nil)
	for i, a := range c20Templates {
		ov("single", []string{a})
		for _, b := range c20Templates[i+1:] {
			ov("pair", []string{a, b})
		}
	}
	ov("all", append([]string{}, c20Templates...))
	return out
}

// ---- seeded grammar ----

type c20G struct {
	r    *core.RNG
	refs []string
	tame bool // override part: only benign, balanced raw HTML
	// inLink > 0 while link text is generated: an autolink there would put an
	// <a> inside an <a>, which HTML cannot represent - the DOM the observer
	// builds is then the parser's repair, not the document's structure
	inLink int
}

var c20Words = []string{"alpha", "beta", "gamma", "delta", "x", "Foo", "bar42", "naïve", "δοκιμή", "end.", "comma,", "(paren)", "semi;", "q?", "Upper Case", "it's", "100%", "a/b", "key=value", "e.g."}

func (g *c20G) word() string { return core.Pick(g.r, c20Words) }

func (g *c20G) atom() string {
	for {
		a := core.Pick(g.r, c20Atoms)
		if a.class == "unbalanced" || g.tame && (a.class == "markup" || a.class == "lt" || strings.Contains(a.s, `"<b>"`)) {
			continue
		}
		return a.s
	}
}

var c20Dests = []string{"/u", "http://a.b/c?x=1&y=2", "/rel/path", "<with space>", "#frag", `foo\*bar`, "a&amp;b", "{{href}}", "javascript:alert(1)", "url(with)parens", "/ünï", "/%20x%zz", `<a"b>`, "", "<>", "mailto:a@b.c", "//host/p", `/p\(q\)`, "/a&b", "/q?a=&lt;", "false", "0"}
var c20Titles = []string{"", "", `"plain"`, `'single'`, `(paren)`, `"a &amp; b"`, `"q \" q"`, `"<b>"`, `"{{ title }}"`, `"it's"`, `'say "hi"'`, `"a\*b"`, `"&copy &copy;"`, `""`, `"false"`, `"0"`}
var c20RawPairs = [][2]string{{`<span class="x">`, `</span>`}, {`<b>`, `</b>`}, {`<a href="{{ x }}">`, `</a>`}, {`<i v-if="zz">`, `</i>`}, {`<kbd>`, `</kbd>`},
	{`<span :title="content" v-html="content">`, `</span>`}, {`<x-custom a="1">`, `</x-custom>`}, {`<em>`, `</em>`}, {`<sup data-a='{{ b }}'>`, `</sup>`}}
var c20RawVoid = []string{`<br/>`, `<br>`, `<!-- c -->`, `<?php x ?>`, `<img src=x>`, `<![CDATA[ a<b ]]>`, `<!-- {{ content }} -->`, `<wbr>`}
var c20RawInlineTame = []string{`<span class="x">s</span>`, `<b>b</b>`, `<!-- c -->`, `<kbd>k</kbd>`, `<i v-if="zz">i</i>`}
var c20Infos = []string{"", "", "false", "0", "go", "c++", "{{ x }}", "a&b", `js title="x"`, "python3 {.numberLines}", "&amp;", `\*`, "<b>", "Go"}
var c20CodeLines = []string{"x := 1", "if a < b && c > d {", "\treturn \"s\"", "{{ code }}", "<b>bold</b>", "&amp; &copy", `\* not escaped \\`, "", "  indented", "```inner", "| a | b |", "# not heading", "*not em*", "trailing  ", "日本"}
var c20HTMLBlocks = []string{
	"<div>\ntext *not em*\n</div>", "<div class=\"{{ x }}\" v-if=\"zz\">\n\n*emph*\n\n</div>", "<!-- comment {{ x }} -->", "<!--\nmulti\nline\n-->",
	"<pre>\n  keep   spaces\n\n  after blank\n</pre>", "<script>\nif (a < b && c) { x = \"{{ y }}\" }\n</script>", "<style>\np > a { color: red }\n</style>",
	"<table><tr><td>cell</td></tr></table>", "<p>raw para</p>", "<?php echo 1; ?>", "<!DOCTYPE html>", "<![CDATA[\nx < y\n]]>", "<details>\n<summary>s</summary>\n\nbody\n\n</details>",
	"<hr/>", "<section>\n<h2>t</h2>\n</section>", "<textarea>\n{{ content }}\n</textarea>", "<DIV>upper</DIV>", "<template v-if=\"zz\">\nx\n</template>", "<vuego include=\"nope.vuego\"></vuego>",
	"<slot name=\"x\">fallback</slot>",
}
var c20HTMLBlocksTame = []string{"<div>\ntext\n</div>", "<p>raw para</p>", "<section>\n<h2>t</h2>\n</section>"}

func (g *c20G) piece(depth int) string {
	r := g.r
	n := r.Intn(100)
	switch {
	case n < 38:
		return g.word()
	case n < 56:
		return g.atom()
	case n < 66 && depth < 3:
		d := core.Pick(r, []string{"*", "_", "**", "__", "~~", "***", "*", "**"})
		return d + g.inline(depth+1, false) + d
	case n < 72:
		body := core.Pick(r, []string{"code", "a < b", "{{ x }}", "&amp;", `\*`, "<b>", " spaced ", "a ` b", "x  y", "**no**", "[l](u)", "|"})
		if r.Chance(1, 3) {
			body = g.atom()
		}
		if strings.Contains(body, "`") {
			return "`` " + body + " ``"
		}
		return "`" + body + "`"
	case n < 79 && depth < 3:
		g.inLink++
		txt := g.inline(depth+1, false)
		g.inLink--
		switch r.Intn(4) {
		case 0:
			label := fmt.Sprintf("ref%d", len(g.refs))
			g.refs = append(g.refs, fmt.Sprintf("[%s]: %s %s", label, c20NonEmpty(core.Pick(r, c20Dests)), core.Pick(r, c20Titles)))
			return "[" + txt + "][" + label + "]"
		default:
			t := core.Pick(r, c20Titles)
			if t != "" {
				t = " " + t
			}
			return "[" + txt + "](" + core.Pick(r, c20Dests) + t + ")"
		}
	case n < 83:
		t := core.Pick(r, c20Titles)
		if t != "" {
			t = " " + t
		}
		alt := g.word()
		if r.Chance(1, 2) && depth < 3 {
			alt = g.inline(depth+1, false)
		}
		return "![" + alt + "](" + c20NonEmpty(core.Pick(r, c20Dests)) + t + ")"
	case n < 87:
		if g.inLink > 0 {
			return g.word()
		}
		return core.Pick(r, []string{"<http://x.y/z?a=b&c=d>", "<https://ex.com/{{ p }}>", "<me@x.yz>", "www.example.com/a_b", "https://ex.com/p?q=1&r=<2", "http://ex.com/a(b)c.", "<ftp://h/p>", "user@example.com", "<mailto:a@b.c>", "www.a.b/~x*y*"})
	case n < 92:
		if g.tame {
			return core.Pick(r, c20RawInlineTame)
		}
		if r.Chance(1, 3) || depth >= 3 {
			return core.Pick(r, c20RawVoid)
		}
		pr := core.Pick(r, c20RawPairs)
		return pr[0] + g.inline(depth+1, false) + pr[1]
	case n < 96:
		return core.Pick(r, []string{"  \n", "\\\n", "\n", "\n"}) + g.word()
	default:
		return g.word() + core.Pick(r, []string{",", ".", "!", ":", ";"})
	}
}

func c20NonEmpty(s string) string {
	if s == "" {
		return "/e"
	}
	return s
}

func (g *c20G) inline(depth int, oneLine bool) string {
	n := 1 + g.r.Intn(4)
	if depth > 0 {
		n = 1 + g.r.Intn(2)
	}
	var b strings.Builder
	for i := 0; i < n; i++ {
		if i > 0 && !g.r.Chance(1, 4) {
			b.WriteString(" ")
		}
		b.WriteString(g.piece(depth))
	}
	s := b.String()
	if oneLine {
		s = strings.ReplaceAll(strings.ReplaceAll(strings.ReplaceAll(s, "  \n", " "), "\\\n", " "), "\n", " ")
	}
	// an inline run must not contain a blank line
	for strings.Contains(s, "\n\n") {
		s = strings.ReplaceAll(s, "\n\n", "\n")
	}
	return s
}

func c20Indent(first, rest string, lines []string) []string {
	out := make([]string, len(lines))
	for i, l := range lines {
		switch {
		case i == 0:
			out[i] = first + l
		case l == "":
			out[i] = strings.TrimRight(rest, " ")
		default:
			out[i] = rest + l
		}
	}
	return out
}

// block returns the lines of one block.
func (g *c20G) block(depth int) []string {
	r := g.r
	n := r.Intn(100)
	lines := func(s string) []string { return strings.Split(s, "\n") }
	switch {
	case n < 28:
		return lines(g.inline(0, false))
	case n < 38:
		h := strings.Repeat("#", 1+r.Intn(6)) + " " + g.inline(0, true)
		if r.Chance(1, 4) {
			h += " " + strings.Repeat("#", 1+r.Intn(3))
		}
		return []string{h}
	case n < 42:
		return []string{g.inline(0, true), core.Pick(r, []string{"===", "---", "=", "--------"})}
	case n < 50:
		fence := core.Pick(r, []string{"```", "~~~", "````", "~~~~"})
		info := core.Pick(r, c20Infos)
		if fence[0] == '`' && strings.Contains(info, "`") {
			info = ""
		}
		out := []string{fence + info}
		for k := r.Intn(4); k > 0; k-- {
			l := core.Pick(r, c20CodeLines)
			if strings.HasPrefix(l, "```") && fence[0] == '`' {
				l = "x"
			}
			out = append(out, l)
		}
		if !r.Chance(1, 12) { // sometimes unclosed: runs to the end of the container
			out = append(out, fence)
		}
		return out
	case n < 54:
		var out []string
		for k := 1 + r.Intn(3); k > 0; k-- {
			l := core.Pick(r, c20CodeLines)
			if strings.TrimSpace(l) == "" {
				l = "z"
			}
			out = append(out, "    "+l)
		}
		return out
	case n < 62 && depth < 3:
		var inner []string
		for k := 1 + r.Intn(2); k > 0; k-- {
			if len(inner) > 0 {
				inner = append(inner, "")
			}
			inner = append(inner, g.block(depth+1)...)
		}
		return c20Indent("> ", "> ", inner)
	case n < 80 && depth < 3:
		ordered := r.Chance(2, 5)
		task := !ordered && r.Chance(1, 4)
		loose := r.Chance(1, 3)
		bullet := core.Pick(r, []string{"-", "*", "+"})
		start := core.Pick(r, []int{1, 1, 0, 2, 7, 10, 123456789})
		delim := core.Pick(r, []string{".", ")"})
		var out []string
		items := 1 + r.Intn(3)
		for k := 0; k < items; k++ {
			marker := bullet + " "
			if ordered {
				marker = fmt.Sprintf("%d%s ", start+k, delim)
			}
			var body []string
			if task {
				body = lines(core.Pick(r, []string{"[ ] ", "[x] ", "[X] "}) + g.inline(0, false))
			} else if r.Chance(4, 5) {
				body = lines(g.inline(0, false))
			} else {
				body = g.block(depth + 1)
			}
			if r.Chance(1, 4) {
				if r.Chance(1, 2) {
					body = append(body, "")
				}
				body = append(body, g.block(depth+1)...)
			}
			if len(out) > 0 && loose {
				out = append(out, "")
			}
			out = append(out, c20Indent(marker, strings.Repeat(" ", len(marker)), body)...)
		}
		return out
	case n < 88:
		cols := 1 + r.Intn(3)
		var hdr, del []string
		for k := 0; k < cols; k++ {
			hdr = append(hdr, g.cell())
			del = append(del, core.Pick(r, []string{"---", ":--", "--:", ":-:", "-"}))
		}
		out := []string{"| " + strings.Join(hdr, " | ") + " |", "|" + strings.Join(del, "|") + "|"}
		for k := r.Intn(3); k > 0; k-- {
			nc := cols
			if r.Chance(1, 5) {
				nc = cols - 1 + r.Intn(3)
			}
			var cells []string
			for q := 0; q < nc; q++ {
				cells = append(cells, g.cell())
			}
			out = append(out, "| "+strings.Join(cells, " | ")+" |")
		}
		return out
	case n < 91:
		return []string{core.Pick(r, []string{"---", "***", "___", "* * *", " - - -"})}
	case n < 96:
		if g.tame {
			return lines(core.Pick(r, c20HTMLBlocksTame))
		}
		return lines(core.Pick(r, c20HTMLBlocks))
	default:
		return lines(g.inline(0, false) + "\n" + g.inline(0, false))
	}
}

func (g *c20G) cell() string {
	s := g.inline(1, true)
	if g.r.Chance(3, 4) {
		s = strings.ReplaceAll(s, "|", `\|`)
	}
	return s
}

func (g *c20G) doc(nBlocks int) string {
	var b strings.Builder
	for i := 0; i < nBlocks; i++ {
		if i > 0 {
			if g.r.Chance(9, 10) {
				b.WriteString("\n")
			}
		}
		b.WriteString(strings.Join(g.block(0), "\n"))
		b.WriteString("\n")
	}
	if len(g.refs) > 0 {
		b.WriteString("\n" + strings.Join(g.refs, "\n") + "\n")
	}
	return b.String()
}

// ---- bytes for the no-failure part ----

var c20ByteAlphabet = []string{
	"*", "_", "`", "#", ">", "-", "+", "1.", "[", "]", "(", ")", "!", "<", ">", "&", "\\", "|", "~", ":", "\"", "'", " ", "  ", "\n", "\n\n", "\t", "\r\n", "\r",
	"{{", "}}", "{{ content }}", "<!--", "-->", "<script>", "</", "```", "~~~", "---", "===", "[x]", "[ ]", "http://", "www.", "@", "a", "b", "Z", "0", "9",
	"\x00", "\xff", "\xc3", "\xe2\x80\xa8", "\ufeff", "&#", "&#x", ";", "<![CDATA[", "<?", "v-if=\"x\"", "<template>", "<vuego include=\"x\">", "=", "%", "    ",
}

func c20GenBytes(r *core.RNG) (string, []byte) {
	switch r.Intn(5) {
	case 0: // pure random bytes
		n := r.Intn(200)
		b := make([]byte, n)
		for i := range b {
			b[i] = byte(r.Intn(256))
		}
		return "random-bytes", b
	case 1, 2: // markdown-significant token soup
		var sb strings.Builder
		for k := r.Intn(60); k > 0; k-- {
			sb.WriteString(core.Pick(r, c20ByteAlphabet))
		}
		return "token-soup", []byte(sb.String())
	case 3: // front-matter shaped
		g := &c20G{r: r}
		fm := core.Pick(r, []string{"title: x\n", "a: [1, 2\n", ": :\n", "{{ x }}\n", "", "\t- bad\n", "k: |\n  multi\n  line\n", "---\n", "a: &a [*a]\n", "x: !!binary AA\n"})
		close := core.Pick(r, []string{"---\n", "---", "", "--- \n", "...\n"})
		return "front-matter-shaped", []byte("---\n" + fm + close + g.doc(1+r.Intn(3)))
	default: // mutated grammar document
		g := &c20G{r: r}
		b := []byte(g.doc(1 + r.Intn(5)))
		for k := 1 + r.Intn(6); k > 0 && len(b) > 0; k-- {
			pos := r.Intn(len(b))
			switch r.Intn(5) {
			case 0:
				b[pos] = byte(r.Intn(256))
			case 1:
				ins := core.Pick(r, c20ByteAlphabet)
				b = append(b[:pos], append([]byte(ins), b[pos:]...)...)
			case 2:
				b = b[:pos]
			case 3:
				end := pos + r.Intn(20)
				if end > len(b) {
					end = len(b)
				}
				b = append(b[:pos], b[end:]...)
			default:
				end := pos + r.Intn(30)
				if end > len(b) {
					end = len(b)
				}
				b = append(b[:end], append(append([]byte{}, b[pos:end]...), b[end:]...)...)
			}
		}
		return "mutated-document", b
	}
}
