package props

import (
	"bytes"
	"context"
	"fmt"
	"io/fs"
	"sort"
	"strings"
	"sync"
	"testing/fstest"
	"time"

	vuego "github.com/titpetric/vuego"
)

var bg = context.Background()

// renderStr renders a string template through Template.RenderString.
// Without options it goes through one long-lived base template per worker
// process (New() per call, as the API prescribes), so that whatever the engine
// keeps between renders - compiled expressions, parsed paths, pools - is
// shared by all cases of a check: a result that depends on what was rendered
// before shows up as a violation of the property being checked.
func renderStr(tpl string, data any, opts ...vuego.LoadOption) (string, error) {
	var b bytes.Buffer
	var t vuego.Template
	if len(opts) == 0 {
		sharedBaseOnce.Do(func() { sharedBase = vuego.New() })
		t = sharedBase.New()
	} else {
		t = vuego.New(opts...)
	}
	if data != nil {
		t = t.Fill(data)
	}
	err := t.RenderString(bg, &b, tpl)
	return b.String(), err
}

var (
	sharedBase     vuego.Template
	sharedBaseOnce sync.Once
)

// memFS builds an in-memory filesystem; every file gets the given mtime base.
func memFS(files map[string]string) fstest.MapFS {
	m := fstest.MapFS{}
	mt := time.Unix(1700000000, 0).UTC()
	for k, v := range files {
		m[k] = &fstest.MapFile{Data: []byte(v), Mode: 0o644, ModTime: mt}
	}
	return m
}

// renderFile renders a file through NewFS(fs).Load(name).Fill(data).Render.
func renderFile(fsys fs.FS, name string, data any, opts ...vuego.LoadOption) (string, error) {
	var b bytes.Buffer
	t := vuego.NewFS(fsys, opts...).Load(name)
	if data != nil {
		t = t.Fill(data)
	}
	err := t.Render(bg, &b)
	return b.String(), err
}

// renderVue renders a file through the lower-level Vue.Render.
func renderVue(fsys fs.FS, name string, data any) (string, error) {
	var b bytes.Buffer
	err := vuego.NewVue(fsys).Render(&b, name, data)
	return b.String(), err
}

func sortedKeys[V any](m map[string]V) []string {
	ks := make([]string, 0, len(m))
	for k := range m {
		ks = append(ks, k)
	}
	sort.Strings(ks)
	return ks
}

func clip(s string, n int) string {
	if len(s) > n {
		return s[:n] + "…"
	}
	return s
}

func joinMarkers(m []string) string { return "[" + strings.Join(m, " ") + "]" }

func errStr(err error) string {
	if err == nil {
		return "<nil>"
	}
	return err.Error()
}

var _ = fmt.Sprint
