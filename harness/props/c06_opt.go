package props

import (
	"fmt"
	"strings"

	"verifharness/core"
	"verifharness/oracle"
)

// C06 "opt" part: slot props that are absent (missing key / nil) in some loop
// iterations, and one slot name used at two places of a component instance with
// different prop sets. The content supplied for the slot must see exactly the
// props of that use of the slot - nothing carried over from an earlier use.

type c06Opt struct {
	Shape string   `json:"shape"` // loop | twice
	Form  string   `json:"form"`  // destr | named | hash
	Notes []string `json:"notes"` // per row: "v:<text>" value, "missing", "nil"
	Entry string   `json:"entry"` // vue | file
}

var c06OptForms = []string{"destr", "named", "hash"}
var c06OptStates = []string{"v", "missing", "nil"}

var c06OptNames = []string{"title", "sidebar", "slot", "toolbar", "left", "over", "v", "t-s", "vslot", "s", "o1", "default-x", "header2", "x_y"}

func c06NOpt(ctx core.Ctx) int {
	return 3*81*2 + 3*2 + 3*2*2 + len(c06OptNames)*4*2 + 3*2 + 4*2 + 3*2 + 8*2 + len(c06OwnAttrForms)*2
}

var c06OwnAttrForms = []string{"hash-bare", "long-bare", "long-named", "hash-named", "destr", "destr-underscore-hash", "destr-underscore-long", "destr-underscore-default", "case-names-hash", "case-names-long"}

func c06BuildOpt(i int) c06Case {
	o := c06Opt{Entry: []string{"vue", "file"}[i%2]}
	i /= 2
	if i >= 3*81+3+6+len(c06OptNames)*4+3+4+3+8 {
		// the <slot> element's own name attribute is not a prop: content that reads an includer
		// variable called `name` sees the includer's value, under every way of writing the slot template
		o.Shape = "ownattrs"
		o.Form = c06OwnAttrForms[(i-(3*81+3+6+len(c06OptNames)*4+3+4+3+8))%len(c06OwnAttrForms)]
		return c06Case{Part: "opt", Opt: &o}
	}
	if i >= 3*81+3+6+len(c06OptNames)*4+3+4+3 {
		// supplied content whose top level holds a v-if chain and a loop with its v-else:
		// the members belong together however the content is handed over
		j := i - (3*81 + 3 + 6 + len(c06OptNames)*4 + 3 + 4 + 3)
		o.Shape = "chaincontent"
		o.Form = []string{"plain", "tpl"}[j%2]
		o.Notes = []string{[]string{"T", "F"}[(j/2)%2], []string{"0", "2"}[(j/4)%2]}
		return c06Case{Part: "opt", Opt: &o}
	}
	if i >= 3*81+3+6+len(c06OptNames)*4+3+4 {
		// slot props bound in the long form (v-bind:n is documented as equivalent to :n)
		o.Shape = "vbind"
		o.Form = c06OptForms[(i-(3*81+3+6+len(c06OptNames)*4+3+4))%3]
		return c06Case{Part: "opt", Opt: &o}
	}
	if i >= 3*81+3+6+len(c06OptNames)*4+3 {
		// fallbacks that are markup with self-closed void tags in front: supplied / not supplied per slot
		o.Shape = "fbmarkup"
		j := i - (3*81 + 3 + 6 + len(c06OptNames)*4 + 3)
		o.Notes = []string{[]string{"-", "h"}[j%2], []string{"-", "d"}[(j/2)%2]}
		return c06Case{Part: "opt", Opt: &o}
	}
	if i >= 3*81+3+6+len(c06OptNames)*4 {
		// slot props computed by an expression that calls a function (the ones every expression can call: len, upper, lower)
		o.Shape = "fnprops"
		o.Form = c06OptForms[(i-(3*81+3+6+len(c06OptNames)*4))%3]
		return c06Case{Part: "opt", Opt: &o}
	}
	if i >= 3*81+3+6 {
		// slot names of every initial letter, in the long and the short supply form
		j := i - (3*81 + 3 + 6)
		o.Shape = "names"
		o.Form = []string{"long", "hash", "long-scoped", "hash-scoped"}[j%4]
		o.Notes = []string{c06OptNames[(j/4)%len(c06OptNames)]}
		return c06Case{Part: "opt", Opt: &o}
	}
	if i >= 3*81+3 {
		// an include / a <template v-html> written in the slot content of a slot that is filled per loop iteration
		j := i - 3*81 - 3
		o.Shape = []string{"loop-include", "loop-vhtml"}[j%2]
		o.Form = c06OptForms[(j/2)%3]
		o.Notes = []string{"v:n0", "v:n1", "v:n2"}
	} else if i >= 3*81 {
		o.Shape = "twice"
		o.Form = c06OptForms[(i-3*81)%3]
	} else {
		o.Shape = "loop"
		o.Form = c06OptForms[i%3]
		i /= 3
		for r := 0; r < 4; r++ {
			st := c06OptStates[i%3]
			i /= 3
			if st == "v" {
				st = fmt.Sprintf("v:note%d", r)
			}
			o.Notes = append(o.Notes, st)
		}
	}
	return c06Case{Part: "opt", Opt: &o}
}

func c06ExecOptNames(c c06Case, o *core.Obs) {
	op := c.Opt
	name := op.Notes[0]
	other := "zz" + name
	sup := func(n, body string) string {
		switch op.Form {
		case "long":
			return `<template v-slot:` + n + `>` + body + `</template>`
		case "hash":
			return `<template #` + n + `>` + body + `</template>`
		case "long-scoped":
			return `<template v-slot:` + n + `="p">` + body + `{{ p.k }}</template>`
		default:
			return `<template #` + n + `="p">` + body + `{{ p.k }}</template>`
		}
	}
	page := `<template include="comp.vuego">` + sup(name, `<b data-m="A">a</b>`) + sup(other, `<b data-m="B">b</b>`) + `<i data-m="D">d</i></template>`
	comp := `<div data-m="comp"><header data-m="s1"><slot name="` + name + `" :k="1">FB1</slot></header><main data-m="s0"><slot>FB0</slot></main><footer data-m="s2"><slot name="` + other + `" :k="2">FB2</slot></footer></div>`
	files := map[string]string{"page.vuego": page, "comp.vuego": comp}
	var out string
	var err error
	if op.Entry == "vue" {
		out, err = renderVue(memFS(files), "page.vuego", map[string]any{})
	} else {
		out, err = renderFile(memFS(files), "page.vuego", map[string]any{})
	}
	o.Evals++
	o.NT("opt-names", mustJSON(op))
	o.Cell("part/opt/names/" + op.Form)
	if err != nil {
		o.Fail(c, "opt/names/render-error", "render failed: %v\npage: %s", err, page)
		return
	}
	doc := oracle.Parse(out, false)
	where := func(slot string) []string {
		w := doc.ByAttr("data-m", slot)
		if len(w) != 1 {
			return []string{"?"}
		}
		var ms []string
		for _, m := range w[0].AllMarkers("data-m") {
			if m != slot {
				ms = append(ms, m)
			}
		}
		if strings.Contains(w[0].InnerText(), "FB") {
			ms = append(ms, "FALLBACK")
		}
		return ms
	}
	got := fmt.Sprint(where("s1"), where("s0"), where("s2"))
	want := fmt.Sprint([]string{"A"}, []string{"D"}, []string{"B"})
	if got != want {
		o.Fail(c, "opt/names/content-in-wrong-slot-or-fallback/"+op.Form, "slot named %q (and %q) supplied in form %s: want [named: A] [unnamed: D] [other: B], got %s\npage: %s\ncomponent: %s\noutput: %s", name, other, op.Form, got, page, comp, out)
	}
}

func c06ExecOptFnProps(c c06Case, o *core.Obs) {
	op := c.Opt
	body := `<b data-m="row">{{ p.n }}|{{ p.u }}|{{ p.l }}|{{ p.sum }}|{{ p.item.name }}</b>`
	sup := `<template v-slot="p">` + body + `</template>`
	switch op.Form {
	case "destr":
		sup = `<template v-slot="{ n, u, l, sum, item }">` + strings.NewReplacer("p.n", "n", "p.u", "u", "p.l", "l", "p.sum", "sum", "p.item", "item").Replace(body) + `</template>`
	case "hash":
		sup = `<template #default="p">` + body + `</template>`
	}
	page := `<template include="comp.vuego" :items="items">` + sup + `</template>`
	comp := `<ul data-m="comp"><li v-for="(i, it) in items"><slot :n="len(items)" :u="upper(it.name)" :l="lower(it.name)" :sum="i + len(it.name)" :item="it">FB</slot></li></ul>`
	files := map[string]string{"page.vuego": page, "comp.vuego": comp}
	data := map[string]any{"items": []any{map[string]any{"name": "Ab"}, map[string]any{"name": "cDe"}}}
	var out string
	var err error
	if op.Entry == "vue" {
		out, err = renderVue(memFS(files), "page.vuego", data)
	} else {
		out, err = renderFile(memFS(files), "page.vuego", data)
	}
	o.Evals++
	o.NT("opt-fnprops", mustJSON(op))
	o.Cell("part/opt/fnprops/" + op.Form)
	if err != nil {
		o.Fail(c, "opt/fnprops/render-error", "render failed: %v\npage: %s", err, page)
		return
	}
	var got []string
	for _, r := range oracle.Parse(out, false).ByAttr("data-m", "row") {
		got = append(got, r.InnerText())
	}
	want := []string{"2|AB|ab|2|Ab", "2|CDE|cde|4|cDe"}
	if strings.Join(got, " ; ") != strings.Join(want, " ; ") {
		o.Fail(c, "opt/fnprops/computed-prop-wrong-or-missing/"+op.Form, "slot props computed with len / upper / lower: want %v, got %v\npage: %s\ncomponent: %s\noutput: %s", want, got, page, comp, out)
	}
}

func c06ExecOptChainContent(c c06Case, o *core.Obs) {
	op := c.Opt
	content := `<b v-if="a" data-m="A">A</b><i v-else data-m="notA">B</i> <u v-for="n in list" data-m="item">{{ n }}</u><s v-else data-m="none">none</s>`
	sup := content
	if op.Form == "tpl" {
		sup = `<template #default>` + content + `</template>`
	}
	page := `<template include="comp.vuego">` + sup + `</template><template include="comp.vuego">` + sup + `</template>`
	comp := `<div data-m="comp"><slot>FB</slot></div>`
	files := map[string]string{"page.vuego": page, "comp.vuego": comp}
	data := map[string]any{"a": op.Notes[0] == "T", "list": []any{}}
	want := []string{"notA", "none"}
	if op.Notes[0] == "T" {
		want[0] = "A"
	}
	if op.Notes[1] == "2" {
		data["list"] = []any{1, 2}
		want = []string{want[0], "item", "item"}
	}
	var out string
	var err error
	if op.Entry == "vue" {
		out, err = renderVue(memFS(files), "page.vuego", data)
	} else {
		out, err = renderFile(memFS(files), "page.vuego", data)
	}
	o.Evals++
	o.NT("opt-chaincontent", mustJSON(op))
	o.Cell("part/opt/chaincontent/" + op.Form)
	if err != nil {
		o.Fail(c, "opt/chaincontent/render-error", "render failed: %v\npage: %s", err, page)
		return
	}
	comps := oracle.Parse(out, false).ByAttr("data-m", "comp")
	if len(comps) != 2 {
		o.Fail(c, "opt/chaincontent/instances", "want 2 component instances, got %d\noutput: %s", len(comps), out)
		return
	}
	for k, inst := range comps {
		var got []string
		for _, m := range inst.AllMarkers("data-m") {
			if m != "comp" {
				got = append(got, m)
			}
		}
		if strings.Contains(inst.InnerText(), "FB") {
			got = append(got, "FALLBACK")
		}
		if strings.Join(got, " ") != strings.Join(want, " ") {
			o.Fail(c, "opt/chaincontent/chain-or-else-member-lost/"+op.Form, "instance %d: supplied content with a v-if chain and a loop + v-else at its top level (a=%s, %s items): want %v, got %v\npage: %s\noutput: %s", k, op.Notes[0], op.Notes[1], want, got, page, out)
			return
		}
	}
}

func c06ExecOptVBind(c c06Case, o *core.Obs) {
	op := c.Opt
	body := `<b data-m="row">{{ p.a }}|{{ p.b }}|{{ p.c }}</b>`
	sup := `<template v-slot:x="p">` + body + `</template>`
	switch op.Form {
	case "destr":
		sup = `<template v-slot:x="{ a, b, c }">` + strings.NewReplacer("p.a", "a", "p.b", "b", "p.c", "c").Replace(body) + `</template>`
	case "hash":
		sup = `<template #x="p">` + body + `</template>`
	}
	page := `<template include="comp.vuego" :items="items">` + sup + `</template>`
	comp := `<ul data-m="comp"><li v-for="it in items"><slot name="x" :a="it.name" v-bind:b="it.name" v-bind:c="1 + 1">FB</slot></li></ul>`
	files := map[string]string{"page.vuego": page, "comp.vuego": comp}
	data := map[string]any{"items": []any{map[string]any{"name": "Ab"}, map[string]any{"name": "cDe"}}}
	var out string
	var err error
	if op.Entry == "vue" {
		out, err = renderVue(memFS(files), "page.vuego", data)
	} else {
		out, err = renderFile(memFS(files), "page.vuego", data)
	}
	o.Evals++
	o.NT("opt-vbind", mustJSON(op))
	o.Cell("part/opt/vbind/" + op.Form)
	if err != nil {
		o.Fail(c, "opt/vbind/render-error", "render failed: %v\npage: %s", err, page)
		return
	}
	var got []string
	for _, r := range oracle.Parse(out, false).ByAttr("data-m", "row") {
		got = append(got, r.InnerText())
	}
	want := []string{"Ab|Ab|2", "cDe|cDe|2"}
	if strings.Join(got, " ; ") != strings.Join(want, " ; ") {
		o.Fail(c, "opt/vbind/long-form-prop-missing/"+op.Form, "slot props bound with :a and v-bind:b / v-bind:c: want %v, got %v\npage: %s\ncomponent: %s\noutput: %s", want, got, page, comp, out)
	}
}

// destructured prop names are identifiers: an underscore or a digit is part of the name
func c06ExecOptDestrNames(c c06Case, o *core.Obs) {
	op := c.Opt
	body := `<b data-m="row">{{ user_id }}:{{ user }}:{{ label2 }}:{{ id }}:{{ item_2_x }}</b>`
	open := map[string]string{"destr-underscore-hash": `<template #row="{ user_id, label2, item_2_x }">`, "destr-underscore-long": `<template v-slot:row="{user_id,label2,item_2_x}">`,
		"destr-underscore-default": `<template v-slot="{ user_id , label2 , item_2_x }">`}[op.Form]
	slot := `<slot name="row" :user_id="7" :label2="'S'" :item_2_x="it">FB</slot>`
	if op.Form == "destr-underscore-default" {
		slot = `<slot :user_id="7" :label2="'S'" :item_2_x="it">FB</slot>`
	}
	page := `<template include="comp.vuego">` + open + body + `</template></template>`
	comp := `<ul data-m="comp"><li v-for="it in rows">` + slot + `</li></ul>`
	files := map[string]string{"page.vuego": page, "comp.vuego": comp}
	data := map[string]any{"user": "ann", "id": "I9", "rows": []any{"r1", "r2"}}
	var out string
	var err error
	if op.Entry == "vue" {
		out, err = renderVue(memFS(files), "page.vuego", data)
	} else {
		out, err = renderFile(memFS(files), "page.vuego", data)
	}
	o.Evals++
	o.NT("opt-destrnames", mustJSON(op))
	o.Cell("part/opt/destrnames/" + op.Form)
	if err != nil {
		o.Fail(c, "opt/destrnames/render-error", "render failed: %v\npage: %s", err, page)
		return
	}
	var got []string
	for _, r := range oracle.Parse(out, false).ByAttr("data-m", "row") {
		got = append(got, r.InnerText())
	}
	want := "7:ann:S:I9:r1 ; 7:ann:S:I9:r2"
	if strings.Join(got, " ; ") != want {
		o.Fail(c, "opt/destrnames/destructured-prop-with-underscore-or-digit-lost/"+op.Form, "destructured slot props user_id, label2, item_2_x next to the includer's user and id: want %q, got %v\npage: %s\ncomponent: %s\noutput: %s", want, got, page, comp, out)
	}
}

// slot names are compared as written: <slot name="Title"> and <slot name="title"> are two slots
func c06ExecOptCaseNames(c c06Case, o *core.Obs) {
	op := c.Opt
	sup := `<template #title="p">sub {{ p.k }}</template><template #row="p">[{{ p.k }}]</template>`
	if op.Form == "case-names-long" {
		sup = `<template v-slot:title="p">sub {{ p.k }}</template><template v-slot:row="p">[{{ p.k }}]</template>`
	}
	page := `<template include="comp.vuego">` + sup + `</template>`
	comp := `<div data-m="comp"><h1 data-m="s1"><slot name="Title" :k="'K1'">Untitled</slot></h1><h2 data-m="s2"><slot name="title" :k="'K2'">untitled</slot></h2>` +
		`<ul><li v-for="it in rows" data-m="li"><slot name="Row" :k="it">R-{{ it }}</slot>|<slot name="row" :k="it">r</slot></li></ul></div>`
	files := map[string]string{"page.vuego": page, "comp.vuego": comp}
	data := map[string]any{"rows": []any{"a", "b"}}
	var out string
	var err error
	if op.Entry == "vue" {
		out, err = renderVue(memFS(files), "page.vuego", data)
	} else {
		out, err = renderFile(memFS(files), "page.vuego", data)
	}
	o.Evals++
	o.NT("opt-casenames", mustJSON(op))
	o.Cell("part/opt/casenames/" + op.Form)
	if err != nil {
		o.Fail(c, "opt/casenames/render-error", "render failed: %v\npage: %s", err, page)
		return
	}
	doc := oracle.Parse(out, false)
	var got []string
	for _, m := range []string{"s1", "s2", "li"} {
		for _, n := range doc.ByAttr("data-m", m) {
			got = append(got, strings.Join(strings.Fields(n.InnerText()), ""))
		}
	}
	want := "Untitled ; subK2 ; R-a|[a] ; R-b|[b]"
	if strings.Join(got, " ; ") != want {
		o.Fail(c, "opt/casenames/content-for-one-slot-shown-in-a-slot-of-another-name/"+op.Form, "content supplied for `title` and `row`; the slots `Title` and `Row` got nothing and show their fallback: want %q, got %q\npage: %s\ncomponent: %s\noutput: %s", want, strings.Join(got, " ; "), page, comp, out)
	}
}

func c06ExecOptOwnAttrs(c c06Case, o *core.Obs) {
	op := c.Opt
	if strings.HasPrefix(op.Form, "case-names") {
		c06ExecOptCaseNames(c, o)
		return
	}
	if strings.HasPrefix(op.Form, "destr-underscore") {
		c06ExecOptDestrNames(c, o)
		return
	}
	body, want := `<b data-m="row">{{ name }}|{{ k }}</b>`, "Alice|K"
	sup := ""
	switch op.Form {
	case "hash-bare":
		sup = `<template #header>` + body + `</template>`
	case "long-bare":
		sup = `<template v-slot:header>` + body + `</template>`
	case "long-named":
		body, want = `<b data-m="row">{{ name }}|{{ p.k }}|{{ p.name }}</b>`, "Alice|1|"
		sup = `<template v-slot:header="p">` + body + `</template>`
	case "hash-named":
		body, want = `<b data-m="row">{{ name }}|{{ p.k }}|{{ p.name }}</b>`, "Alice|1|"
		sup = `<template #header="p">` + body + `</template>`
	case "destr":
		body, want = `<b data-m="row">{{ name }}|{{ k }}</b>`, "Alice|1"
		sup = `<template #header="{ k }">` + body + `</template>`
	}
	page := `<template include="comp.vuego">` + sup + `</template><i data-m="after">{{ name }}</i>`
	comp := `<div data-m="comp"><slot name="header" :k="1">FB</slot></div>`
	files := map[string]string{"page.vuego": page, "comp.vuego": comp}
	data := map[string]any{"name": "Alice", "k": "K"}
	var out string
	var err error
	if op.Entry == "vue" {
		out, err = renderVue(memFS(files), "page.vuego", data)
	} else {
		out, err = renderFile(memFS(files), "page.vuego", data)
	}
	o.Evals++
	o.NT("opt-ownattrs", mustJSON(op))
	o.Cell("part/opt/ownattrs/" + op.Form)
	if err != nil {
		o.Fail(c, "opt/ownattrs/render-error", "render failed: %v\npage: %s", err, page)
		return
	}
	doc := oracle.Parse(out, false)
	var got []string
	for _, r := range doc.ByAttr("data-m", "row") {
		got = append(got, r.InnerText())
	}
	if op.Form == "hash-bare" || op.Form == "long-bare" {
		// what a template without a declared variable sees of the bound prop k is not judged; the includer's own
		// variable `name` is: the slot binds no prop of that name
		for i := range got {
			if j := strings.LastIndex(got[i], "|"); j >= 0 {
				got[i] = got[i][:j] + "|K"
			}
		}
	}
	if strings.Join(got, " ; ") != want {
		o.Fail(c, "opt/ownattrs/slot-element-attribute-seen-as-prop/"+op.Form, "the slot binds the one prop k; its own name= attribute is not a prop (static attributes other than the name are not judged), the content reads the includer's variable `name`: want %q, got %v\npage: %s\ncomponent: %s\noutput: %s", want, got, page, comp, out)
	}
	if a := doc.ByAttr("data-m", "after"); len(a) != 1 || a[0].InnerText() != "Alice" {
		o.Fail(c, "opt/ownattrs/includer-variable-changed-after/"+op.Form, "after the include the includer's name must read Alice\noutput: %s", out)
	}
}

func c06ExecOptFbMarkup(c c06Case, o *core.Obs) {
	op := c.Opt
	supH, supD := op.Notes[0] == "h", op.Notes[1] == "d"
	body := ""
	if supH {
		body += `<template #h><b data-m="H">head</b></template>`
	}
	if supD {
		body += `<i data-m="D">dflt</i>`
	}
	page := `<template include="comp.vuego">` + body + `</template>`
	comp := `<div data-m="comp"><header data-m="sh"><slot name="h"><hr/> <small data-m="FBh">fb</small></slot></header>` +
		`<main data-m="sd"><slot><br/><img src="x.png"/><em data-m="FBd">fb</em> tail</slot></main><footer data-m="after">after</footer></div>`
	files := map[string]string{"page.vuego": page, "comp.vuego": comp}
	var out string
	var err error
	if op.Entry == "vue" {
		out, err = renderVue(memFS(files), "page.vuego", map[string]any{})
	} else {
		out, err = renderFile(memFS(files), "page.vuego", map[string]any{})
	}
	o.Evals++
	o.NT("opt-fbmarkup", mustJSON(op))
	o.Cell("part/opt/fbmarkup")
	if err != nil {
		o.Fail(c, "opt/fbmarkup/render-error", "render failed: %v\npage: %s", err, page)
		return
	}
	doc := oracle.Parse(out, false)
	in := func(slot string) string {
		w := doc.ByAttr("data-m", slot)
		if len(w) != 1 {
			return "?"
		}
		var ms []string
		for _, m := range w[0].AllMarkers("data-m") {
			if m != slot {
				ms = append(ms, m)
			}
		}
		return strings.Join(ms, ",")
	}
	wantH, wantD := "FBh", "FBd"
	if supH {
		wantH = "H"
	}
	if supD {
		wantD = "D"
	}
	if gh, gd := in("sh"), in("sd"); gh != wantH || gd != wantD || len(doc.ByAttr("data-m", "after")) != 1 {
		o.Fail(c, "opt/fbmarkup/fallback-and-content-mixed", "fallbacks holding self-closed void tags: named slot holds [%s] (want [%s]), unnamed slot holds [%s] (want [%s])\npage: %s\ncomponent: %s\noutput: %s", gh, wantH, gd, wantD, page, comp, out)
	}
}

func c06ExecOpt(c c06Case, o *core.Obs) {
	op := c.Opt
	if op.Shape == "fbmarkup" {
		c06ExecOptFbMarkup(c, o)
		return
	}
	if op.Shape == "chaincontent" {
		c06ExecOptChainContent(c, o)
		return
	}
	if op.Shape == "ownattrs" {
		c06ExecOptOwnAttrs(c, o)
		return
	}
	if op.Shape == "vbind" {
		c06ExecOptVBind(c, o)
		return
	}
	if op.Shape == "fnprops" {
		c06ExecOptFnProps(c, o)
		return
	}
	if op.Shape == "names" {
		c06ExecOptNames(c, o)
		return
	}
	var page, comp string
	data := map[string]any{}
	var want []string // expected marker sequence inside the component
	switch op.Form {
	case "destr":
		page = `<template v-slot:cell="{ label, note, count }"><b data-m="L:{{ label }}">{{ label }}</b><em v-if="note" data-m="N:{{ note }}">{{ note }}</em><u v-if="count" data-m="C:{{ count }}">{{ count }}</u></template>`
	case "named":
		page = `<template v-slot:cell="p"><b data-m="L:{{ p.label }}">{{ p.label }}</b><em v-if="p.note" data-m="N:{{ p.note }}">{{ p.note }}</em><u v-if="p.count" data-m="C:{{ p.count }}">{{ p.count }}</u></template>`
	default:
		page = `<template #cell="p"><b data-m="L:{{ p.label }}">{{ p.label }}</b><em v-if="p.note" data-m="N:{{ p.note }}">{{ p.note }}</em><u v-if="p.count" data-m="C:{{ p.count }}">{{ p.count }}</u></template>`
	}
	extra := map[string]string{}
	if op.Shape == "loop-include" || op.Shape == "loop-vhtml" {
		lbl, note := "p.label", "p.note"
		open := `<template v-slot:cell="p">`
		switch op.Form {
		case "destr":
			lbl, note, open = "label", "note", `<template v-slot:cell="{ label, note }">`
		case "hash":
			open = `<template #cell="p">`
		}
		if op.Shape == "loop-include" {
			page = open + `<template include="badge.vuego" :label="` + lbl + `" note="{{ ` + note + ` }}"></template></template>`
			extra["badge.vuego"] = `<b data-m="L:{{ label }}">{{ label }}</b><em data-m="N:{{ note }}">{{ note }}</em>`
		} else {
			page = open + `<b data-m="L:{{ ` + lbl + ` }}"><template v-html="` + lbl + `"></template></b><em data-m="N:{{ ` + note + ` }}" v-html="` + note + `"></em></template>`
		}
	}
	page = `<template include="comp.vuego" :rows="rows">` + page + `</template>`
	if op.Shape == "loop" || op.Shape == "loop-include" || op.Shape == "loop-vhtml" {
		comp = `<ul data-m="comp"><li v-for="row in rows"><slot name="cell" :label="row.label" :note="row.note">FB</slot></li></ul>`
		var rows []any
		for r, st := range op.Notes {
			row := map[string]any{"label": fmt.Sprintf("R%d", r)}
			want = append(want, fmt.Sprintf("L:R%d", r))
			switch {
			case strings.HasPrefix(st, "v:"):
				row["note"] = st[2:]
				want = append(want, "N:"+st[2:])
			case st == "nil":
				row["note"] = nil
			}
			rows = append(rows, row)
		}
		data["rows"] = rows
	} else {
		comp = `<div data-m="comp"><header><slot name="cell" :label="'H'" :note="'hn'">FB</slot></header><footer><slot name="cell" :label="'F'" :count="3">FB</slot></footer></div>`
		want = []string{"L:H", "N:hn", "L:F", "C:3"}
		data["rows"] = []any{}
	}
	files := map[string]string{"page.vuego": page, "comp.vuego": comp}
	for k, v := range extra {
		files[k] = v
	}
	var out string
	var err error
	if op.Entry == "vue" {
		out, err = renderVue(memFS(files), "page.vuego", data)
	} else {
		out, err = renderFile(memFS(files), "page.vuego", data)
	}
	o.Evals++
	o.NT("opt", mustJSON(op))
	o.Cell("part/opt/" + op.Shape + "/" + op.Form)
	sig := "opt/" + op.Shape
	if err != nil {
		o.Fail(c, sig+"/render-error", "render failed: %v\npage: %s\ncomponent: %s", err, page, comp)
		return
	}
	doc := oracle.Parse(out, false)
	var got []string
	for _, m := range doc.AllMarkers("data-m") {
		if m != "comp" {
			got = append(got, m)
		}
	}
	if strings.Join(got, " ") != strings.Join(want, " ") {
		defect := "props-of-another-use-visible"
		if len(got) < len(want) {
			defect = "props-missing"
		}
		o.Fail(c, sig+"/"+defect+"/"+op.Form, "each use of the slot must be filled with the props of THAT use: want markers %v, got %v\npage: %s\ncomponent: %s\ndata: %v\noutput: %s", want, got, page, comp, data, out)
	}
	if strings.Contains(out, "FB") {
		o.Fail(c, sig+"/fallback-in-addition-to-supplied", "fallback rendered although content was supplied\noutput: %s", out)
	}
}
