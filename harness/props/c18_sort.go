package props

import (
	"fmt"
	"io/fs"
	"sort"
	"strings"
	"testing/fstest"

	vuego "github.com/titpetric/vuego"

	"verifharness/core"
)

// C18 "globsort" cases: directory names of which one is a prefix of another and
// the next character sorts before '/' ("l", "l-v2", "l.bak", "l x"). fs.Glob on
// a single layer expands a wildcard directory part one directory at a time, so
// its own result is not globally sorted there; the overlay's result must be,
// whether one layer contributes matches or several.

var c18SortStacks = []string{"L", "nil,L", "L,nil", "empty,L", "L,empty", "L,M", "M,L", "nil,nil,L", "L,L", "M,empty,L"}
var c18SortPatterns = []string{"*/b", "l*/b", "*/*", "l*/*", "l*/[bc]", "*"}

func c18NSort() int { return len(c18SortStacks) }

func c18SortCase(i int) c18Case { return c18Case{Sort: c18SortStacks[i%len(c18SortStacks)]} }

func c18ExecSort(c c18Case) core.Obs {
	var o core.Obs
	o.NT("globsort", c.Sort)
	o.Cell("globsort/" + c.Sort)
	f := &fstest.MapFile{Data: []byte("x")}
	named := map[string]fstest.MapFS{
		"L":     {"l/b": f, "l-v2/b": f, "l.bak/b": f, "l x/b": f, "m/b": f, "l/c": f},
		"M":     {"l/c": f, "k/b": f, "l-v2/c": f, "l!/b": f},
		"empty": {},
	}
	var layers []fs.FS
	for _, n := range strings.Split(c.Sort, ",") {
		if n == "nil" {
			layers = append(layers, nil)
		} else {
			layers = append(layers, named[n])
		}
	}
	ov := vuego.NewOverlayFS(layers[0], layers[1:]...)
	for pass := 0; pass < 2; pass++ {
		for _, pat := range c18SortPatterns {
			o.Evals++
			set := map[string]bool{}
			for _, l := range layers {
				if l == nil {
					continue
				}
				ms, _ := fs.Glob(l, pat)
				for _, m := range ms {
					set[m] = true
				}
			}
			want := sortedKeys(set)
			got, err := ov.Glob(pat)
			suffix := ""
			if pass > 0 {
				suffix = "/on-a-used-overlay"
			}
			if err != nil {
				o.Fail(c, "globsort/error"+suffix, "Glob(%q) on stack (%s): %v", pat, c.Sort, err)
				continue
			}
			if fmt.Sprint(got) == fmt.Sprint(want) {
				continue
			}
			sig := "globsort/wrong-union"
			if g2 := append([]string{}, got...); !sort.StringsAreSorted(got) {
				sort.Strings(g2)
				if fmt.Sprint(g2) == fmt.Sprint(want) {
					sig = "globsort/unsorted"
				}
			}
			o.Fail(c, sig+suffix, "Glob(%q) on stack (%s): got %q, want the sorted union %q", pat, c.Sort, got, want)
		}
	}
	return o
}
