package props

import (
	"encoding/json"
	"fmt"
	"hash/fnv"
	"reflect"
	"strconv"
	"strings"
	"sync"
	"sync/atomic"

	vuego "github.com/titpetric/vuego"

	"verifharness/core"
)

// C10 — output depends only on the call's own templates and data, byte for byte.

type c10Step struct {
	Prog string `json:"p"` // catalogue program name
	EP   string `json:"ep"`
	V    int    `json:"v,omitempty"` // data variant (0 = as catalogued)
}

type c10Case struct {
	Kind  string    `json:"kind"` // pair | repeat | seq
	Base  bool      `json:"base"` // filesystem has layouts/base.vuego (default layout applies)
	Steps []c10Step `json:"steps"`
}

type c10 struct {
	progs  []Prog
	byName map[string]int
	mu     sync.Mutex
	ref    map[string]c10Ref
}

type c10Ref struct {
	out string
	err string
}

// invariant hooks (pooled scope map / builder must be handed out empty)
var (
	c10PoolDirty atomic.Int64
	c10BufDirty  atomic.Int64
	c10PoolGets  atomic.Int64
	c10BufGets   atomic.Int64
	c10HookOnce  sync.Once
)

func c10InstallHook() {
	c10HookOnce.Do(func() {
		addHook(func(point, a, b int) {
			switch point {
			case vuego.VerifPoolGet:
				c10PoolGets.Add(1)
				if a != 0 {
					c10PoolDirty.Add(1)
				}
			case vuego.VerifPoolPut:
				if a != 0 {
					c10PoolDirty.Add(1)
				}
			case vuego.VerifBufGet:
				c10BufGets.Add(1)
				if a != 0 {
					c10BufDirty.Add(1)
				}
			}
		})
	})
}

func init() {
	p := &c10{progs: Catalogue(), ref: map[string]c10Ref{}, byName: map[string]int{}}
	for i, pr := range p.progs {
		p.byName[pr.Name] = i
	}
	core.Register(p, core.Meta{
		Assumptions: []string{
			"the reference for every (program, entry point) is its render on a newly created engine; a program whose two fresh-engine renders already differ is reported as non-deterministic on its own",
			"error results are compared by error-ness and message text",
			"invariant hooks (build tag verif): pooled scope maps and string builders must be empty when handed out",
		},
		Exhaustive: func(ctx core.Ctx) bool { return false },
	})
}

func (p *c10) ID() string { return "C10" }
func (p *c10) Rule() string {
	return fmt.Sprintf("catalogue of %d template programs (every directive, several bound attributes + static/bound class/style, v-show, includes, nested includes, slots incl. scoped/destructured/default-dynamic/nested components, layouts, front-matter, filters, full document, 7 failing programs) living in one filesystem; cases: every ordered pair (i,j) of programs on one long-lived engine (j, i, j with changed data, j) x 2 filesystem configurations (with/without layouts/base.vuego), each program repeated 20x through all 4 entry points, seeded random sequences of length 3-8 mixing entry points; every step's bytes and error are compared with the same program on a fresh engine; caller data deep-compared before/after; every program prints the loop/prop/front-matter/slot variable names of all programs at top level (leak probes); non-trivial = sequence of >=2 steps; distinct by the step list", len(p.progs))
}

func (p *c10) dims(ctx core.Ctx) (pairs, repeats, seqs int) {
	n := len(p.progs)
	return n * n * 2, n * 2, ctx.Pick(5000, 200000)
}

func (p *c10) Plan(ctx core.Ctx) int {
	a, b, c := p.dims(ctx)
	return a + b + c
}

func (p *c10) Gen(ctx core.Ctx, i int) any {
	n := len(p.progs)
	pairs, repeats, _ := p.dims(ctx)
	if i < pairs {
		base := i%2 == 1
		i /= 2
		a, b := i/n, i%n
		ep := catEntryPoints[(a+b+int(ctx.Seed))%len(catEntryPoints)]
		ep2 := catEntryPoints[(a*3+b+int(ctx.Seed))%len(catEntryPoints)]
		return c10Case{Kind: "pair", Base: base, Steps: []c10Step{{p.progs[b].Name, ep2, 0}, {p.progs[a].Name, ep, 0}, {p.progs[b].Name, ep2, 1}, {p.progs[b].Name, ep2, 0}}}
	}
	i -= pairs
	if i < repeats {
		c := c10Case{Kind: "repeat", Base: i%2 == 1}
		for k := 0; k < 20; k++ {
			c.Steps = append(c.Steps, c10Step{p.progs[i/2].Name, catEntryPoints[k%len(catEntryPoints)], (k / 4) % 3})
		}
		return c
	}
	i -= repeats
	r := core.NewRNG(ctx.Seed, 0xC10, uint64(i))
	c := c10Case{Kind: "seq", Base: r.Bool()}
	for k := 3 + r.Intn(6); k > 0; k-- {
		c.Steps = append(c.Steps, c10Step{p.progs[r.Intn(n)].Name, core.Pick(r, catEntryPoints), r.Intn(3)})
	}
	return c
}

// CrossCheck: the bytes a fresh engine produces for one (program, entry point, data variant) are a function of those
// alone, so every worker process - each with a different history of earlier renders - must have recorded the same hash.
func (p *c10) CrossCheck(ctx core.Ctx, perWorker []map[string]int) []core.Violation {
	seen := map[string]map[string][]int{} // key -> hash -> workers
	for w, cells := range perWorker {
		for c := range cells {
			parts := strings.Split(c, "|")
			if len(parts) != 3 || parts[0] != "xproc" {
				continue
			}
			if seen[parts[1]] == nil {
				seen[parts[1]] = map[string][]int{}
			}
			seen[parts[1]][parts[2]] = append(seen[parts[1]][parts[2]], w)
		}
	}
	var out []core.Violation
	byProg := map[string]bool{}
	for _, key := range sortedKeys(seen) {
		if len(seen[key]) < 2 {
			continue
		}
		f := strings.Split(key, "/") // base/prog/ep/variant
		if len(f) != 4 || byProg[f[1]] {
			continue
		}
		byProg[f[1]] = true
		v, _ := strconv.Atoi(f[3])
		wit := c10Case{Kind: "seq", Base: f[0] == "true", Steps: []c10Step{{f[1], f[2], v}}}
		raw, _ := json.Marshal(wit)
		var desc []string
		for _, h := range sortedKeys(seen[key]) {
			desc = append(desc, fmt.Sprintf("hash %s in worker processes %v", h, seen[key][h]))
		}
		out = append(out, core.Violation{Sig: "bytes-differ-between-processes/" + f[1], Case: raw,
			Detail: fmt.Sprintf("a fresh engine rendering program %s (%s, data variant %s) produced different bytes in different worker processes, which differ only in what they rendered before: %s", f[1], f[2], f[3], strings.Join(desc, "; "))})
	}
	return out
}

func (p *c10) Decode(raw json.RawMessage) (any, error) { return core.JSONDecode[c10Case](raw) }

func (p *c10) files(base bool) map[string]string {
	extra := map[string]string{}
	if base {
		extra["layouts/base.vuego"] = `<html><head><title>base</title></head><body data-base="1"><div v-html="content"></div></body></html>`
	}
	return CatFS(p.progs, extra)
}

func (p *c10) reference(base bool, st c10Step, o *core.Obs) c10Ref {
	key := fmt.Sprintf("%v/%s/%s/%d", base, st.Prog, st.EP, st.V)
	p.mu.Lock()
	r, ok := p.ref[key]
	p.mu.Unlock()
	if ok {
		return r
	}
	prog := &p.progs[p.byName[st.Prog]]
	out, err := newCatEngine(memFS(p.files(base))).run(prog, st.EP, prog.Variant(st.V))
	o.Evals++
	r = c10Ref{out: out, err: errStr(err)}
	// recorded once per process: the monitor compares it with what the other worker processes got (CrossCheck)
	h := fnv.New64a()
	h.Write([]byte(out + "\x00" + errStr(err)))
	o.Cell(fmt.Sprintf("xproc|%s|%016x", key, h.Sum64()))
	p.mu.Lock()
	p.ref[key] = r
	p.mu.Unlock()
	return r
}

func (p *c10) Exec(ctx core.Ctx, cc any) core.Obs {
	c := cc.(c10Case)
	var o core.Obs
	c10InstallHook()
	dirty0, bdirty0 := c10PoolDirty.Load(), c10BufDirty.Load()
	gets0, bgets0 := c10PoolGets.Load(), c10BufGets.Load()
	eng := newCatEngine(memFS(p.files(c.Base)))
	if len(c.Steps) >= 2 {
		o.NT(mustJSON(c))
	}
	for k, st := range c.Steps {
		pi, known := p.byName[st.Prog]
		if !known {
			continue
		}
		prog := &p.progs[pi]
		ref := p.reference(c.Base, st, &o)
		data := prog.Variant(st.V)
		snapshot := prog.Variant(st.V) // an independent deep copy built from the same description
		out, err := eng.run(prog, st.EP, data)
		o.Evals++
		o.Cell("ep/" + st.EP)
		o.Cell("prog/" + prog.Name)
		sigBase := fmt.Sprintf("%s/%s", c10ProgClass(prog), st.EP)
		if !reflect.DeepEqual(data, snapshot) {
			o.Fail(c, "caller-data-modified/"+sigBase, "step %d (%s via %s): the data passed by the caller was modified by the render\nbefore: %v\nafter:  %v", k, prog.Name, st.EP, snapshot, data)
		}
		if (err != nil) != prog.WantErr && !strings.HasPrefix(st.EP, "vue-") {
			o.Fail(c, "unexpected-error-ness/"+sigBase, "step %d (%s via %s): error=%v, catalogue expects error=%v", k, prog.Name, st.EP, err, prog.WantErr)
		}
		if errStr(err) != ref.err {
			o.Fail(c, "error-differs-from-fresh/"+sigBase, "step %d (%s via %s): error %q, fresh engine: %q", k, prog.Name, st.EP, errStr(err), ref.err)
			continue
		}
		if out != ref.out {
			kind := "bytes-differ-from-fresh"
			if c10Leaked(out) {
				kind = "value-leaked"
			} else if c10SameModuloOrder(out, ref.out) {
				kind = "order-differs-from-fresh"
			}
			o.Fail(c, kind+"/"+sigBase, "step %d (%s via %s) of %v: output differs from the same program on a fresh engine\n%s", k, prog.Name, st.EP, c10Names(p, c), firstDiff(ref.out, out))
		}
		if c10Leaked(ref.out) {
			o.Fail(c, "value-leaked-fresh/"+sigBase, "%s: a loop/prop/slot variable is visible at top level even on a fresh engine\n%s", prog.Name, ref.out)
		}
	}
	if d := c10PoolDirty.Load() - dirty0; d > 0 {
		o.Fail(c, "hook/pooled-scope-map-not-empty", "a pooled scope map was handed out or returned non-empty %d times during %v", d, c10Names(p, c))
	}
	if d := c10BufDirty.Load() - bdirty0; d > 0 {
		o.Fail(c, "hook/pooled-builder-not-empty", "a pooled strings.Builder was handed out non-empty %d times during %v", d, c10Names(p, c))
	}
	o.Count("hook_pool_gets", c10PoolGets.Load()-gets0)
	o.Count("hook_buf_gets", c10BufGets.Load()-bgets0)
	if c.Kind == "seq" && len(c.Steps) == 5 {
		o.Sample = map[string]any{"kind": c.Kind, "default_layout": c.Base, "steps": c10Names(p, c)}
	}
	return o
}

func c10ProgClass(p *Prog) string {
	if p.WantErr {
		return "failing:" + p.Name
	}
	return p.Name
}

func c10Names(p *c10, c c10Case) []string {
	var out []string
	for _, s := range c.Steps {
		out = append(out, fmt.Sprintf("%s@%s/v%d", s.Prog, s.EP, s.V))
	}
	return out
}

func c10Leaked(out string) bool {
	i := strings.Index(out, `<i data-leak="1">`)
	if i < 0 {
		return false
	}
	rest := out[i+len(`<i data-leak="1">`):]
	j := strings.Index(rest, "</i>")
	return j > 0 && strings.TrimSpace(rest[:j]) != ""
}

// c10SameModuloOrder: same multiset of bytes (a cheap sign of reordering).
func c10SameModuloOrder(a, b string) bool {
	if len(a) != len(b) {
		return false
	}
	var ca, cb [256]int
	for i := 0; i < len(a); i++ {
		ca[a[i]]++
		cb[b[i]]++
	}
	return ca == cb
}

func firstDiff(want, got string) string {
	i := 0
	for i < len(want) && i < len(got) && want[i] == got[i] {
		i++
	}
	s := max(0, i-60)
	return fmt.Sprintf("first difference at byte %d\nfresh: …%s\ngot:   …%s", i, clip(want[s:], 200), clip(got[s:], 200))
}
