package props

import (
	"encoding/json"
	"errors"
	"fmt"
	"io/fs"
	"sort"
	"strings"
	"testing/fstest"
	"time"

	vuego "github.com/titpetric/vuego"

	"verifharness/core"
)

// C18 — overlay filesystem vs a reference union model. Exhaustive over layer
// stacks built from a small universe of per-layer states.

// layer state: for each top-level name what it is in this layer.
type c18Layer struct {
	Nil bool `json:"nil,omitempty"`
	A   int  `json:"a"` // 0 absent, 1 file
	D   int  `json:"d"` // 0 absent, 1 file, 2.. dir with subset (bit0 x, bit1 y) encoded as 2+mask
	E   int  `json:"e"` // 0 absent, 1 file, 2 dir{z}, 3 empty dir
}

type c18Case struct {
	Sort   string     `json:"sort,omitempty"` // globsort case (c18_sort.go): the stack, by layer names
	Layers []c18Layer `json:"layers"`
}

type c18 struct{ states []c18Layer }

func init() {
	p := &c18{}
	p.states = append(p.states, c18Layer{Nil: true})
	for a := 0; a < 2; a++ {
		for d := 0; d < 6; d++ {
			for e := 0; e < 4; e++ {
				p.states = append(p.states, c18Layer{A: a, D: d, E: e})
			}
		}
	}
	core.Register(p, core.Meta{
		Exhaustive: func(ctx core.Ctx) bool { return true },
		Assumptions: []string{
			"testing/fstest.MapFS is a correct fs.FS (used for the layers)",
			"the root '.' of an overlay always exists (pinned by the repository's own tests for all-nil overlays)",
			"a malformed glob pattern is only required not to panic (the statement is silent about it)",
		},
	})
}

func (p *c18) ID() string { return "C18" }
func (p *c18) Rule() string {
	return "every stack of L layers (quick: L<=2 plus every 3-layer stack with a nil layer or a repeated state; thorough: all L<=4) where each layer is nil or one of 48 MapFS states over {a, d, d/x, d/y, e, e/z} (a,d,e absent/file; d,e also directory incl. explicitly empty); each stack is queried (as it is, and twice more with the layers at even / odd positions hidden behind a wrapper that implements Open only) with ReadFile/Stat/ReadDir on every name of the universe, '.', a missing name, and 14 glob patterns (six of them with a character class or an escape but no * or ?); globsort cases: 10 stacks over two fixed layers whose directory names are prefixes of one another followed by a character that sorts before '/' (l, l-v2, l.bak, 'l x', l!), 6 patterns with a wildcard directory part, against the sorted union of fs.Glob per layer; non-trivial = stack with at least one non-nil layer; distinct by the tuple of layer states"
}

func (p *c18) stacks(ctx core.Ctx) int {
	n := len(p.states)
	t := n + n*n + n*n*n
	if ctx.Thorough() {
		t += n * n * n * n // every 4-layer stack
	}
	return t
}

func (p *c18) Plan(ctx core.Ctx) int { return p.stacks(ctx) + c18NSort() }

func (p *c18) Gen(ctx core.Ctx, i int) any {
	if i >= p.stacks(ctx) {
		return c18SortCase(i - p.stacks(ctx))
	}
	n := len(p.states)
	var idx []int
	switch {
	case i < n:
		idx = []int{i}
	case i < n+n*n:
		j := i - n
		idx = []int{j / n, j % n}
	case i < n+n*n+n*n*n:
		j := i - n - n*n
		idx = []int{j / (n * n), (j / n) % n, j % n}
	default:
		j := i - n - n*n - n*n*n
		idx = []int{j / (n * n * n), (j / (n * n)) % n, (j / n) % n, j % n}
	}
	c := c18Case{}
	for _, k := range idx {
		c.Layers = append(c.Layers, p.states[k])
	}
	if !ctx.Thorough() && len(idx) == 3 {
		// quick tier: only 3-layer stacks that contain a nil layer or a repeated state
		if !(idx[0] == 0 || idx[1] == 0 || idx[2] == 0 || idx[0] == idx[1] || idx[1] == idx[2] || idx[0] == idx[2]) {
			return c18Case{} // skipped (empty)
		}
	}
	return c
}

func (p *c18) Decode(raw json.RawMessage) (any, error) { return core.JSONDecode[c18Case](raw) }

type refEntry struct {
	dir     bool
	data    string
	mode    fs.FileMode
	modTime time.Time
}

func c18Build(l c18Layer, li int) (fstest.MapFS, map[string]refEntry) {
	m := fstest.MapFS{}
	ref := map[string]refEntry{}
	mt := time.Unix(1700000000+int64(li)*1000, 0).UTC()
	file := func(name string) {
		data := fmt.Sprintf("L%d:%s", li, name)
		mode := fs.FileMode(0o600 + li)
		m[name] = &fstest.MapFile{Data: []byte(data), Mode: mode, ModTime: mt}
		ref[name] = refEntry{data: data, mode: mode, modTime: mt}
	}
	dir := func(name string) {
		mode := fs.ModeDir | fs.FileMode(0o700+li)
		m[name] = &fstest.MapFile{Mode: mode, ModTime: mt}
		ref[name] = refEntry{dir: true, mode: mode, modTime: mt}
	}
	if l.A == 1 {
		file("a")
	}
	switch {
	case l.D == 1:
		file("d")
	case l.D >= 2:
		dir("d")
		mask := l.D - 2
		if mask&1 != 0 {
			file("d/x")
		}
		if mask&2 != 0 {
			file("d/y")
		}
	}
	switch l.E {
	case 1:
		file("e")
	case 2:
		dir("e")
		file("e/z")
	case 3:
		dir("e")
	}
	return m, ref
}

var c18Names = []string{"a", "d", "d/x", "d/y", "e", "e/z", "nope", "d/nope"}
// the last six are wildcard-free in the sense of "no * and no ?": a character class or an escape is still a pattern
var c18Globs = []string{"*", "*/*", "d/*", "?", "[ad]*", "e/z", "zz*", "[a", "[ad]", "[^a]", "d/[xy]", "e/[a-z]", `\a`, `d/\x`}

// c18OpenOnly hides every optional interface of a layer (ReadFileFS, ReadDirFS, StatFS, GlobFS): only Open is left.
type c18OpenOnly struct{ f fs.FS }

func (w c18OpenOnly) Open(name string) (fs.File, error) { return w.f.Open(name) }

func (p *c18) Exec(ctx core.Ctx, cc any) core.Obs {
	c := cc.(c18Case)
	if c.Sort != "" {
		return c18ExecSort(c)
	}
	var o core.Obs
	if len(c.Layers) == 0 {
		return o
	}
	var layers []fs.FS
	var refs []map[string]refEntry
	nonNil := 0
	for i, l := range c.Layers {
		if l.Nil {
			layers = append(layers, nil)
			refs = append(refs, nil)
			continue
		}
		nonNil++
		m, r := c18Build(l, i)
		layers = append(layers, m)
		refs = append(refs, r)
	}
	ov := vuego.NewOverlayFS(layers[0], layers[1:]...)
	shape := fmt.Sprintf("L%d/nil%d", len(c.Layers), len(c.Layers)-nonNil)
	if nonNil > 0 {
		o.NT(mustJSON(c))
	}

	first := func(name string) (refEntry, int, bool) {
		for i, r := range refs {
			if r == nil {
				continue
			}
			if e, ok := r[name]; ok {
				return e, i, true
			}
		}
		return refEntry{}, -1, false
	}

	// every query is made twice on the same overlay: what a query answers must
	// not depend on the queries (Glob, ReadDir, Open ...) made before it
	// passes 2-3 and 4-5 repeat everything on overlays of the same layers with every second layer (even / odd positions)
	// hidden behind a wrapper that offers Open only - what a zip.Reader or a hand-written fs.FS is: which optional
	// interfaces a layer implements must not change which layer answers
	pass := 0
	fail := func(sig, format string, args ...any) {
		if pass >= 2 {
			sig += "/open-only-layers"
		}
		if pass%2 == 1 {
			sig += "/on-a-used-overlay"
		}
		o.Fail(c, sig, format, args...)
	}
	for pass = 0; pass < 6; pass++ {
		if pass == 2 || pass == 4 {
			wrapped := make([]fs.FS, len(layers))
			for i, l := range layers {
				wrapped[i] = l
				if l != nil && i%2 == (pass/2)%2 {
					wrapped[i] = c18OpenOnly{l}
				}
			}
			ov = vuego.NewOverlayFS(wrapped[0], wrapped[1:]...)
			o.Cell(fmt.Sprintf("layers-behind-open-only-wrapper/%s-positions", []string{"", "odd", "even"}[pass/2]))
		}
		for _, name := range c18Names {
			exp, li, has := first(name)
			// ReadFile
			o.Evals++
			data, err := fs.ReadFile(ov, name)
			switch {
			case !has:
				if err == nil || !errors.Is(err, fs.ErrNotExist) {
					fail("readfile/absent-not-notexist", "ReadFile(%q) on a path present in no layer: got data=%q err=%v, want fs.ErrNotExist", name, data, err)
				}
				o.Cell("readfile/absent")
			case exp.dir:
				if err == nil {
					fail("readfile/dir-no-error", "ReadFile(%q): first layer having it (%d) has a directory, got data=%q and no error", name, li, data)
				}
				o.Cell("readfile/dir")
			default:
				if err != nil || string(data) != exp.data {
					fail("readfile/wrong-layer", "ReadFile(%q): want %q from layer %d, got %q err=%v", name, exp.data, li, data, err)
				}
				o.Cell(fmt.Sprintf("readfile/file@layer%d", li))
			}
			// Stat
			o.Evals++
			info, err := fs.Stat(ov, name)
			switch {
			case !has:
				if err == nil || !errors.Is(err, fs.ErrNotExist) {
					fail("stat/absent-not-notexist", "Stat(%q) on a path present in no layer: err=%v, want fs.ErrNotExist", name, err)
				}
			case err != nil:
				fail("stat/error", "Stat(%q): layer %d has it, got err=%v", name, li, err)
			default:
				wantSize := int64(len(exp.data))
				if info.IsDir() != exp.dir || info.Mode() != exp.mode || !info.ModTime().Equal(exp.modTime) || (!exp.dir && info.Size() != wantSize) {
					fail("stat/metadata-wrong-layer", "Stat(%q): want dir=%v mode=%v mtime=%v size=%d (layer %d), got dir=%v mode=%v mtime=%v size=%d",
						name, exp.dir, exp.mode, exp.modTime, wantSize, li, info.IsDir(), info.Mode(), info.ModTime(), info.Size())
				}
				o.Cell(fmt.Sprintf("stat/@layer%d", li))
			}
		}

		// ReadDir on every directory-like name and the root
		for _, name := range []string{".", "d", "e", "a", "nope"} {
			o.Evals++
			want := map[string]bool{} // entry name -> isDir
			anyDir, anyFile := false, false
			for _, r := range refs {
				if r == nil {
					continue
				}
				isDirHere := name == "."
				if e, ok := r[name]; ok {
					if e.dir {
						isDirHere = true
					} else {
						anyFile = true
					}
				}
				if !isDirHere {
					continue
				}
				anyDir = true
				for k, e := range r {
					var child string
					if name == "." {
						if strings.Contains(k, "/") {
							continue
						}
						child = k
					} else {
						if !strings.HasPrefix(k, name+"/") {
							continue
						}
						child = strings.TrimPrefix(k, name+"/")
					}
					if _, dup := want[child]; !dup {
						want[child] = e.dir
					}
				}
			}
			got, err := fs.ReadDir(ov, name)
			kind := "dir"
			switch {
			case name == "." && nonNil == 0:
				// root of an all-nil overlay: exists and is empty (pinned by the repository's tests)
				if err != nil || len(got) != 0 {
					fail("readdir/root-all-nil", "ReadDir('.') on an overlay of nil layers: got %d entries err=%v, want empty listing", len(got), err)
				}
				continue
			case !anyDir && !anyFile:
				kind = "absent"
				if err == nil || !errors.Is(err, fs.ErrNotExist) {
					fail("readdir/absent-not-notexist/"+shapeNil(nonNil), "ReadDir(%q) on a path present in no layer: got %d entries err=%v, want fs.ErrNotExist", name, len(got), err)
				}
			case !anyDir && anyFile:
				kind = "file"
				if err == nil {
					fail("readdir/file-no-error", "ReadDir(%q): only a regular file exists, got %d entries and no error", name, len(got))
				}
			default:
				if anyFile {
					kind = "dir+file"
				}
				if err != nil {
					sig := "readdir/error-on-existing-dir"
					if len(want) == 0 {
						sig = "readdir/empty-dir-reported-as-error"
					}
					fail(sig, "ReadDir(%q): a layer has this directory (union has %d entries), got err=%v", name, len(want), err)
					break
				}
				var gotNames []string
				for _, e := range got {
					gotNames = append(gotNames, e.Name())
				}
				var wantNames []string
				for k := range want {
					wantNames = append(wantNames, k)
				}
				sort.Strings(wantNames)
				if strings.Join(gotNames, ",") != strings.Join(wantNames, ",") {
					sig := "readdir/wrong-union"
					if sort.StringsAreSorted(gotNames) == false {
						sig = "readdir/unsorted"
					}
					fail(sig, "ReadDir(%q): want %v, got %v", name, wantNames, gotNames)
					break
				}
				for _, e := range got {
					if e.IsDir() != want[e.Name()] {
						fail("readdir/lower-entry-shadows-upper", "ReadDir(%q): entry %q isDir=%v, but the uppermost layer listing it says isDir=%v", name, e.Name(), e.IsDir(), want[e.Name()])
					}
				}
			}
			o.Cell("readdir/" + kind + "/" + shape)
		}

		// Glob
		for _, pat := range c18Globs {
			o.Evals++
			set := map[string]bool{}
			bad := false
			for _, l := range layers {
				if l == nil {
					continue
				}
				m, err := fs.Glob(l, pat)
				if err != nil {
					bad = true
				}
				for _, x := range m {
					set[x] = true
				}
			}
			got, err := fs.Glob(ov, pat)
			if bad || pat == "[a" {
				o.Cell("glob/malformed")
				continue // only required not to panic
			}
			var want []string
			for k := range set {
				want = append(want, k)
			}
			sort.Strings(want)
			if err != nil {
				fail("glob/error", "Glob(%q): err=%v", pat, err)
				continue
			}
			if strings.Join(got, ",") != strings.Join(want, ",") {
				sig := "glob/wrong-union"
				if !sort.StringsAreSorted(got) {
					sig = "glob/unsorted"
				} else if hasDup(got) {
					sig = "glob/duplicates"
				}
				fail(sig, "Glob(%q): want %v, got %v", pat, want, got)
			}
			if len(want) > 0 {
				o.Cell("glob/matches/" + shape)
			} else {
				o.Cell("glob/empty/" + shape)
			}
		}
		if nonNil >= 2 {
			o.Sample = map[string]any{"layers": c.Layers, "queries": len(c18Names)*2 + 5 + len(c18Globs)}
		}
	}
	return o
}

func shapeNil(nonNil int) string {
	if nonNil == 0 {
		return "all-nil"
	}
	return "some-layer"
}

func hasDup(xs []string) bool {
	s := map[string]bool{}
	for _, x := range xs {
		if s[x] {
			return true
		}
		s[x] = true
	}
	return false
}

func mustJSON(v any) string {
	raw, _ := json.Marshal(v)
	return string(raw)
}
