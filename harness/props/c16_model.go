package props

import (
	"fmt"
	"strings"
)

// ---- the case: a site described as an AST

type c16Node struct {
	K    string    `json:"k"`              // once | el | for | tfor | if | inc | slot | content
	Tag  string    `json:"tag,omitempty"`  // once: script | style | div
	M    string    `json:"m,omitempty"`    // unique marker (once, el)
	ID   int       `json:"id,omitempty"`   // loop id: list d<ID>, variable x<ID>
	On   []bool    `json:"on,omitempty"`   // loop items: the 'on' flag of every item (for, tfor, once/inc with Loop)
	Loop bool      `json:"loop,omitempty"` // once / inc: the element itself carries v-for over On
	Cond string    `json:"cond,omitempty"` // if: T | F | x (x<Ref>.on); once: constant v-if on the same element (T | F)
	Ref  int       `json:"ref,omitempty"`
	Comp int       `json:"comp,omitempty"` // inc: index into Comps
	Kids []c16Node `json:"kids,omitempty"` // children; for inc: the slot content
}

type c16File struct {
	Name   string    `json:"name"`
	Form   string    `json:"form,omitempty"`   // component: bare | troot (<template> root); layout: frag | doc
	Layout string    `json:"layout,omitempty"` // front-matter layout value
	Head   []c16Node `json:"head,omitempty"`   // doc form: content of <head>
	Body   []c16Node `json:"body,omitempty"`
}

type c16Case struct {
	Part    string    `json:"part"` // enum | rand
	Label   string    `json:"label,omitempty"`
	Page    c16File   `json:"page"`
	Alt     *c16File  `json:"alt,omitempty"`
	Comps   []c16File `json:"comps,omitempty"`
	Layouts []c16File `json:"layouts,omitempty"`
	Scen    *c16Scen  `json:"scen,omitempty"` // part scen (c16_scen.go)
}

// ---- sources

func c16NodeSrc(b *strings.Builder, nodes []c16Node) {
	for i := range nodes {
		n := &nodes[i]
		loop := ""
		if n.ID > 0 && (n.K == "for" || n.K == "tfor" || n.Loop) {
			loop = fmt.Sprintf(` v-for="x%d in d%d"`, n.ID, n.ID)
		}
		switch n.K {
		case "once":
			cond := ""
			if n.Cond != "" {
				cond = fmt.Sprintf(` v-if="c%s"`, n.Cond)
			}
			fmt.Fprintf(b, `<%s v-once%s%s data-m="%s">`, n.Tag, loop, cond, n.M)
			switch n.Tag {
			case "script":
				fmt.Fprintf(b, "var %s=1;", n.M)
			case "style":
				fmt.Fprintf(b, ".%s{}", n.M)
			default:
				c16NodeSrc(b, n.Kids)
			}
			fmt.Fprintf(b, "</%s>", n.Tag)
		case "el":
			if len(n.Kids) == 0 {
				fmt.Fprintf(b, `<i data-m="%s"></i>`, n.M)
			} else {
				fmt.Fprintf(b, `<section data-m="%s">`, n.M)
				c16NodeSrc(b, n.Kids)
				b.WriteString("</section>")
			}
		case "for":
			fmt.Fprintf(b, "<div%s>", loop)
			c16NodeSrc(b, n.Kids)
			b.WriteString("</div>")
		case "tfor":
			fmt.Fprintf(b, "<template%s>", loop)
			c16NodeSrc(b, n.Kids)
			b.WriteString("</template>")
		case "if":
			cond := "c" + n.Cond
			if n.Cond == "x" {
				cond = fmt.Sprintf("x%d.on", n.Ref)
			}
			fmt.Fprintf(b, `<div v-if="%s">`, cond)
			c16NodeSrc(b, n.Kids)
			b.WriteString("</div>")
		case "inc":
			fmt.Fprintf(b, `<template%s include="c%d.vuego">`, loop, n.Comp)
			c16NodeSrc(b, n.Kids)
			b.WriteString("</template>")
		case "slot":
			b.WriteString("<slot></slot>")
		case "content":
			b.WriteString(`<div v-html="content"></div>`)
		}
	}
}

func c16FileBody(f *c16File) string {
	var b strings.Builder
	switch f.Form {
	case "troot":
		b.WriteString("<template>")
		c16NodeSrc(&b, f.Body)
		b.WriteString("</template>")
	case "doc":
		b.WriteString("<html><head>")
		c16NodeSrc(&b, f.Head)
		b.WriteString("</head><body>")
		c16NodeSrc(&b, f.Body)
		b.WriteString("</body></html>")
	default:
		c16NodeSrc(&b, f.Body)
	}
	return b.String()
}

// c16Sources returns the file system content and, per page, the body without front-matter.
func c16Sources(c *c16Case) (files map[string]string, bodies map[string]string) {
	files, bodies = map[string]string{}, map[string]string{}
	add := func(f *c16File, page bool) {
		body := c16FileBody(f)
		src := body
		if f.Layout != "" {
			src = "---\nlayout: " + f.Layout + "\n---\n" + body
		}
		files[f.Name] = src
		if page {
			bodies[f.Name] = body
		}
	}
	add(&c.Page, true)
	if c.Alt != nil {
		add(c.Alt, true)
	}
	for i := range c.Comps {
		add(&c.Comps[i], false)
	}
	for i := range c.Layouts {
		add(&c.Layouts[i], false)
	}
	return
}

func c16Data(c *c16Case) map[string]any {
	d := map[string]any{"cT": true, "cF": false}
	var walk func(ns []c16Node)
	walk = func(ns []c16Node) {
		for i := range ns {
			n := &ns[i]
			if n.ID > 0 && (n.K == "for" || n.K == "tfor" || n.Loop) {
				items := make([]any, 0, len(n.On))
				for k, on := range n.On {
					items = append(items, map[string]any{"i": k, "on": on})
				}
				d[fmt.Sprintf("d%d", n.ID)] = items
			}
			walk(n.Kids)
		}
	}
	each := func(f *c16File) { walk(f.Head); walk(f.Body) }
	each(&c.Page)
	if c.Alt != nil {
		each(c.Alt)
	}
	for i := range c.Comps {
		each(&c.Comps[i])
	}
	for i := range c.Layouts {
		each(&c.Layouts[i])
	}
	return d
}

// ---- reference model

type c16Expect struct {
	wantPage    map[string]int // expected occurrences when only the page is rendered
	wantFull    map[string]int // page plus every layout of its chain (each a render unit of its own)
	reach       map[string]int // how often evaluation arrives at a marked element (all units)
	class       map[string]string
	units       map[string]map[string]bool
	guard       map[string]string // marked element -> unmarked witness that vouches for its surroundings
	dep         map[string]bool   // unmarked element that lives inside a marked one
	parent      map[string]string // marked element -> marked element it lives in (dynamic nesting), if any
	troot       map[string]bool   // some path to the element leads through a component whose first node is a <template> tag
	afterRoot   map[string]bool   // some path reaches the element as a later sibling of a component's first-node <template>: the engine takes that tag as the component's root and renders nothing that follows it
	visits      int               // size of the walk
	selfLoop    map[string]int    // marked element that carries v-for itself: number of items
	staticGuard map[string]string
	onceMs      []string // every marked element of the case
	plainMs     []string
	chainLen    int
}

func (m *c16Expect) classOf(k string) string { return m.classFor(k, true) }

// classFor is the placement class used in cells and signatures.
func (m *c16Expect) classFor(k string, withLayouts bool) string {
	cl := m.class[k]
	if cl == "" {
		return "unreached"
	}
	if m.troot[k] {
		cl = "in-component-whose-first-node-is-template"
	}
	u := m.units[k]
	unit := "page"
	switch {
	case u["page"] && u["layout"] && withLayouts:
		unit = "page+layout"
	case u["page"]:
		unit = "page"
	case u["layout"]:
		unit = "layout"
	}
	return unit + ":" + cl
}

type c16Slot struct {
	kids   []c16Node
	parent *c16Slot
}

type c16Walker struct {
	afterRoot int // > 0 while walking the siblings that follow a component's first-node <template>
	c         *c16Case
	x         *c16Expect
	seen      map[string]bool
	counts    map[string]int
	env       map[int]bool
	frames    []string
	underOnce int
	onceStack []string
	guard     string
	unit      string
}

func (w *c16Walker) underTRoot() bool {
	for _, f := range w.frames {
		if f == "inc:troot" || f == "inc:tfirst" {
			return true
		}
	}
	return false
}

func (w *c16Walker) classNow(n *c16Node) string {
	if n.Loop {
		return "v-for-on-same-element"
	}
	if n.Cond != "" {
		return "v-if-on-same-element"
	}
	if len(w.frames) == 0 {
		return "top"
	}
	switch f := w.frames[len(w.frames)-1]; f {
	case "for":
		return "in-for"
	case "tfor":
		return "in-template-for"
	case "if":
		return "in-if"
	case "slot":
		return "in-slot-content"
	case "once":
		return "in-marked-element"
	case "el":
		return "in-element"
	default:
		return "in-component"
	}
}

// c16CompKind: a component file whose first node is a <template> tag is
// handled as "template root" by the engine, whatever that tag is.
func c16CompKind(f *c16File) string {
	if f.Form == "troot" {
		return "troot"
	}
	if len(f.Body) > 0 {
		switch f.Body[0].K {
		case "tfor", "inc":
			return "tfirst"
		}
	}
	return "bare"
}

// restore re-establishes the binding of a loop variable that an inner loop
// of the same source element (recursive include through slot content) shadowed.
func (w *c16Walker) restore(id int, old, had bool) {
	if had {
		w.env[id] = old
	} else {
		delete(w.env, id)
	}
}

func (w *c16Walker) walk(nodes []c16Node, slot *c16Slot) {
	saved := w.guard
	if w.underOnce == 0 {
		for i := range nodes {
			if nodes[i].K == "el" && len(nodes[i].Kids) == 0 {
				w.guard = nodes[i].M
				break
			}
		}
	}
	for i := range nodes {
		n := &nodes[i]
		w.x.visits++
		switch n.K {
		case "el":
			w.counts[n.M]++
			if w.underOnce > 0 {
				w.x.dep[n.M] = true
			}
			w.frames = append(w.frames, "el")
			w.walk(n.Kids, slot)
			w.frames = w.frames[:len(w.frames)-1]
		case "once":
			if w.x.class[n.M] == "" {
				w.x.class[n.M] = w.classNow(n)
			}
			if w.x.units[n.M] == nil {
				w.x.units[n.M] = map[string]bool{}
			}
			w.x.units[n.M][w.unit] = true
			if _, ok := w.x.guard[n.M]; !ok {
				w.x.guard[n.M] = w.guard
				if len(w.onceStack) > 0 {
					w.x.parent[n.M] = w.onceStack[len(w.onceStack)-1]
				}
			}
			if w.underTRoot() {
				w.x.troot[n.M] = true
			}
			if w.afterRoot > 0 {
				w.x.afterRoot[n.M] = true
			}
			iters := 1
			if n.Loop {
				iters = len(n.On)
				w.x.selfLoop[n.M] = iters
			}
			if n.Cond == "F" {
				w.x.reach[n.M] += iters
				continue
			}
			oldEnv, hadEnv := w.env[n.ID]
			for it := 0; it < iters; it++ {
				if n.Loop {
					w.env[n.ID] = n.On[it]
				}
				w.x.reach[n.M]++
				if w.seen[n.M] {
					continue
				}
				w.seen[n.M] = true
				w.counts[n.M]++
				w.underOnce++
				w.onceStack = append(w.onceStack, n.M)
				w.frames = append(w.frames, "once")
				w.walk(n.Kids, slot)
				w.frames = w.frames[:len(w.frames)-1]
				w.onceStack = w.onceStack[:len(w.onceStack)-1]
				w.underOnce--
			}
			if n.Loop {
				w.restore(n.ID, oldEnv, hadEnv)
			}
		case "for", "tfor":
			w.frames = append(w.frames, n.K)
			oldEnv, hadEnv := w.env[n.ID]
			for it := range n.On {
				w.env[n.ID] = n.On[it]
				w.walk(n.Kids, slot)
			}
			w.restore(n.ID, oldEnv, hadEnv)
			w.frames = w.frames[:len(w.frames)-1]
		case "if":
			ok := n.Cond == "T"
			if n.Cond == "x" {
				ok = w.env[n.Ref]
			}
			if ok {
				w.frames = append(w.frames, "if")
				w.walk(n.Kids, slot)
				w.frames = w.frames[:len(w.frames)-1]
			}
		case "inc":
			if n.Comp < 0 || n.Comp >= len(w.c.Comps) {
				continue
			}
			comp := &w.c.Comps[n.Comp]
			iters := 1
			if n.Loop {
				iters = len(n.On)
			}
			w.frames = append(w.frames, "inc:"+c16CompKind(comp))
			oldEnv, hadEnv := w.env[n.ID]
			for it := 0; it < iters; it++ {
				if n.Loop {
					w.env[n.ID] = n.On[it]
				}
				if c16CompKind(comp) == "tfirst" && len(comp.Body) > 1 {
					sl := &c16Slot{kids: n.Kids, parent: slot}
					w.walk(comp.Body[:1], sl)
					w.afterRoot++
					w.walk(comp.Body[1:], sl)
					w.afterRoot--
				} else {
					w.walk(comp.Body, &c16Slot{kids: n.Kids, parent: slot})
				}
			}
			if n.Loop {
				w.restore(n.ID, oldEnv, hadEnv)
			}
			w.frames = w.frames[:len(w.frames)-1]
		case "slot":
			if slot != nil && len(slot.kids) > 0 {
				w.frames = append(w.frames, "slot")
				w.walk(slot.kids, slot.parent)
				w.frames = w.frames[:len(w.frames)-1]
			}
		}
	}
	w.guard = saved
}

func c16CollectMarkers(c *c16Case) (once, plain []string) {
	var walk func(ns []c16Node)
	walk = func(ns []c16Node) {
		for i := range ns {
			switch ns[i].K {
			case "once":
				once = append(once, ns[i].M)
			case "el":
				plain = append(plain, ns[i].M)
			}
			walk(ns[i].Kids)
		}
	}
	each := func(f *c16File) { walk(f.Head); walk(f.Body) }
	each(&c.Page)
	if c.Alt != nil {
		each(c.Alt)
	}
	for i := range c.Comps {
		each(&c.Comps[i])
	}
	for i := range c.Layouts {
		each(&c.Layouts[i])
	}
	return
}

// c16Model computes the expected number of occurrences of every marker when
// page is rendered alone and when it is rendered with its layout chain.
func c16Model(c *c16Case, page *c16File) *c16Expect {
	x := &c16Expect{
		wantPage: map[string]int{}, wantFull: map[string]int{}, reach: map[string]int{},
		class: map[string]string{}, units: map[string]map[string]bool{}, guard: map[string]string{}, dep: map[string]bool{},
		parent: map[string]string{}, troot: map[string]bool{}, afterRoot: map[string]bool{}, selfLoop: map[string]int{}, staticGuard: map[string]string{},
	}
	x.onceMs, x.plainMs = c16CollectMarkers(c)
	// elements the walk never arrives at are vouched for by the witness that
	// stands next to them in the source
	var static func(ns []c16Node, g string)
	static = func(ns []c16Node, g string) {
		for i := range ns {
			if ns[i].K == "el" && len(ns[i].Kids) == 0 {
				g = ns[i].M
				break
			}
		}
		for i := range ns {
			if ns[i].K == "once" {
				x.staticGuard[ns[i].M] = g
			}
			static(ns[i].Kids, g)
		}
	}
	eachFile := func(f *c16File) { static(f.Head, ""); static(f.Body, "") }
	eachFile(&c.Page)
	if c.Alt != nil {
		eachFile(c.Alt)
	}
	for i := range c.Comps {
		eachFile(&c.Comps[i])
	}
	for i := range c.Layouts {
		eachFile(&c.Layouts[i])
	}
	unit := func(f *c16File, name string) map[string]int {
		w := &c16Walker{c: c, x: x, seen: map[string]bool{}, counts: map[string]int{}, env: map[int]bool{}, unit: name}
		w.walk(f.Head, nil)
		w.walk(f.Body, nil)
		return w.counts
	}
	for k, v := range unit(page, "page") {
		x.wantPage[k] = v
		x.wantFull[k] = v
	}
	// layout chain: explicit front-matter first, the default layout for a page without one
	byName := map[string]*c16File{}
	for i := range c.Layouts {
		byName[c.Layouts[i].Name] = &c.Layouts[i]
	}
	cur, first := page, true
	for depth := 0; depth < 10; depth++ {
		var next *c16File
		if cur.Layout != "" {
			next = byName["layouts/"+cur.Layout+".vuego"]
		} else if first {
			next = byName["layouts/base.vuego"]
		}
		first = false
		if next == nil {
			break
		}
		x.chainLen++
		for k, v := range unit(next, "layout") {
			x.wantFull[k] += v
		}
		cur = next
	}
	return x
}
