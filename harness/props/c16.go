package props

import (
	"bytes"
	"encoding/json"
	"fmt"
	"sort"
	"strings"

	vuego "github.com/titpetric/vuego"

	"verifharness/core"
	"verifharness/oracle"
)

// C16 — v-once emits each marked element exactly once per render, independently.
//
// A case is a small site (page, optional second page, components, layouts)
// described as an AST (c16_gen.go builds it). The real engine renders it through
// every entry point, repeatedly and interleaved on one engine; the number of
// occurrences of every data-m marker in the re-parsed output is compared with
// the reference model in c16_model.go, which walks the same AST with a
// "seen" set that lives for one render unit (the page, each layout).

type c16 struct{}

func init() {
	core.Register(&c16{}, core.Meta{
		Exhaustive: func(ctx core.Ctx) bool { return false },
		Assumptions: []string{
			"golang.org/x/net/html re-parse of the output is the trusted observer; a marked element is counted by its unique data-m attribute",
			"'the same element' = the same source element of the same file (however often its file is included, looped over or slotted); elements of different files or positions are distinct",
			"a marked element is 'reached' when evaluation arrives at it, i.e. all enclosing v-if are true, its loop has at least one item, its component is included",
			"in a component file whose first node is a <template> tag the engine takes that tag as the component's root and renders nothing that follows it in the file; marked elements written after it are not judged (counted under not-judged/after-the-root-template-of-a-component-file)",
			"an element carrying both v-once and v-for over n>=1 items must be emitted at least once; exactly one copy is the expected outcome (iterations are instantiations of that element), one copy per iteration is tolerated and counted under not-judged/ (the statement does not exclude reading every iteration as an element of its own); zero copies or more than n are violations",
			"v-once combined with a v-if on the same element is generated with render-constant conditions only (whether a false v-if consumes the 'first time' is not stated)",
			"a marked element is judged only when the unmarked witness element next to it appears as often as the reference model says (otherwise the deviation is in loops/includes/conditions, not in v-once; counted under not-judged/)",
			"string / byte / reader entry points get the page body without front-matter and never apply layouts; Vue.Render / RenderFragment never apply layouts",
			"renders are sequential (concurrency is C09's subject)",
		},
		MinNonTrivial: func(ctx core.Ctx) int { return 1000 },
	})
}

func (p *c16) ID() string { return "C16" }

func (p *c16) Rule() string {
	return "scen part: hand-built sites for marked elements that are v-else-if / v-else members of a chain (in a loop, after an empty loop, in a component included three times, two side by side, chain head in a loop) and for marked elements in the named-slot content a page hands to its layout (slot used once, slot used in a loop of the layout), each rendered twice on one engine through every entry point against stated marker counts; enumerated part: every combination of target file (page | explicit layout | default layouts/base.vuego as full document | page plus layout sharing the components | chain of two layouts) x outer wrapper x inner wrapper (none, v-for with 0..3 items, <template v-for>, v-if true/false, v-for + per-item v-if, component included 1..3 times in bare and <template>-wrapped form, include tag carrying v-for, slot content given to a component inside a loop, component rendering its slot twice) x payload (one script/style/div element, two and three sibling elements, nested marked elements, v-once together with v-for on one element for 0/1/3 items, v-once with constant v-if on one element) x a further marked sibling beside the inner wrapper (thorough: with and without; quick uses a subset of the wrapper parameters); random part: seeded random sites with 1..4 marked elements spread over page, second page, up to 3 components (nested includes, slots) and up to 2 layouts plus the default layout, nesting depth <= 3. Every case is rendered through Load().Render, RenderFile, RenderString, RenderByte, RenderReader, Vue.Render and Vue.RenderFragment, each on one engine in the order P, Q, P (thorough: P, Q, P, P; Q = second page sharing the components), then F, P: F is the page followed by an include of a missing file, so the render fails after it has passed every element; the P after it must emit what the first P emitted. Non-trivial = at least one marked element is reached in the reference model; distinct by the generated sources."
}

func (p *c16) nRand(ctx core.Ctx) int { return ctx.Pick(3000, 20000) }

func (p *c16) Plan(ctx core.Ctx) int { return c16NScen() + c16EnumCount(ctx.Thorough()) + p.nRand(ctx) }

func (p *c16) Gen(ctx core.Ctx, i int) any {
	if i >= 0 && i < c16NScen() {
		sc := c16Scens[i]
		return c16Case{Part: "scen", Label: sc.Label, Page: c16File{Name: "p.vuego"}, Scen: &sc}
	}
	i -= c16NScen()
	n := c16EnumCount(ctx.Thorough())
	if i < 0 || i >= n+p.nRand(ctx) {
		return c16Case{Part: "none", Page: c16File{Name: "p.vuego"}}
	}
	if i < n {
		return c16Enum(ctx.Thorough(), i)
	}
	return c16Rand(ctx.Seed, i-n)
}

func (p *c16) Decode(raw json.RawMessage) (any, error) { return core.JSONDecode[c16Case](raw) }

// ---- entry points

var c16Entries = []string{"load", "renderfile", "vue", "fragment", "string", "byte", "reader"}

func c16EntryGroup(e string) string {
	switch e {
	case "load", "renderfile":
		return "template-file"
	case "vue":
		return "vue-render"
	case "fragment":
		return "vue-fragment"
	}
	return "string"
}

// layouts are applied by the Template file entry points only
func c16EntryLayouts(e string) bool { return e == "load" || e == "renderfile" }

type c16Engine struct {
	entry string
	tpl   vuego.Template
	vue   *vuego.Vue
}

func c16NewEngine(entry string, files map[string]string) *c16Engine {
	e := &c16Engine{entry: entry}
	fsys := memFS(files)
	// files under components/ are registered as shorthand tags (components/WidgetScripts.vuego -> <widget-scripts>)
	var comps []string
	for _, f := range sortedKeys(files) {
		if strings.HasPrefix(f, "components/") {
			comps = append(comps, f)
		}
	}
	switch entry {
	case "vue", "fragment":
		e.vue = vuego.NewVue(fsys)
		for _, f := range comps {
			e.vue.RegisterComponent(c16Kebab(strings.TrimSuffix(strings.TrimPrefix(f, "components/"), ".vuego")), f)
		}
	default:
		if len(comps) > 0 {
			e.tpl = vuego.NewFS(fsys, vuego.WithComponents())
		} else {
			e.tpl = vuego.NewFS(fsys)
		}
	}
	return e
}

func c16Kebab(s string) string {
	var b strings.Builder
	for i, r := range s {
		if r >= 'A' && r <= 'Z' {
			if i > 0 {
				b.WriteByte('-')
			}
			r += 'a' - 'A'
		}
		b.WriteRune(r)
	}
	return b.String()
}

func (e *c16Engine) render(name, body string, data map[string]any) (string, error) {
	var b bytes.Buffer
	var err error
	switch e.entry {
	case "load":
		err = e.tpl.Load(name).Fill(data).Render(bg, &b)
	case "renderfile":
		err = e.tpl.Fill(data).RenderFile(bg, &b, name)
	case "string":
		err = e.tpl.Fill(data).RenderString(bg, &b, body)
	case "byte":
		err = e.tpl.Fill(data).RenderByte(bg, &b, []byte(body))
	case "reader":
		err = e.tpl.Fill(data).RenderReader(bg, &b, strings.NewReader(body))
	case "vue":
		err = e.vue.Render(&b, name, data)
	case "fragment":
		err = e.vue.RenderFragment(&b, name, data)
	}
	return b.String(), err
}

// ---- execution

type c16FailAgg struct {
	marker, class, defect string
	entries               map[string]bool
	detail                string
}

func (p *c16) Exec(ctx core.Ctx, cc any) core.Obs {
	c := cc.(c16Case)
	if c.Part == "scen" && c.Scen != nil {
		return p.execScen(ctx, c)
	}
	var o core.Obs
	files, bodies := c16Sources(&c)
	pages := []*c16File{&c.Page}
	if c.Alt != nil {
		pages = append(pages, c.Alt)
	}
	models := map[string]*c16Expect{}
	anyReached := false
	for _, pg := range pages {
		m := c16Model(&c, pg)
		models[pg.Name] = m
		for _, k := range m.onceMs {
			if m.reach[k] > 0 {
				anyReached = true
			}
		}
	}
	if anyReached {
		o.NT("c16", mustJSON(files))
	}
	o.Cell("part/" + c.Part)
	if c.Label != "" {
		for _, l := range strings.Split(c.Label, " ") {
			o.Cell(l)
		}
	}
	mainModel := models[c.Page.Name]
	o.Cell(fmt.Sprintf("unit/layout-chain-len:%d", mainModel.chainLen))
	for _, k := range mainModel.onceMs {
		r := "0"
		switch {
		case mainModel.reach[k] == 1:
			r = "1"
		case mainModel.reach[k] > 1:
			r = "n"
		}
		cl := mainModel.classOf(k)
		if cl == "unreached" {
			cl = "never-reached-from-this-page"
		}
		o.Cell("placement/" + cl + "/reached:" + r)
	}

	// schedule: P, Q, P, P (or P, P, P), then F (the page followed by a failing
	// include: the render must fail after it has passed every element of the
	// page) and P once more - a failed render must not change what the next one emits
	sched := []*c16File{&c.Page, &c.Page, &c.Page}
	if c.Alt != nil {
		sched = []*c16File{&c.Page, c.Alt, &c.Page}
		if ctx.Thorough() {
			sched = append(sched, &c.Page)
		}
		o.Cell("renders/interleaved-on-one-engine")
	}
	o.Cell("renders/repeated-on-one-engine")
	const failTail = `<template include="c16-no-such-file.vuego"></template>`
	failName := "zfail-" + c.Page.Name
	files[failName] = files[c.Page.Name] + failTail
	failAt := len(sched)
	sched = append(sched, &c.Page, &c.Page)

	templateRooted := false
	for i := range c.Comps {
		if c16CompKind(&c.Comps[i]) != "bare" {
			templateRooted = true
		}
	}
	fails := map[string]*c16FailAgg{}
	judged := map[string]map[string]bool{} // page/marker -> entries that judged it
	var order []string
	addFail := func(pg, marker, class, defect, entry string, detail func() string) {
		// entries that apply layouts form a view of their own (other expectation, other units)
		view := pg + "/" + marker + "/" + class
		key := view + "/" + defect
		f := fails[key]
		if f == nil {
			f = &c16FailAgg{marker: view, class: class, defect: defect, entries: map[string]bool{}, detail: detail()}
			fails[key] = f
			order = append(order, key)
		}
		f.entries[entry] = true
	}

	for _, entry := range c16Entries {
		eng := c16NewEngine(entry, files)
		first := map[string]map[string]int{} // page -> counts of its first render on this engine
		for step, pg := range sched {
			m := models[pg.Name]
			if step == failAt {
				_, ferr := eng.render(failName, bodies[pg.Name]+failTail, c16Data(&c))
				o.Evals++
				if ferr != nil {
					o.Cell("renders/failed-render-before-the-last")
				} else {
					o.Cell("anomaly/failing-render-did-not-fail")
				}
				continue
			}
			out, err := eng.render(pg.Name, bodies[pg.Name], c16Data(&c))
			o.Evals++
			o.Cell("entry/" + entry)
			withLayouts := c16EntryLayouts(entry)
			want := m.wantPage
			if withLayouts {
				want = m.wantFull
			}
			if err != nil {
				addFail(pg.Name, "*", "render", "error", entry, func() string {
					return fmt.Sprintf("entry %s, render #%d of %s failed: %v\n%s", entry, step+1, pg.Name, err, c16Describe(files))
				})
				continue
			}
			got := map[string]int{}
			for _, mk := range oracle.ParseAuto(out).AllMarkers("data-m") {
				got[mk]++
			}
			// unmarked witnesses
			for _, w := range m.plainMs {
				if got[w] != want[w] {
					switch {
					case m.dep[w]:
						o.Cell("not-judged/content-of-marked-element-differs")
					case !templateRooted:
						// no known cause: either the reference model or the engine is off outside v-once
						o.Cell("anomaly/witness-count-differs-without-template-rooted-component")
					default:
						o.Cell("not-judged/witness-count-differs")
					}
				}
			}
			prev, hasPrev := first[pg.Name]
			for _, k := range m.onceMs {
				class := m.classFor(k, withLayouts)
				if m.afterRoot[k] {
					// a component file whose first node is a <template> tag: that tag is the
					// component's root, what follows it in the file is not rendered at all
					// (marked or not) - not a v-once matter
					o.Cell("not-judged/after-the-root-template-of-a-component-file")
					continue
				}
				g, reached := m.guard[k]
				if !reached {
					g = m.staticGuard[k]
				}
				if g != "" && got[g] != want[g] {
					o.Cell("not-judged/witness-mismatch/" + class)
					continue
				}
				if par := m.parent[k]; par != "" && got[par] != want[par] {
					o.Cell("not-judged/inside-deviating-marked-element")
					continue
				}
				view := pg.Name + "/" + k + "/" + class
				if judged[view] == nil {
					judged[view] = map[string]bool{}
				}
				judged[view][entry] = true
				o.Count("marked_element_observations", 1)
				detail := func(what string) func() string {
					return func() string {
						return fmt.Sprintf("%s: marker %s (%s) entry %s render #%d of %s: expected %d occurrence(s), observed %d\nall expected: %s\nall observed: %s\n%sdata: %s\noutput:\n%s",
							what, k, class, entry, step+1, pg.Name, want[k], got[k], c16Counts(want), c16Counts(got), c16Describe(files), clip(mustJSON(c16Data(&c)), 600), clip(out, 1500))
					}
				}
				if hasPrev && prev[k] != got[k] {
					addFail(pg.Name, k, class, "later-render-differs", entry, detail(fmt.Sprintf("render #%d differs from the first render of the same page on this engine (first: %d)", step+1, prev[k])))
					continue
				}
				if hasPrev {
					continue // identical to the first render, already judged
				}
				switch {
				case got[k] == want[k]:
				case m.selfLoop[k] > 1 && got[k] > want[k] && got[k] <= want[k]*m.selfLoop[k]:
					// v-once and v-for on one element, one copy per iteration: the reading
					// "every iteration is an element of its own" is not excluded by the statement
					o.Cell("not-judged/v-for-on-same-element-emitted-per-iteration")
				case want[k] == 0:
					addFail(pg.Name, k, class, "emitted-though-never-reached", entry, detail("never reached but emitted"))
				case got[k] == 0:
					addFail(pg.Name, k, class, "missing", entry, detail("reached but never emitted"))
				case got[k] > want[k]:
					addFail(pg.Name, k, class, "duplicated", entry, detail("emitted more than once per render unit"))
				default:
					addFail(pg.Name, k, class, "fewer-than-one-per-unit", entry, detail("emitted in fewer render units than reached it"))
				}
			}
			if !hasPrev {
				first[pg.Name] = got
			}
		}
	}

	// one violation per (class, defect, entry scope)
	done := map[string]bool{}
	for _, key := range order {
		f := fails[key]
		scope := "all-entries"
		if f.defect == "error" {
			scope = c16Scope(f.entries, nil)
		} else {
			scope = c16Scope(f.entries, judged[f.marker])
		}
		sig := c16SigKind(f.class) + "/" + f.defect + "/" + scope
		if done[sig] {
			continue
		}
		done[sig] = true
		o.Fail(c, sig, "%s", f.detail)
	}
	if c.Part == "rand" && c.Alt != nil && len(c.Layouts) > 1 && len(c.Comps) > 1 {
		o.Sample = map[string]any{"files": files, "expected_file_entry": c16Counts(mainModel.wantFull), "expected_other_entries": c16Counts(mainModel.wantPage)}
	}
	return o
}

// c16SigKind reduces the placement class (kept in cells and in the detail
// text) to what distinguishes root causes: the three special constructs, or
// any ordinary placement.
func c16SigKind(class string) string {
	for _, k := range []string{"in-component-whose-first-node-is-template", "v-for-on-same-element", "v-if-on-same-element"} {
		if strings.HasSuffix(class, k) {
			return k
		}
	}
	if class == "render" {
		return "render"
	}
	return "marked-element"
}

// c16Scope names the entry points that failed: all of those that judged the
// marker, or the failing groups (file | fragment | string).
func c16Scope(failed, judged map[string]bool) string {
	if judged != nil {
		all := true
		for e := range judged {
			if !failed[e] {
				all = false
			}
		}
		if all {
			return "all-entries"
		}
	} else if len(failed) == len(c16Entries) {
		return "all-entries"
	}
	gs := map[string]bool{}
	for e := range failed {
		gs[c16EntryGroup(e)] = true
	}
	return "only:" + strings.Join(sortedKeys(gs), "+")
}

func c16Counts(m map[string]int) string {
	ks := make([]string, 0, len(m))
	for k, v := range m {
		if v != 0 {
			ks = append(ks, k)
		}
	}
	sort.Strings(ks)
	var b strings.Builder
	for _, k := range ks {
		fmt.Fprintf(&b, "%s=%d ", k, m[k])
	}
	return strings.TrimSpace(b.String())
}

func c16Describe(files map[string]string) string {
	var b strings.Builder
	for _, k := range sortedKeys(files) {
		fmt.Fprintf(&b, "file %s: %s\n", k, strings.ReplaceAll(files[k], "\n", "\\n"))
	}
	return b.String()
}
