package props

import (
	"encoding/json"
	"fmt"
	"strings"

	"verifharness/core"
)

// Case generators of C05.

// c05PathTag names component file number i (i >= 1) and gives the shorthand
// tag the documented mapping assigns to it (directories and PascalCase words
// joined by '-', lower case). The tag is written down here by construction,
// not computed with the engine's helper.
func c05PathTag(i int) (string, string) {
	switch i % 4 {
	case 0:
		return fmt.Sprintf("components/Cmp%dBox.vuego", i), fmt.Sprintf("cmp%d-box", i)
	case 1:
		return fmt.Sprintf("components/ui/Part%dView.vuego", i), fmt.Sprintf("ui-part%d-view", i)
	case 2:
		return fmt.Sprintf("components/forms/deep/FieldSet%dX.vuego", i), fmt.Sprintf("forms-deep-field-set%d-x", i)
	}
	return fmt.Sprintf("components/leaf%d.vuego", i), fmt.Sprintf("leaf%d", i)
}

func c05NewFile(i int) c05File {
	p, t := c05PathTag(i)
	return c05File{Path: p, Tag: t}
}

var c05ReqForms = []string{"csv", "spaces", "require", "split", "dup"}

// ---------------------------------------------------------------- grid

const c05NGrid = 40 * 40 * 3 * 4

// distinct values for the three layers, rotating through JSON-like kinds
func c05OuterVal(n string, rot int) TV {
	switch rot % 4 {
	case 0:
		return tvS("OUT" + n)
	case 1:
		return tvI(700 + int(n[1]))
	case 2:
		return tvMap(map[string]TV{"outer": tvS(n)})
	}
	return tvB(true)
}

func c05FMVal(n string, rot int) TV {
	switch rot % 7 {
	case 0:
		return tvS("FM" + n)
	case 1:
		return tvI(900 + int(n[1]))
	case 2:
		return tvB(false)
	case 3:
		return tvF(9.25)
	case 4:
		return tvList(tvS("fm"+n), tvI(1))
	case 5:
		return tvMap(map[string]TV{"fm": tvS(n)})
	}
	return tvI(0)
}

func c05GenGrid(i int) c05Case {
	syn := i % 4
	i /= 4
	pl := i % 3
	i /= 3
	st := []int{i / 40, i % 40}
	rot := st[0]*7 + st[1]*3 + pl + syn*11
	c := c05Case{Part: "grid", Entry: []string{"tpl", "vue"}[syn%2], Data: map[string]TV{}}
	short := syn >= 2
	page := c05File{Path: "page.vuego"}
	comp := c05NewFile(1 + rot%8)
	var attrs []c05Attr
	var outerAttrs []c05Attr
	for k, n := range []string{"pa", "pb"} {
		s := st[k]
		form, fm, outer, req := s%5, (s/5)%2 == 1, (s/10)%2 == 1, (s/20)%2 == 1
		r := rot + k*5
		switch form {
		case 1:
			lit := "ST" + n
			switch r % 6 {
			case 0:
				lit = ""
			case 1:
				lit = "5"
			case 2:
				lit = "false"
			}
			attrs = append(attrs, c05Attr{N: n, F: "static", S: lit})
		case 2:
			ref := c05ScalarRefs[r%len(c05ScalarRefs)]
			if pl == 2 {
				ref = "it"
			}
			a := c05Attr{N: n, F: "interp", R: ref}
			if r%3 != 0 {
				a.S, a.P = "i-", "-x"
			}
			attrs = append(attrs, a)
		case 3:
			ref := c05TruthyRefs[r%len(c05TruthyRefs)]
			if pl == 2 && r%2 == 0 {
				ref = "it"
			}
			attrs = append(attrs, c05Attr{N: n, F: []string{"bound", "bound", "vbind"}[r%3], R: ref})
		case 4:
			attrs = append(attrs, c05Attr{N: n, F: []string{"bound", "vbind"}[r%2], R: c05FalsyRefs[r%len(c05FalsyRefs)]})
		}
		if fm {
			comp.FM = append(comp.FM, c05KV{n, c05FMVal(n, r)})
		}
		if outer {
			if pl == 1 {
				outerAttrs = append(outerAttrs, c05Attr{N: n, F: "static", S: "OUT" + n})
			} else {
				c.Data[n] = c05OuterVal(n, r)
			}
		}
		if req {
			comp.Req = append(comp.Req, n)
		}
	}
	comp.Wrap = len(comp.Req) > 0 || rot%2 == 0
	comp.ReqForm = c05ReqForms[rot%len(c05ReqForms)]
	inc := c05Inc{Short: short, Loop: pl == 2, Attrs: attrs}
	switch pl {
	case 1:
		w := c05NewFile(9 + rot%4)
		w.Wrap = rot%3 == 0
		inc.File = 2
		w.Inc = []c05Inc{inc}
		page.Inc = []c05Inc{{File: 1, Short: short && rot%2 == 1, Attrs: outerAttrs}}
		c.Files = []c05File{page, w, comp}
	default:
		inc.File = 1
		page.Inc = []c05Inc{inc}
		c.Files = []c05File{page, comp}
	}
	return c
}

// ---------------------------------------------------------------- types

var c05TypeVals = []TV{
	// JSON-like
	tvS("str"), tvS("0"), tvS("true"),
	// strings that merely begin with a complete JSON value stay the strings they are
	tvS("[1] Introduction"), tvS("{} is the empty object"), tvS(`{"a":1} tail`), tvS("[2024] Report [draft]"), tvS(`"quoted" rest`), tvS("7 days"), tvS("true story"), tvS("null and void"),
	// strings from data that are complete JSON values are strings all the same
	tvS(`["a","b"]`), tvS(`{"a":"1","b":"2"}`), tvS("[]"), tvS("{}"), tvS("[1, 2]"),
	tvI(7), tvI(-1), tvF(1.5), tvF(3), tvB(true),
	tvList(), tvList(tvI(1), tvS("x"), tvNil()), tvMap(nil), tvMap(map[string]TV{"k": tvI(1), "l": tvList(tvI(2))}),
	tvList(tvMap(map[string]TV{"a": tvI(1)})),
	// every numeric width
	{K: "int8", I: 3}, {K: "int16", I: 7}, {K: "int32", I: -2}, {K: "int64", I: 1 << 40},
	{K: "uint", U: 1}, {K: "uint8", U: 255}, {K: "uint16", U: 9}, {K: "uint32", U: 1}, {K: "uint64", U: 1 << 50}, {K: "uintptr", U: 1},
	{K: "float32", F: 0.5},
	// typed containers, structs, pointers
	tvKind("[]string", tvS("a")), tvKind("[]string"), tvKind("[]int", tvI(1), tvI(2)), tvKind("[]float64", tvF(0.5)), tvKind("[]bool", tvB(false)),
	tvKind("[2]int", tvI(1), tvI(2)), tvKind("[3]string", tvS("a")),
	tvKind("[]map", tvMap(map[string]TV{"a": tvI(1)})),
	tvKind("[]Item", TV{M: map[string]TV{"title": tvS("t")}}), tvKind("[]*Item", TV{M: map[string]TV{"title": tvS("t")}}),
	tvKind("[][]int", tvKind("[]int", tvI(1))), tvKind("[][]any", tvList(tvS("x"))),
	{K: "nilslice"}, {K: "map[string]string", M: map[string]TV{"q": tvS("r")}}, {K: "map[string]int", M: map[string]TV{"q": tvI(1)}},
	tvKind("map[int]string", tvS("zero")), {K: "nilmap"},
	{K: "Item", M: map[string]TV{"title": tvS("T"), "count": tvI(2)}}, {K: "*Item", M: map[string]TV{"title": tvS("T")}}, {K: "nil*Item"},
	{K: "Emb", S: "ex", M: map[string]TV{"title": tvS("T")}}, {K: "time", I: 86400}, {K: "struct{}"},
	// every falsy zero
	{K: "bool"}, {K: "int"}, {K: "int8"}, {K: "int16"}, {K: "int32"}, {K: "int64"},
	{K: "uint"}, {K: "uint8"}, {K: "uint16"}, {K: "uint32"}, {K: "uint64"}, {K: "uintptr"},
	{K: "float32"}, {K: "float64"}, {K: "string"}, {K: "nil"}, tvS("false"),
}

func c05NTypes() int { return len(c05TypeVals) * 5 * 2 }

// c05WholeJSON: the string is a complete JSON object or array (props written as
// JSON in the template are decoded; whether such a string is one is not judged).
func c05WholeJSON(s string) bool {
	t := strings.TrimSpace(s)
	if !strings.HasPrefix(t, "{") && !strings.HasPrefix(t, "[") {
		return false
	}
	var out any
	return json.Unmarshal([]byte(t), &out) == nil
}

func c05GenTypes(i int) c05Case {
	outer := i%2 == 1
	i /= 2
	rf := i % 5
	v := c05TypeVals[i/5]
	if rf >= 3 && (v.K != "string" || c05WholeJSON(v.S) || strings.TrimSpace(v.S) != v.S || v.S == "") {
		rf -= 3 // the static and the interpolated form: strings only
	}
	c := c05Case{Part: "types", Entry: []string{"tpl", "vue"}[i%2], Data: map[string]TV{}}
	a := c05Attr{N: "pa", F: "bound", R: "v"}
	switch rf {
	case 0:
		c.Data["v"] = v
	case 1:
		c.Data["v"] = v
		a.F = "vbind"
	case 2:
		c.Data["o"] = tvMap(map[string]TV{"k": v})
		a.R = "o.k"
	case 3: // written in the template
		a = c05Attr{N: "pa", F: "static", S: v.S}
	case 4: // interpolated from data
		c.Data["v"] = v
		a = c05Attr{N: "pa", F: "interp", S: "", R: "v"}
	}
	if outer {
		c.Data["pa"] = tvS("OUTpa")
		c.Data["pb"] = tvS("OUTpb")
	}
	page := c05File{Path: "page.vuego", Inc: []c05Inc{{File: 1, Attrs: []c05Attr{a}}}}
	c1 := c05NewFile(1)
	c1.Wrap = i%2 == 0
	c1.Inc = []c05Inc{{File: 2, Short: i%4 == 1, Attrs: []c05Attr{{N: "pb", F: "bound", R: "pa"}}}}
	c2 := c05NewFile(2)
	c.Files = []c05File{page, c1, c2}
	return c
}

// ---------------------------------------------------------------- multi

const c05NMulti = (4 + 16 + 64) * 8

func c05GenMulti(i int) c05Case {
	flags := i % 8
	j := i / 8
	k := 1
	switch {
	case j < 4:
	case j < 20:
		k, j = 2, j-4
	default:
		k, j = 3, j-20
	}
	fm, outer, req := flags&1 != 0, flags&2 != 0, flags&4 != 0
	c := c05Case{Part: "multi", Entry: []string{"tpl", "vue"}[(i/8)%2], Data: map[string]TV{}}
	comp := c05NewFile(1 + i%8)
	comp.Wrap = req || i%3 == 0
	if req {
		comp.Req = []string{"pa"}
		comp.ReqForm = c05ReqForms[i%len(c05ReqForms)]
	}
	if fm {
		comp.FM = []c05KV{{"pa", c05FMVal("pa", i)}}
	}
	if outer {
		c.Data["pa"] = c05OuterVal("pa", i)
		c.Data["pb"] = tvS("OUTpb")
	}
	page := c05File{Path: "page.vuego"}
	for x := 0; x < k; x++ {
		form := j % 4
		j /= 4
		inc := c05Inc{File: 1, Short: (i+x)%3 == 0}
		switch form {
		case 1:
			inc.Attrs = append(inc.Attrs, c05Attr{N: "pa", F: "static", S: fmt.Sprintf("A%d", x)})
		case 2:
			inc.Attrs = append(inc.Attrs, c05Attr{N: "pa", F: "interp", S: fmt.Sprintf("A%d-", x), R: c05ScalarRefs[(i+x)%len(c05ScalarRefs)]})
		case 3:
			inc.Attrs = append(inc.Attrs, c05Attr{N: "pa", F: "bound", R: c05TruthyRefs[(i+x*3)%len(c05TruthyRefs)]})
		}
		// a second prop that differs per include; the last include omits it when there are several
		if x == 0 || x < k-1 {
			inc.Attrs = append(inc.Attrs, c05Attr{N: "pb", F: "static", S: fmt.Sprintf("B%d", x)})
		}
		page.Inc = append(page.Inc, inc)
	}
	c.Files = []c05File{page, comp}
	return c
}

// ---------------------------------------------------------------- names

// file path -> tag according to docs/components.md (PascalCase -> kebab-case,
// sub-directories of components/ joined with '-').
var c05NameTable = [][2]string{
	{"components/Card.vuego", "card"},
	{"components/MyCard.vuego", "my-card"},
	{"components/myBox.vuego", "my-box"},
	{"components/lower.vuego", "lower"},
	{"components/AlertBoxLarge.vuego", "alert-box-large"},
	{"components/ui/Tile.vuego", "ui-tile"},
	{"components/ui/IconButton.vuego", "ui-icon-button"},
	{"components/ui/Button2.vuego", "ui-button2"},
	{"components/forms/deep/FieldSet.vuego", "forms-deep-field-set"},
	{"components/a/b/c/Leaf.vuego", "a-b-c-leaf"},
	{"components/x1/Y2Zed.vuego", "x1-y2-zed"},
}

func c05NNames() int { return len(c05NameTable) * 2 }

func c05GenNames(i int) c05Case {
	e := c05NameTable[i/2]
	nested := i%2 == 1
	c := c05Case{Part: "names", Entry: "tpl", Data: map[string]TV{"pc": tvS("OUTpc")}}
	target := c05File{Path: e[0], Tag: e[1], Wrap: true, Req: []string{"pa"}}
	attrs := []c05Attr{{N: "pa", F: "static", S: "A"}, {N: "pb", F: "bound", R: "hm"}}
	page := c05File{Path: "page.vuego"}
	if nested {
		o := c05NameTable[(i/2+3)%len(c05NameTable)]
		w := c05File{Path: o[0], Tag: o[1], Inc: []c05Inc{{File: 2, Short: true, Attrs: attrs}}}
		page.Inc = []c05Inc{{File: 1, Short: true, Attrs: []c05Attr{{N: "pd", F: "static", S: "D"}}}}
		c.Files = []c05File{page, w, target}
	} else {
		page.Inc = []c05Inc{{File: 1, Short: true, Attrs: attrs}}
		c.Files = []c05File{page, target}
	}
	return c
}

// ---------------------------------------------------------------- random trees

func c05RandVal(r *core.RNG, tag string) TV {
	switch r.Intn(10) {
	case 0, 1, 2:
		return tvS(tag)
	case 3, 4:
		return tvI(100 + r.Intn(800))
	case 5:
		return tvB(r.Bool())
	case 6:
		return tvF(float64(r.Intn(40)) + 0.5)
	case 7:
		return tvList(tvS(tag), tvI(r.Intn(9)))
	case 8:
		return tvMap(map[string]TV{"k": tvS(tag)})
	}
	return tvI(0)
}

func c05GenTree(r *core.RNG) c05Case {
	c := c05Case{Part: "tree", Entry: []string{"tpl", "vue"}[r.Intn(2)], Data: map[string]TV{}}
	allowFalsy := r.Chance(1, 16)
	shortMode := r.Intn(3) // 0 none, 1 some, 2 all
	uniq := 0
	tok := func(p string) string { uniq++; return fmt.Sprintf("%s%d", p, uniq) }
	for _, n := range c05Names {
		if r.Bool() {
			c.Data[n] = c05RandVal(r, tok("D"))
			if r.Chance(1, 10) {
				c.Data[n] = c05Helpers()[strings.Split(core.Pick(r, c05TruthyRefs), ".")[0]]
			}
		}
	}
	c.Files = []c05File{{Path: "page.vuego"}}
	levels := []int{0}
	loops := 0
	var build func(fi int)
	build = func(fi int) {
		L := levels[fi]
		if L >= 3 {
			return
		}
		fan := 0
		switch L {
		case 0:
			fan = 1 + r.Intn(3)
		case 1:
			fan = r.Intn(4)
		default:
			fan = []int{0, 0, 1, 1, 2, 3}[r.Intn(6)]
		}
		for k := 0; k < fan; k++ {
			target := -1
			if r.Chance(1, 3) {
				var cands []int
				for j, lv := range levels {
					if lv == L+1 {
						cands = append(cands, j)
					}
				}
				if len(cands) > 0 {
					target = core.Pick(r, cands)
				}
			}
			if target < 0 && len(c.Files) < 28 {
				nf := c05NewFile(len(c.Files))
				nf.Wrap = r.Chance(3, 4)
				if nf.Wrap {
					for _, n := range c05Names {
						if r.Chance(1, 5) {
							nf.Req = append(nf.Req, n)
						}
					}
					nf.ReqForm = core.Pick(r, c05ReqForms)
				}
				for _, n := range c05Names {
					if r.Chance(1, 4) {
						v := c05RandVal(r, tok("F"))
						if r.Chance(1, 12) {
							v = tvNil()
						}
						nf.FM = append(nf.FM, c05KV{n, v})
					}
				}
				c.Files = append(c.Files, nf)
				levels = append(levels, L+1)
				target = len(c.Files) - 1
				build(target)
			}
			if target < 0 {
				continue
			}
			inc := c05Inc{File: target}
			switch shortMode {
			case 1:
				inc.Short = r.Chance(1, 3)
			case 2:
				inc.Short = true
			}
			if loops < 2 && r.Chance(1, 10) {
				inc.Loop = true
				loops++
			}
			for _, n := range c05Names {
				x := r.Intn(20)
				switch {
				case x < 8: // omitted
				case x < 12:
					lit := tok("S")
					switch r.Intn(12) {
					case 0:
						lit = ""
					case 1:
						lit = "5"
					case 2:
						lit = "false"
					}
					inc.Attrs = append(inc.Attrs, c05Attr{N: n, F: "static", S: lit})
				case x < 15:
					a := c05Attr{N: n, F: "interp"}
					switch r.Intn(4) {
					case 0:
						a.R = core.Pick(r, c05ScalarRefs)
					case 1:
						if inc.Loop {
							a.R = "it"
						} else {
							a.R = core.Pick(r, c05Names)
						}
					default:
						a.R = core.Pick(r, c05Names)
					}
					if r.Bool() {
						a.S, a.P = tok("i")+"-", "-"+tok("x")
					}
					inc.Attrs = append(inc.Attrs, a)
				default:
					a := c05Attr{N: n, F: "bound"}
					if r.Chance(1, 4) {
						a.F = "vbind"
					}
					switch r.Intn(6) {
					case 0, 1:
						a.R = core.Pick(r, c05Names)
					case 2:
						a.R = n // pass the same name through
					case 3:
						if inc.Loop {
							a.R = "it"
						} else {
							a.R = core.Pick(r, c05TruthyRefs)
						}
					default:
						a.R = core.Pick(r, c05TruthyRefs)
					}
					if allowFalsy && r.Chance(1, 4) {
						a.R = core.Pick(r, c05FalsyRefs)
					}
					inc.Attrs = append(inc.Attrs, a)
				}
			}
			f := c.Files[fi]
			f.Inc = append(f.Inc, inc)
			c.Files[fi] = f
		}
	}
	build(0)

	// make every reference meaningful: references to undefined names, composite
	// values inside {{ }} and (unless this tree is a falsy tree) falsy bound
	// values are redirected to a helper variable that is visible everywhere.
	for pass := 0; pass < 3; pass++ {
		m := &c05Model{c: &c}
		m.run()
		if len(m.problems) == 0 {
			break
		}
		changed := false
		for _, pr := range m.problems {
			a := &c.Files[pr.File].Inc[pr.Inc].Attrs[pr.Attr]
			switch pr.Kind {
			case "undef":
				if a.F == "interp" {
					a.R = core.Pick(r, c05ScalarRefs)
				} else {
					a.R = core.Pick(r, c05TruthyRefs)
				}
				changed = true
			case "nonscalar":
				a.R = core.Pick(r, c05ScalarRefs)
				changed = true
			case "falsy":
				if !allowFalsy {
					a.R = core.Pick(r, c05TruthyRefs)
					changed = true
				}
			}
		}
		if !changed {
			break
		}
	}
	// most trees satisfy their :required lists; a quarter keeps a missing name
	if !r.Chance(1, 4) {
		for pass := 0; pass < 6; pass++ {
			m := &c05Model{c: &c}
			m.run()
			if len(m.must) == 0 {
				break
			}
			for _, x := range m.must {
				f := c.Files[x.File]
				var keep []string
				for _, n := range f.Req {
					if n != x.Name {
						keep = append(keep, n)
					}
				}
				f.Req = keep
				c.Files[x.File] = f
			}
		}
	}
	return c
}
