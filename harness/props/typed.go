package props

import (
	"fmt"
	"io/fs"
	"time"
)

// Named types over the basic kinds: a type switch on int/string/bool does not
// match them, reflection sees their underlying kind.
type (
	NamedBool   bool
	NamedInt    int
	NamedInt8   int8
	NamedUint8  uint8
	NamedUint64 uint64
	NamedFloat  float64
	NamedString string
)

// TV is a JSON-serialisable description of a Go value of a precise type, so
// that "zero held in a uint16" survives being written to a replay file.
type TV struct {
	K string        `json:"k"`           // kind tag, see Go()
	B bool          `json:"b,omitempty"` // bool payload
	I int64         `json:"i,omitempty"` // signed payload
	U uint64        `json:"u,omitempty"` // unsigned payload
	F float64       `json:"f,omitempty"` // float payload
	S string        `json:"s,omitempty"` // string payload / struct field values
	L []TV          `json:"l,omitempty"` // elements
	M map[string]TV `json:"m,omitempty"` // map entries / struct fields
}

// TextStringer prints as S through fmt (String method); TextError through Error.
type TextStringer struct{ S string }

func (t TextStringer) String() string { return t.S }

type TextError struct{ S string }

func (t *TextError) Error() string { return t.S }

// Struct types known to the harness.
type Item struct {
	Title  string   `json:"title"`
	Count  int      `json:"count"`
	Tags   []string `json:"tags,omitempty"`
	Sub    *Item    `json:"sub,omitempty"`
	Plain  string   // no json tag
	On     bool     `json:"on"`
	hidden string
}

// CycPage / CycMeta: a pointer cycle that closes through a struct held by value.
type CycPage struct {
	Title string   `json:"title"`
	Meta  CycMeta  `json:"meta"`
	Sub   *CycPage `json:"sub"`
}

type CycMeta struct {
	Note  string   `json:"note"`
	Owner *CycPage `json:"owner"`
	Tags  []string `json:"tags"`
}

type Emb struct {
	Item
	Extra string `json:"extra"`
}

func (t TV) Go() any {
	switch t.K {
	case "nil", "missing":
		return nil
	case "bool":
		return t.B
	case "int":
		return int(t.I)
	case "int8":
		return int8(t.I)
	case "int16":
		return int16(t.I)
	case "int32":
		return int32(t.I)
	case "int64":
		return int64(t.I)
	case "uint":
		return uint(t.U)
	case "uint8":
		return uint8(t.U)
	case "uint16":
		return uint16(t.U)
	case "uint32":
		return uint32(t.U)
	case "uint64":
		return uint64(t.U)
	case "uintptr":
		return uintptr(t.U)
	case "float32":
		return float32(t.F)
	case "float64":
		return t.F
	case "string":
		return t.S
	case "slice": // []any
		out := make([]any, 0, len(t.L))
		for _, e := range t.L {
			out = append(out, e.Go())
		}
		return out
	case "[]string":
		out := make([]string, 0, len(t.L))
		for _, e := range t.L {
			out = append(out, e.S)
		}
		return out
	case "[]int":
		out := make([]int, 0, len(t.L))
		for _, e := range t.L {
			out = append(out, int(e.I))
		}
		return out
	case "[]float64":
		out := make([]float64, 0, len(t.L))
		for _, e := range t.L {
			out = append(out, e.F)
		}
		return out
	case "[]bool":
		out := make([]bool, 0, len(t.L))
		for _, e := range t.L {
			out = append(out, e.B)
		}
		return out
	case "[2]int":
		var out [2]int
		for i, e := range t.L {
			if i < 2 {
				out[i] = int(e.I)
			}
		}
		return out
	case "[3]string":
		var out [3]string
		for i, e := range t.L {
			if i < 3 {
				out[i] = e.S
			}
		}
		return out
	case "[]map":
		out := make([]map[string]any, 0, len(t.L))
		for _, e := range t.L {
			out = append(out, e.Go().(map[string]any))
		}
		return out
	case "[]Item":
		out := make([]Item, 0, len(t.L))
		for _, e := range t.L {
			out = append(out, e.item())
		}
		return out
	case "[]*Item":
		out := make([]*Item, 0, len(t.L))
		for _, e := range t.L {
			it := e.item()
			out = append(out, &it)
		}
		return out
	case "[][]int":
		out := make([][]int, 0, len(t.L))
		for _, e := range t.L {
			out = append(out, TV{K: "[]int", L: e.L}.Go().([]int))
		}
		return out
	case "[][]any":
		out := make([][]any, 0, len(t.L))
		for _, e := range t.L {
			out = append(out, TV{K: "slice", L: e.L}.Go().([]any))
		}
		return out
	case "nilslice":
		var out []any
		return out
	case "map": // map[string]any
		out := make(map[string]any, len(t.M))
		for k, e := range t.M {
			if e.K == "missing" {
				continue
			}
			out[k] = e.Go()
		}
		return out
	case "map[string]string":
		out := make(map[string]string, len(t.M))
		for k, e := range t.M {
			out[k] = e.S
		}
		return out
	case "map[string]int":
		out := make(map[string]int, len(t.M))
		for k, e := range t.M {
			out[k] = int(e.I)
		}
		return out
	case "map[int]string":
		out := make(map[int]string, len(t.L))
		for i, e := range t.L {
			out[i] = e.S
		}
		return out
	case "map[any]string/alike": // keys of different types that print alike: 1 and "1", true and "true" ...
		out := make(map[any]string, 2*len(t.L))
		for i, e := range t.L {
			out[i] = e.S + "-int"
			out[fmt.Sprint(i)] = e.S + "-str"
			out[int64(i)] = e.S + "-int64"
		}
		out[true], out["true"] = "bool", "str-true"
		return out
	case "nilmap":
		var out map[string]any
		return out
	case "Item":
		return t.item()
	case "*Item":
		it := t.item()
		return &it
	case "nil*Item":
		var p *Item
		return p
	case "Emb":
		return Emb{Item: t.item(), Extra: t.S}
	case "*bool":
		v := t.B
		return &v
	case "*int":
		v := int(t.I)
		return &v
	case "*string":
		v := t.S
		return &v
	case "**int":
		v := int(t.I)
		pv := &v
		return &pv
	case "NamedBool":
		return NamedBool(t.B)
	case "NamedInt":
		return NamedInt(t.I)
	case "NamedInt8":
		return NamedInt8(t.I)
	case "NamedUint8":
		return NamedUint8(t.U)
	case "NamedUint64":
		return NamedUint64(t.U)
	case "NamedFloat":
		return NamedFloat(t.F)
	case "NamedString":
		return NamedString(t.S)
	case "Stringer":
		return TextStringer{S: t.S}
	case "error":
		return &TextError{S: t.S}
	case "nil*[]any":
		return (*[]any)(nil)
	case "nil*[]Item":
		return (*[]Item)(nil)
	case "nil*map":
		return (*map[string]any)(nil)
	case "nil*[2]int":
		return (*[2]int)(nil)
	case "*[]any":
		l := []any{1, "a"}
		return &l
	case "*map":
		m := map[string]any{"a": 1}
		return &m
	case "nil*time": // typed nil pointers whose type has String()/Error(): fmt prints them as <nil>
		return (*time.Time)(nil)
	case "nil*Stringer":
		return (*TextStringer)(nil)
	case "nil*error":
		return (*TextError)(nil)
	case "*time":
		tm := time.Unix(t.I, 0).UTC()
		return &tm
	case "FileMode":
		return fs.FileMode(t.U)
	case "Duration":
		return time.Duration(t.I)
	case "Month":
		return time.Month(t.I)
	case "time":
		return time.Unix(t.I, 0).UTC()
	case "chan":
		return make(chan int)
	case "func":
		return func() {}
	case "struct{}":
		return struct{}{}
	case "anonRowsA": // two anonymous struct types with the same JSON tags on differently placed fields
		return []struct {
			Title string `json:"title"`
			ID    int    `json:"id"`
		}{{"Dr", 7}, {"Mx", 8}}
	case "anonRowsB":
		return []struct {
			ID    int    `json:"id"`
			Mail  string `json:"mail"`
			Title string `json:"title"`
		}{{9, "n@example.org", "nut"}}
	}
	panic("typed: unknown kind " + t.K)
}

func (t TV) item() Item {
	it := Item{}
	if v, ok := t.M["title"]; ok {
		it.Title = v.S
	}
	if v, ok := t.M["count"]; ok {
		it.Count = int(v.I)
	}
	if v, ok := t.M["plain"]; ok {
		it.Plain = v.S
	}
	if v, ok := t.M["on"]; ok {
		it.On = v.B
	}
	if v, ok := t.M["hidden"]; ok {
		it.hidden = v.S
	}
	if v, ok := t.M["tags"]; ok {
		for _, e := range v.L {
			it.Tags = append(it.Tags, e.S)
		}
	}
	if v, ok := t.M["sub"]; ok {
		s := v.item()
		it.Sub = &s
	}
	return it
}

// Truthy is the reference truthiness rule of the C03 statement: false, zero of
// any numeric type, the empty string, nil and undefined are falsy, everything
// else truthy. The third result is false when the documented rule does not
// decide the value (typed nil pointers).
func (t TV) Truthy() (truthy bool, decided bool) {
	switch t.K {
	case "nil", "missing":
		return false, true
	case "bool":
		return t.B, true
	case "int", "int8", "int16", "int32", "int64":
		return t.I != 0, true
	case "uint", "uint8", "uint16", "uint32", "uint64", "uintptr":
		return t.U != 0, true
	case "float32", "float64":
		return t.F != 0, true
	case "string":
		return t.S != "", true
	case "nil*Item", "nilslice", "nilmap", "nil*time", "nil*Stringer", "nil*error", "nil*[]any", "nil*[]Item", "nil*map", "nil*[2]int":
		return false, false
	// named types: a non-zero value is truthy under every reading; whether the
	// zero value counts as "zero of a numeric type" / "the empty string" the
	// documented table does not say
	case "NamedBool":
		return t.B, t.B
	case "NamedInt", "NamedInt8", "Duration", "Month":
		return t.I != 0, t.I != 0
	case "NamedUint8", "NamedUint64", "FileMode":
		return t.U != 0, t.U != 0
	case "NamedFloat":
		return t.F != 0, t.F != 0
	case "NamedString":
		return t.S != "", t.S != ""
	}
	return true, true
}

func (t TV) String() string {
	switch t.K {
	case "bool":
		return fmt.Sprintf("bool(%v)", t.B)
	case "int", "int8", "int16", "int32", "int64":
		return fmt.Sprintf("%s(%d)", t.K, t.I)
	case "uint", "uint8", "uint16", "uint32", "uint64", "uintptr":
		return fmt.Sprintf("%s(%d)", t.K, t.U)
	case "float32", "float64":
		return fmt.Sprintf("%s(%v)", t.K, t.F)
	case "string":
		return fmt.Sprintf("string(%q)", t.S)
	case "NamedBool":
		return fmt.Sprintf("NamedBool(%v)", t.B)
	case "NamedInt", "NamedInt8", "Duration", "Month":
		return fmt.Sprintf("%s(%d)", t.K, t.I)
	case "NamedUint8", "NamedUint64", "FileMode":
		return fmt.Sprintf("%s(%d)", t.K, t.U)
	case "NamedFloat":
		return fmt.Sprintf("NamedFloat(%v)", t.F)
	case "NamedString":
		return fmt.Sprintf("NamedString(%q)", t.S)
	}
	return t.K
}

// Constructors.
func tvS(s string) TV             { return TV{K: "string", S: s} }
func tvI(n int) TV                { return TV{K: "int", I: int64(n)} }
func tvB(b bool) TV               { return TV{K: "bool", B: b} }
func tvF(f float64) TV            { return TV{K: "float64", F: f} }
func tvNil() TV                   { return TV{K: "nil"} }
func tvMissing() TV               { return TV{K: "missing"} }
func tvMap(m map[string]TV) TV    { return TV{K: "map", M: m} }
func tvList(l ...TV) TV           { return TV{K: "slice", L: l} }
func tvKind(k string, l ...TV) TV { return TV{K: k, L: l} }
