package props

import (
	"fmt"
	"strings"
	"time"

	vuego "github.com/titpetric/vuego"

	"verifharness/core"
)

// C17 "embed" part: root data (and nested values) whose struct type embeds
// another struct - by value, by pointer, by a nil pointer - with and without
// clashes between an outer field and a promoted one. For every name the stack
// must find what Go's own field selection finds (the shallowest field wins, a
// field promoted through a nil pointer is absent), must not panic, and Lookup
// and the merged environment must agree.

type C17EmbInner struct {
	ID    int `json:"id"`
	Title string
	Only  string `json:"only"`
}

type C17EmbA struct { // outer ID before the embed, outer Title after it
	ID string `json:"doc_id"`
	C17EmbInner
	Title string
}

type C17EmbB struct { // embed first
	C17EmbInner
	ID string `json:"doc_id"`
}

type C17EmbP struct { // embedded pointer
	*C17EmbInner
	Name string `json:"name"`
}

type c17Embed struct {
	Root string `json:"root"` // A | *A | B | P | P-nil | *P-nil | nested
	Mode string `json:"mode"` // root (struct is the root data) | var (struct is a variable, reached by a path)
}

var c17EmbedRoots = []string{"A", "*A", "B", "P", "P-nil", "*P-nil", "dotkey", "typednil", "shared"}

func c17NEmbed() int { return len(c17EmbedRoots) * 2 }

func c17GenEmbed(i int) c17Case {
	return c17Case{Part: "embed", Embed: &c17Embed{Root: c17EmbedRoots[i%len(c17EmbedRoots)], Mode: []string{"root", "var"}[(i/len(c17EmbedRoots))%2]}}
}

// dotkey: map keys that contain a dot or a bracket can only be written in the
// quoted-bracket form; they are one step, as in Go's m["a.b"].
func c17ExecDotKey(c c17Case, o *core.Obs) {
	e := *c.Embed
	m := map[string]any{"a.b": 1, "a": map[string]any{"b": 2}, "only.dot": 4, "x]y": 3, "k": map[string]any{"p.q": []any{"zero", "one"}}}
	o.Evals++
	o.NT("embed", mustJSON(e))
	o.Cell("part/embed/dotkey/" + e.Mode)
	var s *vuego.Stack
	prefix := "M"
	if e.Mode == "root" {
		s = vuego.NewStackWithData(map[string]any{"M": m}, nil)
	} else {
		s = vuego.NewStack(map[string]any{"w": map[string]any{"M": m}})
		prefix = "w.M"
	}
	for _, t := range []struct {
		path string
		want any // nil: absent
		cls  string
	}{
		{`['a.b']`, 1, "dot-in-quoted-key"}, {`["a.b"]`, 1, "dot-in-quoted-key"}, {`[ 'a.b' ]`, 1, "dot-in-quoted-key"}, {`.a.b`, 2, "plain"}, {`['a']['b']`, 2, "plain"}, {`['a'].b`, 2, "plain"},
		{`['only.dot']`, 4, "dot-in-quoted-key"}, {`.only.dot`, nil, "plain"}, {`['x]y']`, 3, "bracket-in-quoted-key"},
		{`.k['p.q'][1]`, "one", "dot-in-quoted-key"}, {`['k']['p.q'].0`, "zero", "dot-in-quoted-key"}, {`['a.c']`, nil, "dot-in-quoted-key"},
	} {
		expr := prefix + t.path
		var got any
		var ok bool
		func() {
			defer func() {
				if r := recover(); r != nil {
					o.Fail(c, "embed/dotkey/panic/"+t.cls, "Resolve(%q) panicked: %v", expr, r)
				}
			}()
			got, ok = s.Resolve(expr)
		}()
		switch {
		case t.want == nil && ok:
			o.Fail(c, "embed/dotkey/present-but-absent-expected/"+t.cls, "Resolve(%q) = (%v, true); Go indexing reaches nothing there", expr, got)
		case t.want != nil && (!ok || fmt.Sprint(got) != fmt.Sprint(t.want)):
			o.Fail(c, "embed/dotkey/wrong-or-absent/"+t.cls, "Resolve(%q) = (%v, %v); Go indexing gives %v", expr, got, ok, t.want)
		}
	}
}

// typednil: typed nil pointers whose types have String / Error methods (with value
// and with pointer receivers) read through every Get* accessor: none may panic.
func c17ExecTypedNil(c c17Case, o *core.Obs) {
	e := *c.Embed
	vals := map[string]any{"ps": (*TextStringer)(nil), "pt": (*time.Time)(nil), "pe": (*TextError)(nil), "pi": (*Item)(nil), "ok": TextStringer{S: "s"}}
	o.Evals++
	o.NT("embed", mustJSON(e))
	o.Cell("part/embed/typednil/" + e.Mode)
	var s *vuego.Stack
	prefix := ""
	if e.Mode == "root" {
		s = vuego.NewStack(vals)
	} else {
		s = vuego.NewStack(map[string]any{"w": vals})
		prefix = "w."
	}
	for _, name := range sortedKeys(vals) {
		for _, acc := range []string{"GetString", "GetInt", "GetSlice", "GetMap", "Resolve", "ForEach"} {
			func() {
				defer func() {
					if r := recover(); r != nil {
						o.Fail(c, "embed/typednil/panic/"+acc, "%s(%q) on %T panicked: %v", acc, prefix+name, vals[name], r)
					}
				}()
				switch acc {
				case "GetString":
					got, ok := s.GetString(prefix + name)
					if name == "ok" && (!ok || got != "s") {
						o.Fail(c, "embed/typednil/stringer-value-wrong", "GetString(%q) = (%q, %v), want the String() result \"s\"", prefix+name, got, ok)
					}
				case "GetInt":
					s.GetInt(prefix + name)
				case "GetSlice":
					s.GetSlice(prefix + name)
				case "GetMap":
					s.GetMap(prefix + name)
				case "Resolve":
					s.Resolve(prefix + name + ".x")
				case "ForEach":
					_ = s.ForEach(prefix+name, func(int, any) error { return nil })
				}
			}()
		}
	}
}

func c17ExecEmbed(c c17Case, o *core.Obs) {
	if c.Embed.Root == "typednil" {
		c17ExecTypedNil(c, o)
		return
	}
	if c.Embed.Root == "dotkey" {
		c17ExecDotKey(c, o)
		return
	}
	if c.Embed.Root == "shared" {
		c17ExecShared(c, o)
		return
	}
	e := *c.Embed
	inner := C17EmbInner{ID: 7, Title: "inner-title", Only: "only-in"}
	var val any
	want := map[string]any{} // Go name -> value Go's selection gives; missing = absent
	switch e.Root {
	case "A", "*A":
		a := C17EmbA{ID: "docA", C17EmbInner: inner, Title: "outer-title"}
		want = map[string]any{"ID": "docA", "Title": "outer-title", "Only": "only-in", "doc_id": "docA"}
		val = a
		if e.Root == "*A" {
			val = &a
		}
	case "B":
		val = C17EmbB{C17EmbInner: inner, ID: "docB"}
		want = map[string]any{"ID": "docB", "Title": "inner-title", "Only": "only-in", "doc_id": "docB"}
	case "P":
		val = C17EmbP{C17EmbInner: &inner, Name: "pn"}
		want = map[string]any{"ID": 7, "Title": "inner-title", "Only": "only-in", "Name": "pn", "name": "pn"}
	default: // the embedded pointer is nil: promoted fields are absent, nothing panics
		p := C17EmbP{Name: "pn"}
		want = map[string]any{"Name": "pn", "name": "pn"}
		val = p
		if e.Root == "*P-nil" {
			val = &p
		}
	}
	names := []string{"ID", "Title", "Only", "Name", "doc_id", "name", "Nope"}
	o.Evals++
	o.NT("embed", mustJSON(e))
	o.Cell("part/embed/" + e.Root + "/" + e.Mode)
	var s *vuego.Stack
	prefix := ""
	if e.Mode == "root" {
		s = vuego.NewStackWithData(map[string]any{"other": 1}, val)
	} else {
		s = vuego.NewStack(map[string]any{"p": val})
		prefix = "p."
	}
	sig := func(what string) string { return fmt.Sprintf("embed/%s/%s/%s", what, e.Root, e.Mode) }
	call := func(what string, f func()) (panicked bool) {
		defer func() {
			if r := recover(); r != nil {
				panicked = true
				o.Fail(c, sig("panic"), "%s panicked: %v", what, r)
			}
		}()
		f()
		return false
	}
	var env map[string]any
	if e.Mode == "root" {
		if call("EnvMap()", func() { env = s.EnvMap() }) {
			return
		}
	}
	for _, n := range names {
		var got any
		var ok bool
		expr := prefix + n
		what := fmt.Sprintf("Resolve(%q)", expr)
		if e.Mode == "root" {
			what = fmt.Sprintf("Lookup(%q)", n)
		}
		if call(what, func() {
			if e.Mode == "root" {
				got, ok = s.Lookup(n)
			} else {
				got, ok = s.Resolve(expr)
			}
		}) {
			return
		}
		w, has := want[n]
		switch {
		case has && (!ok || fmt.Sprint(got) != fmt.Sprint(w)):
			o.Fail(c, sig("wrong-or-absent"), "%s = (%v, %v); Go's field selection on %T gives %v", what, got, ok, val, w)
		case !has && ok && n != "id" && n != "only":
			o.Fail(c, sig("present-but-absent-expected"), "%s = (%v, true); Go reaches no such field on %T", what, got, val)
		}
		if e.Mode == "root" && (n == "ID" || n == "Title" || n == "Only" || n == "Name" || n == "Nope") {
			// the merged environment agrees with Lookup
			ev, eok := env[n]
			if eok != ok || (ok && fmt.Sprint(ev) != fmt.Sprint(got)) {
				o.Fail(c, sig("envmap-disagrees-with-lookup"), "Lookup(%q) = (%v, %v) but EnvMap()[%q] = (%v, %v)", n, got, ok, n, ev, eok)
			}
		}
	}
}

// shared: the same non-nil pointer stored in two sibling fields (an acyclic
// value). Both fields lead to the same data through Resolve, through the
// merged environment and in a render.

type C17User struct {
	Name string `json:"name"`
}

type C17Post struct {
	Author *C17User `json:"author"`
	Editor *C17User `json:"editor"`
	Third  *C17User `json:"third"`
}

type C17Page struct {
	Post C17Post `json:"post"`
}

func c17ExecShared(c c17Case, o *core.Obs) {
	e := *c.Embed
	o.Evals++
	o.NT("embed", mustJSON(e))
	o.Cell("part/embed/shared/" + e.Mode)
	ann := &C17User{Name: "ann"}
	post := C17Post{Author: ann, Editor: ann, Third: &C17User{Name: "ann"}}
	defer func() {
		if r := recover(); r != nil {
			o.Fail(c, "embed/shared/panic/"+e.Mode, "panicked: %v", r)
		}
	}()
	if e.Mode == "var" {
		// the render flow: the struct is the data of a render
		out, err := renderStr(`<i>{{ author.name }}|{{ editor.name }}|{{ third.name }}</i><b v-if="editor.name == 'ann'">e</b><u v-if="author.name == 'ann'">a</u>`, post)
		if err != nil {
			o.Fail(c, "embed/shared/render-error", "render failed: %v", err)
			return
		}
		if want := `<i>ann|ann|ann</i><b>e</b><u>a</u>`; strings.Join(strings.Fields(out), "") != want {
			o.Fail(c, "embed/shared/render/second-use-of-a-pointer-is-empty", "data %T{Author: p, Editor: p, Third: q}: want %s, got %s", post, want, out)
		}
		return
	}
	s := vuego.NewStackWithData(map[string]any{"other": 1}, C17Page{Post: post})
	env := s.EnvMap()
	step := func(v any, names ...string) any {
		m, ok := v.(map[string]any)
		if !ok {
			return nil
		}
		for _, n := range names {
			if x, ok := m[n]; ok {
				return x
			}
		}
		return nil
	}
	for _, f := range [][2]string{{"Author", "author"}, {"Editor", "editor"}, {"Third", "third"}} {
		got, ok := s.Resolve("post." + f[1] + ".name")
		if !ok || fmt.Sprint(got) != "ann" {
			o.Fail(c, "embed/shared/resolve-wrong", "Resolve(%q) = (%v, %v), want ann", "post."+f[1]+".name", got, ok)
		}
		pm := step(env, "post", "Post")
		if _, isMap := pm.(map[string]any); !isMap {
			o.Cell("embed/shared/envmap-holds-the-struct-itself")
			continue
		}
		um := step(pm, f[1], f[0])
		if _, isMap := um.(map[string]any); !isMap {
			if um == nil {
				o.Fail(c, "embed/shared/envmap-disagrees-with-resolve", "Resolve(post.%s.name) = ann but EnvMap()[post] has no %s", f[1], f[1])
			}
			continue
		}
		if ev := step(um, "name", "Name"); fmt.Sprint(ev) != "ann" {
			o.Fail(c, "embed/shared/envmap-disagrees-with-resolve", "Resolve(post.%s.name) = ann but EnvMap()[post][%s] = %v (the same pointer is also held by a sibling field)", f[1], f[1], um)
		}
	}
}

// cachekey: path texts that differ only in something a cache key might normalise away (blanks inside a quoted key,
// letter case, the quoting style) address different elements. Each case is the first one its worker process runs, so
// the process-wide parsed-path cache is empty; the order of a pair alternates from case to case, because whichever
// text is parsed first owns a shared entry.
const c17NCacheKey = 16

func c17ExecCacheKey(c c17Case, o *core.Obs) {
	m := map[string]any{
		"first name": "FN-blank", "firstname": "FN", "a b": map[string]any{"c": "AB-blank"}, "ab": map[string]any{"c": "AB"},
		"x\ty": "XY-tab", "xy": "XY", "Key": "K-upper", "key": "k-lower", "a.b": "dotted", "a": map[string]any{"b": "nested"},
		"unit price": "UP-blank", "unitprice": "UP", " lead": "lead-blank", "lead": "lead", "q'r": "quote", "qr": "noquote",
	}
	pairs := [][2][2]string{
		{{`m['first name']`, "FN-blank"}, {`m['firstname']`, "FN"}},
		{{`m["a b"].c`, "AB-blank"}, {`m["ab"].c`, "AB"}},
		{{"m['x\ty']", "XY-tab"}, {`m['xy']`, "XY"}},
		{{`m['Key']`, "K-upper"}, {`m['key']`, "k-lower"}},
		{{`m['a.b']`, "dotted"}, {`m.a.b`, "nested"}},
		{{`m['unit price']`, "UP-blank"}, {`m["unitprice"]`, "UP"}},
		{{`m.Key`, "K-upper"}, {`m.key`, "k-lower"}},
		{{`m["q'r"]`, "quote"}, {`m["qr"]`, "noquote"}},
	}
	o.Evals++
	o.NT("cachekey", fmt.Sprint(c.Mode))
	o.Cell(fmt.Sprintf("part/cachekey/order-%d/first-pair-%d", c.Mode%2, (c.Mode/2)%len(pairs)))
	s := vuego.NewStack(map[string]any{"m": m})
	for k := range pairs {
		pr := pairs[(k+c.Mode/2)%len(pairs)]
		if c.Mode%2 == 1 {
			pr[0], pr[1] = pr[1], pr[0]
		}
		for _, t := range pr {
			var got any
			var ok bool
			func() {
				defer func() {
					if r := recover(); r != nil {
						o.Fail(c, "cachekey/panic", "Resolve(%q) panicked: %v", t[0], r)
					}
				}()
				got, ok = s.Resolve(t[0])
			}()
			if !ok || fmt.Sprint(got) != t[1] {
				o.Fail(c, "cachekey/path-answered-with-another-paths-element", "Resolve(%q) = (%v, %v), Go indexing gives %q (resolved after %q in a process whose path cache was empty)", t[0], got, ok, t[1], pr[0][0])
			}
		}
	}
}
