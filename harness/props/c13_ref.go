package props

import (
	"encoding/json"
	"errors"
	"fmt"
	"html"
	"strconv"
	"strings"
	"unicode"
	"unicode/utf8"

	vuego "github.com/titpetric/vuego"
)

// C13 reference model: typed values, the typed environment, an independent
// interpreter for the documented expression grammar and for pipes / calls over
// a table of functions (the vuego built-ins as documented plus harness functions).

// ---------------------------------------------------------------- values

// c13V is a reference value together with its dynamic Go type.
type c13V struct {
	T      string // nil | bool | int… | uint… | float32 | float64 | string | comp
	I      int64
	F      float64
	S      string
	B      bool
	TV     *TV  // the composite value (T == comp)
	NumLit bool // quoted literal whose content reads as a number / bool ("natural type" is ambiguous)
}

func c13VI(n int64) c13V   { return c13V{T: "int", I: n} }
func c13VF(f float64) c13V { return c13V{T: "float64", F: f} }
func c13VS(s string) c13V  { return c13V{T: "string", S: s} }
func c13VB(b bool) c13V    { return c13V{T: "bool", B: b} }
func c13VNil() c13V        { return c13V{T: "nil"} }

func c13IsInt(t string) bool   { return strings.HasPrefix(t, "int") || strings.HasPrefix(t, "uint") }
func c13IsFloat(t string) bool { return t == "float32" || t == "float64" }
func c13IsNum(t string) bool   { return c13IsInt(t) || c13IsFloat(t) }

func (v c13V) num() float64 {
	if c13IsInt(v.T) {
		return float64(v.I)
	}
	return v.F
}

func c13FromTV(t TV) c13V {
	switch t.K {
	case "nil", "missing":
		return c13VNil()
	case "bool":
		return c13VB(t.B)
	case "int", "int8", "int16", "int32", "int64":
		return c13V{T: t.K, I: t.I}
	case "uint", "uint8", "uint16", "uint32", "uint64":
		return c13V{T: t.K, I: int64(t.U)}
	case "float32", "float64":
		return c13V{T: t.K, F: t.F}
	case "string":
		return c13VS(t.S)
	}
	tt := t
	return c13V{T: "comp", TV: &tt}
}

// c13GoVal builds the Go value a reference value stands for.
func c13GoVal(v c13V) any {
	switch v.T {
	case "nil":
		return nil
	case "bool":
		return v.B
	case "string":
		return v.S
	case "float32":
		return float32(v.F)
	case "float64":
		return v.F
	case "comp":
		return v.TV.Go()
	case "int":
		return int(v.I)
	case "int8":
		return int8(v.I)
	case "int16":
		return int16(v.I)
	case "int32":
		return int32(v.I)
	case "int64":
		return v.I
	case "uint":
		return uint(v.I)
	case "uint8":
		return uint8(v.I)
	case "uint16":
		return uint16(v.I)
	case "uint32":
		return uint32(v.I)
	case "uint64":
		return uint64(v.I)
	}
	return nil
}

// c13Show is the printed form of a value ({{ }} and bound attributes print fmt.Sprint of the value; nil prints nothing).
func c13Show(v c13V) string {
	switch v.T {
	case "nil":
		return ""
	case "bool":
		return strconv.FormatBool(v.B)
	case "string":
		return v.S
	case "float32":
		return fmt.Sprint(float32(v.F))
	case "float64":
		return fmt.Sprint(v.F)
	case "comp":
		return fmt.Sprint(v.TV.Go())
	}
	return strconv.FormatInt(v.I, 10)
}

// c13Truthy: false, zero, "", nil are falsy, everything else truthy (C03 rule).
func c13Truthy(v c13V) bool {
	switch v.T {
	case "nil":
		return false
	case "bool":
		return v.B
	case "string":
		return v.S != ""
	case "float32", "float64":
		return v.F != 0
	case "comp":
		return true
	}
	return v.I != 0
}

// c13St is the outcome class of a reference evaluation.
type c13St struct {
	Und string // non-empty: the statement does not decide this case (reason)
	Err string // non-empty: the render must fail; class unknown-function | arity | conversion | function-error
	Fn  string // the function the error has to name
}

func (s c13St) ok() bool { return s.Und == "" && s.Err == "" }

func c13Und(why string) c13St { return c13St{Und: why} }

// ---------------------------------------------------------------- environment

const c13NEnv = 4

var c13Envs [c13NEnv]map[string]TV

func init() {
	for i := range c13Envs {
		c13Envs[i] = c13MkEnv(i)
	}
}

func c13MkEnv(v int) map[string]TV {
	i64 := func(n int64) TV { return TV{K: "int64", I: n} }
	item := map[string]TV{"title": tvS([]string{"T1", "T2", "T1", "Tx"}[v]), "count": tvI(4 + v), "plain": tvS("P1"), "on": tvB(v%2 == 0)}
	return map[string]TV{
		"n1": tvI([]int{7, 9, 4, 12}[v]), "n2": tvI([]int{3, 2, 4, 5}[v]), "n0": tvI(0), "ng": tvI([]int{-4, -1, -6, -2}[v]),
		"n65": tvI(65), "i64": i64(12), "i32": {K: "int32", I: 6}, "u8": {K: "uint8", U: 200},
		"f1": tvF([]float64{2.5, 1.5, 0.75, 4.5}[v]), "f2": tvF([]float64{0.5, 0.25, 0.5, 1.5}[v]), "f32": {K: "float32", F: 1.5}, "f32b": {K: "float32", F: 1.1}, "fi": tvF(4), "fbig": tvF(2500000), "fsmall": tvF(0.00001),
		"s1": tvS([]string{"hi", "yo", "abc", "Hi"}[v]), "s2": tvS("bob ray"), "se": tvS(""), "sp": tvS("  pad  "),
		"selfname": tvS("selfname"), "sn": tvS("42"), "sf": tvS("2.5"), "sb": tvS("true"), "sneg": tvS("-3"), "sbad": tvS("bad"), "sx": tvS("a<b&c"), "su": tvS("élan vital"),
		"bt": tvB(true), "bf": tvB(false), "b1": tvB(v&1 == 1), "b2": tvB(v&2 == 2),
		"nl": tvNil(), "t": tvS("tee"), "hNil": tvNil(), // hNil: a nil variable named like a registered function
		"m": tvMap(map[string]TV{"x": tvI(5 + v), "name": tvS("bob"), "ok": tvB(true), "off": tvB(false), "r": tvF(1.25), "404": tvI(44 + v),
			"in": tvMap(map[string]TV{"k": tvI(9 - v), "w": tvS("deep")})}),
		"l": tvList(tvI(10+v), tvI(20), tvI(30)), "ls": tvKind("[]string", tvS("p"), tvS("q")), "li": tvKind("[]int", tvI(4), tvI(5+v)), "li1": tvKind("[]int", tvI(9)),
		"mss": {K: "map[string]string", M: map[string]TV{"k": tvS("v"), "200": tvS("okay")}}, "msi": {K: "map[string]int", M: map[string]TV{"k": tvI(8), "7": tvI(70)}},
		"st": {K: "Item", M: item}, "ps": {K: "*Item", M: item},
		"ts": {K: "time", I: 1700000000},
	}
}

func c13Data(env map[string]TV) map[string]any {
	d := make(map[string]any, len(env))
	for k, v := range env {
		if v.K == "missing" {
			continue
		}
		d[k] = v.Go()
	}
	return d
}

// c13Lookup is the reference path walker over the typed environment:
// name, .field, [index], ['key'].
func c13Lookup(env map[string]TV, path string) (TV, bool) {
	i := 0
	for i < len(path) && path[i] != '.' && path[i] != '[' {
		i++
	}
	cur, ok := env[path[:i]]
	if !ok || cur.K == "missing" {
		return TV{}, false
	}
	for i < len(path) {
		var seg string
		if path[i] == '.' {
			j := i + 1
			for j < len(path) && path[j] != '.' && path[j] != '[' {
				j++
			}
			seg = path[i+1 : j]
			i = j
		} else {
			j := strings.IndexByte(path[i:], ']')
			if j < 0 {
				return TV{}, false
			}
			seg = strings.Trim(path[i+1:i+j], `'"`)
			i += j + 1
		}
		next, ok := c13Step(cur, seg)
		if !ok {
			return TV{}, false
		}
		cur = next
	}
	return cur, true
}

func c13Step(cur TV, seg string) (TV, bool) {
	switch cur.K {
	case "map":
		v, ok := cur.M[seg]
		return v, ok && v.K != "missing"
	case "map[string]string":
		v, ok := cur.M[seg]
		return tvS(v.S), ok
	case "map[string]int":
		v, ok := cur.M[seg]
		return tvI(int(v.I)), ok
	case "slice", "[]string", "[]int":
		n, err := strconv.Atoi(seg)
		if err != nil || n < 0 || n >= len(cur.L) {
			return TV{}, false
		}
		e := cur.L[n]
		switch cur.K {
		case "[]string":
			return tvS(e.S), true
		case "[]int":
			return tvI(int(e.I)), true
		}
		return e, true
	case "Item", "*Item":
		switch seg {
		case "title", "Title":
			return tvS(cur.M["title"].S), true
		case "count", "Count":
			return tvI(int(cur.M["count"].I)), true
		case "Plain":
			return tvS(cur.M["plain"].S), true
		case "on", "On":
			return tvB(cur.M["on"].B), true
		}
	}
	return TV{}, false
}

// ---------------------------------------------------------------- AST

// c13E is one node of an expression.
// K: i f s b (literals; S = source text / string content, Q = quote char), p (path S),
// u (unary Op), 2 (binary Op), ? (ternary), c (call Op(args)), | (pipe: A[0] start, A[1:] calls).
type c13E struct {
	K  string `json:"k"`
	Op string `json:"op,omitempty"`
	S  string `json:"s,omitempty"`
	P  bool   `json:"p,omitempty"` // redundant parentheses
	A  []c13E `json:"a,omitempty"`
}

func c13Lit(k, s string) c13E           { return c13E{K: k, S: s} }
func c13P(path string) c13E             { return c13E{K: "p", S: path} }
func c13Str(s string) c13E              { return c13E{K: "s", S: s} }
func c13Int(n int) c13E                 { return c13E{K: "i", S: strconv.Itoa(n)} }
func c13Bin(op string, a, b c13E) c13E  { return c13E{K: "2", Op: op, A: []c13E{a, b}} }
func c13Un(op string, a c13E) c13E      { return c13E{K: "u", Op: op, A: []c13E{a}} }
func c13Tern(c, a, b c13E) c13E         { return c13E{K: "?", A: []c13E{c, a, b}} }
func c13Call(fn string, a ...c13E) c13E { return c13E{K: "c", Op: fn, A: a} }
func c13Pipe(start c13E, calls ...c13E) c13E {
	return c13E{K: "|", A: append([]c13E{start}, calls...)}
}

func (e *c13E) walk(f func(*c13E)) {
	f(e)
	for i := range e.A {
		e.A[i].walk(f)
	}
}

func c13Prec(e *c13E) int {
	switch e.K {
	case "?":
		return 1
	case "u":
		return 7
	case "2":
		switch e.Op {
		case "||":
			return 2
		case "&&":
			return 3
		case "==", "!=", "<", ">", "<=", ">=":
			return 4
		case "+", "-":
			return 5
		}
		return 6
	}
	return 9
}

// c13Render prints the expression in the surface syntax of a style:
// spaced (documented: binary operators surrounded by single spaces, ' strings),
// dq (" strings), strict (=== / !==), unspaced (no blanks around operators).
func c13Render(e *c13E, style string) string {
	var b strings.Builder
	c13render(&b, e, style, 0, false)
	return b.String()
}

func c13render(b *strings.Builder, e *c13E, style string, parentPrec int, rightSide bool) {
	prec := c13Prec(e)
	paren := e.P && e.K != "|"
	switch {
	case e.K == "?" && parentPrec > 0:
		paren = true
	case e.K == "u" && parentPrec == 7:
		paren = true
	case e.K == "u" && e.Op == "-" && style == "unspaced" && parentPrec > 0:
		paren = true
	case prec < parentPrec:
		paren = true
	case prec == parentPrec && (rightSide || prec == 4):
		paren = true
	}
	if paren {
		b.WriteByte('(')
	}
	sp := " "
	if style == "unspaced" {
		sp = ""
	}
	switch e.K {
	case "i", "f", "b", "p":
		b.WriteString(e.S)
	case "s":
		q := "'"
		if (style == "dq" && !strings.Contains(e.S, `"`)) || strings.Contains(e.S, "'") {
			q = `"`
		}
		b.WriteString(q + e.S + q)
	case "u":
		b.WriteString(e.Op)
		c13render(b, &e.A[0], style, 7, false)
	case "2":
		op := e.Op
		if style == "strict" {
			switch op {
			case "==":
				op = "==="
			case "!=":
				op = "!=="
			}
		}
		c13render(b, &e.A[0], style, prec, false)
		b.WriteString(sp + op + sp)
		c13render(b, &e.A[1], style, prec, true)
	case "?":
		c13render(b, &e.A[0], style, 2, false)
		b.WriteString(sp + "?" + sp)
		c13render(b, &e.A[1], style, 2, false)
		b.WriteString(sp + ":" + sp)
		c13render(b, &e.A[2], style, 2, false)
	case "c":
		b.WriteString(e.Op + "(")
		for i := range e.A {
			if i > 0 {
				b.WriteString(", ")
			}
			c13render(b, &e.A[i], style, 0, false)
		}
		b.WriteString(")")
	case "|":
		c13render(b, &e.A[0], style, 0, false)
		for i := 1; i < len(e.A); i++ {
			b.WriteString(" | ")
			c := &e.A[i]
			b.WriteString(c.Op)
			if len(c.A) > 0 {
				b.WriteString("(")
				for j := range c.A {
					if j > 0 {
						b.WriteString(", ")
					}
					c13render(b, &c.A[j], style, 0, false)
				}
				b.WriteString(")")
			}
		}
	}
	if paren {
		b.WriteByte(')')
	}
}

// ---------------------------------------------------------------- interpreter

type c13Ev struct {
	env   map[string]TV
	convs []string // non-identity argument conversions met, "from->param"
}

func (ev *c13Ev) eval(e *c13E) (c13V, c13St) {
	switch e.K {
	case "i":
		n, err := strconv.ParseInt(e.S, 10, 64)
		if err != nil {
			return c13V{}, c13Und("bad-literal")
		}
		return c13VI(n), c13St{}
	case "f":
		f, err := strconv.ParseFloat(e.S, 64)
		if err != nil {
			return c13V{}, c13Und("bad-literal")
		}
		return c13VF(f), c13St{}
	case "b":
		return c13VB(e.S == "true"), c13St{}
	case "s":
		return c13VS(e.S), c13St{}
	case "p":
		tv, ok := c13Lookup(ev.env, e.S)
		if !ok {
			return c13VNil(), c13St{}
		}
		return c13FromTV(tv), c13St{}
	case "u":
		return ev.unary(e)
	case "2":
		return ev.binary(e)
	case "?":
		c, st := ev.eval(&e.A[0])
		if !st.ok() {
			return c, st
		}
		if c.T != "bool" {
			return c, c13Und("ternary-condition-not-bool")
		}
		x, sx := ev.eval(&e.A[1])
		y, sy := ev.eval(&e.A[2])
		if !c.B {
			x, sx, sy = y, sy, sx
		}
		if sx.ok() && !sy.ok() {
			return x, c13Und("unevaluated-branch-not-clean")
		}
		return x, sx
	case "c":
		args, st := ev.args(e.A)
		if !st.ok() {
			return c13V{}, st
		}
		return ev.call(e.Op, args)
	case "|":
		cur, st := ev.eval(&e.A[0])
		if !st.ok() {
			return cur, st
		}
		for i := 1; i < len(e.A); i++ {
			extra, st := ev.args(e.A[i].A)
			if !st.ok() {
				return c13V{}, st
			}
			cur, st = ev.call(e.A[i].Op, append([]c13V{cur}, extra...))
			if !st.ok() {
				return cur, st
			}
		}
		return cur, c13St{}
	}
	return c13V{}, c13Und("unknown-node")
}

// args evaluates call arguments: literals (quoted strings keep their content;
// a quoted string that reads as a number/bool is flagged), variables, expressions.
func (ev *c13Ev) args(as []c13E) ([]c13V, c13St) {
	out := make([]c13V, 0, len(as))
	for i := range as {
		a := &as[i]
		if a.K == "p" {
			if _, ok := c13Lookup(ev.env, a.S); !ok {
				return nil, c13Und("undefined-variable-as-argument")
			}
		}
		v, st := ev.eval(a)
		if !st.ok() {
			return nil, st
		}
		if a.K == "s" {
			if _, err := strconv.ParseFloat(a.S, 64); err == nil {
				v.NumLit = true
			} else if _, err := strconv.ParseBool(a.S); err == nil {
				v.NumLit = true
			}
		}
		out = append(out, v)
	}
	return out, c13St{}
}

func (ev *c13Ev) unary(e *c13E) (c13V, c13St) {
	a, st := ev.eval(&e.A[0])
	if !st.ok() {
		return a, st
	}
	switch e.Op {
	case "!":
		if a.T != "bool" {
			return a, c13Und("not-on-non-bool")
		}
		return c13VB(!a.B), c13St{}
	case "-":
		switch {
		case strings.HasPrefix(a.T, "uint"):
			return a, c13Und("negation-of-unsigned")
		case c13IsInt(a.T):
			return c13VI(-a.I), c13St{}
		case c13IsFloat(a.T):
			if a.F == 0 {
				return a, c13Und("negative-zero")
			}
			return c13VF(-a.F), c13St{}
		}
		return a, c13Und("minus-on-non-number")
	}
	return a, c13Und("unknown-unary")
}

func (ev *c13Ev) binary(e *c13E) (c13V, c13St) {
	a, st := ev.eval(&e.A[0])
	if !st.ok() {
		return a, st
	}
	if e.Op == "&&" || e.Op == "||" {
		if a.T != "bool" {
			return a, c13Und("logic-on-non-bool")
		}
		b, st := ev.eval(&e.A[1])
		if (e.Op == "&&" && !a.B) || (e.Op == "||" && a.B) {
			if !st.ok() {
				return a, c13Und("unevaluated-operand-not-clean")
			}
			return c13VB(a.B), c13St{}
		}
		if !st.ok() {
			return b, st
		}
		if b.T != "bool" {
			return b, c13Und("logic-on-non-bool")
		}
		return c13VB(b.B), c13St{}
	}
	b, st := ev.eval(&e.A[1])
	if !st.ok() {
		return b, st
	}
	bothNum := c13IsNum(a.T) && c13IsNum(b.T)
	bothInt := c13IsInt(a.T) && c13IsInt(b.T)
	bothStr := a.T == "string" && b.T == "string"
	switch e.Op {
	case "+", "-", "*":
		if bothStr && e.Op == "+" {
			return c13VS(a.S + b.S), c13St{}
		}
		if !bothNum {
			return a, c13Und("arithmetic-on-non-numbers")
		}
		if bothInt {
			switch e.Op {
			case "+":
				return c13VI(a.I + b.I), c13St{}
			case "-":
				return c13VI(a.I - b.I), c13St{}
			}
			return c13VI(a.I * b.I), c13St{}
		}
		x, y := a.num(), b.num()
		var r float64
		switch e.Op {
		case "+":
			r = x + y
		case "-":
			r = x - y
		default:
			r = x * y
		}
		if r == 0 && (x < 0 || y < 0) {
			return a, c13Und("negative-zero")
		}
		return c13VF(r), c13St{}
	case "/":
		if !bothNum {
			return a, c13Und("arithmetic-on-non-numbers")
		}
		if b.num() == 0 {
			return a, c13Und("division-by-zero")
		}
		if bothInt && a.I%b.I != 0 {
			return a, c13Und("integer-division-with-remainder")
		}
		r := a.num() / b.num()
		if r == 0 && (a.num() < 0 || b.num() < 0) {
			return a, c13Und("negative-zero")
		}
		return c13VF(r), c13St{}
	case "%":
		if !bothInt {
			return a, c13Und("modulo-on-non-integers")
		}
		if a.I < 0 || b.I <= 0 {
			return a, c13Und("modulo-with-negative-or-zero")
		}
		return c13VI(a.I % b.I), c13St{}
	case "<", ">", "<=", ">=":
		var c int
		switch {
		case bothNum:
			x, y := a.num(), b.num()
			if x < y {
				c = -1
			} else if x > y {
				c = 1
			}
		case bothStr:
			if !c13ASCII(a.S) || !c13ASCII(b.S) {
				return a, c13Und("non-ascii-string-ordering")
			}
			c = strings.Compare(a.S, b.S)
		default:
			return a, c13Und("ordering-of-mixed-types")
		}
		switch e.Op {
		case "<":
			return c13VB(c < 0), c13St{}
		case ">":
			return c13VB(c > 0), c13St{}
		case "<=":
			return c13VB(c <= 0), c13St{}
		}
		return c13VB(c >= 0), c13St{}
	case "==", "!=":
		var eq bool
		switch {
		case bothInt:
			eq = a.I == b.I
		case c13IsFloat(a.T) && c13IsFloat(b.T):
			eq = a.F == b.F
		case bothNum:
			return a, c13Und("mixed-int-float-equality")
		case bothStr:
			eq = a.S == b.S
		case a.T == "bool" && b.T == "bool":
			eq = a.B == b.B
		default:
			return a, c13Und("equality-of-mixed-types")
		}
		return c13VB(eq == (e.Op == "==")), c13St{}
	}
	return a, c13Und("unknown-operator")
}

func c13ASCII(s string) bool {
	for i := 0; i < len(s); i++ {
		if s[i] >= 0x80 {
			return false
		}
	}
	return true
}

// ---------------------------------------------------------------- functions

type c13Fn struct {
	Name     string
	Builtin  bool
	Ctx      bool     // takes *VueContext first (not counted as an argument)
	Params   []string // string | int | int64 | uint | float64 | bool | any
	Variadic string   // element kind of a trailing variadic parameter
	Go       any      // the function registered with the engine (nil: vuego built-in)
	Ref      func(a []c13V) (c13V, c13St)
}

var c13Funcs = map[string]*c13Fn{}

// c13FuncMap is registered with every engine instance.
var c13FuncMap = vuego.FuncMap{}

func c13Reg(f *c13Fn) {
	c13Funcs[f.Name] = f
	if f.Go != nil {
		c13FuncMap[f.Name] = f.Go
	}
}

func c13Echo(tag string, v any) string { return fmt.Sprintf("%s[%v]", tag, v) }

func c13Clamp(n int64) int {
	if n < 0 {
		return 0
	}
	if n > 3 {
		return 3
	}
	return int(n)
}

func c13JoinV(a []c13V, sep string) string {
	parts := make([]string, len(a))
	for i, x := range a {
		parts[i] = x.S
	}
	return strings.Join(parts, sep)
}

func c13TitleOK(s string) bool {
	if s == "" {
		return false
	}
	prevSpace := true
	for _, r := range s {
		switch {
		case unicode.IsLower(r) && unicode.IsLetter(r) && unicode.ToLower(unicode.ToUpper(r)) == r && unicode.ToUpper(r) != r:
			prevSpace = false // a lower-case letter with a single-rune upper-case form (a-z, é, ü, ж ...)
		case r == ' ' && !prevSpace:
			prevSpace = true
		default:
			return false
		}
	}
	return !prevSpace
}

func init() {
	ok := c13St{}
	strOnly := func(f func(string) string) func(a []c13V) (c13V, c13St) {
		return func(a []c13V) (c13V, c13St) {
			if a[0].T != "string" {
				return a[0], c13Und("string-builtin-on-non-string")
			}
			return c13VS(f(a[0].S)), ok
		}
	}
	// ---- vuego built-ins, as documented in docs/funcmap.md
	c13Reg(&c13Fn{Name: "upper", Builtin: true, Params: []string{"any"}, Ref: strOnly(strings.ToUpper)})
	c13Reg(&c13Fn{Name: "lower", Builtin: true, Params: []string{"any"}, Ref: strOnly(strings.ToLower)})
	c13Reg(&c13Fn{Name: "trim", Builtin: true, Params: []string{"any"}, Ref: strOnly(strings.TrimSpace)})
	c13Reg(&c13Fn{Name: "escape", Builtin: true, Params: []string{"any"}, Ref: strOnly(html.EscapeString)})
	c13Reg(&c13Fn{Name: "title", Builtin: true, Params: []string{"any"}, Ref: func(a []c13V) (c13V, c13St) {
		if a[0].T != "string" || !c13TitleOK(a[0].S) {
			return a[0], c13Und("title-outside-documented-inputs")
		}
		ws := strings.Split(a[0].S, " ")
		for i, w := range ws {
			first, size := utf8.DecodeRuneInString(w)
			ws[i] = string(unicode.ToUpper(first)) + w[size:]
		}
		return c13VS(strings.Join(ws, " ")), ok
	}})
	c13Reg(&c13Fn{Name: "default", Builtin: true, Params: []string{"any", "any"}, Ref: func(a []c13V) (c13V, c13St) {
		switch {
		case a[0].T == "nil", a[0].T == "string" && a[0].S == "":
			return a[1], ok
		case a[0].T == "string", a[0].T == "comp", c13IsNum(a[0].T) && a[0].num() != 0, a[0].T == "bool" && a[0].B:
			return a[0], ok
		}
		return a[0], c13Und("default-on-zero-or-false")
	}})
	c13Reg(&c13Fn{Name: "len", Builtin: true, Params: []string{"any"}, Ref: func(a []c13V) (c13V, c13St) {
		switch {
		case a[0].T == "string" && c13ASCII(a[0].S):
			return c13VI(int64(len(a[0].S))), ok
		case a[0].T == "comp":
			switch a[0].TV.K {
			case "slice", "[]string", "[]int":
				return c13VI(int64(len(a[0].TV.L))), ok
			case "map", "map[string]string", "map[string]int":
				return c13VI(int64(len(a[0].TV.M))), ok
			}
		}
		return a[0], c13Und("len-outside-documented-inputs")
	}})
	c13Reg(&c13Fn{Name: "int", Builtin: true, Params: []string{"any"}, Ref: func(a []c13V) (c13V, c13St) {
		switch {
		case a[0].T == "int" || a[0].T == "int64":
			return c13VI(a[0].I), ok
		case a[0].T == "string":
			if n, err := strconv.Atoi(a[0].S); err == nil {
				return c13VI(int64(n)), ok
			}
		case a[0].T == "float64" && a[0].F == float64(int64(a[0].F)):
			return c13VI(int64(a[0].F)), ok
		}
		return a[0], c13Und("int-outside-documented-inputs")
	}})
	c13Reg(&c13Fn{Name: "string", Builtin: true, Params: []string{"any"}, Ref: func(a []c13V) (c13V, c13St) {
		if a[0].T == "nil" || a[0].T == "comp" {
			return a[0], c13Und("string-of-nil-or-composite")
		}
		return c13VS(c13Show(a[0])), ok
	}})
	c13Reg(&c13Fn{Name: "json", Builtin: true, Params: []string{"any"}, Ref: func(a []c13V) (c13V, c13St) {
		if a[0].T == "comp" && (a[0].TV.K == "time" || a[0].TV.K == "*Item" || a[0].TV.K == "Item") {
			return a[0], c13Und("json-of-struct")
		}
		raw, err := json.Marshal(c13GoVal(a[0]))
		if err != nil {
			return a[0], c13Und("json-unmarshalable")
		}
		return c13VS(string(raw)), ok
	}})
	c13Reg(&c13Fn{Name: "formatTime", Builtin: true, Params: []string{"any", "any"}, Ref: func(a []c13V) (c13V, c13St) {
		if a[0].T != "comp" || a[0].TV.K != "time" || a[1].T != "string" {
			return a[0], c13Und("formatTime-outside-documented-inputs")
		}
		return c13VS(a[0].TV.Go().(interface{ Format(string) string }).Format(a[1].S)), ok
	}})

	// ---- harness functions: every parameter kind
	c13Reg(&c13Fn{Name: "hDbl", Params: []string{"int"}, Go: func(n int) int { return n * 2 },
		Ref: func(a []c13V) (c13V, c13St) { return c13VI(a[0].I * 2), ok }})
	c13Reg(&c13Fn{Name: "hSub", Params: []string{"int", "int"}, Go: func(a, b int) int { return a - b },
		Ref: func(a []c13V) (c13V, c13St) { return c13VI(a[0].I - a[1].I), ok }})
	c13Reg(&c13Fn{Name: "hSub64", Params: []string{"int64", "int64"}, Go: func(a, b int64) int64 { return a - b },
		Ref: func(a []c13V) (c13V, c13St) { return c13V{T: "int64", I: a[0].I - a[1].I}, ok }})
	c13Reg(&c13Fn{Name: "hUSum", Params: []string{"uint", "uint"}, Go: func(a, b uint) uint { return a*10 + b },
		Ref: func(a []c13V) (c13V, c13St) { return c13V{T: "uint", I: a[0].I*10 + a[1].I}, ok }})
	c13Reg(&c13Fn{Name: "hFSub", Params: []string{"float64", "float64"}, Go: func(a, b float64) float64 { return a - b },
		Ref: func(a []c13V) (c13V, c13St) { return c13VF(a[0].F - a[1].F), ok }})
	c13Reg(&c13Fn{Name: "hNot", Params: []string{"bool"}, Go: func(b bool) bool { return !b },
		Ref: func(a []c13V) (c13V, c13St) { return c13VB(!a[0].B), ok }})
	c13Reg(&c13Fn{Name: "hImp", Params: []string{"bool", "bool"}, Go: func(a, b bool) bool { return !a || b },
		Ref: func(a []c13V) (c13V, c13St) { return c13VB(!a[0].B || a[1].B), ok }})
	c13Reg(&c13Fn{Name: "hPos", Params: []string{"int"}, Go: func(n int) bool { return n > 0 },
		Ref: func(a []c13V) (c13V, c13St) { return c13VB(a[0].I > 0), ok }})
	c13Reg(&c13Fn{Name: "hCat", Params: []string{"string", "string"}, Go: func(a, b string) string { return a + "+" + b },
		Ref: func(a []c13V) (c13V, c13St) { return c13VS(a[0].S + "+" + a[1].S), ok }})
	c13Reg(&c13Fn{Name: "hBr", Params: []string{"string"}, Go: func(s string) string { return "<" + s + ">" },
		Ref: func(a []c13V) (c13V, c13St) { return c13VS("<" + a[0].S + ">"), ok }})
	c13Reg(&c13Fn{Name: "hRep", Params: []string{"string", "int"}, Go: func(s string, n int) string { return strings.Repeat(s, c13Clamp(int64(n))) },
		Ref: func(a []c13V) (c13V, c13St) { return c13VS(strings.Repeat(a[0].S, c13Clamp(a[1].I))), ok }})
	c13Reg(&c13Fn{Name: "hKind", Params: []string{"any"}, Go: func(v any) string { return fmt.Sprintf("%T", v) },
		Ref: func(a []c13V) (c13V, c13St) { return c13VS(fmt.Sprintf("%T", c13GoVal(a[0]))), ok }})
	c13Reg(&c13Fn{Name: "hId", Params: []string{"any"}, Go: func(v any) any { return v },
		Ref: func(a []c13V) (c13V, c13St) { return a[0], ok }})
	c13Reg(&c13Fn{Name: "hNil", Params: []string{"any"}, Go: func(v any) any { return v },
		Ref: func(a []c13V) (c13V, c13St) { return a[0], ok }})
	c13Reg(&c13Fn{Name: "hJoin", Variadic: "string", Go: func(p ...string) string { return strings.Join(p, "-") },
		Ref: func(a []c13V) (c13V, c13St) { return c13VS(c13JoinV(a, "-")), ok }})
	c13Reg(&c13Fn{Name: "hSum", Params: []string{"int"}, Variadic: "int", Go: func(first int, rest ...int) int {
		s := first * 100
		for _, r := range rest {
			s += r
		}
		return s
	}, Ref: func(a []c13V) (c13V, c13St) {
		s := a[0].I * 100
		for _, r := range a[1:] {
			s += r.I
		}
		return c13VI(s), ok
	}})
	c13Reg(&c13Fn{Name: "hCtx", Ctx: true, Params: []string{"string"}, Go: func(c *vuego.VueContext, s string) string {
		if c == nil {
			return "nilctx:" + s
		}
		return "c:" + s
	}, Ref: func(a []c13V) (c13V, c13St) { return c13VS("c:" + a[0].S), ok }})
	c13Reg(&c13Fn{Name: "hCtxSub", Ctx: true, Params: []string{"int", "int"}, Go: func(c *vuego.VueContext, a, b int) int { return a - b },
		Ref: func(a []c13V) (c13V, c13St) { return c13VI(a[0].I - a[1].I), ok }})
	// functions whose parameter is a struct / a pointer to a struct: the value must arrive as it is, in every position
	c13Reg(&c13Fn{Name: "hItemTitle", Params: []string{"any"}, Go: func(it Item) string { return "<" + it.Title + ">" },
		Ref: func(a []c13V) (c13V, c13St) {
			if a[0].T != "comp" || a[0].TV.K != "Item" {
				return a[0], c13Und("struct-parameter-with-other-argument")
			}
			return c13VS("<" + a[0].TV.M["title"].S + ">"), ok
		}})
	c13Reg(&c13Fn{Name: "hPItemCount", Params: []string{"any"}, Go: func(it *Item) int { return it.Count * 10 },
		Ref: func(a []c13V) (c13V, c13St) {
			if a[0].T != "comp" || a[0].TV.K != "*Item" {
				return a[0], c13Und("struct-parameter-with-other-argument")
			}
			return c13VI(a[0].TV.M["count"].I * 10), ok
		}})
	// a parameter of a named string type: arguments are converted as for string
	c13Reg(&c13Fn{Name: "hSlug", Params: []string{"string"}, Go: func(s NamedString) string { return "/" + string(s) },
		Ref: func(a []c13V) (c13V, c13St) { return c13VS("/" + a[0].S), ok }})
	// an array parameter: Go converts a slice that is long enough, a shorter one is an impossible conversion
	c13Reg(&c13Fn{Name: "hArr2", Params: []string{"any"}, Go: func(a [2]int) int { return a[0]*10 + a[1] },
		Ref: func(a []c13V) (c13V, c13St) {
			if a[0].T != "comp" || a[0].TV.K != "[]int" {
				return a[0], c13Und("array-parameter-with-other-argument")
			}
			if len(a[0].TV.L) < 2 {
				return a[0], c13St{Err: "conversion", Fn: "hArr2"}
			}
			return c13VI(a[0].TV.L[0].I*10 + a[0].TV.L[1].I), ok
		}})
	c13Reg(&c13Fn{Name: "hCtxJoin", Ctx: true, Variadic: "string", Go: func(c *vuego.VueContext, p ...string) string { return "c:" + strings.Join(p, "~") },
		Ref: func(a []c13V) (c13V, c13St) { return c13VS("c:" + c13JoinV(a, "~")), ok }})
	c13Reg(&c13Fn{Name: "hCtxSum", Ctx: true, Params: []string{"int"}, Variadic: "int", Go: func(c *vuego.VueContext, first int, rest ...int) int {
		s := first * 1000
		for _, r := range rest {
			s += r
		}
		return s
	}, Ref: func(a []c13V) (c13V, c13St) {
		s := a[0].I * 1000
		for _, r := range a[1:] {
			s += r.I
		}
		return c13VI(s), ok
	}})
	c13Reg(&c13Fn{Name: "hErrS", Params: []string{"string"}, Go: func(s string) (string, error) {
		if s == "bad" {
			return "", errors.New("boom-bad")
		}
		return s + "!", nil
	}, Ref: func(a []c13V) (c13V, c13St) {
		if a[0].S == "bad" {
			return a[0], c13St{Err: "function-error", Fn: "hErrS"}
		}
		return c13VS(a[0].S + "!"), ok
	}})
	c13Reg(&c13Fn{Name: "hErrI", Params: []string{"int"}, Go: func(n int) (int, error) {
		if n < 0 {
			return 0, errors.New("boom-negative")
		}
		return n + 1, nil
	}, Ref: func(a []c13V) (c13V, c13St) {
		if a[0].I < 0 {
			return a[0], c13St{Err: "function-error", Fn: "hErrI"}
		}
		return c13VI(a[0].I + 1), ok
	}})

	// ---- probes for the parameter/argument pairing matrix: echo kind and value
	echoRef := func(tag string) func(a []c13V) (c13V, c13St) {
		return func(a []c13V) (c13V, c13St) { return c13VS(c13Echo(tag, c13GoVal(a[0]))), ok }
	}
	c13Reg(&c13Fn{Name: "pStr", Params: []string{"string"}, Go: func(s string) string { return c13Echo("S", s) }, Ref: echoRef("S")})
	c13Reg(&c13Fn{Name: "pInt", Params: []string{"int"}, Go: func(n int) string { return c13Echo("I", n) }, Ref: echoRef("I")})
	c13Reg(&c13Fn{Name: "pI64", Params: []string{"int64"}, Go: func(n int64) string { return c13Echo("L", n) }, Ref: echoRef("L")})
	c13Reg(&c13Fn{Name: "pUint", Params: []string{"uint"}, Go: func(n uint) string { return c13Echo("U", n) }, Ref: echoRef("U")})
	c13Reg(&c13Fn{Name: "pF64", Params: []string{"float64"}, Go: func(f float64) string { return c13Echo("F", f) }, Ref: echoRef("F")})
	c13Reg(&c13Fn{Name: "pBool", Params: []string{"bool"}, Go: func(b bool) string { return c13Echo("B", b) }, Ref: echoRef("B")})
	c13Reg(&c13Fn{Name: "pAny", Params: []string{"any"}, Go: func(v any) string { return fmt.Sprintf("A[%T:%v]", v, v) },
		Ref: func(a []c13V) (c13V, c13St) {
			g := c13GoVal(a[0])
			return c13VS(fmt.Sprintf("A[%T:%v]", g, g)), ok
		}})
	c13Reg(&c13Fn{Name: "pVarS", Variadic: "string", Go: func(p ...string) string { return c13Echo("VS", strings.Join(p, ",")) },
		Ref: func(a []c13V) (c13V, c13St) { return c13VS(c13Echo("VS", c13JoinV(a, ","))), ok }})
	c13Reg(&c13Fn{Name: "pVarI", Variadic: "int", Go: func(p ...int) string { return c13Echo("VI", p) },
		Ref: func(a []c13V) (c13V, c13St) {
			p := make([]int, len(a))
			for i, x := range a {
				p[i] = int(x.I)
			}
			return c13VS(c13Echo("VI", p)), ok
		}})
	c13Reg(&c13Fn{Name: "pCtxS", Ctx: true, Params: []string{"string"}, Go: func(c *vuego.VueContext, s string) string { return c13Echo("CS", s) }, Ref: echoRef("CS")})
	c13Reg(&c13Fn{Name: "pCtxI", Ctx: true, Params: []string{"int"}, Go: func(c *vuego.VueContext, n int) string { return c13Echo("CI", n) }, Ref: echoRef("CI")})
	c13Reg(&c13Fn{Name: "pErrS", Params: []string{"string"}, Go: func(s string) (string, error) { return c13Echo("ES", s), nil }, Ref: echoRef("ES")})
	c13Reg(&c13Fn{Name: "pErrI", Params: []string{"int"}, Go: func(n int) (string, error) { return c13Echo("EI", n), nil }, Ref: echoRef("EI")})
	// second-argument probes: q<Kind>(string, X)
	q := func(name, kind, tag string, g any) {
		c13Reg(&c13Fn{Name: name, Params: []string{"string", kind}, Go: g, Ref: func(a []c13V) (c13V, c13St) {
			return c13VS("Q[" + a[0].S + "|" + c13Echo(tag, c13GoVal(a[1])) + "]"), ok
		}})
	}
	q("qStr", "string", "S", func(p string, s string) string { return "Q[" + p + "|" + c13Echo("S", s) + "]" })
	q("qInt", "int", "I", func(p string, n int) string { return "Q[" + p + "|" + c13Echo("I", n) + "]" })
	q("qI64", "int64", "L", func(p string, n int64) string { return "Q[" + p + "|" + c13Echo("L", n) + "]" })
	q("qUint", "uint", "U", func(p string, n uint) string { return "Q[" + p + "|" + c13Echo("U", n) + "]" })
	q("qF64", "float64", "F", func(p string, f float64) string { return "Q[" + p + "|" + c13Echo("F", f) + "]" })
	q("qBool", "bool", "B", func(p string, b bool) string { return "Q[" + p + "|" + c13Echo("B", b) + "]" })
	c13Reg(&c13Fn{Name: "qAny", Params: []string{"string", "any"}, Go: func(p string, v any) string { return fmt.Sprintf("Q[%s|A[%T:%v]]", p, v, v) },
		Ref: func(a []c13V) (c13V, c13St) {
			g := c13GoVal(a[1])
			return c13VS(fmt.Sprintf("Q[%s|A[%T:%v]]", a[0].S, g, g)), ok
		}})
	// the functions of the documentation's own examples
	c13Reg(&c13Fn{Name: "slugify", Params: []string{"string"}, Go: func(v string) string { return strings.ReplaceAll(strings.ToLower(v), " ", "-") },
		Ref: func(a []c13V) (c13V, c13St) { return c13VS(strings.ReplaceAll(strings.ToLower(a[0].S), " ", "-")), ok }})
	c13Reg(&c13Fn{Name: "prefix", Params: []string{"string", "string"}, Go: func(v, pre string) string { return pre + v },
		Ref: func(a []c13V) (c13V, c13St) { return c13VS(a[1].S + a[0].S), ok }})
	c13Reg(&c13Fn{Name: "truncate", Params: []string{"string", "int"}, Go: func(s string, max int) string {
		if len(s) > max {
			return s[:max] + "..."
		}
		return s
	}, Ref: func(a []c13V) (c13V, c13St) {
		if a[1].I < 0 {
			return a[0], c13Und("truncate-negative")
		}
		if int64(len(a[0].S)) > a[1].I {
			return c13VS(a[0].S[:a[1].I] + "..."), ok
		}
		return a[0], ok
	}})
	c13Reg(&c13Fn{Name: "currency", Params: []string{"float64"}, Go: func(f float64) string { return fmt.Sprintf("$%.2f", f) },
		Ref: func(a []c13V) (c13V, c13St) { return c13VS(fmt.Sprintf("$%.2f", a[0].F)), ok }})
}

// c13Conv converts an argument to a parameter kind by the documented rules
// ("converted when possible, e.g. string "42" to int 42"; data values keep their
// types). Pairings the documentation does not settle are undecided.
func (ev *c13Ev) conv(fn string, v c13V, param string) (c13V, c13St) {
	if v.NumLit && param != "any" {
		// "string literals are parsed as their natural type": the literal may arrive
		// as a string or as the number / bool it reads as; decided when both agree
		asStr := v
		asStr.NumLit = false
		nat := c13VNil()
		if n, err := strconv.ParseInt(v.S, 10, 64); err == nil {
			nat = c13VI(n)
		} else if f, err := strconv.ParseFloat(v.S, 64); err == nil {
			nat = c13VF(f)
		} else if b, err := strconv.ParseBool(v.S); err == nil {
			nat = c13VB(b)
		}
		sub := &c13Ev{env: ev.env}
		r1, s1 := sub.conv(fn, asStr, param)
		r2, s2 := sub.conv(fn, nat, param)
		ev.convs = append(ev.convs, "numlit->"+param)
		switch {
		case s1.Err != "" && s2.Err != "":
			return r1, s1
		case s1.ok() && s2.ok() && c13Show(r1) == c13Show(r2) && r1.T == r2.T:
			return r1, s1
		}
		return v, c13Und("quoted-number-literal-natural-type")
	}
	if param == "any" {
		if v.NumLit {
			return v, c13Und("quoted-number-literal-natural-type")
		}
		return v, c13St{}
	}
	from := v.T
	switch {
	case v.NumLit:
		from = "numlit"
	case c13IsInt(v.T):
		from = "int"
	case c13IsFloat(v.T):
		from = "float"
	}
	if v.T == param && !v.NumLit {
		return v, c13St{}
	}
	ev.convs = append(ev.convs, from+"->"+param)
	bad := c13St{Err: "conversion", Fn: fn}
	switch v.T {
	case "nil":
		return v, c13Und("nil-for-typed-parameter")
	case "comp":
		return v, bad
	case "string":
		s := v.S
		switch param {
		case "string":
			return c13VS(s), c13St{}
		case "int", "int64":
			n, err := strconv.ParseInt(s, 10, 64)
			if err != nil {
				return v, bad
			}
			return c13V{T: param, I: n}, c13St{}
		case "uint":
			n, err := strconv.ParseUint(s, 10, 64)
			if err != nil {
				return v, bad
			}
			return c13V{T: param, I: int64(n)}, c13St{}
		case "float64":
			f, err := strconv.ParseFloat(s, 64)
			if err != nil {
				return v, bad
			}
			return c13VF(f), c13St{}
		case "bool":
			switch s {
			case "true":
				return c13VB(true), c13St{}
			case "false":
				return c13VB(false), c13St{}
			}
			if _, err := strconv.ParseBool(s); err == nil {
				return v, c13Und("abbreviated-bool-string")
			}
			return v, bad
		}
	case "bool":
		if param == "string" {
			return c13VS(strconv.FormatBool(v.B)), c13St{}
		}
		return v, c13Und("bool-to-number")
	case "float32", "float64":
		switch param {
		case "string":
			return c13VS(c13Show(v)), c13St{}
		case "float64":
			return c13VF(v.F), c13St{}
		case "bool":
			return v, c13Und("number-to-bool")
		}
		return v, c13Und("float-to-integer")
	default: // integer kinds
		switch param {
		case "string":
			return c13VS(strconv.FormatInt(v.I, 10)), c13St{}
		case "float64":
			return c13VF(float64(v.I)), c13St{}
		case "bool":
			return v, c13Und("number-to-bool")
		case "uint":
			if v.I < 0 {
				return v, c13Und("negative-to-unsigned")
			}
		}
		return c13V{T: param, I: v.I}, c13St{}
	}
	return v, c13Und("unknown-pairing")
}

func (ev *c13Ev) call(name string, args []c13V) (c13V, c13St) {
	f, ok := c13Funcs[name]
	if !ok {
		return c13V{}, c13St{Err: "unknown-function", Fn: name}
	}
	n := len(f.Params)
	if (f.Variadic == "" && len(args) != n) || len(args) < n {
		return c13V{}, c13St{Err: "arity", Fn: name}
	}
	conv := make([]c13V, len(args))
	var und c13St
	for i, a := range args {
		kind := f.Variadic
		if i < n {
			kind = f.Params[i]
		}
		c, st := ev.conv(name, a, kind)
		if st.Err != "" {
			return c, st
		}
		if st.Und != "" && und.Und == "" {
			und = st
		}
		conv[i] = c
	}
	if und.Und != "" {
		return c13V{}, und
	}
	return f.Ref(conv)
}
