package props

import (
	"bytes"
	"encoding/json"
	"fmt"
	"io/fs"
	"path"
	"strconv"
	"strings"
	"sync"

	vuego "github.com/titpetric/vuego"

	"verifharness/core"
	"verifharness/oracle"
)

// C07 — layout chains nest innermost-first, apply the default only when due, and end.
//
// Every case is a small in-memory file tree plus a page and Fill data. The real
// engine renders the page through two entry points; an independent reference
// resolver (c07Reference) predicts the chain of files or the error class, and
// the re-parsed output must be exactly one nest of per-file markers
// F:<file>(S:<file>(F:<previous>...)) with the page innermost. Every layer
// prints every key of a small universe so that the visibility of page data in
// the layouts is observed as well.

// documented maximum of the chain (template_layout.go: maxDepth)
const c07Limit = 100

// logical step bound: a run may report at most limit+2 layoutIter events
const c07StepBound = c07Limit + 2
const c07DoubleStop = 16

var c07Keys = []string{"ka", "kb", "title", "Plain", "count"}

type c07File struct {
	Path   string            `json:"path"`
	Layout string            `json:"layout,omitempty"` // "" = the front-matter has no layout key
	FM     map[string]string `json:"fm,omitempty"`     // further front-matter keys (count is written as a YAML int)
	Style  string            `json:"style,omitempty"`  // "" | doc (full HTML document) | bare (unquoted layout value) | emptyfm (empty --- block)
}

type c07Case struct {
	Part     string            `json:"part"` // graph | chain | cycle | keys | rand ; "" = skipped duplicate
	Shape    string            `json:"shape,omitempty"`
	Files    []c07File         `json:"files,omitempty"`
	Page     string            `json:"page,omitempty"`
	FillKind string            `json:"fill_kind,omitempty"` // none | map | struct | ptr
	Fill     map[string]string `json:"fill,omitempty"`
}

type c07 struct{}

func init() {
	core.Register(&c07{}, core.Meta{
		Exhaustive: func(ctx core.Ctx) bool { return true },
		Assumptions: []string{
			"golang.org/x/net/html re-parse of the output is the trusted observer; testing/fstest.MapFS is a correct fs.FS",
			"a chain of exactly 100 layouts (101 templates, 100 links) is the ambiguous boundary of 'more links than the documented maximum': an error or the complete correct nest are both accepted; <=99 layouts must render, >=101 must fail",
			"a layout name ending in .vuego that does not exist relative to the current file although layouts/<name> exists is not judged (docs: explicit paths are used as-is; statement: relative before layouts/); likewise a layouts/ fallback that only exists after path cleaning (../x)",
			"inside a layout, a key defined by that layout's own front-matter is not judged (precedence of sources is C08); a key defined only by an earlier layout's front-matter is not judged (the statement does not say whether layout front-matter accumulates)",
			"a named layout whose file does not exist must make the render fail with nothing written (the chain cannot be rendered, and only an outermost result may be written)",
			"layout values that are not plain non-empty strings and layout front-matter defining `content` are outside the statement and not generated; a layout key supplied through Fill data is generated only in the datalayout part, where the page alone and the chain named by the key are both accepted and only an error or another nest is a violation",
		},
	})
}

func (p *c07) ID() string { return "C07" }
func (p *c07) Rule() string {
	return "graph part (exhaustive, each graph twice: map Fill / struct Fill with a document-style base): page in {p.vuego, sub/p.vuego} x layout of the page in {absent,a,b,base,itself,a.vuego,missing} x layout of layouts/a, layouts/b in {absent,a,b,base,a.vuego,missing} x layouts/base.vuego {absent, present with each option} x sub/a.vuego {absent, present with each option}, pruned to graphs whose unreachable files carry no option (others are skipped duplicates); " +
		"chain part: straight chains of n layouts, every n in 1..102 plus 150 (thorough: plus 200) for layouts/ placement and a subset (thorough: all) for relative placement with decoys in layouts/, default-base start, explicit .vuego names, and names with a dot in them (l1.v3 - with decoy files under the names cut at the dot); " +
		"cycle part: cycles of length 1-4 entered after 0-3 links x {layouts/, relative, started by the default base, closing through the page, explicit .vuego names, layouts that show `content` twice (the render is stopped and reported when the layout loop passes 16 rounds: left to the depth limit such a cycle would produce 2^100 copies, i.e. not end)}; " +
		"keys part: for keys ka and title every subset of defining sources {Fill, page front-matter, first layout, second layout} (16x16) x Fill kind {none,map,struct,*struct} x {named chain p->a->b, default chain p->base->a}, other keys and `content` random; " +
		"appear part: one engine kept over a filesystem in which layouts/base.vuego, a layout next to the page and the second link of a chain appear and disappear between renders (5 histories x Load.Render / RenderFile), compared with a fresh engine on the same files after every change; " +
		"samename part: 4 hand-built chains in which one bare layout name resolves to different files from different directories within a single chain (layouts/ fallback first and a file next to the naming layout later, the reverse, and two names crossed); " +
		"datalayout part: page without a front-matter layout, no layouts/base.vuego, Fill data carrying layout in {a (chain a->b), b, a.vuego} x page in {p, sub/p} x page front-matter {keys, empty block}: no error, and the nest is the page alone or the chain the key names; " +
		"rand part: seeded random file trees over {.,sub,layouts} x {a,b,c,base,p,q} with plain, ./, ../, dir/ and .vuego layout names, random front-matter keys, document-style bodies and Fill kinds. " +
		"Every case is rendered through Load(page).Fill(data).Render and Fill(data).RenderFile(page). non-trivial = the reference predicts at least one layout link or an error; distinct by the whole case"
}

// ---------- case generation ----------

var c07GraphOpts = []string{"", "a", "b", "base", "a.vuego", "zz"}

const c07NGraphRaw = 2 * 2 * 7 * 6 * 6 * 7 * 7

var c07GraphOnce sync.Once
var c07GraphIdx []int

// c07GraphList enumerates the raw graph space once and keeps the canonical
// members (unreachable files carry no option), so that skipped duplicates do not count as cases.
func c07GraphList() []int {
	c07GraphOnce.Do(func() {
		for i := 0; i < c07NGraphRaw; i++ {
			if c07GraphCase(i).Part != "" {
				c07GraphIdx = append(c07GraphIdx, i)
			}
		}
	})
	return c07GraphIdx
}

func c07GraphCase(i int) c07Case {
	variant := i % 2
	i /= 2
	pageSel := i % 2
	i /= 2
	po := i % 7
	i /= 7
	ao := i % 6
	i /= 6
	bo := i % 6
	i /= 6
	baseo := i % 7
	i /= 7
	subao := i % 7
	page := []string{"p.vuego", "sub/p.vuego"}[pageSel]
	pl := "p"
	if po < 6 {
		pl = c07GraphOpts[po]
	}
	c := c07Case{Part: "graph", Page: page, FillKind: "map", Fill: map[string]string{"ka": "fill:ka", "title": "fill:title", "count": "11"}}
	c.Files = []c07File{
		{Path: page, Layout: pl, FM: map[string]string{"title": "pfm:title", "kb": "pfm:kb"}},
		{Path: "layouts/a.vuego", Layout: c07GraphOpts[ao], FM: map[string]string{"kb": "fm1:kb"}},
		{Path: "layouts/b.vuego", Layout: c07GraphOpts[bo], FM: map[string]string{"ka": "fm2:ka"}},
	}
	if baseo > 0 {
		c.Files = append(c.Files, c07File{Path: "layouts/base.vuego", Layout: c07GraphOpts[baseo-1], FM: map[string]string{"title": "fm3:title"}})
	}
	if subao > 0 {
		c.Files = append(c.Files, c07File{Path: "sub/a.vuego", Layout: c07GraphOpts[subao-1]})
	}
	// canonical form: files the reference walk never reaches carry no option
	ref := c07Reference(c)
	reached := map[int]bool{}
	for _, f := range ref.Chain {
		reached[f] = true
	}
	for k, f := range c.Files {
		if !reached[k] && f.Layout != "" {
			return c07Case{}
		}
	}
	c.Shape = fmt.Sprintf("page=%s", page)
	if variant == 1 {
		// second pass over the same graphs: struct Fill data, the base layout is a full HTML document
		c.Shape += "/struct+doc"
		c.FillKind = "struct"
		c.Fill = map[string]string{"title": "fill:title", "Plain": "fill:Plain", "count": "11"}
		for k := range c.Files {
			if c.Files[k].Path == "layouts/base.vuego" {
				c.Files[k].Style = "doc"
			}
		}
	}
	return c
}

type c07ChainSpec struct {
	placement string
	n         int
}

func c07ChainSpecs(ctx core.Ctx) []c07ChainSpec {
	var out []c07ChainSpec
	var all []int
	for n := 1; n <= 102; n++ {
		all = append(all, n)
	}
	all = append(all, 150)
	if ctx.Thorough() {
		all = append(all, 200)
	}
	some := []int{1, 2, 3, 5, 10, 40, 98, 99, 100, 101, 102, 150}
	for _, pl := range []string{"layouts", "relative", "default", "ext", "dotted"} {
		ns := some
		if pl == "layouts" || ctx.Thorough() {
			ns = all
		}
		for _, n := range ns {
			out = append(out, c07ChainSpec{pl, n})
		}
	}
	return out
}

// c07ChainCase builds a straight chain with n layouts.
func c07ChainCase(s c07ChainSpec, r *core.RNG) c07Case {
	c := c07Case{Part: "chain", Shape: s.placement, FillKind: "map", Fill: map[string]string{"ka": "fill:ka", "count": "11"}}
	name := func(k int) string { return fmt.Sprintf("l%d", k) }
	if s.placement == "dotted" {
		// layout names with a dot in them (post.v2): the part after the dot is not an extension
		name = func(k int) string { return fmt.Sprintf("l%d.v%d", k, 2+k%3) }
	}
	dir, pageDir, suffix := "layouts/", "", ""
	n := s.n
	switch s.placement {
	case "relative":
		dir, pageDir = "sub/", "sub/"
	case "ext":
		dir, suffix = "", ".vuego"
	}
	c.Page = pageDir + "p.vuego"
	page := c07File{Path: c.Page, FM: map[string]string{"title": "pfm:title"}}
	first := 1
	if s.placement == "default" {
		// the default base is the first layout of the chain
		base := c07File{Path: "layouts/base.vuego"}
		if n > 1 {
			base.Layout = name(2)
		}
		c.Files = append(c.Files, page, base)
		first = 2
	} else {
		page.Layout = name(1) + suffix
		c.Files = append(c.Files, page)
	}
	for k := first; k <= n; k++ {
		f := c07File{Path: dir + name(k) + ".vuego"}
		if k < n {
			f.Layout = name(k+1) + suffix
		}
		if k == n {
			f.FM = map[string]string{"kb": fmt.Sprintf("fm%d:kb", len(c.Files))}
			if r.Bool() {
				f.Style = "doc"
			}
		}
		c.Files = append(c.Files, f)
	}
	if s.placement == "dotted" {
		// decoys under the names cut at the dot: they end the chain at once
		c.Files = append(c.Files, c07File{Path: "layouts/l1.vuego"})
		if n > 1 {
			c.Files = append(c.Files, c07File{Path: fmt.Sprintf("layouts/l%d.vuego", n)})
		}
	}
	if s.placement == "relative" {
		// decoys: an engine that looks into layouts/ first ends the chain early
		c.Files = append(c.Files, c07File{Path: "layouts/" + name(1) + ".vuego"})
		if n > 1 {
			c.Files = append(c.Files, c07File{Path: "layouts/" + name(n) + ".vuego", Layout: name(1)})
		}
	}
	return c
}

type c07CycleSpec struct {
	variant string
	tail, m int
}

func c07CycleSpecs() []c07CycleSpec {
	var out []c07CycleSpec
	for _, v := range []string{"layouts", "relative", "default", "ext", "through-page", "double"} {
		for tail := 0; tail <= 3; tail++ {
			for m := 1; m <= 4; m++ {
				if v == "through-page" && tail > 0 {
					continue
				}
				out = append(out, c07CycleSpec{v, tail, m})
			}
		}
	}
	return out
}

func c07CycleCase(s c07CycleSpec) c07Case {
	c := c07Case{Part: "cycle", Shape: s.variant, FillKind: "map", Fill: map[string]string{"ka": "fill:ka"}}
	dir, pageDir, suffix := "layouts/", "", ""
	switch s.variant {
	case "relative":
		dir, pageDir = "sub/", "sub/"
	case "ext":
		dir, suffix = "", ".vuego"
	}
	c.Page = pageDir + "p.vuego"
	if s.variant == "through-page" {
		// p -> c1 -> ... -> c(m-1) -> p ; m == 1 is the page naming itself
		page := c07File{Path: c.Page, Layout: "c1"}
		if s.m == 1 {
			page.Layout = "p"
		}
		c.Files = append(c.Files, page)
		for k := 1; k < s.m; k++ {
			f := c07File{Path: fmt.Sprintf("layouts/c%d.vuego", k), Layout: fmt.Sprintf("c%d", k+1)}
			if k == s.m-1 {
				f.Layout = "../p.vuego"
			}
			c.Files = append(c.Files, f)
		}
		return c
	}
	// names in walking order: t1..t<tail>, c1..c<m>, then back to c1
	var names []string
	for k := 1; k <= s.tail; k++ {
		names = append(names, fmt.Sprintf("t%d", k))
	}
	for k := 1; k <= s.m; k++ {
		names = append(names, fmt.Sprintf("c%d", k))
	}
	page := c07File{Path: c.Page}
	start := 0
	if s.variant == "default" {
		// the default base takes the place of the first file of the walk
		names[0] = "base"
	} else {
		page.Layout = names[0] + suffix
	}
	c.Files = append(c.Files, page)
	for k := start; k < len(names); k++ {
		next := "c1"
		if s.variant == "default" && s.tail == 0 {
			next = "base"
		}
		if k+1 < len(names) {
			next = names[k+1]
		}
		f := c07File{Path: dir + names[k] + ".vuego", Layout: next + suffix}
		if s.variant == "double" {
			// every layout of the walk shows the previous result twice: each further round doubles the document, so a
			// cycle that is only stopped by the depth limit does not end in practice (2^100 copies)
			f.Style = "twice"
		}
		c.Files = append(c.Files, f)
	}
	return c
}

const c07NKeys = 16 * 16 * 4 * 2

func c07KeysCase(ctx core.Ctx, i int, r *core.RNG) c07Case {
	ma := i % 16
	i /= 16
	mt := i % 16
	i /= 16
	kind := []string{"none", "map", "struct", "ptr"}[i%4]
	i /= 4
	shape := []string{"named", "default"}[i%2]
	c := c07Case{Part: "keys", Shape: shape + "/" + kind, Page: "p.vuego", FillKind: kind, Fill: map[string]string{}}
	page := c07File{Path: "p.vuego", FM: map[string]string{}}
	var l1, l2 c07File
	if shape == "named" {
		page.Layout = "a"
		l1 = c07File{Path: "layouts/a.vuego", Layout: "b", FM: map[string]string{}}
		l2 = c07File{Path: "layouts/b.vuego", FM: map[string]string{}}
	} else {
		l1 = c07File{Path: "layouts/base.vuego", Layout: "a", FM: map[string]string{}}
		l2 = c07File{Path: "layouts/a.vuego", FM: map[string]string{}}
	}
	masks := map[string]int{"ka": ma, "title": mt, "kb": r.Intn(16), "Plain": r.Intn(16), "count": r.Intn(16), "content": r.Intn(4)}
	val := func(src, k string, n int) string {
		if k == "count" {
			return strconv.Itoa(n)
		}
		return src + ":" + k
	}
	for _, k := range append(append([]string{}, c07Keys...), "content") {
		m := masks[k]
		inStruct := k == "title" || k == "Plain" || k == "count"
		switch kind {
		case "none":
			m &^= 1
		case "struct", "ptr":
			if !inStruct {
				m &^= 1
			} else if k == "count" {
				m |= 1
			}
		}
		if m&1 != 0 {
			c.Fill[k] = val("fill", k, 11)
		}
		if m&2 != 0 {
			page.FM[k] = val("pfm", k, 12)
		}
		if m&4 != 0 {
			l1.FM[k] = val("fm1", k, 21)
		}
		if m&8 != 0 {
			l2.FM[k] = val("fm2", k, 22)
		}
	}
	if r.Chance(1, 5) {
		l2.Style = "doc"
	}
	c.Files = []c07File{page, l1, l2}
	return c
}

var c07RandDirs = []string{"", "sub/", "layouts/"}
var c07RandNames = []string{"a", "b", "c", "base", "p", "q"}

func c07RandCase(r *core.RNG) c07Case {
	c := c07Case{Part: "rand", Fill: map[string]string{}}
	var paths []string
	for _, d := range c07RandDirs {
		for _, n := range c07RandNames {
			pres := r.Chance(1, 2)
			if d == "layouts/" && n != "base" {
				pres = r.Chance(2, 3)
			}
			if pres {
				paths = append(paths, d+n+".vuego")
			}
		}
	}
	if len(paths) == 0 {
		paths = append(paths, "p.vuego")
	}
	names := []string{"a", "b", "c", "base", "p", "q", "zz"}
	for k, pth := range paths {
		f := c07File{Path: pth}
		if !r.Chance(3, 10) {
			n := core.Pick(r, names)
			switch r.Intn(12) {
			case 0:
				n = n + ".vuego"
			case 1:
				n = "./" + n
			case 2:
				n = "../layouts/" + n
			case 3:
				n = "../" + n
			case 4:
				n = "sub/" + n
			case 5:
				n = "layouts/" + n
			case 6:
				n = "../sub/" + n + ".vuego"
			}
			f.Layout = n
		}
		for _, key := range c07Keys {
			if r.Chance(1, 4) {
				if f.FM == nil {
					f.FM = map[string]string{}
				}
				if key == "count" {
					f.FM[key] = strconv.Itoa(20 + k)
				} else {
					f.FM[key] = fmt.Sprintf("fm%d:%s", k, key)
				}
			}
		}
		switch {
		case r.Chance(3, 20):
			f.Style = "doc"
		case f.Layout != "" && r.Chance(1, 3):
			f.Style = "bare"
		case f.Layout == "" && len(f.FM) == 0 && r.Chance(1, 5):
			f.Style = "emptyfm"
		}
		c.Files = append(c.Files, f)
	}
	// the page: mostly a non-layouts file
	var cand []string
	for _, pth := range paths {
		if !strings.HasPrefix(pth, "layouts/") || r.Chance(1, 8) {
			cand = append(cand, pth)
		}
	}
	if len(cand) == 0 {
		cand = paths
	}
	c.Page = core.Pick(r, cand)
	c.FillKind = core.Pick(r, []string{"none", "map", "map", "struct", "ptr"})
	for _, key := range append(append([]string{}, c07Keys...), "content") {
		inStruct := key == "title" || key == "Plain" || key == "count"
		ok := r.Chance(1, 2)
		switch c.FillKind {
		case "none":
			ok = false
		case "struct", "ptr":
			ok = inStruct && (ok || key == "count")
		}
		if ok {
			if key == "count" {
				c.Fill[key] = "11"
			} else {
				c.Fill[key] = "fill:" + key
			}
		}
	}
	// page front-matter uses the pfm prefix so that sources stay distinguishable
	for k := range c.Files {
		if c.Files[k].Path == c.Page {
			for key := range c.Files[k].FM {
				if key == "count" {
					c.Files[k].FM[key] = "12"
				} else {
					c.Files[k].FM[key] = "pfm:" + key
				}
			}
			if r.Chance(1, 4) {
				if c.Files[k].FM == nil {
					c.Files[k].FM = map[string]string{}
				}
				c.Files[k].FM["content"] = "pfm:content"
			}
		}
	}
	c.Shape = "rand"
	return c
}

func (p *c07) nRand(ctx core.Ctx) int { return ctx.Pick(3000, 40000) }

func (p *c07) Plan(ctx core.Ctx) int {
	return len(c07GraphList()) + len(c07ChainSpecs(ctx)) + len(c07CycleSpecs()) + c07NKeys + c07NDataLayout + len(c07SameNameCases()) + c07NCfgLayout + c07NAppear() + p.nRand(ctx)
}

// datalayout part: the page's front-matter names no layout, layouts/base.vuego
// does not exist, and the data passed to Fill carries a `layout` key. The
// statement does not say whether such a key makes the page "name a layout", so
// both readings are accepted (page alone, or the chain the key names); what it
// does rule out is the default being applied although its file does not exist.
const c07NDataLayout = 2 * 3 * 2

// samename part: one bare layout name resolves to different files from
// different directories within a single chain (layouts/ fallback first, a file
// next to the naming layout later, and the other way round).
func c07SameNameCases() []c07Case {
	mk := func(shape string, files ...c07File) c07Case {
		return c07Case{Part: "samename", Shape: shape, Files: files, Page: files[0].Path, FillKind: "none"}
	}
	return []c07Case{
		mk("fallback-then-local",
			c07File{Path: "pages/p.vuego", Layout: "frame"},
			c07File{Path: "layouts/frame.vuego", Layout: "../shared/inner.vuego"},
			c07File{Path: "shared/inner.vuego", Layout: "frame"},
			c07File{Path: "shared/frame.vuego"}),
		mk("local-then-fallback",
			c07File{Path: "shared/p.vuego", Layout: "frame"},
			c07File{Path: "shared/frame.vuego", Layout: "../other/inner.vuego"},
			c07File{Path: "other/inner.vuego", Layout: "frame"},
			c07File{Path: "layouts/frame.vuego"}),
		mk("fallback-local-fallback",
			c07File{Path: "p.vuego", Layout: "a"},
			c07File{Path: "layouts/a.vuego", Layout: "../sub/m.vuego"},
			c07File{Path: "sub/m.vuego", Layout: "a"},
			c07File{Path: "sub/a.vuego", Layout: "../deep/n.vuego"},
			c07File{Path: "deep/n.vuego", Layout: "b"},
			c07File{Path: "layouts/b.vuego"}),
		mk("two-names-crossed",
			c07File{Path: "x/p.vuego", Layout: "a"},
			c07File{Path: "x/a.vuego", Layout: "b"},
			c07File{Path: "layouts/b.vuego", Layout: "../y/k.vuego"},
			c07File{Path: "y/k.vuego", Layout: "a"},
			c07File{Path: "layouts/a.vuego", Layout: "../z/k.vuego"},
			c07File{Path: "z/k.vuego", Layout: "b"},
			c07File{Path: "z/b.vuego"}),
	}
}

// cfglayout part: the site configuration (theme.yml) carries a layout key. A
// page that names a layout itself gets exactly its own chain - a layout
// continues the chain only through its own front-matter; a page that names none
// gets the page alone or the chain the configuration names.
const c07NCfgLayout = 2 * 3

func c07CfgLayoutCase(i int) c07Case {
	pageDir := []string{"", "sub/"}[i%2]
	own := []string{"", "b", "a"}[(i/2)%3]
	c := c07Case{Part: "cfglayout", Shape: fmt.Sprintf("page=%sp/own=%s/config=a", pageDir, own), Page: pageDir + "p.vuego", FillKind: "none",
		Fill: map[string]string{"layout": "a"}}
	c.Files = []c07File{
		{Path: pageDir + "p.vuego", Layout: own, FM: map[string]string{"kp": "fm0:kp"}},
		{Path: "layouts/a.vuego", Layout: "b"},
		{Path: "layouts/b.vuego"},
	}
	return c
}

func c07DataLayoutCase(i int) c07Case {
	pageDir := []string{"", "sub/"}[i%2]
	target := []string{"a", "b", "a.vuego"}[(i/2)%3]
	withPtr := (i/6)%2 == 1
	c := c07Case{Part: "datalayout", Shape: fmt.Sprintf("page=%sp/layout=%s", pageDir, target), Page: pageDir + "p.vuego", FillKind: "map",
		Fill: map[string]string{"layout": target, "kf": "fill:kf"}}
	c.Files = []c07File{
		{Path: pageDir + "p.vuego", FM: map[string]string{"kp": "fm0:kp"}},
		{Path: "layouts/a.vuego", Layout: "b"},
		{Path: "layouts/b.vuego"},
		{Path: "layouts/a.vuego.vuego"},
	}
	if target == "a.vuego" {
		c.Files = append(c.Files, c07File{Path: pageDir + "a.vuego"})
	}
	if withPtr {
		c.Files[0].Style = "emptyfm"
		c.Files[0].FM = nil
	}
	return c
}

func (p *c07) Gen(ctx core.Ctx, i int) any {
	r := core.NewRNG(ctx.Seed, uint64(i))
	if g := c07GraphList(); i < len(g) {
		return c07GraphCase(g[i])
	} else {
		i -= len(g)
	}
	if cs := c07ChainSpecs(ctx); i < len(cs) {
		return c07ChainCase(cs[i], r)
	} else {
		i -= len(cs)
	}
	if cs := c07CycleSpecs(); i < len(cs) {
		return c07CycleCase(cs[i])
	} else {
		i -= len(cs)
	}
	if i < c07NKeys {
		return c07KeysCase(ctx, i, r)
	} else {
		i -= c07NKeys
	}
	if i < c07NDataLayout {
		return c07DataLayoutCase(i)
	} else {
		i -= c07NDataLayout
	}
	if sn := c07SameNameCases(); i < len(sn) {
		return sn[i]
	} else {
		i -= len(sn)
	}
	if i < c07NCfgLayout {
		return c07CfgLayoutCase(i)
	} else {
		i -= c07NCfgLayout
	}
	if i < c07NAppear() {
		return c07AppearCase(i)
	}
	return c07RandCase(r)
}

func (p *c07) Decode(raw json.RawMessage) (any, error) { return core.JSONDecode[c07Case](raw) }

// ---------- file contents ----------

func c07Source(f c07File) string {
	var b strings.Builder
	if f.Layout != "" || len(f.FM) > 0 || f.Style == "emptyfm" {
		b.WriteString("---\n")
		if f.Layout != "" {
			if f.Style == "bare" {
				fmt.Fprintf(&b, "layout: %s\n", f.Layout)
			} else {
				fmt.Fprintf(&b, "layout: %q\n", f.Layout)
			}
		}
		for _, k := range sortedKeys(f.FM) {
			if k == "count" {
				fmt.Fprintf(&b, "count: %s\n", f.FM[k])
			} else {
				fmt.Fprintf(&b, "%s: %q\n", k, f.FM[k])
			}
		}
		b.WriteString("---\n")
	}
	if f.Style == "doc" {
		b.WriteString("<!DOCTYPE html>\n<html><head><title>{{ title }}</title></head><body>\n")
	}
	fmt.Fprintf(&b, `<div data-m="F:%s">`+"\n", f.Path)
	for _, k := range c07Keys {
		fmt.Fprintf(&b, `  <i data-k="%s">{{ %s }}</i>`+"\n", k, k)
	}
	if f.Style == "twice" {
		fmt.Fprintf(&b, `  <div data-m="S2:%s" v-html="content"></div>`+"\n", f.Path)
	}
	fmt.Fprintf(&b, `  <div data-m="S:%s" v-html="content"></div>`+"\n</div>\n", f.Path)
	if f.Style == "doc" {
		b.WriteString("</body></html>\n")
	}
	return b.String()
}

func c07FillData(c c07Case) (any, bool) {
	atoi := func(s string) int { n, _ := strconv.Atoi(s); return n }
	switch c.FillKind {
	case "map":
		m := map[string]any{}
		for k, v := range c.Fill {
			if k == "count" {
				m[k] = atoi(v)
			} else {
				m[k] = v
			}
		}
		return m, true
	case "struct", "ptr":
		it := Item{Title: c.Fill["title"], Plain: c.Fill["Plain"], Count: atoi(c.Fill["count"])}
		if c.FillKind == "ptr" {
			return &it, true
		}
		return it, true
	}
	return nil, false
}

// ---------- reference model ----------

type c07Exp struct {
	Chain   []int    // indices into Files; page first, outermost layout last
	Links   []string // how each link was resolved: default | relative | layouts | ext-relative
	Outcome string   // ok | boundary | limit | cycle | missing | notjudged
	Why     string
	Shadow  bool // a relative hit was preferred over an existing layouts/ file of the same name
}

func c07Index(c c07Case) map[string]int {
	idx := map[string]int{}
	for k, f := range c.Files {
		idx[f.Path] = k
	}
	return idx
}

// c07Reference is the independent resolver of the statement: page first; the
// default layouts/base.vuego iff the page names no layout and the file exists;
// names resolve relative to the naming file before layouts/; a chain that
// revisits a layout or has more links than the limit does not end.
func c07Reference(c c07Case) c07Exp { return c07Model{}.walk(c) }

// c07Model selects the resolver: the zero value is the statement's model, the
// flags describe well-known wrong engines. The wrong models are used only to
// name the signature of a violation that the statement's model has already
// established ("the engine behaves like ...").
type c07Model struct {
	layoutsFirst bool // layouts/<name> is tried before the relative path
	baseInstead  bool // the first link goes to layouts/base.vuego whenever it exists
	baseAppended bool // layouts/base.vuego is appended when a named chain ends
	leakLayout   bool // the page's layout value stays in the data: a layout without a layout key inherits it
}

var c07WrongModels = []struct {
	name string
	m    c07Model
}{
	{"layouts-dir-tried-before-relative", c07Model{layoutsFirst: true}},
	{"default-base-replaces-named-layout", c07Model{baseInstead: true}},
	{"default-base-appended-to-named-chain", c07Model{baseAppended: true}},
	{"page-layout-key-leaks-into-chain", c07Model{leakLayout: true}},
}

func (m c07Model) walk(c c07Case) c07Exp {
	idx := c07Index(c)
	exists := func(p string) bool {
		if !fs.ValidPath(p) {
			return false
		}
		_, ok := idx[p]
		return ok
	}
	var e c07Exp
	if !exists(c.Page) {
		e.Outcome, e.Why = "missing", "page file does not exist"
		return e
	}
	cur := idx[c.Page]
	e.Chain = []int{cur}
	seen := map[int]bool{} // files visited in a layout position
	name := c.Files[cur].Layout
	first := true
	for {
		var next string
		switch {
		case (name == "" || m.baseInstead) && first && exists("layouts/base.vuego"):
			next = "layouts/base.vuego"
			e.Links = append(e.Links, "default")
		case name == "" && m.baseAppended && !first && !seen[idx["layouts/base.vuego"]] && exists("layouts/base.vuego") && c.Files[cur].Path != "layouts/base.vuego":
			next = "layouts/base.vuego"
			e.Links = append(e.Links, "default")
		case name == "":
			n := len(e.Chain) - 1
			switch {
			case n < c07Limit:
				e.Outcome = "ok"
			case n == c07Limit:
				e.Outcome, e.Why = "boundary", "exactly 100 layouts"
			default:
				e.Outcome, e.Why = "limit", fmt.Sprintf("%d layouts", n)
			}
			return e
		default:
			dir := path.Dir(c.Files[cur].Path)
			fb := "layouts/" + name + ".vuego"
			if strings.HasSuffix(name, ".vuego") {
				rp := path.Join(dir, name)
				if exists(rp) {
					next = rp
					e.Links = append(e.Links, "ext-relative")
					break
				}
				if exists(path.Clean("layouts/" + name)) {
					e.Outcome, e.Why = "notjudged", "ext-name-only-in-layouts: explicit .vuego name missing relatively but present in layouts/"
					return e
				}
			}
			rp := path.Join(dir, name+".vuego")
			switch {
			case m.layoutsFirst && exists(fb):
				next = fb
				e.Links = append(e.Links, "layouts")
			case exists(rp):
				next = rp
				e.Links = append(e.Links, "relative")
				if rp != path.Clean(fb) && exists(path.Clean(fb)) {
					e.Shadow = true
				}
			case exists(fb):
				next = fb
				e.Links = append(e.Links, "layouts")
			case exists(path.Clean(fb)):
				e.Outcome, e.Why = "notjudged", "unclean-fallback: layouts/ fallback exists only after path cleaning"
				return e
			default:
				e.Outcome, e.Why = "missing", fmt.Sprintf("%q named by %s resolves to no file", name, c.Files[cur].Path)
				return e
			}
		}
		first = false
		k := idx[next]
		if seen[k] {
			e.Outcome, e.Why = "cycle", fmt.Sprintf("%s is reached a second time", next)
			return e
		}
		seen[k] = true
		if _, ok := c.Files[k].FM["content"]; ok {
			e.Outcome, e.Why = "notjudged", "layout-fm-defines-content: layout front-matter defines content itself"
			return e
		}
		e.Chain = append(e.Chain, k)
		cur = k
		name = c.Files[k].Layout
		if name == "" && m.leakLayout {
			name = c.Files[e.Chain[0]].Layout
		}
	}
}

func c07ExpTree(c c07Case, chain []int) string {
	s := ""
	for _, k := range chain {
		pth := c.Files[k].Path
		if s == "" {
			s = fmt.Sprintf("F:%s(S:%s)", pth, pth)
		} else {
			s = fmt.Sprintf("F:%s(S:%s(%s))", pth, pth, s)
		}
	}
	return s
}

// ---------- observation ----------

type c07Node struct {
	m    string
	n    *oracle.N
	kids []*c07Node
}

// c07Forest returns the marker elements below n, nested by nearest marker ancestor.
func c07Forest(n *oracle.N) []*c07Node {
	var out []*c07Node
	for _, k := range n.Kids {
		if k.Kind != "el" {
			continue
		}
		if m, ok := k.Attr("data-m"); ok {
			out = append(out, &c07Node{m: m, n: k, kids: c07Forest(k)})
		} else {
			out = append(out, c07Forest(k)...)
		}
	}
	return out
}

func c07TreeString(f []*c07Node) string {
	var parts []string
	for _, t := range f {
		s := t.m
		if len(t.kids) > 0 {
			s += "(" + c07TreeString(t.kids) + ")"
		}
		parts = append(parts, s)
	}
	return strings.Join(parts, " ")
}

// c07ObservedChain reads the files of a single nest, outermost first; ok=false if the forest is not one nest.
func c07ObservedChain(f []*c07Node) (files []string, layers []*c07Node, ok bool) {
	for {
		if len(f) != 1 || !strings.HasPrefix(f[0].m, "F:") {
			return files, layers, false
		}
		file := strings.TrimPrefix(f[0].m, "F:")
		files = append(files, file)
		layers = append(layers, f[0])
		if len(f[0].kids) != 1 || f[0].kids[0].m != "S:"+file {
			return files, layers, false
		}
		f = f[0].kids[0].kids
		if len(f) == 0 {
			return files, layers, true
		}
	}
}

type c07abort struct{}

// c07Run renders the page with the real engine, counting layout loop iterations.
func c07Run(c c07Case, fsys fs.FS, entry string) (out string, err error, iters int, aborted bool) {
	stop := 2*c07Limit + 10
	if c.Part == "cycle" && c.Shape == "double" {
		// at most 7 layout files: a second visit happens within 8 rounds; at round 16 the document is 2^16 times a layout
		stop = c07DoubleStop
	}
	removeHook := pushHook(func(point, a, b int) {
		if point == vuego.VerifLayoutIter {
			iters++
			if iters > stop {
				panic(c07abort{})
			}
		}
	})
	defer removeHook()
	defer func() {
		if r := recover(); r != nil {
			if _, ok := r.(c07abort); ok {
				aborted = true
				return
			}
			panic(r)
		}
	}()
	data, has := c07FillData(c)
	var b bytes.Buffer
	switch entry {
	case "render":
		t := vuego.NewFS(fsys).Load(c.Page)
		if has {
			t = t.Fill(data)
		}
		err = t.Render(bg, &b)
	case "renderfile":
		t := vuego.NewFS(fsys)
		if has {
			t = t.Fill(data)
		}
		err = t.RenderFile(bg, &b, c.Page)
	}
	return b.String(), err, iters, false
}

func c07Bucket(n int) string {
	switch {
	case n <= 3:
		return strconv.Itoa(n)
	case n <= 10:
		return "4-10"
	case n < 99:
		return "11-98"
	case n <= 101:
		return strconv.Itoa(n)
	}
	return ">101"
}

func (p *c07) Exec(ctx core.Ctx, cc any) core.Obs {
	c := cc.(c07Case)
	var o core.Obs
	if c.Part == "" {
		return o
	}
	if c.Part == "appear" {
		return c07ExecAppear(c)
	}
	exp := c07Reference(c)
	files := map[string]string{}
	for _, f := range c.Files {
		files[f.Path] = c07Source(f)
	}
	fsys := memFS(files)
	if c.Part == "datalayout" {
		return c07ExecDataLayout(c, fsys, files)
	}
	if c.Part == "cfglayout" {
		files["theme.yml"] = "layout: " + c.Fill["layout"] + "\nsite: S\n"
		cc := c
		cc.Fill = nil
		return c07ExecDataLayout(cc, memFS(files), files)
	}
	if exp.Outcome != "ok" || len(exp.Chain) > 1 {
		o.NT(mustJSON(c))
	}
	reported := map[string]bool{}
	for _, entry := range []string{"render", "renderfile"} {
		out, err, iters, aborted := c07Run(c, fsys, entry)
		o.Evals++
		o.Count("layout_iter_events", int64(iters))
		j := c07Judge{c: c, exp: exp, out: out, err: err, iters: iters, aborted: aborted, entry: entry, files: files}
		j.judge(&o)
		for _, f := range j.fails {
			sig := f.sig
			if entry != "render" {
				if reported[sig] {
					continue
				}
				sig += "@renderfile-only"
			}
			reported[f.sig] = true
			o.Fail(c, sig, "%s", f.detail)
		}
	}
	// coverage
	o.Cell("part/" + c.Part)
	o.Cell("outcome/" + exp.Outcome)
	if c.Part == "chain" || c.Part == "cycle" {
		o.Cell(c.Part + "/" + c.Shape)
	}
	for _, l := range exp.Links {
		o.Cell("link/" + l)
	}
	if exp.Shadow {
		o.Cell("link/relative-shadows-layouts-file")
	}
	if exp.Outcome == "ok" || exp.Outcome == "boundary" || exp.Outcome == "limit" {
		o.Cell("layouts-in-chain/" + c07Bucket(len(exp.Chain)-1))
	}
	_, hasBase := c07Index(c)["layouts/base.vuego"]
	named := len(exp.Chain) > 0 && c.Files[exp.Chain[0]].Layout != ""
	switch {
	case named && hasBase:
		o.Cell("default/base-exists-but-page-names-layout")
	case named:
		o.Cell("default/page-names-layout-no-base")
	case hasBase:
		o.Cell("default/due")
	default:
		o.Cell("default/no-base-file")
	}
	o.Cell("fill/" + c.FillKind)
	if c.Part == "keys" && strings.HasPrefix(c.Shape, "named/struct") && len(c.Fill) == 3 {
		o.Sample = map[string]any{"files": files, "page": c.Page, "fill": c.Fill, "expected_chain": c07ExpTree(c, exp.Chain)}
	}
	return o
}

func c07ExecDataLayout(c c07Case, fsys fs.FS, files map[string]string) core.Obs {
	var o core.Obs
	o.NT(mustJSON(c))
	o.Cell("part/" + c.Part)
	o.Cell(c.Part + "/" + c.Shape)
	alone := c07Reference(c)
	accept := []string{c07ExpTree(c, alone.Chain)}
	supplied := c.Fill["layout"]
	if c.Part == "cfglayout" {
		supplied = "a" // from theme.yml
	}
	if own := c.Files[c07Index(c)[c.Page]].Layout; own == "" {
		named := c
		named.Files = append([]c07File(nil), c.Files...)
		named.Files[c07Index(c)[c.Page]].Layout = supplied
		if chain := c07Reference(named); chain.Outcome == "ok" {
			accept = append(accept, c07ExpTree(c, chain.Chain))
		}
	}
	for _, entry := range []string{"render", "renderfile"} {
		out, err, iters, _ := c07Run(c, fsys, entry)
		o.Evals++
		o.Count("layout_iter_events", int64(iters))
		if err != nil {
			sig := c.Part + "/error"
			if strings.Contains(err.Error(), "layouts/base.vuego") {
				sig = c.Part + "/default-applied-although-file-missing"
			}
			o.Fail(c, sig+"/"+entry, "no layouts/base.vuego, layout=%q supplied through Fill data / site configuration (%s): render failed with %v (files %v)", supplied, c.Shape, err, sortedKeys(files))
			continue
		}
		got := c07TreeString(c07Forest(oracle.ParseAuto(out)))
		ok := false
		for _, a := range accept {
			if got == a {
				ok = true
			}
		}
		if !ok {
			o.Fail(c, c.Part+"/wrong-nest/"+entry, "got nest %s, accepted %v\noutput: %s", got, accept, clip(out, 600))
		} else if got == accept[0] {
			o.Cell(c.Part + "/observed/own-chain-or-page-alone")
		} else {
			o.Cell(c.Part + "/observed/chain-named-by-data")
		}
	}
	return o
}

type c07Fail struct{ sig, detail string }

type c07Judge struct {
	c       c07Case
	exp     c07Exp
	out     string
	err     error
	iters   int
	aborted bool
	entry   string
	files   map[string]string
	fails   []c07Fail

	diagDone bool
	diag     string
}

func (j *c07Judge) fail(sig, format string, args ...any) {
	msg := fmt.Sprintf(format, args...)
	var fl strings.Builder
	n := 0
	for _, f := range j.c.Files {
		if n++; n > 8 {
			fmt.Fprintf(&fl, "  ... %d more files\n", len(j.c.Files)-8)
			break
		}
		fmt.Fprintf(&fl, "  %s: layout=%q fm=%v style=%s\n", f.Path, f.Layout, f.FM, f.Style)
	}
	j.fails = append(j.fails, c07Fail{sig, fmt.Sprintf("%s\nentry=%s page=%s fill(%s)=%v reference: outcome=%s %s chain=%s\nfiles:\n%serr=%s iters=%d\noutput: %s",
		msg, j.entry, j.c.Page, j.c.FillKind, j.c.Fill, j.exp.Outcome, j.exp.Why, clip(c07ExpTree(j.c, j.exp.Chain), 400), fl.String(), errStr(j.err), j.iters, clip(j.out, 1500))})
}

// chainFail records a violation about the shape of the chain. If the observed
// behaviour is exactly what one of the well-known wrong resolvers predicts, the
// signature names that resolver, so that one root cause keeps one signature
// however it surfaces (wrong nest, missing error, unexpected error).
func (j *c07Judge) chainFail(sig, format string, args ...any) {
	if d := j.diagnose(); d != "" {
		sig = "chain/engine-behaves-like/" + d
	}
	j.fail(sig, format, args...)
}

func (j *c07Judge) diagnose() string {
	if j.diagDone {
		return j.diag
	}
	j.diagDone = true
	tree := ""
	if j.err == nil {
		tree = c07TreeString(c07Forest(oracle.ParseAuto(j.out)))
	}
	// a wrong model that predicts the observed nest is a strong match; one that
	// merely predicts "some error" names the signature only if it is the only one
	var weak []string
	for _, wm := range c07WrongModels {
		alt := wm.m.walk(j.c)
		switch alt.Outcome {
		case "ok":
			if j.err == nil && tree == c07ExpTree(j.c, alt.Chain) {
				j.diag = wm.name
				return j.diag
			}
		case "cycle", "limit", "missing":
			if j.err != nil {
				weak = append(weak, wm.name)
			}
		}
	}
	if len(weak) == 1 {
		j.diag = weak[0]
	}
	return j.diag
}

func (j *c07Judge) judge(o *core.Obs) {
	c, exp := j.c, j.exp
	// bounded progress, whatever the graph
	if j.aborted || j.iters > c07StepBound {
		j.fail("steps/layout-loop-exceeds-bound/"+exp.Outcome, "layout loop reported %d iterations (aborted=%v), bound is %d", j.iters, j.aborted, c07StepBound)
		if j.aborted {
			return
		}
	}
	switch exp.Outcome {
	case "cycle", "limit":
		if j.err == nil {
			j.chainFail("non-ending-chain/"+exp.Outcome+"/no-error", "the chain does not end (%s) but the render returned no error", exp.Why)
		}
		if j.out != "" {
			j.chainFail("non-ending-chain/"+exp.Outcome+"/output-written", "the chain does not end (%s) but %d bytes were written", exp.Why, len(j.out))
		}
		return
	case "missing":
		if j.err == nil {
			j.chainFail("missing-target/no-error", "a named layout does not exist (%s) but the render returned no error", exp.Why)
		}
		if j.out != "" {
			j.chainFail("missing-target/output-written", "a named layout does not exist (%s) but %d bytes were written", exp.Why, len(j.out))
		}
		return
	case "notjudged":
		o.Cell("not-judged/" + strings.TrimSuffix(strings.Fields(exp.Why)[0], ":"))
		if j.err != nil && j.out != "" {
			j.fail("error-with-output", "render failed but %d bytes were written", len(j.out))
		}
		return
	case "boundary":
		if j.err != nil {
			o.Cell("boundary-100-layouts/error")
			if j.out != "" {
				j.fail("error-with-output", "render failed but %d bytes were written", len(j.out))
			}
			return
		}
		o.Cell("boundary-100-layouts/rendered")
	}
	// a finite chain inside the limit: must render
	feat := "named"
	if len(exp.Links) > 0 && exp.Links[0] == "default" {
		feat = "default"
	} else if len(exp.Links) == 0 {
		feat = "no-layout"
	}
	if j.err != nil {
		j.chainFail("finite-chain/error/"+feat, "the chain ends after %d layouts but the render failed", len(exp.Chain)-1)
		return
	}
	doc := oracle.ParseAuto(j.out)
	forest := c07Forest(doc)
	got := c07TreeString(forest)
	want := c07ExpTree(c, exp.Chain)
	obsFiles, layers, single := c07ObservedChain(forest)
	if got != want {
		// the previous result replaced by a data key named content?
		if len(layers) > 0 && len(layers) < len(exp.Chain) && len(layers[len(layers)-1].kids) == 1 {
			inner := layers[len(layers)-1].kids[0].n.InnerText()
			for _, src := range []string{"fill:content", "pfm:content"} {
				if inner == src {
					j.fail("content/data-key-shadows-previous-result/"+strings.TrimSuffix(src, ":content"), "the innermost rendered layout shows the data value %q as content instead of the previous result\nwant %s\ngot  %s", src, clip(want, 600), clip(got, 600))
					return
				}
			}
		}
		j.chainFail("nesting/"+feat+"/"+j.classify(obsFiles, single), "marker nest differs\nwant %s\ngot  %s", clip(want, 600), clip(got, 600))
		return
	}
	// content sources of the data must not replace the previous result anywhere
	for _, src := range []string{"fill:content", "pfm:content"} {
		if n := strings.Count(j.out, src); n > 1 {
			j.fail("content/data-key-shown-more-than-once", "%q appears %d times in the output", src, n)
		}
	}
	// data visibility, layer by layer (layers[] is outermost first)
	pageFM := c.Files[exp.Chain[0]].FM
	fill := map[string]string{}
	for k, v := range c.Fill {
		if v != "" {
			fill[k] = v
		}
	}
	if c.FillKind == "struct" || c.FillKind == "ptr" {
		if _, ok := fill["count"]; !ok {
			fill["count"] = "0"
		}
	}
	pageEff := func(k string) (string, string) {
		if v, ok := pageFM[k]; ok {
			return v, "pagefm"
		}
		if v, ok := fill[k]; ok {
			return v, "fill"
		}
		return "", "none"
	}
	nL := len(exp.Chain)
	for i := 0; i < nL; i++ { // i = position in the chain, 0 = page
		layer := layers[nL-1-i]
		file := c.Files[exp.Chain[i]]
		vals := map[string]string{}
		for _, kid := range layer.n.Kids {
			if kid.Kind == "el" && kid.Name == "i" {
				if k, ok := kid.Attr("data-k"); ok {
					vals[k] = kid.InnerText()
				}
			}
		}
		src := func(k, v string) string {
			switch {
			case v == "":
				return "none"
			case i > 0 && v == file.FM[k]:
				return "own-fm"
			case v == fill[k]:
				return "fill"
			case v == pageFM[k]:
				return "pagefm"
			}
			for q := 1; q < nL; q++ {
				if v == c.Files[exp.Chain[q]].FM[k] {
					if q < i {
						return "earlier-layout-fm"
					}
					return "later-layout-fm"
				}
			}
			return "other"
		}
		for _, k := range c07Keys {
			got, seen := vals[k]
			if !seen {
				j.fail("data/key-element-missing", "layer %d (%s): the element printing %q is missing", i, file.Path, k)
				continue
			}
			wantV, wantSrc := pageEff(k)
			if i == 0 {
				o.Cell("data/page-layer/" + wantSrc)
				if got != wantV {
					j.fail("data/page-layer/want-"+wantSrc+"/got-"+src(k, got), "page %s prints %s=%q, want %q (page front-matter over Fill data)", file.Path, k, got, wantV)
				}
				continue
			}
			if _, own := file.FM[k]; own {
				o.Cell("not-judged/key-in-own-layout-fm/shows-" + src(k, got))
				continue
			}
			if wantSrc != "none" {
				shadow := ""
				for q := 1; q < i; q++ {
					if _, ok := c.Files[exp.Chain[q]].FM[k]; ok {
						shadow = "+earlier-layout-defines-it"
					}
				}
				o.Cell("data/layout-layer/page-" + wantSrc + shadow)
				if got != wantV {
					j.fail("data/layout-layer/want-page-"+wantSrc+shadow+"/got-"+src(k, got), "layout %s (link %d of the chain) prints %s=%q, want the page's value %q", file.Path, i, k, got, wantV)
				}
				continue
			}
			earlier := false
			for q := 1; q < i; q++ {
				if _, ok := c.Files[exp.Chain[q]].FM[k]; ok {
					earlier = true
				}
			}
			if earlier {
				o.Cell("not-judged/key-only-in-earlier-layout-fm/shows-" + src(k, got))
				continue
			}
			o.Cell("data/layout-layer/undefined")
			if got != "" {
				j.fail("data/layout-layer/want-none/got-"+src(k, got), "layout %s (link %d) prints %s=%q although neither the page nor this layout defines it", file.Path, i, k, got)
			}
		}
		if i == 0 {
			// the page's own `content` is plain data
			wantV, wantSrc := pageEff("content")
			var slot *oracle.N
			for _, kid := range layer.kids {
				slot = kid.n
			}
			if slot != nil {
				if got := slot.InnerText(); got != wantV {
					j.fail("data/page-layer/content/want-"+wantSrc, "page %s shows content=%q, want %q", file.Path, got, wantV)
				}
				if wantSrc != "none" {
					o.Cell("content/data-key-collides-with-previous-result/" + wantSrc)
				}
			}
		}
	}
}

// classify names the defect class of a wrong nest from the observed chain (outermost first).
func (j *c07Judge) classify(obs []string, single bool) string {
	c, exp := j.c, j.exp
	if !single {
		if len(obs) == 0 {
			return "no-markers"
		}
		return "not-a-single-nest"
	}
	var want []string
	for k := len(exp.Chain) - 1; k >= 0; k-- {
		want = append(want, c.Files[exp.Chain[k]].Path)
	}
	eq := func(a, b []string) bool { return strings.Join(a, "|") == strings.Join(b, "|") }
	const base = "layouts/base.vuego"
	switch {
	case len(obs) > 0 && obs[len(obs)-1] != c.Page:
		return "page-not-innermost"
	case len(obs) == len(want)+1 && obs[0] == base && eq(obs[1:], want):
		return "default-applied-although-not-due"
	case len(want) == len(obs)+1 && want[0] == base && eq(want[1:], obs) && len(exp.Links) > 0 && exp.Links[0] == "default":
		return "default-not-applied"
	case len(obs) == len(want):
		sameBase, sameSet := true, true
		set := map[string]int{}
		for k := range obs {
			if path.Base(obs[k]) != path.Base(want[k]) {
				sameBase = false
			}
			set[obs[k]]++
			set[want[k]]--
		}
		for _, v := range set {
			if v != 0 {
				sameSet = false
			}
		}
		switch {
		case sameSet:
			return "order"
		case sameBase:
			return "resolution-order"
		}
		return "wrong-layer"
	case len(obs) < len(want):
		return "layer-missing"
	}
	return "layer-extra"
}
