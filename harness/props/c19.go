package props

import (
	"encoding/json"
	"fmt"
	"os"
	"path/filepath"
	"regexp"
	"sort"
	"strings"
	"sync"
	"unicode"

	"golang.org/x/net/html"
	"golang.org/x/net/html/atom"

	"github.com/titpetric/vuego/formatter"

	"verifharness/core"
)

// C19 — the formatter is idempotent and preserves what the template means.
//
// Observed at the public API: formatter.NewFormatter().Format / FormatString /
// NewFormatterWithOptions(...).Format. The reference model is written here:
// golang.org/x/net/html is the trusted parser; this file decides the parse
// context (document / fragment / table-scoped fragment), cuts off front-matter
// and doctype with its own lexer, and compares the two DOMs with its own rules.

type c19Case struct {
	Part string `json:"part"`           // corpus | attr | text | struct | meta | gen
	Name string `json:"name,omitempty"` // origin (corpus file, generator shape)
	Src  string `json:"src"`
	Opts string `json:"opts,omitempty"` // "" = NewFormatter(); i4 | i0 | nofinal | i4nofinal
}

type c19 struct{}

func init() {
	core.Register(&c19{}, core.Meta{
		Exhaustive: func(ctx core.Ctx) bool { return false },
		Assumptions: []string{
			"golang.org/x/net/html (Parse / ParseFragment / Render) is the trusted parser and reference serialiser",
			"the same parse context is used for the source and for the formatted text: a document when the body (after front-matter and any leading comments) starts with a doctype or <html (any letter case), otherwise a fragment whose context element is tr/tbody/table/colgroup when the first tag is a table-scoped element, else body",
			"whitespace is Unicode whitespace (a no-break space counts as whitespace; its loss is counted, not judged)",
			"mustache expressions are compared after collapsing whitespace runs (the statement allows whitespace collapsing in values; it does not say how exactly expressions are compared)",
			"content of script/style is compared up to leading/trailing whitespace (the formatter's documented layout puts it on its own lines); content of <pre> is compared exactly; whitespace inside textarea/title is not judged",
			"preservation is judged only for sources whose own DOM survives parse -> html.Render -> parse (otherwise no serialiser could preserve it) and does not depend on the white space before/after the whole body (parser error recovery artefacts); idempotence is judged for every source",
			"the front-matter block is the engine's: the source starts with --- and the block ends with the first following line that starts with ---; when that closing line is not exactly --- the block boundary is ambiguous and only idempotence is judged",
		},
		MinNonTrivial: func(ctx core.Ctx) int { return ctx.Pick(20000, 200000) },
	})
}

func (p *c19) ID() string { return "C19" }
func (p *c19) Rule() string {
	return "corpus: every .vuego file under the repository and every ```html block of docs/*.md and README.md x 5 formatter option sets; attr: every string of <=3 (thorough <=4) tokens over {& amp; # \" ' < > space newline a 1 ; = |} as an attribute value x 3 source quotings, host element rotating over block/inline-in-p/void/table cell/pre child/script; text: every string of <=3 (thorough <=4) tokens over {{{ }} &lt; &gt; &amp; & < > a b T space newline &nbsp; amp; lt; #60;} x 7 containers (p, div with element sibling, pre, textarea, script, span in li, td); struct: 15 parents (incl. body and p of a full document) x every sequence of <=2 (thorough <=3) children over 13 child kinds x 3 separators x edge whitespace on/off; meta: 8 doctype spellings x 9 front-matter blocks (--- inside values, CRLF, block scalars, empty, at end of file) x 6 bodies x 4 gaps between front-matter and body; gen: seeded random fragments, table-scoped fragments and full documents over block/inline/void/table/raw-text/rcdata/pre/custom/template/svg/noscript/iframe elements, directives as plain attributes (incl. repeated :require), attribute values with quotes/entities/operators/newlines/blank runs in 5 source quotings, mustaches with < > & (raw and entity-escaped), comments, front-matter, doctypes, CRLF files, 1 in 6 with non-default formatter options. Every case: y1=Format(src), y2=Format(y1); judged: no error, y2==y1, DOM(y1)~DOM(src), front-matter and doctype bytes. non-trivial = the source body parses to at least one element or text node; distinct by (source, options)"
}

// ---------------------------------------------------------------- corpus

type c19CorpusItem struct{ name, src string }

var (
	c19CorpusOnce sync.Once
	c19CorpusList []c19CorpusItem
)

func c19RepoRoot() string {
	if v := os.Getenv("VERIF_REPO"); v != "" {
		return v
	}
	return "/repo"
}

func c19Corpus() []c19CorpusItem {
	c19CorpusOnce.Do(func() {
		root := c19RepoRoot()
		var files []string
		filepath.Walk(root, func(path string, info os.FileInfo, err error) error {
			if err != nil {
				return nil
			}
			if info.IsDir() {
				if info.Name() == ".git" {
					return filepath.SkipDir
				}
				return nil
			}
			if strings.HasSuffix(path, ".vuego") {
				files = append(files, path)
			}
			return nil
		})
		sort.Strings(files)
		for _, f := range files {
			raw, err := os.ReadFile(f)
			if err != nil {
				continue
			}
			rel, _ := filepath.Rel(root, f)
			c19CorpusList = append(c19CorpusList, c19CorpusItem{rel, string(raw)})
		}
		mds, _ := filepath.Glob(filepath.Join(root, "docs", "*.md"))
		sort.Strings(mds)
		mds = append(mds, filepath.Join(root, "README.md"))
		for _, f := range mds {
			raw, err := os.ReadFile(f)
			if err != nil {
				continue
			}
			rel, _ := filepath.Rel(root, f)
			lines := strings.Split(string(raw), "\n")
			in := false
			var cur []string
			n := 0
			for _, ln := range lines {
				t := strings.TrimSpace(ln)
				switch {
				case !in && strings.HasPrefix(t, "```html"):
					in, cur = true, nil
				case in && strings.HasPrefix(t, "```"):
					in = false
					n++
					c19CorpusList = append(c19CorpusList, c19CorpusItem{fmt.Sprintf("%s#html%d", rel, n), strings.Join(cur, "\n") + "\n"})
				case in:
					cur = append(cur, ln)
				}
			}
		}
	})
	return c19CorpusList
}

var c19OptSets = []string{"", "i4", "i0", "nofinal", "i4nofinal"}

// ---------------------------------------------------------------- exhaustive sub-spaces

// c19SeqCount is the number of token strings of length 0..maxLen over n tokens.
func c19SeqCount(n, maxLen int) int {
	t, pw := 0, 1
	for l := 0; l <= maxLen; l++ {
		t += pw
		pw *= n
	}
	return t
}

// c19Seq decodes idx into the idx-th token string (shorter strings first).
func c19Seq(tokens []string, maxLen, idx int) []string {
	n := len(tokens)
	pw := 1
	for l := 0; l <= maxLen; l++ {
		if idx < pw {
			out := make([]string, l)
			for k := l - 1; k >= 0; k-- {
				out[k] = tokens[idx%n]
				idx /= n
			}
			return out
		}
		idx -= pw
		pw *= n
	}
	return nil
}

var c19AttrTokens = []string{"&", "amp;", "#", `"`, "'", "<", ">", " ", "\n", "a", "1", ";", "=", "|"}
var c19AttrQuotings = []string{"dq", "sq", "dqfull"}
var c19AttrHosts = []string{"div", "span-in-p", "input", "td", "pre-child", "script", "component"}

// c19WriteAttrValue writes value v as source text under a quoting style. It is
// only a way to produce varied sources; the expectation always comes from
// parsing the source.
func c19WriteAttrValue(v, quoting string) string {
	switch quoting {
	case "dq":
		return `"` + strings.ReplaceAll(v, `"`, "&quot;") + `"`
	case "sq":
		return `'` + strings.ReplaceAll(v, `'`, "&#39;") + `'`
	case "dqfull":
		r := strings.NewReplacer("&", "&amp;", "<", "&lt;", ">", "&gt;", `"`, "&#34;", "'", "&#39;")
		return `"` + r.Replace(v) + `"`
	case "sqmin":
		return `'` + strings.ReplaceAll(v, `'`, "&apos;") + `'`
	}
	return `"` + strings.ReplaceAll(v, `"`, "&quot;") + `"`
}

func c19AttrHostSrc(host, attr string) string {
	switch host {
	case "div":
		return "<div " + attr + ">x</div>"
	case "span-in-p":
		return "<p>a <span " + attr + ">x</span> b</p>"
	case "input":
		return "<form><input " + attr + "></form>"
	case "td":
		return "<table><tbody><tr><td " + attr + ">x</td></tr></tbody></table>"
	case "pre-child":
		return "<pre>a <b " + attr + ">x</b>\n b</pre>"
	case "script":
		return "<script " + attr + ">var a = 1;</script>"
	default:
		return "<my-card " + attr + "><template v-slot:head>h</template></my-card>"
	}
}

var c19TextTokens = []string{"{{", "}}", "&lt;", "&gt;", "&amp;", "&", "<", ">", "a", "b", "T", " ", "\n", "&nbsp;", "amp;", "lt;", "#60;"}
var c19TextHosts = []string{"p", "div-block", "pre", "textarea", "script", "span-in-li", "td"}

func c19TextHostSrc(host, t string) string {
	switch host {
	case "p":
		return "<p>" + t + "</p>"
	case "div-block":
		return "<div><i>k</i>" + t + "<section>s</section></div>"
	case "pre":
		return "<pre>" + t + "</pre>"
	case "textarea":
		return "<textarea>" + t + "</textarea>"
	case "script":
		return "<script>" + t + "</script>"
	case "span-in-li":
		return "<ul><li><span>" + t + "</span> <em>e</em></li></ul>"
	default:
		return "<table><tbody><tr><td>" + t + "</td></tr></tbody></table>"
	}
}

var c19StructParents = []string{"div", "p", "span", "li", "td", "a", "button", "h2", "label", "section", "template", "my-comp", "pre", "body", "doc-p"}
var c19StructKids = []string{"t", "m", "i", "I", "b", "B", "v", "V", "c", "p", "s", "x", "T"}
var c19StructSeps = []string{"", " ", "\n    "}

func c19StructKidSrc(k string) string {
	switch k {
	case "t":
		return "foo bar"
	case "m":
		return "{{ a < b && c }}"
	case "i":
		return "<b>x</b>"
	case "I":
		return `<span class="s"><i>x</i> y</span>`
	case "b":
		return "<div>y</div>"
	case "B":
		return "<ul><li>z</li><li><a href=\"#\">w</a></li></ul>"
	case "v":
		return "<br>"
	case "V":
		return `<img src="a.png" alt='q"q'>`
	case "c":
		return "<!-- note -->"
	case "p":
		return "<pre>\n  x\n   y </pre>"
	case "s":
		return "<script>\n  if (a < b && c) { d(); }\n</script>"
	case "x":
		return "<textarea> t  u </textarea>"
	default:
		return "<table><tr><td>c</td></tr></table>"
	}
}

func c19StructSrc(parent string, kids []string, sep string, edge bool) string {
	var parts []string
	for _, k := range kids {
		parts = append(parts, c19StructKidSrc(k))
	}
	inner := strings.Join(parts, sep)
	if edge {
		inner = sep + inner + sep
		if sep == "" {
			inner = "\n" + inner + "\n"
		}
	}
	switch parent {
	case "li":
		return "<ul><li>" + inner + "</li></ul>"
	case "td":
		return "<table><tbody><tr><td>" + inner + "</td></tr></tbody></table>"
	case "template":
		return `<template v-if="ok">` + inner + "</template>"
	case "my-comp":
		return `<my-comp :title="t">` + inner + "</my-comp>"
	case "a":
		return `<a href="/x?a=1&amp;b=2">` + inner + "</a>"
	case "body":
		return "<!DOCTYPE html>\n<html><head><title>t</title></head><body>" + inner + "</body></html>"
	case "doc-p":
		return "<!DOCTYPE html>\n<html><head><title>t</title></head><body><p>" + inner + "</p></body></html>"
	}
	return "<" + parent + ">" + inner + "</" + parent + ">"
}

var c19Doctypes = []string{
	"",
	"<!DOCTYPE html>",
	"<!doctype html>",
	"<!DOCTYPE HTML>",
	`<!DOCTYPE html PUBLIC "-//W3C//DTD XHTML 1.0 Strict//EN" "http://www.w3.org/TR/xhtml1/DTD/xhtml1-strict.dtd">`,
	`<!DOCTYPE html SYSTEM "about:legacy-compat">`,
	"<!DOCTYPE  html >",
	"<!Doctype html>",
}

var c19FrontMatters = []string{
	"",
	"---\ntitle: Hello\n---\n",
	"---\ntitle: \"a --- b\"\nlayout: base\n---\n",
	"---\n# comment\nitems:\n  - a\n  - \"<b>x</b> & y\"\nnested:\n  k:   v   \n\nlast: 'it''s'\n---\n",
	"---\n---\n",
	"---\ndesc: |\n  line one\n    indented  two\n  <p>not html</p>\n---\n",
	"---\ntitle: t\n---", // no newline after the closing line (only legal with an empty rest)
	"---\ntitle: x -- y ---\nq: \"{{ a }}\"\n---\n",
	"---\r\ntitle: crlf\r\n---\r\n",
}

var c19MetaBodies = []string{
	"<html lang=\"en\"><head><meta charset=\"utf-8\"><title>{{ title }}</title></head><body class=\"b\"><p>x &amp; y</p></body></html>",
	"<html>\n<head>\n  <title>T</title>\n  <style>\n    p > a { color: red }\n  </style>\n</head>\n<body>\n  <div id=\"app\">\n    <p v-if='a == \"1\"'>one</p>\n  </div>\n</body>\n</html>\n",
	"<div>\n  <p>{{ a < b }}</p>\n</div>\n",
	"<p>only</p>",
	"",
	// a custom element (no HTML atom) between an inline-only container and a <pre>: the pre's white space is content
	"<table><tbody><tr><td><code-block><pre>a\n  b\t c</pre></code-block></td></tr></tbody></table><span><x-box><pre>  k\n\n l </pre></x-box></span><dl><dd><user-badge>u</user-badge><code-block><pre>m\n n</pre></code-block></dd></dl>",
	"<tr\r\n  v-for=\"r in rows\"><td>{{ r.name }}</td></tr>\r\n",
}

var c19MetaGaps = []string{"", "\n", "\n\n", "  \n"}

// what stands between the front-matter and the doctype / body
var c19MetaLeads = []string{"", "<!-- licence: MIT -->\n", "<!-- a -->\n\n<!-- b > c -->\n"}

// ---------------------------------------------------------------- plan / gen

func (p *c19) sizes(ctx core.Ctx) (nCorpus, nAttr, nText, nStruct, nMeta, nGen int) {
	nCorpus = len(c19Corpus()) * len(c19OptSets)
	nAttr = c19SeqCount(len(c19AttrTokens), ctx.Pick(3, 4)) * len(c19AttrQuotings)
	nText = c19SeqCount(len(c19TextTokens), ctx.Pick(3, 4)) * len(c19TextHosts)
	nStruct = len(c19StructParents) * (c19SeqCount(len(c19StructKids), ctx.Pick(2, 3)) - 1) * len(c19StructSeps) * 2
	nMeta = len(c19Doctypes) * len(c19FrontMatters) * len(c19MetaBodies) * len(c19MetaGaps) * len(c19MetaLeads)
	nGen = ctx.Pick(12000, 200000)
	return
}

func (p *c19) Plan(ctx core.Ctx) int {
	a, b, c, d, e, f := p.sizes(ctx)
	return a + b + c + d + e + f
}

func (p *c19) Gen(ctx core.Ctx, i int) any {
	nCorpus, nAttr, nText, nStruct, nMeta, _ := p.sizes(ctx)
	switch {
	case i < nCorpus:
		items := c19Corpus()
		it := items[i%len(items)]
		return c19Case{Part: "corpus", Name: it.name, Src: it.src, Opts: c19OptSets[i/len(items)]}
	case i < nCorpus+nAttr:
		j := i - nCorpus
		q := c19AttrQuotings[j%len(c19AttrQuotings)]
		j /= len(c19AttrQuotings)
		v := strings.Join(c19Seq(c19AttrTokens, ctx.Pick(3, 4), j), "")
		host := c19AttrHosts[(j+int(ctx.Seed%7))%len(c19AttrHosts)]
		name := []string{"title", ":class", "v-if", "@click", "data-x"}[(j/len(c19AttrHosts))%5]
		attr := name + "=" + c19WriteAttrValue(v, q)
		return c19Case{Part: "attr", Name: host + "/" + q, Src: c19AttrHostSrc(host, attr)}
	case i < nCorpus+nAttr+nText:
		j := i - nCorpus - nAttr
		host := c19TextHosts[j%len(c19TextHosts)]
		j /= len(c19TextHosts)
		t := strings.Join(c19Seq(c19TextTokens, ctx.Pick(3, 4), j), "")
		return c19Case{Part: "text", Name: host, Src: c19TextHostSrc(host, t)}
	case i < nCorpus+nAttr+nText+nStruct:
		j := i - nCorpus - nAttr - nText
		edge := j%2 == 1
		j /= 2
		sep := c19StructSeps[j%len(c19StructSeps)]
		j /= len(c19StructSeps)
		parent := c19StructParents[j%len(c19StructParents)]
		j /= len(c19StructParents)
		kids := c19Seq(c19StructKids, ctx.Pick(2, 3), j+1) // +1: skip the empty sequence
		return c19Case{Part: "struct", Name: parent + ":" + strings.Join(kids, ""), Src: c19StructSrc(parent, kids, sep, edge)}
	case i < nCorpus+nAttr+nText+nStruct+nMeta:
		j := i - nCorpus - nAttr - nText - nStruct
		lead := c19MetaLeads[j%len(c19MetaLeads)]
		j /= len(c19MetaLeads)
		gap := c19MetaGaps[j%len(c19MetaGaps)]
		j /= len(c19MetaGaps)
		body := c19MetaBodies[j%len(c19MetaBodies)]
		j /= len(c19MetaBodies)
		fm := c19FrontMatters[j%len(c19FrontMatters)]
		j /= len(c19FrontMatters)
		dt := c19Doctypes[j]
		src := fm
		if fm != "" && !strings.HasSuffix(fm, "\n") {
			// front-matter without a final newline can only be followed by nothing
			return c19Case{Part: "meta", Name: "fm-eof", Src: src}
		}
		if fm != "" {
			src += gap
		}
		src += lead
		if dt != "" {
			src += dt + "\n"
		}
		src += body
		return c19Case{Part: "meta", Name: "doctype+frontmatter", Src: src}
	}
	j := i - nCorpus - nAttr - nText - nStruct - nMeta
	r := core.NewRNG(ctx.Seed, uint64(j), 0xC19)
	g := &c19G{r: r}
	src, shape := g.source()
	if r.Chance(1, 40) {
		// a file with Windows line ends
		src, shape = strings.ReplaceAll(src, "\n", "\r\n"), shape+"+crlf"
	}
	opts := ""
	if r.Chance(1, 6) {
		opts = core.Pick(r, c19OptSets)
	}
	return c19Case{Part: "gen", Name: shape, Src: src, Opts: opts}
}

func (p *c19) Decode(raw json.RawMessage) (any, error) { return core.JSONDecode[c19Case](raw) }

// ---------------------------------------------------------------- random generator

type c19G struct {
	r      *core.RNG
	budget int
}

var c19Words = []string{"foo", "bar", "Hello", "world", "lorem", "ipsum", "x", "A1", "é", "日本", "a.b", "1,000", "it's", `say "hi"`, "50%", "C:\\dir", "#tag", "a/b", "q?"}
var c19Entities = []string{"&amp;", "&lt;", "&gt;", "&quot;", "&#39;", "&nbsp;", "&copy;", "&#169;", "&#x3C;", "&amp;amp;", "&amp;lt;", "AT&T", "a & b", "1 < 2", "3 > 2", "a<1", "x >= y", "-->", "&", "&;", "&#;", "&ampx", "R&D;"}
var c19Mustaches = []string{
	"{{ name }}", "{{name}}", "{{ item.title }}", "{{ a < b }}", "{{ a > b }}", "{{ a <= b }}", "{{ a >= 1 ? \"x\" : \"y\" }}",
	"{{ a && b }}", "{{ a & b }}", "{{ a || b }}", "{{ x | upper }}", "{{ x | default(\"n/a\") | upper }}", "{{ s == \"<\" }}",
	"{{ a &lt; b }}", "{{ a &amp;&amp; b }}", "{{ \"a&amp;b\" }}", "{{ fn(a, \"b\") }}", "{{ a &gt; b }}", "{{ a &amp; b }}",
	"{{ a }}{{ b }}", "{{ a\n    | upper }}", "{{ '}' }}", "{{ \"{\" }}", "{{ a  +  b }}", "{{ 'it''s' }}", "{{ items[0].name }}", "{{ !ok }}",
	"{{ a < b && c > d }}", "{{ x > 1 }}", "{{ `raw` }}", "{{", "}}", "{{ open", "{ { a } }",
}

// mustaches whose source form and parsed form differ in a way that matters for
// re-tokenisation (raw "<b", entity-escaped "<" before a letter, escaped character
// references); drawn rarely so that they do not hide everything else in a case
// (A raw '<' directly followed by a letter or '/' is not generated inside a
// mustache: to the HTML parser that is a tag, the source then simply contains a
// <b ...> element with odd attributes or a stray end tag, and an unclosed
// formatting element can make the DOM unserialisable - nested forms and the like.)
var c19MustachesRisky = []string{"{{ a<1 }}", "{{ a &lt;b }}", "{{ i &lt;Total }}", "{{ Page&lt;Pages ? \"next\" : \"last\" }}", "{{ \"&amp;lt;\" }}", "{{ \"&lt;/p&gt;\" }}", "{{ \"&lt;/i&gt;\" }}", "{{ x &amp;amp; y }}", "{{ \"&amp;#169;\" }}"}
var c19AttrNames = []string{"class", "id", "title", "href", "data-x", "data-json", "style", "v-if", "v-else-if", "v-for", "v-show", "v-html", "v-text", "v-model",
	":class", ":style", ":href", ":disabled", ":key", "@click", "@submit.prevent", "v-bind:title", "v-on:click", "v-slot:item", "#default", "[v-if]", "[:data]", "include", "name", "alt", "placeholder", "aria-label", "CamelCase", "x:y"}
var c19BareAttrs = []string{"v-else", "v-once", "disabled", "checked", "required", "v-keep", "hidden", "v-cloak"}
var c19AttrValues = []string{
	"a", "btn btn-primary", "x == \"1\"", "x == '1'", "a && b", "a || b", "a < b", "a > b && c", "a &amp b", "a &amp; b", "&lt;", "&copy;", "x&y", "x &y", "x& y", "a&#38;b", "&#x26;", "/p?q=1&r=2", "/p?a=1&amp=2",
	"item in items", "(i, item) in list", "fn(\"a&b\")", "{on: a&&b, \"x-y\": c>1}", "{ 'a': \"b\" }", "{\"id\":123}", "color: red; background: url('a.png')", "{{ a }}", "{{ a < b }}", "pre-{{ x }}-post", "é \"quoted\" ü",
	"", "  lead", "trail  ", "a  b   c", "line1\nline2", "a \nb", "a\n b", "a\n\nb", "x \n y", "k\r\n v", "t\t\nu", "a\n    && b\n    && c", "\ttab\t", "it's", `say "hi" & 'bye'`, "a\\\"b", "<b>bold</b>", "</div>", "a>b", "1<2", "-->", "`tick`", "=", "a=b", "x\u00a0y", "&", "&&", "&amp;&amp;", "\"", "'", "\"\"",
}

func (g *c19G) ws() string {
	return core.Pick(g.r, []string{"", "", " ", "\n", "\n  ", "\n\n", "  ", "\t", "\n      "})
}

func (g *c19G) word() string {
	switch g.r.Intn(10) {
	case 0, 1:
		return core.Pick(g.r, c19Entities)
	case 2, 3:
		return g.mustache()
	}
	return core.Pick(g.r, c19Words)
}

func (g *c19G) mustache() string {
	if g.r.Chance(1, 40) {
		return core.Pick(g.r, c19MustachesRisky)
	}
	return core.Pick(g.r, c19Mustaches)
}

func (g *c19G) text() string {
	n := 1 + g.r.Intn(4)
	var b strings.Builder
	for k := 0; k < n; k++ {
		if k > 0 {
			b.WriteString(core.Pick(g.r, []string{" ", " ", "  ", "\n", "\n    ", ""}))
		}
		b.WriteString(g.word())
	}
	return b.String()
}

func (g *c19G) attrValue() string {
	if g.r.Chance(1, 150) {
		return core.Pick(g.r, []string{" ", "\n", "  \t "}) // whitespace-only value
	}
	if g.r.Chance(1, 5) {
		// composed value
		return core.Pick(g.r, c19AttrValues) + core.Pick(g.r, []string{" ", "", "\n  ", " && "}) + core.Pick(g.r, c19AttrValues)
	}
	return core.Pick(g.r, c19AttrValues)
}

func (g *c19G) attrs(max int) string {
	n := g.r.Intn(max + 1)
	var b strings.Builder
	seen := map[string]bool{}
	for k := 0; k < n; k++ {
		if g.r.Chance(1, 6) {
			a := core.Pick(g.r, c19BareAttrs)
			if seen[a] {
				continue
			}
			seen[a] = true
			b.WriteString(core.Pick(g.r, []string{" ", " ", "\n   ", "  "}) + a)
			continue
		}
		a := core.Pick(g.r, c19AttrNames)
		if g.r.Chance(1, 12) {
			a = ":require" // vuego templates repeat this attribute name
		}
		if seen[strings.ToLower(a)] && a != ":require" {
			continue
		}
		seen[strings.ToLower(a)] = true
		v := g.attrValue()
		q := core.Pick(g.r, []string{"dq", "dq", "sq", "dqfull", "sqmin"})
		b.WriteString(core.Pick(g.r, []string{" ", " ", "\n   ", "  "}) + a + "=" + c19WriteAttrValue(v, q))
	}
	return b.String()
}

var c19InlineTags = []string{"span", "a", "b", "i", "em", "strong", "code", "small", "label", "button", "abbr", "time", "kbd", "mark", "sub", "u", "q", "cite"}
var c19BlockTags = []string{"div", "section", "article", "nav", "main", "header", "footer", "aside", "form", "blockquote", "figure", "details", "fieldset", "my-card", "app-layout", "template", "slot"}
var c19PhrasingTags = []string{"p", "h1", "h2", "h3", "dt", "dd", "figcaption", "summary", "legend", "li"}
var c19VoidTags = []string{"br", "hr", "img", "input", "wbr", "meta", "link"}

func (g *c19G) inline(d int, noA, noBtn bool) string {
	g.budget--
	tag := core.Pick(g.r, c19InlineTags)
	if (tag == "a" && noA) || (tag == "button" && noBtn) || (tag == "label" && noBtn) {
		tag = "span"
	}
	return "<" + tag + g.attrs(2) + ">" + g.phrasing(d-1, noA || tag == "a", noBtn || tag == "button" || tag == "label") + "</" + tag + ">"
}

func (g *c19G) void() string {
	tag := core.Pick(g.r, c19VoidTags)
	s := "<" + tag + g.attrs(3)
	if g.r.Chance(1, 4) {
		s += " /"
	}
	return s + ">"
}

// phrasing content: text, mustaches, inline elements, void elements, comments.
func (g *c19G) phrasing(d int, noA, noBtn bool) string {
	n := g.r.Intn(4)
	if d <= 0 {
		n = g.r.Intn(2)
	}
	var b strings.Builder
	b.WriteString(g.ws())
	for k := 0; k <= n; k++ {
		switch x := g.r.Intn(12); {
		case x < 6 || d <= 0 || g.budget <= 0:
			b.WriteString(g.text())
		case x < 9:
			b.WriteString(g.inline(d, noA, noBtn))
		case x < 10:
			b.WriteString(g.void())
		case x < 11:
			b.WriteString("<!-- " + core.Pick(g.r, []string{"c", "TODO: x < y", "a -- b", "\n multi\n line\n"}) + " -->")
		default:
			b.WriteString(g.mustache())
		}
		b.WriteString(g.ws())
	}
	return b.String()
}

func (g *c19G) pre() string {
	body := core.Pick(g.r, []string{
		"line1\n  line2\n    line3", "\nstarts with newline", "  leading spaces  ", "a &lt; b &amp;&amp; c", "{{ code }}\n{{ a < b }}",
		"<code>x := 1\n\ty := 2</code>", "tabs\there", "trailing\n", "   ", "", "if (a &lt; b) {\n  <b>bold</b>\n}\n", "<span>\n</span>\n<i> </i>", "\n", "x\n\n\ny",
	})
	if g.r.Chance(1, 25) {
		body = "\n\n" + body // the parser drops one newline after <pre>; the second one is content
	}
	if g.r.Chance(1, 3) {
		body += g.text()
	}
	return "<pre" + g.attrs(1) + ">" + body + "</pre>"
}

func (g *c19G) script() string {
	body := core.Pick(g.r, []string{
		"", "var a = 1;", "\n  if (a < b && c > d) { x = \"</div>\"; }\n", "\n\n  let s = '<p>';\n\n    nested();\n\n", "  one();\n  two();", "// {{ not }} touched\nconst t = `a&amp;b`;",
		"\n\tdocument.write(\"<b>\" + x + \"</b>\");\n", "a&&b", "<!-- legacy\n x();\n//-->", " ", "\n",
	})
	return "<script" + g.attrs(1) + ">" + body + "</script>"
}

func (g *c19G) style() string {
	body := core.Pick(g.r, []string{
		"", "p > a { color: red }", "\n  .a::before { content: \"<\"; }\n  .b { margin: 0 }\n", "\n\n.x{}\n\n\n", "  @media (min-width: 1px) {\n    a & b { c: d }\n  }", " ",
	})
	return "<style" + g.attrs(1) + ">" + body + "</style>"
}

func (g *c19G) textarea() string {
	body := core.Pick(g.r, []string{"", "plain", "  keep   spaces  ", "\nfirst newline", "<b>not a tag</b>", "a &amp; b &lt; c", "{{ value }}", "l1\nl2\n  l3", "{{ a < b }}",
		"a &amp;amp; b", "&amp;lt;/textarea&amp;gt; still inside", "&amp;#60;b&amp;#62;", "&lt;/textarea&gt; escaped end tag", "x &amp;copy y &amp;nbsp; z"})
	return "<textarea" + g.attrs(2) + ">" + body + "</textarea>"
}

func (g *c19G) table(d int) string {
	var b strings.Builder
	b.WriteString("<table" + g.attrs(1) + ">" + g.ws())
	if g.r.Chance(1, 4) {
		b.WriteString("<caption>" + g.phrasing(1, false, false) + "</caption>" + g.ws())
	}
	if g.r.Chance(1, 4) {
		b.WriteString("<colgroup><col" + g.attrs(1) + "><col></colgroup>" + g.ws())
	}
	if g.r.Chance(1, 3) {
		b.WriteString("<thead><tr><th" + g.attrs(1) + ">" + g.text() + "</th><th>H</th></tr></thead>" + g.ws())
	}
	tb := g.r.Chance(2, 3)
	if tb {
		b.WriteString("<tbody>" + g.ws())
	}
	rows := 1 + g.r.Intn(2)
	for k := 0; k < rows; k++ {
		b.WriteString("<tr" + g.attrs(2) + ">" + g.ws())
		cells := 1 + g.r.Intn(3)
		for c := 0; c < cells; c++ {
			b.WriteString("<td" + g.attrs(1) + ">")
			if d > 0 && g.r.Chance(1, 4) {
				b.WriteString(g.flow(d-1, false))
			} else {
				b.WriteString(g.phrasing(d-1, false, false))
			}
			b.WriteString("</td>" + g.ws())
		}
		b.WriteString("</tr>" + g.ws())
	}
	if tb {
		b.WriteString("</tbody>" + g.ws())
	}
	b.WriteString("</table>")
	return b.String()
}

func (g *c19G) list(d int) string {
	tag := core.Pick(g.r, []string{"ul", "ol"})
	var b strings.Builder
	b.WriteString("<" + tag + g.attrs(1) + ">" + g.ws())
	n := 1 + g.r.Intn(3)
	for k := 0; k < n; k++ {
		b.WriteString("<li" + g.attrs(2) + ">")
		if d > 0 && g.r.Chance(1, 4) {
			b.WriteString(g.flow(d-1, false))
		} else {
			b.WriteString(g.phrasing(d-1, false, false))
		}
		b.WriteString("</li>" + g.ws())
	}
	b.WriteString("</" + tag + ">")
	return b.String()
}

// flow content: a sequence of block-level things, possibly mixed with phrasing.
func (g *c19G) flow(d int, inForm bool) string {
	n := 1 + g.r.Intn(3)
	var b strings.Builder
	b.WriteString(g.ws())
	for k := 0; k < n; k++ {
		g.budget--
		switch x := g.r.Intn(20); {
		case g.budget <= 0 || d <= 0:
			b.WriteString("<p" + g.attrs(1) + ">" + g.text() + "</p>")
		case x < 5:
			tag := core.Pick(g.r, c19BlockTags)
			if tag == "form" && inForm {
				tag = "div"
			}
			b.WriteString("<" + tag + g.attrs(3) + ">" + g.flow(d-1, inForm || tag == "form") + "</" + tag + ">")
		case x < 9:
			tag := core.Pick(g.r, c19PhrasingTags)
			if tag == "li" {
				b.WriteString(g.list(d - 1))
			} else if tag == "dt" || tag == "dd" {
				b.WriteString("<dl><dt>" + g.phrasing(1, false, false) + "</dt><dd" + g.attrs(1) + ">" + g.phrasing(d-1, false, false) + "</dd></dl>")
			} else {
				b.WriteString("<" + tag + g.attrs(2) + ">" + g.phrasing(d-1, false, false) + "</" + tag + ">")
			}
		case x < 11:
			b.WriteString(g.phrasing(1, false, false))
		case x < 12:
			b.WriteString(g.table(d - 1))
		case x < 13:
			b.WriteString(g.pre())
		case x < 14:
			if g.r.Bool() {
				b.WriteString(g.script())
			} else {
				b.WriteString(g.style())
			}
		case x < 15:
			b.WriteString(g.textarea())
		case x < 16:
			b.WriteString(g.void())
		case x < 17:
			// inline element holding a block (legal for the parser, exercises the inline/block decision)
			tag := core.Pick(g.r, []string{"span", "a", "b", "label", "button"})
			b.WriteString("<" + tag + g.attrs(1) + ">" + g.ws() + "<div>" + g.text() + "</div>" + g.ws() + "</" + tag + ">")
		case x < 18:
			b.WriteString("<select" + g.attrs(1) + "><option value=\"1\"" + core.Pick(g.r, []string{"", " selected", " :selected=\"a == 1\""}) + ">" + g.text() + "</option><option>two</option></select>")
		case x < 19:
			switch g.r.Intn(16) {
			case 0:
				b.WriteString("<noscript><img src=\"/px.gif?a=1&amp;b=2\" alt=\"\"></noscript>")
			case 1:
				b.WriteString("<iframe src=\"/f\"" + g.attrs(1) + ">" + core.Pick(g.r, []string{"", "fallback", "<p>no frames</p>"}) + "</iframe>")
			case 2:
				b.WriteString("<svg viewBox=\"0 0 24 24\"" + g.attrs(1) + ">" + g.ws() + core.Pick(g.r, []string{"<use xlink:href=\"#icon\"/>", "<path d=\"M0 0h24v24H0z\" fill=\"none\"/>", "<circle cx=\"1\" cy=\"1\" r=\"1\"></circle><title>{{ t }}</title>", "<foreignObject><p>x</p></foreignObject>",
					// empty HTML elements below an HTML integration point, with siblings after them
					"<foreignObject width=\"9\" height=\"9\"><span class=\"icon\"></span><b>t</b> tail</foreignObject>", "<desc><i></i>d<em>e</em></desc><rect width=\"1\" height=\"1\"></rect>",
					"<foreignObject><div></div><p>after</p><a href=\"#\"></a><u>z</u></foreignObject>"}) + g.ws() + "</svg>")
			default:
				b.WriteString("<!-- " + core.Pick(g.r, []string{"block comment", "<p>commented</p>", "{{ x }}"}) + " -->")
			}
		default:
			b.WriteString(g.list(d - 1))
		}
		b.WriteString(g.ws())
	}
	return b.String()
}

func (g *c19G) frontMatter() string {
	if g.r.Chance(1, 3) {
		return core.Pick(g.r, c19FrontMatters[1:6])
	}
	var b strings.Builder
	b.WriteString("---\n")
	n := g.r.Intn(4)
	for k := 0; k < n; k++ {
		key := core.Pick(g.r, []string{"title", "layout", "description", "tags", "draft", "count", "nested"})
		val := core.Pick(g.r, []string{"Hello", "\"a --- b\"", "'<b>x</b> & y'", "true", "42", "[a, b]", "\"{{ not }} touched\"", "a -- b --- c", "   spaced   ", "\"q: \\\"x\\\"\"", "\n  - one\n  - two", "\n  k: v\n  k2:   v2", "|\n  text\n    more"})
		b.WriteString(fmt.Sprintf("%s%d: %s\n", key, k, val))
		if g.r.Chance(1, 6) {
			b.WriteString("\n")
		}
	}
	b.WriteString("---\n")
	return b.String()
}

func (g *c19G) source() (string, string) {
	g.budget = 6 + g.r.Intn(30)
	depth := 1 + g.r.Intn(4)
	var b strings.Builder
	shape := ""
	if g.r.Chance(1, 4) {
		b.WriteString(g.frontMatter())
		b.WriteString(core.Pick(g.r, []string{"", "", "\n", "\n\n"}))
		shape += "fm+"
	}
	switch x := g.r.Intn(10); {
	case x < 3:
		// full document
		shape += "document"
		dt := core.Pick(g.r, []string{"", "<!DOCTYPE html>", "<!DOCTYPE html>", "<!DOCTYPE HTML>", c19Doctypes[4], c19Doctypes[5], "<!DOCTYPE  html >"})
		if g.r.Chance(1, 12) {
			dt = core.Pick(g.r, []string{"<!doctype html>", "<!Doctype html>"})
		}
		if dt != "" {
			b.WriteString(dt + core.Pick(g.r, []string{"\n", "\n", "", "\n\n"}))
		}
		b.WriteString("<html" + g.attrs(2) + ">" + g.ws())
		if g.r.Chance(4, 5) {
			b.WriteString("<head>" + g.ws())
			if g.r.Chance(2, 3) {
				b.WriteString("<meta charset=\"utf-8\">" + g.ws())
			}
			if g.r.Chance(2, 3) {
				b.WriteString("<title>" + g.text() + "</title>" + g.ws())
			}
			if g.r.Chance(1, 3) {
				b.WriteString("<link rel=\"stylesheet\" href=\"/a.css?v=1&amp;w=2\">" + g.ws())
			}
			if g.r.Chance(1, 3) {
				b.WriteString(g.style() + g.ws())
			}
			if g.r.Chance(1, 3) {
				b.WriteString(g.script() + g.ws())
			}
			b.WriteString("</head>" + g.ws())
		}
		b.WriteString("<body" + g.attrs(2) + ">" + g.flow(depth, false) + "</body>" + g.ws() + "</html>" + core.Pick(g.r, []string{"", "\n"}))
	case x < 4:
		// table-scoped fragment
		shape += "table-fragment"
		switch g.r.Intn(6) {
		case 0:
			b.WriteString("<td" + g.attrs(1) + ">" + g.phrasing(1, false, false) + "</td>" + g.ws() + "<td>b</td>")
		case 1:
			b.WriteString("<tr" + g.attrs(2) + "><td>" + g.phrasing(1, false, false) + "</td><th>h</th></tr>" + g.ws() + "<tr v-else><td>z</td></tr>")
		case 2:
			b.WriteString("<tbody><tr v-for=\"r in rows\"><td>{{ r.a < 1 }}</td></tr></tbody>")
		case 3:
			b.WriteString("<thead" + g.attrs(1) + "><tr><th>" + g.text() + "</th></tr></thead>" + g.ws() + "<tbody></tbody>")
		case 4:
			b.WriteString("<colgroup><col span=\"2\"></colgroup><col" + g.attrs(1) + ">")
		default:
			b.WriteString("<col" + g.attrs(2) + ">" + g.ws() + "<col span=\"2\">")
		}
	default:
		shape += "fragment"
		b.WriteString(g.flow(depth, false))
	}
	return b.String(), shape
}

// ---------------------------------------------------------------- reference model

// c19N is the reference DOM: comments dropped, adjacent text merged.
type c19N struct {
	Text  bool
	Name  string // element name (namespace-prefixed), "#root", "!doctype"
	Attrs [][2]string
	Data  string   // text content (raw)
	Segs  []string // the parser's own text nodes that were merged into Data (a dropped comment separates them)
	Kids  []*c19N
}

func c19Conv(parent *c19N, n *html.Node) {
	switch n.Type {
	case html.TextNode:
		if k := len(parent.Kids); k > 0 && parent.Kids[k-1].Text {
			parent.Kids[k-1].Data += n.Data
			parent.Kids[k-1].Segs = append(parent.Kids[k-1].Segs, n.Data)
		} else {
			parent.Kids = append(parent.Kids, &c19N{Text: true, Data: n.Data, Segs: []string{n.Data}})
		}
	case html.DoctypeNode:
		d := &c19N{Name: "!doctype", Data: n.Data}
		for _, a := range n.Attr {
			d.Attrs = append(d.Attrs, [2]string{a.Key, a.Val})
		}
		parent.Kids = append(parent.Kids, d)
	case html.ElementNode:
		e := &c19N{Name: n.Data}
		if n.Namespace != "" {
			e.Name = n.Namespace + ":" + n.Data
		}
		for _, a := range n.Attr {
			k := a.Key
			if a.Namespace != "" {
				k = a.Namespace + ":" + k
			}
			e.Attrs = append(e.Attrs, [2]string{k, a.Val})
		}
		for c := n.FirstChild; c != nil; c = c.NextSibling {
			c19Conv(e, c)
		}
		parent.Kids = append(parent.Kids, e)
	case html.DocumentNode:
		for c := n.FirstChild; c != nil; c = c.NextSibling {
			c19Conv(parent, c)
		}
	}
}

// c19Ctx is the parse context chosen for a source.
type c19Ctx struct {
	doc  bool
	name string // context element of a fragment
}

var c19LeadTag = regexp.MustCompile(`^<([a-zA-Z][a-zA-Z0-9-]*)(?:[\s/>]|$)`)
var c19DoctypeRe = regexp.MustCompile(`(?i)^<!doctype[^>]*>`)

// c19SkipLead returns what follows the comments (and the white space around
// them) a text begins with: a document whose first line is a licence comment
// is a document all the same.
func c19SkipLead(t string) string {
	for {
		t = strings.TrimLeftFunc(t, unicode.IsSpace)
		if !strings.HasPrefix(t, "<!--") {
			return t
		}
		end := strings.Index(t[4:], "-->")
		if end < 0 {
			return t
		}
		t = t[4+end+3:]
	}
}

func c19Context(body string) c19Ctx {
	t := strings.TrimSpace(body)
	low := strings.ToLower(c19SkipLead(t))
	if strings.HasPrefix(low, "<!doctype") || strings.HasPrefix(low, "<html") {
		return c19Ctx{doc: true, name: "document"}
	}
	if m := c19LeadTag.FindStringSubmatch(t); m != nil {
		switch strings.ToLower(m[1]) {
		case "td", "th":
			return c19Ctx{name: "tr"}
		case "tr":
			return c19Ctx{name: "tbody"}
		case "thead", "tbody", "tfoot", "caption", "colgroup":
			return c19Ctx{name: "table"}
		case "col":
			return c19Ctx{name: "colgroup"}
		}
	}
	return c19Ctx{name: "body"}
}

func c19ParseNodes(src string, cx c19Ctx) ([]*html.Node, error) {
	if cx.doc {
		d, err := html.Parse(strings.NewReader(src))
		if err != nil {
			return nil, err
		}
		return []*html.Node{d}, nil
	}
	ctxNode := &html.Node{Type: html.ElementNode, Data: cx.name, DataAtom: atom.Lookup([]byte(cx.name))}
	return html.ParseFragment(strings.NewReader(src), ctxNode)
}

func c19Parse(src string, cx c19Ctx) (*c19N, error) {
	nodes, err := c19ParseNodes(src, cx)
	if err != nil {
		return nil, err
	}
	root := &c19N{Name: "#root"}
	for _, n := range nodes {
		c19Conv(root, n)
	}
	return root, nil
}

// c19Stable: the source's own DOM survives the reference serialiser.
func c19Stable(src string, cx c19Ctx) bool {
	nodes, err := c19ParseNodes(src, cx)
	if err != nil {
		return false
	}
	var b strings.Builder
	for _, n := range nodes {
		if err := html.Render(&b, n); err != nil {
			return false
		}
	}
	a := &c19N{Name: "#root"}
	for _, n := range nodes {
		c19Conv(a, n)
	}
	c, err := c19Parse(b.String(), cx)
	if err != nil {
		return false
	}
	return c19Compare(a, c, "normal", true, nil) == nil
}

type c19Diff struct {
	Kind    string // element-name | node-kind | missing-node | extra-node | attr-names | attr-value | text | pre-text | rawtext | doctype-node
	Where   string // name of the element that holds the difference
	Trigger string // feature of the expected side that explains the class of the defect
	Path    string
	Exp     string
	Got     string
}

func (d *c19Diff) String() string {
	return fmt.Sprintf("%s in <%s> at %s: expected %s, got %s", d.Kind, d.Where, d.Path, d.Exp, d.Got)
}

// c19IsWS: HTML white space is ASCII white space; a no-break space (&nbsp;) is a
// character of the text.
func c19IsWS(r rune) bool { return r == ' ' || r == '\t' || r == '\n' || r == '\r' || r == '\f' }

func c19StripWS(s string) string {
	if strings.IndexFunc(s, c19IsWS) < 0 {
		return s
	}
	return strings.Map(func(r rune) rune {
		if c19IsWS(r) {
			return -1
		}
		return r
	}, s)
}

func c19Collapse(s string) string { return strings.Join(strings.FieldsFunc(s, c19IsWS), " ") }

func c19ModeFor(parentMode string, e *c19N) string {
	switch e.Name {
	case "script", "style":
		return "raw"
	case "pre":
		return "pre"
	case "textarea", "title":
		if parentMode == "pre" {
			return "pre"
		}
		return "rcdata"
	}
	if parentMode == "pre" {
		return "pre"
	}
	return "normal"
}

// c19Kids filters the children that take part in the comparison under a mode.
func c19KidsOf(n *c19N, mode string, strict bool) []*c19N {
	if mode == "pre" || strict {
		return n.Kids
	}
	var out []*c19N
	for _, k := range n.Kids {
		if k.Text {
			if mode == "raw" && strings.TrimSpace(k.Data) == "" {
				continue
			}
			if mode != "raw" && c19StripWS(k.Data) == "" {
				continue
			}
		}
		out = append(out, k)
	}
	return out
}

type c19Stats struct {
	nbspLost bool
	rcdataWS bool
}

// c19Compare returns the first difference between the expected DOM a and the
// observed DOM b. strict = exact text everywhere (used for the stability test).
func c19Compare(a, b *c19N, mode string, strict bool, st *c19Stats) *c19Diff {
	return c19Cmp(a, b, mode, strict, "", st, false)
}

// Sig is the classifier signature part of a difference: a specific trigger names
// the root cause by itself; a generic one is qualified by the kind of difference
// and the class of the element holding it.
func (d *c19Diff) Sig() string {
	group := "structure"
	switch d.Kind {
	case "text", "pre-text", "rawtext":
		group = "text"
	case "attr-names", "attr-value":
		group = "attr"
	}
	switch d.Trigger {
	case "mustache-with-markup-char", "pre-leading-newline", "raw-text-inside-pre", "doctype", "namespaced-attr", "other-raw-text-element":
		return d.Trigger
	}
	if group == "attr" {
		return d.Kind + "/" + d.Trigger // one tag writer serves every element
	}
	return d.Kind + "/" + c19PathGroup(d.Where) + "/" + d.Trigger
}

// c19PathGroup folds the element classes into the few kinds of content the
// statement distinguishes (pre, raw text, everything else), for signatures.
func c19PathGroup(name string) string {
	switch c19Class(name) {
	case "pre":
		return "pre"
	case "raw-text", "raw-text-other":
		return "raw-text"
	case "foreign":
		return "foreign"
	}
	return "flow"
}

func c19Brief(n *c19N) string {
	if n == nil {
		return "(nothing)"
	}
	if n.Text {
		return fmt.Sprintf("text %q", clip(n.Data, 80))
	}
	return "<" + n.Name + ">"
}

func c19Cmp(a, b *c19N, mode string, strict bool, path string, st *c19Stats, preAnc bool) *c19Diff {
	ka, kb := c19KidsOf(a, mode, strict), c19KidsOf(b, mode, strict)
	n := len(ka)
	if len(kb) < n {
		n = len(kb)
	}
	for i := 0; i < n; i++ {
		x, y := ka[i], kb[i]
		p := fmt.Sprintf("%s/%d", path, i)
		if x.Text != y.Text {
			return &c19Diff{Kind: "node-kind", Where: a.Name, Trigger: c19TriggerNode(a, x, i, mode), Path: p, Exp: c19Brief(x), Got: c19Brief(y)}
		}
		if x.Text {
			if d := c19CmpText(a, x, y, mode, strict, p, st, preAnc, i); d != nil {
				return d
			}
			continue
		}
		if x.Name != y.Name {
			return &c19Diff{Kind: "element-name", Where: a.Name, Trigger: c19TriggerNode(a, x, i, mode), Path: p, Exp: c19Brief(x), Got: c19Brief(y)}
		}
		if x.Name == "!doctype" {
			if !strings.EqualFold(x.Data, y.Data) || fmt.Sprint(x.Attrs) != fmt.Sprint(y.Attrs) {
				return &c19Diff{Kind: "doctype-node", Where: "!doctype", Trigger: "doctype", Path: p, Exp: x.Data + fmt.Sprint(x.Attrs), Got: y.Data + fmt.Sprint(y.Attrs)}
			}
			continue
		}
		if d := c19CmpAttrs(x, y, strict, p); d != nil {
			return d
		}
		if d := c19Cmp(x, y, c19ModeFor(mode, x), strict, p+":"+x.Name, st, preAnc || x.Name == "pre"); d != nil {
			return d
		}
	}
	if len(ka) > n {
		return &c19Diff{Kind: "missing-node", Where: a.Name, Trigger: c19TriggerNode(a, ka[n], n, mode), Path: fmt.Sprintf("%s/%d", path, n), Exp: c19Brief(ka[n]), Got: "(nothing)"}
	}
	if len(kb) > n {
		return &c19Diff{Kind: "extra-node", Where: a.Name, Trigger: c19TriggerNode(a, nil, n, mode), Path: fmt.Sprintf("%s/%d", path, n), Exp: "(nothing)", Got: c19Brief(kb[n])}
	}
	return nil
}

func c19CmpText(parent, x, y *c19N, mode string, strict bool, p string, st *c19Stats, preAnc bool, idx int) *c19Diff {
	if !strict && mode == "normal" {
		switch parent.Name {
		case "noscript", "iframe", "noembed", "noframes", "xmp", "plaintext":
			// the parser keeps the content of these as text, like script/style
			if c19StripWS(x.Data) != c19StripWS(y.Data) {
				return &c19Diff{Kind: "text", Where: parent.Name, Trigger: c19TriggerText(x.Data, y.Data, "otherraw", idx, preAnc), Path: p, Exp: fmt.Sprintf("%q", x.Data), Got: fmt.Sprintf("%q", y.Data)}
			}
			return nil
		}
	}
	if strict || mode == "pre" {
		if x.Data != y.Data {
			kind := "text"
			if mode == "pre" {
				kind = "pre-text"
			}
			return &c19Diff{Kind: kind, Where: parent.Name, Trigger: c19TriggerText(x.Data, y.Data, mode, idx, preAnc), Path: p, Exp: fmt.Sprintf("%q", x.Data), Got: fmt.Sprintf("%q", y.Data)}
		}
		return nil
	}
	if mode == "raw" {
		if strings.TrimSpace(x.Data) != strings.TrimSpace(y.Data) {
			return &c19Diff{Kind: "rawtext", Where: parent.Name, Trigger: c19TriggerText(x.Data, y.Data, mode, idx, preAnc), Path: p, Exp: fmt.Sprintf("%q", x.Data), Got: fmt.Sprintf("%q", y.Data)}
		}
		return nil
	}
	if c19StripWS(x.Data) != c19StripWS(y.Data) {
		return &c19Diff{Kind: "text", Where: parent.Name, Trigger: c19TriggerText(x.Data, y.Data, mode, idx, preAnc), Path: p, Exp: fmt.Sprintf("%q", x.Data), Got: fmt.Sprintf("%q", y.Data)}
	}
	if st != nil {
		if strings.Count(x.Data, "\u00a0") != strings.Count(y.Data, "\u00a0") {
			st.nbspLost = true
		}
		if mode == "rcdata" && x.Data != y.Data {
			st.rcdataWS = true
		}
	}
	return nil
}

func c19CmpAttrs(x, y *c19N, strict bool, p string) *c19Diff {
	names := func(n *c19N) string {
		var ks []string
		for _, a := range n.Attrs {
			ks = append(ks, a[0])
		}
		sort.Strings(ks)
		return "[" + strings.Join(ks, " ") + "]"
	}
	if names(x) != names(y) {
		trig := "plain"
		for _, a := range x.Attrs {
			if strings.Contains(a[0], ":") && !strings.HasPrefix(a[0], ":") && (strings.HasPrefix(a[0], "xlink:") || strings.HasPrefix(a[0], "xml:") || strings.HasPrefix(a[0], "xmlns:")) {
				trig = "namespaced-attr"
			}
		}
		return &c19Diff{Kind: "attr-names", Where: x.Name, Trigger: trig, Path: p, Exp: names(x), Got: names(y)}
	}
	// the parser keeps repeated attribute names (vuego uses e.g. several :require); the
	// k-th occurrence of a name is compared with the k-th occurrence on the other side
	ym := map[string][]string{}
	for _, a := range y.Attrs {
		ym[a[0]] = append(ym[a[0]], a[1])
	}
	for _, a := range x.Attrs {
		gotv := ym[a[0]][0]
		ym[a[0]] = ym[a[0]][1:]
		ev, gv := a[1], gotv
		if !strict {
			ev, gv = c19Collapse(ev), c19Collapse(gv)
		}
		if ev != gv {
			trig := "other"
			switch {
			case strings.Contains(a[1], `"`):
				trig = "value-has-dquote"
			case strings.Contains(a[1], "&"):
				trig = "value-has-amp"
			case strings.ContainsAny(a[1], "<>"):
				trig = "value-has-angle"
			case strings.Contains(a[1], "'"):
				trig = "value-has-squote"
			}
			return &c19Diff{Kind: "attr-value", Where: x.Name, Trigger: trig, Path: p + "@" + a[0], Exp: fmt.Sprintf("%q", a[1]), Got: fmt.Sprintf("%q", gotv)}
		}
	}
	return nil
}

var c19MustacheRe = regexp.MustCompile(`(?s)\{\{(.*?)\}\}`)

// c19MustacheSpecial: the text holds a mustache whose inside contains a character
// that is significant for HTML tokenisation.
func c19MustacheSpecial(s string) bool {
	for _, m := range c19MustacheRe.FindAllStringSubmatch(s, -1) {
		if strings.ContainsAny(m[1], "<>&") {
			return true
		}
	}
	return false
}

func c19TriggerText(exp, got, mode string, idx int, preAnc bool) string {
	switch {
	case mode == "otherraw":
		return "other-raw-text-element"
	case mode == "raw" && preAnc:
		return "raw-text-inside-pre"
	case c19MustacheSpecial(exp):
		return "mustache-with-markup-char"
	case mode == "pre" && idx == 0 && strings.HasPrefix(exp, "\n"):
		return "pre-leading-newline"
	case strings.ContainsAny(exp, "<>&"):
		return "markup-char"
	}
	return "plain"
}

// c19TriggerNode classifies a structural difference by what surrounds it on the expected side.
func c19TriggerNode(parent, x *c19N, idx int, mode string) string {
	if x != nil && x.Name == "!doctype" {
		return "doctype"
	}
	if mode == "pre" && idx == 0 && x != nil && x.Text && strings.HasPrefix(x.Data, "\n") {
		return "pre-leading-newline"
	}
	if c19MustacheSpecial(c19DeepText(parent)) {
		return "mustache-with-markup-char"
	}
	switch parent.Name {
	case "script", "style", "noscript", "iframe", "noembed", "noframes", "xmp":
		return "raw-text-parent"
	}
	return "structure"
}

func c19DeepText(n *c19N) string {
	var b strings.Builder
	var walk func(*c19N)
	walk = func(x *c19N) {
		for _, k := range x.Kids {
			if k.Text {
				b.WriteString(k.Data)
			} else {
				walk(k)
			}
		}
	}
	walk(n)
	return b.String()
}

func c19CollectMustaches(n *c19N, out *[]string) {
	for _, k := range n.Kids {
		if k.Text {
			// per text node of the parser: the engine never sees a mustache that spans a comment
			for _, seg := range k.Segs {
				for _, m := range c19MustacheRe.FindAllStringSubmatch(seg, -1) {
					*out = append(*out, c19Collapse(m[1]))
				}
			}
			continue
		}
		c19CollectMustaches(k, out)
	}
}

func c19Class(name string) string {
	switch {
	case name == "#root":
		return "root"
	case name == "!doctype":
		return "doctype"
	case strings.Contains(name, ":"):
		return "foreign"
	case strings.Contains(name, "-"):
		return "custom"
	}
	switch name {
	case "br", "hr", "img", "input", "meta", "link", "area", "base", "col", "embed", "source", "track", "wbr", "param":
		return "void"
	case "script", "style":
		return "raw-text"
	case "textarea", "title":
		return "rcdata"
	case "pre":
		return "pre"
	case "table", "thead", "tbody", "tfoot", "tr", "td", "th", "caption", "colgroup":
		return "table"
	case "html", "head", "body":
		return "document"
	case "template", "slot":
		return "template"
	case "span", "a", "b", "i", "em", "strong", "code", "small", "label", "u", "s", "sub", "sup", "abbr", "q", "cite", "button", "time", "kbd", "mark", "bdi", "bdo", "data", "dfn", "samp", "var":
		return "inline"
	case "p", "h1", "h2", "h3", "h4", "h5", "h6", "dt", "dd", "figcaption", "summary", "legend":
		return "phrasing-container"
	case "noscript", "iframe", "noembed", "noframes", "xmp", "plaintext":
		return "raw-text-other"
	}
	return "block"
}

// c19SplitFrontMatter applies the engine's front-matter rule. ok=false when the
// closing line is not exactly "---" (ambiguous boundary).
func c19SplitFrontMatter(src string) (block, body string, has, clean bool) {
	if !strings.HasPrefix(src, "---") {
		return "", src, false, true
	}
	idx := strings.Index(src[3:], "\n---")
	if idx < 0 {
		return "", src, false, true
	}
	end := 3 + idx + 4 // just past the closing ---
	rest := src[end:]
	nl := strings.IndexByte(rest, '\n')
	lineRest := rest
	if nl >= 0 {
		lineRest = rest[:nl]
	}
	// the opening line must be exactly --- too
	openEnd := strings.IndexByte(src, '\n')
	open := src[:openEnd]
	clean = (lineRest == "" || lineRest == "\r") && (open == "---" || open == "---\r")
	if nl >= 0 {
		return src[:end+nl+1], rest[nl+1:], true, clean
	}
	return src[:end] + lineRest, "", true, clean
}

func c19Formatter(opts string) *formatter.Formatter {
	switch opts {
	case "i4":
		return formatter.NewFormatterWithOptions(formatter.FormatterOptions{IndentWidth: 4, InsertFinal: true})
	case "i0":
		return formatter.NewFormatterWithOptions(formatter.FormatterOptions{IndentWidth: 0, InsertFinal: true})
	case "nofinal":
		return formatter.NewFormatterWithOptions(formatter.FormatterOptions{IndentWidth: 2, InsertFinal: false})
	case "i4nofinal":
		return formatter.NewFormatterWithOptions(formatter.FormatterOptions{IndentWidth: 4, InsertFinal: false})
	}
	return formatter.NewFormatter()
}

var c19StartTagRe = regexp.MustCompile(`<([a-zA-Z][a-zA-Z0-9-]*)`)

// c19EnclosingGroup: path group of the nearest start tag before offset off in s.
func c19EnclosingGroup(s string, off int) string {
	if off > len(s) {
		off = len(s)
	}
	ms := c19StartTagRe.FindAllStringSubmatch(s[:off], -1)
	if len(ms) == 0 {
		return "flow"
	}
	return c19PathGroup(strings.ToLower(ms[len(ms)-1][1]))
}

func c19FirstDiff(a, b string) int {
	n := len(a)
	if len(b) < n {
		n = len(b)
	}
	for i := 0; i < n; i++ {
		if a[i] != b[i] {
			return i
		}
	}
	return n
}

func c19Excerpt(s string, off int) string {
	lo, hi := off-60, off+60
	if lo < 0 {
		lo = 0
	}
	if hi > len(s) {
		hi = len(s)
	}
	return fmt.Sprintf("%q", s[lo:hi])
}

// ---------------------------------------------------------------- exec

func (p *c19) Exec(ctx core.Ctx, cc any) core.Obs {
	c := cc.(c19Case)
	var o core.Obs
	f := c19Formatter(c.Opts)
	optTag := c.Opts
	if optTag == "" {
		optTag = "default"
	}

	var y1 string
	var err error
	if c.Opts == "" && len(c.Src)%2 == 0 {
		y1, err = formatter.FormatString(c.Src)
	} else {
		y1, err = f.Format(c.Src)
	}
	o.Evals++
	o.Cell("part/" + c.Part)
	o.Cell("opts/" + optTag)

	fmBlock, body, hasFM, cleanFM := c19SplitFrontMatter(c.Src)
	cx := c19Context(body)
	o.Cell("context/" + cx.name)
	if hasFM {
		o.Cell("has/front-matter")
	}
	if strings.Contains(c.Src, "\r\n") {
		o.Cell("has/crlf-line-ends")
	}

	if err != nil {
		o.Fail(c, "error/"+cx.name, "Format returned an error for parseable input: %v\nsource: %q", err, clip(c.Src, 600))
		return o
	}

	// ---- idempotence
	y2, err2 := f.Format(y1)
	o.Evals++
	if err2 != nil {
		o.Fail(c, "error-second-pass/"+cx.name, "Format(Format(src)) returned an error: %v\nsource: %q\nfirst pass: %q", err2, clip(c.Src, 600), clip(y1, 600))
		return o
	}
	o.Cell("judged/idempotence")
	if y2 != y1 {
		sig := p.idemSig(y1, y2)
		off := c19FirstDiff(y1, y2)
		o.Fail(c, sig, "Format(Format(src)) != Format(src) (options %s), first difference at byte %d\n first pass: %s\nsecond pass: %s\nsource: %q", optTag, off, c19Excerpt(y1, off), c19Excerpt(y2, off), clip(c.Src, 600))
	}

	// ---- front-matter bytes
	outBody := y1
	if hasFM && !cleanFM {
		o.Cell("not-judged/front-matter-boundary-ambiguous")
		return o
	}
	if hasFM {
		want := fmBlock
		if !strings.HasSuffix(want, "\n") {
			want += "\n" // block at end of file: the closing line gets its terminator
		}
		if !strings.HasPrefix(y1, want) {
			off := c19FirstDiff(y1, want)
			o.Fail(c, "front-matter/not-byte-identical", "front-matter block not kept byte for byte (first difference at byte %d)\nexpected prefix: %q\ngot: %q", off, want, clip(y1, len(want)+80))
			return o
		}
		outBody = y1[len(want):]
		o.Cell("judged/front-matter-bytes")
	}

	// ---- doctype bytes
	tb := c19SkipLead(body)
	doctypeJudged, doctypeLost := false, ""
	if dt := c19DoctypeRe.FindString(tb); dt != "" {
		doctypeJudged = true
		kind := "uppercase"
		if !strings.HasPrefix(dt, "<!DOCTYPE") {
			kind = "other-case"
		}
		if len(dt) > len("<!DOCTYPE html>") {
			kind += "-long"
		}
		o.Cell("has/doctype/" + kind)
		if len(tb) != len(strings.TrimLeftFunc(body, unicode.IsSpace)) {
			kind += "-after-comment"
		}
		if !strings.HasPrefix(c19SkipLead(outBody), dt) {
			doctypeLost = kind
			o.Fail(c, "doctype/not-kept/"+kind, "doctype not kept byte for byte at the start of the formatted body\nexpected: %q\nformatted body starts: %q\nsource: %q", dt, clip(outBody, 120), clip(c.Src, 400))
		} else {
			o.Cell("judged/doctype-bytes")
		}
	}

	// ---- meaning preservation
	want, e1 := c19Parse(body, cx)
	got, e2 := c19Parse(outBody, cx)
	if e1 != nil || e2 != nil {
		o.Inconclusive = fmt.Sprintf("reference parser failed: %v / %v", e1, e2)
		return o
	}
	if doctypeJudged {
		// already decided on the bytes; do not report the same loss a second time
		want.Kids, got.Kids = c19DropDoctype(want.Kids), c19DropDoctype(got.Kids)
	}
	if len(want.Kids) > 0 {
		o.NT(c.Src, c.Opts)
	}
	p.cells(&o, want, body)
	if !c19Stable(body, cx) {
		o.Cell("not-judged/preservation/source-dom-not-serialisable")
		return o
	}
	if tw, e := c19Parse(strings.TrimSpace(body), cx); e == nil {
		if doctypeJudged {
			tw.Kids = c19DropDoctype(tw.Kids)
		}
		if c19Compare(want, tw, "normal", false, nil) != nil {
			// e.g. an unclosed formatting element that the parser re-opens for the white space after </html>:
			// the DOM is an artefact of error recovery on the file's outer white space
			o.Cell("not-judged/preservation/source-dom-depends-on-outer-whitespace")
			return o
		}
	}
	o.Cell("judged/preservation")
	var st c19Stats
	if d := c19Compare(want, got, "normal", false, &st); d != nil {
		sig := "preserve/" + d.Sig()
		if cl := c19Class(d.Where); doctypeLost != "" && (cl == "document" || cl == "root") {
			// the document was not recognised as one: same root cause as the lost doctype
			sig = "doctype/not-kept/" + doctypeLost + "/document-structure-lost"
		} else if !cx.doc && cx.name != "body" && d.Where == "#root" {
			// the table-scoped elements at the top of the fragment did not survive
			sig = "preserve/table-scoped-fragment-not-recognised"
		} else if doctypeJudged && cx.doc {
			// classification only: does the source parse differently once its doctype is cut off (quirks mode)?
			dt := c19DoctypeRe.FindString(tb)
			if alt, e := c19Parse(tb[len(dt):], cx); e == nil {
				alt.Kids = c19DropDoctype(alt.Kids)
				if c19Compare(want, alt, "normal", false, nil) != nil {
					sig = "preserve/document-parsed-without-its-doctype"
				}
			}
		}
		o.Fail(c, sig, "the formatted text does not parse to the same content (context %s): %s\nsource: %q\nformatted: %q", cx.name, d, clip(c.Src, 700), clip(y1, 700))
		return o
	}
	var mw, mg []string
	c19CollectMustaches(want, &mw)
	c19CollectMustaches(got, &mg)
	if len(mw) > 0 {
		o.Cell("judged/mustache-list")
	}
	if strings.Join(mw, "\x00") != strings.Join(mg, "\x00") {
		o.Fail(c, "preserve/mustache-list", "mustache expressions differ\nexpected: %q\ngot: %q\nsource: %q\nformatted: %q", mw, mg, clip(c.Src, 700), clip(y1, 700))
	}
	if st.nbspLost {
		o.Cell("not-judged/no-break-space-dropped")
	}
	if st.rcdataWS {
		o.Cell("not-judged/textarea-title-whitespace-changed")
	}
	if c.Part == "gen" && hasFM && cx.doc {
		o.Sample = map[string]any{"source": c.Src, "formatted": y1, "context": cx.name}
	}
	return o
}

func c19DropDoctype(ks []*c19N) []*c19N {
	var out []*c19N
	for _, k := range ks {
		if !k.Text && k.Name == "!doctype" {
			continue
		}
		out = append(out, k)
	}
	return out
}

// idemSig classifies a failed idempotence by what differs between the two passes.
func (p *c19) idemSig(y1, y2 string) string {
	off := c19FirstDiff(y1, y2)
	if c19RiskyMustacheBefore(y1, off) {
		// the first pass wrote a mustache whose inside re-tokenises as markup
		return "idempotence/mustache-with-markup-char"
	}
	bc := c19ByteContext(y1, off)
	if bc == "pre-leading-newline" {
		return "idempotence/pre-leading-newline"
	}
	if !strings.HasPrefix(bc, "layout/") && bc != "inside-tag" {
		return "idempotence/bytes-only/" + bc
	}
	riskyAnywhere := c19RiskyMustacheBefore(y1, len(y1))
	_, b1, _, _ := c19SplitFrontMatter(y1)
	_, b2, _, _ := c19SplitFrontMatter(y2)
	cx := c19Context(b1)
	d1, e1 := c19Parse(b1, cx)
	d2, e2 := c19Parse(b2, cx)
	if e1 == nil && e2 == nil {
		if d := c19Compare(d1, d2, "normal", false, nil); d != nil {
			sg := d.Sig()
			if strings.HasPrefix(sg, "mustache-with-markup-char") {
				return "idempotence/mustache-with-markup-char"
			}
			if riskyAnywhere && strings.Count(sg, "/") >= 1 && !strings.HasPrefix(sg, "pre-leading-newline") && !strings.HasPrefix(sg, "raw-text-inside-pre") && !strings.HasPrefix(sg, "other-raw-text-element") {
				// generic difference in a text that also holds such a mustache
				return "idempotence/mustache-with-markup-char"
			}
			return "idempotence/" + sg
		}
	}
	if riskyAnywhere {
		return "idempotence/mustache-with-markup-char"
	}
	return "idempotence/bytes-only/" + bc
}

var c19RiskyRe = regexp.MustCompile(`<[a-zA-Z/!?]|&[a-zA-Z0-9#]`)

// c19RiskyMustacheBefore: s holds, starting at or before off, a {{ }} span whose
// inside would be tokenised as a tag or a character reference.
func c19RiskyMustacheBefore(s string, off int) bool {
	for _, m := range c19MustacheRe.FindAllStringSubmatchIndex(s, -1) {
		if m[0] > off {
			break
		}
		if c19RiskyRe.MatchString(s[m[2]:m[3]]) {
			return true
		}
	}
	return false
}

func c19IsNameByte(ch byte) bool {
	return ch >= 'a' && ch <= 'z' || ch >= 'A' && ch <= 'Z' || ch >= '0' && ch <= '9' || ch == '-'
}

// c19ByteContext says where in the formatted text s the byte at off lies; used
// only to classify idempotence failures whose two passes have the same DOM.
func c19ByteContext(s string, off int) string {
	if off > len(s) {
		off = len(s)
	}
	inTag, inMust := false, false
	var quote byte
	lastTag, afterTag := "", -1
	nameStart := -1
	for i := 0; i < off; i++ {
		ch := s[i]
		if inTag {
			if nameStart >= 0 && !c19IsNameByte(ch) {
				lastTag = strings.ToLower(s[nameStart:i])
				nameStart = -1
			}
			switch {
			case quote != 0:
				if ch == quote {
					quote = 0
				}
			case ch == '"' || ch == '\'':
				quote = ch
			case ch == '>':
				inTag = false
				afterTag = i + 1
			}
			continue
		}
		if inMust {
			if ch == '}' && i+1 < len(s) && s[i+1] == '}' {
				inMust = false
				i++
			}
			continue
		}
		if ch == '{' && i+1 < len(s) && s[i+1] == '{' && strings.Contains(s[i+2:], "}}") {
			inMust = true
			i++
			continue
		}
		if ch == '<' && i+1 < len(s) {
			n := s[i+1]
			if n >= 'a' && n <= 'z' || n >= 'A' && n <= 'Z' {
				inTag, nameStart = true, i+1
			} else if n == '/' {
				inTag = true
				lastTag = ""
			}
		}
	}
	switch {
	case inMust:
		return "inside-mustache"
	case inTag && quote != 0:
		return "inside-attr-value"
	case inTag && strings.HasPrefix(s[off:], `=""`):
		return "empty-attr-value-form"
	case inTag:
		return "inside-tag"
	case lastTag == "pre" && afterTag == off:
		return "pre-leading-newline"
	}
	return "layout/" + c19EnclosingGroup(s, off)
}

// cells records what the source actually contains (from its reference DOM).
func (p *c19) cells(o *core.Obs, root *c19N, body string) {
	seen := map[string]bool{}
	mark := func(s string) {
		if !seen[s] {
			seen[s] = true
			o.Cell(s)
		}
	}
	var walk func(n *c19N, parentClass string, inPre bool)
	walk = func(n *c19N, parentClass string, inPre bool) {
		for _, k := range n.Kids {
			if k.Text {
				if m := c19MustacheRe.FindAllStringSubmatch(k.Data, -1); len(m) > 0 {
					mark("has/mustache")
					for _, x := range m {
						if strings.ContainsAny(x[1], "<>&") {
							mark("has/mustache-with-<>&")
						}
					}
				}
				if strings.ContainsAny(k.Data, "<>&") {
					mark("has/text-with-<>&")
				}
				if inPre && strings.HasPrefix(k.Data, "\n") && k == n.Kids[0] {
					mark("has/pre-leading-newline")
				}
				continue
			}
			cl := c19Class(k.Name)
			mark("has/element/" + cl)
			if cl == "inline" && (parentClass == "block" || parentClass == "root" || parentClass == "custom") && len(n.Kids) > 1 {
				mark("has/inline-in-block-with-siblings")
			}
			if cl == "block" && parentClass == "inline" {
				mark("has/block-in-inline")
			}
			for _, a := range k.Attrs {
				v := a[1]
				switch {
				case strings.HasPrefix(a[0], "v-") || strings.HasPrefix(a[0], ":") || strings.HasPrefix(a[0], "@") || strings.HasPrefix(a[0], "#") || strings.HasPrefix(a[0], "["):
					mark("has/attr-directive")
				}
				if v == "" {
					mark("has/attr-empty-or-bare")
				}
				if strings.Contains(v, `"`) {
					mark("has/attr-value-dquote")
				}
				if strings.Contains(v, "'") {
					mark("has/attr-value-squote")
				}
				if strings.Contains(v, "&") {
					mark("has/attr-value-amp")
				}
				if strings.ContainsAny(v, "<>") {
					mark("has/attr-value-angle")
				}
				if strings.ContainsAny(v, "\n\t") || strings.Contains(v, "  ") {
					mark("has/attr-value-newline-or-blank-run")
				}
				if strings.Contains(v, "{{") {
					mark("has/attr-value-mustache")
				}
			}
			walk(k, cl, inPre || k.Name == "pre")
		}
	}
	walk(root, "root", false)
	if strings.Contains(body, "<!--") {
		mark("has/comment")
	}
}
