package props

import (
	"sync"
	"sync/atomic"

	vuego "github.com/titpetric/vuego"
)

// The engine has a single hook slot; monitors of different checks register
// here and a dispatcher fans the events out. Registration happens before the
// workload starts; the list is read through an atomic pointer so the monitor is
// not itself a race.
var (
	hookMu   sync.Mutex
	hookList atomic.Pointer[[]func(point, a, b int)]
)

func addHook(f func(point, a, b int)) {
	hookMu.Lock()
	defer hookMu.Unlock()
	var cur []func(point, a, b int)
	if p := hookList.Load(); p != nil {
		cur = append(cur, *p...)
	}
	cur = append(cur, f)
	hookList.Store(&cur)
	vuego.SetVerifHook(func(point, a, b int) {
		if p := hookList.Load(); p != nil {
			for _, h := range *p {
				h(point, a, b)
			}
		}
	})
}

// pushHook registers f for the duration of one case and returns its remover.
func pushHook(f func(point, a, b int)) func() {
	type boxed struct{ f func(point, a, b int) }
	bx := &boxed{f}
	wrapped := func(point, a, b int) {
		if g := bx.f; g != nil {
			g(point, a, b)
		}
	}
	addHook(wrapped)
	return func() {
		hookMu.Lock()
		defer hookMu.Unlock()
		bx.f = nil
		// drop cleared entries so the list does not grow with the number of cases
		if p := hookList.Load(); p != nil {
			var kept []func(point, a, b int)
			for _, h := range *p {
				kept = append(kept, h)
			}
			// remove the last occurrence (the one pushed by this call)
			if n := len(kept); n > 0 {
				kept = kept[:n-1]
			}
			hookList.Store(&kept)
		}
	}
}
