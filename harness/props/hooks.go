package props

import (
	"sync"
	"sync/atomic"

	vuego "github.com/titpetric/vuego"
)

// The engine has a single hook slot; monitors of different checks register
// here and a dispatcher fans the events out. Registration happens before the
// workload starts; the list is read through an atomic pointer so the monitor is
// not itself a race.
var (
	hookMu   sync.Mutex
	hookList atomic.Pointer[[]func(point, a, b int)]
)

func addHook(f func(point, a, b int)) {
	hookMu.Lock()
	defer hookMu.Unlock()
	var cur []func(point, a, b int)
	if p := hookList.Load(); p != nil {
		cur = append(cur, *p...)
	}
	cur = append(cur, f)
	hookList.Store(&cur)
	vuego.SetVerifHook(func(point, a, b int) {
		if p := hookList.Load(); p != nil {
			for _, h := range *p {
				h(point, a, b)
			}
		}
	})
}
