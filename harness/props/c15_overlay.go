package props

import (
	"bytes"
	"fmt"
	"strings"
	"testing/fstest"
	"time"

	vuego "github.com/titpetric/vuego"

	"verifharness/core"
)

// C15 "overlay" histories: the engines run on a vuego.OverlayFS of two layers.
// The upper layer is the one being edited; the lower layer holds files of the
// same names (the theme that the upper layer overrides) whose modification
// times are older than or NEWER than the overriding files - an
// override copied from an old backup over a freshly installed theme. The file
// that is served is the upper one, so an edit of the upper one must show up.
// The reference is a fresh engine on the same overlay after every step.

var c15OvLower = []string{"older", "newer"}
var c15OvHists = [][]string{
	{"R", "EP", "R", "EP", "R"},
	{"R", "EL", "R", "EP", "R", "EL", "R"},
	{"R", "EC", "R", "EP", "EC", "R"},
	{"R", "DP", "R", "CP", "R"}, // delete the override (the lower file shows through), put it back
	{"R", "DL", "R", "CL", "R", "EL", "R"},
	{"EP", "R", "R", "EL", "EC", "R"},
}
var c15OvEntries = []string{"R1", "R2", "R3"}

func c15NOverlay() int { return len(c15OvLower) * len(c15OvHists) * len(c15OvEntries) }

func c15GenOverlay(i int) c15Case {
	lower := c15OvLower[i%len(c15OvLower)]
	i /= len(c15OvLower)
	entry := c15OvEntries[i%len(c15OvEntries)]
	i /= len(c15OvEntries)
	return c15Case{Ops: append([]string{"OVERLAY", lower, entry}, c15OvHists[i%len(c15OvHists)]...)}
}

func c15ExecOverlay(c c15Case) core.Obs {
	var o core.Obs
	lowerAge, entry, hist := c.Ops[1], c.Ops[2], c.Ops[3:]
	o.NT(mustJSON(c))
	o.Cell("overlay/lower-" + lowerAge + "/" + entry)
	base := time.Unix(1700000000, 0).UTC()
	lowerTime := map[string]time.Time{"older": base.Add(-24 * time.Hour), "equal": base, "newer": base.Add(24 * time.Hour)}[lowerAge]
	upper, lower := fstest.MapFS{}, fstest.MapFS{}
	version := 0
	clock := base
	put := func(fsys fstest.MapFS, file string, mt time.Time) {
		version++
		fsys[file] = &fstest.MapFile{Data: []byte(c15Content(file, version, version, true)), Mode: 0o644, ModTime: mt}
	}
	for _, f := range []string{c15Page, c15Comp, c15Lay} {
		put(lower, f, lowerTime)
	}
	for _, f := range []string{c15Page, c15Comp, c15Lay} {
		put(upper, f, clock)
	}
	mk := func() c15Engines {
		ov := vuego.NewOverlayFS(upper, lower)
		return c15Engines{base: vuego.NewFS(ov, vuego.WithComponents()), vue: vuego.NewVue(ov)}
	}
	render := func(e c15Engines) (string, error) {
		var b bytes.Buffer
		var err error
		switch entry {
		case "R1":
			err = e.base.Load(c15Page).Fill(map[string]any{"x": 1}).Render(bg, &b)
		case "R2":
			err = e.base.New().RenderFile(bg, &b, c15Page)
		default:
			err = e.vue.Render(&b, c15Page, map[string]any{"x": 1})
		}
		return b.String(), err
	}
	long := mk()
	last := "start"
	for step, op := range hist {
		file := map[byte]string{'P': c15Page, 'C': c15Comp, 'L': c15Lay}[op[len(op)-1]]
		switch op[0] {
		case 'E', 'C': // edit / create the overriding file: the mtime advances by a second, staying a day away from the lower layer's
			clock = clock.Add(time.Second)
			put(upper, file, clock)
			last = op
		case 'D':
			delete(upper, file)
			last = op
		case 'R':
			o.Evals += 2
			got, gerr := render(long)
			want, werr := render(mk())
			sig := fmt.Sprintf("overlay/lower-layer-%s", lowerAge)
			if (gerr != nil) != (werr != nil) {
				o.Fail(c, sig+"/error-ness-differs/after-"+last, "step %d (%s after %s) on OverlayFS(upper, lower): long-lived engine err=%v, fresh engine err=%v", step, entry, last, gerr, werr)
				return o
			}
			if gerr == nil && strings.Join(strings.Fields(got), " ") != strings.Join(strings.Fields(want), " ") {
				o.Fail(c, sig+"/stale-or-different-output/after-"+last, "step %d (%s after %s) on OverlayFS(upper, lower), the lower layer's files being %s than the overriding ones\nlong-lived engine: %s\nfresh engine:      %s", step, entry, last, lowerAge, clip(got, 600), clip(want, 600))
				return o
			}
		}
	}
	return o
}
